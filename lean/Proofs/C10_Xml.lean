/-
  C10_Xml — helper lemmas for the XML text path: the one-element-list collapse `xmlNorm` on written trees,
  `uc.value_unit` after the collapse (a length-1 vector is read as a scalar), and how `Atoms(model=…)` undoes it
  by broadcasting.
-/
import Proofs.C10_System
namespace Atomman.C10
set_option linter.unusedSimpArgs false
set_option linter.unusedVariables false
variable {K : Type}

/-! ### the XML one-element-list collapse on written trees -/

theorem xmlNormL_eq_map (l : List (DM K)) : xmlNormL l = l.map xmlNorm := by
  induction l with
  | nil => simp [xmlNormL]
  | cons a l ih => simp [xmlNormL, ih]

theorem xmlNormKV_append (a b : List (String × DM K)) : xmlNormKV (a ++ b) = xmlNormKV a ++ xmlNormKV b := by
  induction a with
  | nil => simp [xmlNormKV]
  | cons x a ih => obtain ⟨k, v⟩ := x; simp [xmlNormKV, ih]

theorem xmlNorm_leaves (l : List (Sc K)) : (l.map DM.leaf).map xmlNorm = l.map DM.leaf := by
  induction l with
  | nil => rfl
  | cons a l ih => simp [xmlNorm, ih] at ih ⊢

/-- a list of leaves after the collapse. -/
def collapse1 (l : List (Sc K)) : DM K :=
  match l with
  | [x] => DM.leaf x
  | _ => DM.list (l.map DM.leaf)

/-- a list of leaves: collapsed when it has exactly one element. -/
theorem xmlNorm_leafList (l : List (Sc K)) : xmlNorm (DM.list (l.map DM.leaf)) = collapse1 l := by
  rw [xmlNorm, xmlNormL_eq_map, xmlNorm_leaves]
  rcases l with _ | ⟨a, _ | ⟨b, r⟩⟩ <;> simp [collapse1]

theorem xmlNormKV_shapeEntry (sh : List Nat) : xmlNormKV (shapeEntry (K := K) sh) = shapeEntry sh := by
  rcases sh with _ | ⟨n, _ | ⟨m, r⟩⟩
  · simp [shapeEntry, xmlNormKV]
  · simp [shapeEntry, xmlNormKV]
  · simp only [shapeEntry, xmlNormKV]
    have := xmlNorm_leafList (K := K) ((n :: m :: r).map (fun (k : Nat) => (Sc.int (Int.ofNat k) : Sc K)))
    simp only [List.map_cons, collapse1] at this ⊢
    rw [this]

theorem xmlNormKV_unitEntry (u : Option String) : xmlNormKV (unitEntry (K := K) u) = unitEntry u := by
  cases u <;> simp [unitEntry, xmlNormKV, xmlNorm]

theorem xmlNorm_ucNode (v : DM K) (sh : List Nat) (u : Option String) :
    xmlNorm (DM.node (("value", v) :: (shapeEntry sh ++ unitEntry u))) =
      DM.node (("value", xmlNorm v) :: (shapeEntry sh ++ unitEntry u)) := by
  simp [xmlNorm, xmlNormKV, xmlNormKV_append, xmlNormKV_shapeEntry, xmlNormKV_unitEntry]


/-- the shape `uc.value_unit` sees after the XML text codec: a length-1 vector has become a scalar. -/
def xmlShape (sh : List Nat) : List Nat := if sh = [1] then [] else sh

theorem leafList_match_ne (l : List (Sc K)) (h : ∀ x, l ≠ [x]) : collapse1 l = DM.list (l.map DM.leaf) := by
  rcases l with _ | ⟨a, _ | ⟨b, r⟩⟩
  · rfl
  · exact absurd rfl (h a)
  · rfl

section field
variable [Field K]

theorem valueUnit_node_xml (fac : String → K) (sh : List Nat) (units : Option String) (d d' : Data K) (v : DM K)
    (hd : d.length = prodNat sh) (hne : d.length ≠ 0 ∨ ∃ l, d = Data.flt l)
    (hv : valueNode sh d.toScs = some v) (hu : applyUnit fac units d = some d') :
    valueUnit fac (xmlNorm (DM.node (("value", v) :: (shapeEntry sh ++ unitEntry units)))) = some ⟨xmlShape sh, d'⟩ := by
  have hscs := ofScs_toScs d hne
  have hlen := applyUnit_length fac units d d' hu
  rw [xmlNorm_ucNode]
  unfold valueUnit
  rw [node_get_value, node_unitOf, node_get_shape]
  rcases sh with _ | ⟨n, _ | ⟨m, r⟩⟩
  · -- rank 0
    have h1 : d.toScs.length = 1 := by rw [toScs_length, hd]; rfl
    obtain ⟨x, hx⟩ := List.length_eq_one_iff.mp h1
    rw [hx] at hv hscs
    simp only [valueNode, Option.some.injEq] at hv
    subst hv
    simp [xmlNorm, hscs, hu, xmlShape]
  · simp only [valueNode, Option.some.injEq] at hv
    subst hv
    have hn : d.length = n := by simpa [prodNat] using hd
    rw [xmlNorm_leafList]
    by_cases h1 : n = 1
    · subst h1
      have h1' : d.toScs.length = 1 := by rw [toScs_length, hn]
      obtain ⟨x, hx⟩ := List.length_eq_one_iff.mp h1'
      rw [hx] at hscs
      simp [hx, hscs, hu, xmlShape, collapse1]
    · have hnot : ∀ x, d.toScs ≠ [x] := by
        intro x hx
        have := congrArg List.length hx
        rw [toScs_length, hn] at this
        exact h1 (by simpa using this)
      have hsh : xmlShape [n] = [n] := by simp [xmlShape, h1]
      rw [hsh, leafList_match_ne _ hnot]
      simp only [leaves?_map_leaf, hscs, Option.map_some, hu, toScs_length, hn]
  · simp only [valueNode, Option.some.injEq] at hv
    subst hv
    have hsh : xmlShape (n :: m :: r) = n :: m :: r := by simp [xmlShape]
    rw [hsh, xmlNorm_leafList]
    by_cases hone : ∃ x, d.toScs = [x]
    · obtain ⟨x, heq⟩ := hone
      rw [heq] at hscs
      simp only [heq, collapse1, hscs, Option.map_some, hu, leaves?_map_leaf, Option.bind_some, natList?_ofNat, hlen, hd, if_true]
    · rw [leafList_match_ne _ (fun x hx => hone ⟨x, hx⟩)]
      simp only [leaves?_map_leaf, hscs, Option.map_some, hu, Option.bind_some, natList?_ofNat, hlen, hd, if_true]

/-- write under `fac1`, XML text, read under `fac2`. -/
theorem valueUnit_model_two_xml (fac1 fac2 : String → K) (units : Option String) (a : Arr K)
    (hw : a.data.length = prodNat a.shape) (hne : prodNat a.shape ≠ 0)
    (hs : ∀ l, a.data = Data.str l → units = none) :
    ∃ t, ucModel fac1 units a = some t ∧
      valueUnit fac2 (xmlNorm t) = some ⟨xmlShape a.shape, a.data.rescale fac1 fac2 units⟩ := by
  obtain ⟨dw, h1, h2, h5⟩ := writeData_applyUnit fac1 fac2 units a.data hs
  obtain ⟨v, hv⟩ := valueNode_isSome a.shape dw (by rw [h2, hw])
  refine ⟨DM.node (("value", v) :: (shapeEntry a.shape ++ unitEntry units)), by simp only [ucModel, h1, hv], ?_⟩
  exact valueUnit_node_xml fac2 a.shape units dw _ v (by rw [h2, hw]) (Or.inl (by rw [h2, hw]; exact hne)) hv h5
end field

/-- `q` is property `p` as `uc.value_unit` returns it from XML text: same name and buffer, and the same shape
    except that a length-1 vector has become a scalar. -/
def Squeezes (q p : String × Arr K) : Prop :=
  q.1 = p.1 ∧ q.2.data = p.2.data ∧ (q.2.shape = p.2.shape ∨ (p.2.shape = [1] ∧ q.2.shape = []))

theorem Squeezes.refl (p : String × Arr K) : Squeezes p p := ⟨rfl, rfl, Or.inl rfl⟩

theorem squeezes_xmlShape (name : String) (sh : List Nat) (d : Data K) :
    Squeezes (name, ⟨xmlShape sh, d⟩) (name, ⟨sh, d⟩) := by
  refine ⟨rfl, rfl, ?_⟩
  by_cases h : sh = [1]
  · exact Or.inr ⟨h, by simp [xmlShape, h]⟩
  · exact Or.inl (by simp [xmlShape, h])

theorem bcast_squeezed (n : Nat) (q p : String × Arr K) (t : List Nat) (hp : p.2.shape = n :: t) (h : Squeezes q p) :
    bcast n q.2 = some p.2 := by
  obtain ⟨_, hd, hs | ⟨hs1, hs2⟩⟩ := h
  · have : q.2 = p.2 := by
      obtain ⟨qn, ⟨qs, qd⟩⟩ := q; obtain ⟨pn, ⟨ps, pd⟩⟩ := p; simp_all
    rw [this]; exact bcast_self n p.2 t hp
  · obtain ⟨qn, ⟨qs, qd⟩⟩ := q; obtain ⟨pn, ⟨ps, pd⟩⟩ := p
    simp only at hd hs1 hs2 hp
    subst hd; subst hs2; subst hs1
    simp only [List.cons.injEq] at hp
    obtain ⟨rfl, rfl⟩ := hp
    simp [bcast, rep_one]

theorem forall2_squeezes_fst (qs l : List (String × Arr K)) (h : List.Forall₂ Squeezes qs l) :
    qs.map Prod.fst = l.map Prod.fst := by
  induction h with
  | nil => rfl
  | cons h1 _ ih => simp [h1.1, ih]

theorem mapOpt_bcast_squeezed (n : Nat) (qrest rest : List (String × Arr K)) (h : List.Forall₂ Squeezes qrest rest)
    (hsh : ∀ p ∈ rest, ∃ t, p.2.shape = n :: t) :
    mapOpt (fun e : String × Arr K => (bcast n e.2).map (fun a => (e.1, a))) qrest = some rest := by
  induction h with
  | nil => rfl
  | cons h1 _ ih =>
    rename_i q p qs ps _
    obtain ⟨t, ht⟩ := hsh p (by simp)
    have := bcast_squeezed n q p t ht h1
    simp only [mapOpt, this, Option.map_some, ih (fun x hx => hsh x (by simp [hx])), h1.1]

section field
variable [Field K]

theorem atomsOfProps_squeezed (n : Nat) (la : List Int) (lp : List K) (rest : List (String × Arr K))
    (qa qp : String × Arr K) (qrest : List (String × Arr K))
    (hla : ∀ i ∈ la, 1 ≤ i) (hne : la ≠ [])
    (hnd : ((("atype", (⟨[n], .int la⟩ : Arr K)) :: ("pos", ⟨[n, 3], .flt lp⟩) :: rest).map Prod.fst).Nodup)
    (hsh : ∀ p ∈ rest, ∃ t, p.2.shape = n :: t)
    (hqa : Squeezes qa ("atype", ⟨[n], .int la⟩)) (hqp : Squeezes qp ("pos", ⟨[n, 3], .flt lp⟩))
    (hqr : List.Forall₂ Squeezes qrest rest) :
    atomsOfProps n (qa :: qp :: qrest)
      = some ⟨n, ("atype", ⟨[n], .int la⟩) :: ("pos", ⟨[n, 3], .flt lp⟩) :: rest⟩ := by
  have hfst := forall2_squeezes_fst qrest rest hqr
  simp only [List.map_cons, List.nodup_cons, List.mem_cons, not_or] at hnd
  have hfilter : qrest.filter (fun e => e.1 != "atype" && e.1 != "pos") = qrest := by
    rw [List.filter_eq_self]
    intro e he
    have hmem : e.1 ∈ rest.map Prod.fst := by rw [← hfst]; exact List.mem_map_of_mem he
    have h1 : e.1 ≠ "atype" := fun h => hnd.1.2 (by rw [← h]; exact hmem)
    have h2 : e.1 ≠ "pos" := fun h => hnd.2.1 (by rw [← h]; exact hmem)
    simp [h1, h2]
  have hrest := mapOpt_bcast_squeezed n qrest rest hqr hsh
  obtain ⟨i, l, rfl⟩ := List.exists_cons_of_ne_nil hne
  have hmin : ¬ (l.foldl min i < 1) := by
    have := foldl_min_ge l i (hla i (by simp)) (fun j hj => hla j (by simp [hj]))
    omega
  have hb1 := bcast_squeezed n qa ("atype", ⟨[n], .int (i :: l)⟩) [] rfl hqa
  have hb2 := bcast_squeezed n qp ("pos", ⟨[n, 3], .flt lp⟩) [3] rfl hqp
  obtain ⟨qan, ⟨qas, qad⟩⟩ := qa
  obtain ⟨qpn, ⟨qps, qpd⟩⟩ := qp
  obtain ⟨ha1, ha2, ha3⟩ := hqa
  obtain ⟨hp1, hp2, hp3⟩ := hqp
  simp only at ha1 ha2 ha3 hp1 hp2 hp3 hb1 hb2
  subst ha1; subst hp1; subst ha2; subst hp2
  have hp3' : qps = [n, 3] := by
    rcases hp3 with h | ⟨h, _⟩
    · exact h
    · simp at h
  subst hp3'
  rcases ha3 with ha3 | ⟨ha3, ha4⟩
  · subst ha3
    simp [atomsOfProps, List.lookup, hfilter, hb1, hb2, hrest, Data.minInt?, hmin]
  · subst ha4
    simp only [List.cons.injEq, and_true] at ha3
    subst ha3
    simp [atomsOfProps, List.lookup, hfilter, hb1, hb2, hrest, Data.minInt?, hmin]

end field

theorem mapOpt_exists_right {α β : Type} (f : β → Option α) (R : α → α → Prop) (l : List α) (ys : List β)
    (h : List.Forall₂ (fun p x => ∃ q, f x = some q ∧ R q p) l ys) :
    ∃ qs, mapOpt f ys = some qs ∧ List.Forall₂ R qs l := by
  induction h with
  | nil => exact ⟨[], rfl, List.Forall₂.nil⟩
  | cons h1 _ ih =>
    obtain ⟨q, hq, hr⟩ := h1
    obtain ⟨qs, hqs, hf⟩ := ih
    exact ⟨q :: qs, by simp [mapOpt, hq, hqs], List.Forall₂.cons hr hf⟩

section field
variable [Field K]

/-- `Atoms(model=t)` when the property trees read as squeezed versions of `l` (tree, JSON or XML text). -/
theorem atomsRead_of_sq (fac2 : String → K) (t : DM K) (n : Nat) (ps : List (DM K)) (l : List (String × Arr K))
    (ht : (t.get? "atoms").bind (fun m => match m.get? "natoms" with
        | some (DM.leaf (Sc.int k)) => if k = (n : Int) then some (m.aslist "property") else none
        | _ => none) = some ps)
    (hfa : List.Forall₂ (fun p x => ∃ q, propRead fac2 x = some q ∧ Squeezes q p) l ps)
    (la : List Int) (lp : List K) (rest : List (String × Arr K))
    (hl : l = ("atype", ⟨[n], .int la⟩) :: ("pos", ⟨[n, 3], .flt lp⟩) :: rest)
    (hla : ∀ i ∈ la, 1 ≤ i) (hlane : la ≠ []) (hnd : (l.map Prod.fst).Nodup)
    (hsh : ∀ p ∈ rest, ∃ t, p.2.shape = n :: t) :
    atomsRead fac2 t = some ⟨n, l⟩ := by
  obtain ⟨qs, hread, hsq⟩ := mapOpt_exists_right (propRead fac2) Squeezes l ps hfa
  have hfst := forall2_squeezes_fst qs l hsq
  have hfold := foldl_dictSet [] qs (by simpa [hfst] using hnd)
  subst hl
  obtain ⟨qa, qs1, hqa, hsq1, rfl⟩ := List.forall₂_cons_right_iff.mp hsq
  obtain ⟨qp, qrest, hqp, hqr, rfl⟩ := List.forall₂_cons_right_iff.mp hsq1
  have hfinal := atomsOfProps_squeezed n la lp rest qa qp qrest hla hlane hnd hsh hqa hqp hqr
  cases hm : t.get? "atoms" with
  | none => simp [hm] at ht
  | some m =>
    simp only [hm, Option.bind_some] at ht
    cases hk : m.get? "natoms" with
    | none => simp [hk] at ht
    | some kn =>
      simp only [hk] at ht
      split at ht
      · rename_i k heq
        simp only [Option.some.injEq] at heq
        subst heq
        split at ht
        · rename_i hkn
          simp only [Option.some.injEq] at ht
          subst hkn
          simp only [atomsRead, hm, hk, ht, hread]
          simp [hfold, hfinal]
        · cases ht
      · cases ht

end field

theorem xmlNormKV_appendAll (k : String) (l : List (DM K)) :
    xmlNormKV (appendAll k l) = appendAll k (l.map xmlNorm) := by
  rcases l with _ | ⟨v, _ | ⟨w, vs⟩⟩
  · simp [appendAll, xmlNormKV]
  · simp [appendAll, xmlNormKV]
  · simp only [appendAll, xmlNormKV, List.map_cons]
    rw [xmlNorm, xmlNormL_eq_map]
    simp

theorem xmlNorm_propNode (nm : String) (d : DM K) :
    xmlNorm (DM.node [("name", DM.leaf (Sc.str nm)), ("data", d)]) =
      DM.node [("name", DM.leaf (Sc.str nm)), ("data", xmlNorm d)] := by
  simp [xmlNorm, xmlNormKV]

theorem getStr_unit_xml (v : DM K) (sh : List Nat) (units : Option String) :
    (xmlNorm (DM.node (("value", v) :: (shapeEntry (K := K) sh ++ unitEntry units)))).getStr? "unit" = units := by
  rw [xmlNorm_ucNode]; exact node_getStr_unit _ _ _

section field
variable [Field K]

theorem ucModel_unit_xml (fac : String → K) (units : Option String) (a : Arr K) (t : DM K)
    (h : ucModel fac units a = some t) : (xmlNorm t).getStr? "unit" = units := by
  unfold ucModel at h
  split at h
  · cases h
  · split at h
    · cases h
    · cases h
      exact getStr_unit_xml _ _ _

/-- one property through XML text. -/
theorem prop_two_xml (fac1 fac2 : String → K) (a : AtomsM K) (hw : a.Wf) (un : String → Option String)
    (hu : UnitsOk a un) (p : String × Arr K) (hp : p ∈ a.props) :
    ∃ t, propModel fac1 a (p.1, un p.1) = some t ∧
      (∃ q, propRead fac2 (xmlNorm t) = some q ∧ Squeezes q (propTwo fac1 fac2 un p)) ∧
      ((xmlNorm t).getStr? "name" = some p.1 ∧ ∃ d, (xmlNorm t).get? "data" = some d ∧
        d.getStr? "unit" = effUnit p.1 (un p.1)) := by
  obtain ⟨_, h2, h3⟩ := hw.ok p hp
  obtain ⟨t, ht1, ht2⟩ := valueUnit_model_two_xml fac1 fac2 (effUnit p.1 (un p.1)) p.2 h2 h3 (hu.2 p hp)
  refine ⟨DM.node [("name", DM.leaf (Sc.str p.1)), ("data", t)], ?_, ?_, ?_⟩
  · simp only [propModel, lookup_of_mem_nodup a.props hw.nodup p hp, ht1]
  · rw [xmlNorm_propNode]
    exact ⟨(p.1, ⟨xmlShape p.2.shape, p.2.data.rescale fac1 fac2 (effUnit p.1 (un p.1))⟩),
      by simp [propRead, DM.getStr?, DM.get?, List.lookup, ht2], squeezes_xmlShape _ _ _⟩
  · rw [xmlNorm_propNode]
    refine ⟨by simp [DM.getStr?, DM.get?, List.lookup], xmlNorm t, by simp [DM.get?, List.lookup], ?_⟩
    exact ucModel_unit_xml fac1 _ p.2 t ht1

theorem sys_prop_two_xml (fac1 fac2 : String → K) (s : SystemM K) (hw : s.atoms.Wf) (un : String → Option String)
    (hu : SysUnitsOk s.atoms un) (p : String × Arr K) (hp : p ∈ s.atoms.props) :
    ∃ t, sysPropModel fac1 s (p.1, un p.1) = some t ∧
      (∃ q, propRead fac2 (xmlNorm t) = some q ∧ Squeezes q (sysPropRel fac1 fac2 un s.box p)) ∧
      ((xmlNorm t).getStr? "name" = some p.1 ∧ ∃ d, (xmlNorm t).get? "data" = some d ∧
        d.getStr? "unit" = effUnit p.1 (un p.1)) := by
  by_cases hsc : effUnit p.1 (un p.1) = some "scaled"
  · obtain ⟨t, ht1, ht2, htn, d, htd, hdu⟩ := prop_two fac1 fac1 s.atoms hw un hu.1 p hp
    have hns : ∀ l, p.2.data ≠ .str l := by
      intro l hl
      have := hu.1.2 p hp l hl
      rw [hsc] at this; cases this
    have h3 := hu.2 p hp hsc
    obtain ⟨_, hlen, hne⟩ := hw.ok p hp
    have hv : valueUnit fac1 d = some ⟨p.2.shape, .flt p.2.data.fltD⟩ := by
      simp only [propRead, htn, htd, propTwo, hsc, rescale_scaled fac1 fac1 _ hns] at ht2
      cases hvu : valueUnit fac1 d with
      | none => simp [hvu] at ht2
      | some a => simpa [hvu] using ht2
    obtain ⟨hm1, hm2⟩ := mapPositions_flt s.box.cartToRel p.2.shape p.2.data.fltD h3 (by rw [fltD_length _ hns, hlen])
    obtain ⟨t', ht'1, ht'2⟩ := valueUnit_model_two_xml fac1 fac2 (some "scaled")
      ⟨p.2.shape, .flt (rowsMap s.box.cartToRel p.2.data.fltD)⟩ (by simpa [Data.length] using hm2) hne (by intro l h; cases h)
    refine ⟨DM.node [("name", DM.leaf (Sc.str p.1)), ("data", t')], ?_, ?_, ?_⟩
    · simp only [sysPropModel, ht1, hsc, if_true, htd, hv, Option.bind_some, hm1, ht'1]
    · rw [xmlNorm_propNode]
      refine ⟨(p.1, ⟨xmlShape p.2.shape, Data.flt (rowsMap s.box.cartToRel p.2.data.fltD)⟩), ?_, ?_⟩
      · simp [propRead, DM.getStr?, DM.get?, List.lookup, ht'2,
          rescale_scaled fac1 fac2 (Data.flt _) (by intro l h; cases h), Data.fltD, Data.toFlt]
      · have := squeezes_xmlShape p.1 p.2.shape (Data.flt (rowsMap s.box.cartToRel p.2.data.fltD))
        simpa [sysPropRel, hsc] using this
    · rw [xmlNorm_propNode]
      refine ⟨by simp [DM.getStr?, DM.get?, List.lookup], xmlNorm t', by simp [DM.get?, List.lookup], ?_⟩
      rw [hsc]; exact ucModel_unit_xml fac1 _ _ t' ht'1
  · obtain ⟨t, ht1, ht2, ht3⟩ := prop_two_xml fac1 fac2 s.atoms hw un hu.1 p hp
    refine ⟨t, by simp only [sysPropModel, ht1, hsc, if_false], ?_, ht3⟩
    simpa only [sysPropRel, hsc, if_false] using ht2

end field

theorem atoms_node_bind (kv : List (String × DM K)) (n : Nat) (ps : List (DM K))
    (h : kv.lookup "atoms" = some (DM.node (("natoms", DM.leaf (Sc.int n)) :: appendAll "property" ps)))
    (hl : ∀ x ∈ ps, x.isList = false) :
    ((DM.node kv).get? "atoms").bind (fun m => match m.get? "natoms" with
        | some (DM.leaf (Sc.int k)) => if k = (n : Int) then some (m.aslist "property") else none
        | _ => none) = some ps := by
  have hl' : (DM.node (("natoms", DM.leaf (Sc.int (n : Int))) :: appendAll "property" ps)).aslist "property" = ps :=
    aslist_of_lookup _ _ _ (by simp [List.lookup]) hl
  simp only [DM.get?, h, Option.bind_some]
  simp [List.lookup, hl']

section field
variable [Field K]

/-- `Atoms` written under `fac1`, encoded as XML text, read under `fac2`. -/
theorem atoms_model_two_xml (fac1 fac2 : String → K) (a : AtomsM K) (hw : a.Wf) (un : String → Option String)
    (hu : UnitsOk a un) :
    ∃ t, atomsModel fac1 (a.props.map (fun p => (p.1, un p.1))) a = some t ∧
      atomsRead fac2 (xmlNorm t) = some ⟨a.natoms, a.props.map (propTwo fac1 fac2 un)⟩ := by
  obtain ⟨ps, hps, hfa⟩ := mapOpt_exists (fun p : String × Arr K => propModel fac1 a (p.1, un p.1))
    (fun p t => (∃ q, propRead fac2 (xmlNorm t) = some q ∧ Squeezes q (propTwo fac1 fac2 un p)) ∧
      (xmlNorm t).getStr? "name" = some p.1) a.props
    (fun p hp => by
      obtain ⟨t, h1, h2, h3, _⟩ := prop_two_xml fac1 fac2 a hw un hu p hp
      exact ⟨t, h1, h2, h3⟩)
  obtain ⟨la, lp, rest, hprops, hla⟩ := hw.head
  refine ⟨DM.node [("atoms", DM.node (("natoms", DM.leaf (Sc.int a.natoms)) :: appendAll "property" ps))],
    by simp only [atomsModel, mapOpt_map, hps], ?_⟩
  have hat : effUnit "atype" (un "atype") = none := by rw [hu.1]; rfl
  have hx : xmlNorm (DM.node [("atoms", DM.node (("natoms", DM.leaf (Sc.int a.natoms)) :: appendAll "property" ps))]) =
      DM.node [("atoms", DM.node (("natoms", DM.leaf (Sc.int a.natoms)) :: appendAll "property" (ps.map xmlNorm)))] := by
    simp [xmlNorm, xmlNormKV, xmlNormKV_appendAll]
  rw [hx]
  have hfa' : List.Forall₂ (fun p x => (∃ q, propRead fac2 x = some q ∧ Squeezes q (propTwo fac1 fac2 un p)) ∧
      x.getStr? "name" = some p.1) a.props (ps.map xmlNorm) := List.forall₂_map_right_iff.mpr hfa
  refine atomsRead_of_sq fac2 _ a.natoms (ps.map xmlNorm) _
    (atoms_node_bind _ a.natoms _ (by simp [List.lookup]) (by
      intro x hx
      obtain ⟨p, _, hp⟩ := forall2_right_mem _ _ _ hfa' x hx
      exact getStr_isList x _ _ hp.2))
    (List.forall₂_map_left_iff.mpr (hfa'.imp (fun _ _ h => h.1))) la (lp.map (scaleFn fac1 fac2 (effUnit "pos" (un "pos"))))
    (rest.map (propTwo fac1 fac2 un)) ?_ hla (atype_nonempty a hw la _ rest hprops) ?_ ?_
  · rw [hprops]; simp [propTwo, hat, Data.rescale]
  · have : (a.props.map (propTwo fac1 fac2 un)).map Prod.fst = a.props.map Prod.fst := by
      simp [List.map_map, Function.comp_def, propTwo]
    rw [this]; exact hw.nodup
  · intro p hp
    obtain ⟨q, hq, rfl⟩ := List.mem_map.mp hp
    exact (hw.ok q (by rw [hprops]; simp [hq])).1

end field


section field
variable [Field K]

/-- `System(model=…)` on an `atomic-system` node whose box entry reads as `box'` and whose property trees read
    (possibly squeezed) as the stored properties: the common part of the tree, JSON and XML round trips. -/
theorem systemRead_of [LT K] [DecidableLT K] (fac1 fac2 : String → K) (eps : K)
    (s : SystemM K) (hw : s.Wf) (un : String → Option String) (hu : SysUnitsOk s.atoms un)
    (bm : DM K) (box' : Box K)
    (hbr : ∀ kv : List (String × DM K), kv.lookup "box" = some bm → boxRead fac2 eps (DM.node kv) = some box')
    (ps : List (DM K))
    (hfa : List.Forall₂ (fun p t => (∃ q, propRead fac2 t = some q ∧ Squeezes q (sysPropRel fac1 fac2 un s.box p)) ∧
      (t.getStr? "name" = some p.1 ∧ ∃ d, t.get? "data" = some d ∧ d.getStr? "unit" = effUnit p.1 (un p.1)))
      s.atoms.props ps) :
    systemRead fac2 eps (DM.node [("atomic-system", DM.node (
      [("box", bm), ("periodic-boundary-condition", DM.list (s.pbc.map (fun b => DM.leaf (Sc.bool b))))]
      ++ appendAll "atom-type-symbol" (s.symbols.map symLeaf)
      ++ appendAll "atom-type-mass" (if s.masses.any Option.isSome then s.masses.map massLeaf else [])
      ++ [("atoms", DM.node (("natoms", DM.leaf (Sc.int s.atoms.natoms)) :: appendAll "property" ps))]))]) =
      some ⟨box', s.pbc, s.symbols, s.masses,
        ⟨s.atoms.natoms, s.atoms.props.map (sysPropFinal fac1 fac2 un s.box box')⟩⟩ := by
  obtain ⟨la, lp, rest, hprops, hla⟩ := hw.atoms.head
  have hlane := atype_nonempty s.atoms hw.atoms la _ rest hprops
  set masses : List (DM K) := if s.masses.any Option.isSome then s.masses.map massLeaf else [] with hmasses
  set am : DM K := DM.node (("natoms", DM.leaf (Sc.int s.atoms.natoms)) :: appendAll "property" ps) with ham
  set pl : DM K := DM.list (s.pbc.map (fun b => DM.leaf (Sc.bool b))) with hpl
  obtain ⟨l1, l2, l3, l4, l5⟩ := sysnode_lookups bm pl (s.symbols.map symLeaf) masses am
  set M := [("box", bm), ("periodic-boundary-condition", pl)] ++ appendAll "atom-type-symbol" (s.symbols.map symLeaf)
      ++ appendAll "atom-type-mass" masses ++ [("atoms", am)] with hM
  have hat : effUnit "atype" (un "atype") = none := by rw [hu.1.1]; rfl
  have hbox := hbr M l1
  have hnl : ∀ x ∈ ps, x.isList = false := by
    intro x hx
    obtain ⟨p, _, hp⟩ := forall2_right_mem _ _ _ hfa x hx
    exact getStr_isList x _ _ hp.2.1
  have hatoms : atomsRead fac2 (DM.node M) = some ⟨s.atoms.natoms, s.atoms.props.map (sysPropRel fac1 fac2 un s.box)⟩ := by
    refine atomsRead_of_sq fac2 _ s.atoms.natoms ps _ (atoms_node_bind M s.atoms.natoms ps (by rw [l5]) hnl)
      (List.forall₂_map_left_iff.mpr (hfa.imp (fun _ _ h => h.1))) la
      (sysPropRel fac1 fac2 un s.box ("pos", ⟨[s.atoms.natoms, 3], .flt lp⟩)).2.data.fltD
      (rest.map (sysPropRel fac1 fac2 un s.box)) ?_ hla hlane ?_ ?_
    · rw [hprops]
      simp only [List.map_cons, List.cons.injEq, and_true]
      refine ⟨by simp [sysPropRel, hat, propTwo, Data.rescale], ?_⟩
      unfold sysPropRel
      split <;> simp [propTwo, Data.rescale, Data.fltD, Data.toFlt]
    · have : (s.atoms.props.map (sysPropRel fac1 fac2 un s.box)).map Prod.fst = s.atoms.props.map Prod.fst := by
        simp [List.map_map, Function.comp_def, sysPropRel_fst]
      rw [this]; exact hw.atoms.nodup
    · intro p hp
      obtain ⟨q, hq, rfl⟩ := List.mem_map.mp hp
      have := (hw.atoms.ok q (by rw [hprops]; simp [hq])).1
      unfold sysPropRel; split <;> simpa [propTwo] using this
  obtain ⟨nat, hnat, hnle⟩ := hw.ntypes
  have hnat' : (⟨s.atoms.natoms, s.atoms.props.map (sysPropRel fac1 fac2 un s.box)⟩ : AtomsM K).natypes = some nat := by
    rw [← hnat]
    simp [AtomsM.natypes, hprops, List.lookup, sysPropRel, hat, propTwo, Data.rescale]
  have hsyms : (DM.node M).aslist "atom-type-symbol" = s.symbols.map symLeaf :=
    aslist_of_lookup M _ _ l3 (by intro x hx; obtain ⟨o, _, rfl⟩ := List.mem_map.mp hx; exact symLeaf_isList o)
  have hmass : (DM.node M).aslist "atom-type-mass" = masses :=
    aslist_of_lookup M _ _ l4 (by
      intro x hx
      rw [hmasses] at hx
      split at hx
      · obtain ⟨o, _, rfl⟩ := List.mem_map.mp hx; exact massLeaf_isList o
      · simp at hx)
  have hmassR : mapOpt massOf? masses = some (if s.masses.any Option.isSome then s.masses else []) := by
    rw [hmasses]; split
    · exact mapOpt_mass _
    · rfl
  have hsc : scaledNames am = s.atoms.props.filterMap
      (fun p => if effUnit p.1 (un p.1) = some "scaled" then some p.1 else none) :=
    scaledNames_of (DM.leaf (Sc.int s.atoms.natoms)) ps s.atoms.props (fun p => effUnit p.1 (un p.1))
      (hfa.imp (fun _ _ h => h.2))
  have hfinal := sys_final_props fac1 fac2 un s.box box' s.atoms hw.atoms hu
  have hfill : fillNone s.symbols nat = s.symbols := by
    simp [fillNone, Nat.sub_eq_zero_of_le hnle]
  have hnatS : (if nat < s.symbols.length then s.symbols.length else nat) = s.symbols.length := by
    split <;> omega
  have hmfill : fillNone (if s.masses.any Option.isSome then s.masses else []) s.symbols.length = s.masses
      ∧ ¬ (s.symbols.length < (if s.masses.any Option.isSome then s.masses else []).length) := by
    split
    · exact ⟨by simp [fillNone, hw.masses], by rw [hw.masses]; omega⟩
    · rename_i h
      refine ⟨?_, by simp⟩
      have := all_none_of_any s.masses (by simpa using h)
      rw [hw.masses] at this
      simp [fillNone, ← this]
  have hT : (DM.node [("atomic-system", DM.node M)]).get? "atomic-system" = some (DM.node M) := by
    simp [DM.get?, List.lookup]
  have hg1 : (DM.node M).get? "periodic-boundary-condition" = some pl := by simp only [DM.get?, l2]
  have hg2 : (DM.node M).get? "atoms" = some am := by simp only [DM.get?, l5]
  simp only [systemRead, hT, hbox, hatoms, hg1, hg2, hpl, mapOpt_pbc, hsyms, mapOpt_sym, hmass, hmassR, hnat', hw.pbc,
    hfill, hnatS, hmfill.1, hmfill.2, hsc, hfinal, ne_eq, not_true_eq_false, if_false]

end field

theorem xmlNorm_symLeaf (o : Option String) : xmlNorm (symLeaf o : DM K) = symLeaf o := by
  cases o <;> simp [symLeaf, xmlNorm]
theorem xmlNorm_massLeaf (o : Option K) : xmlNorm (massLeaf o : DM K) = massLeaf o := by
  cases o <;> simp [massLeaf, xmlNorm]

theorem xmlNorm_pbc (l : List Bool) (h : l.length = 3) :
    xmlNorm (DM.list (l.map (fun b => (DM.leaf (Sc.bool b) : DM K)))) = DM.list (l.map (fun b => DM.leaf (Sc.bool b))) := by
  have := xmlNorm_leafList (K := K) (l.map Sc.bool)
  rw [List.map_map] at this
  rw [show (fun b => (DM.leaf (Sc.bool b) : DM K)) = DM.leaf ∘ Sc.bool from rfl, this]
  match l, h with
  | [a, b, c], _ => rfl

section field
variable [Field K]

theorem vec_two_xml (fac1 fac2 : String → K) (u : Option String) (v : V3 K) :
    ∃ t, ucModel fac1 u (vecArr v) = some t ∧
      (valueUnit fac2 (xmlNorm t)).bind arrV3? = some (v.map (scaleFn fac1 fac2 u)) := by
  obtain ⟨t, h1, h2⟩ := valueUnit_model_two_xml fac1 fac2 u (vecArr v) (by rfl) (by simp [vecArr, prodNat]) (by intro l h; cases h)
  refine ⟨t, h1, ?_⟩
  rw [h2]
  simp [vecArr, Data.rescale, V3.toList, arrV3?, Data.toFlt, V3.map, xmlShape]

theorem box_model_node_xml (fac1 fac2 : String → K) (eps : K) [LT K] [DecidableLT K] (u : Option String) (b : Box K) :
    ∃ bm, boxModel fac1 u b = some (DM.node [("box", bm)]) ∧ ∀ kv : List (String × DM K), kv.lookup "box" = some (xmlNorm bm) →
      boxRead fac2 eps (DM.node kv) = some ⟨cleanVects eps (mapM3 (scaleFn fac1 fac2 u) b.vects), b.origin.map (scaleFn fac1 fac2 u)⟩ := by
  obtain ⟨ta, ha1, ha2⟩ := vec_two_xml fac1 fac2 u b.vects.r0
  obtain ⟨tb, hb1, hb2⟩ := vec_two_xml fac1 fac2 u b.vects.r1
  obtain ⟨tc, hc1, hc2⟩ := vec_two_xml fac1 fac2 u b.vects.r2
  obtain ⟨tor, ho1, ho2⟩ := vec_two_xml fac1 fac2 u b.origin
  refine ⟨DM.node [("avect", ta), ("bvect", tb), ("cvect", tc), ("origin", tor)],
    by simp only [boxModel, ha1, hb1, hc1, ho1], ?_⟩
  intro kv hkv
  have hx : xmlNorm (DM.node [("avect", ta), ("bvect", tb), ("cvect", tc), ("origin", tor)]) =
      DM.node [("avect", xmlNorm ta), ("bvect", xmlNorm tb), ("cvect", xmlNorm tc), ("origin", xmlNorm tor)] := by
    simp [xmlNorm, xmlNormKV]
  rw [hx] at hkv
  simp [boxRead, DM.get?, hkv, List.lookup, ha2, hb2, hc2, ho2, mapM3]

/-- `System` written under `fac1`, encoded as XML text (one-element lists collapsed), read under `fac2`. -/
theorem system_model_two_xml [LT K] [DecidableLT K] (fac1 fac2 : String → K) (eps : K) (boxUnit : Option String)
    (s : SystemM K) (hw : s.Wf) (un : String → Option String) (hu : SysUnitsOk s.atoms un) :
    ∃ t, systemModel fac1 boxUnit (s.atoms.props.map (fun p => (p.1, un p.1))) s = some t ∧
      systemRead fac2 eps (xmlNorm t) =
        (let box' : Box K := ⟨cleanVects eps (mapM3 (scaleFn fac1 fac2 boxUnit) s.box.vects),
            s.box.origin.map (scaleFn fac1 fac2 boxUnit)⟩
         some ⟨box', s.pbc, s.symbols, s.masses,
          ⟨s.atoms.natoms, s.atoms.props.map (sysPropFinal fac1 fac2 un s.box box')⟩⟩) := by
  obtain ⟨bm, hbm, hbr⟩ := box_model_node_xml fac1 fac2 eps boxUnit s.box
  obtain ⟨ps, hps, hfa⟩ := mapOpt_exists (fun p : String × Arr K => sysPropModel fac1 s (p.1, un p.1))
    (fun p t => (∃ q, propRead fac2 (xmlNorm t) = some q ∧ Squeezes q (sysPropRel fac1 fac2 un s.box p)) ∧
      ((xmlNorm t).getStr? "name" = some p.1 ∧ ∃ d, (xmlNorm t).get? "data" = some d ∧
        d.getStr? "unit" = effUnit p.1 (un p.1)))
    s.atoms.props (fun p hp => sys_prop_two_xml fac1 fac2 s hw.atoms un hu p hp)
  refine ⟨DM.node [("atomic-system", DM.node (
      [("box", bm), ("periodic-boundary-condition", DM.list (s.pbc.map (fun b => DM.leaf (Sc.bool b))))]
      ++ appendAll "atom-type-symbol" (s.symbols.map symLeaf)
      ++ appendAll "atom-type-mass" (if s.masses.any Option.isSome then s.masses.map massLeaf else [])
      ++ [("atoms", DM.node (("natoms", DM.leaf (Sc.int s.atoms.natoms)) :: appendAll "property" ps))]))],
    by simp only [systemModel, hbm, mapOpt_map, hps], ?_⟩
  have hsym : (s.symbols.map (symLeaf (K := K))).map xmlNorm = s.symbols.map symLeaf := by
    simp [List.map_map, Function.comp_def, xmlNorm_symLeaf]
  have hmas : (if s.masses.any Option.isSome then s.masses.map (massLeaf (K := K)) else []).map xmlNorm =
      (if s.masses.any Option.isSome then s.masses.map massLeaf else []) := by
    split <;> simp [List.map_map, Function.comp_def, xmlNorm_massLeaf]
  have hx : xmlNorm (DM.node [("atomic-system", DM.node (
      [("box", bm), ("periodic-boundary-condition", DM.list (s.pbc.map (fun b => DM.leaf (Sc.bool b))))]
      ++ appendAll "atom-type-symbol" (s.symbols.map symLeaf)
      ++ appendAll "atom-type-mass" (if s.masses.any Option.isSome then s.masses.map massLeaf else [])
      ++ [("atoms", DM.node (("natoms", DM.leaf (Sc.int s.atoms.natoms)) :: appendAll "property" ps))]))]) =
    DM.node [("atomic-system", DM.node (
      [("box", xmlNorm bm), ("periodic-boundary-condition", DM.list (s.pbc.map (fun b => DM.leaf (Sc.bool b))))]
      ++ appendAll "atom-type-symbol" (s.symbols.map symLeaf)
      ++ appendAll "atom-type-mass" (if s.masses.any Option.isSome then s.masses.map massLeaf else [])
      ++ [("atoms", DM.node (("natoms", DM.leaf (Sc.int s.atoms.natoms)) :: appendAll "property" (ps.map xmlNorm)))]))] := by
    rw [xmlNorm, xmlNormKV, xmlNormKV, xmlNorm, xmlNormKV_append, xmlNormKV_append, xmlNormKV_append,
      xmlNormKV_appendAll, xmlNormKV_appendAll, hsym, hmas]
    simp only [xmlNormKV, xmlNorm_pbc s.pbc hw.pbc]
    rw [xmlNorm, xmlNormKV, xmlNormKV_appendAll, xmlNorm]
  rw [hx]
  exact systemRead_of fac1 fac2 eps s hw un hu (xmlNorm bm) _ hbr (ps.map xmlNorm)
    (List.forall₂_map_right_iff.mpr hfa)

end field

end Atomman.C10
