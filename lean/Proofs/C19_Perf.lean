/-
  C19 — helper lemmas: the performance bookkeeping of the single pass over quiet stretches and well-formed
  `MPI task timing breakdown` blocks; the table reads of such blocks succeed.
-/
import Proofs.C19_Lemmas
set_option linter.unusedSimpArgs false
set_option linter.unusedVariables false
namespace Atomman.C19
open List

/-! ### timing breakdowns (the `MPI task timing breakdown` layout): `read` does not raise -/

/-- the fields of `Scan` the performance bookkeeping reads and writes (`nh = len(thermo_headers)`). -/
structure PS where
  i : Nat
  nh : Nat
  ph : List Int
  ps : List Int
  pf : List Int
  old : Bool

def Scan.pst (s : Scan) : PS :=
  ⟨s.i, s.thermoHeaders.length, s.perfHeaders, s.perfSims, s.perfFooters, s.isOld⟩

theorem step_pst_blank (s : Scan) (l : Str) (hb : isBlank l = true) : (Scan.step s l).pst = s.pst := by
  unfold Scan.step; simp [hb]

/-- a counted line that starts no breakdown and does not end an open one. -/
theorem step_pst_quiet (s : Scan) (l : Str) (hb : isBlank l = false)
    (h1 : hasAny perfStart l = false) (h2 : hasAny perfStartOld l = false)
    (h3 : hasAny perfEnd l = false ∨ s.perfFooters.length = s.perfHeaders.length) :
    (Scan.step s l).pst = ⟨s.i + 1, s.thermoHeaders.length + (if hasAny thermoStart l then 1 else 0),
      s.perfHeaders, s.perfSims, s.perfFooters, s.isOld⟩ := by
  unfold Scan.step Scan.pst
  simp only [hb, Bool.false_eq_true, if_false, h1, h2]
  rcases h3 with h3 | h3
  · simp only [h3, Bool.false_and, Bool.false_eq_true, if_false]
    split_ifs <;> simp
  · split_ifs <;> simp_all

/-- the `MPI task timing breakdown` line. -/
theorem step_pst_start (s : Scan) (l : Str) (hb : isBlank l = false) (ht : hasAny thermoStart l = false)
    (h1 : hasAny perfStart l = true) (h2 : hasAny perfStartOld l = false) (h3 : hasAny perfEnd l = false) :
    (Scan.step s l).pst = ⟨s.i + 1, s.thermoHeaders.length,
      s.perfHeaders ++ [(s.i : Int) + Gen.Log.perfHeaderOffset],
      s.perfSims ++ [(s.thermoHeaders.length : Int) - 1], s.perfFooters, s.isOld⟩ := by
  unfold Scan.step Scan.pst
  simp only [hb, Bool.false_eq_true, if_false, ht, h1, h2, h3, if_true, Bool.false_and]
  split_ifs <;> simp

/-- the `Nlocal:` line closing an open breakdown. -/
theorem step_pst_stop (s : Scan) (l : Str) (hb : isBlank l = false) (ht : hasAny thermoStart l = false)
    (h1 : hasAny perfStart l = false) (h2 : hasAny perfStartOld l = false) (h3 : hasAny perfEnd l = true)
    (hopen : s.perfFooters.length < s.perfHeaders.length) :
    (Scan.step s l).pst = ⟨s.i + 1, s.thermoHeaders.length, s.perfHeaders, s.perfSims,
      s.perfFooters ++ [(s.i : Int) + Gen.Log.perfFooterOffset], s.isOld⟩ := by
  unfold Scan.step Scan.pst
  simp only [hb, Bool.false_eq_true, if_false, ht, h1, h2, h3, Bool.true_and]
  split_ifs <;> simp_all

/-- a breakdown block: trigger line, `Section | …` header, the dashes line and the section rows, `Nlocal:` line. -/
structure Breakdown where
  start : Str
  hdr : Str
  rows : List Str
  stop : Str

def Breakdown.lines (b : Breakdown) : List Str := b.start :: b.hdr :: (b.rows ++ [b.stop])

/-- a counted line inside a breakdown: no trigger of any kind. -/
def InBlock (l : Str) : Prop :=
  isBlank l = false ∧ hasAny thermoStart l = false ∧ hasAny perfStart l = false ∧
    hasAny perfStartOld l = false ∧ hasAny perfEnd l = false

instance (l : Str) : Decidable (InBlock l) := by unfold InBlock; infer_instance

structure Breakdown.WF (b : Breakdown) : Prop where
  start_nb : isBlank b.start = false
  start_thermo : hasAny thermoStart b.start = false
  start_trig : hasAny perfStart b.start = true
  start_old : hasAny perfStartOld b.start = false
  start_end : hasAny perfEnd b.start = false
  hdr_in : InBlock b.hdr
  rows_in : ∀ l ∈ b.rows, InBlock l
  stop_nb : isBlank b.stop = false
  stop_thermo : hasAny thermoStart b.stop = false
  stop_start : hasAny perfStart b.stop = false
  stop_old : hasAny perfStartOld b.stop = false
  stop_end : hasAny perfEnd b.stop = true
  rows_ne : b.rows ≠ []
  section_col : ((splitOnChar '|' b.hdr).map strip).head? = some "Section".toList
  widths : ∀ l ∈ b.rows, (splitOnChar '|' l).length ≤ (splitOnChar '|' b.hdr).length

theorem nonBlank_block (b : Breakdown) (h : b.WF) : nonBlank b.lines = b.lines := by
  unfold nonBlank
  rw [filter_eq_self]
  intro l hl
  simp only [Breakdown.lines, mem_cons, mem_append, not_mem_nil, or_false] at hl
  rcases hl with rfl | rfl | hl | rfl
  · simp [h.start_nb]
  · simp [h.hdr_in.1]
  · simp [(h.rows_in l hl).1]
  · simp [h.stop_nb]

/-- the table read of a block succeeds. -/
theorem readPerfNew_block (nb pre rest : List Str) (b : Breakdown) (h : b.WF)
    (hnb : nb = pre ++ (b.lines ++ rest)) :
    ∃ p, readPerfNew nb ((pre.length : Int) + 1) ((pre.length : Int) + 1 + b.rows.length) = .ok p := by
  unfold readPerfNew
  have h1 : ¬ ((pre.length : Int) + 1 + b.rows.length - ((pre.length : Int) + 1) < 0) := by omega
  have h2 : ¬ ((pre.length : Int) + 1 < 0) := by omega
  have h3 : ((pre.length : Int) + 1).toNat = pre.length + 1 := by omega
  have h4 : ((pre.length : Int) + 1 + b.rows.length - ((pre.length : Int) + 1)).toNat = b.rows.length := by omega
  rw [if_neg h1, if_neg h2, h3, h4]
  have h5 : nb[pre.length + 1]? = some b.hdr := by
    rw [hnb, getElem?_append_right (by omega)]
    simp [Breakdown.lines]
  have h6 : (nb.drop (pre.length + 1 + 1)).take b.rows.length = b.rows := by
    rw [hnb, show pre.length + 1 + 1 = pre.length + 2 by omega, drop_append,
      drop_eq_nil_of_le (by omega : pre.length ≤ pre.length + 2),
      show pre.length + 2 - pre.length = 2 by omega]
    simp [Breakdown.lines]
  rw [h5]
  simp only [h6]
  have hw : ((b.rows.map (splitOnChar '|')).any
      (fun r => decide (((splitOnChar '|' b.hdr).map strip).length < r.length))) = false := by
    rw [any_eq_false]
    intro r hr
    obtain ⟨l, hl, rfl⟩ := mem_map.1 hr
    have := h.widths l hl
    simp only [length_map, decide_eq_true_eq, Nat.not_lt]
    exact this
  rw [hw]
  simp only [Bool.false_eq_true, if_false]
  cases hrows : b.rows with
  | nil => exact absurd hrows h.rows_ne
  | cons r rs =>
    simp only [map_cons]
    have hs : (((splitOnChar '|' b.hdr).map strip).head? != some "Section".toList) = false := by
      rw [h.section_col]; simp
    rw [hs]
    exact ⟨_, rfl⟩

/-! #### the scan over quiet stretches and blocks -/

inductive Seg
  | quiet (ls : List Str)
  | block (b : Breakdown)

def Seg.lines : Seg → List Str
  | .quiet ls => ls
  | .block b => b.lines

/-- number of counted lines carrying a thermo start trigger. -/
def starts : List Str → Nat
  | [] => 0
  | l :: ls => (if isBlank l then 0 else if hasAny thermoStart l then 1 else 0) + starts ls

/-- segments are well-formed from a state in which `nh` memory banners have been seen: quiet stretches start no
    breakdown, blocks are well-formed and come after at least one banner. -/
def segsWF (nh : Nat) : List Seg → Prop
  | [] => True
  | .quiet ls :: rest => (∀ l ∈ ls, PerfQuiet l) ∧ segsWF (nh + starts ls) rest
  | .block b :: rest => b.WF ∧ 1 ≤ nh ∧ segsWF nh rest

/-- (header, simulation index, footer) recorded for the blocks. -/
def pEntries (p nh : Nat) : List Seg → List (Int × Int × Int)
  | [] => []
  | .quiet ls :: rest => pEntries (p + cnt ls) (nh + starts ls) rest
  | .block b :: rest =>
    ((p : Int) + 1, (nh : Int) - 1, (p : Int) + 1 + b.rows.length) :: pEntries (p + b.lines.length) nh rest

def finalNh (nh : Nat) : List Seg → Nat
  | [] => nh
  | .quiet ls :: rest => finalNh (nh + starts ls) rest
  | .block _ :: rest => finalNh nh rest

theorem le_finalNh (nh : Nat) (segs : List Seg) : nh ≤ finalNh nh segs := by
  induction segs generalizing nh with
  | nil => exact Nat.le_refl _
  | cons sg rest ih =>
    cases sg with
    | quiet ls => exact Nat.le_trans (Nat.le_add_right _ _) (ih _)
    | block b => exact ih _

theorem scan_pst_quiet (s : Scan) (ls : List Str) (h : ∀ l ∈ ls, PerfQuiet l)
    (hc : s.perfFooters.length = s.perfHeaders.length) :
    (scan s ls).pst = ⟨s.i + cnt ls, s.thermoHeaders.length + starts ls, s.perfHeaders, s.perfSims,
      s.perfFooters, s.isOld⟩ := by
  induction ls generalizing s with
  | nil => simp [scan, cnt, nonBlank, starts, Scan.pst]
  | cons l ls ih =>
    simp only [scan, foldl_cons] at ih ⊢
    by_cases hb : isBlank l = true
    · have e := step_pst_blank s l hb
      simp only [Scan.pst, PS.mk.injEq] at e
      obtain ⟨e1, e2, e3, e4, e5, e6⟩ := e
      rw [ih _ (fun l' hl' => h l' (mem_cons_of_mem _ hl')) (by rw [e5, e3]; exact hc)]
      simp only [e1, e2, e3, e4, e5, e6, cnt, nonBlank_cons_blank _ _ hb, starts, hb, if_true, Nat.zero_add]
    · simp only [Bool.not_eq_true] at hb
      rcases h l mem_cons_self with hq | ⟨h1, h2⟩
      · rw [hq] at hb; exact absurd hb (by decide)
      · have e := step_pst_quiet s l hb h1 h2 (Or.inr hc)
        simp only [Scan.pst, PS.mk.injEq] at e
        obtain ⟨e1, e2, e3, e4, e5, e6⟩ := e
        rw [ih _ (fun l' hl' => h l' (mem_cons_of_mem _ hl')) (by rw [e5, e3]; exact hc)]
        simp only [e1, e2, e3, e4, e5, e6, cnt, nonBlank_cons_nb _ _ hb, starts, hb, Bool.false_eq_true,
          if_false, length_cons, PS.mk.injEq, and_true]
        constructor <;> omega

theorem scan_pst_rows (s : Scan) (ls : List Str) (h : ∀ l ∈ ls, InBlock l) :
    (scan s ls).pst = ⟨s.i + ls.length, s.thermoHeaders.length, s.perfHeaders, s.perfSims,
      s.perfFooters, s.isOld⟩ := by
  induction ls generalizing s with
  | nil => simp [scan, Scan.pst]
  | cons l ls ih =>
    simp only [scan, foldl_cons] at ih ⊢
    obtain ⟨hb, ht, h1, h2, h3⟩ := h l mem_cons_self
    have e := step_pst_quiet s l hb h1 h2 (Or.inl h3)
    simp only [Scan.pst, PS.mk.injEq, ht, Bool.false_eq_true, if_false, Nat.add_zero] at e
    obtain ⟨e1, e2, e3, e4, e5, e6⟩ := e
    rw [ih _ (fun l' hl' => h l' (mem_cons_of_mem _ hl'))]
    simp only [e1, e2, e3, e4, e5, e6, length_cons, PS.mk.injEq, and_true]
    omega

theorem scan_append (s : Scan) (a b : List Str) : scan s (a ++ b) = scan (scan s a) b := by
  simp [scan, foldl_append]

theorem scan_cons (s : Scan) (l : Str) (ls : List Str) : scan s (l :: ls) = scan (Scan.step s l) ls := rfl

theorem scan_pst_block (s : Scan) (b : Breakdown) (h : b.WF)
    (hc : s.perfFooters.length = s.perfHeaders.length) :
    (scan s b.lines).pst = ⟨s.i + b.lines.length, s.thermoHeaders.length,
      s.perfHeaders ++ [(s.i : Int) + 1], s.perfSims ++ [(s.thermoHeaders.length : Int) - 1],
      s.perfFooters ++ [(s.i : Int) + 1 + b.rows.length], s.isOld⟩ := by
  unfold Breakdown.lines
  rw [scan_cons, scan_cons, scan_append, scan_cons]
  have e1 := step_pst_start s b.start h.start_nb h.start_thermo h.start_trig h.start_old h.start_end
  simp only [Scan.pst, PS.mk.injEq] at e1
  obtain ⟨a1, a2, a3, a4, a5, a6⟩ := e1
  obtain ⟨hb, ht, g1, g2, g3⟩ := h.hdr_in
  have e2 := step_pst_quiet (Scan.step s b.start) b.hdr hb g1 g2 (Or.inl g3)
  simp only [Scan.pst, PS.mk.injEq, ht, Bool.false_eq_true, if_false, Nat.add_zero] at e2
  obtain ⟨b1, b2, b3, b4, b5, b6⟩ := e2
  have e3 := scan_pst_rows (Scan.step (Scan.step s b.start) b.hdr) b.rows h.rows_in
  simp only [Scan.pst, PS.mk.injEq] at e3
  obtain ⟨c1, c2, c3, c4, c5, c6⟩ := e3
  have hopen : (scan (Scan.step (Scan.step s b.start) b.hdr) b.rows).perfFooters.length
      < (scan (Scan.step (Scan.step s b.start) b.hdr) b.rows).perfHeaders.length := by
    rw [c5, c3, b5, b3, a5, a3, length_append, hc]; simp
  have e4 := step_pst_stop _ b.stop h.stop_nb (by rw [← h.stop_thermo]) h.stop_start h.stop_old h.stop_end hopen
  have hnil : ∀ x : Scan, scan x [] = x := fun _ => rfl
  rw [hnil, e4]
  simp only [c1, c2, c3, c4, c5, c6, b1, b2, b3, b4, b5, b6, a1, a2, a3, a4, a5, a6, length_cons, length_append,
    length_nil, Gen.Log.perfHeaderOffset, Gen.Log.perfFooterOffset, PS.mk.injEq, true_and, and_true,
    append_cancel_left_eq, cons.injEq]
  refine ⟨by omega, ?_⟩
  push_cast
  omega

theorem cnt_block (b : Breakdown) (h : b.WF) : cnt b.lines = b.lines.length := by
  unfold cnt; rw [nonBlank_block b h]

theorem starts_append (a b : List Str) : starts (a ++ b) = starts a + starts b := by
  induction a with
  | nil => simp [starts]
  | cons l ls ih => simp only [cons_append, starts, ih]; omega

theorem scan_pst_segs (s : Scan) (segs : List Seg) (h : segsWF s.thermoHeaders.length segs)
    (hc : s.perfFooters.length = s.perfHeaders.length) :
    (scan s (segs.flatMap Seg.lines)).pst =
      ⟨s.i + cnt (segs.flatMap Seg.lines), finalNh s.thermoHeaders.length segs,
        s.perfHeaders ++ (pEntries s.i s.thermoHeaders.length segs).map (·.1),
        s.perfSims ++ (pEntries s.i s.thermoHeaders.length segs).map (·.2.1),
        s.perfFooters ++ (pEntries s.i s.thermoHeaders.length segs).map (·.2.2), s.isOld⟩ := by
  induction segs generalizing s with
  | nil => simp [scan, Scan.pst, cnt, nonBlank, finalNh, pEntries]
  | cons sg rest ih =>
    rw [flatMap_cons, scan_append]
    cases sg with
    | quiet ls =>
      obtain ⟨hq, hrest⟩ := h
      have e := scan_pst_quiet s ls hq hc
      simp only [Scan.pst, PS.mk.injEq] at e
      obtain ⟨e1, e2, e3, e4, e5, e6⟩ := e
      have := ih (scan s ls) (by rw [e2]; exact hrest) (by rw [e5, e3]; exact hc)
      simp only [Seg.lines] at this ⊢
      rw [this]
      simp only [e1, e2, e3, e4, e5, e6, cnt_append, finalNh, pEntries, PS.mk.injEq, and_true, true_and]
      omega
    | block b =>
      obtain ⟨hb, hnh, hrest⟩ := h
      have e := scan_pst_block s b hb hc
      simp only [Scan.pst, PS.mk.injEq] at e
      obtain ⟨e1, e2, e3, e4, e5, e6⟩ := e
      have := ih (scan s b.lines) (by rw [e2]; exact hrest) (by rw [e5, e3, length_append, length_append, hc]; rfl)
      simp only [Seg.lines] at this ⊢
      rw [this]
      simp only [e1, e2, e3, e4, e5, e6, cnt_append, cnt_block b hb, finalNh, pEntries, map_cons, append_assoc,
        singleton_append, PS.mk.injEq, and_true, true_and]
      omega

/-- every recorded block can be read and belongs to a simulation of this read. -/
theorem entries_ok (nb : List Str) (segs : List Seg) (pre : List Str) (nh : Nat) (h : segsWF nh segs)
    (hnb : nb = pre ++ nonBlank (segs.flatMap Seg.lines)) :
    ∀ e ∈ pEntries pre.length nh segs,
      (∃ p, readPerfNew nb e.1 e.2.2 = .ok p) ∧ 0 ≤ e.2.1 ∧ e.2.1 < (finalNh nh segs : Int) := by
  induction segs generalizing pre nh with
  | nil => simp [pEntries]
  | cons sg rest ih =>
    cases sg with
    | quiet ls =>
      obtain ⟨hq, hrest⟩ := h
      intro e he
      simp only [pEntries] at he
      have hnb' : nb = (pre ++ nonBlank ls) ++ nonBlank (rest.flatMap Seg.lines) := by
        rw [hnb, flatMap_cons, nonBlank_append, append_assoc]; rfl
      have := ih (pre ++ nonBlank ls) (nh + starts ls) hrest hnb' e (by simpa [cnt] using he)
      simpa [finalNh] using this
    | block b =>
      obtain ⟨hb, hnh, hrest⟩ := h
      intro e he
      simp only [pEntries, mem_cons] at he
      have hnb' : nb = pre ++ (b.lines ++ nonBlank (rest.flatMap Seg.lines)) := by
        rw [hnb, flatMap_cons, nonBlank_append]
        show pre ++ (nonBlank b.lines ++ _) = _
        rw [nonBlank_block b hb]
      rcases he with rfl | he
      · refine ⟨readPerfNew_block nb pre _ b hb hnb', ?_, ?_⟩
        · show (0 : Int) ≤ (nh : Int) - 1
          omega
        · have := le_finalNh nh rest
          show (nh : Int) - 1 < (finalNh nh rest : Int)
          omega
      · have hnb'' : nb = (pre ++ b.lines) ++ nonBlank (rest.flatMap Seg.lines) := by
          rw [hnb', append_assoc]
        have := ih (pre ++ b.lines) nh hrest hnb'' e (by simpa using he)
        simpa [finalNh] using this

theorem assignPerf_ok (nb : List Str) (j : Nat) (es : List (Int × Int × Int)) (sims : List Sim)
    (h : ∀ e ∈ es, (∃ p, readPerfNew nb e.1 e.2.2 = .ok p) ∧ 0 ≤ e.2.1 ∧ e.2.1 + j < sims.length) :
    ∃ sims', assignPerf nb false j (es.map (·.1)) (es.map (·.2.1)) (es.map (·.2.2)) sims = .ok sims' := by
  induction es generalizing sims with
  | nil => exact ⟨sims, by simp [assignPerf]⟩
  | cons e es ih =>
    obtain ⟨⟨p, hp⟩, h0, hlt⟩ := h e mem_cons_self
    simp only [map_cons, assignPerf, Bool.false_eq_true, if_false, hp]
    have hidx : pyIndex? sims.length (e.2.1 + j) = some (e.2.1 + j).toNat := by
      unfold pyIndex?
      rw [if_pos (by omega), if_pos (by omega)]
    rw [hidx]
    simp only
    apply ih
    intro e' he'
    obtain ⟨hp', h0', hlt'⟩ := h e' (mem_cons_of_mem _ he')
    exact ⟨hp', h0', by simpa using hlt'⟩

theorem hdrs_length (p : Nat) (rs : List Run) : (hdrs p rs).length = rs.length := by
  induction rs generalizing p with
  | nil => rfl
  | cons r rs ih => simp [hdrs, ih]

/-- one header line number per run. -/
theorem passOf_nh (L : Layout) (h : L.WF) (st : LogState) (app : Bool) :
    (passOf st app L.lines).thermoHeaders.length = L.runs.length := by
  have e := passOf_ts st app L.lines
  unfold Layout.lines at e
  rw [foldl_append, foldl_tsStep_quiet _ _ h.head_quiet, foldl_tsStep_runs _ _ h.runs_ok] at e
  have : (passOf st app L.lines).thermoHeaders = [] ++ hdrs (0 + cnt L.head) L.runs := by
    have := congrArg TS.hs e
    simpa [Scan.ts, Layout.lines] using this
  rw [this, nil_append, hdrs_length]

/-- with well-formed `MPI task timing breakdown` blocks anywhere after the first memory banner, the performance
    part of `read` does not raise. -/
theorem perf_ok (L : Layout) (h : L.WF) (segs : List Seg) (hsegs : L.lines = segs.flatMap Seg.lines)
    (hwf : segsWF 0 segs) (st : LogState) (app : Bool) (tables : List Table)
    (hlen : tables.length = L.runs.length) :
    ∃ sims, assignPerf (nonBlank L.lines) (passOf st app L.lines).isOld (startState st app).sims.length
      (passOf st app L.lines).perfHeaders (passOf st app L.lines).perfSims (passOf st app L.lines).perfFooters
      ((startState st app).sims ++ tables.map (fun t => ({ thermo := t } : Sim))) = .ok sims := by
  have hp := scan_pst_segs { haveVersion := (startState st app).version.isSome } segs hwf rfl
  rw [← hsegs] at hp
  change (passOf st app L.lines).pst = _ at hp
  simp only [Scan.pst, PS.mk.injEq, nil_append, length_nil] at hp
  obtain ⟨_, p2, p3, p4, p5, p6⟩ := hp
  rw [p3, p4, p5, p6]
  apply assignPerf_ok
  intro e he
  have hnb : nonBlank L.lines = [] ++ nonBlank (segs.flatMap Seg.lines) := by rw [hsegs]; rfl
  obtain ⟨h1, h2, h3⟩ := entries_ok (nonBlank L.lines) segs [] 0 hwf hnb e he
  refine ⟨h1, h2, ?_⟩
  have hn := passOf_nh L h st app
  rw [p2] at hn
  simp only [length_append, length_map, hlen]
  rw [hn] at h3
  omega

end Atomman.C19
