/-
  C11 — the setters as maps on stored states:

  * what the `Cij` setter stores is a fixed point of the `Cij` setter (`ElasticConstants(Cij=ec.Cij).Cij = ec.Cij`
    exactly, zeroing of relatively tiny entries included): `setCij_idem`;
  * the whole of `transform` — `axes_check`, rotation, relative clean-up, `Cijkl` setter, `Cij` setter — is homogeneous
    of degree one on symmetric tensors: the same material in another unit system (`a·C`, `a > 0`) gives `a` times the
    result, nothing is kept, dropped or refused because of the size of the numbers: `transform_homogeneous`;
  * `normalized_as` through the `Cij` setter (zeroing included) is idempotent for the systems whose template entries
    are single constants: triclinic, monoclinic, orthorhombic, tetragonal, cubic: `normalized_setter_idem_*`.
-/
import Proofs.C11_Setters
import Proofs.C11_Norm
import Proofs.C11_Crystal

namespace Atomman.C11
open Atomman.Gen
set_option linter.unusedSectionVars false
set_option linter.unusedSimpArgs false
set_option linter.unusedVariables false
set_option linter.unnecessarySeqFocus false
set_option linter.unusedTactic false
set_option linter.unreachableTactic false

variable {K : Type} [Field K] [LinearOrder K] [IsStrictOrderedRing K]

/-! ### `value.max()` -/

theorem maxK_le_iff (x y m : K) : maxK x y ≤ m ↔ x ≤ m ∧ y ≤ m := by
  unfold maxK
  split
  · rename_i h; constructor
    · intro hy; exact ⟨le_trans (le_of_lt h) hy, hy⟩
    · intro hh; exact hh.2
  · rename_i h; constructor
    · intro hx; exact ⟨hx, le_trans (not_lt.mp h) hx⟩
    · intro hh; exact hh.1

theorem foldl_maxK_le_iff (xs : List K) (x m : K) : xs.foldl maxK x ≤ m ↔ x ≤ m ∧ ∀ y ∈ xs, y ≤ m := by
  induction xs generalizing x with
  | nil => simp
  | cons y ys ih =>
    simp only [List.foldl_cons, ih, maxK_le_iff, List.mem_cons, forall_eq_or_imp]
    tauto

theorem foldl_maxK_mem (xs : List K) (x : K) : xs.foldl maxK x = x ∨ xs.foldl maxK x ∈ xs := by
  induction xs generalizing x with
  | nil => left; rfl
  | cons y ys ih =>
    simp only [List.foldl_cons, List.mem_cons]
    rcases ih (maxK x y) with h | h
    · rw [h]; unfold maxK; split
      · right; left; rfl
      · left; rfl
    · right; right; exact h

theorem toList6_mem (v : M6 K) (x : K) : x ∈ M6.toList v ↔ ∃ a b, x = v a b := by
  simp only [M6.toList, List.mem_map]
  constructor
  · rintro ⟨p, _, rfl⟩; exact ⟨p.1, p.2, rfl⟩
  · rintro ⟨a, b, rfl⟩; exact ⟨(a, b), idx6_complete (a, b), rfl⟩

theorem toList6_ne_nil (v : M6 K) : M6.toList v ≠ [] := by
  intro h
  have : v 0 0 ∈ M6.toList v := (toList6_mem v _).mpr ⟨0, 0, rfl⟩
  rw [h] at this; cases this

/-- every entry is at most the maximum. -/
theorem le_max6 (v : M6 K) (a b : Fin 6) : v a b ≤ max6 v := by
  have hm : v a b ∈ M6.toList v := (toList6_mem v _).mpr ⟨a, b, rfl⟩
  unfold max6
  cases hl : M6.toList v with
  | nil => exact absurd hl (toList6_ne_nil v)
  | cons x xs =>
    rw [hl] at hm
    have := (foldl_maxK_le_iff xs x (xs.foldl maxK x)).mp le_rfl
    simp only [maxList]
    rcases List.mem_cons.mp hm with h | h
    · rw [h]; exact this.1
    · exact this.2 _ h

/-- the maximum is one of the entries. -/
theorem max6_attained (v : M6 K) : ∃ a b, max6 v = v a b := by
  unfold max6
  cases hl : M6.toList v with
  | nil => exact absurd hl (toList6_ne_nil v)
  | cons x xs =>
    simp only [maxList]
    have hmem : xs.foldl maxK x ∈ M6.toList v := by
      rw [hl]
      rcases foldl_maxK_mem xs x with h | h
      · rw [h]; exact List.mem_cons_self
      · exact List.mem_cons_of_mem _ h
    exact (toList6_mem v _).mp hmem

/-- a bound that is attained is the maximum. -/
theorem max6_eq_of (v : M6 K) (m : K) (hle : ∀ a b, v a b ≤ m) (hat : ∃ a b, v a b = m) : max6 v = m := by
  obtain ⟨a, b, hab⟩ := hat
  obtain ⟨a', b', h'⟩ := max6_attained v
  apply le_antisymm
  · rw [h']; exact hle a' b'
  · rw [← hab]; exact le_max6 v a b

theorem cijSetZeroAtol_lt_one : (cijSetZeroAtol : K) < 1 := by
  unfold cijSetZeroAtol; norm_num

theorem cijSetZeroAtol_nonneg : (0 : K) ≤ cijSetZeroAtol := by
  unfold cijSetZeroAtol; positivity

/-! ### stored matrices are fixed points of the `Cij` setter -/

theorem absK_zero : absK (0 : K) = 0 := by simp [absK]

theorem absK_one : absK (1 : K) = 1 := by
  unfold absK; simp

/-- zeroing the relatively tiny entries does not move the (positive) maximum. -/
theorem max6_zeroSmall (v : M6 K) (hpos : 0 < max6 v) : max6 (zeroSmall (max6 v) v) = max6 v := by
  apply max6_eq_of
  · intro a b
    simp only [zeroSmall]
    split
    · simp only [Nat.cast_zero]; exact le_of_lt hpos
    · exact le_max6 v a b
  · obtain ⟨a, b, hab⟩ := max6_attained v
    refine ⟨a, b, ?_⟩
    simp only [zeroSmall, ← hab, div_self (ne_of_gt hpos), absK_one]
    rw [if_neg (not_le.mpr cijSetZeroAtol_lt_one)]

theorem zeroSmall_idem (mx : K) (v : M6 K) : zeroSmall mx (zeroSmall mx v) = zeroSmall mx v := by
  funext a b
  simp only [zeroSmall]
  by_cases h : absK (v a b / mx) ≤ cijSetZeroAtol
  · simp only [h, if_true, Nat.cast_zero, zero_div, absK_zero, cijSetZeroAtol_nonneg]
  · simp only [h, if_false]

/-- `ElasticConstants(Cij=ec.Cij)` stores exactly `ec.Cij`: whatever the `Cij` setter stores for a symmetric input is
    accepted by the setter unchanged. -/
theorem setCij_idem (v n : M6 K) (h : Symm6 v) (hn : setCij v = .ok n) : setCij n = .ok n := by
  by_cases hpos : 0 < max6 v
  · rw [setCij_of_symm v h hpos] at hn
    cases hn
    have hs := zeroSmall_symm (max6 v) v h
    have hm := max6_zeroSmall v hpos
    rw [setCij_of_symm _ hs (by rw [hm]; exact hpos), hm, zeroSmall_idem]
  · simp only [setCij, tab6_eq, Nat.cast_zero, hpos, not_false_eq_true, if_true] at hn
    cases hn

/-! ### unit systems: the whole of `transform` is homogeneous on symmetric tensors -/

theorem max6_smul (a : K) (ha : 0 < a) (v : M6 K) : max6 (fun p q => a * v p q) = a * max6 v := by
  have h : M6.toList (fun p q => a * v p q) = (M6.toList v).map (a * ·) := by
    simp only [M6.toList, List.map_map, Function.comp_def]
  rw [max6, h, max6]
  cases hC : M6.toList v with
  | nil => exact absurd hC (toList6_ne_nil v)
  | cons x xs => simp only [List.map_cons, maxList, foldl_maxK_mul a ha]

theorem zeroSmall_smul (a mx : K) (ha : 0 < a) (v : M6 K) :
    zeroSmall (a * mx) (fun p q => a * v p q) = fun p q => a * zeroSmall mx v p q := by
  funext p q
  simp only [zeroSmall, mul_div_mul_left _ _ (ne_of_gt ha)]
  split <;> simp

/-- the `Cij` setter commutes with a change of the unit of pressure. -/
theorem setCij_smul (a : K) (ha : 0 < a) (v : M6 K) (h : Symm6 v) :
    setCij (fun p q => a * v p q) = (setCij v).map (fun z p q => a * z p q) := by
  have h' : Symm6 (fun p q => a * v p q) := fun p q => by simp only [h p q]
  by_cases hpos : 0 < max6 v
  · have hpos' : 0 < max6 (fun p q => a * v p q) := by rw [max6_smul a ha]; positivity
    rw [setCij_of_symm _ h' hpos', setCij_of_symm v h hpos, max6_smul a ha, zeroSmall_smul a _ ha]
    rfl
  · have hneg' : ¬ 0 < max6 (fun p q => a * v p q) := by
      rw [max6_smul a ha]
      intro hc
      exact hpos ((mul_pos_iff_of_pos_left ha).mp hc)
    simp only [setCij, tab6_eq, Nat.cast_zero, hpos, hneg', not_false_eq_true, if_true]
    rfl

theorem cleanT4_minor (tol mx : K) (C : T4 K) (h : MinorSymm C) : MinorSymm (cleanT4 tol mx C) := by
  intro i j k l
  constructor
  · simp only [cleanT4, ← (h i j k l).1]
  · simp only [cleanT4, ← (h i j k l).2]

/-- a tensor with the minor and major symmetries passes the 147 assertions of the `Cijkl` setter whatever its
    magnitude; the setter is then the `Cij` setter on its Voigt matrix. -/
theorem setCijkl_of_symm (D : T4 K) (hm : MinorSymm D) (hM : MajorSymm D) : setCijkl D = setCij (cijklSetRaw D) := by
  have hD : cijklGet (cijklSetRaw D) = D := by
    funext i j k l
    rw [cijklGet_eq, cijklSetRaw_eq]; exact minor_of_voigt D hm i j k l
  have hs : Symm6 (cijklSetRaw D) := cijklSetRaw_symm D hM
  by_cases hpos : 0 < max6 (cijklSetRaw D)
  · have := setCijkl_cijklGet _ hs hpos
    rw [hD] at this; exact this
  · have hm4 : ¬ 0 < max4 D := by
      rw [← hD, max4_cijklGet_pos]; exact hpos
    simp only [setCijkl, cijkl_set_max_assert, Nat.cast_zero, hm4, decide_false, Bool.not_false, Bool.and_self,
      if_true, setCij, tab6_eq, hpos, not_false_eq_true]

/-- `ec.transform(axes, tol)` of the same material in another unit system: `a` times the result, the same refusals. -/
theorem transform_homogeneous (tol a : K) (ha : 0 < a) (axes : M33 K) (norms : Fin 3 → K) (c : M6 K) (hc : Symm6 c) :
    transform tol axes norms (fun p q => a * c p q)
      = (transform tol axes norms c).map (fun z p q => a * z p q) := by
  cases hT : axesCheck axes norms with
  | error e => simp only [transform, hT]; rfl
  | ok T =>
    rw [transform_spec _ _ _ _ T hT, transform_spec _ _ _ _ T hT]
    have hg : cijklGet (fun p q => a * c p q) = fun i j k l => a * cijklGet c i j k l := by
      funext i j k l; simp only [cijklGet_eq]
    rw [hg, rot_smul]
    have hcl : cleanT4 tol (max4 (fun i j k l => a * rot T (cijklGet c) i j k l))
        (fun i j k l => a * rot T (cijklGet c) i j k l)
          = fun i j k l => a * cleanT4 tol (max4 (rot T (cijklGet c))) (rot T (cijklGet c)) i j k l := by
      funext i j k l; exact cleanT4_smul tol a ha _ i j k l
    rw [hcl]
    have hmin : MinorSymm (cijklGet c) := by
      intro i j k l; simp only [cijklGet_eq, voigt_symm i j, voigt_symm k l, and_self]
    have hmaj : MajorSymm (cijklGet c) := by
      intro i j k l; simp only [cijklGet_eq]; exact hc _ _
    have hDm := cleanT4_minor tol (max4 (rot T (cijklGet c))) _ (rot_minor T hmin)
    have hDM := cleanT4_major tol (max4 (rot T (cijklGet c))) _ (rot_major T hmaj)
    have hDm' : MinorSymm (fun i j k l => a * cleanT4 tol (max4 (rot T (cijklGet c))) (rot T (cijklGet c)) i j k l) := by
      intro i j k l
      exact ⟨by simp only [← (hDm i j k l).1], by simp only [← (hDm i j k l).2]⟩
    have hDM' : MajorSymm (fun i j k l => a * cleanT4 tol (max4 (rot T (cijklGet c))) (rot T (cijklGet c)) i j k l) := by
      intro i j k l; simp only [← hDM i j k l]
    rw [setCijkl_of_symm _ hDm' hDM', setCijkl_of_symm _ hDm hDM]
    have hraw : cijklSetRaw (fun i j k l => a * cleanT4 tol (max4 (rot T (cijklGet c))) (rot T (cijklGet c)) i j k l)
        = fun p q => a * cijklSetRaw (cleanT4 tol (max4 (rot T (cijklGet c))) (rot T (cijklGet c))) p q := by
      funext p q; simp only [cijklSetRaw_eq]
    rw [hraw]
    exact setCij_smul a ha _ (cijklSetRaw_symm _ hDM)


/-! ### normalisation through the `Cij` setter (zeroing of relatively tiny entries included) -/

/-- the zeroing rule of the `Cij` setter on one entry. -/
def zc (mx x : K) : K := if absK (x / mx) ≤ cijSetZeroAtol then 0 else x

theorem zc_zero (mx : K) : zc mx 0 = 0 := by simp [zc]

theorem absK_neg (x : K) : absK (-x) = absK x := by
  unfold absK
  simp only [Nat.cast_zero, neg_neg, neg_lt_zero]
  rcases lt_trichotomy x 0 with h | h | h
  · simp [h, not_lt_of_gt h]
  · simp [h]
  · simp [h, not_lt_of_gt h]

theorem zc_neg (mx x : K) : zc mx (-x) = -zc mx x := by
  simp only [zc, neg_div, absK_neg]
  split <;> simp

theorem zeroSmall_m6 (mx : K) (L : List K) : zeroSmall mx (m6 L) = m6 (L.map (zc mx)) := by
  funext a b
  simp only [zeroSmall, m6, List.getD_eq_getElem?_getD, List.getElem?_map, Nat.cast_zero]
  cases L[6 * a.val + b.val]? with
  | none => simp [absK_zero, cijSetZeroAtol_nonneg]
  | some x => simp [zc]

/-- what the setter stores for a symmetric template, if it accepts it: the template of the zeroed constants. -/
theorem setCij_m6_ok (L : List K) (n : M6 K) (hs : Symm6 (m6 L)) (hn : setCij (m6 L) = .ok n) :
    n = m6 (L.map (zc (max6 (m6 L)))) := by
  by_cases hpos : 0 < max6 (m6 L)
  · rw [setCij_of_symm _ hs hpos] at hn
    cases hn; exact zeroSmall_m6 _ _
  · simp only [setCij, tab6_eq, Nat.cast_zero, hpos, not_false_eq_true, if_true] at hn
    cases hn

/-- generic step: if re-normalising the stored matrix gives the stored matrix back, the second `normalized_as`
    returns it unchanged. -/
theorem norm_setter_step (L : List K) (n : M6 K) (F : M6 K → List K) (hs : Symm6 (m6 L))
    (hn : setCij (m6 L) = .ok n) (hfix : m6 (F n) = n) : setCij (m6 (F n)) = .ok n := by
  rw [hfix]; exact setCij_idem _ _ hs hn

theorem normalizedAs_triclinic (c s : M6 K) : normalizedAs "triclinic" c s = setCij (m6 (normalized_triclinic c)) := by
  simp [normalizedAs]
theorem normalizedAs_cubic (c s : M6 K) : normalizedAs "cubic" c s = setCij (m6 (normalized_cubic c)) := by
  simp [normalizedAs]
theorem normalizedAs_tetragonal (c s : M6 K) : normalizedAs "tetragonal" c s = setCij (m6 (normalized_tetragonal c)) := by
  simp [normalizedAs]
theorem normalizedAs_orthorhombic (c s : M6 K) :
    normalizedAs "orthorhombic" c s = setCij (m6 (normalized_orthorhombic c)) := by
  simp [normalizedAs]
theorem normalizedAs_monoclinic (c s : M6 K) : normalizedAs "monoclinic" c s = setCij (m6 (normalized_monoclinic c)) := by
  simp [normalizedAs]

/-- `ec.normalized_as('triclinic').normalized_as('triclinic')` stores what `ec.normalized_as('triclinic')` stores. -/
theorem normalized_setter_idem_triclinic (c n s s' : M6 K) (hc : Symm6 c)
    (hn : normalizedAs "triclinic" c s = .ok n) : normalizedAs "triclinic" n s' = .ok n := by
  rw [normalizedAs_triclinic, m6_normalized_triclinic] at hn ⊢
  exact setCij_idem c n hc hn

theorem normalized_setter_idem_cubic (c n s s' : M6 K) (hn : normalizedAs "cubic" c s = .ok n) :
    normalizedAs "cubic" n s' = .ok n := by
  rw [normalizedAs_cubic] at hn ⊢
  simp only [normalized_cubic] at hn
  have hs := cubic_symm (K := K) ((c 0 0 + c 1 1 + c 2 2) / ((3 : ℕ) : K)) ((c 0 1 + c 0 2 + c 1 2) / ((3 : ℕ) : K))
    ((c 3 3 + c 4 4 + c 5 5) / ((3 : ℕ) : K))
  refine norm_setter_step _ n normalized_cubic hs hn ?_
  rw [setCij_m6_ok _ n hs hn]
  have hmap : ∀ (f : K → K) (a b d : K), f 0 = 0 →
      (ctor_C11_C12_C44 a b d).map f = ctor_C11_C12_C44 (f a) (f b) (f d) := by
    intro f a b d h0; simp [ctor_C11_C12_C44, h0]
  rw [hmap _ _ _ _ (zc_zero _), norm_fix_cubic]

theorem normalized_setter_idem_tetragonal (c n s s' : M6 K) (hn : normalizedAs "tetragonal" c s = .ok n) :
    normalizedAs "tetragonal" n s' = .ok n := by
  rw [normalizedAs_tetragonal] at hn ⊢
  simp only [normalized_tetragonal] at hn
  have hs := tetragonal_symm (K := K) ((c 0 0 + c 1 1) / ((2 : ℕ) : K)) (c 0 1) ((c 0 2 + c 1 2) / ((2 : ℕ) : K))
    ((c 0 5 - c 1 5) / ((2 : ℕ) : K)) (c 2 2) ((c 3 3 + c 4 4) / ((2 : ℕ) : K)) (c 5 5)
  refine norm_setter_step _ n normalized_tetragonal hs hn ?_
  rw [setCij_m6_ok _ n hs hn]
  have hmap : ∀ (f : K → K) (a b d e g h i : K), f 0 = 0 → (∀ x, f (-x) = -f x) →
      (ctor_C11_C12_C13_C16_C33_C44_C66 a b d e g h i).map f
        = ctor_C11_C12_C13_C16_C33_C44_C66 (f a) (f b) (f d) (f e) (f g) (f h) (f i) := by
    intro f a b d e g h i h0 hneg; simp [ctor_C11_C12_C13_C16_C33_C44_C66, h0, hneg]
  rw [hmap _ _ _ _ _ _ _ _ (zc_zero _) (zc_neg _), norm_fix_tetragonal]

theorem normalized_setter_idem_orthorhombic (c n s s' : M6 K) (hn : normalizedAs "orthorhombic" c s = .ok n) :
    normalizedAs "orthorhombic" n s' = .ok n := by
  rw [normalizedAs_orthorhombic] at hn ⊢
  simp only [normalized_orthorhombic] at hn
  have hs := orthorhombic_symm (K := K) (c 0 0) (c 0 1) (c 0 2) (c 1 1) (c 1 2) (c 2 2) (c 3 3) (c 4 4) (c 5 5)
  refine norm_setter_step _ n normalized_orthorhombic hs hn ?_
  rw [setCij_m6_ok _ n hs hn]
  have hmap : ∀ (f : K → K) (a1 a2 a3 a4 a5 a6 a7 a8 a9 : K), f 0 = 0 →
      (ctor_C11_C12_C13_C22_C23_C33_C44_C55_C66 a1 a2 a3 a4 a5 a6 a7 a8 a9).map f
        = ctor_C11_C12_C13_C22_C23_C33_C44_C55_C66 (f a1) (f a2) (f a3) (f a4) (f a5) (f a6) (f a7) (f a8) (f a9) := by
    intro f a1 a2 a3 a4 a5 a6 a7 a8 a9 h0; simp [ctor_C11_C12_C13_C22_C23_C33_C44_C55_C66, h0]
  rw [hmap _ _ _ _ _ _ _ _ _ _ (zc_zero _), norm_fix_orthorhombic]

theorem normalized_setter_idem_monoclinic (c n s s' : M6 K) (hn : normalizedAs "monoclinic" c s = .ok n) :
    normalizedAs "monoclinic" n s' = .ok n := by
  rw [normalizedAs_monoclinic] at hn ⊢
  simp only [normalized_monoclinic] at hn
  have hs := monoclinic_symm (K := K) (c 0 0) (c 0 1) (c 0 2) (c 0 4) (c 1 1) (c 1 2) (c 1 4) (c 2 2) (c 2 4) (c 3 3)
    (c 3 5) (c 4 4) (c 5 5)
  refine norm_setter_step _ n normalized_monoclinic hs hn ?_
  rw [setCij_m6_ok _ n hs hn]
  have hmap : ∀ (f : K → K) (a1 a2 a3 a4 a5 a6 a7 a8 a9 a10 a11 a12 a13 : K), f 0 = 0 →
      (ctor_C11_C12_C13_C15_C22_C23_C25_C33_C35_C44_C46_C55_C66 a1 a2 a3 a4 a5 a6 a7 a8 a9 a10 a11 a12 a13).map f
        = ctor_C11_C12_C13_C15_C22_C23_C25_C33_C35_C44_C46_C55_C66 (f a1) (f a2) (f a3) (f a4) (f a5) (f a6) (f a7)
            (f a8) (f a9) (f a10) (f a11) (f a12) (f a13) := by
    intro f a1 a2 a3 a4 a5 a6 a7 a8 a9 a10 a11 a12 a13 h0
    simp [ctor_C11_C12_C13_C15_C22_C23_C25_C33_C35_C44_C46_C55_C66, h0]
  rw [hmap _ _ _ _ _ _ _ _ _ _ _ _ _ _ (zc_zero _), norm_fix_monoclinic]

/-- a tensor that `normalized_as(sys)` returns unchanged passes `is_normal(sys)` at any non-negative tolerances
    (the comparison is entry by entry with itself) — through the `Cij` setter, zeroing included. -/
theorem is_normal_of_fixed (rt at' : K) (h1 : 0 ≤ rt) (h2 : 0 ≤ at') (sys : String) (n s : M6 K)
    (hfix : normalizedAs sys n s = .ok n) : isNormal rt at' sys n s = .ok true := by
  simp only [isNormal, hfix]
  congr 1
  rw [List.all_eq_true]
  intro p _
  exact isclose_self _ _ _ h1 h2

/-- `ec.normalized_as(sys).is_normal(sys)` for the five targets whose normalisation is idempotent through the setter. -/
theorem is_normal_of_normalized_setter (rt at' : K) (h1 : 0 ≤ rt) (h2 : 0 ≤ at') (c n s s' : M6 K) :
    (normalizedAs "cubic" c s = .ok n → isNormal rt at' "cubic" n s' = .ok true) ∧
    (normalizedAs "tetragonal" c s = .ok n → isNormal rt at' "tetragonal" n s' = .ok true) ∧
    (normalizedAs "orthorhombic" c s = .ok n → isNormal rt at' "orthorhombic" n s' = .ok true) ∧
    (normalizedAs "monoclinic" c s = .ok n → isNormal rt at' "monoclinic" n s' = .ok true) ∧
    (Symm6 c → normalizedAs "triclinic" c s = .ok n → isNormal rt at' "triclinic" n s' = .ok true) :=
  ⟨fun h => is_normal_of_fixed rt at' h1 h2 _ n s' (normalized_setter_idem_cubic c n s s' h),
   fun h => is_normal_of_fixed rt at' h1 h2 _ n s' (normalized_setter_idem_tetragonal c n s s' h),
   fun h => is_normal_of_fixed rt at' h1 h2 _ n s' (normalized_setter_idem_orthorhombic c n s s' h),
   fun h => is_normal_of_fixed rt at' h1 h2 _ n s' (normalized_setter_idem_monoclinic c n s s' h),
   fun hc h => is_normal_of_fixed rt at' h1 h2 _ n s' (normalized_setter_idem_triclinic c n s s' hc h)⟩

/-- non-vacuity of the hypothesis `normalizedAs … = .ok n`: a cubic tensor is accepted. -/
example : ∃ n, normalizedAs "cubic" (m6 (ctor_C11_C12_C44 (3 : ℚ) 1 2)) (fun _ _ => 0) = .ok n := by
  rw [normalizedAs_cubic, norm_fix_cubic]
  have hs := cubic_symm (3 : ℚ) 1 2
  have hpos : 0 < max6 (m6 (ctor_C11_C12_C44 (3 : ℚ) 1 2)) := (max6_pos _).mpr ⟨0, 0, by simp [m6, ctor_C11_C12_C44]⟩
  exact ⟨_, setCij_of_symm _ hs hpos⟩

/-- non-vacuity: a symmetric matrix and a positive factor. -/
example : Symm6 (m6 (ctor_C11_C12_C44 (3 : ℚ) 1 2)) ∧ (0 : ℚ) < 160 := by
  constructor
  · unfold Symm6; decide
  · norm_num

end Atomman.C11
