/-
  C14 helper lemmas, part 1: the starting in-plane vectors (= those of C16's plane normal), linearity of
  the Cartesian image, the identity `den (u V)·n = num det V (hkl · u adj L)` behind the zone law.
-/
import Atomman.C14
import Proofs.C14_C16
import Proofs.C05_Lemmas
import Mathlib.Tactic.Ring
import Mathlib.Tactic.Linarith
import Mathlib.Tactic.LinearCombination
import Mathlib.Tactic.FieldSimp
import Mathlib.Tactic.NormNum
import Mathlib.Tactic.Positivity
import Mathlib.Algebra.Order.Field.Basic
import Mathlib.Algebra.Order.Ring.Abs
import Mathlib.Algebra.Order.Ring.Cast
import Mathlib.Data.Int.GCD

namespace Atomman.C14
open Atomman
set_option linter.unusedSectionVars false
set_option linter.unusedSimpArgs false
set_option linter.unusedVariables false

/-! ### the starting vectors are those of `miller.plane_crystal_to_cartesian` (C16) -/

theorem neg_ediv_eq_tdiv (m h : ℤ) (hd : h ∣ m) : -(m / h) = Int.tdiv (-m) h := by
  rw [Int.neg_tdiv, Int.tdiv_eq_ediv_of_dvd hd]

theorem ediv_eq_tdiv (m h : ℤ) (hd : h ∣ m) : m / h = Int.tdiv m h := by
  rw [Int.tdiv_eq_ediv_of_dvd hd]

theorem initVectors_eq_C16 (h k l : ℤ) :
    (match initVectors ⟨h, k, l⟩ with
      | some i => Except.ok (i.a0, i.b0, i.s)
      | none => Except.error C16.Err.value) = C16.planeInPlane h k l := by
  have d1 := Int.dvd_lcm_left h k
  have d2 := Int.dvd_lcm_right h k
  have d3 := Int.dvd_lcm_left h l
  have d4 := Int.dvd_lcm_right h l
  have d5 := Int.dvd_lcm_left k l
  have d6 := Int.dvd_lcm_right k l
  have d7 := dvd_trans (Int.dvd_lcm_left h k) (Int.dvd_lcm_left ((Int.lcm h k : ℕ) : ℤ) l)
  have d8 := dvd_trans (Int.dvd_lcm_right h k) (Int.dvd_lcm_left ((Int.lcm h k : ℕ) : ℤ) l)
  have d9 := Int.dvd_lcm_right ((Int.lcm h k : ℕ) : ℤ) l
  by_cases hh : h = 0 <;> by_cases hk : k = 0 <;> by_cases hl : l = 0 <;>
    simp only [initVectors, C16.planeInPlane, ilcm, hh, hk, hl, ne_eq, not_true_eq_false, not_false_eq_true,
      if_true, if_false, neg_ediv_eq_tdiv _ _ d1, neg_ediv_eq_tdiv _ _ d3, neg_ediv_eq_tdiv _ _ d4,
      neg_ediv_eq_tdiv _ _ d5, neg_ediv_eq_tdiv _ _ d7, ediv_eq_tdiv _ _ d2, ediv_eq_tdiv _ _ d3,
      ediv_eq_tdiv _ _ d6, ediv_eq_tdiv _ _ d8, ediv_eq_tdiv _ _ d9]


/-- for a non-zero plane: the starting vectors exist and `den·s·(a₀×b₀) = num·(h,k,l)` with `num, den > 0`. -/
theorem init_cross_parallel (hkl : IV) (hne : hkl ≠ ⟨0, 0, 0⟩) :
    ∃ ini, initVectors hkl = some ini ∧ ∃ num den : ℤ, 0 < num ∧ 0 < den ∧
      V3.smul den (V3.smul ini.s (V3.cross ini.a0 ini.b0)) = V3.smul num hkl := by
  obtain ⟨h, k, l⟩ := hkl
  have hne' : ¬(h = 0 ∧ k = 0 ∧ l = 0) := by
    rintro ⟨rfl, rfl, rfl⟩; exact hne rfl
  obtain ⟨a, b, s, hp, num, den, hn, hd, he⟩ := c16_idx_cross_parallel h k l hne'
  have e := initVectors_eq_C16 h k l
  rw [hp] at e
  cases hi : initVectors ⟨h, k, l⟩ with
  | none => rw [hi] at e; cases e
  | some ini =>
    rw [hi] at e
    simp only [Except.ok.injEq, Prod.mk.injEq] at e
    obtain ⟨rfl, rfl, rfl⟩ := e
    exact ⟨ini, rfl, num, den, hn, hd, he⟩

theorem initVectors_zero : initVectors ⟨0, 0, 0⟩ = none := by decide

theorem initVectors_none_iff (hkl : IV) : initVectors hkl = none ↔ hkl = ⟨0, 0, 0⟩ := by
  constructor
  · intro h
    by_contra hne
    obtain ⟨ini, hi, _⟩ := init_cross_parallel hkl hne
    rw [hi] at h; cases h
  · rintro rfl; exact initVectors_zero

section ring
variable {K : Type} [CommRing K]

def castM (L : M3 Int) : M3 K := ⟨toK L.r0, toK L.r1, toK L.r2⟩

theorem cart_vecMul (V : M3 K) (L : M3 Int) (a : IV) :
    cart V (M3.vecMul a L) = cart (M3.mul (castM L) V) a := by
  simp only [cart, toK, castM, M3.vecMul, M3.mul, V3.mk.injEq]
  push_cast
  refine ⟨by ring, by ring, by ring⟩

theorem triple_vecMul (V : M3 K) (p q r : V3 K) :
    V3.dot (M3.vecMul p V) (V3.cross (M3.vecMul q V) (M3.vecMul r V)) = M3.det V * V3.dot p (V3.cross q r) := by
  simp only [M3.vecMul, M3.det, V3.dot, V3.cross]
  ring

theorem dot_cross_adj (L : M3 Int) (u a b : IV) :
    V3.dot u (V3.cross (M3.vecMul a L) (M3.vecMul b L)) = V3.dot (M3.vecMul u (adj L)) (V3.cross a b) := by
  simp only [M3.vecMul, V3.dot, V3.cross, adj, M3.transpose]
  ring

theorem toK_dot (a b : IV) : ((V3.dot a b : ℤ) : K) = V3.dot (toK a) (toK b) := by
  simp only [V3.dot, toK]; push_cast; ring

theorem toK_cross (a b : IV) : toK (K := K) (V3.cross a b) = V3.cross (toK a) (toK b) := by
  simp only [V3.cross, toK, V3.mk.injEq]; push_cast; exact ⟨rfl, rfl, rfl⟩

/-- the key identity: `den · (u·V)·n = num · det V · (hkl · (u · adj L))`. -/
theorem dot_cart_planeNormal (V : M3 K) (L : M3 Int) (a b hkl u : IV) (s num den : ℤ)
    (he : V3.smul den (V3.smul s (V3.cross a b)) = V3.smul num hkl) :
    (den : K) * V3.dot (cart V u) (planeNormal V s (M3.vecMul a L) (M3.vecMul b L))
      = (num : K) * M3.det V * ((V3.dot hkl (M3.vecMul u (adj L)) : ℤ) : K) := by
  have h1 : V3.dot (cart V u) (planeNormal V s (M3.vecMul a L) (M3.vecMul b L))
      = (s : K) * (M3.det V * ((V3.dot u (V3.cross (M3.vecMul a L) (M3.vecMul b L)) : ℤ) : K)) := by
    rw [toK_dot, toK_cross, ← triple_vecMul]
    simp only [planeNormal, cart, V3.dot, V3.smul]
    ring
  rw [h1, dot_cross_adj]
  have h2 : den * (s * V3.dot (M3.vecMul u (adj L)) (V3.cross a b)) = num * V3.dot hkl (M3.vecMul u (adj L)) := by
    simp only [V3.smul, V3.mk.injEq] at he
    obtain ⟨e1, e2, e3⟩ := he
    simp only [V3.dot]
    linear_combination (M3.vecMul u (adj L)).x * e1 + (M3.vecMul u (adj L)).y * e2 + (M3.vecMul u (adj L)).z * e3
  have h2' := congrArg (Int.cast (R := K)) h2
  push_cast at h2'
  linear_combination M3.det V * h2'

end ring

end Atomman.C14
