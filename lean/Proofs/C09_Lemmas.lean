/-
  C09 — helper lemmas: the reducer on flat token lists, the parenthesis scanner, fuel irrelevance
  of the tokeniser and its unfolding equations.
-/
import Atomman.C09
import Mathlib.Tactic.Common

namespace Atomman.C09
variable {V : Type} (alg : Alg V)

def chainTail (xs : List V) : List (Item V) := xs.flatMap fun x => [.op .pow, .val x]

def powFold (b : V) : List V → Option V
  | [] => some b
  | x :: xs => (alg.pow b x).bind fun v => powFold v xs

def TailOK (t : List (Item V)) : Prop := t = [] ∨ ∃ o r, t = .op o :: r ∧ o ≠ .pow

theorem powGo_chain (xs : List V) (b : V) (t : List (Item V)) :
    powGo alg (some b) (chainTail xs ++ t) = (powFold alg b xs).bind fun v => powGo alg (some v) t := by
  induction xs generalizing b with
  | nil => simp [chainTail, powFold]
  | cons x xs ih =>
    have : chainTail (x :: xs) ++ t = .op .pow :: .val x :: (chainTail xs ++ t) := by
      simp [chainTail]
    rw [this, powGo, powFold]
    cases alg.pow b x with
    | none => rfl
    | some v => simpa using ih v

def applyOp : Op → V → V → Option V
  | .mul => alg.mul
  | .div => alg.div
  | .pow => fun _ _ => none

def flatM (ps : List (Op × V × List V)) : List (Item V) :=
  ps.flatMap fun p => .op p.1 :: .val p.2.1 :: chainTail p.2.2

def valsOf : List (Op × V × List V) → Option (List (Op × V))
  | [] => some []
  | p :: ps => (powFold alg p.2.1 p.2.2).bind fun y => (valsOf ps).map ((p.1, y) :: ·)

def flatV (ys : List (Op × V)) : List (Item V) := ys.flatMap fun p => [.op p.1, .val p.2]

def mulFoldV (a : V) : List (Op × V) → Option V
  | [] => some a
  | p :: ys => (applyOp alg p.1 a p.2).bind fun x => mulFoldV x ys

theorem tailOK_flatM (ps : List (Op × V × List V)) (h : ∀ p ∈ ps, p.1 ≠ .pow) : TailOK (flatM ps) := by
  cases ps with
  | nil => left; rfl
  | cons p ps => right; exact ⟨p.1, .val p.2.1 :: (chainTail p.2.2 ++ flatM ps), by simp [flatM], h p (by simp)⟩

theorem powGo_mul (ps : List (Op × V × List V)) (v : V) (h : ∀ p ∈ ps, p.1 ≠ .pow) :
    powGo alg (some v) (flatM ps) = (valsOf alg ps).map fun ys => .val v :: flatV ys := by
  induction ps generalizing v with
  | nil => simp [flatM, valsOf, flatV, powGo]
  | cons p ps ih =>
    obtain ⟨o, b, xs⟩ := p
    have ho : o ≠ .pow := h (o, b, xs) (by simp)
    have hps : ∀ p ∈ ps, p.1 ≠ .pow := fun p hp => h p (by simp [hp])
    have e : flatM ((o, b, xs) :: ps) = .op o :: .val b :: (chainTail xs ++ flatM ps) := by
      simp [flatM]
    have step : powGo alg (some v) (.op o :: .val b :: (chainTail xs ++ flatM ps))
        = (powGo alg (some b) (chainTail xs ++ flatM ps)).map (fun r => .val v :: .op o :: r) := by
      cases o with
      | pow => exact absurd rfl ho
      | mul => simp [powGo]
      | div => simp [powGo]
    rw [e, step, powGo_chain alg xs b _, valsOf]
    cases powFold alg b xs with
    | none => rfl
    | some y =>
      simp only [Option.bind_some, ih y hps]
      cases valsOf alg ps <;> simp [flatV]

theorem mulDiv_flatV (ys : List (Op × V)) (a : V) :
    mulDiv alg a (flatV ys) = mulFoldV alg a ys := by
  induction ys generalizing a with
  | nil => simp [flatV, mulDiv, mulFoldV]
  | cons p ys ih =>
    obtain ⟨o, y⟩ := p
    have e : flatV ((o, y) :: ys) = .op o :: .val y :: flatV ys := by simp [flatV]
    rw [e, mulFoldV]
    cases o with
    | pow => simp [mulDiv, applyOp]
    | mul =>
      simp only [mulDiv, applyOp]
      cases alg.mul a y <;> simp [ih]
    | div =>
      simp only [mulDiv, applyOp]
      cases alg.div a y <;> simp [ih]

def mulEval (b : V) (xs : List V) (ps : List (Op × V × List V)) : Option V :=
  (powFold alg b xs).bind fun v => (valsOf alg ps).bind fun ys => mulFoldV alg v ys

theorem reduce_flat (b : V) (xs : List V) (ps : List (Op × V × List V)) (h : ∀ p ∈ ps, p.1 ≠ .pow) :
    reduce alg (.val b :: (chainTail xs ++ flatM ps)) = mulEval alg b xs ps := by
  rw [reduce, powGo, powGo_chain alg xs b _, mulEval]
  cases powFold alg b xs with
  | none => rfl
  | some v =>
    simp only [Option.bind_some, powGo_mul alg ps v h]
    cases valsOf alg ps with
    | none => rfl
    | some ys => simp [mulDivPass, mulDiv_flatV]

theorem valsOf_snoc (ps : List (Op × V × List V)) (p : Op × V × List V) :
    valsOf alg (ps ++ [p]) = (valsOf alg ps).bind fun ys =>
      (powFold alg p.2.1 p.2.2).map fun y => ys ++ [(p.1, y)] := by
  induction ps with
  | nil => simp [valsOf]; cases powFold alg p.2.1 p.2.2 <;> rfl
  | cons q ps ih =>
    simp only [List.cons_append, valsOf, ih]
    cases powFold alg q.2.1 q.2.2 with
    | none => rfl
    | some y =>
      cases valsOf alg ps with
      | none => rfl
      | some ys => cases powFold alg p.2.1 p.2.2 <;> rfl

theorem mulFoldV_snoc (ys : List (Op × V)) (a : V) (q : Op × V) :
    mulFoldV alg a (ys ++ [q]) = (mulFoldV alg a ys).bind fun x => applyOp alg q.1 x q.2 := by
  induction ys generalizing a with
  | nil => simp [mulFoldV]
  | cons p ys ih =>
    simp only [List.cons_append, mulFoldV]
    cases applyOp alg p.1 a p.2 with
    | none => rfl
    | some x => simpa using ih x

theorem mulEval_snoc (b : V) (xs : List V) (ps : List (Op × V × List V)) (o : Op) (b1 : V) (xs1 : List V) :
    mulEval alg b xs (ps ++ [(o, b1, xs1)])
      = bind2 (applyOp alg o) (mulEval alg b xs ps) (powFold alg b1 xs1) := by
  simp only [mulEval, valsOf_snoc]
  cases powFold alg b xs with
  | none => simp [bind2]
  | some v =>
    cases valsOf alg ps with
    | none => simp [bind2]
    | some ys =>
      cases h1 : powFold alg b1 xs1 with
      | none => simp [bind2]
      | some y =>
        simp [mulFoldV_snoc, bind2]
        cases mulFoldV alg v ys <;> rfl


variable (env : List Char → Option V)
theorem dw_len (p : Char → Bool) (l : List Char) : (l.dropWhile p).length ≤ l.length := by
  induction l with
  | nil => simp
  | cons a l ih => rw [List.dropWhile_cons]; split <;> (simp; try omega)

theorem splitParen_length : ∀ (cs : List Char) (k : Nat) (a b : List Char),
    splitParen cs k = some (a, b) → a.length + b.length + 1 = cs.length := by
  intro cs
  induction cs with
  | nil => intro k a b h; simp [splitParen] at h
  | cons c cs ih =>
    intro k a b h
    rw [splitParen.eq_def] at h
    simp only at h
    split at h
    · cases k with
      | zero => simp at h; obtain ⟨rfl, rfl⟩ := h; simp
      | succ k =>
        simp only [Option.map_eq_some_iff] at h
        obtain ⟨p, hp, hq⟩ := h
        obtain ⟨p1, p2⟩ := p
        have := ih k p1 p2 hp
        simp at hq; obtain ⟨rfl, rfl⟩ := hq; simp; omega
    · split at h <;>
      · simp only [Option.map_eq_some_iff] at h
        obtain ⟨p, hp, hq⟩ := h
        obtain ⟨p1, p2⟩ := p
        have := ih _ p1 p2 hp
        simp at hq; obtain ⟨rfl, rfl⟩ := hq; simp; omega

theorem scan_fuel_irrel : ∀ (f f' : Nat) (cs : List Char), cs.length ≤ f → cs.length ≤ f' →
    scan alg env f cs = scan alg env f' cs := by
  intro f
  induction f with
  | zero =>
    intro f' cs h h'
    have : cs = [] := List.length_eq_zero_iff.mp (by omega)
    subst this; cases f' <;> simp [scan]
  | succ f ih =>
    intro f' cs h h'
    cases cs with
    | nil => cases f' <;> simp [scan]
    | cons c cs =>
      cases f' with
      | zero => simp at h'
      | succ f' =>
        simp only [List.length_cons, Nat.add_le_add_iff_right] at h h'
        have hd : (cs.dropWhile fun x => !isStop x).length ≤ cs.length := dw_len _ _
        have e1 := ih f' (cs.dropWhile fun x => !isStop x) (by omega) (by omega)
        have e2 := ih f' cs h h'
        simp only [scan]
        split
        · cases hsp : splitParen cs 0 with
          | none => rfl
          | some p =>
            obtain ⟨inner, rest⟩ := p
            have hl := splitParen_length cs 0 inner rest hsp
            simp only
            rw [ih f' inner (by omega) (by omega), ih f' rest (by omega) (by omega)]
        · rw [e1, e2]

/-- the tokens with exactly the fuel the string needs. -/
def scanL (cs : List Char) : Option (List (Item V)) := scan alg env cs.length cs

theorem parse_eq (cs : List Char) : parse alg env cs = (scanL alg env cs).bind (reduce alg) := rfl

theorem scanL_nil : scanL alg env [] = some [] := by simp [scanL, scan]

theorem scanL_paren (cs inner rest : List Char) (h : splitParen cs 0 = some (inner, rest)) :
    scanL alg env ('(' :: cs) = (scanL alg env inner).bind fun its =>
      (reduce alg its).bind fun v => (scanL alg env rest).map (.val v :: ·) := by
  have hl := splitParen_length cs 0 inner rest h
  simp only [scanL, List.length_cons, scan, if_true, h]
  rw [scan_fuel_irrel alg env cs.length inner.length inner (by omega) (Nat.le_refl _),
      scan_fuel_irrel alg env cs.length rest.length rest (by omega) (Nat.le_refl _)]

theorem scanL_paren_none (cs : List Char) (h : splitParen cs 0 = none) :
    scanL alg env ('(' :: cs) = none := by
  simp only [scanL, List.length_cons, scan, if_true, h]

theorem alpha_ne_lparen {c : Char} (h : isAlphaStart c = true) : c ≠ '(' := by
  rintro rfl; revert h; decide

theorem scanL_alpha (c : Char) (cs : List Char) (h : isAlphaStart c = true) :
    scanL alg env (c :: cs) = (env (c :: cs.takeWhile (fun x => !isStop x))).bind fun v =>
      (scanL alg env (cs.dropWhile (fun x => !isStop x))).map (.val v :: ·) := by
  have hd : (cs.dropWhile fun x => !isStop x).length ≤ cs.length := dw_len _ _
  simp only [scanL, List.length_cons, scan, if_neg (alpha_ne_lparen h), h, if_true]
  rw [scan_fuel_irrel alg env cs.length _ _ hd (Nat.le_refl _)]

theorem num_not_alpha {c : Char} (h : isNumStart c = true) : isAlphaStart c = false ∧ c ≠ '(' := by
  simp only [isNumStart, isDigit, Bool.or_eq_true, Bool.and_eq_true, decide_eq_true_eq] at h
  rcases h with (h | rfl) | rfl
  · constructor
    · simp only [isAlphaStart, Bool.or_eq_false_iff, Bool.and_eq_false_iff, decide_eq_false_iff_not]
      omega
    · rintro rfl; simp at h
  · decide
  · decide

theorem scanL_num (c : Char) (cs : List Char) (h : isNumStart c = true) :
    scanL alg env (c :: cs) = (numLit (c :: cs.takeWhile (fun x => !isStop x))).bind fun me =>
      (alg.num me.1 me.2).bind fun v =>
      (scanL alg env (cs.dropWhile (fun x => !isStop x))).map (.val v :: ·) := by
  have hd : (cs.dropWhile fun x => !isStop x).length ≤ cs.length := dw_len _ _
  obtain ⟨h1, h2⟩ := num_not_alpha h
  simp only [scanL, List.length_cons, scan, if_neg h2, h1, h, if_true, Bool.false_eq_true, if_false]
  rw [scan_fuel_irrel alg env cs.length _ _ hd (Nat.le_refl _)]

theorem scanL_mul (cs : List Char) : scanL alg env ('*' :: cs) = (scanL alg env cs).map (.op .mul :: ·) := by
  simp [scanL, scan, isAlphaStart, isNumStart, isDigit]
theorem scanL_div (cs : List Char) : scanL alg env ('/' :: cs) = (scanL alg env cs).map (.op .div :: ·) := by
  simp [scanL, scan, isAlphaStart, isNumStart, isDigit]
theorem scanL_pow (cs : List Char) : scanL alg env ('^' :: cs) = (scanL alg env cs).map (.op .pow :: ·) := by
  simp [scanL, scan, isAlphaStart, isNumStart, isDigit]

theorem scanL_ws (w : Char) (cs : List Char) (h : isWs w = true) :
    scanL alg env (w :: cs) = scanL alg env cs := by
  simp only [isWs, Bool.or_eq_true, decide_eq_true_eq] at h
  rcases h with ((rfl | rfl) | rfl) | rfl <;>
    simp [scanL, scan, isAlphaStart, isNumStart, isDigit, isWs]



def OkRest (rest : List Char) : Prop := rest = [] ∨ ∃ c r, rest = c :: r ∧ isStop c = true

theorem tw_token (t rest : List Char) (ht : noStop t) (hr : OkRest rest) :
    (t ++ rest).takeWhile (fun x => !isStop x) = t ∧ (t ++ rest).dropWhile (fun x => !isStop x) = rest := by
  induction t with
  | nil =>
    rcases hr with rfl | ⟨c, r, rfl, hc⟩
    · simp
    · simp [hc]
  | cons a t ih =>
    have ha : isStop a = false := ht a (by simp)
    have := ih (fun c hc => ht c (by simp [hc]))
    simp [ha, this]

theorem splitParen_other (c : Char) (h1 : c ≠ '(') (h2 : c ≠ ')') (r : List Char) (k : Nat) :
    splitParen (c :: r) k = (splitParen r k).map fun p => (c :: p.1, p.2) := by
  rw [splitParen.eq_def]; simp only [if_neg h2, if_neg h1]

theorem splitParen_open (r : List Char) (k : Nat) :
    splitParen ('(' :: r) k = (splitParen r (k + 1)).map fun p => ('(' :: p.1, p.2) := by
  rw [splitParen.eq_def]; simp

theorem splitParen_close (r : List Char) (k : Nat) :
    splitParen (')' :: r) (k + 1) = (splitParen r k).map fun p => (')' :: p.1, p.2) := by
  rw [splitParen.eq_def]; simp

theorem splitParen_close0 (r : List Char) : splitParen (')' :: r) 0 = some ([], r) := by
  rw [splitParen.eq_def]; simp

theorem splitParen_token (t : List Char) (ht : noParen t) (r : List Char) (k : Nat) :
    splitParen (t ++ r) k = (splitParen r k).map fun p => (t ++ p.1, p.2) := by
  induction t with
  | nil => simp
  | cons a t ih =>
    have ha := ht a (by simp)
    have := ih (fun c hc => ht c (by simp [hc]))
    rw [List.cons_append, splitParen_other a ha.1 ha.2, this]
    cases splitParen r k <;> simp

theorem alpha_noparen {c : Char} (h : isAlphaStart c = true) : c ≠ '(' ∧ c ≠ ')' :=
  ⟨by rintro rfl; revert h; decide, by rintro rfl; revert h; decide⟩

theorem ws_noparen {c : Char} (h : isWs c = true) : c ≠ '(' ∧ c ≠ ')' :=
  ⟨by rintro rfl; revert h; decide, by rintro rfl; revert h; decide⟩

theorem num_noparen {c : Char} (h : isNumStart c = true) : c ≠ '(' ∧ c ≠ ')' :=
  ⟨by rintro rfl; revert h; decide, by rintro rfl; revert h; decide⟩

theorem ws_stop {c : Char} (h : isWs c = true) : isStop c = true := by
  simp only [isWs, Bool.or_eq_true, decide_eq_true_eq] at h
  rcases h with ((rfl | rfl) | rfl) | rfl <;> decide

theorem splitParen_one (c : Char) (hc : c ≠ '(' ∧ c ≠ ')') (r : List Char) (k : Nat) :
    splitParen (c :: r) k = (splitParen r k).map fun p => (c :: p.1, p.2) := by
  exact splitParen_other c hc.1 hc.2 r k

/-- a rendering is transparent for the parenthesis scanner. -/
theorem splitParen_renders {e : Expr} {lvl : Nat} {s : List Char} (h : Renders e lvl s) :
    ∀ (r : List Char) (k : Nat), splitParen (s ++ r) k = (splitParen r k).map fun p => (s ++ p.1, p.2) := by
  induction h with
  | name n hn =>
    obtain ⟨c, cs, rfl, hc, _, hp⟩ := hn
    intro r k
    exact splitParen_token (c :: cs) (by
      intro x hx; rcases List.mem_cons.mp hx with rfl | hx
      · exact alpha_noparen hc
      · exact hp x hx) r k
  | num l hl =>
    obtain ⟨c, cs, rfl, hc, _, hp⟩ := hl
    intro r k
    exact splitParen_token (c :: cs) (by
      intro x hx; rcases List.mem_cons.mp hx with rfl | hx
      · exact num_noparen hc
      · exact hp x hx) r k
  | @paren e lvl s _ ih =>
    intro r k
    have e1 : ('(' :: (s ++ [')'])) ++ r = '(' :: (s ++ (')' :: r)) := by simp
    rw [e1, splitParen_open, ih, splitParen_close]
    cases splitParen r k <;> simp
  | wsL w hw _ ih =>
    intro r k
    rw [List.cons_append, splitParen_one w (ws_noparen hw), ih]
    cases splitParen r k <;> simp
  | @wsR e lvl s w hw _ ih =>
    intro r k
    have e1 : (s ++ [w]) ++ r = s ++ (w :: r) := by simp
    rw [e1, ih, splitParen_one w (ws_noparen hw)]
    cases splitParen r k <;> simp
  | up _ ih => exact ih
  | @pow a b s t _ _ iha ihb =>
    intro r k
    have e1 : (s ++ '^' :: t) ++ r = s ++ ('^' :: (t ++ r)) := by simp
    rw [e1, iha, splitParen_one '^' (by decide), ihb]
    cases splitParen r k <;> simp
  | @mul a b s t _ _ iha ihb =>
    intro r k
    have e1 : (s ++ '*' :: t) ++ r = s ++ ('*' :: (t ++ r)) := by simp
    rw [e1, iha, splitParen_one '*' (by decide), ihb]
    cases splitParen r k <;> simp
  | @div a b s t _ _ iha ihb =>
    intro r k
    have e1 : (s ++ '/' :: t) ++ r = s ++ ('/' :: (t ++ r)) := by simp
    rw [e1, iha, splitParen_one '/' (by decide), ihb]
    cases splitParen r k <;> simp



def Shape0 (e : Expr) (fl : Option (List (Item V))) : Prop :=
  fl = (evalAst alg env e).map fun v => [.val v]

def Shape1 (e : Expr) : Option (List (Item V)) → Prop
  | none => evalAst alg env e = none
  | some its => ∃ b xs, its = .val b :: chainTail xs ∧ evalAst alg env e = powFold alg b xs

def Shape2 (e : Expr) : Option (List (Item V)) → Prop
  | none => evalAst alg env e = none
  | some its => ∃ b xs ps, (∀ p ∈ ps, p.1 ≠ Op.pow) ∧ its = .val b :: (chainTail xs ++ flatM ps)
      ∧ evalAst alg env e = mulEval alg b xs ps

def Shape : Nat → Expr → Option (List (Item V)) → Prop
  | 0 => Shape0 alg env
  | 1 => Shape1 alg env
  | _ + 2 => Shape2 alg env

theorem shape01 {e : Expr} {fl : Option (List (Item V))} (h : Shape0 alg env e fl) : Shape1 alg env e fl := by
  unfold Shape0 at h; subst h
  cases hv : evalAst alg env e with
  | none => simpa [Shape1] using hv
  | some v => exact ⟨v, [], by simp [chainTail], by simp [powFold, hv]⟩

theorem shape12 {e : Expr} {fl : Option (List (Item V))} (h : Shape1 alg env e fl) : Shape2 alg env e fl := by
  cases fl with
  | none => exact h
  | some its =>
    obtain ⟨b, xs, rfl, he⟩ := h
    refine ⟨b, xs, [], by simp, by simp [flatM], ?_⟩
    rw [he, mulEval]; cases powFold alg b xs <;> simp [valsOf, mulFoldV]

theorem shape_up {lvl : Nat} {e : Expr} {fl : Option (List (Item V))} (h : Shape alg env lvl e fl) :
    Shape alg env (lvl + 1) e fl := by
  match lvl with
  | 0 => exact shape01 alg env h
  | 1 => exact shape12 alg env h
  | _ + 2 => exact h

theorem shape_to2 {lvl : Nat} {e : Expr} {fl : Option (List (Item V))} (h : Shape alg env lvl e fl) :
    Shape2 alg env e fl := by
  match lvl with
  | 0 => exact shape12 alg env (shape01 alg env h)
  | 1 => exact shape12 alg env h
  | _ + 2 => exact h

/-- the flat token list of any rendering reduces to the tree's value. -/
theorem shape_reduce {lvl : Nat} {e : Expr} {fl : Option (List (Item V))} (h : Shape alg env lvl e fl) :
    fl.bind (reduce alg) = evalAst alg env e := by
  have h2 := shape_to2 alg env h
  cases fl with
  | none => exact h2.symm
  | some its =>
    obtain ⟨b, xs, ps, hp, rfl, he⟩ := h2
    rw [he]; exact reduce_flat alg b xs ps hp



theorem okRest_stop (c : Char) (r : List Char) (h : isStop c = true) : OkRest (c :: r) :=
  Or.inr ⟨c, r, rfl, h⟩

/-- extension of a level-2 chain by one more factor. -/
theorem shape2_snoc {a b : Expr} {fla flb : Option (List (Item V))} (o : Op) (ho : o ≠ .pow)
    (ha : Shape2 alg env a fla) (hb : Shape1 alg env b flb) (e : Expr)
    (he : evalAst alg env e = bind2 (applyOp alg o) (evalAst alg env a) (evalAst alg env b)) :
    Shape2 alg env e (fla.bind fun ia => flb.map fun ib => ia ++ .op o :: ib) := by
  cases fla with
  | none =>
    have : evalAst alg env a = none := ha
    simp [Shape2, he, this, bind2]
  | some ia =>
    cases flb with
    | none =>
      have : evalAst alg env b = none := hb
      simp only [Option.bind_some, Option.map_none, Shape2, he, this]
      cases evalAst alg env a <;> rfl
    | some ib =>
      obtain ⟨b0, xs0, ps, hp, rfl, hea⟩ := ha
      obtain ⟨b1, xs1, rfl, heb⟩ := hb
      refine ⟨b0, xs0, ps ++ [(o, b1, xs1)], ?_, ?_, ?_⟩
      · intro p hp'
        rcases List.mem_append.mp hp' with h | h
        · exact hp p h
        · simp at h; subst h; exact ho
      · simp [flatM]
      · rw [he, hea, heb, mulEval_snoc]

theorem shape1_snoc {a b : Expr} {fla flb : Option (List (Item V))}
    (ha : Shape1 alg env a fla) (hb : Shape0 alg env b flb) :
    Shape1 alg env (.pow a b) (fla.bind fun ia => flb.map fun ib => ia ++ .op .pow :: ib) := by
  unfold Shape0 at hb; subst hb
  cases fla with
  | none =>
    have : evalAst alg env a = none := ha
    simp [Shape1, evalAst, this, bind2]
  | some ia =>
    cases hvb : evalAst alg env b with
    | none =>
      simp only [Option.bind_some, Option.map_none, Shape1, evalAst, hvb]
      cases evalAst alg env a <;> rfl
    | some x =>
      obtain ⟨b0, xs0, rfl, hea⟩ := ha
      refine ⟨b0, xs0 ++ [x], by simp [chainTail], ?_⟩
      simp only [evalAst, hea, hvb]
      clear hea
      induction xs0 generalizing b0 with
      | nil => simp [powFold, bind2]
      | cons y ys ih =>
        simp only [List.cons_append, powFold]
        cases alg.pow b0 y with
        | none => simp [bind2]
        | some v => simpa using ih v

theorem scan_renders {e : Expr} {lvl : Nat} {s : List Char} (h : Renders e lvl s) :
    ∃ fl : Option (List (Item V)), Shape alg env lvl e fl ∧ ∀ rest, OkRest rest →
      scanL alg env (s ++ rest) = fl.bind fun its => (scanL alg env rest).map (its ++ ·) := by
  induction h with
  | name n hn =>
    obtain ⟨c, cs, rfl, hc, hs, _⟩ := hn
    refine ⟨(env (c :: cs)).map fun v => [.val v], rfl, ?_⟩
    intro rest hr
    obtain ⟨h1, h2⟩ := tw_token cs rest hs hr
    rw [List.cons_append, scanL_alpha alg env c _ hc, h1, h2]
    cases env (c :: cs) <;> simp
  | num l hl =>
    obtain ⟨c, cs, rfl, hc, hs, _⟩ := hl
    refine ⟨((numLit (c :: cs)).bind fun me => alg.num me.1 me.2).map fun v => [.val v], rfl, ?_⟩
    intro rest hr
    obtain ⟨h1, h2⟩ := tw_token cs rest hs hr
    rw [List.cons_append, scanL_num alg env c _ hc, h1, h2]
    cases numLit (c :: cs) with
    | none => rfl
    | some me => simp only [Option.bind_some]; cases hn : alg.num me.1 me.2 <;> simp
  | @paren e lvl s hs ih =>
    obtain ⟨fl, hsh, hscan⟩ := ih
    refine ⟨(evalAst alg env e).map fun v => [.val v], rfl, ?_⟩
    intro rest _
    have hsp : splitParen ((s ++ [')']) ++ rest) 0 = some (s, rest) := by
      have e1 : (s ++ [')']) ++ rest = s ++ (')' :: rest) := by simp
      rw [e1, splitParen_renders hs, splitParen_close0]; simp
    have hin : scanL alg env s = fl := by
      have := hscan [] (Or.inl rfl)
      rw [List.append_nil, scanL_nil] at this
      rw [this]; cases fl <;> simp
    rw [List.cons_append, scanL_paren alg env _ s rest hsp, hin]
    have hred := shape_reduce alg env hsh
    cases fl with
    | none => simp at hred; simp [← hred]
    | some its =>
      simp only [Option.bind_some] at hred ⊢
      rw [hred]; cases evalAst alg env e <;> simp
  | @wsL e lvl s w hw _ ih =>
    obtain ⟨fl, hsh, hscan⟩ := ih
    refine ⟨fl, hsh, ?_⟩
    intro rest hr
    rw [List.cons_append, scanL_ws alg env w _ hw, hscan rest hr]
  | @wsR e lvl s w hw _ ih =>
    obtain ⟨fl, hsh, hscan⟩ := ih
    refine ⟨fl, hsh, ?_⟩
    intro rest _
    have e1 : (s ++ [w]) ++ rest = s ++ (w :: rest) := by simp
    rw [e1, hscan _ (okRest_stop w rest (ws_stop hw)), scanL_ws alg env w _ hw]
  | up _ ih =>
    obtain ⟨fl, hsh, hscan⟩ := ih
    exact ⟨fl, shape_up alg env hsh, hscan⟩
  | @pow a b s t _ _ iha ihb =>
    obtain ⟨fla, hsa, hscana⟩ := iha
    obtain ⟨flb, hsb, hscanb⟩ := ihb
    refine ⟨_, shape1_snoc alg env hsa hsb, ?_⟩
    intro rest hr
    have e1 : (s ++ '^' :: t) ++ rest = s ++ ('^' :: (t ++ rest)) := by simp
    rw [e1, hscana _ (okRest_stop '^' _ (by decide)), scanL_pow, hscanb rest hr]
    cases fla <;> cases flb <;> cases scanL alg env rest <;> simp
  | @mul a b s t _ _ iha ihb =>
    obtain ⟨fla, hsa, hscana⟩ := iha
    obtain ⟨flb, hsb, hscanb⟩ := ihb
    refine ⟨_, shape2_snoc alg env .mul (by decide) hsa hsb (.mul a b) rfl, ?_⟩
    intro rest hr
    have e1 : (s ++ '*' :: t) ++ rest = s ++ ('*' :: (t ++ rest)) := by simp
    rw [e1, hscana _ (okRest_stop '*' _ (by decide)), scanL_mul, hscanb rest hr]
    cases fla <;> cases flb <;> cases scanL alg env rest <;> simp
  | @div a b s t _ _ iha ihb =>
    obtain ⟨fla, hsa, hscana⟩ := iha
    obtain ⟨flb, hsb, hscanb⟩ := ihb
    refine ⟨_, shape2_snoc alg env .div (by decide) hsa hsb (.div a b) rfl, ?_⟩
    intro rest hr
    have e1 : (s ++ '/' :: t) ++ rest = s ++ ('/' :: (t ++ rest)) := by simp
    rw [e1, hscana _ (okRest_stop '/' _ (by decide)), scanL_div, hscanb rest hr]
    cases fla <;> cases flb <;> cases scanL alg env rest <;> simp

/-- **the parser implements ordinary precedence**: every way of writing a tree `e` in the standard
    grammar parses to the tree's value — for every value algebra, every environment (failure
    included: both sides are `none` together). -/
theorem parse_renders {e : Expr} {lvl : Nat} {s : List Char} (h : Renders e lvl s) :
    parse alg env s = evalAst alg env e := by
  obtain ⟨fl, hsh, hscan⟩ := scan_renders alg env h
  have := hscan [] (Or.inl rfl)
  rw [List.append_nil, scanL_nil] at this
  rw [parse_eq, this, ← shape_reduce alg env hsh]
  cases fl <;> simp


/-- a way of relating two partial computations that is compatible with sequencing. Two instances:
    `Lift.both` (if both succeed the results are related) and `Lift.fwd` (if the first succeeds so
    does the second, with a related result). -/
structure Lift where
  rel : ∀ {A B : Type}, (A → B → Prop) → Option A → Option B → Prop
  pure : ∀ {A B : Type} {R : A → B → Prop} {a : A} {b : B}, R a b → rel R (some a) (some b)
  none : ∀ {A B : Type} {R : A → B → Prop}, rel R (none : Option A) (none : Option B)
  bind : ∀ {A B A' B' : Type} {R : A → B → Prop} {S : A' → B' → Prop} {o1 : Option A} {o2 : Option B}
    {f : A → Option A'} {g : B → Option B'},
    rel R o1 o2 → (∀ a b, R a b → rel S (f a) (g b)) → rel S (o1.bind f) (o2.bind g)

def Lift.both : Lift where
  rel R o1 o2 := ∀ a b, o1 = some a → o2 = some b → R a b
  pure h := by intro a b h1 h2; cases h1; cases h2; exact h
  none := by intro _ _ _ a b h; cases h
  bind := by
    intro A B A' B' R S o1 o2 f g h hf a' b' h1 h2
    cases o1 with
    | none => simp at h1
    | some a =>
      cases o2 with
      | none => simp at h2
      | some b => exact hf a b (h a b rfl rfl) a' b' h1 h2

def Lift.fwd : Lift where
  rel R o1 o2 := ∀ a, o1 = some a → ∃ b, o2 = some b ∧ R a b
  pure h := by intro a h1; cases h1; exact ⟨_, rfl, h⟩
  none := by intro _ _ _ a h; cases h
  bind := by
    intro A B A' B' R S o1 o2 f g h hf a' h1
    cases o1 with
    | none => simp at h1
    | some a =>
      obtain ⟨b, hb, hr⟩ := h a rfl
      subst hb
      exact hf a b hr a' h1

variable {V W : Type} (L : Lift) (R : V → W → Prop) (alg1 : Alg V) (alg2 : Alg W)

theorem Lift.map {A B A' B' : Type} {R : A → B → Prop} {S : A' → B' → Prop} {o1 : Option A} {o2 : Option B}
    {f : A → A'} {g : B → B'} (h : L.rel R o1 o2) (hf : ∀ a b, R a b → S (f a) (g b)) :
    L.rel S (o1.map f) (o2.map g) := by
  have := L.bind (S := S) (f := fun a => some (f a)) (g := fun b => some (g b)) h
    (fun a b hab => L.pure (hf a b hab))
  have e1 : o1.map f = o1.bind fun a => some (f a) := by cases o1 <;> rfl
  have e2 : o2.map g = o2.bind fun b => some (g b) := by cases o2 <;> rfl
  rw [e1, e2]; exact this

structure AlgRel : Prop where
  mul : ∀ a a' b b', R a b → R a' b' → L.rel R (alg1.mul a a') (alg2.mul b b')
  div : ∀ a a' b b', R a b → R a' b' → L.rel R (alg1.div a a') (alg2.div b b')
  pow : ∀ a a' b b', R a b → R a' b' → L.rel R (alg1.pow a a') (alg2.pow b b')
  num : ∀ m e, L.rel R (alg1.num m e) (alg2.num m e)

inductive ItemRel : Item V → Item W → Prop
  | val {a b} : R a b → ItemRel (.val a) (.val b)
  | op (o : Op) : ItemRel (.op o) (.op o)

def OptR : Option V → Option W → Prop
  | none, none => True
  | some a, some b => R a b
  | _, _ => False

variable {L R alg1 alg2}

theorem optR_inv {acc1 : Option V} {acc2 : Option W} (h : OptR R acc1 acc2) :
    (acc1 = none ∧ acc2 = none) ∨ ∃ a b, acc1 = some a ∧ acc2 = some b ∧ R a b := by
  cases acc1 <;> cases acc2 <;> simp_all [OptR]

theorem powGo_rel (h : AlgRel L R alg1 alg2) (acc1 : Option V) (l1 : List (Item V)) :
    ∀ (acc2 : Option W) (l2 : List (Item W)), OptR R acc1 acc2 → List.Forall₂ (ItemRel R) l1 l2 →
      L.rel (List.Forall₂ (ItemRel R)) (powGo alg1 acc1 l1) (powGo alg2 acc2 l2) := by
  fun_induction powGo alg1 acc1 l1 with
  | case1 =>
    intro acc2 l2 ha hl
    cases hl; cases acc2 <;> simp only [OptR] at ha
    simp only [powGo]; exact L.pure .nil
  | case2 a =>
    intro acc2 l2 ha hl
    cases hl; cases acc2 <;> simp only [OptR] at ha
    simp only [powGo]; exact L.pure (.cons (.val ha) .nil)
  | case3 b rest ih =>
    intro acc2 l2 ha hl
    cases acc2 <;> simp only [OptR] at ha
    cases hl with
    | cons hxy hl =>
      cases hxy with
      | val hab => simp only [powGo]; exact ih _ _ hab hl
  | case4 rest =>
    intro acc2 l2 ha hl
    cases acc2 <;> simp only [OptR] at ha
    cases hl with
    | cons hxy hl =>
      cases hxy
      simp only [powGo, if_true]; exact L.none
  | case5 o rest ho ih =>
    intro acc2 l2 ha hl
    cases acc2 <;> simp only [OptR] at ha
    cases hl with
    | cons hxy hl =>
      cases hxy
      simp only [powGo, if_neg ho]
      exact L.map (ih _ _ trivial hl) (fun _ _ h => .cons (.op o) h)
  | case6 a b rest ih =>
    intro acc2 l2 ha hl
    cases acc2 <;> simp only [OptR] at ha
    cases hl with
    | cons hxy hl =>
      cases hxy with
      | val hab =>
        simp only [powGo]
        exact L.map (ih _ _ hab hl) (fun _ _ h => .cons (.val ha) h)
  | case7 a b rest ih =>
    intro acc2 l2 ha hl
    cases acc2 <;> simp only [OptR] at ha
    cases hl with
    | cons hxy hl =>
      cases hxy
      cases hl with
      | cons hxy' hl' =>
        cases hxy' with
        | val hab' =>
          simp only [powGo]
          exact L.bind (h.pow _ _ _ _ ha hab') (fun v w hvw => ih v _ _ hvw hl')
  | case8 a tail hne =>
    intro acc2 l2 ha hl
    cases acc2 <;> simp only [OptR] at ha
    cases hl with
    | cons hxy hl =>
      cases hxy
      cases hl with
      | nil => simp only [powGo]; exact L.none
      | cons hxy' hl' =>
        cases hxy' with
        | val hab' => exact absurd rfl (fun e => hne _ _ e)
        | op o' => simp only [powGo]; exact L.none
  | case9 a o rest hne ho ih =>
    intro acc2 l2 ha hl
    cases acc2 <;> simp only [OptR] at ha
    cases hl with
    | cons hxy hl =>
      cases hxy
      cases o with
      | pow => exact absurd rfl ho
      | mul =>
        simp only [powGo]
        exact L.map (ih _ _ trivial hl) (fun _ _ h => .cons (.val ha) (.cons (.op _) h))
      | div =>
        simp only [powGo]
        exact L.map (ih _ _ trivial hl) (fun _ _ h => .cons (.val ha) (.cons (.op _) h))



theorem mulDiv_none {U : Type} (alg : Alg U) (x : U) (t : List (Item U)) (h1 : t ≠ [])
    (h2 : ∀ b rest, t ≠ .op .mul :: .val b :: rest) (h3 : ∀ b rest, t ≠ .op .div :: .val b :: rest) :
    mulDiv alg x t = none := by
  rw [mulDiv.eq_def]
  split
  · exact absurd rfl h1
  · exact absurd rfl (h2 _ _)
  · exact absurd rfl (h3 _ _)
  · rfl

theorem mulDiv_rel (h : AlgRel L R alg1 alg2) (a1 : V) (l1 : List (Item V)) :
    ∀ (a2 : W) (l2 : List (Item W)), R a1 a2 → List.Forall₂ (ItemRel R) l1 l2 →
      L.rel R (mulDiv alg1 a1 l1) (mulDiv alg2 a2 l2) := by
  fun_induction mulDiv alg1 a1 l1 with
  | case1 acc =>
    intro a2 l2 ha hl; cases hl; simp only [mulDiv]; exact L.pure ha
  | case2 acc b rest ih =>
    intro a2 l2 ha hl
    cases hl with
    | cons hxy hl =>
      cases hxy
      cases hl with
      | cons hxy' hl' =>
        cases hxy' with
        | val hab =>
          simp only [mulDiv]
          exact L.bind (h.mul _ _ _ _ ha hab) (fun v w hvw => ih v _ _ hvw hl')
  | case3 acc b rest ih =>
    intro a2 l2 ha hl
    cases hl with
    | cons hxy hl =>
      cases hxy
      cases hl with
      | cons hxy' hl' =>
        cases hxy' with
        | val hab =>
          simp only [mulDiv]
          exact L.bind (h.div _ _ _ _ ha hab) (fun v w hvw => ih v _ _ hvw hl')
  | case4 acc l hn1 hn2 hn3 =>
    intro a2 l2 ha hl
    rw [mulDiv_none alg2 a2 l2]
    · exact L.none
    · rintro rfl; cases hl; exact hn1 rfl
    · rintro b rest rfl
      cases hl with
      | cons hxy hl => cases hxy; cases hl with
        | cons hxy' hl' => cases hxy'; exact hn2 _ _ rfl
    · rintro b rest rfl
      cases hl with
      | cons hxy hl => cases hxy; cases hl with
        | cons hxy' hl' => cases hxy'; exact hn3 _ _ rfl

theorem reduce_rel (h : AlgRel L R alg1 alg2) {l1 : List (Item V)} {l2 : List (Item W)}
    (hl : List.Forall₂ (ItemRel R) l1 l2) : L.rel R (reduce alg1 l1) (reduce alg2 l2) := by
  unfold reduce
  refine L.bind (powGo_rel h none l1 none l2 trivial hl) ?_
  intro m1 m2 hm
  cases hm with
  | nil => simp only [mulDivPass]; exact L.none
  | cons hxy hm =>
    cases hxy with
    | val hab => simp only [mulDivPass]; exact mulDiv_rel h _ _ _ _ hab hm
    | op o => simp only [mulDivPass]; exact L.none

theorem scan_rel (h : AlgRel L R alg1 alg2) {env1 : List Char → Option V} {env2 : List Char → Option W}
    (henv : ∀ n, L.rel R (env1 n) (env2 n)) (f : Nat) (cs : List Char) :
    L.rel (List.Forall₂ (ItemRel R)) (scan alg1 env1 f cs) (scan alg2 env2 f cs) := by
  induction f generalizing cs with
  | zero => cases cs <;> simp only [scan]; exact L.pure .nil; exact L.none
  | succ f ih =>
    cases cs with
    | nil => simp only [scan]; exact L.pure .nil
    | cons c cs =>
      simp only [scan]
      split
      · cases splitParen cs 0 with
        | none => exact L.none
        | some p =>
          simp only
          refine L.bind (ih p.1) fun i1 i2 hi => ?_
          refine L.bind (reduce_rel h hi) fun v w hvw => ?_
          exact L.map (ih p.2) fun _ _ hr => .cons (.val hvw) hr
      · split
        · refine L.bind (henv _) fun v w hvw => ?_
          exact L.map (ih _) fun _ _ hr => .cons (.val hvw) hr
        · split
          · cases numLit (c :: List.takeWhile (fun x => !isStop x) cs) with
            | none => exact L.none
            | some me =>
              simp only [Option.bind_some]
              refine L.bind (h.num _ _) fun v w hvw => ?_
              exact L.map (ih _) fun _ _ hr => .cons (.val hvw) hr
          · split
            · exact L.map (ih _) fun _ _ hr => .cons (.op _) hr
            · split
              · exact L.map (ih _) fun _ _ hr => .cons (.op _) hr
              · split
                · exact L.map (ih _) fun _ _ hr => .cons (.op _) hr
                · split
                  · exact ih _
                  · exact L.none

/-- **parametricity of the parser**: related algebras and environments give related results, for
    every string (well-formed or not). -/
theorem parse_rel (h : AlgRel L R alg1 alg2) {env1 : List Char → Option V} {env2 : List Char → Option W}
    (henv : ∀ n, L.rel R (env1 n) (env2 n)) (cs : List Char) :
    L.rel R (parse alg1 env1 cs) (parse alg2 env2 cs) := by
  unfold parse
  exact L.bind (scan_rel h henv _ _) fun _ _ hi => reduce_rel h hi

theorem bind2_rel {f : V → V → Option V} {g : W → W → Option W}
    (hfg : ∀ a a' b b', R a b → R a' b' → L.rel R (f a a') (g b b'))
    {o1 o1' : Option V} {o2 o2' : Option W} (h1 : L.rel R o1 o2) (h2 : L.rel R o1' o2') :
    L.rel R (bind2 f o1 o1') (bind2 g o2 o2') := by
  have e1 : bind2 f o1 o1' = o1.bind fun a => o1'.bind fun a' => f a a' := by
    cases o1 <;> cases o1' <;> rfl
  have e2 : bind2 g o2 o2' = o2.bind fun a => o2'.bind fun a' => g a a' := by
    cases o2 <;> cases o2' <;> rfl
  rw [e1, e2]
  exact L.bind h1 fun a b hab => L.bind h2 fun a' b' hab' => hfg a a' b b' hab hab'

theorem evalAst_rel (h : AlgRel L R alg1 alg2) {env1 : List Char → Option V} {env2 : List Char → Option W}
    (henv : ∀ n, L.rel R (env1 n) (env2 n)) (e : Expr) :
    L.rel R (evalAst alg1 env1 e) (evalAst alg2 env2 e) := by
  induction e with
  | num l =>
    simp only [evalAst]
    cases numLit l with
    | none => exact L.none
    | some me => exact h.num _ _
  | name n => exact henv n
  | mul a b iha ihb => exact bind2_rel h.mul iha ihb
  | div a b iha ihb => exact bind2_rel h.div iha ihb
  | pow a b iha ihb => exact bind2_rel h.pow iha ihb

end Atomman.C09
