/-
  C08 — load ∘ dump composed end to end: the header theorems (`loadDump_writeDump`) joined with the table reader in
  closed form (`assignCols_vals`), for rows in ANY id order.
-/
import Proofs.C08_Values
import Proofs.C07_Rows
import Proofs.C07_DataFile
namespace Atomman.C08
open Atomman Atomman.C07
set_option linter.unusedSimpArgs false
set_option linter.unusedVariables false

/-- rows written with distinct ids in ANY order, one per atom: every listed property comes back as the printed values
    of its column group (times its unit factor) **in id order**, under the shape of its `prop_info` entry. -/
theorem table_values_of_rows_sorted {f : Fmt} (hf : Readable f) (s s' : Loaded) (rows : List (List Cell))
    (cols : List PCol) (n : Nat) (usecols : Bool) (i : Nat) (hne : rows ≠ []) (hn : ∀ r ∈ rows, r.length = n)
    (hw : if usecols then colsWidth cols ≤ n else n = colsWidth cols)
    (hid : idIndex cols = some i) (hd : (rows.map (cellKey f (colsWidth cols) i)).Nodup)
    (hnd : (cols.map (·.prop)).Nodup) (hrows : rows.length = s.natoms)
    (h : tableLoad s (rowsDoc f rows) cols usecols = .ok s') :
    ∀ (j : Nat) (hj : j < cols.length), cols[j].prop ≠ "a_id" →
      ∃ q, s'.prop? cols[j].prop = some q ∧ q.shape = cols[j].shape ∧
        (cols[j].unit = .none →
          q.vals = (sortBy (cellKey f (colsWidth cols) i) rows).map fun r =>
            groupG cols j ((r.take (colsWidth cols)).map (cellRat f))) ∧
        (∀ u, cols[j].unit = .factor u →
          q.vals = (sortBy (cellKey f (colsWidth cols) i) rows).map fun r =>
            (groupG cols j ((r.take (colsWidth cols)).map (cellRat f))).map (· * u)) := by
  set key := cellKey f (colsWidth cols) i with hkey
  have hperm : (rowsDoc f rows).Perm (rowsDoc f (sortBy key rows)) := by
    unfold rowsDoc
    exact ((sortBy_perm key rows).symm).map _
  have hdist : ∀ t, readTable (rowsDoc f rows) (colsWidth cols) usecols = .ok t → (t.map (rowKey i)).Nodup := by
    intro t ht
    obtain ⟨tbl, h1, h2⟩ := readTable_rowsDoc hf rows n (colsWidth cols) usecols hne hn hw
    rw [h1] at ht
    injection ht with ht
    subst ht
    have : tbl.map (rowKey i) = rows.map key := by
      have e1 : tbl.map (rowKey i) = (tbl.map (·.map Val.toRat)).map (fun r => (r[i]?).getD 0) := by
        rw [List.map_map]
        apply List.map_congr_left
        intro r _
        exact rowKey_toRat i r
      rw [e1, h2, List.map_map]
      rfl
    rw [this]
    exact hd
  rw [tableLoad_perm s cols usecols i hperm hid hdist] at h
  have hlen := (sortBy_perm key rows).length_eq
  have hne' : sortBy key rows ≠ [] := by
    intro e
    rw [e] at hlen
    cases rows with
    | nil => exact hne rfl
    | cons _ _ => simp at hlen
  have hn' : ∀ r ∈ sortBy key rows, r.length = n := fun r hr => hn r ((sortBy_perm key rows).subset hr)
  refine table_values_of_rows hf s s' (sortBy key rows) cols n usecols hne' hn' hw ?_ hnd (by rw [hlen, hrows]) h
  intro j hj
  rw [hid] at hj
  injection hj with hj
  subst hj
  rw [List.pairwise_map]
  exact sortBy_sorted key rows

/-! ### the dump-file loader after its header loop, with the caller's `prop_info` -/

theorem renamePos_names (c : PCol) : (renamePos c).names = c.names := by unfold renamePos; split <;> rfl
theorem renamePos_shape (c : PCol) : (renamePos c).shape = c.shape := by unfold renamePos; split <;> rfl
theorem renamePos_unit (c : PCol) : (renamePos c).unit = c.unit := by unfold renamePos; split <;> rfl

theorem colsWidth_renamePos (cols : List PCol) : colsWidth (cols.map renamePos) = colsWidth cols := by
  unfold colsWidth
  rw [List.map_map]
  congr 1
  apply List.map_congr_left
  intro c _
  simp [renamePos_names]

theorem idIndex_renamePos (cols : List PCol) : idIndex (cols.map renamePos) = idIndex cols := by
  unfold idIndex
  rw [List.map_map]
  have : (List.map ((fun x => x.names) ∘ renamePos) cols) = cols.map (·.names) :=
    List.map_congr_left fun c _ => by simp [renamePos_names]
  rw [this]

theorem assignProp_frame (s s' : Loaded) (p : LProp) (h : assignProp s p = .ok s') :
    s'.pbc = s.pbc ∧ s'.box = s.box ∧ s'.symbols = s.symbols ∧ s'.masses = s.masses := by
  unfold assignProp at h
  obtain ⟨vals, _, h1⟩ := bind_ok _ _ _ h
  split at h1
  · simp [throw, throwThe, MonadExceptOf.throw] at h1
  · split at h1
    · simp [throw, throwThe, MonadExceptOf.throw] at h1
    · simp only [pure, Except.pure, Except.ok.injEq] at h1
      subst h1
      exact ⟨rfl, rfl, rfl, rfl⟩

/-- the table reader touches the per-atom properties only: flags, cell, symbols and masses stay. -/
theorem assignCols_frame (box : Box Rat) : ∀ (cols : List PCol) (cells : List (List (List Val))) (s s' : Loaded),
    assignCols box cols cells s = .ok s' →
      s'.pbc = s.pbc ∧ s'.box = s.box ∧ s'.symbols = s.symbols ∧ s'.masses = s.masses
  | [], _, s, s', h => by simp [assignCols, pure, Except.pure] at h; rw [h]; exact ⟨rfl, rfl, rfl, rfl⟩
  | c :: cs, [], s, s', h => by simp [assignCols, pure, Except.pure] at h; rw [h]; exact ⟨rfl, rfl, rfl, rfl⟩
  | c :: cs, cells :: rest, s, s', h => by
    rw [assignCols] at h
    by_cases ha : c.prop = "a_id"
    · rw [if_pos ha] at h
      exact assignCols_frame box cs rest s s' h
    · rw [if_neg ha] at h
      obtain ⟨p, hp, h1⟩ := bind_ok _ _ _ h
      obtain ⟨s1, hs1, h2⟩ := bind_ok _ _ _ h1
      obtain ⟨a1, a2, a3, a4⟩ := assignCols_frame box cs rest s1 s' h2
      obtain ⟨b1, b2, b3, b4⟩ := assignProp_frame s s1 p hs1
      exact ⟨a1.trans b1, a2.trans b2, a3.trans b3, a4.trans b4⟩

theorem tableLoad_frame (s s' : Loaded) (rows : List Line) (cols : List PCol) (usecols : Bool)
    (h : tableLoad s rows cols usecols = .ok s') :
    s'.natoms = s.natoms ∧ s'.pbc = s.pbc ∧ s'.box = s.box ∧ s'.symbols = s.symbols ∧ s'.masses = s.masses := by
  unfold tableLoad at h
  obtain ⟨tbl, _, h1⟩ := bind_ok _ _ _ h
  exact ⟨assignCols_natoms _ _ _ _ _ h1, assignCols_frame _ _ _ _ _ h1⟩

/-- what `loadDumpCore` does once the header state holds the atom count, the flags and all six bounds, when the caller
    hands over the column table: the box of the bounds, then the table reader on the first `natoms` rows with every
    position variant stored as `pos`, then the caller's symbols. -/
theorem loadDumpCore_given (d : DSC) (rows : List Line) (symbols : Option (List (Option String)))
    (pcols : List PCol) (u : Units) (s' : Loaded) (n : Nat) (pbc : V3 Bool) (xlo xhi ylo yhi zlo zhi : Rat)
    (hn : d.natoms = some (n : Int)) (hp : d.pbc = some pbc)
    (hb : d.xlo = some xlo ∧ d.xhi = some xhi ∧ d.ylo = some ylo ∧ d.yhi = some yhi ∧ d.zlo = some zlo ∧ d.zhi = some zhi)
    (h : loadDumpCore d (some rows) symbols (some pcols) u = .ok s') :
    ∃ box s1, Box.ofHiLos? xlo xhi ylo yhi zlo zhi d.xy d.xz d.yz = some box ∧
      tableLoad (Loaded.init box pbc n [] []) (rows.take n) (pcols.map renamePos) false = .ok s1 ∧
      s'.natoms = n ∧ s'.pbc = pbc ∧ s'.box = box ∧ s'.props = s1.props ∧ s'.symbols = symbols.getD [] := by
  obtain ⟨h1, h2, h3, h4, h5, h6⟩ := hb
  have hneg : ¬ ((n : Int) < 0) := by omega
  unfold loadDumpCore at h
  simp only [hn, hp, h1, h2, h3, h4, h5, h6, bind, Except.bind, pure, Except.pure, Option.getD_some] at h
  cases hbox : Box.ofHiLos? xlo xhi ylo yhi zlo zhi d.xy d.xz d.yz with
  | none => simp [hbox, throw, throwThe, MonadExceptOf.throw] at h
  | some box =>
    simp only [hbox, hneg, if_false, Int.toNat_natCast] at h
    cases hs1 : tableLoad (Loaded.init box pbc n [] []) (rows.take n) (pcols.map renamePos) false with
    | error e => simp [hs1] at h
    | ok s1 =>
      simp only [hs1, Except.ok.injEq] at h
      obtain ⟨f1, f2, f3, f4, _⟩ := tableLoad_frame _ _ _ _ _ hs1
      refine ⟨box, s1, rfl, hs1, ?_⟩
      subst h
      cases symbols <;> simp [f1, f2, f3, f4, Loaded.init]

theorem splitG_renamePos {α : Type} (cols : List PCol) (r : List α) : splitG (cols.map renamePos) r = splitG cols r := by
  induction cols generalizing r with
  | nil => rfl
  | cons c cs ih => simp [splitG, ih, renamePos_names]

theorem groupG_renamePos {α : Type} (cols : List PCol) (j : Nat) (r : List α) :
    groupG (cols.map renamePos) j r = groupG cols j r := by
  unfold groupG
  rw [splitG_renamePos]

/-- the header state after a written dump file holds the atom count, the flags and all six bounds. -/
theorem dumpState_fields (f : Fmt) (lf : Option ℚ) (s : Sys) (props : List (String × List Nat)) :
    (dumpState f lf s props).natoms = some (s.natoms : Int) ∧ (dumpState f lf s props).pbc = some s.pbc ∧
    ∃ xlo xhi ylo yhi zlo zhi, (dumpState f lf s props).xlo = some xlo ∧ (dumpState f lf s props).xhi = some xhi ∧
      (dumpState f lf s props).ylo = some ylo ∧ (dumpState f lf s props).yhi = some yhi ∧
      (dumpState f lf s props).zlo = some zlo ∧ (dumpState f lf s props).zhi = some zhi := by
  unfold dumpState
  split
  · exact ⟨rfl, rfl, _, _, _, _, _, _, rfl, rfl, rfl, rfl, rfl, rfl⟩
  · exact ⟨rfl, rfl, _, _, _, _, _, _, rfl, rfl, rfl, rfl, rfl, rfl⟩

/-- **load ∘ dump of a dump file, end to end, closed form per property** (loaded with a column table, e.g. the one the
    writer returns): see `load_dump_roundtrip_dump_values` in Proofs/C08.lean. -/
theorem dump_file_values {f : Fmt} (hf : Readable f) (s : Sys) (props : List (String × List Nat)) (u : Units)
    (ts : Int) (text : List Char) (hw : writeDump s props u f ts = .ok text)
    (hnames : ∀ t ∈ dumpNames props, CleanTok t) :
    ∃ lf rows, lengthFactor u = .ok lf ∧ tableRows s u (dumpIds s) s.pos (dumpCols props) [] = .ok rows ∧
      rows.length = s.natoms ∧
      ∀ (symbols : Option (List (Option String))) (pcols : List PCol) (s' : Loaded) (i : Nat),
        rows ≠ [] → (∀ r ∈ rows, r.length = colsWidth pcols) → colsWidth pcols ≠ 0 →
        idIndex pcols = some i → (rows.map (cellKey f (colsWidth pcols) i)).Nodup →
        ((pcols.map renamePos).map (·.prop)).Nodup →
        loadDump text symbols (some pcols) u = .ok s' →
        s'.natoms = s.natoms ∧ s'.pbc = s.pbc ∧ s'.symbols = symbols.getD [] ∧
        (∃ xlo xhi ylo yhi zlo zhi, (dumpState f lf s props).xlo = some xlo ∧ (dumpState f lf s props).xhi = some xhi ∧
          (dumpState f lf s props).ylo = some ylo ∧ (dumpState f lf s props).yhi = some yhi ∧
          (dumpState f lf s props).zlo = some zlo ∧ (dumpState f lf s props).zhi = some zhi ∧
          Box.ofHiLos? xlo xhi ylo yhi zlo zhi (dumpState f lf s props).xy (dumpState f lf s props).xz
            (dumpState f lf s props).yz = some s'.box) ∧
        ∀ (j : Nat) (hj : j < pcols.length), (renamePos pcols[j]).prop ≠ "a_id" →
          ∃ q, s'.prop? (renamePos pcols[j]).prop = some q ∧ q.shape = pcols[j].shape ∧
            (pcols[j].unit = .none →
              q.vals = (sortBy (cellKey f (colsWidth pcols) i) rows).map fun r => groupG pcols j (r.map (cellRat f))) ∧
            (∀ v, pcols[j].unit = .factor v →
              q.vals = (sortBy (cellKey f (colsWidth pcols) i) rows).map fun r =>
                (groupG pcols j (r.map (cellRat f))).map (· * v)) := by
  obtain ⟨lf, rows, hlf, hr, _, hload⟩ := loadDump_writeDump hf s props u ts text hw hnames none none
  have hlen : rows.length = s.natoms := (tableRows_spec s u (dumpIds s) s.pos (dumpCols props) [] rows hr).1
  refine ⟨lf, rows, hlf, hr, hlen, ?_⟩
  intro symbols pcols s' i hne hw' hw0 hid hd hnd h
  have hrne : ∀ r ∈ rows, r ≠ [] := by
    intro r hr' e
    have := hw' r hr'
    rw [e] at this
    exact hw0 this.symm
  obtain ⟨lf', rows', hlf', hr', _, hload'⟩ := loadDump_writeDump hf s props u ts text hw hnames symbols (some pcols)
  rw [hlf] at hlf'
  injection hlf' with hlf'
  subst hlf'
  rw [hr] at hr'
  injection hr' with hr'
  subst hr'
  rw [hload' hrne] at h
  obtain ⟨fn, fp, xlo, xhi, ylo, yhi, zlo, zhi, hb⟩ := dumpState_fields f lf s props
  obtain ⟨box, s1, hbox, hs1, g1, g2, g3, g4, g5⟩ :=
    loadDumpCore_given _ _ symbols pcols u s' s.natoms s.pbc xlo xhi ylo yhi zlo zhi fn fp hb h
  have htk : (rowsDoc f rows).take s.natoms = rowsDoc f rows := by
    apply List.take_of_length_le
    simp [rowsDoc, hlen]
  rw [htk] at hs1
  have hcw := colsWidth_renamePos pcols
  have key := table_values_of_rows_sorted hf (Loaded.init box s.pbc s.natoms [] []) s1 rows (pcols.map renamePos)
    (colsWidth pcols) false i hne hw' (by simp [hcw]) (by rw [idIndex_renamePos]; exact hid) (by rw [hcw]; exact hd) hnd
    (by simp [Loaded.init, hlen]) hs1
  refine ⟨g1, g2, g5, ⟨xlo, xhi, ylo, yhi, zlo, zhi, hb.1, hb.2.1, hb.2.2.1, hb.2.2.2.1, hb.2.2.2.2.1, hb.2.2.2.2.2, ?_⟩, ?_⟩
  · rw [g3]; exact hbox
  · intro j hj hid'
    have hj' : j < (pcols.map renamePos).length := by simpa using hj
    have hget : (pcols.map renamePos)[j] = renamePos pcols[j] := by simp
    obtain ⟨q, q1, q2, q3, q4⟩ := key j hj' (by rw [hget]; exact hid')
    rw [hget] at q1 q2 q3 q4
    rw [hcw] at q3 q4
    have htake : ∀ r ∈ sortBy (cellKey f (colsWidth pcols) i) rows, r.take (colsWidth pcols) = r := by
      intro r hr'
      rw [← hw' r ((sortBy_perm _ rows).subset hr')]
      exact List.take_length
    refine ⟨q, ?_, by rw [q2, renamePos_shape], ?_, ?_⟩
    · unfold Loaded.prop? at q1 ⊢
      rw [g4]; exact q1
    · intro hu
      rw [q3 (by rw [renamePos_unit]; exact hu)]
      apply List.map_congr_left
      intro r hr'
      rw [htake r hr', groupG_renamePos]
    · intro v hu
      rw [q4 v (by rw [renamePos_unit]; exact hu)]
      apply List.map_congr_left
      intro r hr'
      rw [htake r hr', groupG_renamePos]

/-! ### data files: the `Atoms` section and the whole file -/

theorem find_pos_name (s : Loaded) (p : LProp) (h : s.prop? "pos" = some p) : p.name = "pos" := by
  unfold Loaded.prop? at h
  have := List.find?_some h
  simpa using this

/-- the image-flag shift touches the positions only. -/
theorem applyFlags_other (s s' : Loaded) (rows : List Line) (ncols : Nat) (h : applyFlags s rows ncols = .ok s')
    (name : String) (hname : name ≠ "pos") : s'.prop? name = s.prop? name := by
  unfold applyFlags at h
  simp only [bind, Except.bind, pure, Except.pure, throw, throwThe, MonadExceptOf.throw] at h
  repeat' (split at h)
  all_goals (first | (cases h; done) | skip)
  all_goals
    simp only [Except.ok.injEq] at h
    subst h
    have hpn := find_pos_name s _ (by assumption)
    unfold Loaded.prop?
    exact find_setProp_other _ _ name (by simpa [hpn] using fun e => hname e.symm)

theorem applyFlags_natoms (s s' : Loaded) (rows : List Line) (ncols : Nat) (h : applyFlags s rows ncols = .ok s') :
    s'.natoms = s.natoms := by
  unfold applyFlags at h
  simp only [bind, Except.bind, pure, Except.pure, throw, throwThe, MonadExceptOf.throw] at h
  repeat' (split at h)
  all_goals (first | (cases h; done) | skip)
  all_goals
    simp only [Except.ok.injEq] at h
    subst h
    rfl

/-- **the `Atoms` section of a data file in closed form**: rows written with distinct ids in any order (image-flag
    columns or not), read by `read_atoms` with the column table of the atom_style: every listed property other than the
    positions has the shape of its entry and holds, in id order, the printed values of its column group (times the unit
    factor); the image-flag shift touches `pos` only. -/
theorem atoms_section_values {f : Fmt} (hf : Readable f) (s s' : Loaded) (rows : List (List Cell)) (style : String)
    (u : Units) (cols : List PCol) (n ac i : Nat) (hne : rows ≠ []) (hn : ∀ r ∈ rows, r.length = n)
    (hcols : lookupCols Gen.LoadStyles.atomStyles style u = .ok cols) (hw : colsWidth cols ≤ n)
    (hid : idIndex cols = some i) (hd : (rows.map (cellKey f (colsWidth cols) i)).Nodup)
    (hnd : (cols.map (·.prop)).Nodup) (hrows : rows.length = s.natoms)
    (h : readAtoms (rowsDoc f rows) ac s style u = .ok s') :
    s'.natoms = s.natoms ∧
    ∀ (j : Nat) (hj : j < cols.length), cols[j].prop ≠ "a_id" → cols[j].prop ≠ "pos" →
      ∃ q, s'.prop? cols[j].prop = some q ∧ q.shape = cols[j].shape ∧
        (cols[j].unit = .none →
          q.vals = (sortBy (cellKey f (colsWidth cols) i) rows).map fun r =>
            groupG cols j ((r.take (colsWidth cols)).map (cellRat f))) ∧
        (∀ v, cols[j].unit = .factor v →
          q.vals = (sortBy (cellKey f (colsWidth cols) i) rows).map fun r =>
            (groupG cols j ((r.take (colsWidth cols)).map (cellRat f))).map (· * v)) := by
  unfold readAtoms at h
  rw [hcols] at h
  simp only [bind, Except.bind, pure, Except.pure] at h
  cases hs1 : tableLoad s (rowsDoc f rows) cols true with
  | error e => simp [hs1] at h
  | ok s1 =>
    simp only [hs1] at h
    have key := table_values_of_rows_sorted hf s s1 rows cols n true i hne hn (by simpa using hw) hid hd hnd hrows hs1
    have hnat := (tableLoad_frame _ _ _ _ _ hs1).1
    split at h
    · -- image flags
      refine ⟨?_, ?_⟩
      · have := applyFlags_natoms _ _ _ _ h
        rw [this, hnat]
      · intro j hj ha hp
        obtain ⟨q, q1, q2⟩ := key j hj ha
        exact ⟨q, by rw [applyFlags_other _ _ _ _ h _ hp]; exact q1, q2⟩
    · split at h
      · simp [throw, throwThe, MonadExceptOf.throw] at h
      · simp only [Except.ok.injEq] at h
        subst h
        exact ⟨hnat, fun j hj ha _ => key j hj ha⟩

theorem tableLoad_other (s s' : Loaded) (rows : List Line) (cols : List PCol) (usecols : Bool)
    (h : tableLoad s rows cols usecols = .ok s') (name : String) (hn : ∀ c ∈ cols, c.prop ≠ name) :
    s'.prop? name = s.prop? name := by
  unfold tableLoad at h
  obtain ⟨tbl, _, h1⟩ := bind_ok _ _ _ h
  exact assignCols_other _ _ _ _ _ h1 name hn

/-- everything after the first pass of the data-file reader, on written rows: atom count and, for every column of the
    `Atoms` table other than the id and the positions that the `Velocities` table does not assign again, shape and
    values in closed form. -/
theorem loadDataCore_values {f : Fmt} (hf : Readable f) (fp : FirstPass) (rowsC : List (List Cell)) (rest : List Line)
    (vel : Option (List Line)) (pbc : V3 Bool) (symbols : Option (List (Option String))) (styleArg : Option String)
    (u : Units) (s' : Loaded) (style : String) (cols : List PCol) (n i : Nat)
    (hnat : fp.natoms = rowsC.length) (hne : rowsC ≠ []) (hn : ∀ r ∈ rowsC, r.length = n)
    (hstyle : chooseStyle styleArg fp.hint = .ok style)
    (hcols : lookupCols Gen.LoadStyles.atomStyles style u = .ok cols) (hw : colsWidth cols ≤ n)
    (hid : idIndex cols = some i) (hd : (rowsC.map (cellKey f (colsWidth cols) i)).Nodup)
    (hnd : (cols.map (·.prop)).Nodup)
    (h : loadDataCore fp (rowsDoc f rowsC ++ rest) vel pbc symbols styleArg u = .ok s') :
    s'.natoms = rowsC.length ∧
    ∀ (j : Nat) (hj : j < cols.length), cols[j].prop ≠ "a_id" → cols[j].prop ≠ "pos" →
      (∀ vc, lookupCols Gen.LoadStyles.velStyles style u = .ok vc → ∀ c ∈ vc, c.prop ≠ cols[j].prop) →
      ∃ q, s'.prop? cols[j].prop = some q ∧ q.shape = cols[j].shape ∧
        (cols[j].unit = .none →
          q.vals = (sortBy (cellKey f (colsWidth cols) i) rowsC).map fun r =>
            groupG cols j ((r.take (colsWidth cols)).map (cellRat f))) ∧
        (∀ v, cols[j].unit = .factor v →
          q.vals = (sortBy (cellKey f (colsWidth cols) i) rowsC).map fun r =>
            (groupG cols j ((r.take (colsWidth cols)).map (cellRat f))).map (· * v)) := by
  unfold loadDataCore at h
  simp only [bind, Except.bind, pure, Except.pure, hstyle] at h
  split at h
  · simp [throw, throwThe, MonadExceptOf.throw] at h
  have htake : (rowsDoc f rowsC ++ rest).take fp.natoms = rowsDoc f rowsC := by
    rw [hnat]
    have : rowsC.length = (rowsDoc f rowsC).length := by simp [rowsDoc]
    rw [this]
    exact take_rows_append _ _
  rw [htake] at h
  cases hs1 : readAtoms (rowsDoc f rowsC) fp.atomsColumns
      (Loaded.init fp.box pbc fp.natoms (initSymbols symbols fp.masses) fp.masses) style u with
  | error e => simp [hs1] at h
  | ok s1 =>
    simp only [hs1] at h
    obtain ⟨k1, k2⟩ := atoms_section_values hf _ s1 rowsC style u cols n fp.atomsColumns i hne hn hcols hw hid hd hnd
      (by simp [Loaded.init, hnat]) hs1
    have k1' : s1.natoms = rowsC.length := by rw [k1]; simp [Loaded.init, hnat]
    unfold readVelocities at h
    cases vel with
    | none =>
      simp only [Option.map_none, pure, Except.pure, Except.ok.injEq] at h
      subst h
      exact ⟨k1', fun j hj ha hp _ => k2 j hj ha hp⟩
    | some vr =>
      simp only [Option.map_some, bind, Except.bind] at h
      cases hvc : lookupCols Gen.LoadStyles.velStyles style u with
      | error e => simp [hvc] at h
      | ok vc =>
        simp only [hvc] at h
        refine ⟨by rw [(tableLoad_frame _ _ _ _ _ h).1]; exact k1', ?_⟩
        intro j hj ha hp hv
        obtain ⟨q, q1, q2⟩ := k2 j hj ha hp
        exact ⟨q, by rw [tableLoad_other _ _ _ _ _ h _ (hv vc rfl)]; exact q1, q2⟩

theorem fpFinish_hint (s : FP) (fp : FirstPass) (h : fpFinish s false = .ok fp) : fp.hint = s.hint := by
  unfold fpFinish at h
  cases hn : s.natoms with
  | none => simp [hn, bind, Except.bind, throw, throwThe, MonadExceptOf.throw] at h
  | some n =>
    cases hx : s.x <;> cases hy : s.y <;> cases hz : s.z <;> cases ha : s.atomsStart <;>
      simp [hn, hx, hy, hz, ha, bind, Except.bind, pure, Except.pure, throw, throwThe, MonadExceptOf.throw] at h
    rename_i x y z k
    cases hb : Box.ofHiLos? x.1 x.2 y.1 y.2 z.1 z.2 s.xy s.xz s.yz with
    | none => simp [hb] at h
    | some b =>
      simp only [hb] at h
      by_cases hneg : n < 0
      · simp [hneg] at h
      · simp only [hneg, if_false] at h
        injection h with h
        rw [← h]

theorem dataParts_rows_length (s : Sys) (style : String) (u : Units) (p : DataParts) (w : Wrapped)
    (h : dataParts s style u = .ok (p, w)) : p.rows.length = s.natoms ∧ p.natoms = s.natoms := by
  unfold dataParts at h
  simp only [bind, Except.bind, pure, Except.pure] at h
  repeat' (split at h)
  all_goals (first | (cases h; done) | (simp_all [throw, throwThe, MonadExceptOf.throw]; done) | skip)
  all_goals
    simp only [Except.ok.injEq, Prod.mk.injEq] at h
    obtain ⟨h, _⟩ := h
    subst h
    refine ⟨?_, rfl⟩
    have hr := (tableRows_spec _ u (seqIds s.natoms) _ _ (flagCells _) _ (by assumption)).1
    exact hr.trans (by simp only [Sys.natoms]; exact (wrap_lengths _ _ _).1)

/-- **load ∘ dump of a data file, end to end**: see `load_dump_roundtrip_data_values` in Proofs/C08.lean. -/
theorem data_file_values {f : Fmt} (hf : Readable f) (s : Sys) (style : String) (u : Units) (text : List Char)
    (hw : writeData s style u f = .ok text)
    (hwords : (styleWords style).map strTok ≠ [] ∧ ∀ t ∈ (styleWords style).map strTok, CleanTok t) :
    ∃ lf p w, lengthFactor u = .ok lf ∧ dataParts s style u = .ok (p, w) ∧ p.rows.length = s.natoms ∧
      ∀ (pbc : V3 Bool) (symbols : Option (List (Option String))) (styleArg : Option String) (s' : Loaded)
        (style' : String) (cols : List PCol) (n i : Nat),
        p.rows ≠ [] → (∀ r ∈ p.rows, r.length = n) → n ≠ 0 → (∀ vr, p.vel = some vr → ∀ r ∈ vr, r ≠ []) →
        chooseStyle styleArg (some (joinSp ((styleWords style).map strTok))) = .ok style' →
        lookupCols Gen.LoadStyles.atomStyles style' u = .ok cols → colsWidth cols ≤ n →
        idIndex cols = some i → (p.rows.map (cellKey f (colsWidth cols) i)).Nodup → (cols.map (·.prop)).Nodup →
        loadData text pbc symbols styleArg u = .ok s' →
        s'.natoms = s.natoms ∧
        ∀ (j : Nat) (hj : j < cols.length), cols[j].prop ≠ "a_id" → cols[j].prop ≠ "pos" →
          (∀ vc, lookupCols Gen.LoadStyles.velStyles style' u = .ok vc → ∀ c ∈ vc, c.prop ≠ cols[j].prop) →
          ∃ q, s'.prop? cols[j].prop = some q ∧ q.shape = cols[j].shape ∧
            (cols[j].unit = .none →
              q.vals = (sortBy (cellKey f (colsWidth cols) i) p.rows).map fun r =>
                groupG cols j ((r.take (colsWidth cols)).map (cellRat f))) ∧
            (∀ v, cols[j].unit = .factor v →
              q.vals = (sortBy (cellKey f (colsWidth cols) i) p.rows).map fun r =>
                (groupG cols j ((r.take (colsWidth cols)).map (cellRat f))).map (· * v)) := by
  obtain ⟨lf, p, w, hlf, hp, hload⟩ := loadData_writeData hf s style u text hw hwords
  obtain ⟨hlen, hpn⟩ := dataParts_rows_length s style u p w hp
  refine ⟨lf, p, w, hlf, hp, hlen, ?_⟩
  intro pbc symbols styleArg s' style' cols n i hne hn hn0 hv hstyle hcols hw' hid hd hnd h
  have hrne : ∀ r ∈ p.rows, r ≠ [] := by
    intro r hr e
    have := hn r hr
    rw [e] at this
    exact hn0 this.symm
  rw [hload hne hrne hv pbc symbols styleArg] at h
  obtain ⟨fp, hfp, h2⟩ := bind_ok _ _ _ h
  obtain ⟨m, hm1, hm2⟩ := fpFinish_natoms _ fp hfp
  have hfn : fp.natoms = p.rows.length := by
    simp only [dataFP, Option.some.injEq] at hm1
    rw [hm2, ← hm1, hlen, hpn]
    simp
  have hh : fp.hint = some (joinSp ((styleWords style).map strTok)) := by
    rw [fpFinish_hint _ fp hfp]; rfl
  unfold dataRowsA at h2
  have key := loadDataCore_values hf fp p.rows _ (p.vel.map (rowsDoc f)) pbc symbols styleArg u s' style' cols n i hfn hne
    hn (by rw [hh]; exact hstyle) hcols hw' hid hd hnd h2
  rw [hlen] at key
  exact key


end Atomman.C08
