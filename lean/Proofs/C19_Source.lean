/-
  C19 — the source tie.  `Atomman/Generated/LogSource.lean` is regenerated from atomman/lammps/Log.py on every check
  (harness/props/c19.py, `translate_source`): the statements of the single pass of `Log.read`, the initialisation of its
  bookkeeping, the closing of the last block, the `Simulation` setters / constructor / `__getitem__`, the style dispatch
  of the merge loop of `Log.flatten` and its Step assertion as Lean definitions, and the normalised statements of what
  is pandas work (`__read_performance`, the dtype repair) or plain glue (the loop over the timing tables, the order of
  the statements of `flatten`, the imports behind `uber_open_rmode`).

  Every `gen_…_eq_model` proves a generated definition equal to the hand model the property theorems are about; every
  `gen_…_pinned` states what the normalised statements are.  A source edit that changes behaviour breaks one of them by
  name (or re-proves, if it does not change what the definition computes).
-/
import Atomman.Generated.LogSource
import Mathlib.Tactic.Linarith
namespace Atomman.C19
open Atomman List
set_option linter.unusedSimpArgs false
set_option linter.unusedVariables false

/-! ## Log.read -/

/-- the bookkeeping starts as the model's `scan` is started by `readLog` -/
theorem gen_init_eq_model (hv : Bool) : Gen.LogSrc.init hv = ({ haveVersion := hv } : Scan) := rfl

/-- **the transition function of the single pass**: the loop body translated statement by statement from the source
    is the model's `Scan.step` (same tests, tried in the same order, with the same effect on the headers / footers /
    run-count state). -/
theorem gen_step_eq_model : Gen.LogSrc.step = Scan.step := by
  funext s line
  obtain ⟨i, hv, vl, th, tf, ph, ps, pf, old⟩ := s
  unfold Gen.LogSrc.step Scan.step
  by_cases hb : isBlank line = true
  · simp only [hb, if_true]
  · simp only [hb, Bool.false_eq_true, if_false]
    have e1 : (line.take 8 == "LAMMPS (".toList) = isVersionLine line := rfl
    have e2 : ∀ a b : Nat, decide ((a : Int) < (b : Int)) = decide (a < b) := by
      intro a b; simp
    simp only [e1, e2, Gen.Log.versionOnlyIfUnset, Gen.Log.thermoHeaderOffset, Gen.Log.thermoFooterOffset,
      Gen.Log.perfHeaderOffset, Gen.Log.perfHeaderOldOffset, Gen.Log.perfFooterOffset, Bool.not_true, Bool.or_false,
      Int.add_zero, Int.sub_eq_add_neg]

/-- the single pass of the source is the model's `scan` -/
theorem gen_scan_eq_model (s : Scan) (lines : List Str) : lines.foldl Gen.LogSrc.step s = scan s lines := by
  rw [gen_step_eq_model]; rfl

/-- **how the last, unterminated block is closed**: after the pass the current line count is appended to the footers
    (so a block cut short by a crash extends to the end of the log) — what `thermoTables` hands to the table loop. -/
theorem gen_finish_eq_model (s : Scan) :
    (Gen.LogSrc.finish s).thermoFooters = s.thermoFooters ++ [(s.i : Int) + Gen.Log.thermoFinalFooterOffset] ∧
      (Gen.LogSrc.finish s).thermoHeaders = s.thermoHeaders ∧ (Gen.LogSrc.finish s).i = s.i ∧
      (Gen.LogSrc.finish s).perfHeaders = s.perfHeaders ∧ (Gen.LogSrc.finish s).perfSims = s.perfSims ∧
      (Gen.LogSrc.finish s).perfFooters = s.perfFooters ∧ (Gen.LogSrc.finish s).isOld = s.isOld := by
  simp [Gen.LogSrc.finish, Gen.Log.thermoFinalFooterOffset]

/-- the tables of a read, computed from the generated pass and the generated closing of the last block, are the
    model's `thermoTables`. -/
theorem gen_tables_eq_model (hv : Bool) (lines : List Str) :
    let sc := Gen.LogSrc.finish (lines.foldl Gen.LogSrc.step (Gen.LogSrc.init hv))
    readBlocks (nonBlank lines) sc.thermoHeaders sc.thermoFooters =
      thermoTables (scan { haveVersion := hv } lines) lines := by
  intro sc
  have h := gen_finish_eq_model (lines.foldl Gen.LogSrc.step (Gen.LogSrc.init hv))
  show readBlocks _ (Gen.LogSrc.finish _).thermoHeaders (Gen.LogSrc.finish _).thermoFooters = _
  rw [h.1, h.2.1, gen_scan_eq_model, gen_init_eq_model]
  rfl

/-- the offset of the timing tables into the records is the number of records before this read (`readLog` hands
    `st.sims.length` to `assignPerf`). -/
theorem gen_j_eq_model : Gen.LogSrc.jBeforeTableLoop = true := rfl

/-- the loop over the timing tables: one table per FOOTER (an unterminated breakdown is not read), header / footer /
    record index taken at the same position of the three lists, the record index offset by `j` — `assignPerf`. -/
theorem gen_perfLoop_pinned : Gen.LogSrc.perfLoop =
    ["for i in range(len(performance_footers)):\n    header = performance_headers[i]\n    footer = performance_footers[i]\n    performance = self.__read_performance(log_info, header, footer, is_old_version)\n    self.simulations[performance_simulations[i] + j].performance = performance"] := rfl

/-- `__read_performance` (pandas work; the model's `readPerfNew` / `readPerfOld` describe these two pipelines and are
    compared with them on every timing block of the correspondence). -/
theorem gen_readPerformance_pinned : Gen.LogSrc.readPerformance =
    ["if not is_old_version:\n    performance = pd.read_csv(log_info, header=header, nrows=footer - header, sep='|', skip_blank_lines=True)\n    performance = performance.drop([0])\n    performance.rename(columns=lambda x: x.strip(), inplace=True)\n    performance = performance.set_index('Section')\n    performance = performance.replace('^\\\\s*$', 0.0, regex=True)\n    performance = performance.astype(float)\nelse:\n    performance = pd.read_csv(log_info, header=header, nrows=footer - header, sep='=', skip_blank_lines=True)\n    performance = pd.concat([performance.columns.to_frame().T, performance], ignore_index=True)\n    performance.rename(columns=lambda x: x.strip(), inplace=True)\n    performance = performance.replace(')', '')\n    performance.columns = ['Section', 'time']\n    performance = performance.set_index('Section')\n    performance[['avg. Time', 'percentage']] = performance.time.str.split('(', expand=True)\n    performance[['%', 'symbol']] = performance.percentage.str.split(')', expand=True)\n    del performance['time']\n    del performance['symbol']\n    del performance['percentage']",
     "log_info.seek(0)",
     "return performance"] := rfl

/-- the input decision (text / path / bytes / stream) is `potentials.tools.uber_open_rmode`, reached through
    `atomman.tools` (ASSUMPTIONS: what it does with each kind of input). -/
theorem gen_opener_pinned : Gen.LogSrc.openerImports =
    ["from ..tools import uber_open_rmode", "from potentials.tools import uber_open_rmode"] := rfl

/-! ## Simulation -/

theorem gen_setThermo_eq_model : Gen.LogSrc.set_thermo = SimObj.setThermo := by
  funext s v
  obtain ⟨t, p, k⟩ := s
  simp only [Gen.LogSrc.set_thermo, SimObj.setThermo]
  cases k.contains "thermo" <;> rfl

theorem gen_setPerf_eq_model : Gen.LogSrc.set_performance = SimObj.setPerf := by
  funext s v
  obtain ⟨t, p, k⟩ := s
  simp only [Gen.LogSrc.set_performance, SimObj.setPerf]
  cases k.contains "performance" <;> rfl

theorem gen_simInit_eq_model : Gen.LogSrc.simInit = SimObj.init := by
  funext t p
  simp only [Gen.LogSrc.simInit, SimObj.init, gen_setThermo_eq_model, gen_setPerf_eq_model]
  rfl

theorem gen_getItem_eq_model : Gen.LogSrc.getItemRefuses = SimObj.getItemRefuses := rfl

/-! ## Log.flatten -/

section
variable {α : Type} (step : α → Int)

/-- **the merge loop's style dispatch**: which style strings are recognised, tried in which order, what each does to
    the table merged so far and the next run's table, and what an unrecognised one raises. -/
theorem gen_merge_eq_model : Gen.LogSrc.merge step = mergeStyle step := by
  funext style merged thermo
  simp only [Gen.LogSrc.merge, mergeStyle, mergeFirst, mergeLast, mergeAll, Gen.Log.firstKeep, Gen.Log.lastKeep]
  rfl
end

/-- the Step assertion refuses exactly the tables with rows and without a `Step` column — the test of
    `flattenTables`. -/
theorem gen_assertFails_eq_model (t : Table) :
    Gen.LogSrc.assertFails t = (!t.rows.isEmpty && !t.cols.contains stepName) := by
  unfold Gen.LogSrc.assertFails
  have : stepName = "Step".toList := rfl
  rw [this]
  cases h : t.rows <;> simp

/-- the statements of `flatten` in order: the selection `simulations[firstindex:lastindex]`, the assertion over the
    selection, `simulations[0]` (IndexError of an empty selection comes AFTER the assertion), the copy (the result is
    never the log's own table), the merge loop, `Simulation(thermo=merged_df)` (no timing table in the result). -/
theorem gen_flattenOrder_pinned : Gen.LogSrc.flattenOrder =
    ["simulations = self.simulations[firstindex:lastindex]", "assert-loop", "merged_df = simulations[0].thermo",
     "if merged_df is not None:\n    merged_df = merged_df.copy()", "dtypes = {}", "merge-loop",
     "return Simulation(thermo=merged_df)"] := rfl

/-- the dtype repair after each merge (pandas / numpy work; must leave every value as it is: oracle clause
    flatten:last on the real code). -/
theorem gen_afterMerge_pinned : Gen.LogSrc.afterMerge =
    ["for key in dtypes:\n    try:\n        values = np.asarray(merged_df[key])\n        with np.errstate(invalid='ignore'):\n            newvalues = values.astype(dtypes[key])\n        if np.array_equal(newvalues, values):\n            merged_df[key] = newvalues\n    except (ValueError, TypeError, OverflowError):\n        pass"] := rfl

/-- the defaults of the call forms, as the source has them now. -/
theorem gen_defaults_pinned : Gen.Log.readAppendDefault = true ∧ Gen.Log.flattenStyleDefault = "last" ∧
    Gen.Log.ctorReads = true := ⟨rfl, rfl, rfl⟩

end Atomman.C19
