/-
  C06 — refinement to the record-per-atom specification, part 1: exact results of the copying /
  slicing operations (`__getitem__`, `__deepcopy__`): which arrays the new object holds, what they read,
  that the operands are untouched, and that copies live in fresh buffers.
-/
import Proofs.C06_System

namespace Atomman.C06
set_option linter.unusedSimpArgs false
set_option linter.unusedVariables false

/-! ### broadcasting a value to its own shape is the identity -/

theorem stripOnes_self (sh : List Nat) : stripOnes sh sh.length = sh := by
  cases sh with
  | nil => rfl
  | cons d ds =>
    by_cases h1 : d = 1
    · subst h1
      simp [stripOnes]
    · unfold stripOnes
      split
      · rename_i ds' k heq
        simp at heq
        exact absurd heq.1 h1
      · rfl

theorem padOnes_self (sh : List Nat) : padOnes sh sh.length = sh := by simp [padOnes]

theorem compat_self (sh : List Nat) : compat sh sh = true := by
  induction sh with
  | nil => rfl
  | cons d ds ih => simp [compat, ih]

theorem srcIdx_self (sh : List Nat) : ∀ f, f < prod sh → srcIdx sh sh f = f := by
  induction sh with
  | nil => intro f hf; simp [prod] at hf; subst hf; rfl
  | cons d ds ih =>
    intro f hf
    simp only [prod] at hf
    have hP : 0 < prod ds := by
      rcases Nat.eq_zero_or_pos (prod ds) with h0 | h0
      · rw [h0] at hf; simp at hf
      · exact h0
    have hmod : f % prod ds < prod ds := Nat.mod_lt _ hP
    have hdiv : f / prod ds < d := by
      rw [Nat.div_lt_iff_lt_mul hP]; exact hf
    simp only [srcIdx]
    rw [ih _ hmod]
    by_cases h1 : d = 1
    · subst h1
      have : f / prod ds = 0 := Nat.lt_one_iff.mp hdiv
      simp only [beq_self_eq_true, if_true, Nat.zero_mul, Nat.zero_add]
      have := Nat.div_add_mod f (prod ds)
      rw [‹f / prod ds = 0›] at this
      simp at this; exact this
    · have hne : (d == 1) = false := by simpa using h1
      simp only [hne]
      rw [Nat.mod_eq_of_lt hdiv]
      have := Nat.div_add_mod f (prod ds)
      rw [Nat.mul_comm] at this
      simpa using this

theorem bcast_self (v : Val) (h : v.data.length = prod v.shape) : bcast v v.shape = some v.data := by
  unfold bcast
  simp only [stripOnes_self, padOnes_self, compat_self, h, and_self, if_true]
  have hmap : (List.range (prod v.shape)).map (srcIdx v.shape v.shape) = List.range (prod v.shape) := by
    apply List.ext_getElem
    · simp
    · intro i h1 h2
      simp only [List.getElem_map, List.getElem_range]
      exact srcIdx_self v.shape i (by simpa using h1)
  rw [hmap]
  have hall : (List.range (prod v.shape)).all (fun i => decide (i < prod v.shape)) = true := by
    simp [List.all_eq_true]
  simp only [hall, if_true]
  congr 1
  apply List.ext_getElem
  · simp [h]
  · intro i h1 h2
    simp only [List.getElem_map, List.getElem_range]
    rw [List.getD_eq_getElem?_getD, List.getElem?_eq_getElem h2]
    rfl

/-! ### cutting a flattened list of rows gives the rows back -/

theorem getD_append_left' {α : Type} (l1 l2 : List α) (i : Nat) (d : α) (h : i < l1.length) :
    (l1 ++ l2).getD i d = l1.getD i d := by
  simp [List.getD_eq_getElem?_getD, List.getElem?_append_left h]

theorem getD_append_right' {α : Type} (l1 l2 : List α) (i : Nat) (d : α) :
    (l1 ++ l2).getD (l1.length + i) d = l2.getD i d := by
  simp [List.getD_eq_getElem?_getD, List.getElem?_append_right]

theorem flatten_getD (rows : List Row) (w : Nat) (h : ∀ r ∈ rows, r.length = w) :
    ∀ j c, j < rows.length → c < w →
      rows.flatten.getD (j * w + c) default = (rows[j]?.getD []).getD c default := by
  induction rows with
  | nil => intro j c hj; simp at hj
  | cons r rs ih =>
    intro j c hj hc
    have hr : r.length = w := h r (by simp)
    cases j with
    | zero =>
      simp only [List.flatten_cons, Nat.zero_mul, Nat.zero_add, List.getElem?_cons_zero, Option.getD_some]
      exact getD_append_left' _ _ _ _ (by rw [hr]; exact hc)
    | succ j =>
      have : (j + 1) * w + c = r.length + (j * w + c) := by rw [hr, Nat.add_mul]; omega
      simp only [List.flatten_cons, this, getD_append_right', List.getElem?_cons_succ]
      exact ih (fun x hx => h x (by simp [hx])) j c (by simpa using hj) hc

theorem rowsOf_flatten (rows : List Row) (w : Nat) (h : ∀ r ∈ rows, r.length = w) :
    rowsOf rows.length w rows.flatten = rows := by
  apply List.ext_getElem
  · simp [rowsOf]
  · intro j h1 h2
    simp only [rowsOf, List.getElem_map, List.getElem_range]
    apply List.ext_getElem
    · simp [h _ (List.getElem_mem h2)]
    · intro c hc1 hc2
      simp only [List.getElem_map, List.getElem_range]
      have hc : c < w := by simpa using hc1
      rw [flatten_getD rows w h j c h2 hc, List.getElem?_eq_getElem h2, Option.getD_some,
        List.getD_eq_getElem?_getD, List.getElem?_eq_getElem hc2]
      rfl

theorem arrRows_width {κ : Nat → String} {s : State} (h : InvK κ s) {a : Arr} (hv : ArrValid s a) :
    ∀ r ∈ arrRows s a, r.length = prod (arrTrail s a) := by
  intro r hr
  obtain ⟨i, _, _, hmem⟩ := arrRows_mem hv r hr
  exact (h.buf_ok a.buf).width r hmem

/-! ### `view[key] = array` for a new key: the exact state -/

/-- numpy copies when the first dimension is 1 (`np.array(np.broadcast_to(...))`), otherwise the array
    object itself is stored. -/
def boundState (s : State) (o : Nat) (key : String) (a : Arr) : State :=
  if a.idx.length = 1 then
    addedState { s with heap := s.heap ++ [⟨arrDt s a, arrTrail s a, arrRows s a⟩] } o key ⟨s.heap.length, [0]⟩
  else addedState s o key a

theorem viewSet_arr_new {κ : Nat → String} {s : State} (h : InvK κ s) (o : Nat) (key : String) (a : Arr)
    (hv : ArrValid s a) (hnew : (s.obj o).find key = none) (hlen : a.idx.length = (s.obj o).natoms) :
    Post (viewSet o key (.arr a)) s (fun r s' => r = .ok () → s' = boundState s o key a) := by
  have hok := arrVal_ok h hv
  have hwidth := arrRows_width h hv
  unfold viewSet
  rw [post_bind_getS]
  simp only []
  by_cases h1 : a.idx.length = 1
  · -- length-1 first dimension: materialised broadcast
    have hshape : (arrVal s a).shape = 1 :: arrTrail s a := by simp [arrVal, h1]
    have hb : viewBcast s (s.obj o).natoms (.arr a) =
        pure (.lit ⟨arrDt s a, 1 :: arrTrail s a, (arrVal s a).data⟩) := by
      unfold viewBcast
      simp only [srcVal, hshape, if_true]
      rw [← hlen, h1]
      have := bcast_self (arrVal s a) hok.1
      rw [hshape] at this
      rw [this]
      rfl
    rw [hb, post_bind_pure]
    rcases viewGuard_cases key (s.obj o).natoms (srcVal s (.lit ⟨arrDt s a, 1 :: arrTrail s a, (arrVal s a).data⟩))
      with ⟨e, hg⟩ | ⟨hg, _⟩
    · rw [hg, post_bind_fail]; intro hc; cases hc
    rw [hg, post_bind_pure]
    simp only [hnew]
    rw [post_bind]
    apply Post.of_eq _ _ (allocVal_eq _ 1 (arrTrail s a) rfl s)
    simp only []
    apply Post.of_eq _ _ (addProp_eq _ _ _ _)
    intro _
    unfold boundState
    simp only [h1, if_true]
    have hrows : rowsOf 1 (prod (arrTrail s a)) (arrVal s a).data = arrRows s a := by
      have hl : (arrRows s a).length = 1 := by simp [arrRows, h1]
      have := rowsOf_flatten (arrRows s a) _ hwidth
      rw [hl] at this
      exact this
    simp only [hrows]
    rfl
  · have hshape : (arrVal s a).shape = a.idx.length :: arrTrail s a := by simp [arrVal]
    have hb : viewBcast s (s.obj o).natoms (.arr a) = pure (.arr a) := by
      have h1' : ¬ (s.obj o).natoms = 1 := by rw [← hlen]; exact h1
      unfold viewBcast
      simp only [srcVal, hshape, hlen, h1', if_false, ne_eq, not_true_eq_false]
      rfl
    rw [hb, post_bind_pure]
    rcases viewGuard_cases key (s.obj o).natoms (srcVal s (.arr a)) with ⟨e, hg⟩ | ⟨hg, _⟩
    · rw [hg, post_bind_fail]; intro hc; cases hc
    rw [hg, post_bind_pure]
    simp only [hnew]
    rw [post_bind_pure]
    apply Post.of_eq _ _ (addProp_eq _ _ _ _)
    intro _
    unfold boundState
    simp only [h1, if_false]

end Atomman.C06
