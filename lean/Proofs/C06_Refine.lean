/-
  C06 — refinement to the record-per-atom specification, part 1: exact results of the copying /
  slicing operations (`__getitem__`, `__deepcopy__`): which arrays the new object holds, what they read,
  that the operands are untouched, and that copies live in fresh buffers.
-/
import Proofs.C06_System

namespace Atomman.C06
set_option linter.unusedSimpArgs false
set_option linter.unusedVariables false

/-! ### broadcasting a value to its own shape is the identity -/

theorem stripOnes_self (sh : List Nat) : stripOnes sh sh.length = sh := by
  cases sh with
  | nil => rfl
  | cons d ds =>
    by_cases h1 : d = 1
    · subst h1
      simp [stripOnes]
    · unfold stripOnes
      split
      · rename_i ds' k heq
        simp at heq
        exact absurd heq.1 h1
      · rfl

theorem padOnes_self (sh : List Nat) : padOnes sh sh.length = sh := by simp [padOnes]

theorem compat_self (sh : List Nat) : compat sh sh = true := by
  induction sh with
  | nil => rfl
  | cons d ds ih => simp [compat, ih]

theorem srcIdx_self (sh : List Nat) : ∀ f, f < prod sh → srcIdx sh sh f = f := by
  induction sh with
  | nil => intro f hf; simp [prod] at hf; subst hf; rfl
  | cons d ds ih =>
    intro f hf
    simp only [prod] at hf
    have hP : 0 < prod ds := by
      rcases Nat.eq_zero_or_pos (prod ds) with h0 | h0
      · rw [h0] at hf; simp at hf
      · exact h0
    have hmod : f % prod ds < prod ds := Nat.mod_lt _ hP
    have hdiv : f / prod ds < d := by
      rw [Nat.div_lt_iff_lt_mul hP]; exact hf
    simp only [srcIdx]
    rw [ih _ hmod]
    by_cases h1 : d = 1
    · subst h1
      have : f / prod ds = 0 := Nat.lt_one_iff.mp hdiv
      simp only [beq_self_eq_true, if_true, Nat.zero_mul, Nat.zero_add]
      have := Nat.div_add_mod f (prod ds)
      rw [‹f / prod ds = 0›] at this
      simp at this; exact this
    · have hne : (d == 1) = false := by simpa using h1
      simp only [hne]
      rw [Nat.mod_eq_of_lt hdiv]
      have := Nat.div_add_mod f (prod ds)
      rw [Nat.mul_comm] at this
      simpa using this

theorem bcast_self (v : Val) (h : v.data.length = prod v.shape) : bcast v v.shape = some v.data := by
  unfold bcast
  simp only [stripOnes_self, padOnes_self, compat_self, h, and_self, if_true]
  have hmap : (List.range (prod v.shape)).map (srcIdx v.shape v.shape) = List.range (prod v.shape) := by
    apply List.ext_getElem
    · simp
    · intro i h1 h2
      simp only [List.getElem_map, List.getElem_range]
      exact srcIdx_self v.shape i (by simpa using h1)
  rw [hmap]
  have hall : (List.range (prod v.shape)).all (fun i => decide (i < prod v.shape)) = true := by
    simp [List.all_eq_true]
  simp only [hall, if_true]
  congr 1
  apply List.ext_getElem
  · simp [h]
  · intro i h1 h2
    simp only [List.getElem_map, List.getElem_range]
    rw [List.getD_eq_getElem?_getD, List.getElem?_eq_getElem h2]
    rfl

/-! ### cutting a flattened list of rows gives the rows back -/

theorem getD_append_left' {α : Type} (l1 l2 : List α) (i : Nat) (d : α) (h : i < l1.length) :
    (l1 ++ l2).getD i d = l1.getD i d := by
  simp [List.getD_eq_getElem?_getD, List.getElem?_append_left h]

theorem getD_append_right' {α : Type} (l1 l2 : List α) (i : Nat) (d : α) :
    (l1 ++ l2).getD (l1.length + i) d = l2.getD i d := by
  simp [List.getD_eq_getElem?_getD, List.getElem?_append_right]

theorem flatten_getD (rows : List Row) (w : Nat) (h : ∀ r ∈ rows, r.length = w) :
    ∀ j c, j < rows.length → c < w →
      rows.flatten.getD (j * w + c) default = (rows[j]?.getD []).getD c default := by
  induction rows with
  | nil => intro j c hj; simp at hj
  | cons r rs ih =>
    intro j c hj hc
    have hr : r.length = w := h r (by simp)
    cases j with
    | zero =>
      simp only [List.flatten_cons, Nat.zero_mul, Nat.zero_add, List.getElem?_cons_zero, Option.getD_some]
      exact getD_append_left' _ _ _ _ (by rw [hr]; exact hc)
    | succ j =>
      have : (j + 1) * w + c = r.length + (j * w + c) := by rw [hr, Nat.add_mul]; omega
      simp only [List.flatten_cons, this, getD_append_right', List.getElem?_cons_succ]
      exact ih (fun x hx => h x (by simp [hx])) j c (by simpa using hj) hc

theorem rowsOf_flatten (rows : List Row) (w : Nat) (h : ∀ r ∈ rows, r.length = w) :
    rowsOf rows.length w rows.flatten = rows := by
  apply List.ext_getElem
  · simp [rowsOf]
  · intro j h1 h2
    simp only [rowsOf, List.getElem_map, List.getElem_range]
    apply List.ext_getElem
    · simp [h _ (List.getElem_mem h2)]
    · intro c hc1 hc2
      simp only [List.getElem_map, List.getElem_range]
      have hc : c < w := by simpa using hc1
      rw [flatten_getD rows w h j c h2 hc, List.getElem?_eq_getElem h2, Option.getD_some,
        List.getD_eq_getElem?_getD, List.getElem?_eq_getElem hc2]
      rfl

theorem arrRows_width {κ : Nat → String} {s : State} (h : InvK κ s) {a : Arr} (hv : ArrValid s a) :
    ∀ r ∈ arrRows s a, r.length = prod (arrTrail s a) := by
  intro r hr
  obtain ⟨i, _, _, hmem⟩ := arrRows_mem hv r hr
  exact (h.buf_ok a.buf).width r hmem

/-! ### `view[key] = array` for a new key: the exact state -/

/-- numpy copies when the first dimension is 1 (`np.array(np.broadcast_to(...))`), otherwise the array
    object itself is stored. -/
def boundState (s : State) (o : Nat) (key : String) (a : Arr) : State :=
  if a.idx.length = 1 then
    addedState { s with heap := s.heap ++ [⟨arrDt s a, arrTrail s a, arrRows s a⟩] } o key ⟨s.heap.length, [0]⟩
  else addedState s o key a

theorem viewSet_arr_new {κ : Nat → String} {s : State} (h : InvK κ s) (o : Nat) (key : String) (a : Arr)
    (hv : ArrValid s a) (hnew : (s.obj o).find key = none) (hlen : a.idx.length = (s.obj o).natoms) :
    Post (viewSet o key (.arr a)) s (fun r s' => r = .ok () → s' = boundState s o key a) := by
  have hok := arrVal_ok h hv
  have hwidth := arrRows_width h hv
  unfold viewSet
  rw [post_bind_getS]
  simp only []
  by_cases h1 : a.idx.length = 1
  · -- length-1 first dimension: materialised broadcast
    have hshape : (arrVal s a).shape = 1 :: arrTrail s a := by simp [arrVal, h1]
    have hb : viewBcast s (s.obj o).natoms (.arr a) =
        pure (.lit ⟨arrDt s a, 1 :: arrTrail s a, (arrVal s a).data⟩) := by
      unfold viewBcast
      simp only [srcVal, hshape, if_true]
      rw [← hlen, h1]
      have := bcast_self (arrVal s a) hok.1
      rw [hshape] at this
      rw [this]
      rfl
    rw [hb, post_bind_pure]
    rcases viewGuard_cases key (s.obj o).natoms (srcVal s (.lit ⟨arrDt s a, 1 :: arrTrail s a, (arrVal s a).data⟩))
      with ⟨e, hg⟩ | ⟨hg, _⟩
    · rw [hg, post_bind_fail]; intro hc; cases hc
    rw [hg, post_bind_pure]
    simp only [hnew]
    rw [post_bind]
    apply Post.of_eq _ _ (allocVal_eq _ 1 (arrTrail s a) rfl s)
    simp only []
    apply Post.of_eq _ _ (addProp_eq _ _ _ _)
    intro _
    unfold boundState
    simp only [h1, if_true]
    have hrows : rowsOf 1 (prod (arrTrail s a)) (arrVal s a).data = arrRows s a := by
      have hl : (arrRows s a).length = 1 := by simp [arrRows, h1]
      have := rowsOf_flatten (arrRows s a) _ hwidth
      rw [hl] at this
      exact this
    simp only [hrows]
    rfl
  · have hshape : (arrVal s a).shape = a.idx.length :: arrTrail s a := by simp [arrVal]
    have hb : viewBcast s (s.obj o).natoms (.arr a) = pure (.arr a) := by
      have h1' : ¬ (s.obj o).natoms = 1 := by rw [← hlen]; exact h1
      unfold viewBcast
      simp only [srcVal, hshape, hlen, h1', if_false, ne_eq, not_true_eq_false]
      rfl
    rw [hb, post_bind_pure]
    rcases viewGuard_cases key (s.obj o).natoms (srcVal s (.arr a)) with ⟨e, hg⟩ | ⟨hg, _⟩
    · rw [hg, post_bind_fail]; intro hc; cases hc
    rw [hg, post_bind_pure]
    simp only [hnew]
    rw [post_bind_pure]
    apply Post.of_eq _ _ (addProp_eq _ _ _ _)
    intro _
    unfold boundState
    simp only [h1, if_false]

/-! ### append-only heaps -/

/-- `st` has the heap of `s` plus newly allocated buffers: every buffer of `s` is literally unchanged. -/
def HeapExt (s st : State) : Prop := ∃ extra, st.heap = s.heap ++ extra

theorem HeapExt.refl (s : State) : HeapExt s s := ⟨[], by simp⟩

theorem HeapExt.trans {s s1 s2 : State} (h1 : HeapExt s s1) (h2 : HeapExt s1 s2) : HeapExt s s2 := by
  obtain ⟨e1, h1⟩ := h1
  obtain ⟨e2, h2⟩ := h2
  exact ⟨e1 ++ e2, by rw [h2, h1, List.append_assoc]⟩

theorem HeapExt.len {s st : State} (h : HeapExt s st) : s.heap.length ≤ st.heap.length := by
  obtain ⟨e, h⟩ := h; rw [h]; simp

theorem HeapExt.buf {s st : State} (h : HeapExt s st) (b : Nat) (hb : b < s.heap.length) : st.buf b = s.buf b := by
  obtain ⟨e, h⟩ := h
  simp [State.buf, h, List.getElem?_append_left hb]

theorem HeapExt.rows {s st : State} (h : HeapExt s st) (a : Arr) (hb : a.buf < s.heap.length) :
    arrRows st a = arrRows s a ∧ arrDt st a = arrDt s a ∧ arrTrail st a = arrTrail s a := by
  simp [arrRows, arrDt, arrTrail, h.buf a.buf hb]

theorem HeapExt.valid {s st : State} (h : HeapExt s st) {a : Arr} (hv : ArrValid s a) : ArrValid st a :=
  ⟨Nat.lt_of_lt_of_le hv.1 h.len, by rw [h.buf _ hv.1]; exact hv.2⟩

theorem heapExt_alloc (s : State) (x : Buf) : HeapExt s { s with heap := s.heap ++ [x] } := ⟨[x], rfl⟩

theorem heapExt_added (s : State) (o : Nat) (key : String) (a : Arr) : HeapExt s (addedState s o key a) :=
  ⟨[], by simp [addedState]⟩

theorem heapExt_bound (s : State) (o : Nat) (key : String) (a : Arr) : HeapExt s (boundState s o key a) := by
  unfold boundState
  split
  · exact (heapExt_alloc s _).trans (heapExt_added _ _ _ _)
  · exact heapExt_added _ _ _ _

/-! ### `All2` plumbing -/

theorem All2.append {β γ : Type} {R : β → γ → Prop} {l1 l2 : List β} {m1 m2 : List γ} (h1 : All2 R l1 m1)
    (h2 : All2 R l2 m2) : All2 R (l1 ++ l2) (m1 ++ m2) := by
  induction h1 with
  | nil => exact h2
  | cons hr _ ih => exact All2.cons hr ih

theorem All2.mem_left {β γ : Type} {R : β → γ → Prop} {l : List β} {l' : List γ} (h : All2 R l l') :
    ∀ b ∈ l, ∃ c ∈ l', R b c := by
  induction h with
  | nil => intro b hb; simp at hb
  | cons h1 _ ih =>
    intro b hb
    simp at hb
    rcases hb with rfl | hb
    · exact ⟨_, by simp, h1⟩
    · obtain ⟨c, hc, hr⟩ := ih b hb
      exact ⟨c, by simp [hc], hr⟩

theorem All2.map_eq {β γ δ : Type} {R : β → γ → Prop} {l : List β} {l' : List γ} (f : β → δ) (g : γ → δ)
    (h : All2 R l l') (hfg : ∀ b c, R b c → g c = f b) : l'.map g = l.map f := by
  induction h with
  | nil => rfl
  | cons h1 _ ih => simp [hfg _ _ h1, ih]

/-! ### an object built from views -/

/-- column `p` of the new object stands for source view `q` (an array of the state `s0` the constructor
    started from): same key, reads the same rows; it *is* the source array unless the source has exactly
    one row (numpy's length-1 broadcast copies), in which case it lives in a buffer allocated later. -/
structure ColOf (s0 st : State) (q p : PropRef) : Prop where
  key : p.key = q.key
  valid : ArrValid st p.arr
  rows : arrRows st p.arr = arrRows s0 q.arr
  dt : arrDt st p.arr = arrDt s0 q.arr
  trail : arrTrail st p.arr = arrTrail s0 q.arr
  same : q.arr.idx.length ≠ 1 → p.arr = q.arr
  fresh : q.arr.idx.length = 1 → s0.heap.length ≤ p.arr.buf

theorem ColOf.mono {s0 st st' : State} {q p : PropRef} (h : ColOf s0 st q p) (hext : HeapExt st st') :
    ColOf s0 st' q p := by
  obtain ⟨r1, r2, r3⟩ := hext.rows p.arr h.valid.1
  exact ⟨h.key, hext.valid h.valid, r1.trans h.rows, r2.trans h.dt, r3.trans h.trail, h.same, h.fresh⟩

structure Built (s0 : State) (o : Nat) (srcs : List PropRef) (st : State) : Prop where
  heap : HeapExt s0 st
  objs : ∀ o', o' ≠ o → st.obj o' = s0.obj o'
  natoms : (st.obj o).natoms = (s0.obj o).natoms
  objsLen : st.objs.length = s0.objs.length
  syss : st.syss = s0.syss
  cols : All2 (ColOf s0 st) srcs (st.obj o).props

theorem obj_added (s : State) (o o' : Nat) (key : String) (a : Arr) :
    (addedState s o key a).obj o' =
      if o' = o ∧ o < s.objs.length then { s.obj o with props := (s.obj o).props ++ [⟨key, a⟩] } else s.obj o' := by
  simp only [addedState, obj_set]

/-- one more `view[key] = array` on the object under construction. -/
theorem Built.step {κ : Nat → String} {s0 st : State} {o : Nat} {srcs : List PropRef} (hb : Built s0 o srcs st)
    (hinv : InvK κ st) (ho : o < s0.objs.length) (q : PropRef) (hq : ArrValid s0 q.arr)
    (hlen : q.arr.idx.length = (s0.obj o).natoms) (hnew : ∀ q' ∈ srcs, q'.key ≠ q.key) :
    Post (viewSet o q.key (.arr q.arr)) st (fun r st' => r = .ok () → Built s0 o (srcs ++ [q]) st') := by
  have hkeys : (st.obj o).props.map (·.key) = srcs.map (·.key) :=
    hb.cols.map_eq (·.key) (·.key) (fun _ _ hr => hr.key)
  have hfind : (st.obj o).find q.key = none := by
    rw [find_none_iff]
    intro p hp hpk
    have : p.key ∈ srcs.map (·.key) := by rw [← hkeys]; exact List.mem_map.mpr ⟨p, hp, rfl⟩
    obtain ⟨q', hq', hk'⟩ := List.mem_map.mp this
    exact hnew q' hq' (hk'.trans hpk)
  have hqv : ArrValid st q.arr := hb.heap.valid hq
  have ho' : o < st.objs.length := by rw [hb.objsLen]; exact ho
  apply Post.mono (viewSet_arr_new hinv o q.key q.arr hqv hfind (by rw [hlen, hb.natoms]))
  intro r st' hst' hr
  have hst' := hst' hr
  have hext : HeapExt st st' := by rw [hst']; exact heapExt_bound _ _ _ _
  have hrows0 := hb.heap.rows q.arr hq.1
  -- the new column
  have hnewcol : ∃ a', (st'.obj o).props = (st.obj o).props ++ [⟨q.key, a'⟩] ∧ ColOf s0 st' q ⟨q.key, a'⟩ ∧
      (∀ o', o' ≠ o → st'.obj o' = st.obj o') ∧ (st'.obj o).natoms = (st.obj o).natoms ∧
      st'.objs.length = st.objs.length ∧ st'.syss = st.syss := by
    rw [hst']
    unfold boundState
    split
    · rename_i h1
      refine ⟨⟨st.heap.length, [0]⟩, ?_, ?_, ?_, ?_, ?_, ?_⟩
      · rw [obj_added]; simp [ho']; rfl
      · have hbuf : (addedState { st with heap := st.heap ++ [⟨arrDt st q.arr, arrTrail st q.arr, arrRows st q.arr⟩] } o q.key
            ⟨st.heap.length, [0]⟩).buf st.heap.length = ⟨arrDt st q.arr, arrTrail st q.arr, arrRows st q.arr⟩ := by
          simp [State.buf, addedState]
        have hl : (arrRows st q.arr).length = 1 := by simp [arrRows, h1]
        refine ⟨rfl, ⟨by simp [addedState], ?_⟩, ?_, ?_, ?_, fun hne => absurd h1 hne, fun _ => ?_⟩
        · intro i hi
          simp only [List.mem_singleton] at hi
          subst hi
          rw [hbuf]; simp [hl]
        · show [((addedState { st with heap := st.heap ++ [⟨arrDt st q.arr, arrTrail st q.arr, arrRows st q.arr⟩] } o q.key
              ⟨st.heap.length, [0]⟩).buf st.heap.length).rows[0]?.getD []] = _
          rw [hbuf, ← hrows0.1]
          show [(arrRows st q.arr)[0]?.getD []] = arrRows st q.arr
          match hrs : arrRows st q.arr, hl with
          | [r], _ => simp
        · show ((addedState { st with heap := st.heap ++ [⟨arrDt st q.arr, arrTrail st q.arr, arrRows st q.arr⟩] } o q.key
              ⟨st.heap.length, [0]⟩).buf st.heap.length).dt = _
          rw [hbuf]; exact hrows0.2.1
        · show ((addedState { st with heap := st.heap ++ [⟨arrDt st q.arr, arrTrail st q.arr, arrRows st q.arr⟩] } o q.key
              ⟨st.heap.length, [0]⟩).buf st.heap.length).trail = _
          rw [hbuf]; exact hrows0.2.2
        · exact hb.heap.len
      · intro o' hne; rw [obj_added]; simp [hne]; rfl
      · rw [obj_added]; simp [ho']; rfl
      · simp [addedState]
      · rfl
    · rename_i h1
      refine ⟨q.arr, ?_, ?_, ?_, ?_, ?_, ?_⟩
      · rw [obj_added]; simp [ho']
      · have hx : HeapExt st (addedState st o q.key q.arr) := heapExt_added _ _ _ _
        obtain ⟨r1, r2, r3⟩ := hx.rows q.arr hqv.1
        exact ⟨rfl, hx.valid hqv, r1.trans hrows0.1, r2.trans hrows0.2.1, r3.trans hrows0.2.2, fun _ => rfl,
          fun h => absurd h h1⟩
      · intro o' hne; rw [obj_added]; simp [hne]
      · rw [obj_added]; simp [ho']
      · simp [addedState]
      · rfl
  obtain ⟨a', hprops, hcol, hobjs, hnat, hlen', hsys⟩ := hnewcol
  refine ⟨hb.heap.trans hext, fun o' hne => (hobjs o' hne).trans (hb.objs o' hne), hnat.trans hb.natoms,
    hlen'.trans hb.objsLen, hsys.trans hb.syss, ?_⟩
  rw [hprops]
  exact All2.append (hb.cols.mono (fun _ _ hr => hr.mono hext)) (All2.cons hcol All2.nil)

theorem Post.and {α : Type} {m : M α} {s : State} {Q1 Q2 : Except Err α → State → Prop} (h1 : Post m s Q1)
    (h2 : Post m s Q2) : Post m s (fun r s' => Q1 r s' ∧ Q2 r s') := ⟨h1, h2⟩

/-- the remaining `view[key] = array` assignments of the constructor. -/
theorem built_loop {κ0 : Nat → String} {s0 : State} {o : Nat} (ho : o < s0.objs.length) :
    ∀ (rest srcs : List PropRef) (st : State) (κ : Nat → String), InvK κ st → Ext κ0 s0 κ st → Built s0 o srcs st →
      (∀ q ∈ rest, SrcOK κ0 s0 q.key (.arr q.arr) ∧ q.arr.idx.length = (s0.obj o).natoms ∧
        ∀ q' ∈ srcs, q'.key ≠ q.key) →
      (rest.map (·.key)).Nodup →
      Post (forEach (rest.map (fun p => (p.key, Src.arr p.arr))) (fun kv => viewSet o kv.1 kv.2)) st
        (fun r st' => r = .ok () → Built s0 o (srcs ++ rest) st') := by
  intro rest
  induction rest with
  | nil =>
    intro srcs st κ _ _ hb _ _
    simp only [List.map_nil, List.append_nil]
    intro _; exact hb
  | cons q rest ih =>
    intro srcs st κ hinv hext hb hq hnd
    obtain ⟨hsrc, hlen, hnew⟩ := hq q (by simp)
    simp only [List.map_cons]
    show Post (M.bind (viewSet o q.key (.arr q.arr)) (fun _ => forEach _ _)) st _
    apply (post_bind _ _ _ _).mpr
    have h1 := inv_viewSet hinv o q.key (.arr q.arr) (hsrc.mono hext)
    have h2 := hb.step hinv ho q hsrc.1 hlen hnew
    apply Post.mono (Post.and h1 h2)
    intro r st1 ⟨⟨⟨κ1, hinv1, hext1, _, _⟩, _⟩, hb1⟩
    cases r with
    | error e => intro hc; cases hc
    | ok u =>
      simp only []
      have hb1 := hb1 rfl
      have hnd' : (rest.map (·.key)).Nodup := (List.nodup_cons.mp hnd).2
      have hqn : q.key ∉ rest.map (·.key) := (List.nodup_cons.mp hnd).1
      have := ih (srcs ++ [q]) st1 κ1 hinv1 (hext.trans hext1) hb1
        (by
          intro q2 hq2
          obtain ⟨a1, a2, a3⟩ := hq q2 (by simp [hq2])
          refine ⟨a1, a2, ?_⟩
          intro q' hq'
          simp only [List.mem_append, List.mem_singleton] at hq'
          rcases hq' with hq' | rfl
          · exact a3 q' hq'
          · intro hk
            exact hqn (List.mem_map.mpr ⟨q2, hq2, hk.symm⟩))
        hnd'
      simpa [List.append_assoc] using this

theorem built_push (s : State) (n : Nat) :
    Built { s with objs := s.objs ++ [⟨n, []⟩] } s.objs.length [] { s with objs := s.objs ++ [⟨n, []⟩] } :=
  ⟨HeapExt.refl _, fun _ _ => rfl, rfl, rfl, rfl, by rw [obj_push_eq]; exact All2.nil⟩

/-- **`Atoms(**views)`**: the constructor called on views (all of leading length `n`, distinct keys)
    builds an object whose columns are exactly those views, in the order `atype`, `pos`, rest. -/
theorem mkAtomsWith_views {κ : Nat → String} {s : State} (h : InvK κ s) (n : Nat) (qa qp : PropRef)
    (rest : List PropRef) (hka : qa.key = "atype") (hkp : qp.key = "pos")
    (hall : ∀ q ∈ qa :: qp :: rest, SrcOK κ s q.key (.arr q.arr) ∧ q.arr.idx.length = n)
    (hnd : ((qa :: qp :: rest).map (·.key)).Nodup) :
    Post (mkAtomsWith n (.arr qa.arr) (.arr qp.arr) (rest.map (fun p => (p.key, Src.arr p.arr)))) s
      (fun r s' => ∀ o', r = .ok o' → o' = s.objs.length ∧
        Built { s with objs := s.objs ++ [⟨n, []⟩] } s.objs.length (qa :: qp :: rest) s') := by
  unfold mkAtomsWith
  rw [post_bind]
  apply Post.of_eq _ _ (pushObj_eq _ s)
  simp only []
  obtain ⟨hinv0, hext0⟩ := inv_pushObj h n
  generalize hs0 : ({ s with objs := s.objs ++ [⟨n, []⟩] } : State) = s0 at hinv0 hext0 ⊢
  have ho : s.objs.length < s0.objs.length := by rw [← hs0]; simp
  have hnat : (s0.obj s.objs.length).natoms = n := by rw [← hs0, obj_push_eq]
  have hb0 : Built s0 s.objs.length [] s0 := by rw [← hs0]; exact built_push s n
  have hall0 : ∀ q ∈ qa :: qp :: rest, SrcOK κ s0 q.key (.arr q.arr) ∧ q.arr.idx.length = (s0.obj s.objs.length).natoms := by
    intro q hq
    obtain ⟨a1, a2⟩ := hall q hq
    exact ⟨a1.mono hext0, by rw [hnat]; exact a2⟩
  have := built_loop (κ0 := κ) (s0 := s0) ho (qa :: qp :: rest) [] s0 κ hinv0 (Ext.refl κ s0) hb0
    (fun q hq => ⟨(hall0 q hq).1, (hall0 q hq).2, fun q' hq' => by simp at hq'⟩) hnd
  simp only [List.map_cons, List.nil_append] at this
  -- unfold the first two iterations of the loop into the two explicit assignments
  have hshape : ∀ (st : State) (Q : Except Err Unit → State → Prop),
      Post (forEach ((qa.key, Src.arr qa.arr) :: (qp.key, Src.arr qp.arr) ::
        rest.map (fun p => (p.key, Src.arr p.arr))) (fun kv => viewSet s.objs.length kv.1 kv.2)) st Q ↔
      Post (do viewSet s.objs.length qa.key (.arr qa.arr); viewSet s.objs.length qp.key (.arr qp.arr);
               forEach (rest.map (fun p => (p.key, Src.arr p.arr))) (fun kv => viewSet s.objs.length kv.1 kv.2)) st Q := by
    intro st Q; rfl
  rw [hshape, hka, hkp] at this
  rw [post_bind]
  rw [post_bind] at this
  apply Post.mono this
  intro r s1 hq1
  cases r with
  | error e => intro o' hc; cases hc
  | ok u =>
    simp only [] at hq1 ⊢
    rw [post_bind]
    rw [post_bind] at hq1
    apply Post.mono hq1
    intro r s2 hq2
    cases r with
    | error e => intro o' hc; cases hc
    | ok u =>
      simp only [] at hq2 ⊢
      rw [post_bind]
      apply Post.mono hq2
      intro r s3 hq3
      cases r with
      | error e => intro o' hc; cases hc
      | ok u =>
        simp only []
        rw [post_pure]
        intro o' ho'
        have : o' = s.objs.length := by
          have : (Except.ok s.objs.length : Except Err Nat) = .ok o' := ho'
          injection this with this; exact this.symm
        exact ⟨this, hq3 rfl⟩

/-! ### the number of atoms inferred from views of equal length -/

theorem atomsCount_views (m n : Nat) (ta tp : List Nat) (h : atomsCount none (m :: ta) (m :: tp) = .ok n) : n = m := by
  unfold atomsCount at h
  cases ta with
  | cons x xs => simp at h
  | nil =>
    simp only [] at h
    cases tp with
    | nil =>
      simp only [] at h
      by_cases h3 : m = 3
      · subst h3; simp at h; omega
      · simp [h3] at h
    | cons d tp' =>
      cases tp' with
      | nil =>
        simp only [] at h
        by_cases h3 : d = 3
        · subst h3; simp at h; omega
        · simp [h3] at h
      | cons e tp'' => simp at h

/-! ### `Atoms(**view)` on a full set of views -/

def restOf (views : List PropRef) : List PropRef := views.filter (fun p => p.key != "atype" && p.key != "pos")

theorem mkAtoms_views_spec {κ : Nat → String} {s : State} (h : InvK κ s) (views : List PropRef) (m : Nat)
    (hviews : ∀ q ∈ views, SrcOK κ s q.key (.arr q.arr) ∧ q.arr.idx.length = m)
    (hnd : (views.map (·.key)).Nodup) (qa qp : PropRef)
    (hfa : views.find? (fun p => p.key == "atype") = some qa) (hfp : views.find? (fun p => p.key == "pos") = some qp) :
    Post (mkAtoms none ((views.find? (fun p => p.key == "atype")).map (fun p => Src.arr p.arr))
      ((views.find? (fun p => p.key == "pos")).map (fun p => Src.arr p.arr))
      ((views.filter (fun p => p.key != "atype" && p.key != "pos")).map (fun p => (p.key, Src.arr p.arr)))) s
      (fun r s' => (∀ e, r = .error e → s' = s) ∧ ∀ o', r = .ok o' → o' = s.objs.length ∧
        Built { s with objs := s.objs ++ [⟨m, []⟩] } s.objs.length (qa :: qp :: restOf views) s') := by
  have hka : qa.key = "atype" := by simpa using List.find?_some hfa
  have hkp : qp.key = "pos" := by simpa using List.find?_some hfp
  have hqa : qa ∈ views := List.mem_of_find?_eq_some hfa
  have hqp : qp ∈ views := List.mem_of_find?_eq_some hfp
  unfold mkAtoms
  rw [post_atomic, post_bind_getS]
  simp only [hfa, hfp, Option.map_some, Option.getD_some]
  rw [post_bind_liftE]
  have hsa : (srcVal s (.arr qa.arr)).shape = m :: arrTrail s qa.arr := by simp [srcVal, arrVal, (hviews qa hqa).2]
  have hsp : (srcVal s (.arr qp.arr)).shape = m :: arrTrail s qp.arr := by simp [srcVal, arrVal, (hviews qp hqp).2]
  rw [hsa, hsp]
  split
  · rename_i n hn
    have hnm := atomsCount_views m n _ _ hn
    subst hnm
    have hall : ∀ q ∈ qa :: qp :: restOf views, SrcOK κ s q.key (.arr q.arr) ∧ q.arr.idx.length = n := by
      intro q hq
      simp only [List.mem_cons] at hq
      rcases hq with rfl | rfl | hq
      · exact hviews _ hqa
      · exact hviews _ hqp
      · exact hviews q (List.mem_filter.mp hq).1
    have hnd' : ((qa :: qp :: restOf views).map (·.key)).Nodup := by
      simp only [List.map_cons, List.nodup_cons, List.mem_cons, List.mem_map, not_or, not_exists, not_and]
      refine ⟨⟨by rw [hka, hkp]; decide, ?_⟩, ?_, ?_⟩
      · intro q hq hk
        have := (List.mem_filter.mp hq).2
        rw [hk, hka] at this; simp at this
      · intro q hq hk
        have := (List.mem_filter.mp hq).2
        rw [hk, hkp] at this; simp at this
      · exact List.Nodup.sublist (List.Sublist.map _ List.filter_sublist) hnd
    apply Post.mono (mkAtomsWith_views h n qa qp (restOf views) hka hkp hall hnd')
    intro r s' hq
    cases r with
    | error e =>
      refine ⟨fun _ _ => trivial, ?_⟩
      intro o' hc; cases hc
    | ok o' =>
      refine ⟨?_, hq⟩
      intro e hc; cases hc
  · refine ⟨fun _ _ => trivial, ?_⟩
    intro o' hc; cases hc

/-! ### the views made by `__getitem__` -/

theorem map_range_getD {α : Type} (l : List α) (d : α) : (List.range l.length).map (fun i => l[i]?.getD d) = l := by
  apply List.ext_getElem
  · simp
  · intro i h1 h2
    simp [List.getElem?_eq_getElem h2]

/-- `q` is `p.arr[sel]` as made by `indexGet` (a view of the same buffer, or a copy in a new buffer). -/
structure ViewOf (s : State) (sel : Sel) (κ1 : Nat → String) (s1 : State) (p q : PropRef) : Prop where
  key : q.key = p.key
  src : SrcOK κ1 s1 q.key (.arr q.arr)
  len : q.arr.idx.length = sel.pos.length
  rows : arrRows s1 q.arr = arrRows s (subArr p.arr sel)
  dt : arrDt s1 q.arr = arrDt s p.arr
  trail : arrTrail s1 q.arr = arrTrail s p.arr
  view : sel.view = true → q.arr = subArr p.arr sel
  copy : sel.view = false → s.heap.length ≤ q.arr.buf
  oob : sel.oob = false

/-- extension of ghost and state by allocation only. -/
def AExt (κ : Nat → String) (s : State) (κ' : Nat → String) (s' : State) : Prop := Ext κ s κ' s' ∧ HeapExt s s'

theorem ViewOf.mono {s : State} {sel : Sel} {κ1 κ2 : Nat → String} {s1 s2 : State} {p q : PropRef}
    (h : ViewOf s sel κ1 s1 p q) (hext : AExt κ1 s1 κ2 s2) : ViewOf s sel κ2 s2 p q := by
  obtain ⟨r1, r2, r3⟩ := hext.2.rows q.arr h.src.1.1
  exact ⟨h.key, h.src.mono hext.1, h.len, r1.trans h.rows, r2.trans h.dt, r3.trans h.trail, h.view, h.copy, h.oob⟩

theorem getItem_views {κ : Nat → String} {s : State} (h : InvK κ s) (o : Nat) (sel : Sel)
    (hpos : ∀ p ∈ sel.pos, p < (s.obj o).natoms) (hselnd : sel.view = true → sel.pos.Nodup) :
    Post (mapEach (s.obj o).props (fun p => do
        let a ← indexGet p.arr sel
        pure (⟨p.key, a⟩ : PropRef))) s
      (fun r s1 => ∃ κ1, (InvK κ1 s1 ∧ Ext κ s κ1 s1 ∧ HeapExt s s1 ∧ s1.objs = s.objs ∧ s1.syss = s.syss) ∧
        AExt κ s κ1 s1 ∧ ∀ views, r = .ok views → All2 (fun p q => ViewOf s sel κ1 s1 p q) (s.obj o).props views) := by
  apply post_mapEach_ghost (s.obj o).props _
    (fun g st => InvK g st ∧ Ext κ s g st ∧ HeapExt s st ∧ st.objs = s.objs ∧ st.syss = s.syss)
    (fun p q g st => ViewOf s sel g st p q) AExt
    (fun g st => ⟨Ext.refl g st, HeapExt.refl st⟩)
    (fun _ _ _ _ _ _ h1 h2 => ⟨h1.1.trans h2.1, h1.2.trans h2.2⟩)
    (fun _ _ _ _ _ _ hr he => hr.mono he)
  · intro p hp g st ⟨hg, hge, hgh, hgo, hgs⟩
    have hp0 := h.obj_props o p hp
    have hpv : ArrValid st p.arr := hgh.valid hp0.valid
    have hpk : g p.arr.buf = p.key := (hge.agree _ hp0.valid.1).trans hp0.key
    have hposl : ∀ i ∈ sel.pos, i < p.arr.idx.length := by rw [hp0.len]; exact hpos
    have hsub0 := hgh.rows (subArr p.arr sel) hp0.valid.1
    have hp0r := hgh.rows p.arr hp0.valid.1
    rw [post_bind]
    rcases indexGet_cases p.arr sel st with ⟨e, he⟩ | ⟨hview, hoob, he⟩ | ⟨hview, hoob, he⟩
    · apply Post.of_eq _ _ he
      exact ⟨g, ⟨hg, hge, hgh, hgo, hgs⟩, ⟨Ext.refl g st, HeapExt.refl st⟩, fun c hc => by cases hc⟩
    · apply Post.of_eq _ _ he
      simp only []
      rw [post_pure]
      refine ⟨g, ⟨hg, hge, hgh, hgo, hgs⟩, ⟨Ext.refl g st, HeapExt.refl st⟩, ?_⟩
      intro c hc
      have : c = ⟨p.key, subArr p.arr sel⟩ := by
        have : (Except.ok ⟨p.key, subArr p.arr sel⟩ : Except Err PropRef) = .ok c := hc
        injection this with this; exact this.symm
      subst this
      have hcopy : sel.view = false → s.heap.length ≤ (subArr p.arr sel).buf := by
        intro hc; rw [hview] at hc; cases hc
      exact ⟨rfl, ⟨subArr_valid hpv sel hposl, hpk, subArr_nodup p.arr sel hp0.nodup hposl (hselnd hview)⟩,
        by simp [subArr], hsub0.1, hp0r.2.1, hp0r.2.2, fun _ => rfl, hcopy, hoob⟩
    · apply Post.of_eq _ _ he
      simp only []
      rw [post_pure]
      have hsub := subArr_valid hpv sel hposl
      have hbuf : BufOK ⟨arrDt st p.arr, arrTrail st p.arr, arrRows st (subArr p.arr sel)⟩ := arrRows_bufOK hg hsub
      obtain ⟨hinv1, hext1⟩ := inv_alloc hg _ hbuf p.key
      have hx := heapExt_alloc st ⟨arrDt st p.arr, arrTrail st p.arr, arrRows st (subArr p.arr sel)⟩
      refine ⟨_, ⟨hinv1, hge.trans hext1, hgh.trans hx, hgo, hgs⟩, ⟨hext1, hx⟩, ?_⟩
      intro c hc
      have : c = ⟨p.key, ⟨st.heap.length, List.range sel.pos.length⟩⟩ := by
        have : (Except.ok ⟨p.key, ⟨st.heap.length, List.range sel.pos.length⟩⟩ : Except Err PropRef) = .ok c := hc
        injection this with this; exact this.symm
      subst this
      have hlen : (arrRows st (subArr p.arr sel)).length = sel.pos.length := by simp [arrRows, subArr]
      have hnoview : sel.view = true →
          (⟨st.heap.length, List.range sel.pos.length⟩ : Arr) = subArr p.arr sel := by
        intro hc; rw [hview] at hc; cases hc
      refine ⟨rfl, ⟨⟨by simp, ?_⟩, by simp [upd], List.nodup_range⟩, by simp, ?_, ?_, ?_, hnoview, fun _ => hgh.len, hoob⟩
      · intro i hi
        rw [buf_append_eq]
        simpa [hlen] using hi
      · show (List.range sel.pos.length).map (fun i =>
            (({ st with heap := st.heap ++ [⟨arrDt st p.arr, arrTrail st p.arr, arrRows st (subArr p.arr sel)⟩] } : State).buf
              st.heap.length).rows[i]?.getD []) = _
        rw [buf_append_eq, ← hsub0.1]
        have := map_range_getD (arrRows st (subArr p.arr sel)) []
        rw [hlen] at this
        exact this
      · simp only [arrDt, buf_append_eq]; exact hp0r.2.1
      · simp only [arrTrail, buf_append_eq]; exact hp0r.2.2
  · exact ⟨h, Ext.refl κ s, HeapExt.refl s, rfl, rfl⟩

/-! ### `__getitem__` refines "select records" -/

theorem eq_of_key_eq (l : List PropRef) (hnd : (l.map (·.key)).Nodup) (a b : PropRef) (ha : a ∈ l) (hb : b ∈ l)
    (hk : a.key = b.key) : a = b := by
  induction l with
  | nil => simp at ha
  | cons x t ih =>
    simp only [List.map_cons, List.nodup_cons, List.mem_map, not_exists, not_and] at hnd
    simp only [List.mem_cons] at ha hb
    rcases ha with rfl | ha
    · rcases hb with rfl | hb
      · rfl
      · exact absurd hk.symm (hnd.1 b hb)
    · rcases hb with rfl | hb
      · exact absurd hk (hnd.1 a ha)
      · exact ih hnd.2 ha hb

theorem find?_of_key (l : List PropRef) (k : String) (q : PropRef) (hq : q ∈ l) (hk : q.key = k) :
    ∃ q', l.find? (fun p => p.key == k) = some q' := by
  cases hf : l.find? (fun p => p.key == k) with
  | some q' => exact ⟨q', rfl⟩
  | none =>
    rw [List.find?_eq_none] at hf
    have := hf q hq
    simp [hk] at this

theorem arrRows_subArr (s : State) (a : Arr) (sel : Sel) (hpos : ∀ i ∈ sel.pos, i < a.idx.length) :
    arrRows s (subArr a sel) = sel.pos.map (fun i => (arrRows s a)[i]?.getD []) := by
  simp only [arrRows, subArr, List.map_map]
  apply List.map_congr_left
  intro i hi
  have hlt := hpos i hi
  simp [List.getElem?_eq_getElem hlt]

/-- column `p'` of the result is column `p` of the operand cut by the selection. -/
structure ColRel (s : State) (sel : Sel) (s' : State) (p p' : PropRef) : Prop where
  key : p'.key = p.key
  rows : arrRows s' p'.arr = sel.pos.map (fun i => (arrRows s p.arr)[i]?.getD [])
  dt : arrDt s' p'.arr = arrDt s p.arr
  trail : arrTrail s' p'.arr = arrTrail s p.arr
  fresh : (sel.view = false ∨ sel.pos.length = 1) → s.heap.length ≤ p'.arr.buf
  view : sel.view = true → sel.pos.length ≠ 1 → p'.arr = subArr p.arr sel

/-- **what `atoms[index]` returns.**  `o'` is a new object with one atom per selected position; for
    every property `p` of the operand it has a property of the same name, dtype and trailing shape whose
    row `j` is row `sel.pos[j]` of `p` (row alignment: every property is cut by the same positions);
    nothing that existed before is modified; for list / boolean indices (and single-row results, which
    numpy's length-1 broadcast copies) the new arrays live in buffers allocated by the call, for a
    basic slice they are the views `p.arr[sel]` of the operand's arrays. -/
structure GetItemRes (s : State) (o : Nat) (sel : Sel) (o' : Nat) (s' : State) : Prop where
  id : o' = s.objs.length
  natoms : (s'.obj o').natoms = sel.pos.length
  heap : HeapExt s s'
  objs : ∀ o'', o'' < s.objs.length → s'.obj o'' = s.obj o''
  objsLen : s'.objs.length = s.objs.length + 1
  syss : s'.syss = s.syss
  keys : (s'.obj o').keys = "atype" :: "pos" :: (s.obj o).keys.filter (fun k => k != "atype" && k != "pos")
  oob : sel.oob = false
  inRange : ∀ i ∈ sel.pos, i < (s.obj o).natoms
  cols : ∀ p ∈ (s.obj o).props, ∃ p' ∈ (s'.obj o').props, ColRel s sel s' p p'
  colsRev : ∀ p' ∈ (s'.obj o').props, ∃ p ∈ (s.obj o).props, ColRel s sel s' p p'

/-- what `Built` on the views of an operand means for the operand's properties. -/
theorem getItemRes_of_built {κ κ1 : Nat → String} {s s1 s' : State} (h : InvK κ s) (o : Nat) (sel : Sel)
    (hpos : ∀ p ∈ sel.pos, p < (s.obj o).natoms) (views : List PropRef)
    (hviews : All2 (fun p q => ViewOf s sel κ1 s1 p q) (s.obj o).props views) (hheap : HeapExt s s1)
    (hobjs : s1.objs = s.objs) (hsys : s1.syss = s.syss) (qa qp : PropRef)
    (hfa : views.find? (fun p => p.key == "atype") = some qa) (hfp : views.find? (fun p => p.key == "pos") = some qp)
    (hb : Built { s1 with objs := s1.objs ++ [⟨sel.pos.length, []⟩] } s1.objs.length (qa :: qp :: restOf views) s') :
    GetItemRes s o sel s.objs.length s' := by
  have hka : qa.key = "atype" := by simpa using List.find?_some hfa
  have hkp : qp.key = "pos" := by simpa using List.find?_some hfp
  have hqa : qa ∈ views := List.mem_of_find?_eq_some hfa
  have hqp : qp ∈ views := List.mem_of_find?_eq_some hfp
  have hvkeys : views.map (·.key) = (s.obj o).props.map (·.key) :=
    hviews.map_eq (·.key) (·.key) (fun _ _ hr => hr.key)
  have hnd : (views.map (·.key)).Nodup := by
    rw [hvkeys]
    by_cases ho : o < s.objs.length
    · exact h.nodup _ (obj_mem s o ho)
    · rw [obj_ge s o (Nat.le_of_not_lt ho)]; simp [emptyObj]
  have hlen : s1.objs.length = s.objs.length := by rw [hobjs]
  rw [hlen] at hb
  have hpkeys : (s'.obj s.objs.length).props.map (·.key) = (qa :: qp :: restOf views).map (·.key) :=
    hb.cols.map_eq (·.key) (·.key) (fun _ _ hr => hr.key)
  have hrel : ∀ p ∈ (s.obj o).props, ∀ q, ViewOf s sel κ1 s1 p q → ∀ p',
      ColOf { s1 with objs := s1.objs ++ [⟨sel.pos.length, []⟩] } s' q p' → ColRel s sel s' p p' := by
    intro p hp q hvo p' hcol
    have hpl : ∀ i ∈ sel.pos, i < p.arr.idx.length := by rw [(h.obj_props o p hp).len]; exact hpos
    refine ⟨hcol.key.trans hvo.key, ?_, hcol.dt.trans hvo.dt, hcol.trail.trans hvo.trail, ?_, ?_⟩
    · rw [hcol.rows]
      show arrRows s1 q.arr = _
      rw [hvo.rows, arrRows_subArr s p.arr sel hpl]
    · intro hc
      by_cases h1 : q.arr.idx.length = 1
      · exact Nat.le_trans hheap.len (hcol.fresh h1)
      · rw [hcol.same h1]
        rcases hc with hc | hc
        · exact hvo.copy hc
        · exact absurd (hvo.len.trans hc) h1
    · intro hv hne
      have h1 : q.arr.idx.length ≠ 1 := by rw [hvo.len]; exact hne
      rw [hcol.same h1]
      exact hvo.view hv
  have hoob : sel.oob = false := by
    obtain ⟨p, _, hv⟩ := hviews.mem_right qa hqa
    exact hv.oob
  refine ⟨rfl, ?_, hheap.trans hb.heap, ?_, ?_, hb.syss.trans hsys, ?_, hoob, hpos, ?_, ?_⟩
  · rw [hb.natoms, ← hlen, obj_push_eq]
  · intro o'' ho''
    rw [hb.objs o'' (Nat.ne_of_lt ho''), obj_push_lt _ _ _ (by rw [hlen]; exact ho'')]
    simp [State.obj, hobjs]
  · rw [hb.objsLen]; simp [hlen]
  · show (s'.obj s.objs.length).props.map (·.key) = _
    rw [hpkeys]
    simp only [List.map_cons, hka, hkp]
    congr 2
    simp only [restOf, AtomsObj.keys]
    rw [← hvkeys, List.filter_map]
    rfl
  · intro p hp
    obtain ⟨q, hq, hvo⟩ := hviews.mem_left p hp
    have hqin : q ∈ qa :: qp :: restOf views := by
      by_cases h1 : q.key = "atype"
      · have := eq_of_key_eq views hnd q qa hq hqa (h1.trans hka.symm)
        simp [this]
      · by_cases h2 : q.key = "pos"
        · have := eq_of_key_eq views hnd q qp hq hqp (h2.trans hkp.symm)
          simp [this]
        · simp only [List.mem_cons]
          right; right
          exact List.mem_filter.mpr ⟨hq, by simp [h1, h2]⟩
    obtain ⟨p', hp', hcol⟩ := hb.cols.mem_left q hqin
    exact ⟨p', hp', hrel p hp q hvo p' hcol⟩
  · intro p' hp'
    obtain ⟨q, hqin, hcol⟩ := hb.cols.mem_right p' hp'
    have hq : q ∈ views := by
      simp only [List.mem_cons] at hqin
      rcases hqin with rfl | rfl | hqin
      · exact hqa
      · exact hqp
      · exact (List.mem_filter.mp hqin).1
    obtain ⟨p, hp, hvo⟩ := hviews.mem_right q hq
    exact ⟨p, hp, hrel p hp q hvo p' hcol⟩

theorem views_len {s : State} {sel : Sel} {κ1 : Nat → String} {s1 : State} {props views : List PropRef}
    (hviews : All2 (fun p q => ViewOf s sel κ1 s1 p q) props views) :
    ∀ q ∈ views, SrcOK κ1 s1 q.key (.arr q.arr) ∧ q.arr.idx.length = sel.pos.length := by
  intro q hq
  obtain ⟨p, _, hv⟩ := hviews.mem_right q hq
  exact ⟨hv.src, hv.len⟩

theorem getItem_refines {κ : Nat → String} {s : State} (h : InvK κ s) (o : Nat) (ix : Index) (hap : HasAP (s.obj o)) :
    Post (getItem o ix) s (fun r s' => (∀ e, r = .error e → s' = s) ∧
      ∀ o', r = .ok o' → ∃ sel, resolve (s.obj o).natoms (atomsIndex ix) = .ok sel ∧ GetItemRes s o sel o' s') := by
  unfold getItem
  rw [post_atomic, post_bind_getS]
  simp only []
  rw [post_bind_liftE]
  cases hres : resolve (s.obj o).natoms (atomsIndex ix) with
  | error e =>
    refine ⟨fun _ _ => trivial, ?_⟩
    intro o' hc; cases hc
  | ok sel =>
    simp only []
    obtain ⟨hpos, _⟩ := resolve_ok _ _ _ hres
    rw [post_bind]
    apply Post.mono (getItem_views h o sel hpos (resolve_view_nodup _ _ _ hres))
    intro r s1 ⟨κ1, ⟨hinv1, hext1, hheap1, hobjs1, hsys1⟩, _, hall⟩
    cases r with
    | error e =>
      refine ⟨fun _ _ => trivial, ?_⟩
      intro o' hc; cases hc
    | ok views =>
      simp only []
      have hviews := hall views rfl
      -- the operand has `atype` and `pos`, hence so do the views
      obtain ⟨aa, haa⟩ := Option.isSome_iff_exists.mp hap.1
      obtain ⟨ap, hap'⟩ := Option.isSome_iff_exists.mp hap.2
      obtain ⟨pa, hpa, hpak, _⟩ := find_mem _ _ _ haa
      obtain ⟨pp, hpp, hppk, _⟩ := find_mem _ _ _ hap'
      obtain ⟨qa0, hqa0, hva⟩ := hviews.mem_left pa hpa
      obtain ⟨qp0, hqp0, hvp⟩ := hviews.mem_left pp hpp
      obtain ⟨qa, hfa⟩ := find?_of_key views "atype" qa0 hqa0 (hva.key.trans hpak)
      obtain ⟨qp, hfp⟩ := find?_of_key views "pos" qp0 hqp0 (hvp.key.trans hppk)
      have hvkeys : views.map (·.key) = (s.obj o).props.map (·.key) :=
        hviews.map_eq (·.key) (·.key) (fun _ _ hr => hr.key)
      have hnd : (views.map (·.key)).Nodup := by
        rw [hvkeys]
        by_cases ho : o < s.objs.length
        · exact h.nodup _ (obj_mem s o ho)
        · rw [obj_ge s o (Nat.le_of_not_lt ho)]; simp [emptyObj]
      apply Post.mono (mkAtoms_views_spec hinv1 views sel.pos.length (views_len hviews) hnd qa qp hfa hfp)
      intro r s2 ⟨herr, hok⟩
      cases r with
      | error e =>
        refine ⟨fun _ _ => trivial, ?_⟩
        intro o' hc; cases hc
      | ok o' =>
        refine ⟨?_, ?_⟩
        · intro e hc; cases hc
        · intro o'' ho''
          have : o'' = o' := by
            have : (Except.ok o' : Except Err Nat) = .ok o'' := ho''
            injection this with this; exact this.symm
          subst this
          obtain ⟨hid, hb⟩ := hok o'' rfl
          refine ⟨sel, rfl, ?_⟩
          have := getItemRes_of_built h o sel hpos views hviews hheap1 hobjs1 hsys1 qa qp hfa hfp hb
          rw [hid, hobjs1]
          exact this

/-! ### `__deepcopy__` refines "copy records" -/

/-- the selection of all rows, by copy. -/
def copySel (n : Nat) : Sel := { pos := List.range n, view := false, scalar := false }

theorem subArr_all (a : Arr) : subArr a (copySel a.idx.length) = a := by
  cases a with
  | mk buf idx =>
    simp only [subArr, copySel, Arr.mk.injEq, true_and]
    exact map_range_getD idx 0

theorem deepcopy_views {κ : Nat → String} {s : State} (h : InvK κ s) (o : Nat) :
    Post (mapEach (s.obj o).props (fun p => do
        let a ← alloc (arrDt s p.arr) (arrTrail s p.arr) (arrRows s p.arr)
        pure (⟨p.key, a⟩ : PropRef))) s
      (fun r s1 => ∃ κ1, (InvK κ1 s1 ∧ Ext κ s κ1 s1 ∧ HeapExt s s1 ∧ s1.objs = s.objs ∧ s1.syss = s.syss) ∧
        AExt κ s κ1 s1 ∧ ∀ views, r = .ok views →
          All2 (fun p q => ViewOf s (copySel (s.obj o).natoms) κ1 s1 p q) (s.obj o).props views) := by
  apply post_mapEach_ghost (s.obj o).props _
    (fun g st => InvK g st ∧ Ext κ s g st ∧ HeapExt s st ∧ st.objs = s.objs ∧ st.syss = s.syss)
    (fun p q g st => ViewOf s (copySel (s.obj o).natoms) g st p q) AExt
    (fun g st => ⟨Ext.refl g st, HeapExt.refl st⟩)
    (fun _ _ _ _ _ _ h1 h2 => ⟨h1.1.trans h2.1, h1.2.trans h2.2⟩)
    (fun _ _ _ _ _ _ hr he => hr.mono he)
  · intro p hp g st ⟨hg, hge, hgh, hgo, hgs⟩
    have hp0 := h.obj_props o p hp
    rw [post_bind]
    apply Post.of_eq _ _ (alloc_eq _ _ _ st)
    simp only []
    rw [post_pure]
    have hbuf : BufOK ⟨arrDt s p.arr, arrTrail s p.arr, arrRows s p.arr⟩ := arrRows_bufOK h hp0.valid
    obtain ⟨hinv1, hext1⟩ := inv_alloc hg _ hbuf p.key
    have hx := heapExt_alloc st ⟨arrDt s p.arr, arrTrail s p.arr, arrRows s p.arr⟩
    refine ⟨_, ⟨hinv1, hge.trans hext1, hgh.trans hx, hgo, hgs⟩, ⟨hext1, hx⟩, ?_⟩
    intro c hc
    have : c = ⟨p.key, ⟨st.heap.length, List.range (arrRows s p.arr).length⟩⟩ := by
      have : (Except.ok ⟨p.key, ⟨st.heap.length, List.range (arrRows s p.arr).length⟩⟩ : Except Err PropRef) = .ok c := hc
      injection this with this; exact this.symm
    subst this
    have hlen : (arrRows s p.arr).length = (s.obj o).natoms := by simp [arrRows, hp0.len]
    have hsub : subArr p.arr (copySel (s.obj o).natoms) = p.arr := by rw [← hp0.len]; exact subArr_all p.arr
    have hnoview : (copySel (s.obj o).natoms).view = true →
        (⟨st.heap.length, List.range (arrRows s p.arr).length⟩ : Arr) = subArr p.arr (copySel (s.obj o).natoms) := by
      intro hc; simp [copySel] at hc
    refine ⟨rfl, ⟨⟨by simp, ?_⟩, by simp [upd], List.nodup_range⟩, by simp [copySel, hlen], ?_, ?_, ?_, hnoview, fun _ => hgh.len, rfl⟩
    · intro i hi
      rw [buf_append_eq]
      simpa using hi
    · show (List.range (arrRows s p.arr).length).map (fun i =>
          (({ st with heap := st.heap ++ [⟨arrDt s p.arr, arrTrail s p.arr, arrRows s p.arr⟩] } : State).buf
            st.heap.length).rows[i]?.getD []) = _
      rw [buf_append_eq, hsub]
      exact map_range_getD (arrRows s p.arr) []
    · simp only [arrDt, buf_append_eq]
    · simp only [arrTrail, buf_append_eq]
  · exact ⟨h, Ext.refl κ s, HeapExt.refl s, rfl, rfl⟩

/-- **what `deepcopy(atoms)` returns**: `GetItemRes` for the selection of all rows by copy — same
    `natoms`, every property with the same name, dtype, trailing shape and rows, in buffers allocated by
    the call; nothing that existed before is modified. -/
theorem deepcopy_refines {κ : Nat → String} {s : State} (h : InvK κ s) (o : Nat) (hap : HasAP (s.obj o)) :
    Post (deepcopy o) s (fun r s' => (∀ e, r = .error e → s' = s) ∧
      ∀ o', r = .ok o' → GetItemRes s o (copySel (s.obj o).natoms) o' s') := by
  unfold deepcopy
  rw [post_atomic, post_bind_getS]
  simp only []
  rw [post_bind]
  apply Post.mono (deepcopy_views h o)
  intro r s1 ⟨κ1, ⟨hinv1, hext1, hheap1, hobjs1, hsys1⟩, _, hall⟩
  cases r with
  | error e =>
    refine ⟨fun _ _ => trivial, ?_⟩
    intro o' hc; cases hc
  | ok views =>
    simp only []
    have hviews := hall views rfl
    obtain ⟨aa, haa⟩ := Option.isSome_iff_exists.mp hap.1
    obtain ⟨ap, hap'⟩ := Option.isSome_iff_exists.mp hap.2
    obtain ⟨pa, hpa, hpak, _⟩ := find_mem _ _ _ haa
    obtain ⟨pp, hpp, hppk, _⟩ := find_mem _ _ _ hap'
    obtain ⟨qa0, hqa0, hva⟩ := hviews.mem_left pa hpa
    obtain ⟨qp0, hqp0, hvp⟩ := hviews.mem_left pp hpp
    obtain ⟨qa, hfa⟩ := find?_of_key views "atype" qa0 hqa0 (hva.key.trans hpak)
    obtain ⟨qp, hfp⟩ := find?_of_key views "pos" qp0 hqp0 (hvp.key.trans hppk)
    have hvkeys : views.map (·.key) = (s.obj o).props.map (·.key) :=
      hviews.map_eq (·.key) (·.key) (fun _ _ hr => hr.key)
    have hnd : (views.map (·.key)).Nodup := by
      rw [hvkeys]
      by_cases ho : o < s.objs.length
      · exact h.nodup _ (obj_mem s o ho)
      · rw [obj_ge s o (Nat.le_of_not_lt ho)]; simp [emptyObj]
    have hcl : (copySel (s.obj o).natoms).pos.length = (s.obj o).natoms := by simp [copySel]
    have hvl := views_len hviews
    rw [hcl] at hvl
    apply Post.mono (mkAtoms_views_spec hinv1 views (s.obj o).natoms hvl hnd qa qp hfa hfp)
    intro r s2 ⟨herr, hok⟩
    cases r with
    | error e =>
      refine ⟨fun _ _ => trivial, ?_⟩
      intro o' hc; cases hc
    | ok o' =>
      refine ⟨?_, ?_⟩
      · intro e hc; cases hc
      · intro o'' ho''
        have : o'' = o' := by
          have : (Except.ok o' : Except Err Nat) = .ok o'' := ho''
          injection this with this; exact this.symm
        subst this
        obtain ⟨hid, hb⟩ := hok o'' rfl
        have hpos : ∀ p ∈ (copySel (s.obj o).natoms).pos, p < (s.obj o).natoms := by
          intro p hp; simpa [copySel] using hp
        rw [← hcl] at hb
        have := getItemRes_of_built h o (copySel (s.obj o).natoms) hpos views hviews hheap1 hobjs1 hsys1 qa qp hfa hfp hb
        rw [hid, hobjs1]
        exact this

/-- the rows selected by `copySel` are all the rows, in order. -/
theorem copySel_rows (s : State) (a : Arr) :
    (copySel a.idx.length).pos.map (fun i => (arrRows s a)[i]?.getD []) = arrRows s a := by
  have : (arrRows s a).length = a.idx.length := by simp [arrRows]
  simp only [copySel]
  rw [← this]
  exact map_range_getD _ _

end Atomman.C06
