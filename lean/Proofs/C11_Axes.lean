/-
  C11 — `axes_check` / `transform` for axis vectors of ANY length: the axes are directions.  `transform` rotates with
  the NORMALISED rows, whatever lengths are handed in (far from 1, a hair off 1, typed decimals), refuses left-handed
  triples at every sensible `tol`, and is unchanged when the rows are rescaled.
-/
import Proofs.C11_Setters

namespace Atomman.C11
open Atomman.Gen
set_option linter.unusedSectionVars false
set_option linter.unusedSimpArgs false
set_option linter.unusedVariables false

variable {K : Type} [Field K] [LinearOrder K] [IsStrictOrderedRing K]

/-- `axes_check` sees its argument only through the rows divided by their lengths. -/
theorem axesCheckT_congr (tol : K) (axes axes' : M33 K) (norms norms' : Fin 3 → K)
    (h : ∀ i j, axes i j / norms i = axes' i j / norms' i) :
    axesCheckT tol axes norms = axesCheckT tol axes' norms' := by
  rw [gen_axesCheck_eq_model, gen_axesCheck_eq_model]
  simp only [axesCheckRef, h]

/-- **axes are directions**: multiplying each axis vector by its own non-zero factor (its length is multiplied by the
    same factor) changes nothing in what `axes_check` returns or refuses. -/
theorem axesCheck_scale_invariant (tol : K) (axes : M33 K) (norms a : Fin 3 → K) (ha : ∀ i, a i ≠ 0) :
    axesCheckT tol (fun i j => a i * axes i j) (fun i => a i * norms i) = axesCheckT tol axes norms :=
  axesCheckT_congr tol _ _ _ _ fun i j => mul_div_mul_left _ _ (ha i)

/-- `transform` does not depend on the lengths of the axis vectors. -/
theorem transform_axes_scale_invariant (tol : K) (axes : M33 K) (norms a : Fin 3 → K) (ha : ∀ i, a i ≠ 0) (c : M6 K) :
    transform tol (fun i j => a i * axes i j) (fun i => a i * norms i) c = transform tol axes norms c := by
  simp only [transform, axesCheck, axesCheck_scale_invariant axesCheckTol axes norms a ha]

/-- the unit vectors of the rows. -/
def unitRows (axes : M33 K) (norms : Fin 3 → K) : M33 K := fun i j => axes i j / norms i

section normalised
variable (axes : M33 K) (norms : Fin 3 → K)
  (hn : ∀ i, 0 < norms i)
  (hsq : ∀ i, norms i * norms i = sum3 fun k => axes i k * axes i k)
  (ho : ∀ i j, i ≠ j → (sum3 fun k => axes i k * axes j k) = 0)
  (hr : (axes 0 1 * axes 1 2 - axes 0 2 * axes 1 1) * norms 2 = axes 2 0 * (norms 0 * norms 1) ∧
        (axes 0 2 * axes 1 0 - axes 0 0 * axes 1 2) * norms 2 = axes 2 1 * (norms 0 * norms 1) ∧
        (axes 0 0 * axes 1 1 - axes 0 1 * axes 1 0) * norms 2 = axes 2 2 * (norms 0 * norms 1))
include hn hsq ho

/-- mutually orthogonal rows divided by their lengths form an orthogonal matrix. -/
theorem unitRows_orthogonal : Orthogonal (unitRows axes norms) := by
  funext i j
  have hi := ne_of_gt (hn i); have hj := ne_of_gt (hn j)
  simp only [mmul, mtr, mone, unitRows]
  by_cases h : i = j
  · subst h
    have := hsq i
    simp only [sum3] at this ⊢
    simp only [if_true]
    field_simp
    linarith
  · have := ho i j h
    simp only [sum3] at this ⊢
    simp only [if_neg h]
    field_simp
    linarith

include hr

/-- orthogonal right-handed axis vectors of any lengths pass `axes_check` at every `tol ≥ 0`, and what it returns are
    their unit vectors. -/
theorem axesCheck_normalises (tol : K) (ht : 0 ≤ tol) :
    axesCheckT tol axes norms = .ok (unitRows axes norms) := by
  have h0 := ne_of_gt (hn 0); have h1 := ne_of_gt (hn 1); have h2 := ne_of_gt (hn 2)
  have hO := unitRows_orthogonal axes norms hn hsq ho
  have horth : ∀ i j, (sum3 fun k => unitRows axes norms i k * unitRows axes norms j k) = if i = j then 1 else 0 := by
    intro i j
    have := congrFun (congrFun hO i) j
    simpa [mmul, mtr, mone] using this
  rw [gen_axesCheck_eq_model]
  simp only [axesCheckRef]
  change (if ¬ idx3.all (fun p => isclose npRtol tol
      (sum3 fun k => unitRows axes norms p.1 k * unitRows axes norms p.2 k)
      (if p.1 = p.2 then ((1 : Nat) : K) else ((0 : Nat) : K))) = true then _ else _) = _
  rw [if_neg, if_neg]
  · rfl
  · rw [not_not, List.all_eq_true]
    intro j _
    have : (if j.val = 0 then axes 0 1 / norms 0 * (axes 1 2 / norms 1) - axes 0 2 / norms 0 * (axes 1 1 / norms 1)
        else if j.val = 1 then axes 0 2 / norms 0 * (axes 1 0 / norms 1) - axes 0 0 / norms 0 * (axes 1 2 / norms 1)
        else axes 0 0 / norms 0 * (axes 1 1 / norms 1) - axes 0 1 / norms 0 * (axes 1 0 / norms 1))
          = axes 2 j / norms 2 := by
      obtain ⟨r0, r1, r2⟩ := hr
      fin_cases j <;> simp <;> field_simp <;> linarith
    rw [this]; exact isclose_self _ _ _ npRtol_nonneg ht
  · rw [not_not, List.all_eq_true]
    intro p _
    rw [horth p.1 p.2]
    simp only [Nat.cast_one, Nat.cast_zero]
    exact isclose_self _ _ _ npRtol_nonneg ht

/-- **rotation = tensor rotation by the normalised axes**: for orthogonal right-handed axis vectors of any lengths
    `transform` is the tensor rotation `rot` by their unit vectors (an orthogonal matrix: all the group-action, energy
    and moduli theorems apply to it), the relative clean-up and the `Cijkl` setter. -/
theorem transform_rotates_by_unit_axes (tol : K) (c : M6 K) :
    Orthogonal (unitRows axes norms) ∧
    transform tol axes norms c
      = setCijkl (cleanT4 tol (max4 (rot (unitRows axes norms) (cijklGet c))) (rot (unitRows axes norms) (cijklGet c))) :=
  ⟨unitRows_orthogonal axes norms hn hsq ho,
   transform_spec tol axes norms c _ (axesCheck_normalises axes norms hn hsq ho hr axesCheckTol
     (by unfold axesCheckTol; positivity))⟩

end normalised

/-- non-vacuity: the integer directions `[2,1,2], [-2,2,1], [-1,-2,2]` (rows of length 3) -/
example : let axes : M33 ℚ := m33 [2, 1, 2, -2, 2, 1, -1, -2, 2]
    (∀ i, (0 : ℚ) < (fun _ => 3 : Fin 3 → ℚ) i) ∧ (∀ i : Fin 3, (3 : ℚ) * 3 = sum3 fun k => axes i k * axes i k) ∧
    (∀ i j : Fin 3, i ≠ j → (sum3 fun k => axes i k * axes j k) = 0) ∧
    (axes 0 1 * axes 1 2 - axes 0 2 * axes 1 1) * 3 = axes 2 0 * (3 * 3) := by
  refine ⟨fun _ => by norm_num, by decide +kernel, by decide +kernel, by decide +kernel⟩

/-! ### refusal of left-handed axes -/

theorem absK_eq_abs (x : K) : absK x = |x| := by
  unfold absK
  simp only [Nat.cast_zero]
  split
  · rename_i h; rw [abs_of_neg h]
  · rename_i h; rw [abs_of_nonneg (not_lt.mp h)]

theorem npRtol_le_one : (npRtol : K) ≤ 1 := by
  unfold npRtol
  rw [div_le_one (by positivity)]
  norm_num

/-- `np.isclose(-x, x, atol=tol)` fails for `|x| ≥ 1/2` at every `tol < 1/2`. -/
theorem isclose_neg_false (tol x : K) (ht : tol < 1 / 2) (hx : 1 / 2 ≤ |x|) : isclose npRtol tol (-x) x = false := by
  simp only [isclose, decide_eq_false_iff_not, absK_eq_abs, not_le]
  have h1 : |(-x) - x| = 2 * |x| := by
    rw [show -x - x = -(2 * x) by ring, abs_neg, abs_mul]; norm_num
  rw [h1]
  have := npRtol_le_one (K := K)
  have h0 := abs_nonneg x
  nlinarith

/-- **left-handed axes are refused**: an orthonormal triple whose third vector is MINUS the cross product of the
    first two is refused by `axes_check` with `ValueError` at every `tol < 1/2` (whatever the lengths of the vectors
    handed in: `axesCheckT_congr`). -/
theorem axesCheck_refuses_left_handed (tol : K) (ht : tol < 1 / 2) (u : M33 K) (hO : Orthogonal u)
    (hl : u 0 1 * u 1 2 - u 0 2 * u 1 1 = -u 2 0 ∧ u 0 2 * u 1 0 - u 0 0 * u 1 2 = -u 2 1 ∧
      u 0 0 * u 1 1 - u 0 1 * u 1 0 = -u 2 2) :
    axesCheckT tol u (fun _ => 1) = .error "value" := by
  rw [gen_axesCheck_eq_model]
  simp only [axesCheckRef, div_one]
  split
  · rfl
  · rw [if_pos]
    rw [List.all_eq_true]
    push Not
    have h22 : u 2 0 * u 2 0 + u 2 1 * u 2 1 + u 2 2 * u 2 2 = 1 := by
      have := congrFun (congrFun hO 2) 2
      simpa [mmul, mtr, mone, sum3] using this
    have hex : ∃ j : Fin 3, 1 / 2 ≤ |u 2 j| := by
      by_contra hc
      push Not at hc
      have a0 := hc 0; have a1 := hc 1; have a2 := hc 2
      have s0 : u 2 0 * u 2 0 < 1 / 4 := by
        rw [← abs_mul_abs_self]; nlinarith [abs_nonneg (u 2 0)]
      have s1 : u 2 1 * u 2 1 < 1 / 4 := by
        rw [← abs_mul_abs_self]; nlinarith [abs_nonneg (u 2 1)]
      have s2 : u 2 2 * u 2 2 < 1 / 4 := by
        rw [← abs_mul_abs_self]; nlinarith [abs_nonneg (u 2 2)]
      linarith
    obtain ⟨j, hj⟩ := hex
    refine ⟨j, List.mem_finRange j, ?_⟩
    have : (if j.val = 0 then u 0 1 * u 1 2 - u 0 2 * u 1 1
        else if j.val = 1 then u 0 2 * u 1 0 - u 0 0 * u 1 2
        else u 0 0 * u 1 1 - u 0 1 * u 1 0) = -u 2 j := by
      fin_cases j <;> simp [hl.1, hl.2.1, hl.2.2]
    rw [this, isclose_neg_false tol _ ht hj]
    simp

/-- non-vacuity: the identity with its third vector reversed. -/
example : let u : M33 ℚ := m33 [1, 0, 0, 0, 1, 0, 0, 0, -1]
    Orthogonal u ∧ u 0 0 * u 1 1 - u 0 1 * u 1 0 = -u 2 2 := by
  refine ⟨by unfold Orthogonal; funext i j; fin_cases i <;> fin_cases j <;> decide +kernel, by decide +kernel⟩

end Atomman.C11
