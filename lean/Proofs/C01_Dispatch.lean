/-
  C01 — re-defining an existing Box, and the keyword dispatch of `Box.set`.

  (second hardening round)  The class of change "a cell-defining call keeps something of the cell the object
  had before" (e.g. `set_abc` without `origin` keeping the old origin) is a statement about the *object*:
  every call that defines a whole cell yields the same object whatever it is applied to — in particular what
  a new `Box()` given the same definition is; `origin = …` keeps the vectors, `vects = …` keeps the origin,
  `set()` is the unit cell at the origin, and a refused call changes nothing.
  `setOutcome` (Atomman/C01.lean) is the `if / elif` chain of `Box.set` together with Python's keyword-call
  rule; it accepts exactly the documented parameter sets.
-/
import Proofs.C01_Lemmas
import Mathlib.Tactic.NormNum

namespace Atomman.C01
open Atomman
set_option linter.unusedSimpArgs false
set_option linter.unusedSectionVars false
set_option linter.unusedVariables false

section redefinition
variable {K : Type} [Field K] [LinearOrder K] [IsStrictOrderedRing K]

/-- the calls that define a whole cell: everything except the two attribute setters. -/
def SetOp.definesCell : SetOp K → Bool
  | .attrVects _ => false
  | .attrOrigin _ => false
  | _ => true

/-- a cell-defining call does not look at the cell the object had: vectors *and origin* (the documented
    default `(0,0,0)` where `origin` is omitted) are those of the definition alone. -/
theorem redefine_forgets_previous_cell (thr : K) (s : SetOp K) (h : s.definesCell = true) (b b' : Box K) :
    s.apply? thr b = s.apply? thr b' := by
  cases s <;> first | rfl | simp [SetOp.definesCell] at h

/-- … hence re-defining an existing object (any cell, any origin, reciprocal vectors cached or not) gives
    the object a new `Box()` given the same definition is, and is refused exactly when that is refused. -/
theorem obj_redefine_eq_fresh (thr : K) (s : SetOp K) (h : s.definesCell = true) (c : CBox K) :
    (c.set thr s).2 = ((CBox.fresh : CBox K).set thr s).2 ∧
    ((c.set thr s).2 = .ok → (c.set thr s).1 = ((CBox.fresh : CBox K).set thr s).1) := by
  have e := redefine_forgets_previous_cell thr s h c.box (CBox.fresh : CBox K).box
  have w : s.writesVects = true := by cases s <;> first | rfl | simp [SetOp.definesCell] at h
  unfold CBox.set
  rw [e]
  cases s.apply? thr (CBox.fresh : CBox K).box <;> simp [w]

/-- a refused call (`AssertionError` / `ValueError` before anything is written) leaves the object as it was. -/
theorem obj_rejected_unchanged (thr : K) (c : CBox K) (s : SetOp K) (h : (c.set thr s).2 = .rejected) :
    (c.set thr s).1 = c := by
  unfold CBox.set at h ⊢
  cases hs : s.apply? thr c.box <;> simp_all

/-- `box.origin = o` / `set(origin=o)`: the vectors (and what is cached for them) stay. -/
theorem origin_only_keeps_vects (thr : K) (c : CBox K) (o : V3 K) :
    (c.set thr (.attrOrigin o)).1.box.vects = c.box.vects ∧ (c.set thr (.attrOrigin o)).1.box.origin = o ∧
    (c.set thr (.attrOrigin o)).1.cache = c.cache := by
  simp [CBox.set, SetOp.apply?, setOriginAttr, SetOp.writesVects]

/-- `box.vects = v`: the origin stays. -/
theorem vects_only_keeps_origin (thr : K) (c : CBox K) (v : M3 K) :
    (c.set thr (.attrVects v)).1.box.origin = c.box.origin := by
  simp [CBox.set, SetOp.apply?, setVectsAttr, SetOp.writesVects]

/-- `set()` without arguments: the unit cell at the origin, whatever the object was (threshold below 1). -/
theorem reset_is_unit_cell (thr : K) (h0 : 0 ≤ thr) (h1 : thr < 1) (c : CBox K) :
    (c.set thr .reset).1 = ⟨⟨M3.one, ⟨0, 0, 0⟩⟩, none⟩ ∧ (c.set thr .reset).2 = .ok := by
  have hm : maxAbs (⟨⟨1, 0, 0⟩, ⟨0, 1, 0⟩, ⟨0, 0, 1⟩⟩ : M3 K) = 1 := by
    simp [maxAbs, absK_eq_abs, maxK_eq_max]
  have hc : cleanVects thr (M3.one : M3 K) = M3.one := by
    simp only [cleanVects, M3.one, hm, cleanV, cleanEntry, absK_eq_abs, abs_zero, abs_one, mul_one]
    simp [h0, not_le.mpr h1]
  simp [CBox.set, SetOp.apply?, setVects, hc, SetOp.writesVects]

example : ∃ thr : ℚ, 0 ≤ thr ∧ thr < 1 := ⟨1 / 1000000000, by norm_num, by norm_num⟩

/-- non-vacuity / necessity: the attribute setters *do* depend on the previous cell. -/
example : ∃ (b b' : Box ℚ), (SetOp.attrOrigin ⟨1, 2, 3⟩ : SetOp ℚ).apply? 0 b ≠ (SetOp.attrOrigin ⟨1, 2, 3⟩).apply? 0 b' :=
  ⟨⟨M3.one, ⟨0, 0, 0⟩⟩, ⟨⟨⟨2, 0, 0⟩, ⟨0, 2, 0⟩, ⟨0, 0, 2⟩⟩, ⟨0, 0, 0⟩⟩, by decide +kernel⟩

/-- the volume of a non-degenerate cell is positive, whatever the handedness (`|det|`, not `det`). -/
theorem volume_pos_of_det_ne_zero (b : Box K) (h : b.vects.det ≠ 0) : 0 < volume b := by
  have : volume b = |b.vects.det| := by simp only [volume, absK_eq_abs, M3.det]
  rw [this]; exact abs_pos.mpr h

example : ∃ b : Box ℚ, b.vects.det < 0 ∧ 0 < volume b :=
  ⟨⟨⟨⟨-2, 0, 0⟩, ⟨0, 2, 0⟩, ⟨0, 0, 2⟩⟩, ⟨0, 0, 0⟩⟩, by decide +kernel, by decide +kernel⟩

end redefinition

/-! ### `Box.set(**kwargs)`: which keyword sets are which parameter set -/

theorem sigAccepts_iff (sig : Sig) (kws : List String) :
    sigAccepts sig kws = true ↔ (∀ k ∈ kws, k ∈ sig.names) ∧ (∀ r ∈ sig.required, r ∈ kws) := by
  simp [sigAccepts, List.all_eq_true]

/-- no keywords ⇔ the unit cell. -/
theorem set_dispatch_unit_iff (kws : List String) : setOutcome kws = .ok .unit ↔ kws = [] := by
  constructor
  · intro h
    by_contra hne
    have : kws.isEmpty = false := by cases kws <;> simp_all
    unfold setOutcome at h
    rw [this] at h
    simp only [Bool.false_eq_true, ↓reduceIte] at h
    split at h
    · cases h
    · rename_i k f hfind
      have hmem := List.mem_of_find?_eq_some hfind
      have : f ≠ .unit := by
        simp [setChain] at hmem
        rcases hmem with h | h | h | h | h | h <;> (rw [h.2]; decide)
      split at h
      · cases h; exact this rfl
      · cases f <;> simp_all
  · rintro rfl; rfl

/-- soundness: whatever `Box.set` accepts as parameter set `f` consists of keywords of `f` only and
    contains all of its mandatory ones — nothing is silently ignored, no second family is mixed in. -/
theorem set_dispatch_sound (kws : List String) (f : SetFamily) (hf : f ≠ .unit)
    (h : setOutcome kws = .ok f) : (∀ k ∈ kws, k ∈ f.sig.names) ∧ (∀ r ∈ f.sig.required, r ∈ kws) := by
  unfold setOutcome at h
  split at h
  · cases h; exact absurd rfl hf
  · split at h
    · cases h
    · rename_i k g hfind
      split at h
      · rename_i hacc
        cases h
        exact (sigAccepts_iff _ _).mp hacc
      · cases g <;> simp at h

/-- completeness: every documented parameter set — all mandatory keywords of `f`, any of its optional
    ones (`origin`, the tilts, the angles), nothing else — is dispatched to `f`. -/
theorem set_dispatch_complete (kws : List String) (f : SetFamily) (hf : f ≠ .unit)
    (hsub : ∀ k ∈ kws, k ∈ f.sig.names) (hreq : ∀ r ∈ f.sig.required, r ∈ kws) :
    setOutcome kws = .ok f := by
  have hacc : sigAccepts f.sig kws = true := (sigAccepts_iff _ _).mpr ⟨hsub, hreq⟩
  have notin : ∀ k, k ∉ f.sig.names → (kws.contains k) = false := by
    intro k hk
    simp only [List.contains_eq_mem, decide_eq_false_iff_not]
    exact fun hmem => hk (hsub k hmem)
  have isin : ∀ r, r ∈ f.sig.required → (kws.contains r) = true := by
    intro r hr
    simp only [List.contains_eq_mem, decide_eq_true_eq]
    exact hreq r hr
  cases f with
  | unit => exact absurd rfl hf
  | vects =>
    have h1 := isin "vects" (by decide)
    have hne : kws.isEmpty = false := by cases kws <;> simp_all
    simp only [setOutcome, hne, setChain, List.find?, h1, hacc]; simp
  | vectors =>
    have h0 := notin "vects" (by decide)
    have h1 := isin "avect" (by decide)
    have hne : kws.isEmpty = false := by cases kws <;> simp_all
    simp only [setOutcome, hne, setChain, List.find?, h0, h1, hacc]; simp
  | lengths =>
    have h0 := notin "vects" (by decide)
    have h0' := notin "avect" (by decide)
    have h1 := isin "lx" (by decide)
    have hne : kws.isEmpty = false := by cases kws <;> simp_all
    simp only [setOutcome, hne, setChain, List.find?, h0, h0', h1, hacc]; simp
  | hilos =>
    have h0 := notin "vects" (by decide)
    have h0' := notin "avect" (by decide)
    have h0'' := notin "lx" (by decide)
    have h1 := isin "xlo" (by decide)
    have hne : kws.isEmpty = false := by cases kws <;> simp_all
    simp only [setOutcome, hne, setChain, List.find?, h0, h0', h0'', h1, hacc]; simp
  | abc =>
    have h0 := notin "vects" (by decide)
    have h0' := notin "avect" (by decide)
    have h0'' := notin "lx" (by decide)
    have h0''' := notin "xlo" (by decide)
    have h1 := isin "a" (by decide)
    have hne : kws.isEmpty = false := by cases kws <;> simp_all
    simp only [setOutcome, hne, setChain, List.find?, h0, h0', h0'', h0''', h1, hacc]; simp
  | origin =>
    have h0 := notin "vects" (by decide)
    have h0' := notin "avect" (by decide)
    have h0'' := notin "lx" (by decide)
    have h0''' := notin "xlo" (by decide)
    have h0'''' := notin "a" (by decide)
    have h1 := isin "origin" (by decide)
    have hne : kws.isEmpty = false := by cases kws <;> simp_all
    simp only [setOutcome, hne, setChain, List.find?, h0, h0', h0'', h0''', h0'''', h1, hacc]; simp

/-- examples: the documented sets with and without optional keywords, and what is refused. -/
example : setOutcome ["a", "b", "c", "gamma"] = .ok .abc ∧ setOutcome ["origin", "lz", "ly", "lx", "yz"] = .ok .lengths ∧
    setOutcome ["vects", "lx"] = .errAssert ∧ setOutcome ["a", "b", "c", "lx"] = .errType ∧
    setOutcome ["lx", "ly", "xy"] = .errType ∧ setOutcome ["foo"] = .errType ∧ setOutcome ["origin", "foo"] = .errAssert := by
  decide

/-- a positional call binds the parameters in the documented order (what `set_abc(a, b, c, 80, 95, 100)` means). -/
theorem positional_order :
    sigAbc.positional 6 = ["a", "b", "c", "alpha", "beta", "gamma"] ∧
    sigLengths.positional 7 = ["lx", "ly", "lz", "xy", "xz", "yz", "origin"] ∧
    sigHiLos.positional 9 = ["xlo", "xhi", "ylo", "yhi", "zlo", "zhi", "xy", "xz", "yz"] ∧
    sigVectors.positional 4 = ["avect", "bvect", "cvect", "origin"] := by decide

end Atomman.C01
