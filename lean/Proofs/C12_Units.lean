/-
  C12 — units and object-level statements (hardening round 2).

  * the same physical problem in another length unit (Burgers vector and field points times `t`) and in another stiffness
    unit (`C` times `c`): how the eigen-solution, the field coefficients, `K_tensor`, the displacement jump and the
    solver's own acceptance test transform (`length_unit_covariant`, `length_unit_displacement`, `stiffness_unit_eigen`,
    `stiffness_unit_covariant`, `stroh_checks_unit_invariant`);
  * the object model of `Atomman/C12.lean` (`World`: the caller's argument objects, one coordinate array, the solved
    object): after any history of in-place edits a read is the field of the problem as solved at the array's current
    contents (`history_read`, `arg_edits_invisible`, `scale_edit_read`).
-/
import Atomman.C12
import Proofs.C12_Lemmas
import Mathlib.Tactic.Ring
import Mathlib.Tactic.FieldSimp
import Mathlib.Tactic.LinearCombination
import Mathlib.Tactic.FinCases
import Mathlib.Tactic.NormNum
import Mathlib.Algebra.Field.Basic
import Mathlib.Algebra.CharZero.Defs

namespace Atomman.C12
set_option linter.unusedSimpArgs false
set_option linter.unusedSectionVars false
set_option linter.unusedVariables false

section units
variable {F : Type} [Field F] [CharZero F]

/-- the same problem in another length unit: the Burgers vector (and every field point) times `t`. -/
def lenSetup (t : F) (s : Setup F) : Setup F := ⟨s.C, s.m, s.n, fun i => t * s.b i⟩
/-- the same problem in another stiffness unit: `C` times `c`; the eigenvectors keep `A`, their `L` part takes the
    unit of `C` (`stiffMode`), the normalisation `k = 1/(2 A·L)` its inverse. -/
def stiffSetup (c : F) (s : Setup F) : Setup F := ⟨fun i j k l => c * s.C i j k l, s.m, s.n, s.b⟩
def stiffMode (c : F) (μ : Mode F) : Mode F := ⟨μ.p, μ.A, fun i => c * μ.L i⟩

theorem length_unit_covariant (pi I : F) (s : Setup F) (μ : Fin 6 → Mode F) (k : Fin 6 → F) (t : F) (ht : t ≠ 0)
    (x : Vec F) (hx : ∀ a, eta s (μ a) x ≠ 0) :
    (∀ a i, dispCoef pi I (lenSetup t s) μ k a i = t * dispCoef pi I s μ k a i)
    ∧ (∀ i j, strainAt pi I (lenSetup t s) μ k (fun c => t * x c) i j = strainAt pi I s μ k x i j)
    ∧ (∀ i j, stressAt pi I (lenSetup t s) μ k (fun c => t * x c) i j = stressAt pi I s μ k x i j)
    ∧ (∀ i, dispJump pi I (lenSetup t s) μ k i = t * dispJump pi I s μ k i) := by
  have e : ∀ a, eta (lenSetup t s) (μ a) (fun c => t * x c) = t * eta s (μ a) x := by
    intro a; simp only [eta, dot, sum3, lenSetup]; ring
  have := hx 0; have := hx 1; have := hx 2; have := hx 3; have := hx 4; have := hx 5
  refine ⟨fun a i => ?_, fun i j => ?_, fun i j => ?_, fun i => ?_⟩
  · simp only [dispCoef, kLb, lenSetup, dot, sum3]; ring
  · simp only [strainAt, sum6, e]
    simp only [strainCoef, kLb, lenSetup, dot, sum3, mpn]
    field_simp
  · simp only [stressAt, sum6, e]
    simp only [stressCoef, kLb, lenSetup, dot, sum3, mpn]
    field_simp
  · simp only [dispJump, dispAt, sum6, dispCoef, kLb, lenSetup, dot, sum3]; ring

/-- displacement differences are homogeneous of degree 1: with `ln η(t x) = ln η(x) + λ` (`λ = ln t` for the principal
    logarithm and a positive real `t`) for every mode and point, `u(t x) − u(t x₀) = t (u(x) − u(x₀))`; the displacement
    itself changes by the rigid translation `t λ Σₐ dispCoef a`. -/
theorem length_unit_displacement (pi I : F) (s : Setup F) (μ : Fin 6 → Mode F) (k : Fin 6 → F) (t lam : F)
    (l l0 : Fin 6 → F) (i : Fin 3) :
    dispAt pi I (lenSetup t s) μ k (fun a => l a + lam) i - dispAt pi I (lenSetup t s) μ k (fun a => l0 a + lam) i
      = t * (dispAt pi I s μ k l i - dispAt pi I s μ k l0 i) := by
  simp only [dispAt, sum6, dispCoef, kLb, lenSetup, dot, sum3]; ring

theorem stiff_mm (c : F) (s : Setup F) (i j : Fin 3) : (stiffSetup c s).mm i j = c * s.mm i j := by
  simp only [Setup.mm, contract, stiffSetup, sum3]; ring
theorem stiff_mn (c : F) (s : Setup F) (i j : Fin 3) : (stiffSetup c s).mn i j = c * s.mn i j := by
  simp only [Setup.mn, contract, stiffSetup, sum3]; ring
theorem stiff_nm (c : F) (s : Setup F) (i j : Fin 3) : (stiffSetup c s).nm i j = c * s.nm i j := by
  simp only [Setup.nm, contract, stiffSetup, sum3]; ring
theorem stiff_nn (c : F) (s : Setup F) (i j : Fin 3) : (stiffSetup c s).nn i j = c * s.nn i j := by
  simp only [Setup.nn, contract, stiffSetup, sum3]; ring

theorem stiff_NA (c : F) (hc : c ≠ 0) (s : Setup F) (nnInv : Mat F) (i j : Fin 3) :
    NA (stiffSetup c s) (fun a b => nnInv a b / c) i j = NA s nnInv i j := by
  simp only [NA, NB, matMul, sum3, stiff_nm]; field_simp
theorem stiff_ND (c : F) (hc : c ≠ 0) (s : Setup F) (nnInv : Mat F) (i j : Fin 3) :
    ND (stiffSetup c s) (fun a b => nnInv a b / c) i j = ND s nnInv i j := by
  simp only [ND, NB, matMul, sum3, stiff_mn]; field_simp
theorem stiff_NC (c : F) (hc : c ≠ 0) (s : Setup F) (nnInv : Mat F) (i j : Fin 3) :
    NC (stiffSetup c s) (fun a b => nnInv a b / c) i j = c * NC s nnInv i j := by
  simp only [NC, matMul, sum3, stiff_mn, stiff_mm, stiff_NA c hc]; ring

/-- the rescaled eigenvectors solve the rescaled eigenproblem: with `nn⁻¹/c` for the inverse, the upper half of
    `N v − p v` is unchanged and the lower half is multiplied by `c`; the inverse relation is unchanged. -/
theorem stiffness_unit_eigen (c : F) (hc : c ≠ 0) (s : Setup F) (nnInv : Mat F) (μ : Mode F) (i : Fin 3) :
    eigResTop (stiffSetup c s) (fun a b => nnInv a b / c) (stiffMode c μ) i = eigResTop s nnInv μ i
    ∧ eigResBot (stiffSetup c s) (fun a b => nnInv a b / c) (stiffMode c μ) i = c * eigResBot s nnInv μ i
    ∧ ∀ j, matMul (stiffSetup c s).nn (fun a b => nnInv a b / c) i j = matMul s.nn nnInv i j := by
  refine ⟨?_, ?_, fun j => ?_⟩
  · simp only [eigResTop, matVec, sum3, stiff_NA c hc]
    simp only [NB, stiffMode]
    field_simp
  · simp only [eigResBot, matVec, sum3, stiff_NC c hc, stiff_ND c hc]
    simp only [stiffMode]
    ring
  · simp only [matMul, sum3, stiff_nn]
    field_simp

theorem kOf_stiff (c : F) (hc : c ≠ 0) (μ : Mode F) (hAL : dot μ.A μ.L ≠ 0) :
    kOf (stiffMode c μ) = kOf μ / c := by
  simp only [kOf, stiffMode, dot, sum3, Nat.cast_ofNat, Nat.cast_one] at *
  have : μ.A 0 * (c * μ.L 0) + μ.A 1 * (c * μ.L 1) + μ.A 2 * (c * μ.L 2) = c * (μ.A 0 * μ.L 0 + μ.A 1 * μ.L 1 + μ.A 2 * μ.L 2) := by ring
  rw [this]
  field_simp

/-- the same problem in another stiffness unit (`k` as the code computes it from the eigenvectors): `η`, the
    displacement and strain coefficients are unchanged, the stress coefficients and `K_tensor` are multiplied by `c`. -/
theorem stiffness_unit_covariant (pi I c : F) (hc : c ≠ 0) (s : Setup F) (μ : Fin 6 → Mode F)
    (hAL : ∀ a, dot (μ a).A (μ a).L ≠ 0) (a : Fin 6) :
    (∀ x, eta (stiffSetup c s) (stiffMode c (μ a)) x = eta s (μ a) x)
    ∧ (∀ i, dispCoef pi I (stiffSetup c s) (fun a => stiffMode c (μ a)) (fun a => kOf (stiffMode c (μ a))) a i
        = dispCoef pi I s μ (fun a => kOf (μ a)) a i)
    ∧ (∀ i j, strainCoef pi I (stiffSetup c s) (fun a => stiffMode c (μ a)) (fun a => kOf (stiffMode c (μ a))) a i j
        = strainCoef pi I s μ (fun a => kOf (μ a)) a i j)
    ∧ (∀ i j, stressCoef pi I (stiffSetup c s) (fun a => stiffMode c (μ a)) (fun a => kOf (stiffMode c (μ a))) a i j
        = c * stressCoef pi I s μ (fun a => kOf (μ a)) a i j)
    ∧ ∀ i j, kOf (stiffMode c (μ a)) * (stiffMode c (μ a)).L i * (stiffMode c (μ a)).L j
        = c * (kOf (μ a) * (μ a).L i * (μ a).L j) := by
  have hk := kOf_stiff c hc (μ a) (hAL a)
  refine ⟨fun x => rfl, fun i => ?_, fun i j => ?_, fun i j => ?_, fun i j => ?_⟩
  · simp only [dispCoef, kLb, hk]
    simp only [stiffMode, stiffSetup, dot, sum3]
    field_simp
  · simp only [strainCoef, kLb, hk]
    simp only [stiffMode, stiffSetup, dot, sum3, mpn]
    field_simp
  · simp only [stressCoef, kLb, hk]
    simp only [stiffMode, stiffSetup, dot, sum3, mpn]
    field_simp
  · rw [hk]; simp only [stiffMode]; field_simp

end units
section checks
variable {K : Type} [Field K] [LinearOrder K] [IsStrictOrderedRing K]

/-- complex eigenvectors in another (real, positive) stiffness unit. -/
def stiffModeC (c : K) (μ : Mode (Cx K)) : Mode (Cx K) := ⟨μ.p, μ.A, fun i => Cx.rmul c (μ.L i)⟩

theorem chkAL_stiff (c : K) (hc : c ≠ 0) (μ : Fin 6 → Mode (Cx K)) (k : Fin 6 → Cx K) (i j : Fin 3) :
    chkAL (fun a => stiffModeC c (μ a)) (fun a => Cx.rdiv (k a) c) i j = chkAL μ k i j := by
  apply Cx.ext' <;> simp [chkAL, sum6, stiffModeC, Cx.rmul, Cx.rdiv] <;> field_simp

theorem chkAA_stiff (c cmax : K) (hc : c ≠ 0) (μ : Fin 6 → Mode (Cx K)) (k : Fin 6 → Cx K) (i j : Fin 3) :
    Cx.rmul (c * cmax) (chkAA (fun a => stiffModeC c (μ a)) (fun a => Cx.rdiv (k a) c) i j)
      = Cx.rmul cmax (chkAA μ k i j) := by
  apply Cx.ext' <;> simp [chkAA, sum6, stiffModeC, Cx.rmul, Cx.rdiv] <;> field_simp

theorem chkLL_stiff (c cmax : K) (hc : c ≠ 0) (hm : cmax ≠ 0) (μ : Fin 6 → Mode (Cx K)) (k : Fin 6 → Cx K) (i j : Fin 3) :
    Cx.rdiv (chkLL (fun a => stiffModeC c (μ a)) (fun a => Cx.rdiv (k a) c) i j) (c * cmax)
      = Cx.rdiv (chkLL μ k i j) cmax := by
  apply Cx.ext' <;> simp [chkLL, sum6, stiffModeC, Cx.rmul, Cx.rdiv] <;> field_simp

theorem chkST_stiff (c t : K) (ht : t ≠ 0) (hc : c = t * t) (μ : Fin 6 → Mode (Cx K)) (sk : Fin 6 → Cx K) (a b : Fin 6) :
    chkST (fun a => stiffModeC c (μ a)) (fun a => Cx.rdiv (sk a) t) a b = chkST μ sk a b := by
  subst hc
  apply Cx.ext' <;> simp [chkST, dot, sum3, stiffModeC, Cx.rmul, Cx.rdiv] <;> field_simp

/-- **the acceptance test of `Stroh.solve` does not depend on the unit of the stiffness** (repo fix 540bb56): for the
    same problem with `C` times `c = t² > 0` — eigenvectors `(A, c L)`, `k / c`, `√k / t`, `max|C|` times `c` — the
    four self-checks give the same verdict. -/
theorem stroh_checks_unit_invariant (tol rtol cmax c t : K) (ht : t ≠ 0) (hc : c = t * t) (hm : cmax ≠ 0)
    (μ : Fin 6 → Mode (Cx K)) (k sk : Fin 6 → Cx K) :
    strohChecksOk tol rtol (c * cmax) (fun a => stiffModeC c (μ a)) (fun a => Cx.rdiv (k a) c) (fun a => Cx.rdiv (sk a) t)
      = strohChecksOk tol rtol cmax μ k sk := by
  have hc0 : c ≠ 0 := by subst hc; exact mul_ne_zero ht ht
  simp only [strohChecksOk, chkAL_stiff c hc0, chkAA_stiff c cmax hc0, chkLL_stiff c cmax hc0 hm, chkST_stiff c t ht hc]

end checks


section objthm
variable {F : Type} [Field F] [CharZero F]

/-- only position edits count: the array after a history of edits. -/
def finalPos (l : List (Vec F)) (h : List (Edit F)) : List (Vec F) := h.foldl editPos l

theorem edit_obj (w : World F) (e : Edit F) : (w.edit e).obj = w.obj := rfl

theorem history_obj (h : List (Edit F)) : ∀ w : World F, (h.foldl World.edit w).obj = w.obj := by
  induction h with
  | nil => intro w; rfl
  | cons e t ih => intro w; simp only [List.foldl_cons, ih, edit_obj]

theorem history_pos (h : List (Edit F)) : ∀ w : World F, (h.foldl World.edit w).pos = finalPos w.pos h := by
  induction h with
  | nil => intro w; rfl
  | cons e t ih => intro w; simp only [List.foldl_cons, ih, finalPos]; rfl

/-- **no hidden state, no aliasing**: after ANY history of in-place edits of the caller's argument objects and of the
    coordinate array, every method returns the field of the problem as it was solved, at the array's current
    contents — what a freshly solved object gives for a fresh copy of the array. -/
theorem history_read (pi I : F) (w : World F) (h : List (Edit F)) (logs : List (Fin 6 → F)) :
    (h.foldl World.edit w).etas = (finalPos w.pos h).map (fun x a => eta w.obj.s (w.obj.μ a) x)
    ∧ (h.foldl World.edit w).strains pi I = (finalPos w.pos h).map (strainAt pi I w.obj.s w.obj.μ w.obj.k)
    ∧ (h.foldl World.edit w).stresses pi I = (finalPos w.pos h).map (stressAt pi I w.obj.s w.obj.μ w.obj.k)
    ∧ (h.foldl World.edit w).disps pi I logs = logs.map (dispAt pi I w.obj.s w.obj.μ w.obj.k) := by
  simp only [World.etas, World.strains, World.stresses, World.disps, history_obj, history_pos, and_self]

/-- editing the arguments alone changes nothing that can be read. -/
theorem arg_edits_invisible (pi I : F) (w : World F) (h : List (Edit F))
    (harg : ∀ e ∈ h, ∀ l, editPos l e = l) :
    (h.foldl World.edit w).strains pi I = w.strains pi I ∧ (h.foldl World.edit w).stresses pi I = w.stresses pi I
    ∧ (h.foldl World.edit w).etas = w.etas := by
  have hp : ∀ (h : List (Edit F)), (∀ e ∈ h, ∀ l, editPos l e = l) → ∀ l, finalPos l h = l := by
    intro h
    induction h with
    | nil => intro _ l; rfl
    | cons e t ih =>
      intro hh l
      simp only [finalPos, List.foldl_cons]
      rw [hh e (List.mem_cons_self ..)]
      exact ih (fun e' he' => hh e' (List.mem_cons_of_mem _ he')) l
  obtain ⟨h1, h2, h3, _⟩ := history_read pi I w h []
  rw [h1, h2, h3, hp h harg]
  exact ⟨rfl, rfl, rfl⟩

/-- `pos *= t` on the array between two calls: strain and stress are divided by `t` (the 1/r law as the in-place
    sequence sees it). -/
theorem scale_edit_read (pi I : F) (w : World F) (t : F) (ht : t ≠ 0)
    (hx : ∀ x ∈ w.pos, ∀ a, eta w.obj.s (w.obj.μ a) x ≠ 0) :
    (w.edit (.posScale t)).strains pi I = (w.strains pi I).map (fun M i j => M i j / t)
    ∧ (w.edit (.posScale t)).stresses pi I = (w.stresses pi I).map (fun M i j => M i j / t) := by
  simp only [World.strains, World.stresses, World.edit, editPos, List.map_map]
  constructor <;> apply List.map_congr_left <;> intro x hxm <;> funext i j
  · have hh := hx x hxm
    have h0 := hh 0; have h1 := hh 1; have h2 := hh 2; have h3 := hh 3; have h4 := hh 4; have h5 := hh 5
    have e : ∀ a, eta w.obj.s (w.obj.μ a) (fun c => t * x c) = t * eta w.obj.s (w.obj.μ a) x := by
      intro a; simp only [eta, dot, sum3]; ring
    simp only [Function.comp, strainAt, sum6, e]
    field_simp
  · have hh := hx x hxm
    have h0 := hh 0; have h1 := hh 1; have h2 := hh 2; have h3 := hh 3; have h4 := hh 4; have h5 := hh 5
    have e : ∀ a, eta w.obj.s (w.obj.μ a) (fun c => t * x c) = t * eta w.obj.s (w.obj.μ a) x := by
      intro a; simp only [eta, dot, sum3]; ring
    simp only [Function.comp, stressAt, sum6, e]
    field_simp

end objthm

/-! ### non-vacuity -/
example : (2 : ℚ) ≠ 0 ∧ (4 : ℚ) = 2 * 2 ∧ (3 : ℚ) ≠ 0 := by norm_num
example : finalPos (F := ℚ) [fun _ => 1] [.argB (fun _ => 5), .posScale 2, .posCol 0 1]
    = [fun c => if c = 0 then 2 * 1 + 1 else 2 * 1] := by
  simp [finalPos, editPos]

end Atomman.C12
