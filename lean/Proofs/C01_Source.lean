/-
  C01 — the definitions regenerated from atomman/core/Box.py on every run
  (`Atomman/Generated/BoxSource.lean`, written by `translate()` of harness/props/c01.py) are the
  hand-written model of `Atomman/Box.lean` + `Atomman/C01.lean`, and the hidden state / write
  protocol of the class is the one the object model `CBox` has.  If the source changes so that a
  formula, a guard, the set of private attributes, who writes them, or the unconditional cache drop
  of the `vects` setter differs, this file stops compiling (or the translator refuses the source).
-/
import Proofs.C01_Lemmas
import Atomman.Generated.BoxSource
import Mathlib.Tactic.NormNum

namespace Atomman.C01
open Atomman
set_option linter.unusedSimpArgs false
set_option linter.unusedSectionVars false
set_option linter.unusedVariables false

variable {K : Type} [Field K] [LinearOrder K] [IsStrictOrderedRing K]

/-! ### hidden state and write protocol (what `CBox` / `SetOp.writesVects` model) -/

/-- the class has exactly the three private attributes of the object model (`box.vects`, `box.origin`,
    `cache`); only `__init__` and the two property setters store to the cell, only the `vects` setter,
    `__init__` and the `reciprocal_vects` getter store to the cache; the `vects` setter copies the numbers
    in and then drops the cache unconditionally; the `origin` setter copies and does nothing else; the three
    getters hand out copies; every `set_*` goes through both property setters. -/
theorem src_state_protocol :
    Generated.BoxSource.hiddenState = ["origin", "reciprocal_vects", "vects"] ∧
    Generated.BoxSource.directWrites =
      [("__init__", ["origin", "reciprocal_vects", "vects"]), ("origin.setter", ["origin"]),
       ("reciprocal_vects", ["reciprocal_vects"]), ("vects.setter", ["reciprocal_vects", "vects"])] ∧
    Generated.BoxSource.vectsSetterCopies = true ∧ Generated.BoxSource.vectsSetterDropsCache = true ∧
    Generated.BoxSource.originSetterCopies = true ∧ Generated.BoxSource.vectsGetterCopies = true ∧
    Generated.BoxSource.originGetterCopies = true ∧ Generated.BoxSource.recipGetterCopies = true ∧
    Generated.BoxSource.setterAssigns =
      [("set_vectors", true, true), ("set_lengths", true, true), ("set_hi_los", true, true),
       ("set_abc", true, true)] := by
  refine ⟨rfl, rfl, rfl, rfl, rfl, rfl, rfl, rfl, rfl⟩

/-! ### formulas -/

theorem src_r2c (b : Box K) (s : V3 K) : Generated.BoxSource.r2c b.vects b.origin s = b.relToCart s := rfl

theorem src_c2r (b : Box K) (p : V3 K) : Generated.BoxSource.c2r b.origin b.recip p = b.cartToRel p := rfl

theorem src_cacheFill (b : Box K) : Generated.BoxSource.cacheFill b.vects = b.recip := rfl

/-- the object model's cached read uses the source's two formulas. -/
theorem src_obj_c2r (c : CBox K) (p : V3 K) (hd : c.box.vects.det ≠ 0) (hc : c.cache = none) :
    (c.read (.c2r p)).2 =
      .vec (Generated.BoxSource.c2r c.box.origin (Generated.BoxSource.cacheFill c.box.vects) p) := by
  simp [CBox.read, CBox.recip?, hc, hd, Generated.BoxSource.c2r, Generated.BoxSource.cacheFill, Box.recip]

example : ∃ c : CBox ℚ, c.box.vects.det ≠ 0 ∧ c.cache = none ∧ c.box.origin ≠ ⟨0, 0, 0⟩ :=
  ⟨⟨⟨⟨⟨2, 0, 0⟩, ⟨1, 3, 0⟩, ⟨0, 1, 4⟩⟩, ⟨1, 2, 3⟩⟩, none⟩, by decide +kernel, rfl, by decide +kernel⟩

theorem src_planes (b : Box K) : Generated.BoxSource.planes b.vects b.origin = planes b := rfl

theorem src_volume (b : Box K) : Generated.BoxSource.volume b.vects = volume b := rfl

theorem src_isLammpsNorm (b : Box K) : Generated.BoxSource.isLammpsNorm b.vects = b.isLammpsNorm := by
  simp [Generated.BoxSource.isLammpsNorm, Box.isLammpsNorm]

/-- the twelve LAMMPS getters. -/
theorem src_lammps_getters (b : Box K) (h : b.isLammpsNorm = true) :
    lengths? b = some ⟨Generated.BoxSource.lx b.vects b.origin, Generated.BoxSource.ly b.vects b.origin,
      Generated.BoxSource.lz b.vects b.origin, Generated.BoxSource.xy b.vects b.origin,
      Generated.BoxSource.xz b.vects b.origin, Generated.BoxSource.yz b.vects b.origin⟩ ∧
    hilos? b = some ⟨Generated.BoxSource.xlo b.vects b.origin, Generated.BoxSource.xhi b.vects b.origin,
      Generated.BoxSource.ylo b.vects b.origin, Generated.BoxSource.yhi b.vects b.origin,
      Generated.BoxSource.zlo b.vects b.origin, Generated.BoxSource.zhi b.vects b.origin,
      Generated.BoxSource.xy b.vects b.origin, Generated.BoxSource.xz b.vects b.origin,
      Generated.BoxSource.yz b.vects b.origin⟩ := by
  simp [lengths?, hilos?, h, Generated.BoxSource.lx, Generated.BoxSource.ly, Generated.BoxSource.lz,
    Generated.BoxSource.xy, Generated.BoxSource.xz, Generated.BoxSource.yz, Generated.BoxSource.xlo,
    Generated.BoxSource.xhi, Generated.BoxSource.ylo, Generated.BoxSource.yhi, Generated.BoxSource.zlo,
    Generated.BoxSource.zhi]

/-- the values under the square roots of `a`, `b`, `c`. -/
theorem src_abc_sq (b : Box K) :
    Generated.BoxSource.aSq b.vects = a2 b ∧ Generated.BoxSource.bSq b.vects = b2 b ∧
    Generated.BoxSource.cSq b.vects = c2 b := ⟨rfl, rfl, rfl⟩

/-- `set_lengths`: guard and matrix. -/
theorem src_set_lengths (p : Lengths K) (o : V3 K) :
    ofLengthsP? p o =
      if Generated.BoxSource.lengthsOk p.lx p.ly p.lz = true then
        some ⟨Generated.BoxSource.lengthsVects p.lx p.ly p.lz p.xy p.xz p.yz, o⟩ else none := by
  simp only [ofLengthsP?, Box.ofLengths?, Generated.BoxSource.lengthsOk, Generated.BoxSource.lengthsVects,
    Bool.and_eq_true, decide_eq_true_eq, and_assoc]

/-- `set_hi_los` = `set_lengths` of the differences with origin `(xlo, ylo, zlo)`. -/
theorem src_set_hi_los (p : HiLos K) :
    ofHiLosP? p = ofLengthsP? (Generated.BoxSource.hilosLengths p.xlo p.xhi p.ylo p.yhi p.zlo p.zhi p.xy p.xz p.yz)
      (Generated.BoxSource.hilosOrigin p.xlo p.ylo p.zlo) := rfl

/-- `set_abc`: what goes to `set_lengths`, and the two radicands. -/
theorem src_set_abc (a b c ca cb cg ly lz : K) :
    Generated.BoxSource.abcLengths a b c ca cb cg ly lz = abcLengths a b c ca cb cg ly lz ∧
    Generated.BoxSource.abcLySq a b c ca cb cg = abcLySq b cg ∧
    Generated.BoxSource.abcLzSq a b c ca cb cg ly = abcLzSq b c ca cb cg ly := ⟨rfl, rfl, rfl⟩

/-- the angle guard of `set_abc` rejects exactly what `anglesOk` does not accept. -/
theorem src_angles (al be ga : K) : Generated.BoxSource.anglesRejected al be ga = !anglesOk al be ga := by
  simp only [Generated.BoxSource.anglesRejected, anglesOk, Bool.not_and, Bool.or_assoc]
  simp only [← not_lt, decide_not]

/-- `tools/vect_angle.py`: each vector is divided by its own `np.linalg.norm`, the cosine is the inner product of the two
    unit vectors (`angleCos` of the model — with `angleCos_spec`, `angleCos_sq_le_one`, `angleCos_scale` of
    `Proofs/C01_Scale.lean`: the cosine of the angle, within [-1, 1], independent of the unit of length), clamped and turned
    into degrees; `alpha beta gamma` call it with rows (1,2), (0,2), (0,1) of `vects`. -/
theorem src_vect_angle (u v : V3 K) (n1 n2 : K) :
    Generated.BoxSource.vectAngleCos u v n1 n2 = angleCos u v n1 n2 ∧
    Generated.BoxSource.vectAngleClampsAndDegrees = true ∧
    Generated.BoxSource.angleGetters = [("alpha", 1, 2), ("beta", 0, 2), ("gamma", 0, 1)] := ⟨rfl, rfl, rfl⟩

/-! ### inside / outside -/

/-- `Plane.below` with the stored normal `normal / λ`. -/
theorem src_below (pl : RawPlane K) (lam : K) (p : V3 K) (incl : Bool) :
    below pl lam p incl = Generated.BoxSource.planeBelow (vdiv pl.normal lam) pl.point p incl := rfl

/-- `Box.inside` is the conjunction of `Plane.below` over the six planes of `Box.planes` (in the
    order the source lists them, each with the caller's `inclusive`), `Plane` normalises the normal and
    keeps the point, and `outside` is the negated `inside` with the opposite flag. -/
theorem src_inside (b : Box K) (lam : Lams K) (p : V3 K) (incl : Bool) :
    Generated.BoxSource.insidePlanes = [0, 1, 2, 3, 4, 5] ∧
    Generated.BoxSource.planeStoresUnitNormalAndPoint = true ∧
    Generated.BoxSource.outsideIsNotInsideOpposite = true ∧
    inside b lam p incl =
      ((Generated.BoxSource.planes b.vects b.origin).zip lam.toList).all
        (fun pl => Generated.BoxSource.planeBelow (vdiv pl.1.normal pl.2) pl.1.point p incl) ∧
    outside b lam p incl = !inside b lam p (!incl) := by
  refine ⟨rfl, rfl, rfl, ?_, rfl⟩
  simp only [Generated.BoxSource.planes, Lams.toList, List.zip_cons_cons, List.zip_nil_right, List.all_cons,
    List.all_nil, Bool.and_true, inside, below, Generated.BoxSource.planeBelow, Bool.and_assoc]

/-! ### `Box.set` keyword dispatch, signatures, `__init__`, family constructors -/

/-- which parameter set a branch of the source's `if / elif` chain stands for. -/
def famOfAction : String → Option SetFamily
  | "inline:vects" => some .vects
  | "set_vectors" => some .vectors
  | "set_lengths" => some .lengths
  | "set_hi_los" => some .hilos
  | "set_abc" => some .abc
  | "inline:origin" => some .origin
  | _ => none

/-- `Box.set` is the chain `setChain` of the model (same keys, same order, each branch handing *all* keywords to
    its `set_*` method resp. popping `vects`/`origin` — default origin `[0.0, 0.0, 0.0]` — and asserting that
    nothing is left), preceded by the unit-cell branch and ending in `raise TypeError`; the `set_*` methods have
    the parameters of `sigVectors … sigHiLos` in that order (so a positional call means what the documentation
    says) with the documented defaults; `__init__` allocates fresh state per instance; the seven family
    constructors pass the documented lengths and angles. -/
theorem src_set_dispatch :
    Generated.BoxSource.setUnitBranch = true ∧
    Generated.BoxSource.setChainSrc.map (fun p => (p.1, famOfAction p.2)) = setChain.map (fun p => (p.1, some p.2)) ∧
    Generated.BoxSource.setElseRaisesTypeError = true ∧
    Generated.BoxSource.signatures =
      [("set_vectors", sigVectors), ("set_abc", sigAbc), ("set_lengths", sigLengths), ("set_hi_los", sigHiLos)] ∧
    Generated.BoxSource.defaults =
      [("set_vectors", [("origin", "None")]),
       ("set_abc", [("alpha", "90.0"), ("beta", "90.0"), ("gamma", "90.0"), ("origin", "None")]),
       ("set_lengths", [("xy", "0.0"), ("xz", "0.0"), ("yz", "0.0"), ("origin", "None")]),
       ("set_hi_los", [("xy", "0.0"), ("xz", "0.0"), ("yz", "0.0")])] ∧
    Generated.BoxSource.initFreshState = true ∧
    Generated.BoxSource.familyCalls =
      [("cubic", "a", "cls(a=a, b=a, c=a, alpha=90, beta=90, gamma=90)"),
       ("hexagonal", "a, c", "cls(a=a, b=a, c=c, alpha=90, beta=90, gamma=120)"),
       ("tetragonal", "a, c", "cls(a=a, b=a, c=c, alpha=90, beta=90, gamma=90)"),
       ("trigonal", "a, alpha", "cls(a=a, b=a, c=a, alpha=alpha, beta=alpha, gamma=alpha)"),
       ("orthorhombic", "a, b, c", "cls(a=a, b=b, c=c, alpha=90, beta=90, gamma=90)"),
       ("monoclinic", "a, b, c, beta", "cls(a=a, b=b, c=c, alpha=90, beta=beta, gamma=90)"),
       ("triclinic", "a, b, c, alpha, beta, gamma", "cls(a=a, b=b, c=c, alpha=alpha, beta=beta, gamma=gamma)")] := by
  refine ⟨rfl, by decide, rfl, by decide, by decide, rfl, by decide⟩

/-! ### extension round: the clean-up statement, the degree-level formulas, shapes, System wrappers -/

/-- the `atol=1e-9` literal of the source is the threshold the driver runs the model with. -/
theorem gen_cleanupAtol_eq_model :
    Generated.BoxSource.cleanupAtolNum = atolNum ∧ Generated.BoxSource.cleanupAtolDen = atolDen := ⟨rfl, rfl⟩

private theorem maxAbs_nonneg' (m : M3 K) : 0 ≤ maxAbs m := by
  simp only [maxAbs, maxK_eq_max, absK_eq_abs]
  exact le_trans (abs_nonneg m.r0.x) (le_trans (le_max_left _ _) (le_trans (le_max_left _ _) (le_max_left _ _)))

private theorem abs_le_maxAbs (m : M3 K) :
    |m.r0.x| ≤ maxAbs m ∧ |m.r0.y| ≤ maxAbs m ∧ |m.r0.z| ≤ maxAbs m ∧ |m.r1.x| ≤ maxAbs m ∧ |m.r1.y| ≤ maxAbs m ∧
    |m.r1.z| ≤ maxAbs m ∧ |m.r2.x| ≤ maxAbs m ∧ |m.r2.y| ≤ maxAbs m ∧ |m.r2.z| ≤ maxAbs m := by
  simp only [maxAbs, maxK_eq_max, absK_eq_abs, le_max_iff, le_refl, true_or, or_true, and_self]

/-- one entry: the source divides by the largest entry and compares with `atol`, the model multiplies out
    (`M > 0`; for `M = 0` the entry is `0` and both leave `0`). -/
theorem gen_cleanupEntry_eq_model (thr M x : K) (hM : 0 < M) :
    Generated.BoxSource.cleanupEntry thr M x = cleanEntry thr M x := by
  simp only [Generated.BoxSource.cleanupEntry, cleanEntry, absK_eq_abs, abs_div, abs_of_pos hM, div_le_iff₀ hM]

/-- **the clean-up statement of the `vects` setter, regenerated from the source, is the model's `cleanVects`** — for every
    matrix and every threshold (no side condition). -/
theorem gen_cleanup_eq_model (thr : K) (m : M3 K) : Generated.BoxSource.cleanupVects thr m = cleanVects thr m := by
  rcases (maxAbs_nonneg' m).lt_or_eq with hM | hM
  · simp only [Generated.BoxSource.cleanupVects, cleanVects, cleanV, gen_cleanupEntry_eq_model _ _ _ hM]
  · obtain ⟨h1, h2, h3, h4, h5, h6, h7, h8, h9⟩ := abs_le_maxAbs m
    rw [← hM] at h1 h2 h3 h4 h5 h6 h7 h8 h9
    have z : ∀ x : K, |x| ≤ 0 → x = 0 := fun x hx => abs_eq_zero.mp (le_antisymm hx (abs_nonneg x))
    have e1 := z _ h1; have e2 := z _ h2; have e3 := z _ h3; have e4 := z _ h4; have e5 := z _ h5
    have e6 := z _ h6; have e7 := z _ h7; have e8 := z _ h8; have e9 := z _ h9
    simp only [Generated.BoxSource.cleanupVects, Generated.BoxSource.cleanupEntry, cleanVects, cleanV, cleanEntry,
      e1, e2, e3, e4, e5, e6, e7, e8, e9, ite_self]

example : ∃ (thr : ℚ) (m : M3 ℚ), 0 < thr ∧ cleanVects thr m ≠ m ∧ (cleanVects thr m).r0.x ≠ 0 :=
  ⟨1/1000, ⟨⟨4, 1/1000, 0⟩, ⟨1, 3, 0⟩, ⟨0, 1, 5⟩⟩, by decide +kernel, by decide +kernel, by decide +kernel⟩

/-- the getters `a b c` with the root in place. -/
theorem gen_lengths_eq_model (T : Trig K) (b : Box K) :
    Generated.BoxSource.aLen T b.vects = lenOf T b.vects.r0 ∧ Generated.BoxSource.bLen T b.vects = lenOf T b.vects.r1 ∧
    Generated.BoxSource.cLen T b.vects = lenOf T b.vects.r2 := ⟨rfl, rfl, rfl⟩

/-- the clamp of `vect_angle` (scalar and array branch agree, checked by the translator). -/
theorem gen_clamp_eq_model (c : K) : Generated.BoxSource.vectAngleClamp c = clampCos c := rfl

/-- `vect_angle` down to the angle in degrees = the model's `angleDeg`. -/
theorem gen_angleDeg_eq_model (T : Trig K) (u v : V3 K) : Generated.BoxSource.vectAngleDeg T u v = angleDeg T u v := rfl

/-- the straight-line part of `set_abc` with the library calls in place = the model's `abcOfDeg`. -/
theorem gen_abcOfDeg_eq_model (T : Trig K) (a b c al be ga : K) :
    Generated.BoxSource.abcOfDegSrc T a b c al be ga = abcOfDeg T a b c al be ga := rfl

/-- shapes: both conversions refuse exactly a trailing dimension other than 3 (`convShape`); `Plane.below` contracts the
    trailing axis (`insideShape`). -/
theorem gen_shapes_eq_model (sh : List Nat) (d : Nat) (h : sh.getLast? = some d) :
    Generated.BoxSource.r2cTrailingDim = 3 ∧ Generated.BoxSource.c2rTrailingDim = 3 ∧
    Generated.BoxSource.belowInnerOverLastAxis = true ∧
    (convShape sh = .errValue ↔ d ≠ Generated.BoxSource.r2cTrailingDim) ∧
    (convShape sh = .ok sh ↔ d = Generated.BoxSource.c2rTrailingDim) := by
  refine ⟨rfl, rfl, rfl, ?_, ?_⟩
  · simp only [convShape, h, Generated.BoxSource.r2cTrailingDim]
    by_cases hd : d = 3 <;> simp [hd]
  · simp only [convShape, h, Generated.BoxSource.c2rTrailingDim]
    by_cases hd : d = 3 <;> simp [hd]

/-- `System.scale` / `System.unscale` are the two conversions of the system's box. -/
theorem gen_system_wrappers :
    Generated.BoxSource.systemWrappers =
      [("scale", "self.box.position_cartesian_to_relative(value)"),
       ("unscale", "self.box.position_relative_to_cartesian(value)")] := by decide

/-- the seven crystal-family constructors, regenerated (own guards in order, keywords handed to `cls(...)`) = the model's
    `Ctor.params?`. -/
theorem gen_family_ctors_eq_model (a b c al be ga : K) :
    Generated.BoxSource.cubicSrc a = (Ctor.cubic a).params? ∧
    Generated.BoxSource.hexagonalSrc a c = (Ctor.hexagonal a c).params? ∧
    Generated.BoxSource.tetragonalSrc a c = (Ctor.tetragonal a c).params? ∧
    Generated.BoxSource.trigonalSrc a al = (Ctor.trigonal a al).params? ∧
    Generated.BoxSource.orthorhombicSrc a b c = (Ctor.orthorhombic a b c).params? ∧
    Generated.BoxSource.monoclinicSrc a b c be = (Ctor.monoclinic a b c be).params? ∧
    Generated.BoxSource.triclinicSrc a b c al be ga = (Ctor.triclinic a b c al be ga).params? := by
  refine ⟨rfl, ?_, ?_, ?_, ?_, ?_, ?_⟩ <;>
    simp only [Generated.BoxSource.hexagonalSrc, Generated.BoxSource.tetragonalSrc, Generated.BoxSource.trigonalSrc,
      Generated.BoxSource.orthorhombicSrc, Generated.BoxSource.monoclinicSrc, Generated.BoxSource.triclinicSrc,
      Ctor.params?, Bool.or_eq_true, decide_eq_true_eq]

/-- `avect bvect cvect` are rows 0, 1, 2; `Plane(normal, point)` keeps the order of its arguments; `Box(**kwargs)` hands
    every keyword set except `model` to `set(**kwargs)`. -/
theorem gen_glue_pins :
    Generated.BoxSource.vectGetters = [("avect", 0), ("bvect", 1), ("cvect", 2)] ∧
    Generated.BoxSource.planeInitNormalThenPoint = true ∧ Generated.BoxSource.initHandsKeywordsToSet = true :=
  ⟨by decide, rfl, rfl⟩

end Atomman.C01
