/-
  C18 — the checked source tie: every definition of `Atomman/Generated/PNEnergy.lean` (regenerated with `ast` from
  atomman/defect/SDVPN.py and GammaSurface.py on each run) is proved equal to the hand model of `Atomman/C18.lean`
  (`gen_…_eq_model`).  The clause theorems of `Proofs/C18.lean` are thereby theorems about what the source says now: an
  edit of a formula either re-proves here or breaks the named obligation.
-/
import Proofs.C18_Lemmas
import Atomman.Generated.PNEnergy

namespace Atomman.C18
open Atomman

set_option linter.unusedSectionVars false

variable {K : Type} [Field K] [LinearOrder K] [IsStrictOrderedRing K]

/-! ### list facts behind numpy slices -/

theorem zipWith_take_right {α β γ : Type} (f : α → β → γ) (a : List α) (b : List β) (n : Nat) (h : a.length ≤ n) :
    List.zipWith f a (b.take n) = List.zipWith f a b := by
  apply List.ext_getElem
  · simp only [List.length_zipWith, List.length_take]; omega
  · intro i h1 h2; simp

theorem zipWith_take_left {α β γ : Type} (f : α → β → γ) (a : List α) (b : List β) (n : Nat) (h : b.length ≤ n) :
    List.zipWith f (a.take n) b = List.zipWith f a b := by
  apply List.ext_getElem
  · simp only [List.length_zipWith, List.length_take]; omega
  · intro i h1 h2; simp

theorem take_drop_one_eq {α : Type} (l : List α) : (l.take (l.length - 1)).drop 1 = (l.drop 1).dropLast := by
  rw [List.dropLast_eq_take, List.drop_take, List.length_drop]

theorem vstack_strip (d : List (V3 K)) :
    npVstack3T (d.map (fun v => v.x)) (List.replicate d.length (0 : K)) (d.map (fun v => v.z))
      = d.map (fun δ => (⟨δ.x, 0, δ.z⟩ : V3 K)) := by
  induction d with
  | nil => rfl
  | cons a l ih => simp only [List.map_cons, List.length_cons, List.replicate_succ, npVstack3T, ih]

theorem mulVec_transpose (T : M3 K) (r : V3 K) : M3.mulVec (M3.transpose T) r = M3.vecMul r T := by
  ext <;> simp [M3.mulVec, M3.transpose, M3.vecMul, V3.dot] <;> ring

/-! ### SDVPN -/

/-- `disldensity` of the source = the model's density and coordinates, for both difference quotients. -/
theorem gen_disldensity_eq_model (cdiff : Bool) (x : List K) (d : List (V3 K)) :
    Gen.gen_disldensity cdiff x d = (densityX cdiff x, disldensity cdiff x d) := by
  cases cdiff
  · simp only [Gen.gen_disldensity, densityX, disldensity, npRowDiv, Bool.false_eq_true, if_false]
    rw [zipWith_take_right _ _ _ _ (by simp), zipWith_take_right _ _ _ _ (by simp)]
  · simp only [Gen.gen_disldensity, densityX, disldensity, npRowDiv, if_true]
    rw [zipWith_take_right _ _ _ _ (by simp), zipWith_take_right _ _ _ _ (by simp), take_drop_one_eq]

theorem gen_misfit_eq_model (gam : V3 K → K) (T : M3 K) (x : List K) (d : List (V3 K)) :
    Gen.gen_misfit_energy gam T x d = misfitEnergy gam T x d := by
  simp only [Gen.gen_misfit_energy, misfitEnergy, gridStep, vstack_strip, List.map_map]
  congr 2
  apply List.map_congr_left
  intro a _
  simp [Function.comp, mulVec_transpose]

theorem gen_psi_eq_model (lg : K → K) (i j : Int) (dx : K) : Gen.gen_psi lg i j dx = psi lg dx (i - j) := by
  unfold Gen.gen_psi psi
  split_ifs with h
  · rfl
  · simp only [two]; push_cast; ring

theorem gen_chi_eq_model (lg : K → K) (i j : Int) (dx : K) : Gen.gen_chi lg i j dx = chi lg dx i j := by
  unfold Gen.gen_chi chi
  simp only [gen_psi_eq_model, two]

theorem gen_elastic_eq_model (lg : K → K) (pi : K) (Kt : M3 K) (cdiff : Bool) (x : List K) (d : List (V3 K)) :
    Gen.gen_elastic_energy lg pi Kt cdiff x d = elasticEnergy lg pi Kt cdiff x d := by
  simp only [Gen.gen_elastic_energy, elasticEnergy, elasticOfDensity, elasticB, gen_disldensity_eq_model, gridStep]
  apply sumTo_congr
  intro i _
  congr 1
  apply sumTo_congr
  intro j hj
  rw [gen_chi_eq_model]
  congr 1
  simp [kform, List.getD_eq_getElem?_getD, List.getElem?_eq_getElem hj]

theorem gen_longrange_eq_model (pi logL : K) (Kt : M3 K) (b : V3 K) :
    Gen.gen_longrange_energy pi logL Kt b = longrangeEnergy pi logL Kt b := by
  simp [Gen.gen_longrange_energy, longrangeEnergy, kform, two]

theorem v3_neg_r1 (τ : M3 K) : (negM τ).r1 = -τ.r1 := rfl

/-- `stress_energy` of the source (full 3 x 3 array `tau`) = the model's `stressEnergyT`, both expressions, both quotients. -/
theorem gen_stress_eq_model (full cd : Bool) (τ : M3 K) (x : List K) (d : List (V3 K)) :
    Gen.gen_stress_energy full cd τ x d = stressEnergyT full cd τ x d := by
  cases full
  · simp only [Gen.gen_stress_energy, stressEnergyT, stressEnergy, Bool.false_eq_true, if_false, gridStep, v3_neg_r1]
    rw [zipWith_take_left _ _ _ _ (by simp), List.map_map, List.map_zipWith]
    congr 2
    · simp [two]
    · congr 1
      funext a b
      simp only [Function.comp, V3.smul, V3.map, V3.dot]
      show _ = _
      cases a; cases b
      simp only [HAdd.hAdd, Add.add, V3.add]
      ring_nf
  · simp only [Gen.gen_stress_energy, stressEnergyT, stressEnergy, if_true, gen_disldensity_eq_model]
    congr 1
    · simp [two]
    · congr 1
      apply List.ext_getElem
      · simp only [List.length_zipWith, List.length_map, List.length_drop, List.length_take]; omega
      · intro i h1 h2
        simp

theorem gen_surface_eq_model (cd : Bool) (β : M3 K) (x : List K) (d : List (V3 K)) :
    Gen.gen_surface_energy cd β x d = surfaceEnergy cd β x d := by
  simp only [Gen.gen_surface_energy, surfaceEnergy, gen_disldensity_eq_model, npSumV, List.map_map, gridStep]
  rfl

/-- one `α_m` contribution as the source writes it (`δ[m:-m]`, `δ[2*m:]`, `δ[:-2*m]`, elementwise products, `np.sum`). -/
theorem nonlocal_body (dx : K) (d : List (V3 K)) (m : Nat) :
    npSumV ((List.zipWith npMulV ((d.take (d.length - m)).drop m)
        (List.zipWith (fun p q => p - q) ((d.take (d.length - m)).drop m)
          ((List.zipWith (fun p q => p + q) (d.drop (2 * m)) (d.take (d.length - 2 * m))).map
            (fun v => V3.smul (((1 : Nat) : K) / ((2 : Nat) : K)) v)))).map (fun v => v.map (fun t => t * dx)))
      = nonlocalTerm dx m d := by
  unfold npSumV nonlocalTerm
  congr 1
  apply List.ext_getElem
  · simp only [List.length_zipWith, List.length_map, List.length_drop, List.length_take, List.length_zip]; omega
  · intro i h1 h2
    simp only [List.getElem_map, List.getElem_zipWith, List.getElem_drop, List.getElem_take, List.getElem_zip, npMulV, V3.map,
      V3.smul, two, Nat.cast_one, Nat.cast_ofNat]

theorem gen_nonlocal_loop_eq_model (dx : K) (d : List (V3 K)) :
    ∀ (αs : List K) (num : Nat), Gen.gen_nonlocal_loop dx d num αs = nonlocalFrom dx d (num + 1) αs := by
  intro αs
  induction αs with
  | nil => intro num; rfl
  | cons α rest ih =>
    intro num
    simp only [Gen.gen_nonlocal_loop, nonlocalFrom]
    rw [ih, nonlocal_body]

theorem gen_nonlocal_eq_model (αs x : List K) (d : List (V3 K)) :
    Gen.gen_nonlocal_energy αs x d = nonlocalEnergy αs x d := by
  simp only [Gen.gen_nonlocal_energy, nonlocalEnergy, gen_nonlocal_loop_eq_model, gridStep, zero_add]

/-- `total_energy` of the source — the six term methods, each as generated from its own source — is the model's total
    (whose stress term reads the second row of `tau`). -/
theorem gen_total_eq_model (lg : K → K) (gam : V3 K → K) (s : Settings K) (τ : M3 K) (hτ : s.τ1 = τ.r1) (x : List K) (d : List (V3 K)) :
    Gen.gen_total_energy lg gam s τ x d = totalEnergy lg gam s x d := by
  simp only [Gen.gen_total_energy, totalEnergy, gen_misfit_eq_model, gen_elastic_eq_model, gen_longrange_eq_model, gen_stress_eq_model,
    gen_nonlocal_eq_model, gen_surface_eq_model, stressEnergyT, hτ]

theorem gen_args_eq_model (o : Obj K) (xo : Option (List K)) (dO : Option (List (V3 K))) :
    Gen.gen_args o.x o.d xo dO = o.args xo dO := by
  cases xo <;> cases dO <;> rfl

theorem gen_init_flags_eq_model : Gen.gen_init_flags = initFlags := rfl

/-- the WHOLE keyword block of `solve`, in order: the ten state keywords of the model followed by the three minimiser
    options (statement audit: was `.take 10 = solveKeywords`, which a keyword added after the tenth would not break). -/
theorem gen_solve_keywords_eq_model :
    Gen.gen_solve_keywords = solveKeywords ++ ["min_method", "min_options", "min_kwargs"] := by decide

theorem gen_total_order_eq_model :
    Gen.gen_total_order = ["misfit_energy", "elastic_energy", "longrange_energy", "stress_energy", "nonlocal_energy", "surface_energy"] := by
  decide

theorem gen_frame_eq_model (M Kv T : M3 K) (b : V3 K) :
    Gen.gen_frame_K_tensor M Kv = frameK M Kv ∧ Gen.gen_frame_burgers M b = frameB M b ∧ Gen.gen_frame_transform M T = frameT M T :=
  ⟨rfl, rfl, rfl⟩

theorem gen_decompose_eq_model (d : List (V3 K)) :
    Gen.gen_decompose d = (decompose d, d.headD v3zero, d.getLastD v3zero) := by
  simp only [Gen.gen_decompose, decompose, take_drop_one_eq]

/-! ### GammaSurface -/

theorem gen_a12_to_pos_eq_model (B : M3 K) (v1 v2 : V3 K) (a1 a2 : K) :
    Gen.gen_a12_to_pos B v1 v2 a1 a2 = a12ToPos (cartOf v1 B) (cartOf v2 B) (a1, a2) := rfl

/-- the linear solve of the source's `pos_to_a12` (basis columns `A1, A2, c / rn`, `c = A1 × A2`) against the model's
    (rows `A1, A2, c`): same first two coefficients, third coefficient times `rn`. -/
theorem solve_scaled_basis (A1 A2 p : V3 K) (rn : K) (hrn : rn ≠ 0) (h : V3.cross A1 A2 ≠ v3zero) :
    M3.mulVec (M3.inv (M3.transpose ⟨A1, A2, (V3.cross A1 A2).map (fun t => t / rn)⟩)) p
      = ⟨(posToA123 A1 A2 p).x, (posToA123 A1 A2 p).y, (posToA123 A1 A2 p).z * rn⟩ := by
  have hD := det_basis_ne A1 A2 h
  have hp : p = M3.vecMul (posToA123 A1 A2 p) ⟨A1, A2, V3.cross A1 A2⟩ := (vecMul_inv_cancel' p _ hD).symm
  set a := posToA123 A1 A2 p with ha
  have hdet : M3.det (M3.transpose ⟨A1, A2, (V3.cross A1 A2).map (fun t => t / rn)⟩) ≠ 0 := by
    have : M3.det (M3.transpose ⟨A1, A2, (V3.cross A1 A2).map (fun t => t / rn)⟩) = M3.det ⟨A1, A2, V3.cross A1 A2⟩ / rn := by
      simp only [M3.det, M3.transpose, V3.dot, V3.cross, V3.map]; field_simp; ring
    rw [this]; exact div_ne_zero hD hrn
  have hw : p = M3.mulVec (M3.transpose ⟨A1, A2, (V3.cross A1 A2).map (fun t => t / rn)⟩) ⟨a.x, a.y, a.z * rn⟩ := by
    rw [hp]
    ext <;> simp only [M3.mulVec, M3.transpose, M3.vecMul, V3.dot, V3.map] <;> field_simp
  rw [hw, mulVec_inv_cancel _ _ hdet]

theorem gen_pos_to_a12_eq_model (rn : K) (B : M3 K) (v1 v2 p : V3 K) (hrn : 0 < rn)
    (h4 : (rn * rn) * (rn * rn) = V3.dot (V3.cross (cartOf v1 B) (cartOf v2 B)) (V3.cross (cartOf v1 B) (cartOf v2 B)))
    (h : V3.cross (cartOf v1 B) (cartOf v2 B) ≠ v3zero) :
    Gen.gen_pos_to_a12 rn B v1 v2 p = posToA12? (cartOf v1 B) (cartOf v2 B) p := by
  simp only [Gen.gen_pos_to_a12, posToA12?]
  rw [show M3.vecMul v1 B = cartOf v1 B from rfl, show M3.vecMul v2 B = cartOf v2 B from rfl,
    solve_scaled_basis _ _ p rn (ne_of_gt hrn) h]
  set a := posToA123 (cartOf v1 B) (cartOf v2 B) p
  set M := maxK 1 (maxK (absK a.x) (absK a.y)) with hM
  have hM0 : (0 : K) ≤ M := by
    have : (1 : K) ≤ M := by simp only [hM, maxK]; split_ifs <;> linarith
    linarith
  have htol : (0 : K) ≤ ((1 : Nat) : K) / ((1000000 : Nat) : K) := by positivity
  have key : absK (a.z * rn) ≤ ((1 : Nat) : K) / ((1000000 : Nat) : K) * M ↔
      a.z * a.z * (a.z * a.z) * V3.dot (V3.cross (cartOf v1 B) (cartOf v2 B)) (V3.cross (cartOf v1 B) (cartOf v2 B))
        ≤ tolPlane * tolPlane * (tolPlane * tolPlane) * (M * M * (M * M)) := by
    rw [absK_eq, ← h4]
    have hu : (0 : K) ≤ |a.z * rn| := abs_nonneg _
    have hv : (0 : K) ≤ ((1 : Nat) : K) / ((1000000 : Nat) : K) * M := mul_nonneg htol hM0
    rw [mul_self_le_mul_self_iff hu hv, mul_self_le_mul_self_iff (mul_self_nonneg _) (mul_self_nonneg _), abs_mul_abs_self]
    have e1 : a.z * rn * (a.z * rn) * (a.z * rn * (a.z * rn)) = a.z * a.z * (a.z * a.z) * (rn * rn * (rn * rn)) := by ring
    have e2 : ((1 : Nat) : K) / ((1000000 : Nat) : K) * M * (((1 : Nat) : K) / ((1000000 : Nat) : K) * M)
        * (((1 : Nat) : K) / ((1000000 : Nat) : K) * M * (((1 : Nat) : K) / ((1000000 : Nat) : K) * M))
        = tolPlane * tolPlane * (tolPlane * tolPlane) * (M * M * (M * M)) := by
      simp only [tolPlane, Nat.cast_one]; ring
    rw [e1, e2]
  by_cases hk : absK (a.z * rn) ≤ ((1 : Nat) : K) / ((1000000 : Nat) : K) * M
  · have hin : inPlaneOk (cartOf v1 B) (cartOf v2 B) a = true := by
      simp only [inPlaneOk, decide_eq_true_eq]; exact key.mp hk
    rw [if_pos hk, if_pos hin]
  · have hin : ¬ inPlaneOk (cartOf v1 B) (cartOf v2 B) a = true := by
      simp only [inPlaneOk, decide_eq_true_eq]; exact fun hh => hk (key.mpr hh)
    rw [if_neg hk, if_neg hin]
/-- non-vacuity: the unit square in the identity box (`c = (0, 0, 1)`, `rn = 1`); a lifted position is refused. -/
example : Gen.gen_pos_to_a12 (K := ℚ) 1 M3.one ⟨1, 0, 0⟩ ⟨0, 1, 0⟩ ⟨1/4, 1/2, 0⟩ = some (1/4, 1/2) ∧
    Gen.gen_pos_to_a12 (K := ℚ) 1 M3.one ⟨1, 0, 0⟩ ⟨0, 1, 0⟩ ⟨1/4, 1/2, 1/1000⟩ = none := by decide +kernel

/-! ### arctangent profiles -/

theorem gen_pn_arctan_disregistry_eq_model (atan : K → K) (pi : K) (x : List K) (b : V3 K) (center hw : K) (normalize shift : Bool)
    (normB normLast : K) :
    Gen.gen_pn_arctan_disregistry atan pi x b center hw normalize shift normB normLast
      = pnArctanDisregistry atan pi x b center hw normalize shift normB normLast := by
  have hraw : ((((x.map (fun t => t - center)).map (fun t => t / hw)).map atan).map (fun t => V3.smul t (b.map (fun t => t / pi)))).map
        (fun v => v + b.map (fun t => t / ((2 : Nat) : K)))
      = x.map (fun xi => V3.smul (atan ((xi - center) / hw)) (b.map (· / pi)) + b.map (· / two)) := by
    simp only [List.map_map, two]; rfl
  unfold Gen.gen_pn_arctan_disregistry pnArctanDisregistry
  simp only [hraw]
  cases normalize <;> cases shift <;> simp only [Bool.false_eq_true, if_false, if_true, List.map_map, two] <;> congr 1

theorem gen_pn_arctan_disldensity_eq_model (pi : K) (x : List K) (b : V3 K) (center hw : K) (normalize : Bool) (normB normInt : K) :
    Gen.gen_pn_arctan_disldensity pi x b center hw normalize normB normInt
      = pnArctanDisldensity pi x b center hw normalize normB normInt := by
  unfold Gen.gen_pn_arctan_disldensity pnArctanDisldensity
  cases normalize <;> simp only [Bool.false_eq_true, if_false, if_true, List.map_map] <;> congr 1


section floor
variable [FloorRing K]

/-- `wrap_cushion` of the source (one floor, then the two corrections for a rounded-off floor) = the model's `wrap`: in
    exact arithmetic the corrections never fire. -/
theorem gen_wrap_cushion_eq_model (a c : K) : Gen.gen_wrap_cushion Int.floor a c = wrap Int.floor c a := by
  have h := wrap_range c a
  unfold wrap at h
  simp only [Gen.gen_wrap_cushion, wrap, Nat.cast_one]
  have h1 : ¬ (1 - c ≤ a - ((⌊a + c⌋ : Int) : K)) := not_le.mpr h.2
  have h2 : ¬ (a - ((⌊a + c⌋ : Int) : K) < -c) := not_lt.mpr h.1
  simp [h1, h2]

/-- `wrap_unit` of the source = the model's `wrapN` (`delta`, `smooth=False`). -/
theorem gen_wrap_unit_eq_model (a : K) : Gen.gen_wrap_unit Int.floor Int.ceil a = wrapN Int.floor Int.ceil a := by
  simp only [Gen.gen_wrap_unit, wrapN, Nat.cast_one, Nat.cast_zero]
  by_cases h : 1 < a
  · have hc : ((⌈a⌉ : Int) : K) < a + 1 := Int.ceil_lt_add_one a
    have h3 : ¬ (a - (((⌈a⌉ : Int) : K) - 1) < 0) := by linarith
    simp [h, h3]
  · simp [h]

end floor

end Atomman.C18
