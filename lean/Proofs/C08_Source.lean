/-
  C08 — source tie: the definitions regenerated from the READER code on every run
  (Atomman/Generated/LoadSource.lean, written by harness/props/c08.py `translate_source` with `ast` from
  atomman/load/atom_data/load.py, atom_dump/load.py, poscar/load.py, table/load.py) against the hand model of
  Atomman/C08.lean.

  Every `gen_…_eq_model` proves a generated definition equal to what the model computes (for ALL lines / states);
  `fpStepT_eq_gen`, `dsCore_eq_gen` and `readAtoms_eq_gen` restate the model's step functions as "the action of the branch
  that the GENERATED decision function selects", so that the theorems of Proofs/C08.lean are about the decision chain the
  source has now.  Every `gen_…_pinned` states what the normalised statements of a piece of code are that cannot be a
  Lean definition (pandas calls, bodies of branches).  A source edit that changes behaviour breaks one of them by name
  (or re-proves, if it does not change what the definition computes).
-/
import Atomman.C08
import Atomman.Generated.LoadSource
import Mathlib.Tactic.Tauto
namespace Atomman.C08
open Atomman Atomman.C07
set_option linter.unusedSimpArgs false
set_option linter.unusedVariables false
set_option linter.unusedTactic false

/-! ## data file: the `if / elif` chain of `firstpass` -/

/-- the branch of the chain of `firstpass` the model takes, read off `classify` and the two state variables the
    chain looks at. -/
def fpBranch (terms : Line) (firstAtoms : Bool) (massesToRead : Nat) : Nat :=
  match classify terms with
  | .natoms _ => 0
  | .natypes _ => 1
  | .xb _ _ => 2
  | .yb _ _ => 3
  | .zb _ _ => 4
  | .tilt _ _ _ => 5
  | .atoms => 6
  | k =>
    if firstAtoms then 7 else if k = .masses then 8 else if 0 < massesToRead then 9
    else if k = .velocities then 10 else 11

/-- **gen_firstpassBranch_eq_model**: for every line and state, the branch the regenerated chain selects (keywords,
    term counts and the ORDER of the `elif`s as they stand in the source now) is the branch the model takes. -/
theorem gen_firstpassBranch_eq_model (terms : Line) (fa : Bool) (nm : Nat) :
    Gen.LoadSource.firstpassBranch terms fa nm = fpBranch terms fa nm := by
  rcases terms with _ | ⟨a, _ | ⟨b, _ | ⟨c, _ | ⟨d, _ | ⟨e, _ | ⟨f, _ | ⟨g, r⟩⟩⟩⟩⟩⟩⟩
  all_goals
    simp only [Gen.LoadSource.firstpassBranch, Gen.LoadSource.termIs, fpBranch, classify, List.length_cons,
      List.length_nil, List.getElem?_cons_zero, List.getElem?_cons_succ, List.getElem?_nil]
  · simp
  · by_cases h1 : a = cs!"Atoms" <;> by_cases h2 : a = cs!"Masses" <;> by_cases h3 : a = cs!"Velocities" <;>
      simp [h1, h2, h3]
  · by_cases h1 : b = cs!"atoms" <;> simp [h1]
  · by_cases h1 : b = cs!"atom" ∧ c = cs!"types" <;> simp [h1]
  · by_cases h1 : c = cs!"xlo" ∧ d = cs!"xhi" <;> by_cases h2 : c = cs!"ylo" ∧ d = cs!"yhi" <;>
      by_cases h3 : c = cs!"zlo" ∧ d = cs!"zhi" <;> simp [h1, h2, h3]
  · simp
  · by_cases h1 : d = cs!"xy" ∧ e = cs!"xz" ∧ f = cs!"yz"
    · simp [h1]
    · simp [h1]
      intro hd he hf
      exact absurd ⟨hd, he, hf⟩ h1
  · simp

/-- the action of branch `k` of the chain on the variables of `firstpass`. -/
def fpAct (lf : Option Rat) (i : Nat) (terms : Line) (hint : Option (List Char)) (s : FP) : Nat → Res FP
  | 0 => do let v ← pyInt (terms.getD 0 []); pure { s with natoms := some v }
  | 1 => do let v ← pyInt (terms.getD 0 []); pure { s with natypes := some v }
  | 2 => do
    let a ← pyFloat (terms.getD 0 []); let b ← pyFloat (terms.getD 1 []); pure { s with x := some (mulBy lf a, mulBy lf b) }
  | 3 => do
    let a ← pyFloat (terms.getD 0 []); let b ← pyFloat (terms.getD 1 []); pure { s with y := some (mulBy lf a, mulBy lf b) }
  | 4 => do
    let a ← pyFloat (terms.getD 0 []); let b ← pyFloat (terms.getD 1 []); pure { s with z := some (mulBy lf a, mulBy lf b) }
  | 5 => do
    let a ← pyFloat (terms.getD 0 []); let b ← pyFloat (terms.getD 1 []); let c ← pyFloat (terms.getD 2 [])
    pure { s with xy := mulBy lf a, xz := mulBy lf b, yz := mulBy lf c }
  | 6 => pure { s with atomsStart := some (i + 1), firstAtoms := true, hint := hint }
  | 7 => pure { s with atomsColumns := terms.length, firstAtoms := false }
  | 8 =>
    match s.natypes with
    | none => throw "format"
    | some nt => pure { s with masses := some (List.replicate nt.toNat none), massesToRead := nt.toNat }
  | 9 =>
    match s.masses with
    | some m => do let m' ← readMass terms m; pure { s with masses := some m', massesToRead := s.massesToRead - 1 }
    | none => throw "format"
  | 10 => pure { s with velStart := some (i + 1) }
  | _ => pure s

theorem fpStepT_eq_act (lf : Option Rat) (i : Nat) (terms : Line) (hint : Option (List Char)) (s : FP) :
    fpStepT lf i terms hint s =
      if terms.isEmpty then pure s else fpAct lf i terms hint s (fpBranch terms s.firstAtoms s.massesToRead) := by
  rcases terms with _ | ⟨a, _ | ⟨b, _ | ⟨c, _ | ⟨d, _ | ⟨e, _ | ⟨f, _ | ⟨g, r⟩⟩⟩⟩⟩⟩⟩
  all_goals
    simp only [fpStepT, fpBranch, classify, List.isEmpty_nil, List.isEmpty_cons, if_true, if_false, Bool.false_eq_true]
  · rcases Classical.em (a = cs!"Atoms") with rfl | h1
    · simp [fpAct]
    · rcases Classical.em (a = cs!"Masses") with rfl | h2
      · cases hfa : s.firstAtoms <;> simp [fpAct, hfa] <;>
        first | (cases s.natypes <;> rfl) | (cases s.masses <;> rfl)
      · rcases Classical.em (a = cs!"Velocities") with rfl | h3
        · cases hfa : s.firstAtoms <;> by_cases hm : 0 < s.massesToRead <;> simp [fpAct, hfa, hm] <;>
        first | (cases s.natypes <;> rfl) | (cases s.masses <;> rfl)
        · cases hfa : s.firstAtoms <;> by_cases hm : 0 < s.massesToRead <;> simp [fpAct, hfa, hm, h1, h2, h3] <;>
        first | (cases s.natypes <;> rfl) | (cases s.masses <;> rfl)
  · by_cases h1 : b = cs!"atoms"
    · simp [h1, fpAct]
    · cases hfa : s.firstAtoms <;> by_cases hm : 0 < s.massesToRead <;> simp [fpAct, hfa, hm, h1] <;>
        first | (cases s.natypes <;> rfl) | (cases s.masses <;> rfl)
  · by_cases h1 : b = cs!"atom" ∧ c = cs!"types"
    · simp [h1, fpAct]
    · cases hfa : s.firstAtoms <;> by_cases hm : 0 < s.massesToRead <;> simp [fpAct, hfa, hm, h1] <;>
        first | (cases s.natypes <;> rfl) | (cases s.masses <;> rfl)
  · by_cases h1 : c = cs!"xlo" ∧ d = cs!"xhi"
    · simp [h1, fpAct]
    · by_cases h2 : c = cs!"ylo" ∧ d = cs!"yhi"
      · simp [h1, h2, fpAct]
      · by_cases h3 : c = cs!"zlo" ∧ d = cs!"zhi"
        · simp [h1, h2, h3, fpAct]
        · cases hfa : s.firstAtoms <;> by_cases hm : 0 < s.massesToRead <;> simp [fpAct, hfa, hm, h1, h2, h3] <;>
        first | (cases s.natypes <;> rfl) | (cases s.masses <;> rfl)
  · cases hfa : s.firstAtoms <;> by_cases hm : 0 < s.massesToRead <;> simp [fpAct, hfa, hm] <;>
        first | (cases s.natypes <;> rfl) | (cases s.masses <;> rfl)
  · by_cases h1 : d = cs!"xy" ∧ e = cs!"xz" ∧ f = cs!"yz"
    · simp [h1, fpAct]
    · cases hfa : s.firstAtoms <;> by_cases hm : 0 < s.massesToRead <;> simp [fpAct, hfa, hm, h1] <;>
        first | (cases s.natypes <;> rfl) | (cases s.masses <;> rfl)
  · cases hfa : s.firstAtoms <;> by_cases hm : 0 < s.massesToRead <;> simp [fpAct, hfa, hm] <;>
        first | (cases s.natypes <;> rfl) | (cases s.masses <;> rfl)

/-- **fpStepT_eq_gen**: one iteration of the model's first pass IS the action of the branch that the regenerated
    decision chain of the source selects. -/
theorem fpStepT_eq_gen (lf : Option Rat) (i : Nat) (terms : Line) (hint : Option (List Char)) (s : FP) :
    fpStepT lf i terms hint s =
      if terms.isEmpty then pure s
      else fpAct lf i terms hint s (Gen.LoadSource.firstpassBranch terms s.firstAtoms s.massesToRead) := by
  rw [gen_firstpassBranch_eq_model]
  exact fpStepT_eq_act lf i terms hint s

/-! ## data file: the checks after the first pass, the atom_style decision, the image-flag decision -/

/-- **gen_firstpassCheck_eq_model**: the checks after the loop, in the order the source has them now: whenever the
    regenerated check sequence names an error, `fpFinish` raises exactly that class (a file name that does not exist
    BEFORE the format errors; every missing item the format error); when it names none, `fpFinish` raises neither of
    the two (what is left is the `Box` assertion and a negative atom count). -/
theorem gen_firstpassCheck_eq_model (s : FP) (short : Bool) :
    (∀ e, Gen.LoadSource.firstpassCheck short s.natoms.isNone s.x.isNone s.x.isNone s.y.isNone s.y.isNone s.z.isNone
        s.z.isNone s.atomsStart.isNone = some e → fpFinish s short = .error e) ∧
    (Gen.LoadSource.firstpassCheck short s.natoms.isNone s.x.isNone s.x.isNone s.y.isNone s.y.isNone s.z.isNone
        s.z.isNone s.atomsStart.isNone = none →
      fpFinish s short ≠ .error "format" ∧ fpFinish s short ≠ .error "notfound") := by
  unfold Gen.LoadSource.firstpassCheck fpFinish
  cases short <;> cases hn : s.natoms <;> cases hx : s.x <;> cases hy : s.y <;> cases hz : s.z <;>
    cases ha : s.atomsStart <;>
    simp [bind, Except.bind, pure, Except.pure, throw, throwThe, MonadExceptOf.throw] <;>
    (repeat' split) <;> simp

/-- **gen_chooseStyle_eq_model**: argument / `Atoms` comment / default `atomic`, refusal when both are given and
    differ. -/
theorem gen_chooseStyle_eq_model (arg : Option String) (hint : Option (List Char)) :
    Gen.LoadSource.chooseStyle arg (hint.map String.ofList) = chooseStyle arg hint := by
  cases arg <;> cases hint <;> simp [Gen.LoadSource.chooseStyle, chooseStyle, pure, Except.pure]
  split <;> simp_all [throw, throwThe, MonadExceptOf.throw]

/-- **readAtoms_eq_gen**: `read_atoms` of the model takes the branch the regenerated column-count decision selects:
    image flags exactly when the first atom line has three columns more than the style, the format error for any other
    count that differs. -/
theorem readAtoms_eq_gen (rows : List Line) (atomsColumns : Nat) (s : Loaded) (style : String) (u : Units) :
    readAtoms rows atomsColumns s style u =
      (lookupCols Gen.LoadStyles.atomStyles style u).bind fun cols =>
        (tableLoad s rows cols true).bind fun s1 =>
          match Gen.LoadSource.readAtomsCase atomsColumns (colsWidth cols) with
          | 0 => applyFlags s1 rows (colsWidth cols)
          | 1 => .error Gen.LoadSource.readAtomsError
          | _ => .ok s1 := by
  unfold readAtoms
  simp only [bind]
  congr 1
  funext cols
  congr 1
  funext s1
  simp only [Gen.LoadSource.readAtomsCase, Gen.LoadSource.readAtomsError]
  by_cases h1 : atomsColumns = colsWidth cols + 3
  · simp [h1]
  · by_cases h2 : colsWidth cols = atomsColumns
    · simp [h1, h2, pure, Except.pure]
    · simp [h1, h2, throw, throwThe, MonadExceptOf.throw]

/-! ## dump file: the header chain, the bounding-box inversion, the boundary flags, the position variants -/

/-- the branch of the header chain the model takes. -/
def dsBranch (terms : Line) (readNatoms readTimestep : Bool) (bcount : Nat) : Nat :=
  if readNatoms then 0 else if readTimestep then 1 else if bcount = 0 then 2 else if bcount = 1 then 3
  else if bcount = 2 then 4
  else if terms.head? = some (cs!"ITEM:") then
    match terms[1]? with
    | some t1 =>
      if t1 = cs!"TIMESTEP" then 5 else if t1 = cs!"NUMBER" then 6 else if t1 = cs!"BOX" then 7
      else if t1 = cs!"ATOMS" then 8 else 9
    | none => 9
  else 10

/-- **gen_dumpBranch_eq_model**: pending reads first, then the three box lines by `bcount`, then `ITEM:` lines by their
    second term — keywords and order as they stand in the source now. -/
theorem gen_dumpBranch_eq_model (terms : Line) (rn rt : Bool) (bc : Nat) :
    Gen.LoadSource.dumpBranch terms rn rt bc = dsBranch terms rn rt bc := by
  unfold Gen.LoadSource.dumpBranch dsBranch Gen.LoadSource.termIs
  rcases terms with _ | ⟨a, _ | ⟨b, r⟩⟩ <;> cases rn <;> cases rt <;>
    by_cases h0 : bc = 0 <;> by_cases h1 : bc = 1 <;> by_cases h2 : bc = 2 <;> simp [h0, h1, h2]

/-- the action of branch `k` of the header chain. -/
def dsAct (lf : Option Rat) (terms : Line) (s : DSC) : Nat → Res (DSC × Bool)
  | 0 => do
    let n ← pyInt (← term terms 0)
    pure ({ s with natoms := some n, readNatoms := false }, false)
  | 1 => pure ({ s with readTimestep := false }, false)
  | 2 => do
    let (a, b, t) ← boundsLine lf terms
    pure ({ s with xlo := some a, xhi := some b, xy := t.getD s.xy, bcount := 1 }, false)
  | 3 => do
    let (a, b, t) ← boundsLine lf terms
    pure ({ s with ylo := some a, yhi := some b, xz := t.getD s.xz, bcount := 2 }, false)
  | 4 => do
    let (a, b, t) ← boundsLine lf terms
    match t with
    | none => pure ({ s with zlo := some a, zhi := some b, bcount := 3 }, false)
    | some yz =>
      match s.xlo, s.xhi, s.ylo, s.yhi with
      | some xlo, some xhi, some ylo, some yhi =>
        let r := Gen.LoadSource.bboxInvert xlo xhi ylo yhi s.xy s.xz yz
        pure ({ s with zlo := some a, zhi := some b, yz := yz, bcount := 3,
                       xlo := some r.1, xhi := some r.2.1, ylo := some r.2.2.1, yhi := some r.2.2.2 }, false)
      | _, _, _, _ => throw "name"
  | 5 => do let _ ← term terms 1; pure ({ s with readTimestep := true }, false)
  | 6 => do let _ ← term terms 1; pure ({ s with readNatoms := true }, false)
  | 7 => do
    let _ ← term terms 1
    pure ({ s with pbc := some ⟨Gen.LoadSource.ppFlag terms 0, Gen.LoadSource.ppFlag terms 1, Gen.LoadSource.ppFlag terms 2⟩,
                   bcount := 0 }, false)
  | 8 => do let _ ← term terms 1; pure ({ s with names := some (terms.drop 2) }, true)
  | 9 => do let _ ← term terms 1; pure (s, false)
  | _ => pure (s, false)

/-- **gen_bboxInvert_eq_model**: "convert from max, min to hi, lo" as the source computes it now is the inversion of
    the model (`minR` / `maxR` chains over `0, xy, xz, xy + xz` and `0, yz`). -/
theorem gen_bboxInvert_eq_model (xlo xhi ylo yhi xy xz yz : Rat) :
    Gen.LoadSource.bboxInvert xlo xhi ylo yhi xy xz yz =
      (xlo - minR (minR (minR 0 xy) xz) (xy + xz), xhi - maxR (maxR (maxR 0 xy) xz) (xy + xz),
       ylo - minR 0 yz, yhi - maxR 0 yz) := by
  simp only [Gen.LoadSource.bboxInvert, Gen.LoadSource.minL, Gen.LoadSource.maxL, List.foldl_cons, List.foldl_nil, minR,
    maxR]
  rfl

/-- **gen_ppFlag_eq_model**: the boundary flag of direction `k` is read at Python index `k + len(terms) - 3`. -/
theorem gen_ppFlag_eq_model (terms : Line) (k : Int) :
    Gen.LoadSource.ppFlag terms k = decide (pyIndex terms (k + (terms.length : Int) - 3) = some (cs!"pp")) := by
  unfold Gen.LoadSource.ppFlag Gen.LoadSource.pyGet pyIndex
  rw [Bool.eq_iff_iff]
  simp only [beq_iff_eq, decide_eq_true_eq]

/-- **dsCore_eq_gen**: one iteration of the model's header loop IS the action of the branch that the regenerated
    decision chain selects, with the regenerated bounding-box inversion and boundary-flag index inside the actions. -/
theorem dsCore_eq_gen (lf : Option Rat) (terms : Line) (s : DSC) :
    dsCore lf terms s =
      if terms.isEmpty then pure (s, false)
      else dsAct lf terms s (Gen.LoadSource.dumpBranch terms s.readNatoms s.readTimestep s.bcount) := by
  rw [gen_dumpBranch_eq_model]
  obtain ⟨pbc, natoms, xlo, xhi, ylo, yhi, zlo, zhi, xy, xz, yz, rn, rt, bc, names⟩ := s
  unfold dsCore dsBranch
  by_cases he : terms.isEmpty
  · simp [he]
  simp only [he, if_false, Bool.false_eq_true]
  cases rn
  · cases rt
    · by_cases h0 : bc = 0
      · subst h0; simp [dsAct]
      by_cases h1 : bc = 1
      · subst h1; simp [dsAct]
      by_cases h2 : bc = 2
      · subst h2; simp [dsAct, gen_bboxInvert_eq_model]
        congr 1
      by_cases hi : terms.head? = some (cs!"ITEM:")
      · simp only [h0, h1, h2, hi, if_true, if_false, Bool.false_eq_true]
        cases h1t : terms[1]? with
        | none => simp [term, h1t, dsAct, bind, Except.bind, throw, throwThe, MonadExceptOf.throw]
        | some t1 =>
          simp only [term, h1t, bind, Except.bind, pure, Except.pure]
          by_cases a1 : t1 = cs!"TIMESTEP"
          · simp [a1, dsAct, term, h1t, bind, Except.bind, pure, Except.pure]
          by_cases a2 : t1 = cs!"NUMBER"
          · simp [a1, a2, dsAct, term, h1t, bind, Except.bind, pure, Except.pure]
          by_cases a3 : t1 = cs!"BOX"
          · simp [a1, a2, a3, dsAct, term, h1t, bind, Except.bind, pure, Except.pure, gen_ppFlag_eq_model]
          by_cases a4 : t1 = cs!"ATOMS"
          · simp [a1, a2, a3, a4, dsAct, term, h1t, bind, Except.bind, pure, Except.pure]
          simp [a1, a2, a3, a4, dsAct, term, h1t, bind, Except.bind, pure, Except.pure]
      · simp [h0, h1, h2, hi, dsAct]
    · simp [dsAct]
  · simp [dsAct]

/-- **gen_posLike_eq_model**: the property names the dump-file reader stores as `pos` are the position variants of the
    writer model (`C07.isPosLike`). -/
theorem gen_posLike_eq_model (p : String) : isPosLike p = Gen.LoadSource.posLike.contains p := by
  unfold isPosLike Gen.LoadSource.posLike
  rw [Bool.eq_iff_iff]
  simp only [List.contains_cons, List.contains_nil, Bool.or_eq_true, decide_eq_true_eq, beq_iff_eq, Bool.or_false]
  tauto

/-! ## POSCAR and table readers -/

/-- **gen_poscarIsCartesian_eq_model**: the coordinate-style test on the first character of the raw line. -/
theorem gen_poscarIsCartesian_eq_model (l : RawLine) : isCartesianLine l = Gen.LoadSource.poscarIsCartesian l := by
  cases l with
  | nil => rfl
  | cons c r =>
    simp only [isCartesianLine, Gen.LoadSource.poscarIsCartesian, List.contains_cons, List.contains_nil, Bool.or_false]
    rw [Bool.eq_iff_iff]
    simp only [Bool.or_eq_true, decide_eq_true_eq, beq_iff_eq]
    tauto

/-- the line numbers `loadPoscarLines` reads (scale; cell vectors; counts / style / first coordinate line without a
    symbols line; symbols / counts / style / first coordinate line with one; terms of a coordinate line). -/
def poscarLayoutModel : Nat × List Nat × (Nat × Nat × Nat) × (Nat × Nat × Nat × Nat) × Nat :=
  (1, [2, 3, 4], (5, 6, 7), (5, 6, 7, 8), 3)

theorem gen_poscarLayout_eq_model :
    (Gen.LoadSource.poscarScaleLine, Gen.LoadSource.poscarLatticeLines, Gen.LoadSource.poscarNoSymbols,
      Gen.LoadSource.poscarWithSymbols, Gen.LoadSource.poscarCoordTerms) = poscarLayoutModel := rfl

/-- **gen_tableKeys_eq_model**: the table reader sorts by the column named `id` when there is one (`idIndex`), skips the
    property `a_id` (`assignCols`), and converts by `None` / `"scaled"` / a unit (`LUnit`, `convertCells`). -/
theorem gen_tableKeys_eq_model :
    Gen.LoadSource.tableSortKey = "id" ∧ Gen.LoadSource.tableSkippedProp = "a_id" ∧
    Gen.LoadSource.tableConv none = 0 ∧ Gen.LoadSource.tableConv (some "scaled") = 1 ∧
    (∀ w, w ≠ "scaled" → Gen.LoadSource.tableConv (some w) = 2) := by
  refine ⟨rfl, rfl, rfl, by decide, ?_⟩
  intro w hw
  simp [Gen.LoadSource.tableConv, hw]

theorem idIndex_eq_gen (cols : List PCol) :
    idIndex cols =
      (let names := (cols.map (·.names)).flatten
       let i := names.findIdx (· = Gen.LoadSource.tableSortKey)
       if i < names.length then some i else none) := rfl

/-! ## statement pins: code that is not a Lean definition (pandas calls, bodies of branches) -/

/-- what a line of the data file is cut into: decoded, cut at the first `#`, `split()` — `termsC`. -/
theorem gen_firstpassSplit_pinned : Gen.LoadSource.firstpassSplit =
  ["try:\n    fullline = fullline.decode('UTF-8')\nexcept:\n    pass",
   "try:\n    comment_index = fullline.index('#')\nexcept:\n    line = fullline\nelse:\n    line = fullline[:comment_index]",
   "terms = line.split()"] := rfl

/-- the bodies of the eleven branches of `firstpass` — `fpAct 0 … 10` (`int` / `float` of which term, the length unit, `i + 1`, the atom_style comment stripped, `natypes` needed before `Masses`). -/
theorem gen_firstpassBodies_pinned : Gen.LoadSource.firstpassBodies =
  [["natoms = int(terms[0])"],
   ["natypes = int(terms[0])"],
   ["xlo = uc.set_in_units(float(terms[0]), units_dict['length'])",
   "xhi = uc.set_in_units(float(terms[1]), units_dict['length'])"],
   ["ylo = uc.set_in_units(float(terms[0]), units_dict['length'])",
   "yhi = uc.set_in_units(float(terms[1]), units_dict['length'])"],
   ["zlo = uc.set_in_units(float(terms[0]), units_dict['length'])",
   "zhi = uc.set_in_units(float(terms[1]), units_dict['length'])"],
   ["xy = uc.set_in_units(float(terms[0]), units_dict['length'])",
   "xz = uc.set_in_units(float(terms[1]), units_dict['length'])",
   "yz = uc.set_in_units(float(terms[2]), units_dict['length'])"],
   ["atomsstart = i + 1",
   "firstatoms = True",
   "try:\n    comment_index = fullline.index('#')\nexcept:\n    atom_style = None\nelse:\n    atom_style = fullline[comment_index + 1:].strip()"],
   ["atomscolumns = len(terms)",
   "firstatoms = False"],
   ["if natypes is None:\n    raise FileFormatError('# atom types must appear before Masses list')",
   "masses = [None for i in range(natypes)]",
   "num_masses_to_read = natypes"],
   ["read_mass(terms, masses)",
   "num_masses_to_read -= 1"],
   ["velocitiesstart = i + 1"]] := rfl

/-- the box, the atoms, the system and the returned offsets — `fpFinish`, `Loaded.init`. -/
theorem gen_firstpassTail_pinned : Gen.LoadSource.firstpassTail =
  ["box = Box(xlo=xlo, xhi=xhi, ylo=ylo, yhi=yhi, zlo=zlo, zhi=zhi, xy=xy, xz=xz, yz=yz)",
   "atoms = Atoms(natoms=natoms)",
   "system = System(box=box, atoms=atoms, pbc=pbc, symbols=symbols, masses=masses)",
   "params = {}",
   "params['atomsstart'] = atomsstart",
   "params['velocitiesstart'] = velocitiesstart",
   "params['atomscolumns'] = atomscolumns",
   "params['atom_style'] = atom_style",
   "return (system, params)"] := rfl

/-- the initial values — `({} : FP)`. -/
theorem gen_firstpassInit_pinned : Gen.LoadSource.firstpassInit =
  ["units_dict = style.unit(units)",
   "atomsstart = None",
   "velocitiesstart = None",
   "natoms = None",
   "natypes = None",
   "firstatoms = False",
   "atomscolumns = 0",
   "masses = None",
   "num_masses_to_read = 0",
   "xlo = xhi = ylo = yhi = zlo = zhi = None",
   "xy = 0.0",
   "xz = 0.0",
   "yz = 0.0",
   "i = 0"] := rfl

/-- stream read first, first pass, comments removed, `read_atoms`, `read_velocities` — `loadDataLines`. -/
theorem gen_dataLoadCalls_pinned : Gen.LoadSource.dataLoadCalls =
  ["if hasattr(data, 'read'):\n    data = data.read()",
   "system, params = firstpass(data, pbc, symbols, units)",
   "data = remove_comments(data)",
   "system = read_atoms(data, system, atom_style, units, params['atomsstart'], params['atomscolumns'])",
   "system = read_velocities(data, system, atom_style, units, params['velocitiesstart'])",
   "return system"] := rfl

/-- the table read of `read_atoms` (`skiprows`, `nrows`, `comment`, `usecols=range(ncols)`) — `tableLoad … true`. -/
theorem gen_readAtomsTable_pinned : Gen.LoadSource.readAtomsTable =
  ["prop_info = atoms_prop_info(atom_style, units)",
   "ncols = countreadcolumns(prop_info)",
   "system = amload('table', data, box=system.box, system=system, prop_info=prop_info, skiprows=atomsstart, nrows=system.natoms, comment='#', header=None, usecols=range(ncols))"] := rfl

/-- the image-flag read (`usecols=[0] + range(ncols, atomscolumns)`, `int64`), sort by id, shift by `box.vects` — `applyFlags`. -/
theorem gen_readAtomsFlags_pinned : Gen.LoadSource.readAtomsFlags =
  ["with uber_open_rmode(data) as f:\n    imageflags = pd.read_csv(f, sep='\\\\s+', names=['id', 'bx', 'by', 'bz'], skiprows=atomsstart, nrows=system.natoms, comment='#', header=None, usecols=[0] + list(range(ncols, atomscolumns)), dtype='int64')",
   "imageflags = imageflags.sort_values('id')[['bx', 'by', 'bz']]",
   "shift = imageflags.values.dot(system.box.vects)",
   "system.atoms.pos[:] += shift"] := rfl

/-- `read_mass` — `readMass`. -/
theorem gen_readMass_pinned : Gen.LoadSource.readMass =
  ["try:\n    assert len(terms) == 2\n    atype = int(terms[0])\n    assert atype > 0 and atype <= len(masses)\n    mass = float(terms[1])\n    assert mass > 0\nexcept:\n    raise FileFormatError('Invalid mass term')",
   "if masses[atype - 1] is None:\n    masses[atype - 1] = mass\nelse:\n    raise FileFormatError(f'Multiple masses listed for atom type {atype}')"] := rfl

/-- `remove_comments` — `rowsOf true`. -/
theorem gen_removeComments_pinned : Gen.LoadSource.removeComments =
  ["with uber_open_rmode(data) as fp:\n    return b''.join([line.split(b'#')[0].rstrip() + b'\\n' for line in fp])"] := rfl

/-- `countreadcolumns` — `colsWidth`. -/
theorem gen_countReadColumns_pinned : Gen.LoadSource.countReadColumns =
  ["count = 0",
   "for prop in prop_info:\n    if isinstance(prop['table_name'], str):\n        count += 1\n    else:\n        count += len(prop['table_name'])",
   "return count"] := rfl

/-- `read_velocities` — `readVelocities`. -/
theorem gen_readVelocities_pinned : Gen.LoadSource.readVelocities =
  ["if velocitiesstart is not None:\n    prop_info = velocities_prop_info(atom_style, units)\n    system = amload('table', data, box=system.box, system=system, prop_info=prop_info, skiprows=velocitiesstart, nrows=system.natoms, comment='#', header=None)",
   "return system"] := rfl

/-- the bodies of the pending-read and box-line branches — `dsAct 0 … 4` (which tilt goes with which box line). -/
theorem gen_dumpBodies_pinned : Gen.LoadSource.dumpBodies =
  [["natoms = int(terms[0])", "readnatoms = False"],
   ["readtimestep = False"],
   ["xlo = uc.set_in_units(float(terms[0]), lammps_unit['length'])", "xhi = uc.set_in_units(float(terms[1]), lammps_unit['length'])", "if len(terms) == 3:\n    xy = uc.set_in_units(float(terms[2]), lammps_unit['length'])", "bcount += 1"],
   ["ylo = uc.set_in_units(float(terms[0]), lammps_unit['length'])", "yhi = uc.set_in_units(float(terms[1]), lammps_unit['length'])", "if len(terms) == 3:\n    xz = uc.set_in_units(float(terms[2]), lammps_unit['length'])", "bcount += 1"],
   ["zlo = uc.set_in_units(float(terms[0]), lammps_unit['length'])", "zhi = uc.set_in_units(float(terms[1]), lammps_unit['length'])", "if len(terms) == 3: yz = uc.set_in_units(float(terms[2]), lammps_unit['length'])", "bcount += 1"]] := rfl

/-- the bodies of the `ITEM:` branches — `dsAct 5 … 8` (`terms[2:]`, `i + 1`). -/
theorem gen_dumpItemBodies_pinned : Gen.LoadSource.dumpItemBodies =
  [["readtimestep = True"],
   ["readnatoms = True"],
   ["pbc = [True, True, True]",
   "for i in range(3):\n    if terms[i + len(terms) - 3] != 'pp':\n        pbc[i] = False",
   "bcount = 0"],
   ["name_list = terms[2:]",
   "if prop_info is None and prop_name is None:\n    assert table_name is None, 'table_name cannot be given without prop_name'\n    prop_name, table_name = matchprops(name_list)",
   "atomsstart = i + 1"]] := rfl

/-- `ITEM: BOX`: all periodic unless a flag says otherwise, `bcount = 0`. -/
theorem gen_dumpBoxBody_pinned : Gen.LoadSource.dumpBoxBody =
  ["pbc = [True, True, True]",
   "bcount = 0"] := rfl

/-- the initial values — `({} : DSC)` (`bcount = 3`). -/
theorem gen_dumpInit_pinned : Gen.LoadSource.dumpInit =
  ["lammps_unit = style.unit(lammps_units)",
   "pbc = None",
   "box = None",
   "natoms = None",
   "atomsstart = None",
   "xy = 0.0",
   "xz = 0.0",
   "yz = 0.0",
   "readnatoms = False",
   "readtimestep = False",
   "bcount = 3"] := rfl

/-- a line of the dump file: decoded, `split()` — `termsN`. -/
theorem gen_dumpSplit_pinned : Gen.LoadSource.dumpSplit =
  ["terms = line.decode('UTF-8').split()"] := rfl

/-- after the header loop: box, atoms, system, `process_prop_info`, every position variant stored as `pos` (the flag is never cleared), the table read — `loadDumpCore`. -/
theorem gen_dumpTail_pinned : Gen.LoadSource.dumpTail =
  ["box = Box(xlo=xlo, xhi=xhi, ylo=ylo, yhi=yhi, zlo=zlo, zhi=zhi, xy=xy, xz=xz, yz=yz)",
   "atoms = Atoms(natoms=natoms)",
   "system = System(box=box, atoms=atoms, pbc=pbc)",
   "prop_info = process_prop_info(prop_name=prop_name, table_name=table_name, shape=shape, unit=unit, dtype=dtype, prop_info=prop_info, lammps_units=lammps_units)",
   "firstpos = True",
   "short_prop_info = []",
   "for pinfo in prop_info:\n    if pinfo['prop_name'] in ['pos', 'spos', 'upos', 'supos']:\n        if firstpos:\n            pinfo['prop_name'] = 'pos'\n        else:\n            continue\n    short_prop_info.append(pinfo)",
   "system = amload('table', data, box=system.box, symbols=symbols, system=system, prop_info=short_prop_info, skiprows=atomsstart, nrows=natoms)",
   "if return_prop_info:\n    return (system, short_prop_info)\nelse:\n    return system"] := rfl

/-- `matchprops` — `matchProps`. -/
theorem gen_matchprops_pinned : Gen.LoadSource.matchprops =
  ["prop2table = OrderedDict()",
   "for item in items:\n    for sinfo in standard_conversions():\n        match = False\n        table_names = sinfo['table_name']\n        if not isinstance(table_names, list):\n            table_names = [table_names]\n        if item in table_names:\n            match = True\n            break\n    if match is True:\n        name = sinfo['prop_name']\n    else:\n        name = item\n    if name not in prop2table:\n        if match is True:\n            for table_name in table_names:\n                assert table_name in items, 'Incomplete propery ' + str(name)\n        prop2table[name] = []\n    prop2table[name].append(item)",
   "prop_name = list(prop2table.keys())",
   "table_name = list(prop2table.values())",
   "for i in range(len(table_name)):\n    if len(table_name[i]) == 1:\n        table_name[i] = table_name[i][0]",
   "return (prop_name, table_name)"] := rfl

/-- atom types `1, 2, …` repeated by the counts — `atypeOfCounts`. -/
theorem gen_poscarAtype_pinned : Gen.LoadSource.poscarAtype =
  ["atype = np.array([], dtype='int64')",
   "for i in range(len(typenums)):\n    atype = np.hstack((atype, np.full(typenums[i], i + 1, dtype='int64')))"] := rfl

/-- the loop over the coordinate lines — `coordLine`. -/
theorem gen_poscarCoordLoop_pinned : Gen.LoadSource.poscarCoordLoop =
  ["for i in range(natoms):\n    terms = lines[i + start_i].split()\n    if len(terms) > 0:\n        pos[count, :] = np.array(terms[:3], dtype='float64')\n    count += 1"] := rfl

/-- the symbols argument wins over the symbols line — `symbols.getD elements`. -/
theorem gen_poscarSymbols_pinned : Gen.LoadSource.poscarSymbols =
  ["if symbols is None:\n    symbols = elements"] := rfl

/-- cell, atom count, atoms, system (`scale=` Direct coordinates) — `loadPoscarLines`. -/
theorem gen_poscarSystem_pinned : Gen.LoadSource.poscarSystem =
  ["box = Box(avect=avect, bvect=bvect, cvect=cvect)",
   "natoms = np.sum(typenums)",
   "atoms = Atoms(prop=prop)",
   "system = System(atoms=atoms, box=box, scale=scale, symbols=symbols)"] := rfl

/-- the table reader: `process_prop_info`, the pandas call, sort by `id`, the system, the loop over the properties (reshape to `(natoms,) + shape`, conversion, dtype, assignment), symbols — `tableLoad`, `propOfColumn`, `assignProp`. -/
theorem gen_tableBody_pinned : Gen.LoadSource.tableBody =
  ["prop_info = process_prop_info(prop_name=prop_name, table_name=table_name, shape=shape, unit=unit, dtype=dtype, prop_info=prop_info)",
   "table_name = []",
   "for prop in prop_info:\n    table_name += prop['table_name']",
   "with uber_open_rmode(table) as f:\n    df = pd.read_csv(f, sep='\\\\s+', names=table_name, skiprows=skiprows, nrows=nrows, comment=comment, header=header, usecols=usecols)",
   "if 'id' in df:\n    df = df.sort_values('id')",
   "natoms = len(df)",
   "if system is None:\n    system = System(atoms=Atoms(natoms=natoms), box=box)",
   "for prop in prop_info:\n    pname = prop['prop_name']\n    if pname == 'a_id':\n        continue\n    value = df[prop['table_name']].values.reshape((natoms,) + prop['shape'])\n    if prop['unit'] is not None:\n        if prop['unit'] == 'scaled':\n            value = system.box.position_relative_to_cartesian(value)\n        else:\n            value = uc.set_in_units(value, prop['unit'])\n    value = np.asarray(value, dtype=prop['dtype'])\n    system.atoms.view[pname] = value",
   "if symbols is not None:\n    system.symbols = symbols",
   "return system"] := rfl

end Atomman.C08
