/-
  C19 — helper lemmas for `Log.read`: whitespace splitting of printed cells, trigger search, the thermo part of the
  single pass in closed form, the table blocks cut out of the non-blank lines.
-/
import Atomman.C19
import Mathlib.Data.List.Basic

set_option linter.unusedSimpArgs false
set_option linter.unusedVariables false

namespace Atomman.C19
open List

/-! ### `str.split()` on printed cells -/

theorem splitWsAux_ws (cur ws rest : Str) (hws : ws.all isWs = true) :
    splitWsAux cur (ws ++ rest) =
      if ws = [] then splitWsAux cur rest
      else (if cur = [] then [] else [cur.reverse]) ++ splitWsAux [] rest := by
  induction ws generalizing cur with
  | nil => simp
  | cons c cs ih =>
    simp only [all_cons, Bool.and_eq_true] at hws
    simp only [cons_append, splitWsAux, hws.1, if_true, reduceCtorEq, if_false]
    rw [ih [] hws.2]
    by_cases hcur : cur = []
    · subst hcur
      by_cases hcs : cs = [] <;> simp [hcs]
    · have : cur.isEmpty = false := by cases cur <;> simp_all
      by_cases hcs : cs = [] <;> simp [hcs, hcur, this]

theorem splitWsAux_tok (cur tok rest : Str) (htok : tok.all (fun x => !isWs x) = true) :
    splitWsAux cur (tok ++ rest) = splitWsAux (tok.reverse ++ cur) rest := by
  induction tok generalizing cur with
  | nil => simp
  | cons c cs ih =>
    simp only [all_cons, Bool.and_eq_true, Bool.not_eq_true'] at htok
    simp only [cons_append, splitWsAux, htok.1, Bool.false_eq_true, if_false]
    rw [ih _ (by simpa using htok.2)]
    simp

/-- `X` is empty or begins with whitespace: a token printed before it ends there. -/
def Terminated (X : Str) : Prop := X = [] ∨ ∃ c rest, X = c :: rest ∧ isWs c = true

theorem splitWsAux_terminated (cur X : Str) (hX : Terminated X) :
    splitWsAux cur X = (if cur = [] then [] else [cur.reverse]) ++ splitWs X := by
  rcases hX with rfl | ⟨c, rest, rfl, hc⟩
  · cases cur <;> simp [splitWsAux, splitWs]
  · cases cur <;> simp [splitWsAux, splitWs, hc]

theorem renderCells_cons (c : Cell) (cs : List Cell) (X : Str) :
    renderCells (c :: cs) X = c.pad ++ (c.tok ++ renderCells cs X) := by
  simp [renderCells]

theorem splitWsAux_renderCells (cells : List Cell) (X cur : Str) (hX : Terminated X)
    (hok : cellsOk false cells = true) :
    splitWsAux cur (renderCells cells X)
      = (if cur = [] then [] else [cur.reverse]) ++ cells.map Cell.tok ++ splitWs X := by
  induction cells generalizing cur with
  | nil => simpa [renderCells] using splitWsAux_terminated cur X hX
  | cons c cs ih =>
    simp only [cellsOk, Bool.and_eq_true, Bool.or_eq_true, Bool.false_eq_true, false_or,
      Bool.not_eq_true'] at hok
    obtain ⟨⟨⟨⟨hpad, hpne⟩, htne⟩, htok⟩, hcs⟩ := hok
    have hpne' : c.pad ≠ [] := by cases h : c.pad <;> simp_all
    have htne' : c.tok ≠ [] := by cases h : c.tok <;> simp_all
    rw [renderCells_cons, splitWsAux_ws _ _ _ hpad, if_neg hpne', splitWsAux_tok _ _ _ htok,
      ih _ hcs]
    simp [htne']

/-- **the printed tokens are read back**: `line.split()` of a line of padded cells is the list of its tokens. -/
theorem splitWs_renderCells (cells : List Cell) (X : Str) (hX : Terminated X)
    (hok : cellsOk true cells = true) :
    splitWs (renderCells cells X) = cells.map Cell.tok ++ splitWs X := by
  cases cells with
  | nil => simp [renderCells]
  | cons c cs =>
    simp only [cellsOk, Bool.and_eq_true, Bool.or_eq_true, Bool.not_eq_true'] at hok
    obtain ⟨⟨⟨⟨hpad, _⟩, htne⟩, htok⟩, hcs⟩ := hok
    have htne' : c.tok ≠ [] := by cases h : c.tok <;> simp_all
    unfold splitWs
    rw [renderCells_cons, splitWsAux_ws _ _ _ hpad]
    have h2 : splitWsAux [] (c.tok ++ renderCells cs X) = c.tok :: cs.map Cell.tok ++ splitWsAux [] X := by
      rw [splitWsAux_tok _ _ _ htok, splitWsAux_renderCells cs X _ hX hcs]
      simp [htne', splitWs]
    by_cases hp : c.pad = [] <;> simp [hp, h2]

theorem splitWs_ws (X : Str) (h : X.all isWs = true) : splitWs X = [] := by
  have := splitWsAux_ws [] X [] h
  simp only [append_nil] at this
  unfold splitWs
  rw [this]
  by_cases hX : X = [] <;> simp [hX, splitWsAux]

theorem terminated_of_ws (X : Str) (h : X.all isWs = true) : Terminated X := by
  cases X with
  | nil => exact Or.inl rfl
  | cons c cs => simp only [all_cons, Bool.and_eq_true] at h; exact Or.inr ⟨c, cs, rfl, h.1⟩

/-- a line of at least one cell is not blank. -/
theorem isBlank_renderCells (c : Cell) (cs : List Cell) (X : Str) (hok : cellsOk true (c :: cs) = true) :
    isBlank (renderCells (c :: cs) X) = false := by
  simp only [cellsOk, Bool.and_eq_true, Bool.or_eq_true, Bool.not_eq_true'] at hok
  obtain ⟨⟨⟨_, htne⟩, htok⟩, _⟩ := hok
  cases htk : c.tok with
  | nil => simp [htk] at htne
  | cons a as =>
    rw [htk] at htok
    simp only [all_cons, Bool.and_eq_true, Bool.not_eq_true'] at htok
    unfold isBlank
    rw [renderCells_cons, htk, Bool.eq_false_iff]
    intro hall
    rw [all_eq_true] at hall
    have := hall a (by simp)
    rw [htok.1] at this
    exact absurd this (by decide)

/-! ### `trigger in line` -/

theorem isPrefixOf_append (t r : Str) : t.isPrefixOf (t ++ r) = true := by
  induction t with
  | nil => simp
  | cons c cs ih => simp [isPrefixOf, ih]

theorem containsStr_append_left (t pre r : Str) : containsStr t (pre ++ t ++ r) = true := by
  induction pre with
  | nil =>
    cases h : [] ++ t ++ r with
    | nil =>
      have : t = [] := by cases t <;> simp_all
      subst this; simp [containsStr]
    | cons c cs =>
      simp only [containsStr, Bool.or_eq_true]
      left
      rw [← h]
      simp [isPrefixOf_append t r]
  | cons c cs ih =>
    simp only [cons_append, containsStr, Bool.or_eq_true]
    right
    simpa using ih

theorem hasAny_of_mem (ts : List Str) (t pre r : Str) (ht : t ∈ ts) : hasAny ts (pre ++ t ++ r) = true := by
  unfold hasAny
  rw [any_eq_true]
  exact ⟨t, ht, containsStr_append_left t pre r⟩

/-! ### blank lines are neither counted nor read -/

/-- number of counted (non-blank) lines. -/
def cnt (ls : List Str) : Nat := (nonBlank ls).length

theorem nonBlank_append (a b : List Str) : nonBlank (a ++ b) = nonBlank a ++ nonBlank b := by
  simp [nonBlank]

theorem nonBlank_cons_nb (l : Str) (ls : List Str) (h : isBlank l = false) :
    nonBlank (l :: ls) = l :: nonBlank ls := by
  simp [nonBlank, h]

theorem nonBlank_cons_blank (l : Str) (ls : List Str) (h : isBlank l = true) :
    nonBlank (l :: ls) = nonBlank ls := by
  simp [nonBlank, h]

theorem nonBlank_of_blank (ls : List Str) (h : ∀ l ∈ ls, isBlank l = true) : nonBlank ls = [] := by
  simp only [nonBlank, filter_eq_nil_iff, Bool.not_eq_true', Bool.not_eq_false]
  exact h

theorem nonBlank_flatMap {β : Type} (f : β → List Str) (xs : List β) :
    nonBlank (xs.flatMap f) = xs.flatMap (fun x => nonBlank (f x)) := by
  induction xs with
  | nil => rfl
  | cons x xs ih => simp [nonBlank_append, ih]

theorem cnt_append (a b : List Str) : cnt (a ++ b) = cnt a + cnt b := by
  simp [cnt, nonBlank_append]

/-! ### the thermo part of the single pass -/

/-- the fields of `Scan` the thermo bookkeeping reads and writes. -/
structure TS where
  i : Nat
  hs : List Int
  fs : List Int

def Scan.ts (s : Scan) : TS := ⟨s.i, s.thermoHeaders, s.thermoFooters⟩

def tsStep (s : TS) (line : Str) : TS :=
  if isBlank line then s
  else if hasAny thermoStart line then ⟨s.i + 1, s.hs ++ [(s.i : Int) + Gen.Log.thermoHeaderOffset], s.fs⟩
  else if hasAny thermoEnd line then ⟨s.i + 1, s.hs, s.fs ++ [(s.i : Int) + Gen.Log.thermoFooterOffset]⟩
  else ⟨s.i + 1, s.hs, s.fs⟩

theorem step_ts (s : Scan) (l : Str) : (Scan.step s l).ts = tsStep s.ts l := by
  unfold Scan.step tsStep Scan.ts
  by_cases hb : isBlank l = true
  · simp [hb]
  · simp only [hb, Bool.false_eq_true, if_false]
    split_ifs <;> rfl

theorem scan_ts (s : Scan) (ls : List Str) : (scan s ls).ts = ls.foldl tsStep s.ts := by
  induction ls generalizing s with
  | nil => rfl
  | cons l ls ih => simp only [scan, foldl_cons] at ih ⊢; rw [ih, step_ts]

theorem foldl_tsStep_quiet (s : TS) (ls : List Str) (h : ∀ l ∈ ls, Quiet l) :
    ls.foldl tsStep s = ⟨s.i + cnt ls, s.hs, s.fs⟩ := by
  induction ls generalizing s with
  | nil => simp [cnt, nonBlank]
  | cons l ls ih =>
    rw [foldl_cons, ih _ (fun l' hl' => h l' (mem_cons_of_mem _ hl'))]
    by_cases hb : isBlank l = true
    · simp [tsStep, hb, cnt, nonBlank_cons_blank]
    · have hq := h l mem_cons_self
      rcases hq with hq | ⟨h1, h2⟩
      · exact absurd hq hb
      · simp only [Bool.not_eq_true] at hb
        simp only [tsStep, hb, h1, h2, Bool.false_eq_true, if_false, cnt, nonBlank_cons_nb _ _ hb,
          length_cons, TS.mk.injEq, and_true]
        omega

/-! ### one run -/

/-- the counted lines of a run. -/
def Run.nb (r : Run) : List Str :=
  r.banner :: r.header :: (nonBlank r.body ++
    (match r.tail with | none => [] | some (loop, post) => loop :: nonBlank post))

theorem nonBlank_run_lines (r : Run) (last : Bool) (h : r.WF last) : nonBlank r.lines = r.nb := by
  unfold Run.lines Run.nb
  simp only [nonBlank_append, singleton_append, nonBlank_cons_nb _ _ h.banner_nb,
    nonBlank_of_blank _ h.gap_blank, nil_append, nonBlank_cons_nb _ _ h.header_nb, cons_append]
  congr 3
  have ht := h.tail_ok
  cases hr : r.tail with
  | none => simp [nonBlank]
  | some x =>
    obtain ⟨loop, post⟩ := x
    rw [hr] at ht
    simp only at ht
    simp [nonBlank_cons_nb _ _ ht.1]

/-- footers appended by a run: none if it is cut short. -/
def Run.footers (r : Run) (p : Nat) : List Int :=
  match r.tail with
  | none => []
  | some _ => [(p : Int) + 1 + (nonBlank r.body).length]

theorem foldl_tsStep_run (s : TS) (r : Run) (last : Bool) (h : r.WF last) :
    r.lines.foldl tsStep s = ⟨s.i + r.nb.length, s.hs ++ [(s.i : Int) + 1], s.fs ++ r.footers s.i⟩ := by
  have hgap : ∀ l ∈ r.gap, Quiet l := fun l hl => Or.inl (h.gap_blank l hl)
  have hcg : cnt r.gap = 0 := by simp [cnt, nonBlank_of_blank _ h.gap_blank]
  unfold Run.lines
  simp only [foldl_append, foldl_cons, foldl_nil]
  have h1 : tsStep s r.banner = ⟨s.i + 1, s.hs ++ [(s.i : Int) + 1], s.fs⟩ := by
    simp [tsStep, h.banner_nb, h.banner_start, Gen.Log.thermoHeaderOffset]
  rw [h1, foldl_tsStep_quiet _ _ hgap, hcg]
  have h2 : tsStep ⟨s.i + 1 + 0, s.hs ++ [(s.i : Int) + 1], s.fs⟩ r.header
      = ⟨s.i + 2, s.hs ++ [(s.i : Int) + 1], s.fs⟩ := by
    simp [tsStep, h.header_nb, h.header_quiet.1, h.header_quiet.2]
  rw [h2, foldl_tsStep_quiet _ _ h.body_quiet]
  have ht := h.tail_ok
  unfold Run.nb Run.footers
  cases hr : r.tail with
  | none =>
    simp only [foldl_nil, append_nil, length_cons, length_append, length_nil, TS.mk.injEq, and_true, cnt]
    omega
  | some x =>
    obtain ⟨loop, post⟩ := x
    rw [hr] at ht
    simp only at ht
    obtain ⟨hnb, hst, hen, hpost⟩ := ht
    simp only [foldl_cons]
    have h3 : tsStep ⟨s.i + 2 + cnt r.body, s.hs ++ [(s.i : Int) + 1], s.fs⟩ loop
        = ⟨s.i + 2 + cnt r.body + 1, s.hs ++ [(s.i : Int) + 1],
            s.fs ++ [(s.i : Int) + 1 + (nonBlank r.body).length]⟩ := by
      simp only [tsStep, hnb, hst, hen, Bool.false_eq_true, if_false, if_true, Gen.Log.thermoFooterOffset,
        TS.mk.injEq, true_and, append_cancel_left_eq, cons.injEq, and_true, cnt]
      push_cast
      omega
    rw [h3, foldl_tsStep_quiet _ _ hpost]
    simp only [length_cons, length_append, TS.mk.injEq, and_true, cnt]
    omega

/-! ### all runs -/

theorem runsWF_cons (r : Run) (rs : List Run) (h : runsWF (r :: rs)) :
    r.WF (rs.isEmpty) ∧ runsWF rs := by
  cases rs with
  | nil => exact ⟨h, trivial⟩
  | cons r' rs => exact ⟨h.1, h.2⟩

theorem tail_none_last (r : Run) (rs : List Run) (h : r.WF rs.isEmpty) (ht : r.tail = none) : rs = [] := by
  have := h.tail_ok
  rw [ht] at this
  simpa using this

/-- header line numbers recorded for runs starting at counted line `p`. -/
def hdrs (p : Nat) : List Run → List Int
  | [] => []
  | r :: rs => ((p : Int) + 1) :: hdrs (p + r.nb.length) rs

/-- footer line numbers recorded for runs starting at counted line `p`. -/
def ftrs (p : Nat) : List Run → List Int
  | [] => []
  | r :: rs => r.footers p ++ ftrs (p + r.nb.length) rs

theorem foldl_tsStep_runs (s : TS) (rs : List Run) (h : runsWF rs) :
    (rs.flatMap Run.lines).foldl tsStep s
      = ⟨s.i + (rs.flatMap Run.nb).length, s.hs ++ hdrs s.i rs, s.fs ++ ftrs s.i rs⟩ := by
  induction rs generalizing s with
  | nil => simp [hdrs, ftrs]
  | cons r rs ih =>
    obtain ⟨hr, hrs⟩ := runsWF_cons r rs h
    rw [flatMap_cons, foldl_append, foldl_tsStep_run s r _ hr, ih _ hrs]
    simp only [hdrs, ftrs, flatMap_cons, length_append, append_assoc, singleton_append, TS.mk.injEq,
      and_self, and_true]
    omega

theorem nonBlank_runs (rs : List Run) (h : runsWF rs) :
    nonBlank (rs.flatMap Run.lines) = rs.flatMap Run.nb := by
  induction rs with
  | nil => rfl
  | cons r rs ih =>
    obtain ⟨hr, hrs⟩ := runsWF_cons r rs h
    rw [flatMap_cons, nonBlank_append, nonBlank_run_lines r _ hr, ih hrs, flatMap_cons]

theorem readBlocks_nil_left (nb : List Str) (fs : List Int) : readBlocks nb [] fs = .ok [] := by
  cases fs <;> rfl

/-- the rows cut out for a run are its printed (non-blank) thermo lines. -/
theorem readThermo_run (nb pre rest : List Str) (r : Run) (k : Nat)
    (hnb : nb = pre ++ (r.banner :: r.header :: (nonBlank r.body ++ rest)))
    (hk : k = (nonBlank r.body).length ∨ (rest = [] ∧ (nonBlank r.body).length ≤ k))
    (hw : ∀ l ∈ r.body, (splitWs l).length ≤ (splitWs r.header).length) :
    readThermo nb ((pre.length : Int) + 1) ((pre.length : Int) + 1 + k) = .ok r.table := by
  unfold readThermo
  have h1 : ¬ ((pre.length : Int) + 1 + k - ((pre.length : Int) + 1) < 0) := by omega
  have h2 : ¬ ((pre.length : Int) + 1 < 0) := by omega
  have h3 : ((pre.length : Int) + 1).toNat = pre.length + 1 := by omega
  have h4 : ((pre.length : Int) + 1 + k - ((pre.length : Int) + 1)).toNat = k := by omega
  rw [if_neg h1, if_neg h2, h3, h4]
  have h5 : nb[pre.length + 1]? = some r.header := by
    rw [hnb, getElem?_append_right (by omega)]
    simp
  have h6 : (nb.drop (pre.length + 1 + 1)).take k = nonBlank r.body := by
    rw [hnb, show pre.length + 1 + 1 = pre.length + 2 by omega, drop_append,
      drop_eq_nil_of_le (by omega : pre.length ≤ pre.length + 2),
      show pre.length + 2 - pre.length = 2 by omega]
    simp only [drop_succ_cons, drop_zero, nil_append]
    rcases hk with hk | ⟨hrest, hk⟩
    · simp [hk]
    · subst hrest
      simp only [append_nil]
      exact take_of_length_le hk
  rw [h5]
  simp only [h6]
  rw [if_neg]
  · rfl
  · simp only [any_eq_true, mem_map, decide_eq_true_eq, not_exists, not_and, Nat.not_lt]
    rintro _ ⟨l, hl, rfl⟩
    exact hw l (mem_filter.1 hl).1

theorem readBlocks_runs (nb : List Str) (rs : List Run) (pre : List Str) (h : runsWF rs)
    (hnb : nb = pre ++ rs.flatMap Run.nb) :
    readBlocks nb (hdrs pre.length rs) (ftrs pre.length rs ++ [(nb.length : Int)]) = .ok (rs.map Run.table) := by
  induction rs generalizing pre with
  | nil => simp [hdrs, readBlocks_nil_left]
  | cons r rs ih =>
    obtain ⟨hr, hrs⟩ := runsWF_cons r rs h
    simp only [hdrs, ftrs, map_cons]
    cases ht : r.tail with
    | none =>
      have hrs' := tail_none_last r rs hr ht
      subst hrs'
      have hnb' : nb = pre ++ (r.banner :: r.header :: (nonBlank r.body ++ [])) := by
        rw [hnb]; simp [Run.nb, ht]
      have hlen : (nb.length : Int) = (pre.length : Int) + 1 + ((nonBlank r.body).length + 1 : Nat) := by
        rw [hnb']; simp; omega
      simp only [Run.footers, ht, ftrs, hdrs, nil_append, readBlocks, map_nil]
      rw [hlen, readThermo_run nb pre [] r _ hnb' (Or.inr ⟨rfl, by omega⟩) hr.body_width]
    | some x =>
      obtain ⟨loop, post⟩ := x
      have hnb' : nb = pre ++ (r.banner :: r.header :: (nonBlank r.body
          ++ (loop :: nonBlank post ++ rs.flatMap Run.nb))) := by
        rw [hnb]; simp [Run.nb, ht]
      simp only [Run.footers, ht, singleton_append, cons_append, readBlocks]
      have := readThermo_run nb pre _ r (nonBlank r.body).length hnb' (Or.inl rfl) hr.body_width
      rw [this]
      have hih := ih (pre ++ r.nb) hrs (by rw [hnb]; simp)
      simp only [length_append] at hih
      simp only [nil_append, hih]

/-! ### the whole log -/

theorem thermoTables_eq (sc : Scan) (lines : List Str) :
    thermoTables sc lines = readBlocks (nonBlank lines) sc.ts.hs
      (sc.ts.fs ++ [(sc.ts.i : Int) + Gen.Log.thermoFinalFooterOffset]) := rfl

/-- one table per run, in order, header tokens and printed rows — also when the last run is cut short. -/
theorem thermoTables_layout (L : Layout) (h : L.WF) (s : Scan) (hs : s.ts = ⟨0, [], []⟩) :
    thermoTables (scan s L.lines) L.lines = .ok (L.runs.map Run.table) := by
  rw [thermoTables_eq, scan_ts, hs]
  unfold Layout.lines
  rw [foldl_append, foldl_tsStep_quiet _ _ h.head_quiet, foldl_tsStep_runs _ _ h.runs_ok,
    nonBlank_append, nonBlank_runs _ h.runs_ok]
  simp only [Nat.zero_add, nil_append, Gen.Log.thermoFinalFooterOffset, Int.add_zero]
  have := readBlocks_runs (nonBlank L.head ++ L.runs.flatMap Run.nb) L.runs (nonBlank L.head) h.runs_ok rfl
  simp only [length_append] at this
  exact this

/-! ### version banner -/

theorem step_version (s : Scan) (l : Str) :
    ((Scan.step s l).haveVersion, (Scan.step s l).versionLine) =
      if isBlank l then (s.haveVersion, s.versionLine)
      else if isVersionLine l && !s.haveVersion then (true, some l)
      else (s.haveVersion, s.versionLine) := by
  have e : (!s.haveVersion || !Gen.Log.versionOnlyIfUnset) = !s.haveVersion := by
    simp [Gen.Log.versionOnlyIfUnset]
  unfold Scan.step
  rw [e]
  by_cases hb : isBlank l = true
  · simp [hb]
  · simp only [hb, Bool.false_eq_true, if_false]
    split_ifs <;> rfl

/-- once a version is known (`self.lammps_version is not None`) later banners are ignored. -/
theorem scan_version_have (s : Scan) (ls : List Str) (h : s.haveVersion = true) :
    (scan s ls).haveVersion = true ∧ (scan s ls).versionLine = s.versionLine := by
  induction ls generalizing s with
  | nil => exact ⟨h, rfl⟩
  | cons l ls ih =>
    have hv := step_version s l
    simp only [h, Bool.not_true, Bool.and_false, Bool.false_eq_true, if_false, ite_self, Prod.mk.injEq] at hv
    have := ih (Scan.step s l) hv.1
    simp only [scan, foldl_cons] at this ⊢
    rw [this.1, this.2, hv.2]
    exact ⟨rfl, rfl⟩

/-- the line handed to `__read_lammps_version` is the first counted line that starts with `LAMMPS (`. -/
theorem scan_version_first (s : Scan) (ls : List Str) (h : s.haveVersion = false) (h2 : s.versionLine = none) :
    (scan s ls).versionLine = firstVersionLine ls := by
  induction ls generalizing s with
  | nil => simpa [scan, firstVersionLine, nonBlank] using h2
  | cons l ls ih =>
    have hv := step_version s l
    simp only [scan, foldl_cons] at ih ⊢
    by_cases hb : isBlank l = true
    · simp only [hb, if_true, Prod.mk.injEq] at hv
      rw [ih _ (hv.1.trans h) (hv.2.trans h2)]
      simp [firstVersionLine, nonBlank_cons_blank _ _ hb]
    · simp only [Bool.not_eq_true] at hb
      simp only [hb, Bool.false_eq_true, if_false, h, Bool.not_false, Bool.and_true] at hv
      by_cases hvl : isVersionLine l = true
      · simp only [hvl, if_true, Prod.mk.injEq] at hv
        have := (scan_version_have (Scan.step s l) ls hv.1).2
        simp only [scan] at this
        rw [this, hv.2]
        simp [firstVersionLine, nonBlank_cons_nb _ _ hb, hvl]
      · simp only [hvl, Bool.false_eq_true, if_false, Prod.mk.injEq] at hv
        rw [ih _ hv.1 (hv.2.trans h2)]
        simp [firstVersionLine, nonBlank_cons_nb _ _ hb, hvl]

/-! ### no timing breakdown -/

/-- the line starts no timing breakdown of either layout (or is blank and never looked at). -/
def PerfQuiet (l : Str) : Prop :=
  isBlank l = true ∨ (hasAny perfStart l = false ∧ hasAny perfStartOld l = false)

instance (l : Str) : Decidable (PerfQuiet l) := by unfold PerfQuiet; infer_instance

theorem step_perf_quiet (s : Scan) (l : Str) (h : PerfQuiet l)
    (hs : s.perfHeaders = [] ∧ s.perfFooters = [] ∧ s.perfSims = []) :
    (Scan.step s l).perfHeaders = [] ∧ (Scan.step s l).perfFooters = [] ∧ (Scan.step s l).perfSims = [] := by
  obtain ⟨hs1, hs2, hs3⟩ := hs
  unfold Scan.step
  by_cases hb : isBlank l = true
  · simp [hb, hs1, hs2, hs3]
  · rcases h with h | ⟨h1, h2⟩
    · exact absurd h hb
    · simp only [hb, Bool.false_eq_true, if_false, h1, h2]
      split_ifs <;> simp_all

theorem scan_perf_quiet (s : Scan) (ls : List Str) (h : ∀ l ∈ ls, PerfQuiet l)
    (hs : s.perfHeaders = [] ∧ s.perfFooters = [] ∧ s.perfSims = []) :
    (scan s ls).perfHeaders = [] ∧ (scan s ls).perfFooters = [] ∧ (scan s ls).perfSims = [] := by
  induction ls generalizing s with
  | nil => exact hs
  | cons l ls ih =>
    simp only [scan, foldl_cons] at ih ⊢
    exact ih _ (fun l' hl' => h l' (mem_cons_of_mem _ hl')) (step_perf_quiet s l (h l mem_cons_self) hs)

/-- a timing table is attached to a simulation record without touching any thermo table. -/
theorem assignPerf_thermo (nb : List Str) (isOld : Bool) (j : Nat) (hs ks fs : List Int) (sims sims' : List Sim)
    (h : assignPerf nb isOld j hs ks fs sims = .ok sims') :
    sims'.map Sim.thermo = sims.map Sim.thermo := by
  induction fs generalizing hs ks sims with
  | nil =>
    unfold assignPerf at h
    simp only [Except.ok.injEq] at h
    rw [h]
  | cons f fs ih =>
    cases hs with
    | nil => simp [assignPerf] at h
    | cons hh hs =>
      cases ks with
      | nil => simp [assignPerf] at h
      | cons k ks =>
        simp only [assignPerf] at h
        split at h
        · simp at h
        · split at h
          · simp at h
          · rename_i p _ idx _
            rw [ih _ _ _ h]
            apply ext_getElem?
            intro n
            simp only [getElem?_map, getElem?_modify]
            cases sims[n]? with
            | none => rfl
            | some s => by_cases hn : idx = n <;> simp [hn]

/-! ### `Log.read` taken apart -/

/-- the state `read` starts from. -/
def startState (st : LogState) (append : Bool) : LogState := if append then st else st.reset

theorem reset_eq (st : LogState) : st.reset = LogState.empty := rfl

/-- the single pass of `read` on a log. -/
def passOf (st : LogState) (append : Bool) (lines : List Str) : Scan :=
  scan { haveVersion := (startState st append).version.isSome } lines

theorem passOf_ts (st : LogState) (append : Bool) (lines : List Str) :
    (passOf st append lines).ts = lines.foldl tsStep ⟨0, [], []⟩ := by
  unfold passOf; rw [scan_ts]; rfl

/-- the thermo tables found in a log do not depend on what was read before. -/
theorem thermoTables_passOf (st : LogState) (append : Bool) (lines : List Str) :
    thermoTables (passOf st append lines) lines = thermoTables (scan {} lines) lines := by
  rw [thermoTables_eq, thermoTables_eq, passOf_ts, scan_ts]; rfl

theorem passOf_version (st : LogState) (append : Bool) (lines : List Str) :
    (passOf st append lines).versionLine =
      if (startState st append).version.isSome then none else firstVersionLine lines := by
  unfold passOf
  by_cases h : (startState st append).version.isSome = true
  · rw [if_pos h, (scan_version_have _ lines (by simpa using h)).2]
  · rw [if_neg h]
    exact scan_version_first _ lines (by simpa using h) rfl

/-- everything a successful `read` did. -/
theorem readLog_ok (st st' : LogState) (append : Bool) (lines : List Str)
    (h : readLog st append lines = .ok st') :
    ∃ tables,
      thermoTables (passOf st append lines) lines = .ok tables ∧
      assignPerf (nonBlank lines) (passOf st append lines).isOld (startState st append).sims.length
        (passOf st append lines).perfHeaders (passOf st append lines).perfSims (passOf st append lines).perfFooters
        ((startState st append).sims ++ tables.map (fun t => ({ thermo := t } : Sim))) = .ok st'.sims ∧
      (((passOf st append lines).versionLine = none ∧ st'.version = (startState st append).version
          ∧ st'.date = (startState st append).date) ∨
        ∃ l d, (passOf st append lines).versionLine = some l ∧ dateOf (extractVersion l) = .ok d ∧
          st'.version = some (extractVersion l) ∧ st'.date = some d) := by
  unfold readLog at h
  simp only at h
  change (match (match (passOf st append lines).versionLine with
      | none => Except.ok ((startState st append).version, (startState st append).date)
      | some l => match dateOf (extractVersion l) with
        | Except.error e => Except.error e
        | Except.ok d => Except.ok (some (extractVersion l), some d) : Except Err (Option Str × Option Date)) with
    | Except.error e => Except.error e
    | Except.ok (version, date) =>
      match thermoTables (passOf st append lines) lines with
      | Except.error e => Except.error e
      | Except.ok tables =>
        match assignPerf (nonBlank lines) (passOf st append lines).isOld (startState st append).sims.length
          (passOf st append lines).perfHeaders (passOf st append lines).perfSims
          (passOf st append lines).perfFooters
          ((startState st append).sims ++ tables.map (fun t => ({ thermo := t } : Sim))) with
        | Except.error e => Except.error e
        | Except.ok sims => Except.ok { sims := sims, version := version, date := date }) = Except.ok st' at h
  cases hv : (passOf st append lines).versionLine with
  | none =>
    rw [hv] at h
    simp only at h
    cases ht : thermoTables (passOf st append lines) lines with
    | error e => rw [ht] at h; simp at h
    | ok tables =>
      rw [ht] at h
      simp only at h
      cases ha : assignPerf (nonBlank lines) (passOf st append lines).isOld (startState st append).sims.length
          (passOf st append lines).perfHeaders (passOf st append lines).perfSims
          (passOf st append lines).perfFooters
          ((startState st append).sims ++ tables.map (fun t => ({ thermo := t } : Sim))) with
      | error e => rw [ha] at h; simp at h
      | ok sims =>
        rw [ha] at h
        simp only [Except.ok.injEq] at h
        subst h
        exact ⟨tables, rfl, ha, Or.inl ⟨rfl, rfl, rfl⟩⟩
  | some l =>
    rw [hv] at h
    simp only at h
    cases hd : dateOf (extractVersion l) with
    | error e => rw [hd] at h; simp at h
    | ok d =>
      rw [hd] at h
      simp only at h
      cases ht : thermoTables (passOf st append lines) lines with
      | error e => rw [ht] at h; simp at h
      | ok tables =>
        rw [ht] at h
        simp only at h
        cases ha : assignPerf (nonBlank lines) (passOf st append lines).isOld (startState st append).sims.length
            (passOf st append lines).perfHeaders (passOf st append lines).perfSims
            (passOf st append lines).perfFooters
            ((startState st append).sims ++ tables.map (fun t => ({ thermo := t } : Sim))) with
        | error e => rw [ha] at h; simp at h
        | ok sims =>
          rw [ha] at h
          simp only [Except.ok.injEq] at h
          subst h
          exact ⟨tables, rfl, ha, Or.inr ⟨l, d, rfl, hd, rfl, rfl⟩⟩

/-- the converse: how a `read` succeeds. -/
theorem readLog_of (st : LogState) (append : Bool) (lines : List Str) (tables : List Table) (sims : List Sim)
    (version : Option Str) (date : Option Date)
    (hv : ((passOf st append lines).versionLine = none ∧ version = (startState st append).version
          ∧ date = (startState st append).date) ∨
        ∃ l d, (passOf st append lines).versionLine = some l ∧ dateOf (extractVersion l) = .ok d ∧
          version = some (extractVersion l) ∧ date = some d)
    (ht : thermoTables (passOf st append lines) lines = .ok tables)
    (ha : assignPerf (nonBlank lines) (passOf st append lines).isOld (startState st append).sims.length
        (passOf st append lines).perfHeaders (passOf st append lines).perfSims (passOf st append lines).perfFooters
        ((startState st append).sims ++ tables.map (fun t => ({ thermo := t } : Sim))) = .ok sims) :
    readLog st append lines = .ok { sims := sims, version := version, date := date } := by
  unfold readLog
  simp only
  change (match (match (passOf st append lines).versionLine with
      | none => Except.ok ((startState st append).version, (startState st append).date)
      | some l => match dateOf (extractVersion l) with
        | Except.error e => Except.error e
        | Except.ok d => Except.ok (some (extractVersion l), some d) : Except Err (Option Str × Option Date)) with
    | Except.error e => Except.error e
    | Except.ok (version, date) =>
      match thermoTables (passOf st append lines) lines with
      | Except.error e => Except.error e
      | Except.ok tables =>
        match assignPerf (nonBlank lines) (passOf st append lines).isOld (startState st append).sims.length
          (passOf st append lines).perfHeaders (passOf st append lines).perfSims
          (passOf st append lines).perfFooters
          ((startState st append).sims ++ tables.map (fun t => ({ thermo := t } : Sim))) with
        | Except.error e => Except.error e
        | Except.ok sims => Except.ok ({ sims := sims, version := version, date := date } : LogState)) = _
  rcases hv with ⟨hv, rfl, rfl⟩ | ⟨l, d, hv, hd, rfl, rfl⟩
  · rw [hv]; simp only [ht, ha]
  · rw [hv]; simp only [hd, ht, ha]


/-! ### version string and date -/

theorem versionLineOf_eq (v : Str) :
    versionLineOf v = 'L' :: 'A' :: 'M' :: 'M' :: 'P' :: 'S' :: ' ' :: '(' :: (v ++ [')']) := by
  have h1 : "LAMMPS (".toList = ['L', 'A', 'M', 'M', 'P', 'S', ' ', '('] := by decide
  have h2 : ")".toList = [')'] := by decide
  unfold versionLineOf
  rw [h1, h2]
  simp

theorem versionPrefix_eq : versionPrefix = ['L', 'A', 'M', 'M', 'P', 'S', ' ', '('] := by decide

theorem isVersionLine_versionLineOf (v : Str) : isVersionLine (versionLineOf v) = true := by
  rw [isVersionLine, versionLineOf_eq, versionPrefix_eq]
  simp [Gen.Log.versionPrefixLen]

theorem isBlank_versionLineOf (v : Str) : isBlank (versionLineOf v) = false := by
  rw [versionLineOf_eq]
  simp [isBlank, isWs]

theorem strip_versionLineOf (v : Str) : strip (versionLineOf v) = versionLineOf v := by
  rw [versionLineOf_eq]
  have h1 : isWs 'L' = false := by decide
  have h2 : isWs ')' = false := by decide
  simp [strip, dropWhile, h1, h2]

/-- `line.strip()[8:-1]` of `LAMMPS (<v>)` is `<v>`. -/
theorem extractVersion_versionLineOf (v : Str) : extractVersion (versionLineOf v) = v := by
  unfold extractVersion
  rw [strip_versionLineOf, versionLineOf_eq]
  simp [dropEnd, Gen.Log.versionSliceStart, Gen.Log.versionSliceDropEnd]

theorem firstVersionLine_cons (v : Str) (rest : List Str) :
    firstVersionLine (versionLineOf v :: rest) = some (versionLineOf v) := by
  simp [firstVersionLine, nonBlank_cons_nb _ _ (isBlank_versionLineOf v), isVersionLine_versionLineOf]
theorem foldl_parse_none (s : Str) :
    s.foldl (fun acc c => match acc, digitVal? c with
      | some a, some d => some (10 * a + d)
      | _, _ => none) none = none := by
  induction s with
  | nil => rfl
  | cons c cs ih => simpa using ih

theorem foldl_parse_digits (s : Str) (a n : Nat)
    (h : s.foldl (fun acc c => match acc, digitVal? c with
      | some a, some d => some (10 * a + d)
      | _, _ => none) (some a) = some n) : ∀ c ∈ s, (digitVal? c).isSome = true := by
  induction s generalizing a with
  | nil => simp
  | cons c cs ih =>
    simp only [foldl_cons] at h
    cases hd : digitVal? c with
    | none => rw [hd] at h; simp only at h; rw [foldl_parse_none] at h; simp at h
    | some d =>
      rw [hd] at h
      intro c' hc'
      rcases mem_cons.1 hc' with rfl | hc'
      · simp [hd]
      · exact ih _ h c' hc'

/-- `int(s)` succeeded: `s` is a non-empty string of decimal digits. -/
theorem parseNat?_digits (s : Str) (n : Nat) (h : parseNat? s = some n) :
    s ≠ [] ∧ ∀ c ∈ s, (digitVal? c).isSome = true := by
  unfold parseNat? at h
  cases s with
  | nil => simp at h
  | cons c cs =>
    simp only [isEmpty_cons, Bool.false_eq_true, if_false] at h
    exact ⟨by simp, foldl_parse_digits _ 0 n h⟩

theorem digit_not_sep (c : Char) (h : (digitVal? c).isSome = true) : isWs c = false ∧ c ≠ '-' := by
  unfold digitVal? at h
  split at h
  · rename_i hc
    have h0 : '0' ≤ c := hc.1
    refine ⟨?_, ?_⟩
    · unfold isWs
      simp only [Bool.or_eq_false_iff, beq_eq_false_iff_ne]
      refine ⟨⟨⟨⟨⟨?_, ?_⟩, ?_⟩, ?_⟩, ?_⟩, ?_⟩ <;> (intro e; subst e; exact absurd h0 (by decide))
    · intro e; subst e; exact absurd h0 (by decide)
  · simp at h

/-- `parseNat?` reads the decimal digits of `n` back as `n`. -/
theorem parseNat?_toDigits (n : Nat) : parseNat? (Nat.toDigits 10 n) = some n := by
  unfold parseNat?
  have hne : (Nat.toDigits 10 n).isEmpty = false := by
    cases h : Nat.toDigits 10 n with
    | nil => exact absurd h Nat.toDigits_ne_nil
    | cons _ _ => rfl
  rw [hne]
  simp only [Bool.false_eq_true, if_false]
  have key : ∀ (s : Str) (a : Nat), (∀ c ∈ s, c.isDigit = true) →
      s.foldl (fun acc c => match acc, digitVal? c with
        | some a, some d => some (10 * a + d)
        | _, _ => none) (some a) = some (Nat.ofDigitChars 10 s a) := by
    intro s
    induction s with
    | nil => intro a _; rfl
    | cons c cs ih =>
      intro a hs
      have hc : c.isDigit = true := hs c mem_cons_self
      have hdv : digitVal? c = some (c.toNat - '0'.toNat) := by
        unfold digitVal?
        rw [if_pos]
        simp only [Char.isDigit, Bool.and_eq_true, decide_eq_true_eq] at hc
        exact ⟨hc.1, hc.2⟩
      simp only [foldl_cons, hdv, Nat.ofDigitChars_cons]
      exact ih _ (fun c' hc' => hs c' (mem_cons_of_mem _ hc'))
  have := key _ 0 (fun c hc => Nat.isDigit_of_mem_toDigits (b := 10) (n := n) (by decide) (by decide) hc)
  rw [Nat.ofDigitChars_ten_toDigits] at this
  exact this

theorem monthTable_ok : ∀ p ∈ Gen.Log.monthTable,
    (p.1.toList.all (fun c => !isWs c && c != '-') && !p.1.toList.isEmpty
      && decide (1 ≤ p.2) && decide (p.2 ≤ 12)) = true := by decide

theorem monthLookup_some (mm : Str) (m : Nat) (h : monthLookup mm = some m) :
    mm ≠ [] ∧ (∀ c ∈ mm, isWs c = false ∧ c ≠ '-') ∧ 1 ≤ m ∧ m ≤ 12 := by
  unfold monthLookup at h
  simp only [Option.map_eq_some_iff] at h
  obtain ⟨p, hp, rfl⟩ := h
  have hmem := mem_of_find?_eq_some hp
  have heq := find?_some hp
  simp only [beq_iff_eq] at heq
  have := monthTable_ok p hmem
  simp only [Bool.and_eq_true, all_eq_true, Bool.not_eq_true', bne_iff_ne, ne_eq, decide_eq_true_eq,
    isEmpty_eq_false_iff] at this
  obtain ⟨⟨⟨h1, h2⟩, h3⟩, h4⟩ := this
  rw [← heq]
  exact ⟨h2, h1, h3, h4⟩

/-- the date of a version string `<day> <Mon> <year>[ -…]`. -/
theorem dateOf_text (dd mm yy suffix : Str) (d m y : Nat)
    (hd : parseNat? dd = some d) (hm : monthLookup mm = some m) (hy : parseNat? yy = some y)
    (hs : suffix = [] ∨ ∃ c rest, suffix = c :: rest ∧ (isWs c = true ∨ c = '-'))
    (hvalid : 1 ≤ y ∧ y ≤ 9999 ∧ 1 ≤ d ∧ d ≤ daysInMonth y m) :
    dateOf (dd ++ ' ' :: (mm ++ ' ' :: (yy ++ suffix))) = .ok ⟨y, m, d⟩ := by
  obtain ⟨hdne, hdd⟩ := parseNat?_digits dd d hd
  obtain ⟨hyne, hyd⟩ := parseNat?_digits yy y hy
  obtain ⟨hmne, hmc, hm1, hm12⟩ := monthLookup_some mm m hm
  have hpre : ∀ a ∈ dd ++ ' ' :: (mm ++ ' ' :: yy), (a != '-') = true := by
    intro a ha
    simp only [mem_append, mem_cons] at ha
    simp only [bne_iff_ne, ne_eq]
    rcases ha with ha | rfl | ha | rfl | ha
    · exact (digit_not_sep a (hdd a ha)).2
    · decide
    · exact (hmc a ha).2
    · decide
    · exact (digit_not_sep a (hyd a ha)).2
  have htw : (dd ++ ' ' :: (mm ++ ' ' :: (yy ++ suffix))).takeWhile (· != '-')
      = renderCells [⟨[], dd⟩, ⟨[' '], mm⟩, ⟨[' '], yy⟩] (suffix.takeWhile (· != '-')) := by
    have : dd ++ ' ' :: (mm ++ ' ' :: (yy ++ suffix)) = (dd ++ ' ' :: (mm ++ ' ' :: yy)) ++ suffix := by simp
    rw [this, takeWhile_append_of_pos hpre]
    simp [renderCells]
  have hterm : Terminated (suffix.takeWhile (· != '-')) := by
    rcases hs with rfl | ⟨c, rest, rfl, hc | rfl⟩
    · exact Or.inl rfl
    · by_cases hc' : c = '-'
      · subst hc'; exact Or.inl (by simp)
      · exact Or.inr ⟨c, rest.takeWhile (· != '-'), takeWhile_cons_of_pos (by simpa using hc'), hc⟩
    · exact Or.inl (by simp)
  have e1 : dd.all (fun x => !isWs x) = true := by
    rw [all_eq_true]; intro c hc; simp [(digit_not_sep c (hdd c hc)).1]
  have e2 : mm.all (fun x => !isWs x) = true := by
    rw [all_eq_true]; intro c hc; simp [(hmc c hc).1]
  have e3 : yy.all (fun x => !isWs x) = true := by
    rw [all_eq_true]; intro c hc; simp [(digit_not_sep c (hyd c hc)).1]
  have f1 : dd.isEmpty = false := by cases dd <;> simp_all
  have f2 : mm.isEmpty = false := by cases mm <;> simp_all
  have f3 : yy.isEmpty = false := by cases yy <;> simp_all
  have hsp : isWs ' ' = true := by decide
  have hok : cellsOk true [⟨[], dd⟩, ⟨[' '], mm⟩, ⟨[' '], yy⟩] = true := by
    simp [cellsOk, e1, e2, e3, f1, f2, f3, hsp]
  unfold dateOf
  simp only [htw, splitWs_renderCells _ _ hterm hok, map_cons, map_nil, cons_append, nil_append, hy, hm, hd]
  rw [if_pos ⟨hvalid.1, hvalid.2.1, hm1, hm12, hvalid.2.2.1, hvalid.2.2.2⟩]

/-! ### the token-level generator produces well-formed layouts -/

/-- a printed line of cells: at least one cell, proper pads and tokens, only whitespace after the last token. -/
def lineOk (cells : List Cell) (trail : Str) : Prop :=
  cells ≠ [] ∧ cellsOk true cells = true ∧ trail.all isWs = true

instance (cells : List Cell) (trail : Str) : Decidable (lineOk cells trail) := by unfold lineOk; infer_instance

/-- the line contains neither a thermo start nor a thermo end trigger. -/
def NoTrigger (l : Str) : Prop := hasAny thermoStart l = false ∧ hasAny thermoEnd l = false

instance (l : Str) : Decidable (NoTrigger l) := by unfold NoTrigger; infer_instance

/-- well-formedness of a run spec; `last` says whether it is the final run of the log. -/
structure RunSpec.WF (r : RunSpec) (last : Bool) : Prop where
  header_ok : lineOk r.header r.headerTrail
  header_quiet : NoTrigger (renderCells r.header r.headerTrail)
  rows_ok : ∀ x ∈ r.rows, lineOk x.1 x.2 ∧ x.1.length ≤ r.header.length ∧ NoTrigger (renderCells x.1 x.2)
  tail_ok : match r.tail with
    | none => last = true
    | some (x, post) =>
      hasAny thermoStart (loopLine x.1 x.2.1 x.2.2.1 x.2.2.2) = false ∧ ∀ l ∈ post, Quiet l

def specRunsWF : List RunSpec → Prop
  | [] => True
  | [r] => r.WF true
  | r :: r' :: rs => r.WF false ∧ specRunsWF (r' :: rs)

structure LogSpec.WF (S : LogSpec) : Prop where
  version_quiet : NoTrigger (versionLineOf S.version)
  head_quiet : ∀ l ∈ S.head, Quiet l
  runs_ok : specRunsWF S.runs

theorem splitWs_line (cells : List Cell) (trail : Str) (h : lineOk cells trail) :
    splitWs (renderCells cells trail) = cells.map Cell.tok := by
  rw [splitWs_renderCells _ _ (terminated_of_ws _ h.2.2) h.2.1, splitWs_ws _ h.2.2, append_nil]

theorem isBlank_line (cells : List Cell) (trail : Str) (h : lineOk cells trail) :
    isBlank (renderCells cells trail) = false := by
  obtain ⟨hne, hok, _⟩ := h
  cases cells with
  | nil => exact absurd rfl hne
  | cons c cs => exact isBlank_renderCells c cs trail hok

theorem isBlank_of_head (l r : Str) (c : Char) (h : l.head? = some c) (hc : isWs c = false) :
    isBlank (l ++ r) = false := by
  cases l with
  | nil => simp at h
  | cons a as => simp only [head?_cons, Option.some.injEq] at h; subst h; simp [isBlank, hc]

theorem banner_start (b : Banner) : hasAny thermoStart b.line = true := by
  cases b with
  | old m =>
    have e : "Memory usage per processor = ".toList = [] ++ "Memory usage per processor =".toList ++ [' '] := by
      decide
    show hasAny thermoStart ("Memory usage per processor = ".toList ++ m ++ " Mbytes".toList) = true
    generalize " Mbytes".toList = z
    rw [e, append_assoc, append_assoc]
    exact hasAny_of_mem _ _ [] _ (by decide)
  | new a b c =>
    have e : "Per MPI rank memory allocation (min/avg/max) = ".toList
        = [] ++ "Per MPI rank memory allocation (min/avg/max) =".toList ++ [' '] := by decide
    show hasAny thermoStart ("Per MPI rank memory allocation (min/avg/max) = ".toList ++ a ++ " | ".toList ++ b
      ++ " | ".toList ++ c ++ " Mbytes".toList) = true
    generalize " Mbytes".toList = z
    generalize " | ".toList = y
    rw [e]
    have : ∀ (T : Str), [] ++ T ++ [' '] ++ a ++ y ++ b ++ y ++ c ++ z = [] ++ T ++ ([' '] ++ a ++ y ++ b ++ y ++ c ++ z) := by
      intro T; simp
    rw [this]
    exact hasAny_of_mem _ _ [] _ (by decide)

theorem banner_nb (b : Banner) : isBlank b.line = false := by
  cases b with
  | old m =>
    show isBlank ("Memory usage per processor = ".toList ++ m ++ " Mbytes".toList) = false
    rw [append_assoc]
    exact isBlank_of_head _ _ 'M' (by decide) (by decide)
  | new a b c =>
    show isBlank ("Per MPI rank memory allocation (min/avg/max) = ".toList ++ a ++ " | ".toList ++ b
      ++ " | ".toList ++ c ++ " Mbytes".toList) = false
    simp only [append_assoc]
    exact isBlank_of_head _ _ 'P' (by decide) (by decide)

theorem loop_end (t p s a : Str) : hasAny thermoEnd (loopLine t p s a) = true := by
  have e : "Loop time of ".toList = [] ++ "Loop time of".toList ++ [' '] := by decide
  unfold loopLine
  generalize " on ".toList = x1
  generalize " procs for ".toList = x2
  generalize " steps with ".toList = x3
  generalize " atoms".toList = x4
  rw [e]
  have : ∀ (T : Str), [] ++ T ++ [' '] ++ t ++ x1 ++ p ++ x2 ++ s ++ x3 ++ a ++ x4
      = [] ++ T ++ ([' '] ++ t ++ x1 ++ p ++ x2 ++ s ++ x3 ++ a ++ x4) := by
    intro T; simp
  rw [this]
  exact hasAny_of_mem _ _ [] _ (by decide)

theorem loop_nb (t p s a : Str) : isBlank (loopLine t p s a) = false := by
  unfold loopLine
  simp only [append_assoc]
  exact isBlank_of_head _ _ 'L' (by decide) (by decide)

theorem toRun_WF (r : RunSpec) (last : Bool) (h : r.WF last) : r.toRun.WF last where
  banner_nb := banner_nb _
  banner_start := banner_start _
  gap_blank := by intro l hl; rw [RunSpec.toRun, mem_replicate] at hl; rw [hl.2]; rfl
  header_nb := isBlank_line _ _ h.header_ok
  header_quiet := h.header_quiet
  body_quiet := by
    intro l hl
    obtain ⟨x, hx, rfl⟩ := mem_map.1 hl
    exact Or.inr (h.rows_ok x hx).2.2
  body_width := by
    intro l hl
    obtain ⟨x, hx, rfl⟩ := mem_map.1 hl
    have := h.rows_ok x hx
    show (splitWs (renderCells x.1 x.2)).length ≤ (splitWs (renderCells r.header r.headerTrail)).length
    rw [splitWs_line _ _ this.1, splitWs_line _ _ h.header_ok]
    simpa using this.2.1
  tail_ok := by
    have ht := h.tail_ok
    unfold RunSpec.toRun
    cases hr : r.tail with
    | none => rw [hr] at ht; simpa using ht
    | some x =>
      obtain ⟨y, post⟩ := x
      rw [hr] at ht
      simp only [Option.map_some] at ht ⊢
      exact ⟨loop_nb _ _ _ _, ht.1, loop_end _ _ _ _, ht.2⟩

theorem toRun_table (r : RunSpec) (last : Bool) (h : r.WF last) : r.toRun.table = r.table := by
  unfold Run.table RunSpec.table RunSpec.toRun
  simp only [Table.mk.injEq]
  refine ⟨splitWs_line _ _ h.header_ok, ?_⟩
  have hnb : nonBlank (r.rows.map (fun x => renderCells x.1 x.2)) = r.rows.map (fun x => renderCells x.1 x.2) := by
    unfold nonBlank
    rw [filter_eq_self]
    intro l hl
    obtain ⟨x, hx, rfl⟩ := mem_map.1 hl
    simp [isBlank_line _ _ (h.rows_ok x hx).1]
  rw [hnb, map_map]
  apply map_congr_left
  intro x hx
  exact splitWs_line _ _ (h.rows_ok x hx).1

theorem toRuns_WF (rs : List RunSpec) (h : specRunsWF rs) : runsWF (rs.map RunSpec.toRun) := by
  induction rs with
  | nil => trivial
  | cons r rs ih =>
    cases rs with
    | nil => exact toRun_WF r true h
    | cons r' rs => exact ⟨toRun_WF r false h.1, ih h.2⟩

theorem toRuns_table (rs : List RunSpec) (h : specRunsWF rs) :
    (rs.map RunSpec.toRun).map Run.table = rs.map RunSpec.table := by
  induction rs with
  | nil => rfl
  | cons r rs ih =>
    cases rs with
    | nil => simp [toRun_table r true h]
    | cons r' rs =>
      rw [map_cons, map_cons, map_cons, toRun_table r false h.1]
      congr 1
      exact ih h.2

theorem toLayout_WF (S : LogSpec) (h : S.WF) : S.toLayout.WF where
  head_quiet := by
    intro l hl
    rcases mem_cons.1 hl with rfl | hl
    · exact Or.inr h.version_quiet
    · exact h.head_quiet l hl
  runs_ok := toRuns_WF _ h.runs_ok

end Atomman.C19
