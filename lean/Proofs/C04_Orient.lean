/-
  C04, round 5: the ORIENTATION of the description does not matter.

  A cell (vectors, origin) and its atoms may be written down in any Cartesian frame: rotated rigidly, mirrored (a
  left-handed set of cell vectors), with the axes permuted, or in fact after any invertible linear map `M` of space
  (`reframe M`).  Relative coordinates do not change, hence nothing `rotate` decides changes: the same replicas are
  built, the same lattice translation is applied, the same atoms are kept, and the result is the re-framed result -
  on the general path and on the identity shortcut (the vectors of the primitive setting `p`).  The cell conversions
  are `rotate` by centering tables, so they too return the same crystal whatever the orientation / handedness of the
  cell they are given; only `normalize` (C05), applied last, looks at the frame.
-/
import Proofs.C04_Lemmas
import Mathlib.Data.List.Basic
import Mathlib.Algebra.Order.Ring.Cast
import Mathlib.Tactic.NormNum

namespace Atomman.C04
open Atomman

variable {K : Type} [Field K]

/-- the same cell written in the frame `x ↦ x · M`. -/
def reframe (M : M3 K) (b : Box K) : Box K := ⟨M3.mul b.vects M, M3.vecMul b.origin M⟩

/-- the same atom written in the frame `x ↦ x · M` (type and per-atom values untouched). -/
def reframeAtom (M : M3 K) (a : Atom K) : Atom K := { a with pos := M3.vecMul a.pos M }

theorem orient_det_mul (A B : M3 K) : M3.det (M3.mul A B) = M3.det A * M3.det B := by
  simp only [M3.det, M3.mul, M3.vecMul, V3.dot, V3.cross]
  ring

theorem orient_vecMul_mul (s : V3 K) (A B : M3 K) : M3.vecMul s (M3.mul A B) = M3.vecMul (M3.vecMul s A) B := by
  ext <;> simp only [M3.mul, M3.vecMul] <;> ring

theorem orient_vecMul_sub (p q : V3 K) (M : M3 K) : M3.vecMul (p - q) M = M3.vecMul p M - M3.vecMul q M := by
  ext <;> simp only [M3.vecMul, V3.sub_def] <;> ring

theorem orient_vecMul_add (p q : V3 K) (M : M3 K) : M3.vecMul (p + q) M = M3.vecMul p M + M3.vecMul q M := by
  ext <;> simp only [M3.vecMul, V3.add_def] <;> ring

theorem orient_vecMul_zero (M : M3 K) : M3.vecMul (⟨0, 0, 0⟩ : V3 K) M = ⟨0, 0, 0⟩ := by
  ext <;> simp [M3.vecMul]

theorem reframe_det (M : M3 K) (b : Box K) : M3.det (reframe M b).vects = M3.det b.vects * M3.det M :=
  orient_det_mul _ _

/-- Cartesian positions follow the frame. -/
theorem relToCart_reframe (M : M3 K) (b : Box K) (s : V3 K) :
    (reframe M b).relToCart s = M3.vecMul (b.relToCart s) M := by
  simp only [Box.relToCart, reframe, orient_vecMul_mul, orient_vecMul_add]

/-- **relative coordinates do not depend on the frame** (rotated, mirrored - left-handed -, axes permuted, sheared). -/
theorem cartToRel_reframe (M : M3 K) (b : Box K) (hb : M3.det b.vects ≠ 0) (hM : M3.det M ≠ 0) (p : V3 K) :
    (reframe M b).cartToRel (M3.vecMul p M) = b.cartToRel p := by
  have h1 := relToCart_cartToRel b hb p
  have hd : M3.det (reframe M b).vects ≠ 0 := by rw [reframe_det]; exact mul_ne_zero hb hM
  calc (reframe M b).cartToRel (M3.vecMul p M)
      = (reframe M b).cartToRel ((reframe M b).relToCart (b.cartToRel p)) := by rw [relToCart_reframe, h1]
    _ = b.cartToRel p := cartToRel_relToCart _ hd _

/-- the requested vectors `U · vects` follow the frame. -/
theorem newVects_reframe (U : M3 Int) (V M : M3 K) : newVects U (M3.mul V M) = M3.mul (newVects U V) M := by
  ext <;> simp only [newVects, M3.mul, M3.vecMul, V3.map] <;> ring

/-- the new cell of `rotate` (vectors `U · vects` at the Cartesian origin) in the other frame is the re-framed new cell. -/
theorem newBox_reframe (U : M3 Int) (M : M3 K) (b : Box K) :
    (⟨newVects U (reframe M b).vects, ⟨0, 0, 0⟩⟩ : Box K) = reframe M ⟨newVects U b.vects, ⟨0, 0, 0⟩⟩ := by
  simp only [reframe, newVects_reframe, orient_vecMul_zero]

/-- **the kept / dropped decision of `rotate` does not depend on the frame**: an atom is inside the half-open new cell
    of the re-framed description iff it is in the original one. -/
theorem kept_reframe [LinearOrder K] (U : M3 Int) (M : M3 K) (b : Box K) (hW : M3.det (newVects U b.vects) ≠ 0)
    (hM : M3.det M ≠ 0) (p : V3 K) :
    inHalfOpen ((⟨newVects U (reframe M b).vects, ⟨0, 0, 0⟩⟩ : Box K).cartToRel (M3.vecMul p M))
      = inHalfOpen ((⟨newVects U b.vects, ⟨0, 0, 0⟩⟩ : Box K).cartToRel p) := by
  rw [newBox_reframe, cartToRel_reframe M _ hW hM]

/-- the new box of `supersize` follows the frame. -/
theorem superBox_reframe (M : M3 K) (b : Box K) (sa sb sc : Size) :
    superBox (reframe M b) sa sb sc = reframe M (superBox b sa sb sc) := by
  ext <;> simp only [superBox, reframe, M3.mul, M3.vecMul, V3.smul, V3.add_def] <;> ring

/-- every replica of `supersize` follows the frame. -/
theorem replicaPos_reframe (M : M3 K) (b : Box K) (hb : M3.det b.vects ≠ 0) (hM : M3.det M ≠ 0) (sa sb sc : Size)
    (p : V3 K) (r0 r1 r2 : Nat) :
    replicaPos (reframe M b) sa sb sc (M3.vecMul p M) r0 r1 r2 = M3.vecMul (replicaPos b sa sb sc p r0 r1 r2) M := by
  simp only [replicaPos, cartToRel_reframe M b hb hM, superBox_reframe, relToCart_reframe]

/-- **`supersize` commutes with a change of frame**: the replicas of the re-framed atoms in the re-framed cell are the
    re-framed replicas, in the same order, with the same types and per-atom values. -/
theorem supersizeAtoms_reframe (M : M3 K) (b : Box K) (hb : M3.det b.vects ≠ 0) (hM : M3.det M ≠ 0) (sa sb sc : Size)
    (atoms : List (Atom K)) :
    supersizeAtoms (reframe M b) sa sb sc (atoms.map (reframeAtom M))
      = (supersizeAtoms b sa sb sc atoms).map (reframeAtom M) := by
  simp only [supersizeAtoms, List.map_flatMap, List.map_map]
  congr 1; funext r2; congr 1; funext r1; congr 1; funext r0
  apply List.map_congr_left
  intro a _
  simp only [Function.comp, reframeAtom, replicaPos_reframe M b hb hM]

/-- the identity shortcut (`uvws` = identity: the primitive setting `p` of the conversions): wrapping an atom into the
    cell commutes with a change of frame. -/
theorem wrapAtom_reframe (fl : K → Int) (M : M3 K) (b : Box K) (hb : M3.det b.vects ≠ 0) (hM : M3.det M ≠ 0)
    (a : Atom K) :
    wrapAtom fl (reframe M b) (reframeAtom M a) = reframeAtom M (wrapAtom fl b a) := by
  have h0 : (⟨(reframe M b).vects, ⟨0, 0, 0⟩⟩ : Box K) = reframe M ⟨b.vects, ⟨0, 0, 0⟩⟩ := by
    simp only [reframe, orient_vecMul_zero]
  have hs : (⟨(reframe M b).vects, ⟨0, 0, 0⟩⟩ : Box K).cartToRel (M3.vecMul a.pos M)
      = (⟨b.vects, ⟨0, 0, 0⟩⟩ : Box K).cartToRel a.pos := by
    rw [h0]; exact cartToRel_reframe M ⟨b.vects, ⟨0, 0, 0⟩⟩ hb hM a.pos
  simp only [wrapAtom, reframeAtom, hs]
  simp only [reframe, orient_vecMul_mul, orient_vecMul_sub]

/-- **the identity shortcut in any frame**: `rotate` with identity vectors of a cell written in another frame (rotated,
    left-handed, ...) is the re-framed result - every atom moved by whole cell vectors into the cell at the origin. -/
theorem rotateIdentity_reframe (fl : K → Int) (M : M3 K) (b : Box K) (hb : M3.det b.vects ≠ 0) (hM : M3.det M ≠ 0)
    (atoms : List (Atom K)) :
    rotateIdentity fl (reframe M b) (atoms.map (reframeAtom M))
      = (reframe M (rotateIdentity fl b atoms).1, (rotateIdentity fl b atoms).2.map (reframeAtom M)) := by
  simp only [rotateIdentity, List.map_map, Prod.mk.injEq]
  refine ⟨by simp only [reframe, orient_vecMul_zero], ?_⟩
  apply List.map_congr_left
  intro a _
  simp only [Function.comp, wrapAtom_reframe fl M b hb hM]

section general
variable [LinearOrder K] [IsStrictOrderedRing K]

omit [LinearOrder K] [IsStrictOrderedRing K] in
private theorem newVects_det' (U : M3 Int) (V : M3 K) :
    M3.det (newVects U V) = ((M3.det U : Int) : K) * M3.det V := by
  obtain ⟨⟨a, b, c⟩, ⟨d, e, f⟩, ⟨g, h, i⟩⟩ := U
  simp only [newVects, M3.det, M3.mul, M3.vecMul, V3.dot, V3.cross, V3.map]
  push_cast
  ring

/-- **`rotate` (general path, before `normalize`) commutes with a change of frame**: for a cell and its atoms written in
    the frame `x ↦ x · M` (`det M ≠ 0`: any rotation, mirror image - a left-handed set of cell vectors -, permutation of
    the axes) the bounding supercell, the lattice translation and the filter make the same decisions, and the result is
    the re-framed result: the same atoms (types, per-atom values) in the same order at the re-framed positions, in the
    re-framed new cell; refusals coincide.  A conversion of a cell that is not LAMMPS-oriented therefore returns the same
    crystal as the conversion of the LAMMPS-oriented description. -/
theorem rotateRaw_reframe (fl : K → Int) (M : M3 K) (b : Box K) (U : M3 Int) (hb : M3.det b.vects ≠ 0)
    (hM : M3.det M ≠ 0) (atoms : List (Atom K)) :
    rotateRaw fl (reframe M b) U (atoms.map (reframeAtom M))
      = (rotateRaw fl b U atoms).map fun r => (reframe M r.1, r.2.map (reframeAtom M)) := by
  by_cases hU : M3.det U = 0
  · simp [rotateRaw, hU]
  · have hW : M3.det (newVects U b.vects) ≠ 0 := by
      rw [newVects_det']
      exact mul_ne_zero (by exact_mod_cast hU) hb
    have h0 : (reframe M b).cartToRel ⟨0, 0, 0⟩ = b.cartToRel ⟨0, 0, 0⟩ := by
      have := cartToRel_reframe M b hb hM ⟨0, 0, 0⟩
      rwa [orient_vecMul_zero] at this
    simp only [rotateRaw, hU, if_false, Option.map_some, Option.some.injEq, Prod.mk.injEq, h0,
      supersizeAtoms_reframe M b hb hM, List.map_map, List.filter_map]
    refine ⟨newBox_reframe U M b, ?_⟩
    have hf : ∀ shift : V3 K,
        ((fun a : Atom K => { a with pos := a.pos - M3.vecMul shift (reframe M b).vects }) ∘ reframeAtom M)
          = (reframeAtom M ∘ fun a : Atom K => { a with pos := a.pos - M3.vecMul shift b.vects }) := by
      intro shift
      funext a
      simp only [Function.comp, reframeAtom, reframe, orient_vecMul_mul, orient_vecMul_sub]
    rw [hf]
    congr 2
    funext a
    simp only [Function.comp, reframeAtom]
    exact kept_reframe U M b hW hM _

/-- **the whole of `rotate` before `normalize`** - identity shortcut, bounding supercell, filter, the expected-count test
    with its refusals - **commutes with a change of frame**. -/
theorem rotate_reframe (fl : K → Int) (M : M3 K) (b : Box K) (U : M3 Int) (hb : M3.det b.vects ≠ 0)
    (hM : M3.det M ≠ 0) (atoms : List (Atom K)) :
    rotate fl (reframe M b) U (atoms.map (reframeAtom M))
      = (rotate fl b U atoms).map fun r => (reframe M r.1, r.2.map (reframeAtom M)) := by
  unfold rotate
  split
  · simp only [Except.map, rotateIdentity_reframe fl M b hb hM]
  · unfold rotateChecked
    rw [rotateRaw_reframe fl M b U hb hM]
    cases h : rotateRaw fl b U atoms with
    | none => simp [Except.map]
    | some r =>
      obtain ⟨nb, kept⟩ := r
      simp only [Option.map_some, List.length_map]
      split <;> simp [Except.map]

end general

example : reframe (⟨⟨1, 0, 0⟩, ⟨0, 1, 0⟩, ⟨0, 0, -1⟩⟩ : M3 Rat) ⟨⟨⟨3, 0, 0⟩, ⟨0, 4, 0⟩, ⟨0, 0, 5⟩⟩, ⟨1, 2, 3⟩⟩
    = ⟨⟨⟨3, 0, 0⟩, ⟨0, 4, 0⟩, ⟨0, 0, -5⟩⟩, ⟨1, 2, -3⟩⟩ := by decide +kernel

end Atomman.C04
