/-
  C04 — the entry tests in front of `rotate` and `conventional_to_primitive`:
  * `acceptIndex?` (the `np.allclose(uvws, rint(uvws))` test): an index within the tolerance of an integer is that
    integer, from either side; an exact integer is always accepted; whatever is accepted is within the tolerance;
  * `checkSites` (the lattice-site test of `check_setting_basis`): the verdict does not change when atoms are
    listed in another periodic image (moved by whole cell vectors), e.g. on the far face of the cell.
-/
import Proofs.C04_Lemmas
import Proofs.C04_Reps
import Mathlib.Tactic.Ring
import Mathlib.Tactic.Linarith
import Mathlib.Tactic.NormNum
import Mathlib.Algebra.Order.Floor.Ring
import Mathlib.Algebra.Order.Ring.Cast

namespace Atomman.C04
open Atomman
set_option linter.unusedSectionVars false

variable {K : Type} [Field K] [LinearOrder K] [IsStrictOrderedRing K] [FloorRing K]

theorem absIntK_eq (n : Int) : (absIntK n : K) = |(n : K)| := by
  unfold absIntK
  split
  · rename_i h
    have : (n : K) < 0 := by exact_mod_cast h
    rw [abs_of_neg this]; push_cast; ring
  · rename_i h
    have : (0 : K) ≤ (n : K) := by exact_mod_cast (not_lt.mp h)
    rw [abs_of_nonneg this]

theorem half_eq : (1 : K) / ((2 : Int) : K) = 1 / 2 := by norm_num

/-- what `acceptIndex?` computes, in closed form. -/
theorem acceptIndex_eq (fl : K → Int) (hfl : ∀ x, fl x = ⌊x⌋) (rtol atol x : K) :
    acceptIndex? fl rtol atol x =
      if |x - (⌊x + 1 / 2⌋ : K)| ≤ atol + rtol * |((⌊x + 1 / 2⌋ : Int) : K)| then some ⌊x + 1 / 2⌋ else none := by
  unfold acceptIndex?
  simp only [hfl, half_eq, absIntK_eq]
  have hd : (if x < ((⌊x + 1 / 2⌋ : Int) : K) then ((⌊x + 1 / 2⌋ : Int) : K) - x else x - ((⌊x + 1 / 2⌋ : Int) : K))
      = |x - ((⌊x + 1 / 2⌋ : Int) : K)| := by
    split
    · rename_i h
      rw [abs_of_neg (by linarith)]; ring
    · rename_i h
      rw [abs_of_nonneg (by linarith [not_lt.mp h])]
  rw [hd]

/-- soundness: an accepted index is within the tolerance of the integer it is replaced by. -/
theorem acceptIndex_sound (fl : K → Int) (hfl : ∀ x, fl x = ⌊x⌋) (rtol atol x : K) (n : Int)
    (h : acceptIndex? fl rtol atol x = some n) : |x - (n : K)| ≤ atol + rtol * |(n : K)| := by
  rw [acceptIndex_eq fl hfl] at h
  split at h
  · rename_i hc
    cases h
    exact hc
  · cases h

/-- **the accepted integer is the one the index is close to, from either side**: if `x` is within the tolerance of the
    integer `m` and that tolerance is below 1/2 (`|m| < 49999` for the numpy defaults), `acceptIndex?` returns `m` —
    never the next integer towards zero (`1.9999999999999996 ↦ 2`, `-0.9999999999999998 ↦ -1`). -/
theorem acceptIndex_nearest (fl : K → Int) (hfl : ∀ x, fl x = ⌊x⌋) (rtol atol x : K) (m : Int)
    (hx : |x - (m : K)| ≤ atol + rtol * |(m : K)|) (hlt : atol + rtol * |(m : K)| < 1 / 2) :
    acceptIndex? fl rtol atol x = some m := by
  have hab := abs_le.mp hx
  have hfloor : ⌊x + 1 / 2⌋ = m := by
    rw [Int.floor_eq_iff]
    constructor <;> linarith [hab.1, hab.2]
  rw [acceptIndex_eq fl hfl, hfloor, if_pos hx]

/-- an exact integer is accepted as itself (non-negative tolerances). -/
theorem acceptIndex_int (fl : K → Int) (hfl : ∀ x, fl x = ⌊x⌋) (rtol atol : K) (hr : 0 ≤ rtol) (ha : 0 ≤ atol)
    (m : Int) : acceptIndex? fl rtol atol (m : K) = some m := by
  have hfloor : ⌊(m : K) + 1 / 2⌋ = m := by
    rw [Int.floor_eq_iff]
    constructor <;> linarith
  rw [acceptIndex_eq fl hfl, hfloor, if_pos]
  simp only [sub_self, abs_zero]
  positivity

/-- no index half-way or further from every integer is accepted when the tolerance is below 1/2: documented
    refusal "Rotation uvws must be integer values". -/
theorem acceptIndex_refuses (fl : K → Int) (hfl : ∀ x, fl x = ⌊x⌋) (rtol atol x : K)
    (hfar : ∀ m : Int, atol + rtol * |(m : K)| < |x - (m : K)|) : acceptIndex? fl rtol atol x = none := by
  rw [acceptIndex_eq fl hfl, if_neg (not_le.mpr (hfar _))]

/-- the whole 3x3 test on integer-valued input returns the integers, so `rotateF` is `rotate`. -/
theorem rotateF_of_int (fl : K → Int) (hfl : ∀ x, fl x = ⌊x⌋) (rtol atol : K) (hr : 0 ≤ rtol) (ha : 0 ≤ atol)
    (b : Box K) (U : M3 Int) (atoms : List (Atom K)) :
    rotateF fl rtol atol b (castM U) atoms = rotate fl b U atoms := by
  unfold rotateF acceptUvws? acceptRow?
  simp only [castM, castV, acceptIndex_int fl hfl rtol atol hr ha]

/-- entries within the tolerance of the integers `U` (tolerances below 1/2) give exactly `rotate … U`. -/
theorem rotateF_within_tolerance (fl : K → Int) (hfl : ∀ x, fl x = ⌊x⌋) (rtol atol : K)
    (b : Box K) (u : M3 K) (U : M3 Int) (atoms : List (Atom K))
    (hc : ∀ x : K, ∀ m : Int, (x, m) ∈ [(u.r0.x, U.r0.x), (u.r0.y, U.r0.y), (u.r0.z, U.r0.z), (u.r1.x, U.r1.x),
        (u.r1.y, U.r1.y), (u.r1.z, U.r1.z), (u.r2.x, U.r2.x), (u.r2.y, U.r2.y), (u.r2.z, U.r2.z)] →
      |x - (m : K)| ≤ atol + rtol * |(m : K)| ∧ atol + rtol * |(m : K)| < 1 / 2) :
    rotateF fl rtol atol b u atoms = rotate fl b U atoms := by
  have h : ∀ x : K, ∀ m : Int, (x, m) ∈ [(u.r0.x, U.r0.x), (u.r0.y, U.r0.y), (u.r0.z, U.r0.z), (u.r1.x, U.r1.x),
        (u.r1.y, U.r1.y), (u.r1.z, U.r1.z), (u.r2.x, U.r2.x), (u.r2.y, U.r2.y), (u.r2.z, U.r2.z)] →
      acceptIndex? fl rtol atol x = some m :=
    fun x m hm => acceptIndex_nearest fl hfl rtol atol x m (hc x m hm).1 (hc x m hm).2
  unfold rotateF acceptUvws? acceptRow?
  rw [h u.r0.x U.r0.x (by simp), h u.r0.y U.r0.y (by simp), h u.r0.z U.r0.z (by simp),
      h u.r1.x U.r1.x (by simp), h u.r1.y U.r1.y (by simp), h u.r1.z U.r1.z (by simp),
      h u.r2.x U.r2.x (by simp), h u.r2.y U.r2.y (by simp), h u.r2.z U.r2.z (by simp)]

/-! ### the lattice-site test is periodic -/

theorem isIntK_iff (fl : K → Int) (hfl : ∀ x, fl x = ⌊x⌋) (x : K) : isIntK fl x = true ↔ ∃ n : Int, x = (n : K) := by
  unfold isIntK
  simp only [hfl, Bool.and_eq_true, decide_eq_true_eq]
  constructor
  · rintro ⟨h1, h2⟩
    exact ⟨⌊x⌋, le_antisymm h1 h2⟩
  · rintro ⟨n, rfl⟩
    simp

theorem isIntK_add_int (fl : K → Int) (hfl : ∀ x, fl x = ⌊x⌋) (x : K) (n : Int) :
    isIntK fl (x + (n : K)) = isIntK fl x := by
  rw [Bool.eq_iff_iff, isIntK_iff fl hfl, isIntK_iff fl hfl]
  constructor
  · rintro ⟨m, hm⟩
    exact ⟨m - n, by push_cast; linarith⟩
  · rintro ⟨m, hm⟩
    exact ⟨m + n, by push_cast; linarith⟩

/-- relative coordinates of a periodic image: `cartToRel (p + n·V) = cartToRel p + n`. -/
theorem cartToRel_add_lattice (b : Box K) (hV : M3.det b.vects ≠ 0) (p : V3 K) (n : V3 Int) :
    b.cartToRel (p + M3.vecMul (castV n) b.vects) = b.cartToRel p + castV n := by
  rw [cartToRel_eq, cartToRel_eq]
  have e : p + M3.vecMul (castV n) b.vects - b.origin = (p - b.origin) + M3.vecMul (castV n : V3 K) b.vects := by
    ext <;> simp only [V3.add_def, V3.sub_def] <;> ring
  rw [e]
  have lin : ∀ u v : V3 K, M3.vecMul (u + v) (M3.inv b.vects)
      = M3.vecMul u (M3.inv b.vects) + M3.vecMul v (M3.inv b.vects) := by
    intro u v; ext <;> simp only [M3.vecMul, V3.add_def] <;> ring
  rw [lin, vecMul_inv_cancel b.vects hV]

/-- an atom and any of its periodic images are on the same lattice sites. -/
theorem onSite_image (fl : K → Int) (hfl : ∀ x, fl x = ⌊x⌋) (b : Box K) (hV : M3.det b.vects ≠ 0) (site : V3 K)
    (a : Atom K) (n : V3 Int) :
    onSite fl b site { a with pos := a.pos + M3.vecMul (castV n) b.vects } = onSite fl b site a := by
  unfold onSite
  simp only [cartToRel_add_lattice b hV]
  have hx : ((b.cartToRel a.pos + castV n) - site).x = (b.cartToRel a.pos - site).x + (n.x : K) := by
    simp only [V3.add_def, V3.sub_def, castV]; ring
  have hy : ((b.cartToRel a.pos + castV n) - site).y = (b.cartToRel a.pos - site).y + (n.y : K) := by
    simp only [V3.add_def, V3.sub_def, castV]; ring
  have hz : ((b.cartToRel a.pos + castV n) - site).z = (b.cartToRel a.pos - site).z + (n.z : K) := by
    simp only [V3.add_def, V3.sub_def, castV]; ring
  rw [hx, hy, hz, isIntK_add_int fl hfl, isIntK_add_int fl hfl, isIntK_add_int fl hfl]

/-- the atoms listed in other periodic images: atom `i` moved by the whole cell vectors `ns[i]·V`. -/
def imagesBy (b : Box K) (atoms : List (Atom K)) (ns : List (V3 Int)) : List (Atom K) :=
  List.zipWith (fun a n => { a with pos := a.pos + M3.vecMul (castV n) b.vects }) atoms ns

theorem filter_types_imagesBy (fl : K → Int) (hfl : ∀ x, fl x = ⌊x⌋) (b : Box K) (hV : M3.det b.vects ≠ 0)
    (site : V3 K) : ∀ (atoms : List (Atom K)) (ns : List (V3 Int)), ns.length = atoms.length →
    ((imagesBy b atoms ns).filter (onSite fl b site)).map (·.atype)
      = (atoms.filter (onSite fl b site)).map (·.atype)
  | [], [], _ => rfl
  | [], _ :: _, h => by simp at h
  | _ :: _, [], h => by simp at h
  | a :: as, n :: ns, h => by
    have ih := filter_types_imagesBy fl hfl b hV site as ns (by simpa using h)
    have hc : imagesBy b (a :: as) (n :: ns)
        = { a with pos := a.pos + M3.vecMul (castV n) b.vects } :: imagesBy b as ns := rfl
    rw [hc, List.filter_cons, List.filter_cons, onSite_image fl hfl b hV]
    split
    · simp only [List.map_cons, ih]
    · exact ih

/-- **the lattice-site test is periodic**: listing any atoms in other periodic images (on the far face of the cell,
    in a neighbouring cell) leaves the verdict of `checkSites` unchanged — for every site list and every
    starting type. -/
theorem checkSites_periodic (fl : K → Int) (hfl : ∀ x, fl x = ⌊x⌋) (b : Box K) (hV : M3.det b.vects ≠ 0)
    (atoms : List (Atom K)) (ns : List (V3 Int)) (hn : ns.length = atoms.length) :
    ∀ (sites : List (V3 K)) (ty : Option Int),
      checkSites fl b (imagesBy b atoms ns) sites ty = checkSites fl b atoms sites ty
  | [], _ => rfl
  | site :: rest, ty => by
    unfold checkSites
    rw [filter_types_imagesBy fl hfl b hV site atoms ns hn]
    split
    · rfl
    · split
      · exact checkSites_periodic fl hfl b hV atoms ns hn rest _
      · split
        · exact checkSites_periodic fl hfl b hV atoms ns hn rest _
        · rfl
    · rfl

theorem checkBasis_periodic (fl : K → Int) (hfl : ∀ x, fl x = ⌊x⌋) (b : Box K) (hV : M3.det b.vects ≠ 0)
    (setting : String) (atoms : List (Atom K)) (ns : List (V3 Int)) (hn : ns.length = atoms.length) :
    checkBasis fl b setting (imagesBy b atoms ns) = checkBasis fl b setting atoms := by
  unfold checkBasis
  cases settingSites (K := K) setting with
  | none => rfl
  | some sites => simp only [Option.map_some, checkSites_periodic fl hfl b hV atoms ns hn]

/-- what a positive verdict means: every site holds exactly one atom modulo the lattice, of the type `t` fixed by the
    first site (or given). -/
theorem checkSites_true (fl : K → Int) (b : Box K) (atoms : List (Atom K)) :
    ∀ (sites : List (V3 K)) (ty : Option Int), checkSites fl b atoms sites ty = some true →
      ∀ site ∈ sites, ∃ t, (atoms.filter (onSite fl b site)).map (·.atype) = [t] ∧ (∀ t0, ty = some t0 → t = t0)
  | [], _, _ => by simp
  | s :: rest, ty, h => by
    unfold checkSites at h
    intro site hs
    split at h
    · cases h
    · rename_i t ht
      rcases List.mem_cons.mp hs with rfl | hmem
      · refine ⟨t, ht, ?_⟩
        intro t0 h0
        subst h0
        simp only at h
        split at h
        · assumption
        · cases h
      · cases ty with
        | none =>
          obtain ⟨t', h1, _⟩ := checkSites_true fl b atoms rest (some t) h site hmem
          exact ⟨t', h1, by simp⟩
        | some t0 =>
          simp only at h
          split at h
          · exact checkSites_true fl b atoms rest (some t0) h site hmem
          · cases h
    · cases h

/-- all sites carry the same type when the verdict is positive. -/
theorem checkSites_same_type (fl : K → Int) (b : Box K) (atoms : List (Atom K)) (s0 : V3 K) (rest : List (V3 K))
    (h : checkSites fl b atoms (s0 :: rest) none = some true) :
    ∃ t, ∀ site ∈ s0 :: rest, (atoms.filter (onSite fl b site)).map (·.atype) = [t] := by
  unfold checkSites at h
  split at h
  · cases h
  · rename_i t ht
    simp only at h
    refine ⟨t, ?_⟩
    intro site hs
    rcases List.mem_cons.mp hs with rfl | hmem
    · exact ht
    · obtain ⟨t', h1, h2⟩ := checkSites_true fl b atoms rest (some t) h site hmem
      rw [h1, h2 t rfl]
  · cases h

/-- non-vacuity / the seeded case: the fcc cell with its face atom listed at `(1/2, 1/2, 1)` instead of `(1/2, 1/2, 0)`
    passes the test for setting `f` (unit cube, `K = ℚ`). -/
example : checkBasis Rat.floor (⟨M3.one, ⟨0, 0, 0⟩⟩ : Box ℚ) "f"
    [⟨1, ⟨0, 0, 0⟩, []⟩, ⟨1, ⟨1/2, 1/2, 1⟩, []⟩, ⟨1, ⟨1/2, 1, 1/2⟩, []⟩, ⟨1, ⟨1, 1/2, 1/2⟩, []⟩] = some (some true) := by
  decide +kernel

example : acceptIndex? Rat.floor (1 / 100000 : ℚ) (1 / 100000000) (9007199254740991 / 4503599627370496) = some 2 := by
  decide +kernel

end Atomman.C04
