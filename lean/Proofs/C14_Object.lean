/-
  C14, object level: `FreeSurface` / `StackingFault` keep state between calls (shift, stored system, fault plane,
  the cached `abovefault` mask, the two shift vectors).  `Atomman.C14.sfStep` mirrors which attribute every call
  assigns, in the coded order, including what a refused call leaves behind.  Proved here:
    * the cached mask never goes stale (`sfRun_coherent`), so `fault()` after ANY history is `fault` of the current
      system at the current plane (`faultCore_eq`, `fault_after_history`);
    * an accepted `surface()` call forgets the past (`surfaceSF_forgets`, `sfRun_history_independent`,
      `history_eq_fresh`); its default plane is the middle of the NEW system (`surfaceSF_default_plane`);
    * the stored system after any history is a build of the rotated cell with non-zero multipliers (`sfRun_built`).
-/
import Atomman.C14
import Mathlib.Algebra.Order.Field.Basic
import Mathlib.Tactic.Ring

namespace Atomman.C14
open Atomman
set_option linter.unusedSectionVars false
set_option linter.unusedSimpArgs false
set_option linter.unusedVariables false
set_option linter.unusedTactic false
set_option linter.unreachableTactic false

section object
variable {K : Type} [Field K] [LinearOrder K] [IsStrictOrderedRing K]

/-- `fault()` with the mask the setters compute is `fault` with the plane itself. -/
theorem faultWith_maskOf (box : Box K) (pbc : V3 Bool) (fl : K → Int) (cut : Cut) (fp : K) (sh : V3 K)
    (atoms : List (C04.Atom K)) :
    faultWith box pbc fl (maskOf cut fp atoms) sh (atoms.map (·.pos))
      = fault box pbc fl cut fp sh (atoms.map (·.pos)) := by
  unfold faultWith maskOf fault
  rw [List.zip_map', List.map_map, List.map_map]
  apply List.map_congr_left
  intro a _
  simp only [Function.comp, faultPos]

/-- the cached mask, when there is one, is the mask of the *stored* system at the *stored* plane. -/
def Coherent (st : SFStatic K) (o : SFState K) : Prop :=
  ∀ m, o.above = some m → ∃ s fp, o.system = some s ∧ o.fpCart = some fp ∧ m = maskOf st.cut fp s.atoms

theorem coherent_of_above_none (st : SFStatic K) (o : SFState K) (h : o.above = none) : Coherent st o := by
  intro m hm; rw [h] at hm; cases hm

theorem coherent_congr (st : SFStatic K) (o o' : SFState K) (h1 : o'.system = o.system) (h2 : o'.fpCart = o.fpCart)
    (h3 : o'.above = o.above) (h : Coherent st o) : Coherent st o' := by
  intro m hm
  rw [h3] at hm
  obtain ⟨s, fp, a, b, c⟩ := h m hm
  exact ⟨s, fp, by rw [h1, a], by rw [h2, b], c⟩

theorem setShiftOp_coherent (st : SFStatic K) (o : SFState K) (a : ShiftArg K) (h : Coherent st o) :
    Coherent st (setShiftOp st o a).1 := by
  unfold setShiftOp
  cases a <;> simp only <;> split <;> first | exact h | exact coherent_congr st o _ rfl rfl rfl h


theorem setFpRel_coherent (st : SFStatic K) (o : SFState K) (r : K) (h : Coherent st o) :
    Coherent st (setFpRel st o r).1 := by
  obtain ⟨sh, sys, fr, fc, ab, a1, a2⟩ := o
  unfold setFpRel
  split
  · exact h
  · cases sys with
    | none => exact h
    | some s =>
      intro m hm
      simp only [Option.some.injEq] at hm
      exact ⟨s, _, rfl, rfl, hm.symm⟩

theorem setFpCart_coherent (st : SFStatic K) (o : SFState K) (c : K) (h : Coherent st o) :
    Coherent st (setFpCart st o c).1 := by
  obtain ⟨sh, sys, fr, fc, ab, a1, a2⟩ := o
  unfold setFpCart
  cases sys with
  | none => exact h
  | some s =>
    simp only
    split
    · exact h
    · intro m hm
      simp only [Option.some.injEq] at hm
      exact ⟨s, _, rfl, rfl, hm.symm⟩

theorem setFaultpos_coherent (st : SFStatic K) (o : SFState K) (d : Bool) (a : FaultPosArg K) (h : Coherent st o) :
    Coherent st (setFaultpos st o d a).1 := by
  cases a with
  | none =>
    simp only [setFaultpos]
    split
    · exact setFpRel_coherent st o _ h
    · exact h
  | rel r => exact setFpRel_coherent st o r h
  | cart c => exact setFpCart_coherent st o c h
  | both => exact h

theorem andThen_coherent {α : Type} (st : SFStatic K) (r : SFState K × Except String Unit)
    (f : SFState K → SFState K × Except String α) (hr : ∀ o e, r = (o, .error e) → Coherent st o)
    (hf : ∀ o, r = (o, .ok ()) → Coherent st (f o).1) : Coherent st (andThen r f).1 := by
  obtain ⟨o, e⟩ := r
  cases e with
  | error e => exact hr o e rfl
  | ok u => exact hf o rfl

/-- a refused `FreeSurface.surface()` leaves system, plane and mask as they were. -/
theorem surfaceBase_error (st : SFStatic K) (o : SFState K) (a : SurfArgs K) (e : String)
    (h : (surfaceBase st o a).2 = .error e) :
    (surfaceBase st o a).1.system = o.system ∧ (surfaceBase st o a).1.fpCart = o.fpCart ∧
    (surfaceBase st o a).1.above = o.above ∧ (surfaceBase st o a).1.fpRel = o.fpRel := by
  obtain ⟨sh0, sys, fr, fc, ab, a1, a2⟩ := o
  unfold surfaceBase at h ⊢
  cases hsh : resolveShift st sh0 a.shift with
  | error e' => simp only [hsh, and_self]
  | ok sh =>
    simp only [hsh] at h ⊢
    cases hsz : sizesOf st.cut a with
    | error e' => simp only [hsz, and_self]
    | ok sz =>
      obtain ⟨s0, s1, s2⟩ := sz
      simp only [hsz] at h ⊢
      cases hv : a.vac with
      | none => simp only [hv] at h; cases h
      | some v =>
        simp only [hv] at h ⊢
        by_cases hneg : v < 0
        · simp only [if_pos hneg, and_self]
        · simp only [if_neg hneg] at h; cases h

theorem surfaceSF_coherent (st : SFStatic K) (o : SFState K) (a : SurfArgs K) (h : Coherent st o) :
    Coherent st (surfaceSF st o a).1 := by
  unfold surfaceSF
  apply andThen_coherent
  · intro o1 e he
    have hb := surfaceBase_error st o a e (by rw [he])
    rw [he] at hb
    exact coherent_congr st o o1 hb.1 hb.2.1 hb.2.2.1 h
  · intro o1 _
    exact setFaultpos_coherent st _ true a.fpos (coherent_of_above_none st _ rfl)

theorem setAvect_coherent (st : SFStatic K) (o : SFState K) (f : Bool) (u : V3 K) (h : Coherent st o) :
    Coherent st (setAvect st o f u).1 := by
  unfold setAvect
  simp only
  split
  · split <;> exact h
  · exact h

theorem optAvect_coherent (st : SFStatic K) (o : SFState K) (f : Bool) (u : Option (V3 K)) (h : Coherent st o) :
    Coherent st (optAvect st o f u).1 := by
  cases u with
  | none => exact h
  | some u => exact setAvect_coherent st o f u h

theorem faultPrelude_coherent (st : SFStatic K) (o : SFState K) (a1v a2v : Option (V3 K)) (fpos : FaultPosArg K)
    (h : Coherent st o) : Coherent st (faultPrelude st o a1v a2v fpos).1 := by
  unfold faultPrelude
  have h1 := optAvect_coherent st o true a1v h
  apply andThen_coherent
  · intro o1 e he; rw [he] at h1; exact h1
  · intro o1 he
    rw [he] at h1
    have h2 := optAvect_coherent st o1 false a2v h1
    apply andThen_coherent
    · intro o2 e he2; rw [he2] at h2; exact h2
    · intro o2 he2
      rw [he2] at h2
      exact setFaultpos_coherent st o2 false fpos h2

theorem faultOp_coherent (st : SFStatic K) (o : SFState K) (a : FaultArgs K) (h : Coherent st o) :
    Coherent st (faultOp st o a).1 := by
  unfold faultOp
  have h1 := faultPrelude_coherent st o a.a1v a.a2v a.fpos h
  apply andThen_coherent
  · intro o1 e he; rw [he] at h1; exact h1
  · intro o1 he; rw [he] at h1; exact h1

theorem iterFaultMap_coherent (st : SFStatic K) (o : SFState K) (a1v a2v : Option (V3 K)) (fpos : FaultPosArg K)
    (n1 n2 : Nat) (oop : Option K) (h : Coherent st o) :
    Coherent st (iterFaultMap st o a1v a2v fpos n1 n2 oop).1 := by
  unfold iterFaultMap
  have h1 := faultPrelude_coherent st o a1v a2v fpos h
  apply andThen_coherent
  · intro o1 e he; rw [he] at h1; exact h1
  · intro o1 he; rw [he] at h1; exact h1

theorem sfStep_coherent (st : SFStatic K) (o : SFState K) (op : SFOp K) (h : Coherent st o) :
    Coherent st (sfStep st o op).1 := by
  cases op with
  | setShift a => exact setShiftOp_coherent st o a h
  | surface a => exact surfaceSF_coherent st o a h
  | fpRel r => exact setFpRel_coherent st o r h
  | fpCart c => exact setFpCart_coherent st o c h
  | fault a => exact faultOp_coherent st o a h
  | faultMap a1v a2v fpos n1 n2 oop => exact iterFaultMap_coherent st o a1v a2v fpos n1 n2 oop h

/-- **the cached mask never goes stale**: after any history of calls (refused ones included) the mask `fault()`
    will use is the mask of the stored system at the stored plane. -/
theorem sfRun_coherent (st : SFStatic K) (ops : List (SFOp K)) (o : SFState K) (h : Coherent st o) :
    Coherent st (sfRun st o ops).1 := by
  induction ops generalizing o with
  | nil => exact h
  | cons op t ih => exact ih _ (sfStep_coherent st o op h)

theorem sfNew_coherent (st : SFStatic K) (a : ShiftArg K) (o : SFState K) (h : sfNew st a = .ok o) : Coherent st o := by
  unfold sfNew at h
  simp only at h
  generalize ho : (⟨zeroV3, none, none, none, none, st.rbox.vects.row ((cutIndex st.cut + 1) % 3),
    st.rbox.vects.row ((cutIndex st.cut + 2) % 3)⟩ : SFState K) = o0 at h
  have h0 : Coherent st o0 := coherent_of_above_none st o0 (by rw [← ho])
  have := setShiftOp_coherent st o0 a h0
  split at h
  · rename_i o' he
    cases h
    rw [he] at this
    exact this
  · cases h


/-- **what `fault()` computes in a coherent state**: the stored system shifted above the stored plane by the
    resolved vector and wrapped: the function `fault` the clause theorems `fault_below_fixed` /
    `fault_above_shifted` are about. -/
theorem faultCore_eq (st : SFStatic K) (o : SFState K) (fs : FShiftArg K) (ps : List (V3 K)) (h : Coherent st o)
    (hr : faultCore st o fs = .ok ps) :
    ∃ s fp sh, o.system = some s ∧ o.fpCart = some fp ∧ resolveFShift st.cut o fs = .ok sh ∧
      ps = fault s.box s.pbc st.fl st.cut fp sh (s.atoms.map (·.pos)) := by
  unfold faultCore at hr
  cases hsh : resolveFShift st.cut o fs with
  | error e => rw [hsh] at hr; cases hr
  | ok sh =>
    rw [hsh] at hr
    cases hs : o.system with
    | none => rw [hs] at hr; simp only at hr; cases hr
    | some s =>
      cases hm : o.above with
      | none => rw [hs, hm] at hr; simp only at hr; cases hr
      | some m =>
        rw [hs, hm] at hr
        simp only at hr
        obtain ⟨s', fp, e1, e2, e3⟩ := h m hm
        rw [hs] at e1
        cases e1
        split at hr
        · cases hr
          exact ⟨s, fp, sh, rfl, e2, rfl, by rw [e3, faultWith_maskOf]⟩
        · cases hr

/-- **`fault()` after any history**: whatever calls preceded (builds with other shifts / sizes / vacuum, refused
    calls, setters, earlier faults), a `fault()` that returns returns `fault` of the *current* system at the
    *current* plane. -/
theorem fault_after_history (st : SFStatic K) (o0 : SFState K) (h0 : Coherent st o0) (ops : List (SFOp K))
    (a : FaultArgs K) (o' : SFState K) (ps : List (V3 K))
    (hr : faultOp st (sfRun st o0 ops).1 a = (o', .ok ps)) :
    ∃ s fp sh, o'.system = some s ∧ o'.fpCart = some fp ∧ resolveFShift st.cut o' a.fshift = .ok sh ∧
      ps = fault s.box s.pbc st.fl st.cut fp sh (s.atoms.map (·.pos)) := by
  have hc := sfRun_coherent st ops o0 h0
  generalize (sfRun st o0 ops).1 = o at hr hc
  have hp := faultPrelude_coherent st o a.a1v a.a2v a.fpos hc
  unfold faultOp at hr
  generalize faultPrelude st o a.a1v a.a2v a.fpos = r at hr hp
  obtain ⟨o1, e1⟩ := r
  cases e1 with
  | error e => simp only [andThen] at hr; cases hr
  | ok u =>
    simp only [andThen, Prod.mk.injEq] at hr
    obtain ⟨rfl, h2⟩ := hr
    exact faultCore_eq st o1 a.fshift ps hp h2

/-- the settings a new `surface()` call keeps from the past: the shift in force and the two shift vectors. -/
def SameSettings (o₁ o₂ : SFState K) : Prop := o₁.shift = o₂.shift ∧ o₁.a1c = o₂.a1c ∧ o₁.a2c = o₂.a2c

/-- **an accepted build forgets the past**: the state after `surface(args)` — system, fault plane, mask, outcome —
    does not depend on the system, plane or mask the object held before. -/
theorem surfaceSF_forgets (st : SFStatic K) (o₁ o₂ : SFState K) (a : SurfArgs K) (hs : SameSettings o₁ o₂)
    (hok : (surfaceBase st o₁ a).2 = .ok ()) : surfaceSF st o₁ a = surfaceSF st o₂ a := by
  obtain ⟨sh1, sys1, fr1, fc1, ab1, a11, a21⟩ := o₁
  obtain ⟨sh2, sys2, fr2, fc2, ab2, a12, a22⟩ := o₂
  obtain ⟨e1, e2, e3⟩ := hs
  simp only at e1 e2 e3
  subst e1 e2 e3
  unfold surfaceSF
  unfold surfaceBase at hok ⊢
  cases hsh : resolveShift st sh1 a.shift with
  | error e' => simp only [hsh] at hok; cases hok
  | ok sh =>
    simp only [hsh] at hok ⊢
    cases hsz : sizesOf st.cut a with
    | error e' => simp only [hsz] at hok; cases hok
    | ok sz =>
      obtain ⟨s0, s1, s2⟩ := sz
      simp only [hsz] at hok ⊢
      cases hv : a.vac with
      | none => simp only [andThen, forgetFault]
      | some v =>
        simp only [hv] at hok ⊢
        by_cases hneg : v < 0
        · simp only [if_pos hneg] at hok; cases hok
        · simp only [if_neg hneg, andThen, forgetFault]

/-- **history independence**: two objects with different pasts but the same settings in force behave identically
    from an accepted `surface()` call on: same states, same returned values, call after call. -/
theorem sfRun_history_independent (st : SFStatic K) (o₁ o₂ : SFState K) (a : SurfArgs K) (tail : List (SFOp K))
    (hs : SameSettings o₁ o₂) (hok : (surfaceBase st o₁ a).2 = .ok ()) :
    sfRun st o₁ (.surface a :: tail) = sfRun st o₂ (.surface a :: tail) := by
  simp only [sfRun, sfStep, surfaceSF_forgets st o₁ o₂ a hs hok]

/-- in particular after any history `h`: the object answers like one that only ever saw the final arguments. -/
theorem history_eq_fresh (st : SFStatic K) (o0 : SFState K) (h : List (SFOp K)) (a : SurfArgs K)
    (tail : List (SFOp K)) (hok : (surfaceBase st (sfRun st o0 h).1 a).2 = .ok ()) :
    sfRun st (sfRun st o0 h).1 (.surface a :: tail) =
      sfRun st { o0 with shift := (sfRun st o0 h).1.shift, a1c := (sfRun st o0 h).1.a1c, a2c := (sfRun st o0 h).1.a2c }
        (.surface a :: tail) :=
  sfRun_history_independent st _ _ a tail ⟨rfl, rfl, rfl⟩ hok

/-- the default of `surface()`: with no fault position given, the plane is the middle of the NEW system's extent
    across the cut and the mask is computed on the NEW system, whatever plane was in force before. -/
theorem surfaceSF_default_plane (st : SFStatic K) (o o' : SFState K) (a : SurfArgs K) (hf : a.fpos = .none)
    (hr : surfaceSF st o a = (o', .ok ())) :
    ∃ s, o'.system = some s ∧ (surfaceBase st o a).1.system = some s ∧
      o'.fpRel = some (((1 : Int) : K) / ((2 : Int) : K)) ∧
      o'.fpCart = some (s.box.origin.get (cutIndex st.cut) +
        ((1 : Int) : K) / ((2 : Int) : K) * (s.box.vects.row (cutIndex st.cut)).get (cutIndex st.cut)) ∧
      o'.above = some (maskOf st.cut (s.box.origin.get (cutIndex st.cut) +
        ((1 : Int) : K) / ((2 : Int) : K) * (s.box.vects.row (cutIndex st.cut)).get (cutIndex st.cut)) s.atoms) := by
  unfold surfaceSF at hr
  generalize hb : surfaceBase st o a = r at hr
  obtain ⟨o1, e1⟩ := r
  cases e1 with
  | error e => simp only [andThen] at hr; cases hr
  | ok u =>
    simp only [andThen, hf, setFaultpos, if_true] at hr
    obtain ⟨sh, sys, fr, fc, ab, a1, a2⟩ := o1
    unfold setFpRel forgetFault at hr
    simp only at hr
    split at hr
    · cases hr
    · cases sys with
      | none => simp only [Prod.mk.injEq] at hr; obtain ⟨_, h2⟩ := hr; cases h2
      | some s =>
        simp only [Prod.mk.injEq] at hr
        obtain ⟨rfl, _⟩ := hr
        exact ⟨s, rfl, rfl, rfl, rfl, rfl⟩

end object
section built
variable {K : Type} [Field K] [LinearOrder K] [IsStrictOrderedRing K]

/-- the stored system, when there is one, is `buildSurface` of the rotated cell for some shift, sizes and vacuum. -/
def Built (st : SFStatic K) (o : SFState K) : Prop :=
  ∀ s, o.system = some s → ∃ sh s0 s1 s2 vac, s0.mult ≠ 0 ∧ s1.mult ≠ 0 ∧ s2.mult ≠ 0 ∧
    s = buildSurface st sh s0 s1 s2 vac

theorem size?_mult (m : MultArg) (s : C04.Size) (h : m.size? = .ok s) : s.mult ≠ 0 := by
  cases m with
  | int n =>
    simp only [MultArg.size?, C04.Size.ofInt?] at h
    split at h
    · rename_i s' hs
      cases h
      split at hs
      · cases hs; simp only [C04.Size.mult]; omega
      · split at hs
        · cases hs; simp only [C04.Size.mult]; omega
        · cases hs
    · cases h
  | pair lo hi =>
    simp only [MultArg.size?, C04.Size.ofPair?] at h
    split at h
    · rename_i s' hs
      cases h
      split at hs
      · rename_i hc; cases hs; simp only [C04.Size.mult]; exact hc.2.2
      · cases hs
    · split at h <;> cases h

theorem sizesOf_mult (cut : Cut) (a : SurfArgs K) (s0 s1 s2 : C04.Size) (h : sizesOf cut a = .ok (s0, s1, s2)) :
    s0.mult ≠ 0 ∧ s1.mult ≠ 0 ∧ s2.mult ≠ 0 := by
  unfold sizesOf at h
  simp only [bind, Except.bind, pure, Except.pure] at h
  repeat' split at h
  all_goals first
    | (simp only [Except.ok.injEq, Prod.mk.injEq] at h
       obtain ⟨rfl, rfl, rfl⟩ := h
       exact ⟨size?_mult _ _ (by assumption), size?_mult _ _ (by assumption), size?_mult _ _ (by assumption)⟩)
    | cases h

theorem built_congr (st : SFStatic K) (o o' : SFState K) (h1 : o'.system = o.system) (h : Built st o) : Built st o' := by
  intro s hs; rw [h1] at hs; exact h s hs

theorem surfaceBase_built (st : SFStatic K) (o : SFState K) (a : SurfArgs K) (h : Built st o) :
    Built st (surfaceBase st o a).1 := by
  obtain ⟨sh0, sys, fr, fc, ab, a1, a2⟩ := o
  unfold surfaceBase
  cases hsh : resolveShift st sh0 a.shift with
  | error e' => exact h
  | ok sh =>
    simp only
    cases hsz : sizesOf st.cut a with
    | error e' => exact h
    | ok sz =>
      obtain ⟨s0, s1, s2⟩ := sz
      simp only
      cases hv : a.vac with
      | none =>
        obtain ⟨m0, m1, m2⟩ := sizesOf_mult st.cut a s0 s1 s2 hsz
        intro s hs; simp only [Option.some.injEq] at hs; exact ⟨sh, s0, s1, s2, none, m0, m1, m2, hs.symm⟩
      | some v =>
        simp only
        by_cases hneg : v < 0
        · simp only [if_pos hneg]; exact h
        · simp only [if_neg hneg]
          obtain ⟨m0, m1, m2⟩ := sizesOf_mult st.cut a s0 s1 s2 hsz
          intro s hs; simp only [Option.some.injEq] at hs; exact ⟨sh, s0, s1, s2, some v, m0, m1, m2, hs.symm⟩

theorem setFpRel_system (st : SFStatic K) (o : SFState K) (r : K) : (setFpRel st o r).1.system = o.system := by
  obtain ⟨sh, sys, fr, fc, ab, a1, a2⟩ := o
  unfold setFpRel
  split
  · rfl
  · cases sys <;> rfl

theorem setFpCart_system (st : SFStatic K) (o : SFState K) (c : K) : (setFpCart st o c).1.system = o.system := by
  obtain ⟨sh, sys, fr, fc, ab, a1, a2⟩ := o
  unfold setFpCart
  cases sys with
  | none => rfl
  | some s => simp only; split <;> rfl

theorem setFaultpos_system (st : SFStatic K) (o : SFState K) (d : Bool) (a : FaultPosArg K) :
    (setFaultpos st o d a).1.system = o.system := by
  cases a with
  | none => simp only [setFaultpos]; split
            · exact setFpRel_system st o _
            · rfl
  | rel r => exact setFpRel_system st o r
  | cart c => exact setFpCart_system st o c
  | both => rfl

theorem andThen_built {α : Type} (st : SFStatic K) (r : SFState K × Except String Unit)
    (f : SFState K → SFState K × Except String α) (hr : Built st r.1)
    (hf : ∀ o, Built st o → Built st (f o).1) : Built st (andThen r f).1 := by
  obtain ⟨o, e⟩ := r
  cases e with
  | error e => exact hr
  | ok u => exact hf o hr

theorem setAvect_system (st : SFStatic K) (o : SFState K) (f : Bool) (u : V3 K) : (setAvect st o f u).1.system = o.system := by
  unfold setAvect
  simp only
  split
  · split <;> rfl
  · rfl

theorem optAvect_system (st : SFStatic K) (o : SFState K) (f : Bool) (u : Option (V3 K)) :
    (optAvect st o f u).1.system = o.system := by
  cases u with
  | none => rfl
  | some u => exact setAvect_system st o f u

theorem faultPrelude_built (st : SFStatic K) (o : SFState K) (a1v a2v : Option (V3 K)) (fpos : FaultPosArg K)
    (h : Built st o) : Built st (faultPrelude st o a1v a2v fpos).1 := by
  unfold faultPrelude
  apply andThen_built
  · exact built_congr st o _ (optAvect_system st o true a1v) h
  · intro o1 h1
    apply andThen_built
    · exact built_congr st o1 _ (optAvect_system st o1 false a2v) h1
    · intro o2 h2
      exact built_congr st o2 _ (setFaultpos_system st o2 false fpos) h2

theorem sfStep_built (st : SFStatic K) (o : SFState K) (op : SFOp K) (h : Built st o) : Built st (sfStep st o op).1 := by
  cases op with
  | setShift a =>
    show Built st (setShiftOp st o a).1
    unfold setShiftOp
    cases a <;> simp only <;> split <;> exact h
  | surface a =>
    show Built st (surfaceSF st o a).1
    unfold surfaceSF
    apply andThen_built
    · exact surfaceBase_built st o a h
    · intro o1 h1
      exact built_congr st o1 _ (by rw [setFaultpos_system]; rfl) h1
  | fpRel r => exact built_congr st o _ (setFpRel_system st o r) h
  | fpCart c => exact built_congr st o _ (setFpCart_system st o c) h
  | fault a =>
    show Built st (faultOp st o a).1
    unfold faultOp
    apply andThen_built
    · exact faultPrelude_built st o a.a1v a.a2v a.fpos h
    · intro o1 h1; exact h1
  | faultMap a1v a2v fpos n1 n2 oop =>
    show Built st (iterFaultMap st o a1v a2v fpos n1 n2 oop).1
    unfold iterFaultMap
    apply andThen_built
    · exact faultPrelude_built st o a1v a2v fpos h
    · intro o1 h1; exact h1

/-- **the stored system after any history is a build of the rotated cell** (`surface_same_crystal`, `surface_pbc`,
    `vacuum_same_crystal` then speak about it): no call other than an accepted `surface()` touches it. -/
theorem sfRun_built (st : SFStatic K) (ops : List (SFOp K)) (o : SFState K) (h : Built st o) :
    Built st (sfRun st o ops).1 := by
  induction ops generalizing o with
  | nil => exact h
  | cons op t ih => exact ih _ (sfStep_built st o op h)

/-- a new object holds no system. -/
theorem sfNew_built (st : SFStatic K) (a : ShiftArg K) (o : SFState K) (h : sfNew st a = .ok o) : Built st o := by
  unfold sfNew at h
  simp only at h
  generalize ho : (⟨zeroV3, none, none, none, none, st.rbox.vects.row ((cutIndex st.cut + 1) % 3),
    st.rbox.vects.row ((cutIndex st.cut + 2) % 3)⟩ : SFState K) = o0 at h
  have h0 : Built st o0 := by intro s hs; rw [← ho] at hs; cases hs
  have := sfStep_built st o0 (.setShift a) h0
  simp only [sfStep] at this
  split at h
  · rename_i o' he
    cases h
    rw [he] at this
    exact this
  · cases h

end built

end Atomman.C14
