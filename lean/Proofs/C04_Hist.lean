/-
  C04, round 3 — what the call is made ON:
  * the names of the per-atom properties a copy carries (`copiedKeys`): every name of the input, whatever it is
    called (one-letter names, sub- and superstrings of the reserved keys, non-ASCII), in the input's order;
  * the periodicity flags of a re-oriented cell (`rotatePbc`): fully periodic whatever the input's flags;
  * the multiplier rules (`Size.ofInt?`, `Size.ofPair?`): zero and ranges that do not contain 0 are refused;
  * a lattice site holding another type refuses the conversion (`checkSites_refuses_mixed`);
  * the object behind the call (`SysObj`: cell, cached reciprocal vectors, atoms, flags): after ANY history of
    reads, cell writes with relative or Cartesian positions held, origin moves, rewrites and flag changes the cache
    is coherent with the visible cell, and `supersize` on the object is `supersize` of its visible state.
-/
import Proofs.C04_Accept
import Mathlib.Tactic.Ring
import Mathlib.Tactic.Linarith

namespace Atomman.C04
open Atomman
set_option linter.unusedSectionVars false

/-! ### names of the per-atom properties -/

/-- the accumulator of the copy loop: adds `k` unless it is there already. -/
def addKey (acc : List String) (k : String) : List String := if acc.contains k then acc else acc ++ [k]

theorem copiedKeys_eq (keys : List String) :
    copiedKeys keys = (keys.filter (fun k => k != "pos")).foldl addKey ["atype", "pos"] := rfl

theorem mem_addKey (acc : List String) (k x : String) : x ∈ addKey acc k ↔ x ∈ acc ∨ x = k := by
  unfold addKey
  split
  · rename_i h
    have hk : k ∈ acc := by simpa using h
    constructor
    · exact Or.inl
    · rintro (h | rfl)
      · exact h
      · exact hk
  · simp [List.mem_append]

theorem mem_foldl_addKey (l : List String) : ∀ (acc : List String) (x : String),
    x ∈ l.foldl addKey acc ↔ x ∈ acc ∨ x ∈ l := by
  induction l with
  | nil => intro acc x; simp
  | cons k rest ih =>
    intro acc x
    rw [List.foldl_cons, ih, mem_addKey, List.mem_cons]
    tauto

/-- **every per-atom property of the input is carried by the copy**, whatever it is called. -/
theorem copiedKeys_complete (keys : List String) (k : String) (h : k ∈ keys) : k ∈ copiedKeys keys := by
  rw [copiedKeys_eq, mem_foldl_addKey]
  by_cases hp : k = "pos"
  · left; simp [hp]
  · right
    exact List.mem_filter.mpr ⟨h, by simpa using hp⟩

/-- ... and nothing else (`atype` and `pos` exist in every `Atoms`). -/
theorem copiedKeys_sound (keys : List String) (k : String) (h : k ∈ copiedKeys keys) :
    k ∈ keys ∨ k = "atype" ∨ k = "pos" := by
  rw [copiedKeys_eq, mem_foldl_addKey] at h
  rcases h with h | h
  · simp at h; tauto
  · exact Or.inl (List.mem_filter.mp h).1

theorem foldl_addKey_append (l : List String) : ∀ (acc : List String), l.Nodup → (∀ x ∈ l, x ∉ acc) →
    l.foldl addKey acc = acc ++ l := by
  induction l with
  | nil => intro acc _ _; simp
  | cons k rest ih =>
    intro acc hnd hdis
    have hk : k ∉ acc := hdis k (List.mem_cons_self)
    have h1 : addKey acc k = acc ++ [k] := by
      unfold addKey
      rw [if_neg]
      simpa using hk
    rw [List.foldl_cons, h1, ih (acc ++ [k]) (List.nodup_cons.mp hnd).2]
    · simp
    · intro x hx
      simp only [List.mem_append, List.mem_singleton, not_or]
      refine ⟨hdis x (List.mem_cons_of_mem _ hx), ?_⟩
      rintro rfl
      exact (List.nodup_cons.mp hnd).1 hx

/-- for the key list every `Atoms` object has (`atype`, `pos`, then distinct further names) the copy carries exactly
    the input's names in the input's order. -/
theorem copiedKeys_std (rest : List String) (hnd : rest.Nodup) (ha : "atype" ∉ rest) (hp : "pos" ∉ rest) :
    copiedKeys ("atype" :: "pos" :: rest) = "atype" :: "pos" :: rest := by
  rw [copiedKeys_eq]
  have hf : (("atype" :: "pos" :: rest).filter (fun k => k != "pos")) = "atype" :: rest := by
    rw [List.filter_cons_of_pos (by decide), List.filter_cons_of_neg (by decide)]
    congr 1
    apply List.filter_eq_self.mpr
    intro x hx
    have : x ≠ "pos" := by rintro rfl; exact hp hx
    simpa using this
  rw [hf, List.foldl_cons]
  have h0 : addKey ["atype", "pos"] "atype" = ["atype", "pos"] := by decide
  rw [h0, foldl_addKey_append rest _ hnd]
  · rfl
  · intro x hx
    simp only [List.mem_cons, List.not_mem_nil, or_false, not_or]
    exact ⟨by rintro rfl; exact ha hx, by rintro rfl; exact hp hx⟩

/-- non-vacuity / the seeded case: properties called `p`, `o`, `s`, `po`, `os`, `pos2`, `atyp`, `σ` travel. -/
example : copiedKeys ["atype", "pos", "p", "o", "s", "po", "os", "pos2", "atyp", "σ"]
    = ["atype", "pos", "p", "o", "s", "po", "os", "pos2", "atyp", "σ"] := by decide

/-! ### periodicity flags of a re-oriented cell -/

/-- **a re-oriented cell is fully periodic whatever the flags of the input** (so that `normalize`'s wrap moves atoms by
    whole cell vectors and never stretches the cell: C05 `wrap_periodic_axes_fixed`), on the shortcut as well. -/
theorem rotatePbc_periodic (U : M3 Int) (pbc : Pbc) : rotatePbc U pbc = ⟨true, true, true⟩ := by
  unfold rotatePbc
  split <;> rfl

/-! ### multiplier rules -/

/-- a zero multiplier is refused. -/
theorem ofInt?_zero : Size.ofInt? 0 = none := by decide

/-- a non-zero integer `n` stands for `|n|` replicas on the side of its sign. -/
theorem ofInt?_spec (n : Int) (hn : n ≠ 0) :
    ∃ s, Size.ofInt? n = some s ∧ s.lo ≤ 0 ∧ 0 ≤ s.hi ∧ s.mult = |n| ∧ (0 < n → s.lo = 0) ∧ (n < 0 → s.hi = 0) := by
  unfold Size.ofInt?
  rcases lt_or_gt_of_ne hn with h | h
  · refine ⟨⟨n, 0⟩, ?_, le_of_lt h, le_refl _, ?_, ?_, fun _ => rfl⟩
    · rw [if_neg (by omega), if_pos h]
    · simp only [Size.mult]; rw [abs_of_neg h]; ring
    · intro h'; omega
  · refine ⟨⟨0, n⟩, ?_, le_refl _, le_of_lt h, ?_, fun _ => rfl, ?_⟩
    · rw [if_pos h]
    · simp only [Size.mult]; rw [abs_of_pos h]; ring
    · intro h'; omega

/-- **a tuple range that does not contain 0, or an empty one, is refused.** -/
theorem ofPair?_refuses (lo hi : Int) (h : 0 < lo ∨ hi < 0 ∨ lo = hi) : Size.ofPair? lo hi = none := by
  unfold Size.ofPair?
  rw [if_neg]
  omega

/-- every other tuple is taken as it is and stands for `hi - lo > 0` replicas. -/
theorem ofPair?_accepts (lo hi : Int) (h1 : lo ≤ 0) (h2 : 0 ≤ hi) (h3 : lo ≠ hi) :
    Size.ofPair? lo hi = some ⟨lo, hi⟩ ∧ 0 < (⟨lo, hi⟩ : Size).mult := by
  unfold Size.ofPair?
  constructor
  · rw [if_pos]; omega
  · simp only [Size.mult]; omega

section Sites
variable {K : Type} [Field K] [LinearOrder K] [IsStrictOrderedRing K] [FloorRing K]

/-- **a lattice site that holds an atom of another type refuses the conversion**: whenever two atoms of different
    types sit (modulo the lattice) on sites of the setting, the verdict is not positive - whatever the types are
    called (the model never looks at symbols). -/
theorem checkSites_refuses_mixed (fl : K → Int) (b : Box K) (atoms : List (Atom K)) (s0 : V3 K) (rest : List (V3 K))
    (s s' : V3 K) (hs : s ∈ s0 :: rest) (hs' : s' ∈ s0 :: rest) (a a' : Atom K) (ha : a ∈ atoms) (ha' : a' ∈ atoms)
    (hon : onSite fl b s a = true) (hon' : onSite fl b s' a' = true) (hne : a.atype ≠ a'.atype) :
    checkSites fl b atoms (s0 :: rest) none ≠ some true := by
  intro h
  obtain ⟨t, ht⟩ := checkSites_same_type fl b atoms s0 rest h
  have h1 : a.atype ∈ (atoms.filter (onSite fl b s)).map (·.atype) :=
    List.mem_map.mpr ⟨a, List.mem_filter.mpr ⟨ha, hon⟩, rfl⟩
  have h2 : a'.atype ∈ (atoms.filter (onSite fl b s')).map (·.atype) :=
    List.mem_map.mpr ⟨a', List.mem_filter.mpr ⟨ha', hon'⟩, rfl⟩
  rw [ht s hs] at h1
  rw [ht s' hs'] at h2
  simp only [List.mem_singleton] at h1 h2
  exact hne (h1.trans h2.symm)

theorem checkBasis_refuses_mixed (fl : K → Int) (b : Box K) (setting : String) (atoms : List (Atom K))
    (s0 : V3 K) (rest : List (V3 K)) (hset : settingSites (K := K) setting = some (s0 :: rest))
    (s s' : V3 K) (hs : s ∈ s0 :: rest) (hs' : s' ∈ s0 :: rest) (a a' : Atom K) (ha : a ∈ atoms) (ha' : a' ∈ atoms)
    (hon : onSite fl b s a = true) (hon' : onSite fl b s' a' = true) (hne : a.atype ≠ a'.atype) :
    checkBasis fl b setting atoms ≠ some (some true) := by
  unfold checkBasis
  rw [hset]
  simp only [Option.map_some, ne_eq, Option.some.injEq]
  exact checkSites_refuses_mixed fl b atoms s0 rest s s' hs hs' a a' ha ha' hon hon' hne

end Sites

/-- non-vacuity / the seeded case: B2 (CsCl) given as body-centred is refused (unit cube, `K = ℚ`). -/
example : checkBasis Rat.floor (⟨M3.one, ⟨0, 0, 0⟩⟩ : Box ℚ) "i"
    [⟨1, ⟨0, 0, 0⟩, []⟩, ⟨2, ⟨1/2, 1/2, 1/2⟩, []⟩] = some (some false) := by
  decide +kernel

/-! ### the object behind the call -/

section Obj
variable {K : Type} [Add K] [Sub K] [Mul K] [Div K] [IntCast K]

/-- an object whose cache is empty is coherent (every freshly built `Box`). -/
theorem coherent_fresh (o : BoxObj K) (h : o.cache = none) : o.Coherent := by
  intro r hr; rw [h] at hr; cases hr

/-- reading the reciprocal vectors of a coherent object returns those of the cell it shows, leaves the cell alone and
    keeps the object coherent. -/
theorem recipC_spec (o : BoxObj K) (h : o.Coherent) :
    o.recipC.1 = o.visible.recip ∧ o.recipC.2.visible = o.visible ∧ o.recipC.2.Coherent := by
  cases hc : o.cache with
  | some r =>
    have e : o.recipC = (r, o) := by unfold BoxObj.recipC; rw [hc]
    rw [e]
    exact ⟨h r hc, rfl, h⟩
  | none =>
    have e : o.recipC = (o.visible.recip, { o with cache := some o.visible.recip }) := by
      unfold BoxObj.recipC; rw [hc]
    rw [e]
    refine ⟨rfl, rfl, ?_⟩
    intro r hr
    simp only [Option.some.injEq] at hr
    rw [← hr]
    rfl

theorem setVects_coherent (o : BoxObj K) (v : M3 K) : (o.setVects v).Coherent :=
  coherent_fresh _ rfl

theorem setOrigin_coherent (o : BoxObj K) (p : V3 K) (h : o.Coherent) : (o.setOrigin p).Coherent := by
  intro r hr
  have := h r hr
  rw [this]
  rfl

/-- scaled positions read from a coherent object are those of its visible state; nothing visible changes. -/
theorem sposC_spec (s : SysObj K) (h : s.box.Coherent) :
    s.sposC.1 = s.atoms.map (fun a => s.box.visible.cartToRel a.pos) ∧ s.sposC.2.box.visible = s.box.visible ∧
      s.sposC.2.atoms = s.atoms ∧ s.sposC.2.pbc = s.pbc ∧ s.sposC.2.box.Coherent := by
  obtain ⟨h1, h2, h3⟩ := recipC_spec s.box h
  unfold SysObj.sposC
  refine ⟨?_, h2, rfl, rfl, h3⟩
  simp only
  rw [h1]
  rfl

theorem setSpos_box (s : SysObj K) (sp : List (V3 K)) : (s.setSpos sp).box = s.box := rfl

/-- **coherence is an invariant of every operation of a history.** -/
theorem step_coherent (s : SysObj K) (op : HOp K) (h : s.box.Coherent) : (s.step op).box.Coherent := by
  cases op with
  | read => exact (sposC_spec s h).2.2.2.2
  | setBox v o scale =>
    cases scale with
    | true =>
      simp only [SysObj.step]
      rw [setSpos_box]
      exact setOrigin_coherent _ _ (setVects_coherent _ _)
    | false => exact setOrigin_coherent _ _ (setVects_coherent _ _)
  | setVects v => exact setVects_coherent _ _
  | setOrigin o => exact setOrigin_coherent _ _ h
  | rewrite =>
    simp only [SysObj.step]
    rw [setSpos_box]
    exact (sposC_spec s h).2.2.2.2
  | setPbc p => exact h

theorem run_coherent (ops : List (HOp K)) : ∀ (s : SysObj K), s.box.Coherent → (s.run ops).box.Coherent := by
  induction ops with
  | nil => intro s h; exact h
  | cons op rest ih =>
    intro s h
    exact ih (s.step op) (step_coherent s op h)

theorem zipWith_map_right {α β γ : Type} (f : α → β → γ) (g : α → β) (l : List α) :
    List.zipWith f l (l.map g) = l.map (fun a => f a (g a)) := by
  induction l with
  | nil => rfl
  | cons a rest ih => simp [ih]

/-- `supersize` called on a coherent object is `supersize` of the state the object shows. -/
theorem supersizeC_eq (s : SysObj K) (h : s.box.Coherent) (sa sb sc : Size) :
    s.supersizeC sa sb sc = supersize s.box.visible sa sb sc s.atoms := by
  obtain ⟨h1, h2, h3, _, _⟩ := sposC_spec s h
  unfold SysObj.supersizeC supersize supersizeAtoms
  simp only
  rw [h1, h2, h3]
  simp only [zipWith_map_right]
  rfl

/-- **after any history on the one object, `supersize` returns the supercell of the state the object shows** - what
    was read, strained by a few ppm, moved or rewritten before leaves no trace other than the visible state. -/
theorem hist_supersize (s0 : SysObj K) (h0 : s0.box.Coherent) (ops : List (HOp K)) (sa sb sc : Size) :
    (s0.run ops).supersizeC sa sb sc = supersize (s0.run ops).box.visible sa sb sc (s0.run ops).atoms :=
  supersizeC_eq _ (run_coherent ops s0 h0) sa sb sc

end Obj

section ObjRotate
variable {K : Type} [Add K] [Sub K] [Mul K] [Div K] [IntCast K] [Zero K] [One K] [LT K] [LE K]
  [DecidableLT K] [DecidableLE K]

theorem rotateRawC_eq (fl : K → Int) (s : SysObj K) (h : s.box.Coherent) (U : M3 Int) :
    s.rotateRawC fl U = rotateRaw fl s.box.visible U s.atoms := by
  unfold SysObj.rotateRawC rotateRaw
  simp only [supersizeC_eq s h, supersize]

/-- `rotate` called on a coherent object is `rotate` of the state the object shows, and fully periodic. -/
theorem rotateC_eq (fl : K → Int) (s : SysObj K) (h : s.box.Coherent) (U : M3 Int) :
    s.rotateC fl U = (rotate fl s.box.visible U s.atoms, ⟨true, true, true⟩) := by
  unfold SysObj.rotateC rotate rotateChecked
  rw [rotateRawC_eq fl s h, rotatePbc_periodic]

/-- **after any history on the one object (flag changes included), `rotate` returns the re-oriented cell of the state
    the object shows, fully periodic.** -/
theorem hist_rotate (fl : K → Int) (s0 : SysObj K) (h0 : s0.box.Coherent) (ops : List (HOp K)) (U : M3 Int) :
    (s0.run ops).rotateC fl U = (rotate fl (s0.run ops).box.visible U (s0.run ops).atoms, ⟨true, true, true⟩) :=
  rotateC_eq fl _ (run_coherent ops s0 h0) U

end ObjRotate

/-- why coherence matters (the seeded stale cache): an object showing the cell `2·1` whose cache still holds the
    reciprocal vectors of the unit cell puts the replica of the atom at `(1,1,1)` somewhere else. -/
example :
    (SysObj.supersizeC (K := ℚ) ⟨⟨⟨⟨2, 0, 0⟩, ⟨0, 2, 0⟩, ⟨0, 0, 2⟩⟩, ⟨0, 0, 0⟩, some M3.one⟩, [⟨1, ⟨1, 1, 1⟩, []⟩], ⟨true, true, true⟩⟩
        ⟨0, 1⟩ ⟨0, 1⟩ ⟨0, 1⟩).2
      ≠ (supersize (K := ℚ) ⟨⟨⟨2, 0, 0⟩, ⟨0, 2, 0⟩, ⟨0, 0, 2⟩⟩, ⟨0, 0, 0⟩⟩ ⟨0, 1⟩ ⟨0, 1⟩ ⟨0, 1⟩ [⟨1, ⟨1, 1, 1⟩, []⟩]).2 := by
  decide +kernel

end Atomman.C04
