/-
  C10 — property theorems: the JSON/XML data-model round trip of values with units, Box, Atoms, System and
  ElasticConstants reproduces the original, and the physical value read back does not depend on the working
  units active when the model was written versus read.

  Model: Atomman/C10.lean (`ucModel`/`valueUnit`, `boxModel`/`boxRead`, `atomsModel`/`atomsRead`,
  `systemModel`/`systemRead`, `ecModel`/`ecRead`, the DataModelDict tree `DM` with `append`/`aslist` and the XML
  one-element-list collapse `xmlNorm`); tied to /repo on every run by the differential correspondence of
  harness/props/c10.py (real writers/readers vs the compiled driver, over tree / JSON text / XML text, under
  different `uc.reset_units` configurations).

  A working-unit configuration is a function `fac : String → K` (`uc.parse` of a unit string under that
  configuration; the parser is property C09's subject).  All theorems hold for every field `K`; the driver runs
  the same definitions at `K = Rat`.
-/
import Proofs.C10_Setters
import Proofs.C10_Elastic
import Proofs.C10_Objects
import Proofs.C10_Error
import Proofs.C10_Call
import Proofs.C10_Counts
import Proofs.C10_Source
import Atomman.C09
import Mathlib.Algebra.Order.Field.Rat

namespace Atomman.C10
open Atomman
set_option linter.unusedSimpArgs false
set_option linter.unusedVariables false
variable {α : Type} {K : Type}

/-! ## arrays: flatten / reshape -/

/-- **unflatten_flatten**: reshape (row-major) of the flattened data is the original nested array, for every
    shape (any rank, any extents, zero extents included). -/
theorem unflatten_flatten (s : List Nat) : ∀ (t : Nest α), t.HasShape s → unflatten s (t.flatten s) = t := by
  induction s with
  | nil => intro t h; cases t <;> simp_all [Nest.HasShape, Nest.flatten, unflatten]
  | cons n s ih =>
    intro t h
    cases t with
    | val a => simp [Nest.HasShape] at h
    | arr l =>
      obtain ⟨hn, hall⟩ := h
      simp only [Nest.flatten, unflatten]
      have hc : chunks (prodNat s) n (l.map (Nest.flatten s)).flatten = l.map (Nest.flatten s) := by
        have := chunks_flatten (prodNat s) (l.map (Nest.flatten s)) (by
          intro x hx
          obtain ⟨y, hy, rfl⟩ := List.mem_map.mp hx
          exact length_flatten_of_shape s y (hall y hy))
        simpa [hn] using this
      rw [hc, List.map_map]
      congr 1
      conv_rhs => rw [← List.map_id l]
      exact List.map_congr_left (fun x hx => ih x (hall x hx))

/-- the other direction: a flat buffer of the right size reshapes to an array of that shape whose
    flattening is the buffer (so `flatten` and `reshape` are mutually inverse bijections). -/
theorem flatten_unflatten_shape (s : List Nat) (d : List α) (h : d.length = prodNat s) :
    (unflatten s d).HasShape s ∧ (unflatten s d).flatten s = d := flatten_unflatten s d h

example : (Nest.arr [Nest.arr [Nest.val 1, .val 2, .val 3], .arr [.val 4, .val 5, .val 6]] : Nest Nat).HasShape [2, 3] := by
  simp [Nest.HasShape]
example : unflatten [2, 3] [1, 2, 3, 4, 5, 6]
    = (Nest.arr [Nest.arr [Nest.val 1, .val 2, .val 3], .arr [.val 4, .val 5, .val 6]] : Nest Nat) := by
  simp [unflatten, chunks, prodNat]

section field
variable [Field K]

/-! ## `uc.value_unit ∘ uc.model` -/

/-- **valueUnit_model**: `uc.value_unit(uc.model(a, units)) = a` for every shape (rank 0, 1, ≥ 2), every dtype
    class and every unit with a non-zero factor: the shape and the flat buffer come back (an integer array
    written *with* a unit comes back as the same numbers in floating point, `castU`). -/
theorem valueUnit_model (fac : String → K) (units : Option String) (a : Arr K)
    (hw : a.data.length = prodNat a.shape) (hne : prodNat a.shape ≠ 0)
    (hf : ∀ u, units = some u → factor fac u ≠ 0)
    (hs : ∀ l, a.data = Data.str l → units = none) :
    ∃ t, ucModel fac units a = some t ∧ valueUnit fac t = some ⟨a.shape, a.data.castU units⟩ := by
  obtain ⟨t, h1, h2⟩ := valueUnit_model_two fac fac units a hw hne hs
  exact ⟨t, h1, by rw [h2, rescale_self fac units hf]⟩

example : ∃ (fac : String → ℚ) (a : Arr ℚ), a.data.length = prodNat a.shape ∧ prodNat a.shape ≠ 0 ∧
    (∀ u, some "GPa" = some u → factor fac u ≠ 0) ∧ (∀ l, a.data = Data.str l → some "GPa" = none) :=
  ⟨fun _ => 5 / 2, ⟨[2, 1, 2], .flt [1, -2, 3, 1 / 4]⟩, rfl, by decide, by
    intro u h; cases h; simp [factor], by intro l h; cases h⟩

/-- **valueUnit_model_float** (round 5; closes the "non-empty" restriction for float data): a float array of ANY size —
    the empty ones `(0,)`, `(0, 3)`, `(2, 0)`, `(0, 3, 3)` included — comes back with its shape and buffer (numpy types
    the empty value list as float, which is what was written). -/
theorem valueUnit_model_float (fac : String → K) (units : Option String) (sh : List Nat) (l : List K)
    (hw : l.length = prodNat sh) (hf : ∀ u, units = some u → factor fac u ≠ 0) :
    ∃ t, ucModel fac units ⟨sh, .flt l⟩ = some t ∧ valueUnit fac t = some ⟨sh, .flt l⟩ := by
  obtain ⟨dw, h1, h2, h5⟩ := writeData_applyUnit fac fac units (Data.flt l) (by intro l' h; cases h)
  have hdw : ∃ l', dw = Data.flt l' := by
    cases units with
    | none => simp only [writeData, Option.some.injEq] at h1; exact ⟨l, h1.symm⟩
    | some u => simp only [writeData, Data.divBy, Option.some.injEq] at h1; exact ⟨_, h1.symm⟩
  have hlen : dw.length = prodNat sh := by rw [h2]; exact hw
  obtain ⟨v, hv⟩ := valueNode_isSome sh dw hlen
  refine ⟨DM.node (("value", v) :: (shapeEntry sh ++ unitEntry units)), by simp only [ucModel, h1, hv], ?_⟩
  have := valueUnit_node fac sh units dw _ v hlen (Or.inr hdw) hv h5
  rw [this, rescale_self fac units hf]
  rfl

/-- **valueUnit_model_empty**: the exact statement of the empty-array exception.  An EMPTY array of any dtype class
    (integer, string, float) and any shape with a zero extent is written as the empty value list, which numpy reads as
    an empty FLOAT array: the shape comes back, the dtype class of an empty integer / string array does not. -/
theorem valueUnit_model_empty (fac : String → K) (units : Option String) (a : Arr K)
    (hw : a.data.length = prodNat a.shape) (he : prodNat a.shape = 0)
    (hf : ∀ u, units = some u → factor fac u ≠ 0)
    (hs : ∀ l, a.data = Data.str l → units = none) :
    ∃ t, ucModel fac units a = some t ∧ valueUnit fac t = some ⟨a.shape, .flt []⟩ := by
  have h0 : a.data.length = 0 := by rw [hw, he]
  obtain ⟨t, h1, h2⟩ := valueUnit_model_float fac units a.shape [] (by simp [he]) hf
  refine ⟨t, ?_, h2⟩
  rw [← h1]
  rcases a with ⟨sh, d⟩
  cases d with
  | flt l =>
    have : l = [] := by simpa [Data.length] using h0
    subst this; rfl
  | int l =>
    have : l = [] := by simpa [Data.length] using h0
    subst this
    cases units <;> simp [ucModel, writeData, Data.divBy, Data.toScs]
  | str l =>
    have : l = [] := by simpa [Data.length] using h0
    subst this
    have hu := hs [] rfl
    subst hu
    simp [ucModel, writeData, Data.toScs]

/-- non-vacuity: an empty `(0, 3)` integer array written in `nm` comes back as the empty float array of shape `(0, 3)`. -/
example : ∃ t, ucModel (fun _ => (5 / 2 : ℚ)) (some "nm") ⟨[0, 3], .int []⟩ = some t ∧
    valueUnit (fun _ => (5 / 2 : ℚ)) t = some ⟨[0, 3], .flt []⟩ :=
  valueUnit_model_empty _ _ _ rfl rfl (by intro u _; simp [factor]; split <;> norm_num) (by intro l h; cases h)

/-- the same on nested arrays (what numpy shows): writing the array `t` of shape `s` and reshaping what is read
    back gives `t`. -/
theorem valueUnit_model_nested (fac : String → K) (units : Option String) (s : List Nat) (t : Nest K)
    (ht : t.HasShape s) (hne : prodNat s ≠ 0) (hf : ∀ u, units = some u → factor fac u ≠ 0) :
    ∃ m d, ucModel fac units ⟨s, .flt (t.flatten s)⟩ = some m ∧ valueUnit fac m = some ⟨s, .flt d⟩ ∧
      unflatten s d = t := by
  obtain ⟨m, h1, h2⟩ := valueUnit_model fac units ⟨s, .flt (t.flatten s)⟩
    (by simpa [Data.length] using length_flatten_of_shape s t ht) hne hf (by intro l h; cases h)
  exact ⟨m, t.flatten s, h1, by simpa [Data.castU] using h2, unflatten_flatten s t ht⟩

/-- **valueUnit_model_xml**: the same through XML text (the codec collapses one-element lists, `xmlNorm`): shape
    and buffer come back for every array except that a length-1 *vector* (shape `[1]`, written without a `shape`
    entry) is read as a scalar (`xmlShape`); every other shape — `[1,1]`, `[1,3]`, `[n,1]`, … — is restored from
    the `shape` entry.  (`Atoms`/`System` undo the exception by broadcasting, see `atoms_model_roundtrip_xml`.) -/
theorem valueUnit_model_xml (fac : String → K) (units : Option String) (a : Arr K)
    (hw : a.data.length = prodNat a.shape) (hne : prodNat a.shape ≠ 0)
    (hf : ∀ u, units = some u → factor fac u ≠ 0)
    (hs : ∀ l, a.data = Data.str l → units = none) :
    ∃ t, ucModel fac units a = some t ∧ valueUnit fac (xmlNorm t) = some ⟨xmlShape a.shape, a.data.castU units⟩ := by
  obtain ⟨t, h1, h2⟩ := valueUnit_model_two_xml fac fac units a hw hne hs
  exact ⟨t, h1, by rw [h2, rescale_self fac units hf]⟩

theorem xmlShape_eq (sh : List Nat) (h : sh ≠ [1]) : xmlShape sh = sh := by simp [xmlShape, h]

example : xmlShape [1, 1] = [1, 1] ∧ xmlShape [4, 1, 3] = [4, 1, 3] ∧ xmlShape [1] = [] := by decide

/-- **errorUnit_model**: a value stored together with its uncertainty (`uc.model(a, units, error=e)`): both
    `uc.value_unit` and `uc.error_unit` return what was stored — shape and buffer — for every shape and every unit
    with a non-zero factor. -/
theorem errorUnit_model (fac : String → K) (units : Option String) (a : Arr K) (e : List K)
    (hw : a.data.length = prodNat a.shape) (he : e.length = prodNat a.shape) (hne : prodNat a.shape ≠ 0)
    (hf : ∀ u, units = some u → factor fac u ≠ 0) (hs : ∀ l, a.data = Data.str l → units = none) :
    ∃ t, ucModelE fac units a e = some t ∧ valueUnit fac t = some ⟨a.shape, a.data.castU units⟩ ∧
      errorUnit fac t = some ⟨a.shape, .flt e⟩ := by
  obtain ⟨t, h1, h2, h3⟩ := errorUnit_model_two_aux fac fac units a e hw he hne hs
  refine ⟨t, h1, by rw [h2, rescale_self fac units hf], ?_⟩
  rw [h3]
  have hid : scaleFn fac fac units = fun x => x := funext (scaleFn_self fac units hf)
  simp [hid]

/-- **errorUnit_model_two**: written under `fac1`, read under `fac2`: value and error are rescaled by the same
    function `x ↦ x / fac1 u · fac2 u` (the identity without a unit) — the stored uncertainty is a quantity in the
    stored unit, like the value. -/
theorem errorUnit_model_two (fac1 fac2 : String → K) (units : Option String) (a : Arr K) (e : List K)
    (hw : a.data.length = prodNat a.shape) (he : e.length = prodNat a.shape) (hne : prodNat a.shape ≠ 0)
    (hs : ∀ l, a.data = Data.str l → units = none) :
    ∃ t, ucModelE fac1 units a e = some t ∧
      valueUnit fac2 t = some ⟨a.shape, a.data.rescale fac1 fac2 units⟩ ∧
      errorUnit fac2 t = some ⟨a.shape, .flt (e.map (scaleFn fac1 fac2 units))⟩ :=
  errorUnit_model_two_aux fac1 fac2 units a e hw he hne hs

/-! ## physical value vs working units -/

/-- **physical_value_unit_independent**: write `a` in unit `u` under configuration `fac1`, read under `fac2`.
    The value read back, *expressed in the stored unit under the reading configuration*
    (`get_in_units(read, u)`), equals the original expressed in that unit under the writing configuration
    (`get_in_units(a, u)`): the stored physical value does not depend on the working units at write or read
    time.  Only `fac2 u ≠ 0` is needed. -/
theorem physical_value_unit_independent (fac1 fac2 : String → K) (u : String) (a : Arr K)
    (hw : a.data.length = prodNat a.shape) (hne : prodNat a.shape ≠ 0) (hs : ∀ l, a.data ≠ Data.str l)
    (h2 : factor fac2 u ≠ 0) :
    ∃ t d, ucModel fac1 (some u) a = some t ∧ valueUnit fac2 t = some ⟨a.shape, d⟩ ∧
      writeData fac2 (some u) d = writeData fac1 (some u) a.data := by
  obtain ⟨t, h1, hr⟩ := valueUnit_model_two fac1 fac2 (some u) a hw hne (fun l h => absurd h (hs l))
  refine ⟨t, _, h1, hr, ?_⟩
  cases hd : a.data with
  | str l => exact absurd hd (hs l)
  | flt l =>
    simp only [writeData, Data.rescale, Data.divBy, scaleFn_some, List.map_map, Option.some.injEq, Data.flt.injEq]
    apply List.map_congr_left
    intro x _
    simp only [Function.comp]
    field_simp
  | int l =>
    simp only [writeData, Data.rescale, Data.divBy, scaleFn_some, List.map_map, Option.some.injEq, Data.flt.injEq]
    apply List.map_congr_left
    intro x _
    simp only [Function.comp]
    field_simp

/-! the factor of a unit under a configuration has the form `v · m^a kg^b s^c C^d K^e` (property C09,
    `eval_dimension_hom`: `v` the SI value, `(a,…,e)` the dimension, `sc` the base-unit scalings of the
    configuration).  With that form the numbers read back are the originals times a ratio that depends only on the
    *dimension* of the unit and the two configurations. -/

theorem powNat_ne_zero (x : K) (hx : x ≠ 0) (n : Nat) : C09.powNat x n ≠ 0 := by
  induction n with
  | zero => simp [C09.powNat]
  | succ n ih => simp [C09.powNat, ih, hx]

theorem powInt_ne_zero (x : K) (hx : x ≠ 0) (n : Int) : C09.powInt x n ≠ 0 := by
  unfold C09.powInt
  split
  · exact powNat_ne_zero x hx _
  · exact div_ne_zero one_ne_zero (powNat_ne_zero x hx _)

/-- the scaling factor of a dimension under non-zero base-unit scalings is non-zero. -/
theorem c09_factor_ne_zero (sc : C09.Scales K) (h : sc.m ≠ 0 ∧ sc.kg ≠ 0 ∧ sc.s ≠ 0 ∧ sc.c ≠ 0 ∧ sc.k ≠ 0)
    (d : C09.D5) : C09.factor sc d ≠ 0 := by
  obtain ⟨h1, h2, h3, h4, h5⟩ := h
  unfold C09.factor
  exact mul_ne_zero (mul_ne_zero (mul_ne_zero (mul_ne_zero (powInt_ne_zero _ h1 _) (powInt_ne_zero _ h2 _))
    (powInt_ne_zero _ h3 _)) (powInt_ne_zero _ h4 _)) (powInt_ne_zero _ h5 _)

/-- **physical_value_rescaled**: if the unit `u` has SI value `v ≠ 0` and dimension `d`, and the two
    configurations scale the base units by `sc1`, `sc2` (the form C09 proves for every unit expression), then a
    float array written under the first and read under the second comes back with every number multiplied by
    `factor sc2 d / factor sc1 d` — one ratio for all units of the same dimension, 1 when the configurations
    agree on that dimension. -/
theorem physical_value_rescaled (fac1 fac2 : String → K) (u : String) (hu : u ≠ "scaled") (v : K) (d : C09.D5)
    (sc1 sc2 : C09.Scales K) (hv : v ≠ 0)
    (hsc1 : sc1.m ≠ 0 ∧ sc1.kg ≠ 0 ∧ sc1.s ≠ 0 ∧ sc1.c ≠ 0 ∧ sc1.k ≠ 0)
    (h1 : fac1 u = v * C09.factor sc1 d) (h2 : fac2 u = v * C09.factor sc2 d)
    (sh : List Nat) (l : List K) (hw : l.length = prodNat sh) (hne : prodNat sh ≠ 0) :
    ∃ t, ucModel fac1 (some u) ⟨sh, .flt l⟩ = some t ∧
      valueUnit fac2 t = some ⟨sh, .flt (l.map (· * (C09.factor sc2 d / C09.factor sc1 d)))⟩ := by
  obtain ⟨t, ht, hr⟩ := valueUnit_model_two fac1 fac2 (some u) ⟨sh, .flt l⟩ (by simpa [Data.length] using hw) hne
    (by intro l h; cases h)
  refine ⟨t, ht, ?_⟩
  rw [hr]
  have hf := c09_factor_ne_zero sc1 hsc1 d
  simp only [Data.rescale, scaleFn_some, factor, hu, if_false, h1, h2]
  congr 3
  apply List.map_congr_left
  intro x _
  field_simp

example : ∃ (sc : C09.Scales ℚ), sc.m ≠ 0 ∧ sc.kg ≠ 0 ∧ sc.s ≠ 0 ∧ sc.c ≠ 0 ∧ sc.k ≠ 0 ∧
    C09.factor sc ⟨-1, 1, -2, 0, 0⟩ = 5 / 4 :=
  ⟨⟨2, 5 / 2, 1, 1, 1⟩, by decide +kernel, by decide +kernel, by decide +kernel, by decide +kernel, by decide +kernel,
    by decide +kernel⟩

/-! ## Box -/

/-- **box_model_roundtrip**: `Box(model=box.model(length_unit=u))` has the same origin and the cell vectors
    passed through the `vects` setter (entries negligible against the largest are zeroed), for every tilted or
    rotated cell, every origin, every length unit (or none). -/
theorem box_model_roundtrip [LT K] [DecidableLT K] (fac : String → K) (eps : K) (u : Option String) (b : Box K)
    (hf : ∀ s, u = some s → factor fac s ≠ 0) :
    ∃ t, boxModel fac u b = some t ∧ boxRead fac eps t = some ⟨cleanVects eps b.vects, b.origin⟩ := by
  obtain ⟨t, h1, h2⟩ := box_model_two fac fac eps u b
  refine ⟨t, h1, ?_⟩
  have hid : scaleFn fac fac u = fun x => x := funext (scaleFn_self fac u hf)
  rw [h2, hid]
  obtain ⟨⟨⟨a, b, c⟩, ⟨d, e, f⟩, ⟨g, h, i⟩⟩, ⟨x, y, z⟩⟩ := b
  simp [mapM3, V3.map]

/-- … hence exactly the original for a `Box` object (its vectors went through the setter already:
    `cleanVects eps b.vects = b.vects`). -/
theorem box_model_roundtrip_exact [LT K] [DecidableLT K] (fac : String → K) (eps : K) (u : Option String)
    (b : Box K) (hf : ∀ s, u = some s → factor fac s ≠ 0) (hb : cleanVects eps b.vects = b.vects) :
    ∃ t, boxModel fac u b = some t ∧ boxRead fac eps t = some b := by
  obtain ⟨t, h1, h2⟩ := box_model_roundtrip fac eps u b hf
  exact ⟨t, h1, by rw [h2, hb]⟩

example : cleanVects (1 / 1000000000 : ℚ) ⟨⟨4, 0, 0⟩, ⟨-1 / 2, 3, 0⟩, ⟨1 / 4, 1, 5⟩⟩
    = ⟨⟨4, 0, 0⟩, ⟨-1 / 2, 3, 0⟩, ⟨1 / 4, 1, 5⟩⟩ := by decide +kernel

/-- the same through XML text. -/
theorem box_model_roundtrip_xml [LT K] [DecidableLT K] (fac : String → K) (eps : K) (u : Option String) (b : Box K)
    (hf : ∀ s, u = some s → factor fac s ≠ 0) :
    ∃ t, boxModel fac u b = some t ∧ boxRead fac eps (xmlNorm t) = some ⟨cleanVects eps b.vects, b.origin⟩ := by
  obtain ⟨bm, h1, h2⟩ := box_model_node_xml fac fac eps u b
  refine ⟨_, h1, ?_⟩
  have hx : xmlNorm (DM.node [("box", bm)]) = DM.node [("box", xmlNorm bm)] := by simp [xmlNorm, xmlNormKV]
  have hid : scaleFn fac fac u = fun x => x := funext (scaleFn_self fac u hf)
  rw [hx, h2 _ (by simp [List.lookup]), hid]
  obtain ⟨⟨⟨a, b, c⟩, ⟨d, e, f⟩, ⟨g, h, i⟩⟩, ⟨x, y, z⟩⟩ := b
  simp [mapM3, V3.map]

/-- **value_dump_load_end_to_end**: `uc.value_unit` of `uc.model(a, units)` through EVERY encoding: shape and numbers come
    back through the tree and JSON text; through XML text likewise except that a shape-`(1,)` vector is read as a scalar
    (`xmlShape`, the known exception, stated exactly). -/
theorem value_dump_load_end_to_end (fac : String → K) (units : Option String) (a : Arr K)
    (hw : a.data.length = prodNat a.shape) (hne : prodNat a.shape ≠ 0)
    (hf : ∀ u, units = some u → factor fac u ≠ 0)
    (hs : ∀ l, a.data = Data.str l → units = none)
    (via : String) (hvia : via = "tree" ∨ via = "json" ∨ via = "xml") :
    valueDumpLoad fac fac via units a
      = some ⟨if via = "xml" then xmlShape a.shape else a.shape, a.data.castU units⟩ := by
  obtain ⟨t, ht, hr⟩ := valueUnit_model fac units a hw hne hf hs
  obtain ⟨t', ht', hr'⟩ := valueUnit_model_xml fac units a hw hne hf hs
  have : t' = t := by rw [ht] at ht'; cases ht'; rfl
  subst this
  unfold valueDumpLoad
  rw [ht']
  rcases hvia with h | h | h <;> subst h <;> simp [encode, hr, hr']

/-- **box_dump_load_end_to_end**: a Box whose vectors pass the setter comes back exactly through every encoding. -/
theorem box_dump_load_end_to_end [LT K] [DecidableLT K] (fac : String → K) (eps : K) (u : Option String)
    (b : Box K) (hf : ∀ s, u = some s → factor fac s ≠ 0) (hb : cleanVects eps b.vects = b.vects)
    (via : String) (hvia : via = "tree" ∨ via = "json" ∨ via = "xml") :
    boxDumpLoad fac fac eps via u b = some b := by
  obtain ⟨t, ht, hr⟩ := box_model_roundtrip_exact fac eps u b hf hb
  obtain ⟨t', ht', hr'⟩ := box_model_roundtrip_xml fac eps u b hf
  have : t' = t := by rw [ht] at ht'; cases ht'; rfl
  subst this
  rw [hb] at hr'
  unfold boxDumpLoad
  rw [ht']
  rcases hvia with h | h | h <;> subst h <;> simp [encode, hr, hr']

/-! ## Atoms -/

/-- **atoms_model_roundtrip**: `Atoms(model=atoms.model(prop_unit=…))` has the same `natoms`, the same property
    names in the same order, and for every property the same shape and buffer (dtype class kept when no unit is
    given; integers written with a unit come back as floats), for every admissible unit assignment `un`
    (`'scaled'` included: it is factor 1 for `Atoms` alone) and the default `pos → angstrom`. -/
theorem atoms_model_roundtrip (fac : String → K) (a : AtomsM K) (hw : a.Wf) (un : String → Option String)
    (hu : UnitsOk a un)
    (hf : ∀ p ∈ a.props, ∀ s, effUnit p.1 (un p.1) = some s → factor fac s ≠ 0) :
    ∃ t, atomsModel fac (a.props.map (fun p => (p.1, un p.1))) a = some t ∧
      atomsRead fac t = some ⟨a.natoms,
        a.props.map (fun p => (p.1, ⟨p.2.shape, p.2.data.castU (effUnit p.1 (un p.1))⟩))⟩ := by
  obtain ⟨t, h1, h2⟩ := atoms_model_two fac fac a hw un hu
  refine ⟨t, h1, ?_⟩
  rw [h2]
  congr 2
  apply List.map_congr_left
  intro p hp
  simp only [propTwo, rescale_self fac _ (hf p hp)]

/-- **atoms_model_roundtrip_xml**: the same through XML text, *exactly* — with one atom the rank-1 properties are
    read back as scalars (`valueUnit_model_xml`) and `Atoms.__init__` broadcasts them to `natoms = 1` again; a
    single `property` entry is not a list in XML and `aslist` restores it. -/
theorem atoms_model_roundtrip_xml (fac : String → K) (a : AtomsM K) (hw : a.Wf) (un : String → Option String)
    (hu : UnitsOk a un)
    (hf : ∀ p ∈ a.props, ∀ s, effUnit p.1 (un p.1) = some s → factor fac s ≠ 0) :
    ∃ t, atomsModel fac (a.props.map (fun p => (p.1, un p.1))) a = some t ∧
      atomsRead fac (xmlNorm t) = some ⟨a.natoms,
        a.props.map (fun p => (p.1, ⟨p.2.shape, p.2.data.castU (effUnit p.1 (un p.1))⟩))⟩ := by
  obtain ⟨t, h1, h2⟩ := atoms_model_two_xml fac fac a hw un hu
  refine ⟨t, h1, ?_⟩
  rw [h2]
  congr 2
  apply List.map_congr_left
  intro p hp
  simp only [propTwo, rescale_self fac _ (hf p hp)]

theorem mem_of_lookup {α : Type} (l : List (String × α)) (k : String) (v : α) (h : l.lookup k = some v) : (k, v) ∈ l := by
  induction l with
  | nil => simp [List.lookup] at h
  | cons a l ih =>
    obtain ⟨k', v'⟩ := a
    simp only [List.lookup] at h
    cases hk : (k == k') with
    | true =>
      simp only [hk, Option.some.injEq] at h
      have : k = k' := by simpa using hk
      subst this; subst h; simp
    | false =>
      simp only [hk] at h
      exact List.mem_cons_of_mem _ (ih h)


/-- the selected property `e = (name, unit)` after writing under `fac1` and reading under `fac2`. -/
def selTwo (fac1 fac2 : String → K) (a : AtomsM K) (e : String × Option String) : String × Arr K :=
  match a.props.lookup e.1 with
  | some arr => (e.1, ⟨arr.shape, arr.data.rescale fac1 fac2 (effUnit e.1 e.2)⟩)
  | none => (e.1, ⟨[], .flt []⟩)

/-- **any selection of properties, in any order** (`Atoms.model(prop_unit=pu)` / `prop_name=`, `unit=`): reading the
    model is the same as constructing `Atoms(natoms=…, prop=…)` from the selected, converted properties (so a
    missing `atype` / `pos` gets the constructor's default, `atype`, `pos` come first). -/
theorem atoms_model_select (fac1 fac2 : String → K) (a : AtomsM K) (hw : a.Wf) (pu : List (String × Option String))
    (hnd : (pu.map Prod.fst).Nodup) (hmem : ∀ e ∈ pu, ∃ arr, a.props.lookup e.1 = some arr)
    (hs : ∀ e ∈ pu, ∀ arr l, a.props.lookup e.1 = some arr → arr.data = .str l → effUnit e.1 e.2 = none) :
    ∃ t, atomsModel fac1 pu a = some t ∧
      atomsRead fac2 t = atomsOfProps a.natoms (pu.map (selTwo fac1 fac2 a)) := by
  obtain ⟨ps, hps, hfa⟩ := mapOpt_exists (propModel fac1 a)
    (fun e t => propRead fac2 t = some (selTwo fac1 fac2 a e)) pu
    (fun e he => by
      obtain ⟨arr, harr⟩ := hmem e he
      obtain ⟨_, h2, h3⟩ := hw.ok (e.1, arr) (mem_of_lookup _ _ _ harr)
      obtain ⟨t, ht1, ht2⟩ := valueUnit_model_two fac1 fac2 (effUnit e.1 e.2) arr h2 h3 (fun l hl => hs e he arr l harr hl)
      refine ⟨DM.node [("name", DM.leaf (Sc.str e.1)), ("data", t)], by simp only [propModel, harr, ht1], ?_⟩
      simp [propRead, DM.getStr?, DM.get?, List.lookup, ht2, selTwo, harr])
  refine ⟨DM.node [("atoms", DM.node (("natoms", DM.leaf (Sc.int a.natoms)) :: appendAll "property" ps))],
    by simp only [atomsModel, hps], ?_⟩
  have hread := mapOpt_forall2 (propRead fac2) id (pu.map (selTwo fac1 fac2 a)) ps
    (by
      have : List.Forall₂ (fun x y => propRead fac2 y = some (id x)) (pu.map (selTwo fac1 fac2 a)) ps :=
        List.forall₂_map_left_iff.mpr (by simpa using hfa)
      exact this)
  have hfst : (pu.map (selTwo fac1 fac2 a)).map Prod.fst = pu.map Prod.fst := by
    simp only [List.map_map]
    apply List.map_congr_left
    intro e _
    simp only [Function.comp, selTwo]
    split <;> rfl
  have hfold := foldl_dictSet [] (pu.map (selTwo fac1 fac2 a)) (by simpa [hfst] using hnd)
  have hnl : ∀ x ∈ ps, x.isList = false := by
    intro x hx
    obtain ⟨e, _, he⟩ := forall2_right_mem _ _ _ hfa x hx
    cases x <;> simp_all [propRead, DM.getStr?, DM.get?, DM.isList]
  have hl : (DM.node (("natoms", DM.leaf (Sc.int (a.natoms : Int))) :: appendAll "property" ps)).aslist "property" = ps :=
    aslist_of_lookup _ _ _ (by simp [List.lookup]) hnl
  simp only [List.map_id] at hread
  simp only [atomsRead, DM.get?, List.lookup]
  simp [hl, hread, hfold, List.lookup]


/-- with no unit on a property nothing changes at all: `castU none` is the identity. -/
theorem castU_none (d : Data K) : d.castU none = d := by cases d <;> rfl

/-- a 2-atom, 2-type `Atoms` with an integer, a string and a rank-3 float property satisfies the hypotheses. -/
def exAtoms : AtomsM ℚ := ⟨2, [("atype", ⟨[2], .int [1, 2]⟩), ("pos", ⟨[2, 3], .flt [0, 0, 0, 1 / 2, 1, 3]⟩),
  ("tag", ⟨[2], .int [7, -1]⟩), ("label", ⟨[2], .str ["a", "bb"]⟩),
  ("stress", ⟨[2, 2, 2], .flt [1, 2, 3, 4, 5, 6, 7, 8]⟩)]⟩

def exUn : String → Option String := fun n =>
  if n = "pos" then some "scaled" else if n = "stress" then some "GPa" else none

theorem exAtoms_wf : exAtoms.Wf where
  head := ⟨[1, 2], [0, 0, 0, 1 / 2, 1, 3], _, rfl, by decide⟩
  nodup := by decide
  ok := by
    intro p hp
    simp only [exAtoms, List.mem_cons, List.not_mem_nil, or_false] at hp
    rcases hp with rfl | rfl | rfl | rfl | rfl <;>
      exact ⟨⟨_, rfl⟩, by decide, by decide⟩

theorem exAtoms_units : SysUnitsOk exAtoms exUn := by
  refine ⟨⟨by decide, ?_⟩, ?_⟩
  · intro p hp l hl
    simp only [exAtoms, List.mem_cons, List.not_mem_nil, or_false] at hp
    rcases hp with rfl | rfl | rfl | rfl | rfl <;> first | (cases hl; done) | decide
  · intro p hp hsc
    simp only [exAtoms, List.mem_cons, List.not_mem_nil, or_false] at hp
    rcases hp with rfl | rfl | rfl | rfl | rfl <;> first | rfl | (revert hsc; decide)

/-! ## System -/

/-- `position_relative_to_cartesian ∘ position_cartesian_to_relative = id` for a non-degenerate cell. -/
theorem rel_cart_id (b : Box K) (hd : M3.det b.vects ≠ 0) (v : V3 K) : b.relToCart (b.cartToRel v) = v := by
  obtain ⟨⟨⟨a, b, c⟩, ⟨d, e, f⟩, ⟨g, h, i⟩⟩, ⟨x, y, z⟩⟩ := b
  have := rel_cart_scaled ⟨⟨a, b, c⟩, ⟨d, e, f⟩, ⟨g, h, i⟩⟩ ⟨x, y, z⟩ 1 hd v
  simpa [mapM3, V3.map] using this

/-- what the two-configuration reader returns, specialised to one configuration: the original system. -/
theorem system_expected_same [LT K] [DecidableLT K] (fac : String → K) (eps : K) (boxUnit : Option String)
    (s : SystemM K) (hw : s.Wf) (un : String → Option String) (hu : SysUnitsOk s.atoms un)
    (hb : cleanVects eps s.box.vects = s.box.vects)
    (hfb : ∀ u, boxUnit = some u → factor fac u ≠ 0)
    (hf : ∀ p ∈ s.atoms.props, ∀ u, effUnit p.1 (un p.1) = some u → factor fac u ≠ 0)
    (hdet : (∃ p ∈ s.atoms.props, effUnit p.1 (un p.1) = some "scaled") → M3.det s.box.vects ≠ 0) :
    (let box' : Box K := ⟨cleanVects eps (mapM3 (scaleFn fac fac boxUnit) s.box.vects),
        s.box.origin.map (scaleFn fac fac boxUnit)⟩
     (some ⟨box', s.pbc, s.symbols, s.masses,
        ⟨s.atoms.natoms, s.atoms.props.map (sysPropFinal fac fac un s.box box')⟩⟩ : Option (SystemM K))) =
    some ⟨s.box, s.pbc, s.symbols, s.masses,
      ⟨s.atoms.natoms, s.atoms.props.map (fun p => (p.1, ⟨p.2.shape, p.2.data.castU (effUnit p.1 (un p.1))⟩))⟩⟩ := by
  have hid : scaleFn fac fac boxUnit = fun x => x := funext (scaleFn_self fac boxUnit hfb)
  have hM : mapM3 (fun x : K => x) s.box.vects = s.box.vects := by
    obtain ⟨⟨a, b, c⟩, ⟨d, e, f⟩, ⟨g, h, i⟩⟩ := s.box.vects; rfl
  have hO : s.box.origin.map (fun x : K => x) = s.box.origin := by
    obtain ⟨x, y, z⟩ := s.box.origin; rfl
  simp only [hid, hM, hO, hb]
  congr 3
  apply List.map_congr_left
  intro p hp
  by_cases hsc : effUnit p.1 (un p.1) = some "scaled"
  · have hns : ∀ l, p.2.data ≠ .str l := by
      intro l hl
      have := hu.1.2 p hp l hl
      rw [hsc] at this; cases this
    obtain ⟨_, hlen, _⟩ := hw.atoms.ok p hp
    obtain ⟨n, hn⟩ := prodNat_last3 p.2.shape (hu.2 p hp hsc)
    have hd := hdet ⟨p, hp, hsc⟩
    have hrc : ∀ v : V3 K, s.box.relToCart (s.box.cartToRel v) = v.map (fun x => x) :=
      fun v => (rel_cart_id s.box hd v).trans (by cases v; rfl)
    simp only [sysPropFinal, hsc, if_true]
    rw [rowsMap_pointwise _ (fun x => x) hrc n _ (by rw [fltD_length _ hns, hlen, hn]), List.map_id']
    rw [← rescale_scaled fac fac _ hns, rescale_self fac _ (by intro u hu'; cases hu'; simp [factor])]
  · simp only [sysPropFinal, hsc, if_false, propTwo, rescale_self fac _ (hf p hp)]

/-- **system_model_roundtrip**: `System(model=system.model(box_unit=…, prop_unit=…))` reproduces the cell and
    origin, the periodic flags, the symbols and masses (missing ones as `None`, the `atom-type-mass` entries
    omitted when all are missing), `natoms`, and every per-atom property — shape and buffer — including
    properties stored box-scaled (`'scaled'`: written through `cartToRel`, read through `relToCart` of the
    re-read box; exact because the cell is non-degenerate).  Hypotheses: the `System`/`Atoms`/`Box` object
    invariants (`hw`, `hb`), an admissible unit assignment, non-zero unit factors, and `det ≠ 0` when some
    property is stored scaled. -/
theorem system_model_roundtrip [LT K] [DecidableLT K] (fac : String → K) (eps : K) (boxUnit : Option String)
    (s : SystemM K) (hw : s.Wf) (un : String → Option String) (hu : SysUnitsOk s.atoms un)
    (hb : cleanVects eps s.box.vects = s.box.vects)
    (hfb : ∀ u, boxUnit = some u → factor fac u ≠ 0)
    (hf : ∀ p ∈ s.atoms.props, ∀ u, effUnit p.1 (un p.1) = some u → factor fac u ≠ 0)
    (hdet : (∃ p ∈ s.atoms.props, effUnit p.1 (un p.1) = some "scaled") → M3.det s.box.vects ≠ 0) :
    ∃ t, systemModel fac boxUnit (s.atoms.props.map (fun p => (p.1, un p.1))) s = some t ∧
      systemRead fac eps t = some ⟨s.box, s.pbc, s.symbols, s.masses,
        ⟨s.atoms.natoms, s.atoms.props.map (fun p => (p.1, ⟨p.2.shape, p.2.data.castU (effUnit p.1 (un p.1))⟩))⟩⟩ := by
  obtain ⟨t, h1, h2⟩ := system_model_two fac fac eps boxUnit s hw un hu
  exact ⟨t, h1, h2.trans (system_expected_same fac eps boxUnit s hw un hu hb hfb hf hdet)⟩

/-- **system_model_roundtrip_xml**: the same through XML text (`System.dump('system_model', format='xml')` →
    `load('system_model', …)`): one-element `atom-type-symbol` / `atom-type-mass` / `property` lists and
    length-1 value lists are collapsed by the codec and restored by `aslist` / broadcasting. -/
theorem system_model_roundtrip_xml [LT K] [DecidableLT K] (fac : String → K) (eps : K) (boxUnit : Option String)
    (s : SystemM K) (hw : s.Wf) (un : String → Option String) (hu : SysUnitsOk s.atoms un)
    (hb : cleanVects eps s.box.vects = s.box.vects)
    (hfb : ∀ u, boxUnit = some u → factor fac u ≠ 0)
    (hf : ∀ p ∈ s.atoms.props, ∀ u, effUnit p.1 (un p.1) = some u → factor fac u ≠ 0)
    (hdet : (∃ p ∈ s.atoms.props, effUnit p.1 (un p.1) = some "scaled") → M3.det s.box.vects ≠ 0) :
    ∃ t, systemModel fac boxUnit (s.atoms.props.map (fun p => (p.1, un p.1))) s = some t ∧
      systemRead fac eps (xmlNorm t) = some ⟨s.box, s.pbc, s.symbols, s.masses,
        ⟨s.atoms.natoms, s.atoms.props.map (fun p => (p.1, ⟨p.2.shape, p.2.data.castU (effUnit p.1 (un p.1))⟩))⟩⟩ := by
  obtain ⟨t, h1, h2⟩ := system_model_two_xml fac fac eps boxUnit s hw un hu
  exact ⟨t, h1, h2.trans (system_expected_same fac eps boxUnit s hw un hu hb hfb hf hdet)⟩

/-- a tilted cell with non-zero origin, a missing symbol and missing masses satisfies the hypotheses
    (`pos` stored scaled, a tensor property in GPa). -/
def exSys : SystemM ℚ := ⟨⟨⟨⟨4, 0, 0⟩, ⟨-1 / 2, 3, 0⟩, ⟨1 / 4, 1, 5⟩⟩, ⟨1, -2, 1 / 2⟩⟩, [true, false, true],
  [some "Al", none], [none, some 27], exAtoms⟩

theorem exSys_wf : exSys.Wf where
  atoms := exAtoms_wf
  pbc := rfl
  ntypes := ⟨2, by decide, by decide⟩
  masses := rfl

example : M3.det exSys.box.vects ≠ 0 := by decide +kernel
example : cleanVects (1 / 1000000000 : ℚ) exSys.box.vects = exSys.box.vects := by decide +kernel

/-- **system_model_two_units** (working units changed between write and read): the box written in `boxUnit`
    comes back with every length rescaled by `g = x ↦ x / fac1 u · fac2 u` (`g = id` without a unit), the flags,
    symbols and masses unchanged, a box-scaled property rescaled by the *same* `g` (it follows the cell), and
    every other property by its own unit's ratio.  `hclean`: the re-read vectors are not altered by the `vects`
    setter's near-zero clean-up. -/
theorem system_model_two_units [LT K] [DecidableLT K] (fac1 fac2 : String → K) (eps : K) (boxUnit : Option String)
    (s : SystemM K) (hw : s.Wf) (un : String → Option String) (hu : SysUnitsOk s.atoms un)
    (hclean : cleanVects eps (mapM3 (scaleFn fac1 fac2 boxUnit) s.box.vects) = mapM3 (scaleFn fac1 fac2 boxUnit) s.box.vects)
    (hdet : M3.det s.box.vects ≠ 0) :
    ∃ t, systemModel fac1 boxUnit (s.atoms.props.map (fun p => (p.1, un p.1))) s = some t ∧
      systemRead fac2 eps t = some ⟨⟨mapM3 (scaleFn fac1 fac2 boxUnit) s.box.vects,
          s.box.origin.map (scaleFn fac1 fac2 boxUnit)⟩, s.pbc, s.symbols, s.masses,
        ⟨s.atoms.natoms, s.atoms.props.map (fun p =>
          if effUnit p.1 (un p.1) = some "scaled" then
            (p.1, ⟨p.2.shape, .flt (p.2.data.fltD.map (scaleFn fac1 fac2 boxUnit))⟩)
          else propTwo fac1 fac2 un p)⟩⟩ := by
  obtain ⟨t, h1, h2⟩ := system_model_two fac1 fac2 eps boxUnit s hw un hu
  refine ⟨t, h1, ?_⟩
  rw [h2]
  simp only [hclean]
  congr 3
  apply List.map_congr_left
  intro p hp
  by_cases hsc : effUnit p.1 (un p.1) = some "scaled"
  · have hns : ∀ l, p.2.data ≠ .str l := by
      intro l hl
      have := hu.1.2 p hp l hl
      rw [hsc] at this; cases this
    obtain ⟨_, hlen, _⟩ := hw.atoms.ok p hp
    obtain ⟨n, hn⟩ := prodNat_last3 p.2.shape (hu.2 p hp hsc)
    obtain ⟨r, hr⟩ := scaleFn_eq_mul fac1 fac2 boxUnit
    have hrc : ∀ v : V3 K, Box.relToCart ⟨mapM3 (scaleFn fac1 fac2 boxUnit) s.box.vects,
        s.box.origin.map (scaleFn fac1 fac2 boxUnit)⟩ (s.box.cartToRel v) = v.map (scaleFn fac1 fac2 boxUnit) := by
      intro v
      rw [hr]
      exact rel_cart_scaled s.box.vects s.box.origin r hdet v
    simp only [sysPropFinal, hsc, if_true]
    rw [rowsMap_pointwise _ _ hrc n _ (by rw [fltD_length _ hns, hlen, hn])]
  · simp only [sysPropFinal, hsc, if_false]

/-! ## ElasticConstants -/

/-- **elastic_model_roundtrip**: reading `ec.model(unit=u, crystal_system=cs)` is the same as constructing
    `ElasticConstants(Cij=ec.normalized_as(cs).Cij)` (`norm` is `normalized_as`, property C11's subject; the
    identity for `'triclinic'`): all 36 entries of the 6×6 array, shape restored from the `shape` entry. -/
theorem elastic_model_roundtrip [LT K] [DecidableLT K] (fac : String → K) (eps atol rtol : K) (u : Option String)
    (norm : List K → List K) (c : List K) (hlen : (norm c).length = 36)
    (hf : ∀ s, u = some s → factor fac s ≠ 0) :
    ∃ t, ecModel fac u norm c = some t ∧ ecRead fac eps atol rtol t = cijSet eps atol rtol (norm c) := by
  obtain ⟨t, h1, h2⟩ := valueUnit_model_two fac fac u ⟨[6, 6], .flt (norm c)⟩
    (by simpa [Data.length, prodNat] using hlen) (by simp [prodNat]) (by intro l h; cases h)
  refine ⟨DM.node [("elastic-constants", DM.node [("Cij", t)])], by simp only [ecModel, h1], ?_⟩
  have hid : scaleFn fac fac u = fun x => x := funext (scaleFn_self fac u hf)
  simp [ecRead, DM.get?, List.lookup, h2, Data.rescale, Data.toFlt, hid]

/-- … hence exactly the (normalised) constants for an `ElasticConstants` object, whose `Cij` went through the
    setter already. -/
theorem elastic_model_roundtrip_exact [LT K] [DecidableLT K] (fac : String → K) (eps atol rtol : K)
    (u : Option String) (norm : List K → List K) (c : List K) (hlen : (norm c).length = 36)
    (hf : ∀ s, u = some s → factor fac s ≠ 0) (hc : cijSet eps atol rtol (norm c) = some (norm c)) :
    ∃ t, ecModel fac u norm c = some t ∧ ecRead fac eps atol rtol t = some (norm c) := by
  obtain ⟨t, h1, h2⟩ := elastic_model_roundtrip fac eps atol rtol u norm c hlen hf
  exact ⟨t, h1, by rw [h2, hc]⟩

/-- the same through XML text (36 values and a two-entry `shape`: nothing collapses). -/
theorem elastic_model_roundtrip_xml [LT K] [DecidableLT K] (fac : String → K) (eps atol rtol : K) (u : Option String)
    (norm : List K → List K) (c : List K) (hlen : (norm c).length = 36)
    (hf : ∀ s, u = some s → factor fac s ≠ 0) :
    ∃ t, ecModel fac u norm c = some t ∧ ecRead fac eps atol rtol (xmlNorm t) = cijSet eps atol rtol (norm c) := by
  obtain ⟨t, h1, h2⟩ := valueUnit_model_two_xml fac fac u ⟨[6, 6], .flt (norm c)⟩
    (by simpa [Data.length, prodNat] using hlen) (by simp [prodNat]) (by intro l h; cases h)
  refine ⟨DM.node [("elastic-constants", DM.node [("Cij", t)])], by simp only [ecModel, h1], ?_⟩
  have hid : scaleFn fac fac u = fun x => x := funext (scaleFn_self fac u hf)
  have hx : xmlNorm (DM.node [("elastic-constants", DM.node [("Cij", t)])]) =
      DM.node [("elastic-constants", DM.node [("Cij", xmlNorm t)])] := by simp [xmlNorm, xmlNormKV]
  rw [hx]
  simp [ecRead, DM.get?, List.lookup, h2, Data.rescale, Data.toFlt, hid, xmlShape]

/-- under two configurations every constant is rescaled by the pressure unit's ratio before the setter. -/
theorem elastic_model_two [LT K] [DecidableLT K] (fac1 fac2 : String → K) (eps atol rtol : K) (u : Option String)
    (norm : List K → List K) (c : List K) (hlen : (norm c).length = 36) :
    ∃ t, ecModel fac1 u norm c = some t ∧
      ecRead fac2 eps atol rtol t = cijSet eps atol rtol ((norm c).map (scaleFn fac1 fac2 u)) := by
  obtain ⟨t, h1, h2⟩ := valueUnit_model_two fac1 fac2 u ⟨[6, 6], .flt (norm c)⟩
    (by simpa [Data.length, prodNat] using hlen) (by simp [prodNat]) (by intro l h; cases h)
  refine ⟨DM.node [("elastic-constants", DM.node [("Cij", t)])], by simp only [ecModel, h1], ?_⟩
  simp [ecRead, DM.get?, List.lookup, h2, Data.rescale, Data.toFlt]

/-- cubic constants C11 = 3, C12 = 1, C44 = 1/2 pass the setter unchanged. -/
example : cijSet (1 / 1000000000 : ℚ) (1 / 1000000000) (1 / 100000)
    [3, 1, 1, 0, 0, 0,  1, 3, 1, 0, 0, 0,  1, 1, 3, 0, 0, 0,  0, 0, 0, 1 / 2, 0, 0,  0, 0, 0, 0, 1 / 2, 0,
     0, 0, 0, 0, 0, 1 / 2]
    = some [3, 1, 1, 0, 0, 0,  1, 3, 1, 0, 0, 0,  1, 1, 3, 0, 0, 0,  0, 0, 0, 1 / 2, 0, 0,  0, 0, 0, 0, 1 / 2, 0,
     0, 0, 0, 0, 0, 1 / 2] := by decide +kernel

end field

/-! ## objects with state: an existing `Box` / `System` object behaves like a freshly constructed one -/

section objects
variable [Field K] [LT K] [DecidableLT K]

/-- **box_object_conversions**: in every state a `Box` object can reach (construction, setter calls, conversions
    that make it keep its reciprocal vectors, `model(model=…)` reads, in any order) its
    `position_cartesian_to_relative` and `reciprocal_vects` are those of its *current* cell — what a `Box` freshly
    built from the same vectors and origin returns — and asking does not change the cell. -/
theorem box_object_conversions (eps : K) (b : BoxObj K) (h : BoxReach eps b) (p : V3 K) :
    (b.cartToRel p).1 = b.box.cartToRel p ∧ b.recipVects.1 = b.box.recip ∧ (b.cartToRel p).2.box = b.box ∧
      BoxReach eps (b.cartToRel p).2 :=
  ⟨BoxObj.cartToRel_fst b (h.coherent eps b) p, BoxObj.recipVects_fst b (h.coherent eps b),
   BoxObj.recipVects_box b, BoxReach.convert b p h⟩

/-- **box_object_read_model**: `box.model(model=B.model(length_unit=u))` on an existing object `b` — whatever `b`
    held and kept before — gives an object with the cell and origin of `B` (through the `vects` setter) that
    converts positions with the reciprocal vectors of `B`, through the tree / JSON and through XML text. -/
theorem box_object_read_model (fac : String → K) (eps : K) (u : Option String) (b : BoxObj K) (hb : BoxReach eps b)
    (B : Box K) (hf : ∀ s, u = some s → factor fac s ≠ 0) :
    ∃ t b' b'', boxModel fac u B = some t ∧ b.readModel fac eps t = some b' ∧
      b.readModel fac eps (xmlNorm t) = some b'' ∧ b'.box = ⟨cleanVects eps B.vects, B.origin⟩ ∧ b''.box = b'.box ∧
      BoxReach eps b' ∧ BoxReach eps b'' ∧
      ∀ p, (b'.cartToRel p).1 = Box.cartToRel ⟨cleanVects eps B.vects, B.origin⟩ p ∧
           (b''.cartToRel p).1 = Box.cartToRel ⟨cleanVects eps B.vects, B.origin⟩ p := by
  obtain ⟨t, h1, h2⟩ := box_model_roundtrip fac eps u B hf
  obtain ⟨t', h1', h3⟩ := box_model_roundtrip_xml fac eps u B hf
  have : t' = t := by rw [h1] at h1'; exact (Option.some.inj h1').symm
  subst this
  have e1 : b.readModel fac eps t' = some ⟨⟨cleanVects eps B.vects, B.origin⟩, none⟩ := by
    simp [BoxObj.readModel, h2, BoxObj.setOrigin]
  have e2 : b.readModel fac eps (xmlNorm t') = some ⟨⟨cleanVects eps B.vects, B.origin⟩, none⟩ := by
    simp [BoxObj.readModel, h3, BoxObj.setOrigin]
  have r1 := BoxReach.read fac b _ t' hb e1
  refine ⟨t', _, _, h1, e1, e2, rfl, rfl, r1, r1, fun p => ?_⟩
  exact ⟨(box_object_conversions eps _ r1 p).1, (box_object_conversions eps _ r1 p).1⟩

/-- **sysobj_model_fresh**: `system.model(...)` of a `System` object whose `Box` object is in any reachable state
    (reciprocal vectors kept from an earlier cell or not) is the model of a freshly built `System` with the same
    content; writing the model changes nothing but the kept state. -/
theorem sysobj_model_fresh (fac : String → K) (eps : K) (boxUnit : Option String)
    (pu : List (String × Option String)) (s : SysObj K) (h : BoxReach eps s.bobj) :
    (s.model fac boxUnit pu).1 = systemModel fac boxUnit pu s.toSystem ∧
      (s.model fac boxUnit pu).2.toSystem = s.toSystem ∧ BoxReach eps (s.model fac boxUnit pu).2.bobj := by
  have hc : (fun p => (s.bobj.cartToRel p).1) = s.toSystem.box.cartToRel :=
    funext (fun p => BoxObj.cartToRel_fst s.bobj (h.coherent eps _) p)
  unfold SysObj.model
  split
  · refine ⟨by simp only [hc, systemModelR_eq], ?_, BoxReach.recip _ h⟩
    simp [SysObj.toSystem, BoxObj.recipVects_box]
  · exact ⟨by simp only [hc, systemModelR_eq], rfl, h⟩

/-- **sysobj_model_roundtrip**: hence the System round trip (`system_model_roundtrip`, box-scaled properties
    included) holds for `System` objects with any history of their `Box` object. -/
theorem sysobj_model_roundtrip (fac : String → K) (eps : K) (boxUnit : Option String) (s : SysObj K)
    (h : BoxReach eps s.bobj) (hw : s.toSystem.Wf) (un : String → Option String) (hu : SysUnitsOk s.atoms un)
    (hb : cleanVects eps s.bobj.box.vects = s.bobj.box.vects)
    (hfb : ∀ u, boxUnit = some u → factor fac u ≠ 0)
    (hf : ∀ p ∈ s.atoms.props, ∀ u, effUnit p.1 (un p.1) = some u → factor fac u ≠ 0)
    (hdet : (∃ p ∈ s.atoms.props, effUnit p.1 (un p.1) = some "scaled") → M3.det s.bobj.box.vects ≠ 0) :
    ∃ t, (s.model fac boxUnit (s.atoms.props.map (fun p => (p.1, un p.1)))).1 = some t ∧
      systemRead fac eps t = some ⟨s.bobj.box, s.pbc, s.symbols, s.masses,
        ⟨s.atoms.natoms, s.atoms.props.map (fun p => (p.1, ⟨p.2.shape, p.2.data.castU (effUnit p.1 (un p.1))⟩))⟩⟩ := by
  obtain ⟨t, h1, h2⟩ := system_model_roundtrip fac eps boxUnit s.toSystem hw un hu hb hfb hf hdet
  exact ⟨t, by rw [(sysobj_model_fresh fac eps boxUnit _ s h).1]; exact h1, h2⟩

/-- a box whose reciprocal vectors were kept and whose cell was then replaced through the setter is reachable
    (and has dropped them). -/
example : BoxReach (1 / 1000000000 : ℚ)
    (((BoxObj.ofBox ⟨⟨⟨4, 0, 0⟩, ⟨1, 3, 0⟩, ⟨0, 1, 5⟩⟩, ⟨1, 2, 3⟩⟩).cartToRel ⟨1, 1, 1⟩).2.setVects (1 / 1000000000)
      ⟨⟨2, 0, 0⟩, ⟨0, 2, 0⟩, ⟨1, 0, 2⟩⟩) :=
  BoxReach.setVects _ _ (BoxReach.convert _ _ (BoxReach.new _))

end objects

/-! ## ElasticConstants stored in a crystal-system representation (`normalized_as` inside the model) -/

section normal_form
variable [Field K] [LinearOrder K] [IsStrictOrderedRing K]

/-- **normalized_fixes_normal_form**: `normalized_as(cs)` does not change an `ElasticConstants` object whose
    constants already are in the general normal form of `cs` (`InForm`: 3 cubic, 5 hexagonal, 7 tetragonal with
    `C16 = -C26`, 7 rhombohedral with `C14`, `C15`, 9 orthorhombic, 13 monoclinic constants (`C15`, `C25`, `C35`,
    `C46`; `normalized_as('monoclinic')` exists since repo fix 877d779), anything for triclinic). -/
theorem normalized_fixes_normal_form (eps atol rtol : K) (muK : Option (K × K)) (cs : String) (c : List K)
    (h : InForm cs c) (hc : cijSet eps atol rtol c = some c) :
    normalizedAs eps atol rtol muK cs c = some c := by
  simp [normalizedAs, normForm_fix muK cs c h, hc]

/-- **elastic_model_normal_form**: `ElasticConstants(model=ec.model(unit=u, crystal_system=cs))` reproduces `ec`
    exactly — all 36 constants — when `ec` is in the normal form of `cs`, through the tree / JSON and through XML
    text, for every unit with a non-zero factor. -/
theorem elastic_model_normal_form (fac : String → K) (eps atol rtol : K) (u : Option String)
    (muK : Option (K × K)) (cs : String) (c : List K) (h : InForm cs c) (hc : cijSet eps atol rtol c = some c)
    (hf : ∀ s, u = some s → factor fac s ≠ 0) :
    ∃ t, ecModelCS fac u eps atol rtol muK cs c = some t ∧ ecRead fac eps atol rtol t = some c ∧
      ecRead fac eps atol rtol (xmlNorm t) = some c := by
  have hlen := cijSet_length eps atol rtol c c hc
  obtain ⟨t, e1, e2⟩ := elastic_model_roundtrip fac eps atol rtol u (fun _ => c) c hlen hf
  obtain ⟨t', e1', e3⟩ := elastic_model_roundtrip_xml fac eps atol rtol u (fun _ => c) c hlen hf
  have : t' = t := by rw [e1] at e1'; exact (Option.some.inj e1').symm
  subst this
  refine ⟨t', ?_, by rw [e2]; exact hc, by rw [e3]; exact hc⟩
  simp only [ecModelCS, normalized_fixes_normal_form eps atol rtol muK cs c h hc, e1]

/-- **elastic_dump_load_end_to_end**: elastic constants in the normal form of the requested `crystal_system` (and
    accepted by the setter) come back exactly — all 36 — through every encoding. -/
theorem elastic_dump_load_end_to_end (fac : String → K) (eps atol rtol : K) (u : Option String)
    (muK : Option (K × K)) (cs : String) (c : List K) (h : InForm cs c) (hc : cijSet eps atol rtol c = some c)
    (hf : ∀ s, u = some s → factor fac s ≠ 0)
    (via : String) (hvia : via = "tree" ∨ via = "json" ∨ via = "xml") :
    ecDumpLoad fac fac eps atol rtol via u muK cs c = some c := by
  obtain ⟨t, ht, hr, hr'⟩ := elastic_model_normal_form fac eps atol rtol u muK cs c h hc hf
  unfold ecDumpLoad
  rw [ht]
  rcases hvia with h | h | h <;> subst h <;> simp [encode, hr, hr']

/-- the seven-constant tetragonal tensor with `C16 = -17 = -C26` passes the setter unchanged: the hypotheses of
    `elastic_model_normal_form` are satisfiable with `C16 ≠ 0`. -/
example : cijSet (1 / 1000000000 : ℚ) (1 / 1000000000) (1 / 100000) (tetraForm 144 127 64 56 37 45 (-17))
    = some (tetraForm 144 127 64 56 37 45 (-17)) := by decide +kernel
example : cijSet (1 / 1000000000 : ℚ) (1 / 1000000000) (1 / 100000) (rhomboForm 87 106 7 12 (-18) 3 58)
    = some (rhomboForm 87 106 7 12 (-18) 3 58) := by decide +kernel
/-- a thirteen-constant monoclinic tensor (`C15`, `C25`, `C35`, `C46` non-zero) passes the setter unchanged, and
    `normalized_as('monoclinic')` of a general (triclinic) tensor is a value: it keeps the thirteen constants and
    zeroes `C14 C16 C24 C26 C34 C36 C45 C56`. -/
example : cijSet (1 / 1000000000 : ℚ) (1 / 1000000000) (1 / 100000)
      (monoForm 144 64 56 (-9) 171 48 7 127 (-13) 37 5 45 52)
    = some (monoForm 144 64 56 (-9) 171 48 7 127 (-13) 37 5 45 52) := by decide +kernel
example : normForm (K := ℚ) none "monoclinic"
      [144, 64, 56, 3, -9, 2,  64, 171, 48, -4, 7, 6,  56, 48, 127, 1, -13, 8,
       3, -4, 1, 37, 11, 5,  -9, 7, -13, 11, 45, -2,  2, 6, 8, 5, -2, 52]
    = some (monoForm 144 64 56 (-9) 171 48 7 127 (-13) 37 5 45 52) := by decide +kernel

/-- **elastic_model_normal_form_two**: written under `fac1`, read under `fac2`: the constants of a crystal in the
    normal form of `cs` come back multiplied by the pressure unit's factor ratio (and through the setter), none of
    them lost to the normalisation. -/
theorem elastic_model_normal_form_two (fac1 fac2 : String → K) (eps atol rtol : K) (u : Option String)
    (muK : Option (K × K)) (cs : String) (c : List K) (h : InForm cs c) (hc : cijSet eps atol rtol c = some c) :
    ∃ t, ecModelCS fac1 u eps atol rtol muK cs c = some t ∧
      ecRead fac2 eps atol rtol t = cijSet eps atol rtol (c.map (scaleFn fac1 fac2 u)) := by
  have hlen := cijSet_length eps atol rtol c c hc
  obtain ⟨t, e1, e2⟩ := elastic_model_two fac1 fac2 eps atol rtol u (fun _ => c) c hlen
  exact ⟨t, by simp only [ecModelCS, normalized_fixes_normal_form eps atol rtol muK cs c h hc, e1], e2⟩

/-- **elastic_model_second_generation**: whatever constants `n` a (lossy) normalisation into `cs` produces from
    arbitrary constants `c`, they are in the normal form of `cs`; so, when the setter leaves them alone, storing
    them as `cs` again reproduces them exactly: the stored representation is stable. -/
theorem elastic_model_second_generation (fac : String → K) (eps atol rtol : K) (u : Option String)
    (muK muK' : Option (K × K)) (cs : String) (hcs : cs ≠ "isotropic") (c n : List K)
    (hn : normForm muK cs c = some n) (hc : cijSet eps atol rtol n = some n)
    (hf : ∀ s, u = some s → factor fac s ≠ 0) :
    normalizedAs eps atol rtol muK cs c = some n ∧
    ∃ t, ecModelCS fac u eps atol rtol muK' cs n = some t ∧ ecRead fac eps atol rtol t = some n ∧
      ecRead fac eps atol rtol (xmlNorm t) = some n :=
  ⟨by simp [normalizedAs, hn, hc],
   elastic_model_normal_form fac eps atol rtol u muK' cs n (normForm_inForm muK cs c n hcs hn) hc hf⟩

end normal_form

/-! ## the object invariants are established by the setters (ordered fields) -/

section ordered
variable [Field K] [LinearOrder K] [IsStrictOrderedRing K]

/-- **box_setter_roundtrip**: any `Box` built through the `vects` setter (`0 ≤ eps < 1`; atomman uses
    `eps = 1e-9`) — i.e. every `Box` object — comes back from its data model exactly. -/
theorem box_setter_roundtrip (fac : String → K) (eps : K) (h0 : 0 ≤ eps) (h1 : eps < 1) (u : Option String)
    (m : M3 K) (o : V3 K) (hf : ∀ s, u = some s → factor fac s ≠ 0) :
    ∃ t, boxModel fac u ⟨cleanVects eps m, o⟩ = some t ∧
      boxRead fac eps t = some ⟨cleanVects eps m, o⟩ ∧ boxRead fac eps (xmlNorm t) = some ⟨cleanVects eps m, o⟩ := by
  obtain ⟨t, h1', h2⟩ := box_model_roundtrip fac eps u ⟨cleanVects eps m, o⟩ hf
  obtain ⟨t', h1'', h3⟩ := box_model_roundtrip_xml fac eps u ⟨cleanVects eps m, o⟩ hf
  have : t' = t := by rw [h1'] at h1''; exact (Option.some.inj h1'').symm
  subst this
  exact ⟨t', h1', by rw [h2, cleanVects_idem eps h0 h1], by rw [h3, cleanVects_idem eps h0 h1]⟩

/-- **elastic_setter_roundtrip**: constants accepted by the `Cij` setter (every `ElasticConstants` object) come
    back from `model(unit=u)` (no normalisation) exactly, through the tree and through XML text. -/
theorem elastic_setter_roundtrip (fac : String → K) (eps atol rtol : K) (h0 : 0 ≤ eps) (h1 : eps < 1)
    (u : Option String) (l c : List K) (hc : cijSet eps atol rtol l = some c)
    (hf : ∀ s, u = some s → factor fac s ≠ 0) :
    ∃ t, ecModel fac u id c = some t ∧ ecRead fac eps atol rtol t = some c ∧
      ecRead fac eps atol rtol (xmlNorm t) = some c := by
  have hlen := cijSet_length eps atol rtol l c hc
  have hidem := cijSet_idem eps atol rtol h0 h1 l c hc
  obtain ⟨t, e1, e2⟩ := elastic_model_roundtrip fac eps atol rtol u id c hlen hf
  obtain ⟨t', e1', e3⟩ := elastic_model_roundtrip_xml fac eps atol rtol u id c hlen hf
  have : t' = t := by rw [e1] at e1'; exact (Option.some.inj e1').symm
  subst this
  exact ⟨t', e1, by rw [e2]; exact hidem, by rw [e3]; exact hidem⟩

end ordered
/-! ## `System.model` with a selection of the properties (`prop_unit=` / `prop_name=`, `unit=`) -/

section select

/-- the `System` that holds only the selected properties, in the selected order (what
    `System.model(prop_unit=pu)` looks at). -/
def SystemM.select (s : SystemM K) (pu : List (String × Option String)) : SystemM K :=
  { s with atoms := ⟨s.atoms.natoms,
      pu.filterMap (fun e => (s.atoms.props.lookup e.1).map (fun arr => (e.1, arr)))⟩ }

/-- the unit the selection asks for the property `name` (`none` also when it is not selected). -/
def selUnit (pu : List (String × Option String)) (name : String) : Option String := (pu.lookup name).join

theorem lookup_filterMap_sel {α : Type} (props : List (String × α)) :
    ∀ (pu : List (String × Option String)) (k : String), k ∈ pu.map Prod.fst →
      (pu.filterMap (fun e => (props.lookup e.1).map (fun arr => (e.1, arr)))).lookup k = props.lookup k := by
  intro pu
  induction pu with
  | nil => intro k hk; simp at hk
  | cons e pu ih =>
    intro k hk
    by_cases hke : k = e.1
    · subst hke
      cases hl : props.lookup e.1 with
      | none =>
        simp only [List.filterMap_cons, hl, Option.map_none]
        -- not present in `props`: the filtered list has no entry with that key either
        have : ∀ (q : List (String × Option String)),
            (q.filterMap (fun e' => (props.lookup e'.1).map (fun arr => (e'.1, arr)))).lookup e.1 = none := by
          intro q
          induction q with
          | nil => rfl
          | cons e' q ihq =>
            simp only [List.filterMap_cons]
            cases hl' : props.lookup e'.1 with
            | none => simpa using ihq
            | some arr =>
              simp only [Option.map_some, List.lookup]
              have hne : (e.1 == e'.1) = false := by
                apply beq_false_of_ne
                intro h; rw [h] at hl; rw [hl] at hl'; cases hl'
              simp [hne, ihq]
        exact this pu
      | some arr => simp [hl]
    · have hk' : k ∈ pu.map Prod.fst := by
        simp only [List.map_cons, List.mem_cons] at hk
        exact hk.resolve_left hke
      simp only [List.filterMap_cons]
      cases hl : props.lookup e.1 with
      | none => simpa using ih k hk'
      | some arr =>
        have hne : (k == e.1) = false := beq_false_of_ne hke
        simp [List.lookup, hne, ih k hk']

theorem lookup_of_nodup {β : Type} : ∀ (pu : List (String × β)), (pu.map Prod.fst).Nodup →
    ∀ e ∈ pu, pu.lookup e.1 = some e.2 := by
  intro pu
  induction pu with
  | nil => intro _ e he; cases he
  | cons a pu ih =>
    intro hnd e he
    rcases List.mem_cons.mp he with rfl | he'
    · simp [List.lookup]
    · have hnot : a.1 ∉ pu.map Prod.fst := (List.nodup_cons.mp hnd).1
      have hne : (e.1 == a.1) = false :=
        beq_false_of_ne (fun h => hnot (h ▸ List.mem_map.mpr ⟨e, he', rfl⟩))
      simp only [List.lookup, hne]
      exact ih (List.nodup_cons.mp hnd).2 e he'

theorem filterMap_sel_map {α β : Type} (props : List (String × α)) (g : String → β) :
    ∀ (pu : List (String × Option String)), (∀ e ∈ pu, ∃ arr, props.lookup e.1 = some arr) →
      (pu.filterMap (fun e => (props.lookup e.1).map (fun arr => (e.1, arr)))).map (fun p => (p.1, g p.1))
        = pu.map (fun e => (e.1, g e.1)) := by
  intro pu
  induction pu with
  | nil => intro _; rfl
  | cons e pu ih =>
    intro hmem
    obtain ⟨arr, harr⟩ := hmem e (by simp)
    simp only [List.filterMap_cons, harr, Option.map_some, List.map_cons]
    rw [ih (fun e' he' => hmem e' (List.mem_cons_of_mem _ he'))]

theorem select_props_units (s : SystemM K) (pu : List (String × Option String))
    (hnd : (pu.map Prod.fst).Nodup) (hmem : ∀ e ∈ pu, ∃ arr, s.atoms.props.lookup e.1 = some arr) :
    (s.select pu).atoms.props.map (fun p => (p.1, selUnit pu p.1)) = pu := by
  unfold SystemM.select
  simp only
  rw [filterMap_sel_map _ _ pu hmem]
  conv_rhs => rw [← List.map_id pu]
  apply List.map_congr_left
  intro e he
  simp [selUnit, lookup_of_nodup pu hnd e he]

section field
variable [Field K]

theorem sysPropModel_select (fac : String → K) (s : SystemM K) (pu : List (String × Option String))
    (e : String × Option String) (he : e ∈ pu) :
    sysPropModel fac (s.select pu) e = sysPropModel fac s e := by
  have hl : (s.select pu).atoms.props.lookup e.1 = s.atoms.props.lookup e.1 :=
    lookup_filterMap_sel _ pu e.1 (List.mem_map.mpr ⟨e, he, rfl⟩)
  simp only [sysPropModel, propModel, hl]
  rfl

theorem mapOpt_congr {α β : Type} (f g : α → Option β) : ∀ (l : List α), (∀ x ∈ l, f x = g x) → mapOpt f l = mapOpt g l := by
  intro l
  induction l with
  | nil => intro _; rfl
  | cons a l ih =>
    intro h
    simp only [mapOpt, h a (by simp), ih (fun x hx => h x (List.mem_cons_of_mem _ hx))]

/-- **writing a selection = writing every property of the System that holds just the selected ones** -/
theorem systemModel_select (fac : String → K) (boxUnit : Option String) (s : SystemM K)
    (pu : List (String × Option String)) (hnd : (pu.map Prod.fst).Nodup)
    (hmem : ∀ e ∈ pu, ∃ arr, s.atoms.props.lookup e.1 = some arr) :
    systemModel fac boxUnit pu s =
      systemModel fac boxUnit ((s.select pu).atoms.props.map (fun p => (p.1, selUnit pu p.1))) (s.select pu) := by
  rw [select_props_units s pu hnd hmem]
  have h := mapOpt_congr (sysPropModel fac (s.select pu)) (sysPropModel fac s) pu
    (fun e he => sysPropModel_select fac s pu e he)
  simp only [systemModel, h]
  rfl

/-- **system_model_select**: `System(model=system.model(box_unit=…, prop_unit=pu))` for a *selection* `pu` of the
    properties (any subset, any order, any admissible units, as long as the selected properties alone make a
    well-formed `System`, i.e. `atype` and `pos` are selected first - `select_wf`): cell, origin, flags, symbols,
    masses and `natoms` come back, and exactly the selected properties, in the selected order, each with its
    shape and buffer (box-scaled ones included). -/
theorem system_model_select [LT K] [DecidableLT K] (fac : String → K) (eps : K) (boxUnit : Option String)
    (s : SystemM K) (pu : List (String × Option String)) (hnd : (pu.map Prod.fst).Nodup)
    (hmem : ∀ e ∈ pu, ∃ arr, s.atoms.props.lookup e.1 = some arr)
    (hw : (s.select pu).Wf) (hu : SysUnitsOk (s.select pu).atoms (selUnit pu))
    (hb : cleanVects eps s.box.vects = s.box.vects)
    (hfb : ∀ u, boxUnit = some u → factor fac u ≠ 0)
    (hf : ∀ p ∈ (s.select pu).atoms.props, ∀ u, effUnit p.1 (selUnit pu p.1) = some u → factor fac u ≠ 0)
    (hdet : (∃ p ∈ (s.select pu).atoms.props, effUnit p.1 (selUnit pu p.1) = some "scaled") → M3.det s.box.vects ≠ 0) :
    ∃ t, systemModel fac boxUnit pu s = some t ∧
      systemRead fac eps t = some ⟨s.box, s.pbc, s.symbols, s.masses,
        ⟨s.atoms.natoms, (s.select pu).atoms.props.map
          (fun p => (p.1, ⟨p.2.shape, p.2.data.castU (effUnit p.1 (selUnit pu p.1))⟩))⟩⟩ := by
  rw [systemModel_select fac boxUnit s pu hnd hmem]
  exact system_model_roundtrip fac eps boxUnit (s.select pu) hw (selUnit pu) hu hb hfb hf hdet

/-- the same through XML text. -/
theorem system_model_select_xml [LT K] [DecidableLT K] (fac : String → K) (eps : K) (boxUnit : Option String)
    (s : SystemM K) (pu : List (String × Option String)) (hnd : (pu.map Prod.fst).Nodup)
    (hmem : ∀ e ∈ pu, ∃ arr, s.atoms.props.lookup e.1 = some arr)
    (hw : (s.select pu).Wf) (hu : SysUnitsOk (s.select pu).atoms (selUnit pu))
    (hb : cleanVects eps s.box.vects = s.box.vects)
    (hfb : ∀ u, boxUnit = some u → factor fac u ≠ 0)
    (hf : ∀ p ∈ (s.select pu).atoms.props, ∀ u, effUnit p.1 (selUnit pu p.1) = some u → factor fac u ≠ 0)
    (hdet : (∃ p ∈ (s.select pu).atoms.props, effUnit p.1 (selUnit pu p.1) = some "scaled") → M3.det s.box.vects ≠ 0) :
    ∃ t, systemModel fac boxUnit pu s = some t ∧
      systemRead fac eps (xmlNorm t) = some ⟨s.box, s.pbc, s.symbols, s.masses,
        ⟨s.atoms.natoms, (s.select pu).atoms.props.map
          (fun p => (p.1, ⟨p.2.shape, p.2.data.castU (effUnit p.1 (selUnit pu p.1))⟩))⟩⟩ := by
  rw [systemModel_select fac boxUnit s pu hnd hmem]
  exact system_model_roundtrip_xml fac eps boxUnit (s.select pu) hw (selUnit pu) hu hb hfb hf hdet

end field

/-- **select_wf**: a selection that names `atype` and `pos` first (then any distinct other properties of the
    System, in any order) leaves a well-formed System: the hypothesis `hw` of `system_model_select` follows from
    the invariants of the System itself. -/
theorem select_wf (s : SystemM K) (hw : s.Wf) (ua up : Option String) (rest : List (String × Option String))
    (hnd : (("atype", ua) :: ("pos", up) :: rest).map Prod.fst |>.Nodup)
    (hmem : ∀ e ∈ rest, ∃ arr, s.atoms.props.lookup e.1 = some arr) :
    (s.select (("atype", ua) :: ("pos", up) :: rest)).Wf := by
  obtain ⟨la, lp, rs, hprops, hla⟩ := hw.atoms.head
  have hA : s.atoms.props.lookup "atype" = some ⟨[s.atoms.natoms], .int la⟩ := by rw [hprops]; simp [List.lookup]
  have hP : s.atoms.props.lookup "pos" = some ⟨[s.atoms.natoms, 3], .flt lp⟩ := by rw [hprops]; simp [List.lookup]
  have hsel : (s.select (("atype", ua) :: ("pos", up) :: rest)).atoms.props =
      ("atype", ⟨[s.atoms.natoms], .int la⟩) :: ("pos", ⟨[s.atoms.natoms, 3], .flt lp⟩) ::
        rest.filterMap (fun e => (s.atoms.props.lookup e.1).map (fun arr => (e.1, arr))) := by
    simp [SystemM.select, List.filterMap_cons, hA, hP]
  have hall : ∀ e ∈ ("atype", ua) :: ("pos", up) :: rest, ∃ arr, s.atoms.props.lookup e.1 = some arr := by
    intro e he
    rcases List.mem_cons.mp he with rfl | he
    · exact ⟨_, hA⟩
    · rcases List.mem_cons.mp he with rfl | he
      · exact ⟨_, hP⟩
      · exact hmem e he
  refine ⟨⟨⟨la, lp, _, hsel, hla⟩, ?_, ?_⟩, hw.pbc, ?_, hw.masses⟩
  · -- names of the selection
    have := congrArg (List.map Prod.fst) (select_props_units s _ hnd hall)
    simp only [List.map_map, Function.comp_def] at this
    rw [show (s.select (("atype", ua) :: ("pos", up) :: rest)).atoms.props.map Prod.fst
        = (("atype", ua) :: ("pos", up) :: rest).map Prod.fst from this]
    exact hnd
  · intro p hp
    obtain ⟨e, _, hq⟩ := List.mem_filterMap.mp hp
    obtain ⟨arr, harr, rfl⟩ := Option.map_eq_some_iff.mp hq
    exact hw.atoms.ok (e.1, arr) (mem_of_lookup _ _ _ harr)
  · obtain ⟨nat, hnat, hle⟩ := hw.ntypes
    refine ⟨nat, ?_, hle⟩
    rw [← hnat]
    simp [AtomsM.natypes, hsel, hprops, List.lookup]

/-- non-vacuity: from the example System (tilted cell, non-zero origin, 5 properties) select `atype`, `pos`
    (box-scaled), then `stress` (GPa) and `tag` in the opposite of their stored order, leaving `label` out: the
    selection is admissible (`select_wf`) and what is kept is exactly the four selected properties in that order. -/
def exSel : List (String × Option String) := [("atype", none), ("pos", some "scaled"), ("stress", some "GPa"), ("tag", none)]

example : (exSys.select exSel).Wf :=
  select_wf exSys exSys_wf none (some "scaled") [("stress", some "GPa"), ("tag", none)] (by decide)
    (by intro e he; simp only [List.mem_cons, List.not_mem_nil, or_false] at he; rcases he with rfl | rfl <;> exact ⟨_, rfl⟩)

example : (exSys.select exSel).atoms.props.map Prod.fst = ["atype", "pos", "stress", "tag"] := by decide +kernel
example : (exSel.map Prod.fst).Nodup := by decide

/-- **sysobj_edit_model_fresh**: after an in-place edit of a coordinate through the array the object hands out
    (`system.atoms.pos[i, j] = v`) the object's model is the model of a freshly built `System` with the edited
    content - whatever the history of its `Box` object: nothing written earlier is kept. -/
theorem sysobj_edit_model_fresh [Field K] [LT K] [DecidableLT K] (fac : String → K) (eps : K) (boxUnit : Option String)
    (pu : List (String × Option String)) (s : SysObj K) (h : BoxReach eps s.bobj) (i : Nat) (v : K) :
    ((s.setPosAt i v).model fac boxUnit pu).1 = systemModel fac boxUnit pu (s.setPosAt i v).toSystem :=
  (sysobj_model_fresh fac eps boxUnit pu (s.setPosAt i v) h).1

end select

/-! ## the call forms of the unit arguments (`prop_unit` / `prop_name` + `unit` / `unit` alone / `prop_name` alone / nothing) -/

theorem zip_names_units {α β : Type} (l : List (String × α)) (f : String × α → β) :
    (l.map Prod.fst).zip (l.map f) = l.map (fun p => (p.1, f p)) := by
  induction l with
  | nil => rfl
  | cons a l ih => simp only [List.map_cons, List.zip_cons_cons, ih]

section callforms
variable [Field K]

/-- **atoms_model_call_forms**: the call forms of `Atoms.model` that describe the same properties and units write
    the same tree as the dictionary form `prop_unit = dict(zip(names, units))`: the two lists, the dictionary, the
    `unit` list alone when the names are the object's own in their own order, and - when no unit is asked for -
    the `prop_name` list alone and no argument at all. -/
theorem atoms_model_call_forms (fac : String → K) (a : AtomsM K) (names : List String) (units : List (Option String))
    (hn : names.Nodup) (hl : units.length = names.length) :
    atomsModelCall fac (some names) (some units) none a = atomsModel fac (names.zip units) a ∧
    atomsModelCall fac none none (some (names.zip units)) a = atomsModel fac (names.zip units) a ∧
    (names = a.names → atomsModelCall fac none (some units) none a = atomsModel fac (names.zip units) a) ∧
    ((∀ u ∈ units, u = none) →
      atomsModelCall fac (some names) none none a = atomsModel fac (names.zip units) a ∧
      (names = a.names → atomsModelCall fac none none none a = atomsModel fac (names.zip units) a)) := by
  have hnone : (∀ u ∈ units, u = none) → names.zip units = names.map (fun n => (n, none)) := by
    intro h
    have hu : units = names.map (fun _ => none) := by
      apply List.ext_getElem (by simpa using hl)
      intro i h1 h2
      simp [h _ (List.getElem_mem h1)]
    rw [hu]
    clear hu hl hn h
    induction names with
    | nil => rfl
    | cons x l ih => simp only [List.map_cons, List.zip_cons_cons, ih]
  refine ⟨?_, ?_, ?_, ?_⟩
  · simp only [atomsModelCall, resolveCall_lists a.names names units hn hl, Option.bind_some]
  · simp only [atomsModelCall, resolveCall_dict, Option.bind_some]
  · intro he
    subst he
    simp only [atomsModelCall, resolveCall_unit_alone a.names units hn hl, Option.bind_some]
  · intro h
    refine ⟨?_, ?_⟩
    · simp only [atomsModelCall, resolveCall_names_alone a.names names hn, Option.bind_some, hnone h]
    · intro he
      subst he
      simp only [atomsModelCall, resolveCall_default a.names hn, Option.bind_some, hnone h]

/-- the same for `System.model` / `dump('system_model')` (they hand the arguments through). -/
theorem system_model_call_forms (fac : String → K) (boxUnit : Option String) (s : SystemM K) (names : List String)
    (units : List (Option String)) (hn : names.Nodup) (hl : units.length = names.length) :
    systemModelCall fac boxUnit (some names) (some units) none s = systemModel fac boxUnit (names.zip units) s ∧
    systemModelCall fac boxUnit none none (some (names.zip units)) s = systemModel fac boxUnit (names.zip units) s ∧
    (names = s.atoms.names →
      systemModelCall fac boxUnit none (some units) none s = systemModel fac boxUnit (names.zip units) s) ∧
    ((∀ u ∈ units, u = none) →
      systemModelCall fac boxUnit (some names) none none s = systemModel fac boxUnit (names.zip units) s ∧
      (names = s.atoms.names →
        systemModelCall fac boxUnit none none none s = systemModel fac boxUnit (names.zip units) s)) := by
  have hnone : (∀ u ∈ units, u = none) → names.zip units = names.map (fun n => (n, none)) := by
    intro h
    have hu : units = names.map (fun _ => none) := by
      apply List.ext_getElem (by simpa using hl)
      intro i h1 h2
      simp [h _ (List.getElem_mem h1)]
    rw [hu]
    clear hu hl hn h
    induction names with
    | nil => rfl
    | cons x l ih => simp only [List.map_cons, List.zip_cons_cons, ih]
  refine ⟨?_, ?_, ?_, ?_⟩
  · simp only [systemModelCall, resolveCall_lists s.atoms.names names units hn hl, Option.bind_some]
  · simp only [systemModelCall, resolveCall_dict, Option.bind_some]
  · intro he
    subst he
    simp only [systemModelCall, resolveCall_unit_alone s.atoms.names units hn hl, Option.bind_some]
  · intro h
    refine ⟨?_, ?_⟩
    · simp only [systemModelCall, resolveCall_names_alone s.atoms.names names hn, Option.bind_some, hnone h]
    · intro he
      subst he
      simp only [systemModelCall, resolveCall_default s.atoms.names hn, Option.bind_some, hnone h]

/-- **system_model_unit_list_roundtrip**: the round trip of `system_model_roundtrip` when the units are handed over
    as the bare `unit=[…]` list (one entry per property of the object, in the object's own order, no `prop_name`):
    every requested storage unit is used - cell, origin, flags, symbols, masses, `natoms` and every property come
    back (box-scaled ones included). -/
theorem system_model_unit_list_roundtrip [LT K] [DecidableLT K] (fac : String → K) (eps : K) (boxUnit : Option String)
    (s : SystemM K) (hw : s.Wf) (un : String → Option String) (hu : SysUnitsOk s.atoms un)
    (hb : cleanVects eps s.box.vects = s.box.vects)
    (hfb : ∀ u, boxUnit = some u → factor fac u ≠ 0)
    (hf : ∀ p ∈ s.atoms.props, ∀ u, effUnit p.1 (un p.1) = some u → factor fac u ≠ 0)
    (hdet : (∃ p ∈ s.atoms.props, effUnit p.1 (un p.1) = some "scaled") → M3.det s.box.vects ≠ 0) :
    ∃ t, systemModelCall fac boxUnit none (some (s.atoms.props.map (fun p => un p.1))) none s = some t ∧
      systemRead fac eps t = some ⟨s.box, s.pbc, s.symbols, s.masses,
        ⟨s.atoms.natoms, s.atoms.props.map (fun p => (p.1, ⟨p.2.shape, p.2.data.castU (effUnit p.1 (un p.1))⟩))⟩⟩ := by
  have h3 := (system_model_call_forms fac boxUnit s s.atoms.names (s.atoms.props.map (fun p => un p.1))
    hw.atoms.nodup (by simp [AtomsM.names])).2.2.1 rfl
  rw [h3, AtomsM.names, zip_names_units]
  exact system_model_roundtrip fac eps boxUnit s hw un hu hb hfb hf hdet

/-! ### end to end: dump → text → load at the API level, every encoding × every call form -/

/-- the encodings: `tree` and `json` hand the tree over as it is, `xml` collapses one-element lists, and `encode`
    refuses exactly the other format names. -/
theorem encode_refuses_iff (via : String) (t : DM K) :
    encode via t = none ↔ ¬ (via = "tree" ∨ via = "json" ∨ via = "xml") := by
  unfold encode
  by_cases h1 : via = "tree" ∨ via = "json"
  · simp only [h1, if_true]
    constructor
    · intro h; cases h
    · intro h; exact absurd (by rcases h1 with h | h <;> simp [h]) h
  · by_cases h2 : via = "xml"
    · simp [h2]
    · rw [if_neg h1, if_neg h2]
      constructor
      · intro _ h
        rcases h with h | h | h
        · exact h1 (Or.inl h)
        · exact h1 (Or.inr h)
        · exact h2 h
      · intro _; rfl

/-- **system_dump_load_end_to_end**: the statement a user relies on, composed from the per-function theorems.  For
    every well-formed System, every admissible choice of storage units `un` (box-scaled ones included, `det ≠ 0`), every
    box unit, every working-unit configuration with non-zero factors, EVERY text encoding (`tree`, `json`, `xml`) and
    EVERY call form that names these units — the `prop_unit` dictionary, the `prop_name` + `unit` lists, the bare
    `unit` list — `load('system_model', system.dump('system_model', …))` returns the System: cell, origin, pbc,
    symbols, masses, natoms, every property in order with its shape and buffer (integers written with a unit as the
    same numbers in floating point, `castU`). -/
theorem system_dump_load_end_to_end [LT K] [DecidableLT K] (fac : String → K) (eps : K) (boxUnit : Option String)
    (s : SystemM K) (hw : s.Wf) (un : String → Option String) (hu : SysUnitsOk s.atoms un)
    (hb : cleanVects eps s.box.vects = s.box.vects)
    (hfb : ∀ u, boxUnit = some u → factor fac u ≠ 0)
    (hf : ∀ p ∈ s.atoms.props, ∀ u, effUnit p.1 (un p.1) = some u → factor fac u ≠ 0)
    (hdet : (∃ p ∈ s.atoms.props, effUnit p.1 (un p.1) = some "scaled") → M3.det s.box.vects ≠ 0)
    (via : String) (hvia : via = "tree" ∨ via = "json" ∨ via = "xml") :
    let expected : SystemM K := ⟨s.box, s.pbc, s.symbols, s.masses,
        ⟨s.atoms.natoms, s.atoms.props.map (fun p => (p.1, ⟨p.2.shape, p.2.data.castU (effUnit p.1 (un p.1))⟩))⟩⟩
    let names := s.atoms.names
    let units := s.atoms.props.map (fun p => un p.1)
    systemDumpLoad fac fac eps via boxUnit none none (some (names.zip units)) s = some expected
    ∧ systemDumpLoad fac fac eps via boxUnit (some names) (some units) none s = some expected
    ∧ systemDumpLoad fac fac eps via boxUnit none (some units) none s = some expected := by
  intro expected names units
  have hl : units.length = names.length := by simp [units, names, AtomsM.names]
  obtain ⟨c1, c2, c3, _⟩ := system_model_call_forms fac boxUnit s names units hw.atoms.nodup hl
  have c3' := c3 rfl
  have hz : names.zip units = s.atoms.props.map (fun p => (p.1, un p.1)) := by
    simp only [names, units, AtomsM.names, zip_names_units]
  obtain ⟨t, ht, hr⟩ := system_model_roundtrip fac eps boxUnit s hw un hu hb hfb hf hdet
  obtain ⟨t', ht', hr'⟩ := system_model_roundtrip_xml fac eps boxUnit s hw un hu hb hfb hf hdet
  have htt : t' = t := by rw [ht] at ht'; cases ht'; rfl
  subst htt
  have key : ((systemModel fac boxUnit (names.zip units) s).bind (encode via)).bind (systemRead fac eps)
      = some expected := by
    rw [hz, ht]
    rcases hvia with h | h | h <;> subst h <;> simp [encode, hr, hr', expected]
  refine ⟨?_, ?_, ?_⟩ <;> unfold systemDumpLoad
  · rw [c2]; exact key
  · rw [c1]; exact key
  · rw [c3']; exact key

/-- non-vacuity: the tilted two-type System `exSys` (non-zero origin, a missing symbol, a missing mass, `pos` stored
    box-scaled, a tensor property in GPa) under a configuration in which every unit has the factor 2, through XML text:
    all hypotheses hold, so all three call forms return the System. -/
example : systemDumpLoad (fun _ => (2 : ℚ)) (fun _ => 2) (1 / 1000000000) "xml" (some "nm") none
      (some (exSys.atoms.props.map (fun p => exUn p.1))) none exSys
    = some ⟨exSys.box, exSys.pbc, exSys.symbols, exSys.masses, ⟨exSys.atoms.natoms,
        exSys.atoms.props.map (fun p => (p.1, ⟨p.2.shape, p.2.data.castU (effUnit p.1 (exUn p.1))⟩))⟩⟩ :=
  (system_dump_load_end_to_end (fun _ => (2 : ℚ)) (1 / 1000000000) (some "nm") exSys exSys_wf exUn exAtoms_units
    (by decide +kernel) (by intro u _; simp [factor]; split <;> norm_num)
    (by intro p _ u _; simp [factor]; split <;> norm_num) (fun _ => by decide +kernel) "xml" (Or.inr (Or.inr rfl))).2.2

/-- the same for `Atoms.model(…)` → text → `Atoms(model=…)`. -/
theorem atoms_dump_load_end_to_end (fac : String → K) (a : AtomsM K) (hw : a.Wf) (un : String → Option String)
    (hu : UnitsOk a un)
    (hf : ∀ p ∈ a.props, ∀ s, effUnit p.1 (un p.1) = some s → factor fac s ≠ 0)
    (via : String) (hvia : via = "tree" ∨ via = "json" ∨ via = "xml") :
    let expected : AtomsM K := ⟨a.natoms,
        a.props.map (fun p => (p.1, ⟨p.2.shape, p.2.data.castU (effUnit p.1 (un p.1))⟩))⟩
    let names := a.names
    let units := a.props.map (fun p => un p.1)
    atomsDumpLoad fac fac via none none (some (names.zip units)) a = some expected
    ∧ atomsDumpLoad fac fac via (some names) (some units) none a = some expected
    ∧ atomsDumpLoad fac fac via none (some units) none a = some expected := by
  intro expected names units
  have hl : units.length = names.length := by simp [units, names, AtomsM.names]
  obtain ⟨c1, c2, c3, _⟩ := atoms_model_call_forms fac a names units hw.nodup hl
  have c3' := c3 rfl
  have hz : names.zip units = a.props.map (fun p => (p.1, un p.1)) := by
    simp only [names, units, AtomsM.names, zip_names_units]
  obtain ⟨t, ht, hr⟩ := atoms_model_roundtrip fac a hw un hu hf
  obtain ⟨t', ht', hr'⟩ := atoms_model_roundtrip_xml fac a hw un hu hf
  have htt : t' = t := by rw [ht] at ht'; cases ht'; rfl
  subst htt
  have key : ((atomsModel fac (names.zip units) a).bind (encode via)).bind (atomsRead fac) = some expected := by
    rw [hz, ht]
    rcases hvia with h | h | h <;> subst h <;> simp [encode, hr, hr', expected]
  refine ⟨?_, ?_, ?_⟩ <;> unfold atomsDumpLoad
  · rw [c2]; exact key
  · rw [c1]; exact key
  · rw [c3']; exact key

/-- **system_model_injective** (uniqueness / nothing is lost): two well-formed Systems that are written — same box unit,
    same storage units — to the SAME tree have the same cell, origin, pbc, symbols, masses, natoms, property names and,
    property by property, the same shape and the same numbers (an integer column written with a unit is compared as
    numbers, `castU`).  Immediate from the round trip: both are what the reader returns for that tree. -/
theorem system_model_injective [LT K] [DecidableLT K] (fac : String → K) (eps : K) (boxUnit : Option String)
    (un : String → Option String) (s₁ s₂ : SystemM K)
    (hw₁ : s₁.Wf) (hu₁ : SysUnitsOk s₁.atoms un) (hb₁ : cleanVects eps s₁.box.vects = s₁.box.vects)
    (hf₁ : ∀ p ∈ s₁.atoms.props, ∀ u, effUnit p.1 (un p.1) = some u → factor fac u ≠ 0)
    (hdet₁ : (∃ p ∈ s₁.atoms.props, effUnit p.1 (un p.1) = some "scaled") → M3.det s₁.box.vects ≠ 0)
    (hw₂ : s₂.Wf) (hu₂ : SysUnitsOk s₂.atoms un) (hb₂ : cleanVects eps s₂.box.vects = s₂.box.vects)
    (hf₂ : ∀ p ∈ s₂.atoms.props, ∀ u, effUnit p.1 (un p.1) = some u → factor fac u ≠ 0)
    (hdet₂ : (∃ p ∈ s₂.atoms.props, effUnit p.1 (un p.1) = some "scaled") → M3.det s₂.box.vects ≠ 0)
    (hfb : ∀ u, boxUnit = some u → factor fac u ≠ 0)
    (heq : systemModel fac boxUnit (s₁.atoms.props.map (fun p => (p.1, un p.1))) s₁
         = systemModel fac boxUnit (s₂.atoms.props.map (fun p => (p.1, un p.1))) s₂) :
    s₁.box = s₂.box ∧ s₁.pbc = s₂.pbc ∧ s₁.symbols = s₂.symbols ∧ s₁.masses = s₂.masses
    ∧ s₁.atoms.natoms = s₂.atoms.natoms
    ∧ s₁.atoms.props.map (fun p => (p.1, (⟨p.2.shape, p.2.data.castU (effUnit p.1 (un p.1))⟩ : Arr K)))
      = s₂.atoms.props.map (fun p => (p.1, ⟨p.2.shape, p.2.data.castU (effUnit p.1 (un p.1))⟩)) := by
  obtain ⟨t₁, ht₁, hr₁⟩ := system_model_roundtrip fac eps boxUnit s₁ hw₁ un hu₁ hb₁ hfb hf₁ hdet₁
  obtain ⟨t₂, ht₂, hr₂⟩ := system_model_roundtrip fac eps boxUnit s₂ hw₂ un hu₂ hb₂ hfb hf₂ hdet₂
  rw [ht₁, ht₂] at heq
  cases heq
  rw [hr₁] at hr₂
  simp only [Option.some.injEq, SystemM.mk.injEq, AtomsM.mk.injEq] at hr₂
  exact ⟨hr₂.1, hr₂.2.1, hr₂.2.2.1, hr₂.2.2.2.1, hr₂.2.2.2.2.1, hr₂.2.2.2.2.2⟩

/-- **value_model_injective**: two arrays written with the same unit to the same tree have the same shape and the same
    numbers. -/
theorem value_model_injective (fac : String → K) (units : Option String) (a b : Arr K)
    (hwa : a.data.length = prodNat a.shape) (hna : prodNat a.shape ≠ 0) (hsa : ∀ l, a.data = Data.str l → units = none)
    (hwb : b.data.length = prodNat b.shape) (hnb : prodNat b.shape ≠ 0) (hsb : ∀ l, b.data = Data.str l → units = none)
    (hf : ∀ u, units = some u → factor fac u ≠ 0)
    (heq : ucModel fac units a = ucModel fac units b) :
    a.shape = b.shape ∧ a.data.castU units = b.data.castU units := by
  obtain ⟨t₁, ht₁, hr₁⟩ := valueUnit_model fac units a hwa hna hf hsa
  obtain ⟨t₂, ht₂, hr₂⟩ := valueUnit_model fac units b hwb hnb hf hsb
  rw [ht₁, ht₂] at heq
  cases heq
  rw [hr₁] at hr₂
  simp only [Option.some.injEq, Arr.mk.injEq] at hr₂
  exact hr₂

/-- **system_dump_load_two_units_end_to_end** (last clause of the property at the API level): a System dumped under one
    working-unit configuration and loaded under another, through EVERY text encoding: flags, symbols, masses, natoms,
    names and shapes unchanged; every box length × the box unit's ratio `g`; a box-scaled property × the same `g` (it
    follows the cell); every other property × its own unit's ratio (`propTwo`) — i.e. the physical values are those that
    were written.  `hclean`: the rescaled vectors pass the `vects` setter's clean-up unchanged. -/
theorem system_dump_load_two_units_end_to_end [LT K] [DecidableLT K] (fac1 fac2 : String → K) (eps : K)
    (boxUnit : Option String) (s : SystemM K) (hw : s.Wf) (un : String → Option String) (hu : SysUnitsOk s.atoms un)
    (hclean : cleanVects eps (mapM3 (scaleFn fac1 fac2 boxUnit) s.box.vects) = mapM3 (scaleFn fac1 fac2 boxUnit) s.box.vects)
    (hdet : M3.det s.box.vects ≠ 0) (via : String) (hvia : via = "tree" ∨ via = "json" ∨ via = "xml") :
    systemDumpLoad fac1 fac2 eps via boxUnit none none (some (s.atoms.props.map (fun p => (p.1, un p.1)))) s
      = some ⟨⟨mapM3 (scaleFn fac1 fac2 boxUnit) s.box.vects, s.box.origin.map (scaleFn fac1 fac2 boxUnit)⟩,
          s.pbc, s.symbols, s.masses,
          ⟨s.atoms.natoms, s.atoms.props.map (fun p =>
            if effUnit p.1 (un p.1) = some "scaled" then
              (p.1, ⟨p.2.shape, .flt (p.2.data.fltD.map (scaleFn fac1 fac2 boxUnit))⟩)
            else propTwo fac1 fac2 un p)⟩⟩ := by
  obtain ⟨t, ht, hr⟩ := system_model_two_units fac1 fac2 eps boxUnit s hw un hu hclean hdet
  obtain ⟨t1, ht1, hr1⟩ := system_model_two fac1 fac2 eps boxUnit s hw un hu
  obtain ⟨t2, ht2, hr2⟩ := system_model_two_xml fac1 fac2 eps boxUnit s hw un hu
  have e1 : t1 = t := by rw [ht] at ht1; cases ht1; rfl
  have e2 : t2 = t := by rw [ht] at ht2; cases ht2; rfl
  subst e1
  subst e2
  have hx := hr2
  rw [← hr1, hr] at hx
  unfold systemDumpLoad systemModelCall
  simp only [resolveCall, Option.bind_some]
  rw [ht2]
  rcases hvia with h | h | h <;> subst h <;> simp [encode, hr, hx]

/-- a format name that is none of the three is refused at the encoding step, whatever the System. -/
theorem system_dump_load_refuses_format [LT K] [DecidableLT K] (facW facR : String → K) (eps : K) (via : String)
    (hvia : ¬ (via = "tree" ∨ via = "json" ∨ via = "xml")) (boxUnit : Option String)
    (pn : Option (List String)) (un : Option (List (Option String))) (pu : Option (List (String × Option String)))
    (s : SystemM K) : systemDumpLoad facW facR eps via boxUnit pn un pu s = none := by
  unfold systemDumpLoad
  cases systemModelCall facW boxUnit pn un pu s with
  | none => rfl
  | some t => simp [(encode_refuses_iff via t).2 hvia]

end callforms

/-- non-vacuity / the literal cases: the bare `unit` list is aligned with the object's own properties; a list of
    another length is refused; a name given twice keeps its first position and its last unit (dictionary). -/
example : resolveCall ["atype", "pos", "vel", "pe"] none (some [none, some "nm", some "m/s", some "kJ/mol"]) none
    = some [("atype", none), ("pos", some "nm"), ("vel", some "m/s"), ("pe", some "kJ/mol")] := by decide
example : resolveCall ["atype", "pos", "vel"] none (some [none, some "nm"]) none = none := by decide
example : resolveCall ["atype", "pos"] (some ["pos", "atype", "pos"]) (some [some "nm", none, some "pm"]) none
    = some [("pos", some "pm"), ("atype", none)] := by decide
example : resolveCall ["atype", "pos"] (some ["atype"]) none (some [("atype", none)]) = none := by decide

/-! ## counts: the array read back from a LONG value list

`uc.value_unit` hands `term['value']` to `np.asarray` whole.  What comes back does not depend on the length of the list
or on any way of cutting it into blocks: the type is decided by ALL entries and the buffer is the blocks' buffers one
after the other.  (The tester's `value-unit-fromiter-long-lists` and the own `value-unit-dtype-from-head` are the two
ways of getting this wrong: a fast path above a length, a type taken from the head.) -/

/-- **value_list_blocks_int**: two blocks of integers - of any lengths - are read as the integer array of both. -/
theorem value_list_blocks_int [IntCast K] (a b : List (Sc K)) (ia ib : List Int)
    (ha : mapOpt Sc.int? a = some ia) (hb : mapOpt Sc.int? b = some ib) (hne : a ++ b ≠ []) :
    Data.ofScs (a ++ b) = some (Data.int (ia ++ ib)) :=
  ofScs_append_int a b ia ib ha hb hne

/-- **value_list_tail_decides**: an entry that is not an integer anywhere in the tail block makes the whole array a
    non-integer array, however long the integer head is. -/
theorem value_list_tail_decides [IntCast K] (a b : List (Sc K)) (hb : mapOpt Sc.int? b = none) (is : List Int) :
    Data.ofScs (a ++ b) ≠ some (Data.int is) :=
  ofScs_append_tail_decides a b hb is

/-- **value_list_blocks_num**: numeric blocks that are not all integers are read as the float array of both blocks'
    values (integers cast), in order. -/
theorem value_list_blocks_num [IntCast K] (a b : List (Sc K)) (xa xb : List K)
    (ha : mapOpt Sc.num? a = some xa) (hb : mapOpt Sc.num? b = some xb) (hi : mapOpt Sc.int? (a ++ b) = none) :
    Data.ofScs (a ++ b) = some (Data.flt (xa ++ xb)) :=
  ofScs_append_num a b xa xb ha hb hi

/-- **value_list_blocks_str**: string blocks are read as the string array of both: every string whole, no width fixed by
    the head. -/
theorem value_list_blocks_str [IntCast K] (a b : List (Sc K)) (sa sb : List String)
    (ha : mapOpt Sc.str? a = some sa) (hb : mapOpt Sc.str? b = some sb) (hne : a ++ b ≠ []) :
    Data.ofScs (a ++ b) = some (Data.str (sa ++ sb)) :=
  ofScs_append_str a b sa sb ha hb hne

/-- non-vacuity: an integer head with an integer tail, with a fraction in the tail, short labels with a long one last. -/
example : Data.ofScs ([Sc.int 1, Sc.int 2] ++ [Sc.int (-7)] : List (Sc Rat)) = some (Data.int [1, 2, -7]) ∧
    Data.ofScs ([Sc.int 1, Sc.int 2] ++ [Sc.flt (1 / 2)] : List (Sc Rat)) = some (Data.flt [1, 2, 1 / 2]) ∧
    Data.ofScs ([Sc.str "a", Sc.str "bb"] ++ [Sc.str "interstitial-site"] : List (Sc Rat))
      = some (Data.str ["a", "bb", "interstitial-site"]) := by
  refine ⟨rfl, ?_, rfl⟩
  simp [Data.ofScs, mapOpt, Sc.int?, Sc.num?]

/-! ## the two-configuration statements with the unit factors' non-vanishing made explicit -/

section physical
variable [Field K]

/-- `uc.get_in_units(x, u)` under the configuration `fac` (the number itself without a unit). -/
def inUnit (fac : String → K) : Option String → K → K
  | none, x => x
  | some u, x => x / factor fac u

/-- the value read under `fac2`, expressed in the stored unit, is the written value expressed in that unit under
    `fac1`: needs the READING factor to be non-zero (for a zero factor the left side is `… / 0 = 0`). -/
theorem inUnit_scaleFn (fac1 fac2 : String → K) (u : Option String)
    (h2 : ∀ s, u = some s → factor fac2 s ≠ 0) (x : K) :
    inUnit fac2 u (scaleFn fac1 fac2 u x) = inUnit fac1 u x := by
  cases u with
  | none => rfl
  | some s =>
    have := h2 s rfl
    simp only [inUnit, scaleFn]
    field_simp

/-- with both factors non-zero the rescaling is undone by the opposite one: nothing is lost. -/
theorem scaleFn_back (fac1 fac2 : String → K) (u : Option String)
    (h1 : ∀ s, u = some s → factor fac1 s ≠ 0) (h2 : ∀ s, u = some s → factor fac2 s ≠ 0) (x : K) :
    scaleFn fac2 fac1 u (scaleFn fac1 fac2 u x) = x := by
  cases u with
  | none => rfl
  | some s =>
    have a := h1 s rfl
    have b := h2 s rfl
    simp only [scaleFn]
    field_simp

theorem map_inUnit_scaleFn (fac1 fac2 : String → K) (u : Option String)
    (h2 : ∀ s, u = some s → factor fac2 s ≠ 0) (l : List K) :
    (l.map (scaleFn fac1 fac2 u)).map (inUnit fac2 u) = l.map (inUnit fac1 u) := by
  rw [List.map_map]
  exact List.map_congr_left (fun x _ => inUnit_scaleFn fac1 fac2 u h2 x)

theorem map_scaleFn_back (fac1 fac2 : String → K) (u : Option String)
    (h1 : ∀ s, u = some s → factor fac1 s ≠ 0) (h2 : ∀ s, u = some s → factor fac2 s ≠ 0) (l : List K) :
    (l.map (scaleFn fac1 fac2 u)).map (scaleFn fac2 fac1 u) = l := by
  rw [List.map_map]
  conv_rhs => rw [← List.map_id l]
  exact List.map_congr_left (fun x _ => scaleFn_back fac1 fac2 u h1 h2 x)

/-- **errorUnit_model_two_nz** (companion of `errorUnit_model_two`, factors non-zero): the uncertainty and a float
    value read under `fac2` and expressed in the stored unit ARE the written ones expressed in it under `fac1`, and the
    opposite rescaling returns the written numbers. -/
theorem errorUnit_model_two_nz (fac1 fac2 : String → K) (units : Option String) (l e : List K) (shape : List Nat)
    (hw : l.length = prodNat shape) (he : e.length = prodNat shape) (hne : prodNat shape ≠ 0)
    (h1 : ∀ s, units = some s → factor fac1 s ≠ 0) (h2 : ∀ s, units = some s → factor fac2 s ≠ 0) :
    ∃ t l' e', ucModelE fac1 units ⟨shape, .flt l⟩ e = some t ∧
      valueUnit fac2 t = some ⟨shape, .flt l'⟩ ∧ errorUnit fac2 t = some ⟨shape, .flt e'⟩ ∧
      l'.map (inUnit fac2 units) = l.map (inUnit fac1 units) ∧
      e'.map (inUnit fac2 units) = e.map (inUnit fac1 units) ∧
      l'.map (scaleFn fac2 fac1 units) = l ∧ e'.map (scaleFn fac2 fac1 units) = e := by
  obtain ⟨t, a, b, c⟩ := errorUnit_model_two fac1 fac2 units ⟨shape, .flt l⟩ e hw he hne (by intro l h; cases h)
  exact ⟨t, _, _, a, b, c, map_inUnit_scaleFn fac1 fac2 units h2 l, map_inUnit_scaleFn fac1 fac2 units h2 e,
    map_scaleFn_back fac1 fac2 units h1 h2 l, map_scaleFn_back fac1 fac2 units h1 h2 e⟩

/-- non-vacuity: `[3, 5]` ± `[1/2, 1/4]` stored in a unit worth 2 at writing and 7 at reading. -/
example : ∃ t l' e', ucModelE (fun _ => (2 : ℚ)) (some "GPa") ⟨[2], .flt [3, 5]⟩ [1 / 2, 1 / 4] = some t ∧
    valueUnit (fun _ => (7 : ℚ)) t = some ⟨[2], .flt l'⟩ ∧ errorUnit (fun _ => (7 : ℚ)) t = some ⟨[2], .flt e'⟩ ∧
    l'.map (inUnit (fun _ => (7 : ℚ)) (some "GPa")) = [3 / 2, 5 / 2] := by
  obtain ⟨t, l', e', a, b, c, d, _⟩ := errorUnit_model_two_nz (fun _ => (2 : ℚ)) (fun _ => (7 : ℚ)) (some "GPa")
    [3, 5] [1 / 2, 1 / 4] [2] rfl rfl (by decide)
    (by intro s _; simp [factor]; split <;> norm_num) (by intro s _; simp [factor]; split <;> norm_num)
  exact ⟨t, l', e', a, b, c, by rw [d]; simp [inUnit, factor]⟩

variable [LT K] [DecidableLT K]

/-- **elastic_model_two_nz** (companion of `elastic_model_two`): the 36 numbers `r` handed to the setter on reading,
    expressed in the stored pressure unit under the reading configuration, are the written constants expressed in it
    under the writing configuration; rescaled back they are the written constants. -/
theorem elastic_model_two_nz (fac1 fac2 : String → K) (eps atol rtol : K) (u : Option String)
    (norm : List K → List K) (c : List K) (hlen : (norm c).length = 36)
    (h1 : ∀ s, u = some s → factor fac1 s ≠ 0) (h2 : ∀ s, u = some s → factor fac2 s ≠ 0) :
    ∃ t r, ecModel fac1 u norm c = some t ∧ ecRead fac2 eps atol rtol t = cijSet eps atol rtol r ∧
      r.map (inUnit fac2 u) = (norm c).map (inUnit fac1 u) ∧ r.map (scaleFn fac2 fac1 u) = norm c := by
  obtain ⟨t, a, b⟩ := elastic_model_two fac1 fac2 eps atol rtol u norm c hlen
  exact ⟨t, _, a, b, map_inUnit_scaleFn fac1 fac2 u h2 _, map_scaleFn_back fac1 fac2 u h1 h2 _⟩

/-- **system_model_two_units_nz** (companion of `system_model_two_units`): with non-zero factors of the box unit and of
    every property's unit under both configurations, the System read back has the flags, symbols, masses and natoms
    written; its cell and origin expressed in the box unit are those written; every float property expressed in its
    unit (a box-scaled one: in the box unit) is the one written, and the opposite rescaling returns the written
    numbers. -/
theorem system_model_two_units_nz (fac1 fac2 : String → K) (eps : K) (boxUnit : Option String)
    (s : SystemM K) (hw : s.Wf) (un : String → Option String) (hu : SysUnitsOk s.atoms un)
    (hclean : cleanVects eps (mapM3 (scaleFn fac1 fac2 boxUnit) s.box.vects) = mapM3 (scaleFn fac1 fac2 boxUnit) s.box.vects)
    (hdet : M3.det s.box.vects ≠ 0)
    (hb1 : ∀ u, boxUnit = some u → factor fac1 u ≠ 0) (hb2 : ∀ u, boxUnit = some u → factor fac2 u ≠ 0)
    (hp1 : ∀ p ∈ s.atoms.props, ∀ u, effUnit p.1 (un p.1) = some u → factor fac1 u ≠ 0)
    (hp2 : ∀ p ∈ s.atoms.props, ∀ u, effUnit p.1 (un p.1) = some u → factor fac2 u ≠ 0) :
    ∃ t s' F, systemModel fac1 boxUnit (s.atoms.props.map (fun p => (p.1, un p.1))) s = some t ∧
      systemRead fac2 eps t = some s' ∧
      s'.pbc = s.pbc ∧ s'.symbols = s.symbols ∧ s'.masses = s.masses ∧ s'.atoms.natoms = s.atoms.natoms ∧
      mapM3 (inUnit fac2 boxUnit) s'.box.vects = mapM3 (inUnit fac1 boxUnit) s.box.vects ∧
      s'.box.origin.map (inUnit fac2 boxUnit) = s.box.origin.map (inUnit fac1 boxUnit) ∧
      s'.atoms.props = s.atoms.props.map F ∧
      ∀ p ∈ s.atoms.props, (F p).1 = p.1 ∧ (F p).2.shape = p.2.shape ∧ ∀ l, p.2.data = .flt l →
        let U := if effUnit p.1 (un p.1) = some "scaled" then boxUnit else effUnit p.1 (un p.1)
        ∃ l', (F p).2.data = .flt l' ∧ l'.map (inUnit fac2 U) = l.map (inUnit fac1 U) ∧
          l'.map (scaleFn fac2 fac1 U) = l := by
  obtain ⟨t, a, b⟩ := system_model_two_units fac1 fac2 eps boxUnit s hw un hu hclean hdet
  refine ⟨t, _, _, a, b, rfl, rfl, rfl, rfl, ?_, ?_, rfl, ?_⟩
  · simp only [mapM3, V3.map, inUnit_scaleFn fac1 fac2 boxUnit hb2]
  · simp only [V3.map, inUnit_scaleFn fac1 fac2 boxUnit hb2]
  · intro p hp
    by_cases hsc : effUnit p.1 (un p.1) = some "scaled"
    · simp only [hsc, if_true]
      refine ⟨trivial, trivial, ?_⟩
      intro l hl
      refine ⟨_, rfl, ?_, ?_⟩
      · rw [hl]; simp only [Data.fltD, Data.toFlt, Option.getD_some]
        exact map_inUnit_scaleFn fac1 fac2 boxUnit hb2 l
      · rw [hl]; simp only [Data.fltD, Data.toFlt, Option.getD_some]
        exact map_scaleFn_back fac1 fac2 boxUnit hb1 hb2 l
    · simp only [hsc, if_false, propTwo]
      refine ⟨trivial, trivial, ?_⟩
      intro l hl
      rw [hl]
      exact ⟨_, rfl, map_inUnit_scaleFn fac1 fac2 _ (hp2 p hp) l, map_scaleFn_back fac1 fac2 _ (hp1 p hp) (hp2 p hp) l⟩

/-- **system_dump_load_two_units_end_to_end_nz**: the same at the API level, through every text encoding. -/
theorem system_dump_load_two_units_end_to_end_nz (fac1 fac2 : String → K) (eps : K) (boxUnit : Option String)
    (s : SystemM K) (hw : s.Wf) (un : String → Option String) (hu : SysUnitsOk s.atoms un)
    (hclean : cleanVects eps (mapM3 (scaleFn fac1 fac2 boxUnit) s.box.vects) = mapM3 (scaleFn fac1 fac2 boxUnit) s.box.vects)
    (hdet : M3.det s.box.vects ≠ 0) (via : String) (hvia : via = "tree" ∨ via = "json" ∨ via = "xml")
    (hb1 : ∀ u, boxUnit = some u → factor fac1 u ≠ 0) (hb2 : ∀ u, boxUnit = some u → factor fac2 u ≠ 0)
    (hp1 : ∀ p ∈ s.atoms.props, ∀ u, effUnit p.1 (un p.1) = some u → factor fac1 u ≠ 0)
    (hp2 : ∀ p ∈ s.atoms.props, ∀ u, effUnit p.1 (un p.1) = some u → factor fac2 u ≠ 0) :
    ∃ s' F, systemDumpLoad fac1 fac2 eps via boxUnit none none (some (s.atoms.props.map (fun p => (p.1, un p.1)))) s
        = some s' ∧
      s'.pbc = s.pbc ∧ s'.symbols = s.symbols ∧ s'.masses = s.masses ∧ s'.atoms.natoms = s.atoms.natoms ∧
      mapM3 (inUnit fac2 boxUnit) s'.box.vects = mapM3 (inUnit fac1 boxUnit) s.box.vects ∧
      s'.box.origin.map (inUnit fac2 boxUnit) = s.box.origin.map (inUnit fac1 boxUnit) ∧
      s'.atoms.props = s.atoms.props.map F ∧
      ∀ p ∈ s.atoms.props, (F p).1 = p.1 ∧ (F p).2.shape = p.2.shape ∧ ∀ l, p.2.data = .flt l →
        let U := if effUnit p.1 (un p.1) = some "scaled" then boxUnit else effUnit p.1 (un p.1)
        ∃ l', (F p).2.data = .flt l' ∧ l'.map (inUnit fac2 U) = l.map (inUnit fac1 U) ∧
          l'.map (scaleFn fac2 fac1 U) = l := by
  obtain ⟨t, s', F, a, b, r⟩ := system_model_two_units_nz fac1 fac2 eps boxUnit s hw un hu hclean hdet hb1 hb2 hp1 hp2
  have e := system_dump_load_two_units_end_to_end fac1 fac2 eps boxUnit s hw un hu hclean hdet via hvia
  obtain ⟨t0, a0, b0⟩ := system_model_two_units fac1 fac2 eps boxUnit s hw un hu hclean hdet
  have : t0 = t := by rw [a] at a0; cases a0; rfl
  subst this
  rw [b] at b0
  exact ⟨s', F, by rw [e, b0], r⟩

end physical

section physical_ordered
variable [Field K] [LinearOrder K] [IsStrictOrderedRing K]

/-- **elastic_model_normal_form_two_nz** (companion of `elastic_model_normal_form_two`): for a crystal in the normal
    form of `cs`, the numbers handed to the setter on reading, expressed in the stored unit, are the crystal's
    constants expressed in it; rescaled back they are the crystal's constants — nothing lost to the normalisation. -/
theorem elastic_model_normal_form_two_nz (fac1 fac2 : String → K) (eps atol rtol : K) (u : Option String)
    (muK : Option (K × K)) (cs : String) (c : List K) (h : InForm cs c) (hc : cijSet eps atol rtol c = some c)
    (h1 : ∀ s, u = some s → factor fac1 s ≠ 0) (h2 : ∀ s, u = some s → factor fac2 s ≠ 0) :
    ∃ t r, ecModelCS fac1 u eps atol rtol muK cs c = some t ∧ ecRead fac2 eps atol rtol t = cijSet eps atol rtol r ∧
      r.map (inUnit fac2 u) = c.map (inUnit fac1 u) ∧ r.map (scaleFn fac2 fac1 u) = c := by
  obtain ⟨t, a, b⟩ := elastic_model_normal_form_two fac1 fac2 eps atol rtol u muK cs c h hc
  exact ⟨t, _, a, b, map_inUnit_scaleFn fac1 fac2 u h2 _, map_scaleFn_back fac1 fac2 u h1 h2 _⟩

end physical_ordered

/-! ## records in the old `C` / `ij` format: the `except:` branch of `ElasticConstants(model=…)` -/

section legacy_read
variable [Field K] [LT K] [DecidableLT K]

/-- the legacy branch does not see a record without a `C` list under the root. -/
theorem ecReadAny_of_no_legacy_list (fac : String → K) (eps atol rtol : K) (kv : List (String × DM K))
    (h : kv.lookup "C" = none) :
    ecReadAny fac eps atol rtol (.node [("elastic-constants", .node kv)])
      = ecRead fac eps atol rtol (.node [("elastic-constants", .node kv)]) := by
  unfold ecReadAny
  cases ecRead fac eps atol rtol (.node [("elastic-constants", .node kv)]) with
  | some c => rfl
  | none => simp [ecReadLegacy, DM.get?, List.lookup, h]

/-- **elastic_model_roundtrip_any**: the ElasticConstants clause for the reader AS THE SOURCE HAS IT (new format first,
    old format when that raises): on everything the writer produces, directly and through XML text, the old-format
    branch changes nothing — what is read is `ElasticConstants(Cij=normalized_as(cs).Cij)`, and a refusal of the `Cij`
    setter stays a refusal (it is not turned into a reading of something else). -/
theorem elastic_model_roundtrip_any (fac : String → K) (eps atol rtol : K) (u : Option String)
    (norm : List K → List K) (c : List K) (hlen : (norm c).length = 36)
    (hf : ∀ s, u = some s → factor fac s ≠ 0) :
    ∃ t, ecModel fac u norm c = some t ∧ ecReadAny fac eps atol rtol t = cijSet eps atol rtol (norm c) ∧
      ecReadAny fac eps atol rtol (xmlNorm t) = cijSet eps atol rtol (norm c) := by
  obtain ⟨t, h1, h2⟩ := elastic_model_roundtrip fac eps atol rtol u norm c hlen hf
  obtain ⟨t', h1', h3⟩ := elastic_model_roundtrip_xml fac eps atol rtol u norm c hlen hf
  have e : t' = t := by rw [h1] at h1'; cases h1'; rfl
  subst e
  refine ⟨t', h1, ?_, ?_⟩
  · unfold ecModel at h1
    split at h1
    · cases h1
    · cases h1
      rw [ecReadAny_of_no_legacy_list fac eps atol rtol _ (by simp [List.lookup]), h2]
  · unfold ecModel at h1
    split at h1
    · cases h1
    · cases h1
      have hx : ∀ m : DM K, xmlNorm (DM.node [("elastic-constants", DM.node [("Cij", m)])]) =
          DM.node [("elastic-constants", DM.node [("Cij", xmlNorm m)])] := by intro m; simp [xmlNorm, xmlNormKV]
      rw [hx] at h3 ⊢
      rw [ecReadAny_of_no_legacy_list fac eps atol rtol _ (by simp [List.lookup]), h3]

/-- a record in the old format: one `{stiffness: {value, unit}, ij}` entry per constant. -/
def legacyRecord (u : Option String) (es : List (String × K)) : DM K :=
  .node [("elastic-constants", .node [("C", .list (es.map (fun e =>
    .node [("stiffness", .node (("value", .leaf (.flt e.2)) :: unitEntry u)), ("ij", .leaf (.str e.1))])))])]

/-- `uc.set_in_units(x, u)`. -/
def inWorking (fac : String → K) : Option String → K → K
  | none, x => x
  | some u, x => x * factor fac u

omit [LT K] [DecidableLT K] in
theorem valueUnit_scalar_flt (fac : String → K) (u : Option String) (x : K) :
    valueUnit fac (.node (("value", .leaf (.flt x)) :: unitEntry u)) = some ⟨[], .flt [inWorking fac u x]⟩ := by
  cases u with
  | none => simp [valueUnit, unitOf?, unitEntry, DM.get?, List.lookup, Data.ofScs, mapOpt, Sc.int?, Sc.num?, applyUnit, inWorking]
  | some s =>
    by_cases hs : s = "scaled"
    · simp [valueUnit, unitOf?, unitEntry, DM.get?, List.lookup, Data.ofScs, mapOpt, Sc.int?, Sc.num?, applyUnit, inWorking, hs, factor, Data.mulOne]
    · simp [valueUnit, unitOf?, unitEntry, DM.get?, List.lookup, Data.ofScs, mapOpt, Sc.int?, Sc.num?, applyUnit, inWorking, hs, factor, Data.mulBy]


omit [LT K] [DecidableLT K] in
theorem legacyEntryRead_entry (fac : String → K) (u : Option String) (e : String × K) :
    legacyEntryRead fac (.node [("stiffness", .node (("value", .leaf (.flt e.2)) :: unitEntry u)), ("ij", .leaf (.str e.1))])
      = (legacyKey e.1).map (fun k => (k, inWorking fac u e.2)) := by
  have hv := valueUnit_scalar_flt fac u e.2
  cases h : legacyKey e.1 <;> simp [legacyEntryRead, DM.getStr?, DM.get?, List.lookup, hv, h, Data.toFlt]

theorem mapOpt_map' {α β γ : Type} (f : β → Option γ) (g : α → β) (l : List α) :
    mapOpt f (l.map g) = mapOpt (fun a => f (g a)) l := by
  induction l with
  | nil => rfl
  | cons a l ih => simp only [List.map_cons, mapOpt, ih]

/-- **elastic_legacy_read**: what `ElasticConstants(model=…)` makes of ANY record in the old format (any number of
    entries, any order, repeated constants, any index strings): the index strings become keywords (`legacyKey`; one that
    is too short raises), the stored numbers are converted from the record's unit under the reading configuration, a
    later entry of a constant replaces an earlier one, and the resulting dictionary goes through the constructor the
    number of keywords selects (`legacyForm`, tied to the source by `gen_legacyForm_eq_model`) and the `Cij` setter
    (twice: in the constructor and in the reader). -/
theorem elastic_legacy_read (fac : String → K) (eps atol rtol : K) (u : Option String) (es : List (String × K)) :
    ecReadAny fac eps atol rtol (legacyRecord u es) =
      (mapOpt (fun e => (legacyKey e.1).map (fun k => (k, inWorking fac u e.2))) es).bind (fun kv =>
        ((legacyForm (kv.foldl (fun d e => dictSet d e.1 e.2) [])).bind (cijSet eps atol rtol)).bind
          (cijSet eps atol rtol)) := by
  have h0 : ecRead fac eps atol rtol (legacyRecord u es) = none := by
    simp [ecRead, legacyRecord, DM.get?, List.lookup]
  unfold ecReadAny
  rw [h0]
  simp only [ecReadLegacy, legacyRecord, DM.get?, List.lookup_cons_self, mapOpt_map', legacyEntryRead_entry]
  cases mapOpt (fun e => (legacyKey e.1).map (fun k => (k, inWorking fac u e.2))) es <;> rfl

/-- non-vacuity: a cubic record `C11 = 5, C12 = 2, C44 = 1` GPa (entries in another order, `C12` given twice: the later
    one counts) read where a GPa is worth 3: every constant × 3 in its place. -/
example : ecReadAny (fun _ => (3 : ℚ)) (1 / 1000000000) (1 / 1000000000) (1 / 100000)
    (legacyRecord (some "GPa") [("4 4", 1), ("1 2", 7), ("1 1", 5), ("1 2", 2)])
    = some (cubicForm 15 6 3) := by decide +kernel

/-- … and a record with four constants is refused (no representation has four). -/
example : ecReadAny (fun _ => (3 : ℚ)) (1 / 1000000000) (1 / 1000000000) (1 / 100000)
    (legacyRecord (some "GPa") [("4 4", 1), ("1 2", 7), ("1 1", 5), ("1 3", 2)]) = none := by decide +kernel

/-- **elastic_legacy_read_cubic**: the old-format record of a cubic crystal (each constant once, in any of the six
    orders spelled `"i j"`): the crystal's 6×6 array with every constant converted — through the setter. -/
theorem elastic_legacy_read_cubic (fac : String → K) (eps atol rtol : K) (u : Option String) (c11 c12 c44 : K) :
    ecReadAny fac eps atol rtol (legacyRecord u [("1 1", c11), ("1 2", c12), ("4 4", c44)]) =
      ((cijSet eps atol rtol (cubicForm (inWorking fac u c11) (inWorking fac u c12) (inWorking fac u c44))).bind
        (cijSet eps atol rtol)) := by
  rw [elastic_legacy_read]
  have k1 : legacyKey "1 1" = some "C11" := by decide
  have k2 : legacyKey "1 2" = some "C12" := by decide
  have k3 : legacyKey "4 4" = some "C44" := by decide
  simp only [mapOpt, k1, k2, k3, Option.map_some, Option.bind_some, List.foldl]
  rfl

end legacy_read

/-! ## `load('system_model', record, key=, index=)`: which entry of a record is read -/

section load_select

/-- nothing is found inside dictionaries that do not hold the key at any depth. -/
theorem findsL_nil (key : String) (ms : List (DM K))
    (h : ∀ m ∈ ms, ∃ kv, m = .node kv ∧ findsKV key kv = []) : findsL key ms = [] := by
  induction ms with
  | nil => simp [findsL]
  | cons m r ih =>
    obtain ⟨kv, rfl, hk⟩ := h m (List.mem_cons_self ..)
    rw [findsL, hk, List.nil_append]
    exact ih (fun m' hm' => h m' (List.mem_cons_of_mem _ hm'))

/-- **finds_entries**: a record that lists several systems under one key (`{key: [s₀, s₁, …]}`, none of them holding the
    key again inside): `finds(key)` returns exactly these entries, in the order of the record — whatever else the
    record holds under other keys that do not contain the key. -/
theorem finds_entries (key : String) (ms : List (DM K)) (before after : List (String × DM K))
    (h : ∀ m ∈ ms, ∃ kv, m = .node kv ∧ findsKV key kv = [])
    (hb : findsKV key before = []) (ha : findsKV key after = []) (hkb : ∀ e ∈ before, e.1 ≠ key) :
    (DM.node (before ++ (key, .list ms) :: after)).finds key = ms := by
  have app : ∀ (a b : List (String × DM K)), findsKV key (a ++ b) = findsKV key a ++ findsKV key b := by
    intro a b
    induction a with
    | nil => simp [findsKV]
    | cons e r ih =>
      obtain ⟨k, v⟩ := e
      rw [List.cons_append, findsKV.eq_def]
      conv_rhs => rw [findsKV.eq_def]
      simp only [ih, List.append_assoc]
  rw [DM.finds, app, hb, List.nil_append, findsKV, findsL_nil key ms h, ha]
  simp


/-- non-vacuity: a record with a header, two systems under one key and a trailer: the two entries, in order; the
    hypotheses of `finds_entries` / `load_index` hold for it. -/
example : (DM.node [("meta", .node [("n", .leaf (.int 1))]),
      ("atomic-system", .list [.node [("box", .leaf (.int 1)), ("atoms", .leaf (.int 2))], .node [("box", .leaf (.int 3))]]),
      ("tail", .leaf (.int 4))] : DM ℚ).finds "atomic-system"
    = [.node [("box", .leaf (.int 1)), ("atoms", .leaf (.int 2))], .node [("box", .leaf (.int 3))]] := by
  simp [DM.finds, findsKV, findsL]
example : findsKV "atomic-system" ([("box", .leaf (.int 1)), ("atoms", .leaf (.int 2))] : List (String × DM ℚ)) = [] ∧
    findsKV "atomic-system" ([("meta", .node [("n", .leaf (.int 1))])] : List (String × DM ℚ)) = [] := by
  simp [findsKV]

variable [Field K] [LT K] [DecidableLT K]

/-- **load_index**: `load('system_model', record, key=key, index=i)` on such a record reads the `i`-th listed system
    (`0 ≤ i < n`), and the entry counted from the end for a negative index (`-n ≤ i < 0`): exactly what
    `System(model={'atomic-system': entry})` reads; an index outside `-n … n-1` is refused. -/
theorem load_index (fac : String → K) (eps : K) (key : String) (ms : List (DM K)) (before after : List (String × DM K))
    (h : ∀ m ∈ ms, ∃ kv, m = .node kv ∧ findsKV key kv = [] ∧ kv.any (fun e => e.1 == "box") = true)
    (hb : findsKV key before = []) (ha : findsKV key after = []) (hkb : ∀ e ∈ before, e.1 ≠ key) :
    (∀ i : Nat, ∀ hi : i < ms.length,
      loadSystem fac eps key (i : Int) (.node (before ++ (key, .list ms) :: after))
        = systemRead fac eps (.node [("atomic-system", ms[i])])) ∧
    (∀ j : Nat, ∀ hj0 : 0 < j, ∀ hj : j ≤ ms.length,
      loadSystem fac eps key (-(j : Int)) (.node (before ++ (key, .list ms) :: after))
        = systemRead fac eps (.node [("atomic-system", ms[ms.length - j]'(by omega))])) ∧
    (∀ i : Int, (ms.length : Int) ≤ i ∨ i < -(ms.length : Int) →
      loadSystem fac eps key i (.node (before ++ (key, .list ms) :: after)) = none) := by
  have hf := finds_entries key ms before after
    (fun m hm => let ⟨kv, a, b, _⟩ := h m hm; ⟨kv, a, b⟩) hb ha hkb
  refine ⟨?_, ?_, ?_⟩
  · intro i hi
    obtain ⟨kv, e, _, hbx⟩ := h ms[i] (List.getElem_mem hi)
    simp only [loadSystem, hf, pyIndex, Int.natCast_nonneg, if_true, Int.toNat_natCast, List.getElem?_eq_getElem hi, e, hbx]
  · intro j hj0 hj
    have hlt : ms.length - j < ms.length := by omega
    obtain ⟨kv, e, _, hbx⟩ := h (ms[ms.length - j]'hlt) (List.getElem_mem hlt)
    have hneg : ¬ (0 ≤ -(j : Int)) := by omega
    simp only [loadSystem, hf, pyIndex, hneg, if_false, Int.neg_neg, Int.toNat_natCast, hj, if_true,
      List.getElem?_eq_getElem hlt, e, hbx]
  · intro i hi
    simp only [loadSystem, hf, pyIndex]
    rcases hi with hi | hi
    · have h0 : 0 ≤ i := by omega
      have : ms.length ≤ i.toNat := by omega
      simp [h0, List.getElem?_eq_none this]
    · have h0 : ¬ (0 ≤ i) := by omega
      have : ¬ ((-i).toNat ≤ ms.length) := by omega
      simp [h0, this]

/-- **load_default**: with the defaults (`key='atomic-system'`, `index=0`) a record holding one system at the top is
    read as `System(model=record)` reads it. -/
theorem load_default (fac : String → K) (eps : K) (kv : List (String × DM K))
    (hk : findsKV "atomic-system" kv = []) (hbx : kv.any (fun e => e.1 == "box") = true) :
    loadSystem fac eps "atomic-system" 0 (.node [("atomic-system", .node kv)])
      = systemRead fac eps (.node [("atomic-system", .node kv)]) := by
  rw [loadSystem, DM.finds, findsKV, hk]
  simp [findsKV, pyIndex, hbx]

end load_select

end Atomman.C10
