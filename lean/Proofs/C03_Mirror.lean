/-
  C03 — helper lemmas (F): the periodic distance (the minimum over the 27 / 9 / 3 / 1 candidates) does not depend on
  how the same system is described:
    * mirrored through coordinate planes (every Cartesian component multiplied by a sign: a cell diag(5, 6, 7)
      becomes diag(5, 6, -7) with its origin on the top face; a right-handed cell becomes left-handed),
    * the cell spanned from the far face of some of its vectors (those vectors negated, the origin moved onto the far
      face, the atoms untouched),
    * the cell vectors (with their periodicity flags) listed in another order,
    * the Cartesian axes renamed.
  In each case the set of candidate separations is the same up to a bijection of the image shifts, so the minimum is
  the same (`dmag2_lt_iff`: the running minimum of `dmag2_c` is below `t` iff some candidate is).  Atoms inside the
  cell stay inside.
-/
import Proofs.C03_Scale

set_option linter.unusedSimpArgs false
set_option linter.unusedVariables false

namespace Atomman.C03
open List

/-! ### mirrored through coordinate planes -/

/-- componentwise product. -/
def mulV (σ p : V3 ℚ) : V3 ℚ := ⟨σ.x * p.x, σ.y * p.y, σ.z * p.z⟩

/-- every component is `+1` or `-1` (stated as `σ² = 1`). -/
def IsSign (σ : V3 ℚ) : Prop := σ.x * σ.x = 1 ∧ σ.y * σ.y = 1 ∧ σ.z * σ.z = 1

/-- the whole system reflected: cell vectors, origin and positions, component by component. -/
def mirrorSys (σ : V3 ℚ) (S : Sys) : Sys :=
  { S with vects := ⟨mulV σ S.vects.r0, mulV σ S.vects.r1, mulV σ S.vects.r2⟩,
           origin := mulV σ S.origin, pos := S.pos.map (mulV σ) }

theorem mirrorSys_natoms (σ : V3 ℚ) (S : Sys) : (mirrorSys σ S).natoms = S.natoms := by
  simp [mirrorSys, Sys.natoms]

theorem mirrorSys_posOf (σ : V3 ℚ) (S : Sys) (i : Nat) : (mirrorSys σ S).posOf i = mulV σ (S.posOf i) := by
  unfold mirrorSys Sys.posOf
  simp only [List.getD_eq_getElem?_getD, List.getElem?_map]
  cases S.pos[i]? <;> simp [mulV]

theorem cand2_mirror (σ : V3 ℚ) (hσ : IsSign σ) (V : M3 ℚ) (p0 p1 : V3 ℚ) (s : Int × Int × Int) :
    cand2 (⟨mulV σ V.r0, mulV σ V.r1, mulV σ V.r2⟩ : M3 ℚ) (mulV σ p0) (mulV σ p1) s = cand2 V p0 p1 s := by
  obtain ⟨hx, hy, hz⟩ := hσ
  simp only [cand2, V3.normSq, V3.dot, shiftBy, mulV, v3sub_x, v3sub_y, v3sub_z]
  have e : ∀ (a t : ℚ), a * a = 1 → (a * t) * (a * t) = t * t := by
    intro a t h
    have : (a * t) * (a * t) = (a * a) * (t * t) := by ring
    rw [this, h, one_mul]
  have ex := e σ.x ((p1.x - p0.x) + (s.1 : ℚ) * V.r0.x + (s.2.1 : ℚ) * V.r1.x + (s.2.2 : ℚ) * V.r2.x) hx
  have ey := e σ.y ((p1.y - p0.y) + (s.1 : ℚ) * V.r0.y + (s.2.1 : ℚ) * V.r1.y + (s.2.2 : ℚ) * V.r2.y) hy
  have ez := e σ.z ((p1.z - p0.z) + (s.1 : ℚ) * V.r0.z + (s.2.1 : ℚ) * V.r1.z + (s.2.2 : ℚ) * V.r2.z) hz
  have fx : σ.x * p1.x - σ.x * p0.x + (s.1 : ℚ) * (σ.x * V.r0.x) + (s.2.1 : ℚ) * (σ.x * V.r1.x) + (s.2.2 : ℚ) * (σ.x * V.r2.x)
      = σ.x * ((p1.x - p0.x) + (s.1 : ℚ) * V.r0.x + (s.2.1 : ℚ) * V.r1.x + (s.2.2 : ℚ) * V.r2.x) := by ring
  have fy : σ.y * p1.y - σ.y * p0.y + (s.1 : ℚ) * (σ.y * V.r0.y) + (s.2.1 : ℚ) * (σ.y * V.r1.y) + (s.2.2 : ℚ) * (σ.y * V.r2.y)
      = σ.y * ((p1.y - p0.y) + (s.1 : ℚ) * V.r0.y + (s.2.1 : ℚ) * V.r1.y + (s.2.2 : ℚ) * V.r2.y) := by ring
  have fz : σ.z * p1.z - σ.z * p0.z + (s.1 : ℚ) * (σ.z * V.r0.z) + (s.2.1 : ℚ) * (σ.z * V.r1.z) + (s.2.2 : ℚ) * (σ.z * V.r2.z)
      = σ.z * ((p1.z - p0.z) + (s.1 : ℚ) * V.r0.z + (s.2.1 : ℚ) * V.r1.z + (s.2.2 : ℚ) * V.r2.z) := by ring
  rw [fx, fy, fz, ex, ey, ez]

theorem dmag2_mirror (σ : V3 ℚ) (hσ : IsSign σ) (V : M3 ℚ) (px py pz : Bool) (p0 p1 : V3 ℚ) :
    dmag2 (⟨mulV σ V.r0, mulV σ V.r1, mulV σ V.r2⟩ : M3 ℚ) px py pz (mulV σ p0) (mulV σ p1) = dmag2 V px py pz p0 p1 := by
  apply eq_of_forall_gt_iff
  intro t
  rw [dmag2_lt_iff, dmag2_lt_iff]
  constructor
  · rintro ⟨s, hs, h⟩
    exact ⟨s, hs, by rw [← cand2_mirror σ hσ]; exact h⟩
  · rintro ⟨s, hs, h⟩
    exact ⟨s, hs, by rw [cand2_mirror σ hσ]; exact h⟩

theorem dist2_mirror (σ : V3 ℚ) (hσ : IsSign σ) (S : Sys) (u v : Nat) :
    dist2 (mirrorSys σ S) u v = dist2 S u v := by
  unfold dist2
  rw [mirrorSys_posOf, mirrorSys_posOf]
  exact dmag2_mirror σ hσ S.vects S.px S.py S.pz _ _

theorem insideCell_mirror (σ : V3 ℚ) (S : Sys) (p : V3 ℚ) (h : InsideCell S p) :
    InsideCell (mirrorSys σ S) (mulV σ p) := by
  obtain ⟨r, h0, h1, h2, h3, h4, h5, hp⟩ := h
  refine ⟨r, h0, h1, h2, h3, h4, h5, ?_⟩
  rw [hp]
  simp only [mirrorSys, mulV, V3.mk.injEq]
  refine ⟨by ring, by ring, by ring⟩

/-! ### spanned from the far face of some cell vectors -/

/-- `-v` when the flag is set. -/
def negIf (b : Bool) (v : V3 ℚ) : V3 ℚ := if b then ⟨-v.x, -v.y, -v.z⟩ else v

/-- `a` when the flag is set, else zero. -/
def takeIf (b : Bool) (a : ℚ) : ℚ := if b then a else 0

/-- the same cell spanned from the opposite corner along the flagged vectors: those vectors negated, the origin moved
    by their sum; the atoms are not touched. -/
def farFaceSys (f0 f1 f2 : Bool) (S : Sys) : Sys :=
  { S with vects := ⟨negIf f0 S.vects.r0, negIf f1 S.vects.r1, negIf f2 S.vects.r2⟩,
           origin := ⟨S.origin.x + takeIf f0 S.vects.r0.x + takeIf f1 S.vects.r1.x + takeIf f2 S.vects.r2.x,
                      S.origin.y + takeIf f0 S.vects.r0.y + takeIf f1 S.vects.r1.y + takeIf f2 S.vects.r2.y,
                      S.origin.z + takeIf f0 S.vects.r0.z + takeIf f1 S.vects.r1.z + takeIf f2 S.vects.r2.z⟩ }

theorem farFaceSys_natoms (f0 f1 f2 : Bool) (S : Sys) : (farFaceSys f0 f1 f2 S).natoms = S.natoms := rfl

theorem farFaceSys_posOf (f0 f1 f2 : Bool) (S : Sys) (i : Nat) : (farFaceSys f0 f1 f2 S).posOf i = S.posOf i := rfl

/-- the image shift that gives the same candidate in the re-spanned cell. -/
def flipShift (f0 f1 f2 : Bool) (s : Int × Int × Int) : Int × Int × Int :=
  (if f0 then -s.1 else s.1, if f1 then -s.2.1 else s.2.1, if f2 then -s.2.2 else s.2.2)

theorem flipShift_mem {px py pz : Bool} (f0 f1 f2 : Bool) {s : Int × Int × Int} (h : s ∈ allShifts px py pz) :
    flipShift f0 f1 f2 s ∈ allShifts px py pz := by
  rw [mem_allShifts] at h ⊢
  refine ⟨?_, ?_, ?_⟩
  · cases f0
    · exact h.1
    · exact neg_mem_pbcRange h.1
  · cases f1
    · exact h.2.1
    · exact neg_mem_pbcRange h.2.1
  · cases f2
    · exact h.2.2
    · exact neg_mem_pbcRange h.2.2

theorem flipShift_flipShift (f0 f1 f2 : Bool) (s : Int × Int × Int) :
    flipShift f0 f1 f2 (flipShift f0 f1 f2 s) = s := by
  obtain ⟨a, b, c⟩ := s
  cases f0 <;> cases f1 <;> cases f2 <;> simp [flipShift]

theorem cand2_farFace (f0 f1 f2 : Bool) (V : M3 ℚ) (p0 p1 : V3 ℚ) (s : Int × Int × Int) :
    cand2 (⟨negIf f0 V.r0, negIf f1 V.r1, negIf f2 V.r2⟩ : M3 ℚ) p0 p1 (flipShift f0 f1 f2 s) = cand2 V p0 p1 s := by
  cases f0 <;> cases f1 <;> cases f2 <;>
    simp only [cand2, V3.normSq, V3.dot, shiftBy, negIf, flipShift, v3sub_x, v3sub_y, v3sub_z, if_true,
      Bool.false_eq_true, if_false] <;> push_cast <;> ring

theorem dmag2_farFace (f0 f1 f2 : Bool) (V : M3 ℚ) (px py pz : Bool) (p0 p1 : V3 ℚ) :
    dmag2 (⟨negIf f0 V.r0, negIf f1 V.r1, negIf f2 V.r2⟩ : M3 ℚ) px py pz p0 p1 = dmag2 V px py pz p0 p1 := by
  apply eq_of_forall_gt_iff
  intro t
  rw [dmag2_lt_iff, dmag2_lt_iff]
  constructor
  · rintro ⟨s, hs, h⟩
    refine ⟨flipShift f0 f1 f2 s, flipShift_mem f0 f1 f2 hs, ?_⟩
    rw [← cand2_farFace f0 f1 f2, flipShift_flipShift]
    exact h
  · rintro ⟨s, hs, h⟩
    exact ⟨flipShift f0 f1 f2 s, flipShift_mem f0 f1 f2 hs, by rw [cand2_farFace]; exact h⟩

theorem dist2_farFace (f0 f1 f2 : Bool) (S : Sys) (u v : Nat) :
    dist2 (farFaceSys f0 f1 f2 S) u v = dist2 S u v := by
  unfold dist2
  rw [farFaceSys_posOf, farFaceSys_posOf]
  exact dmag2_farFace f0 f1 f2 S.vects S.px S.py S.pz _ _

theorem insideCell_farFace (f0 f1 f2 : Bool) (S : Sys) (p : V3 ℚ) (h : InsideCell S p) :
    InsideCell (farFaceSys f0 f1 f2 S) p := by
  obtain ⟨r, h0, h1, h2, h3, h4, h5, hp⟩ := h
  refine ⟨⟨if f0 then 1 - r.x else r.x, if f1 then 1 - r.y else r.y, if f2 then 1 - r.z else r.z⟩, ?_⟩
  rw [hp]
  cases f0 <;> cases f1 <;> cases f2 <;>
    simp only [farFaceSys, negIf, takeIf, if_true, Bool.false_eq_true, if_false, V3.mk.injEq] <;>
    refine ⟨by linarith, by linarith, by linarith, by linarith, by linarith, by linarith, by ring, by ring, by ring⟩

/-! ### cell vectors listed in another order -/

/-- vectors 0 and 1 (and their periodicity flags) exchanged. -/
def swapVecSys (S : Sys) : Sys :=
  { S with vects := ⟨S.vects.r1, S.vects.r0, S.vects.r2⟩, px := S.py, py := S.px }

/-- vectors (and flags) rotated: (b, c, a). -/
def cycleVecSys (S : Sys) : Sys :=
  { S with vects := ⟨S.vects.r1, S.vects.r2, S.vects.r0⟩, px := S.py, py := S.pz, pz := S.px }

theorem dmag2_swapVec (V : M3 ℚ) (px py pz : Bool) (p0 p1 : V3 ℚ) :
    dmag2 (⟨V.r1, V.r0, V.r2⟩ : M3 ℚ) py px pz p0 p1 = dmag2 V px py pz p0 p1 := by
  have key : ∀ (W : M3 ℚ) (s : Int × Int × Int),
      cand2 (⟨W.r1, W.r0, W.r2⟩ : M3 ℚ) p0 p1 (s.2.1, s.1, s.2.2) = cand2 W p0 p1 s := by
    intro W s
    simp only [cand2, V3.normSq, V3.dot, shiftBy, v3sub_x, v3sub_y, v3sub_z]
    ring
  apply eq_of_forall_gt_iff
  intro t
  rw [dmag2_lt_iff, dmag2_lt_iff]
  constructor
  · rintro ⟨s, hs, h⟩
    refine ⟨(s.2.1, s.1, s.2.2), ?_, ?_⟩
    · rw [mem_allShifts] at hs ⊢; exact ⟨hs.2.1, hs.1, hs.2.2⟩
    · have := key (⟨V.r1, V.r0, V.r2⟩ : M3 ℚ) s
      simp only at this
      rw [this]; exact h
  · rintro ⟨s, hs, h⟩
    refine ⟨(s.2.1, s.1, s.2.2), ?_, ?_⟩
    · rw [mem_allShifts] at hs ⊢; exact ⟨hs.2.1, hs.1, hs.2.2⟩
    · rw [key V s]; exact h

theorem dmag2_cycleVec (V : M3 ℚ) (px py pz : Bool) (p0 p1 : V3 ℚ) :
    dmag2 (⟨V.r1, V.r2, V.r0⟩ : M3 ℚ) py pz px p0 p1 = dmag2 V px py pz p0 p1 := by
  have key : ∀ (s : Int × Int × Int),
      cand2 (⟨V.r1, V.r2, V.r0⟩ : M3 ℚ) p0 p1 (s.2.1, s.2.2, s.1) = cand2 V p0 p1 s := by
    intro s
    simp only [cand2, V3.normSq, V3.dot, shiftBy, v3sub_x, v3sub_y, v3sub_z]
    ring
  have key' : ∀ (s : Int × Int × Int),
      cand2 V p0 p1 (s.2.2, s.1, s.2.1) = cand2 (⟨V.r1, V.r2, V.r0⟩ : M3 ℚ) p0 p1 s := by
    intro s
    simp only [cand2, V3.normSq, V3.dot, shiftBy, v3sub_x, v3sub_y, v3sub_z]
    ring
  apply eq_of_forall_gt_iff
  intro t
  rw [dmag2_lt_iff, dmag2_lt_iff]
  constructor
  · rintro ⟨s, hs, h⟩
    refine ⟨(s.2.2, s.1, s.2.1), ?_, ?_⟩
    · rw [mem_allShifts] at hs ⊢; exact ⟨hs.2.2, hs.1, hs.2.1⟩
    · rw [key' s]; exact h
  · rintro ⟨s, hs, h⟩
    refine ⟨(s.2.1, s.2.2, s.1), ?_, ?_⟩
    · rw [mem_allShifts] at hs ⊢; exact ⟨hs.2.1, hs.2.2, hs.1⟩
    · rw [key s]; exact h

theorem dist2_swapVec (S : Sys) (u v : Nat) : dist2 (swapVecSys S) u v = dist2 S u v :=
  dmag2_swapVec S.vects S.px S.py S.pz _ _

theorem dist2_cycleVec (S : Sys) (u v : Nat) : dist2 (cycleVecSys S) u v = dist2 S u v :=
  dmag2_cycleVec S.vects S.px S.py S.pz _ _

theorem insideCell_swapVec (S : Sys) (p : V3 ℚ) (h : InsideCell S p) : InsideCell (swapVecSys S) p := by
  obtain ⟨r, h0, h1, h2, h3, h4, h5, hp⟩ := h
  refine ⟨⟨r.y, r.x, r.z⟩, h2, h3, h0, h1, h4, h5, ?_⟩
  rw [hp]
  simp only [swapVecSys, V3.mk.injEq]
  refine ⟨by ring, by ring, by ring⟩

theorem insideCell_cycleVec (S : Sys) (p : V3 ℚ) (h : InsideCell S p) : InsideCell (cycleVecSys S) p := by
  obtain ⟨r, h0, h1, h2, h3, h4, h5, hp⟩ := h
  refine ⟨⟨r.y, r.z, r.x⟩, h2, h3, h4, h5, h0, h1, ?_⟩
  rw [hp]
  simp only [cycleVecSys, V3.mk.injEq]
  refine ⟨by ring, by ring, by ring⟩

/-! ### Cartesian axes renamed -/

/-- x and y exchanged. -/
def swapXY (p : V3 ℚ) : V3 ℚ := ⟨p.y, p.x, p.z⟩
/-- axes rotated: (y, z, x). -/
def cycleXYZ (p : V3 ℚ) : V3 ℚ := ⟨p.y, p.z, p.x⟩

/-- the whole system with every vector (cell vectors, origin, positions) passed through `g`. -/
def mapSys (g : V3 ℚ → V3 ℚ) (S : Sys) : Sys :=
  { S with vects := ⟨g S.vects.r0, g S.vects.r1, g S.vects.r2⟩, origin := g S.origin, pos := S.pos.map g }

theorem mapSys_natoms (g : V3 ℚ → V3 ℚ) (S : Sys) : (mapSys g S).natoms = S.natoms := by
  simp [mapSys, Sys.natoms]

theorem mapSys_posOf (g : V3 ℚ → V3 ℚ) (hg : g ⟨0, 0, 0⟩ = ⟨0, 0, 0⟩) (S : Sys) (i : Nat) :
    (mapSys g S).posOf i = g (S.posOf i) := by
  unfold mapSys Sys.posOf
  simp only [List.getD_eq_getElem?_getD, List.getElem?_map]
  cases S.pos[i]? <;> simp [hg]

theorem dmag2_axes (g : V3 ℚ → V3 ℚ)
    (hg : ∀ (V : M3 ℚ) (p0 p1 : V3 ℚ) (s : Int × Int × Int),
      cand2 (⟨g V.r0, g V.r1, g V.r2⟩ : M3 ℚ) (g p0) (g p1) s = cand2 V p0 p1 s)
    (V : M3 ℚ) (px py pz : Bool) (p0 p1 : V3 ℚ) :
    dmag2 (⟨g V.r0, g V.r1, g V.r2⟩ : M3 ℚ) px py pz (g p0) (g p1) = dmag2 V px py pz p0 p1 := by
  apply eq_of_forall_gt_iff
  intro t
  rw [dmag2_lt_iff, dmag2_lt_iff]
  constructor
  · rintro ⟨s, hs, h⟩
    exact ⟨s, hs, by rw [← hg]; exact h⟩
  · rintro ⟨s, hs, h⟩
    exact ⟨s, hs, by rw [hg]; exact h⟩

theorem cand2_swapXY (V : M3 ℚ) (p0 p1 : V3 ℚ) (s : Int × Int × Int) :
    cand2 (⟨swapXY V.r0, swapXY V.r1, swapXY V.r2⟩ : M3 ℚ) (swapXY p0) (swapXY p1) s = cand2 V p0 p1 s := by
  simp only [cand2, V3.normSq, V3.dot, shiftBy, swapXY, v3sub_x, v3sub_y, v3sub_z]
  ring

theorem cand2_cycleXYZ (V : M3 ℚ) (p0 p1 : V3 ℚ) (s : Int × Int × Int) :
    cand2 (⟨cycleXYZ V.r0, cycleXYZ V.r1, cycleXYZ V.r2⟩ : M3 ℚ) (cycleXYZ p0) (cycleXYZ p1) s = cand2 V p0 p1 s := by
  simp only [cand2, V3.normSq, V3.dot, shiftBy, cycleXYZ, v3sub_x, v3sub_y, v3sub_z]
  ring

theorem dist2_swapXY (S : Sys) (u v : Nat) : dist2 (mapSys swapXY S) u v = dist2 S u v := by
  unfold dist2
  rw [mapSys_posOf swapXY rfl, mapSys_posOf swapXY rfl]
  exact dmag2_axes swapXY cand2_swapXY S.vects S.px S.py S.pz _ _

theorem dist2_cycleXYZ (S : Sys) (u v : Nat) : dist2 (mapSys cycleXYZ S) u v = dist2 S u v := by
  unfold dist2
  rw [mapSys_posOf cycleXYZ rfl, mapSys_posOf cycleXYZ rfl]
  exact dmag2_axes cycleXYZ cand2_cycleXYZ S.vects S.px S.py S.pz _ _

theorem insideCell_swapXY (S : Sys) (p : V3 ℚ) (h : InsideCell S p) : InsideCell (mapSys swapXY S) (swapXY p) := by
  obtain ⟨r, h0, h1, h2, h3, h4, h5, hp⟩ := h
  refine ⟨r, h0, h1, h2, h3, h4, h5, ?_⟩
  rw [hp]
  simp only [mapSys, swapXY]

theorem insideCell_cycleXYZ (S : Sys) (p : V3 ℚ) (h : InsideCell S p) :
    InsideCell (mapSys cycleXYZ S) (cycleXYZ p) := by
  obtain ⟨r, h0, h1, h2, h3, h4, h5, hp⟩ := h
  refine ⟨r, h0, h1, h2, h3, h4, h5, ?_⟩
  rw [hp]
  simp only [mapSys, cycleXYZ]

end Atomman.C03
