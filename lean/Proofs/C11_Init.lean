/-
  C11 — `ElasticConstants.__init__`: keyword routing and refusals, over the chain regenerated from the source
  (`Generated/InitRoute.lean`).  `keys` is the set of keyword names of the call (python keywords are distinct).
-/
import Atomman.C11
import Mathlib.Tactic.IntervalCases

namespace Atomman.C11
open Atomman.Gen
set_option linter.unusedSimpArgs false

def matrixKeys : List String := ["Cij", "Sij", "Cij9", "Cijkl", "Sijkl"]

/-- no arguments: the zero matrix. -/
theorem init_empty : initRoute [] = .zeros := by decide

/-- a matrix keyword alone goes to its own setter. -/
theorem init_matrix_alone : ∀ k ∈ matrixKeys, initRoute [k] = .set k := by decide

/-- the two readings of `__init__` agree: every keyword set that the symbolic execution (per keyword set, which
    produced the `ctor_*` definitions) follows into a crystal-system / isotropic method is routed to that method by
    the chain. -/
theorem init_routes_agree : ∀ kr ∈ ctorRoutes, initRoute kr.1 = .call kr.2 := by decide

/-- **refusal**: a matrix keyword together with anything else (named constants, a second matrix, `model`) fails the
    `assert len(kwargs) == 1` of the first matrix branch reached. -/
theorem init_matrix_mixed_refused (keys : List String) (h : ∃ k ∈ matrixKeys, keys.contains k = true)
    (hl : keys.length ≠ 1) : initRoute keys = .assertFail := by
  have h0 : keys.length ≠ 0 := by
    obtain ⟨k, _, hk⟩ := h
    intro hz
    have : keys = [] := List.eq_nil_of_length_eq_zero hz
    subst this
    simp at hk
  simp only [initRoute, initChain, List.find?, testHolds, List.contains_cons, List.contains_nil, Bool.or_false,
    beq_iff_eq]
  have hb : (keys.length == 0) = false := by simp [h0]
  obtain ⟨k, hk, hc⟩ := h
  simp only [matrixKeys, List.mem_cons, List.not_mem_nil, or_false] at hk
  cases h1 : keys.contains "Cij"
  · cases h2 : keys.contains "Sij"
    · cases h3 : keys.contains "Cij9"
      · cases h4 : keys.contains "Cijkl"
        · cases h5 : keys.contains "Sijkl"
          · rcases hk with rfl | rfl | rfl | rfl | rfl <;> simp_all
          · simp [actRun, hl, hb]
        · simp [actRun, hl, hb]
      · simp [actRun, hl, hb]
    · simp [actRun, hl, hb]
  · simp [actRun, hl, hb]

/-- routing of named constants as the documentation states it: by the NUMBER of keywords (and `C14` for six or
    seven). -/
def namedRoute (n : Nat) (hasC14 : Bool) : Route :=
  if n = 0 then .zeros else if n = 2 then .call "isotropic" else if n = 3 then .call "cubic"
  else if n = 5 then .call "hexagonal"
  else if n = 6 ∨ n = 7 then (if hasC14 then .call "rhombohedral" else .call "tetragonal")
  else if n = 8 then .call "rhombohedral" else if n = 9 then .call "orthorhombic"
  else if n = 13 then .call "monoclinic" else if n = 21 then .call "triclinic" else .raise "TypeError"

/-- without a matrix keyword and without `model`, `__init__` routes by the number of keywords alone. -/
theorem init_named_route (keys : List String) (hm : ∀ k ∈ matrixKeys, keys.contains k = false)
    (hmod : keys.contains "model" = false) :
    initRoute keys = namedRoute keys.length (keys.contains "C14") := by
  have e1 := hm "Cij" (by decide); have e2 := hm "Sij" (by decide); have e3 := hm "Cij9" (by decide)
  have e4 := hm "Cijkl" (by decide); have e5 := hm "Sijkl" (by decide)
  simp only [initRoute, initChain, List.find?, testHolds, e1, e2, e3, e4, e5, hmod, List.contains_cons,
    List.contains_nil, Bool.or_false, namedRoute, initElse]
  generalize hc : keys.contains "C14" = c
  generalize keys.length = n
  rcases Nat.lt_or_ge n 22 with h | h
  · interval_cases n <;> cases c <;> simp [actRun] <;> simpa using hc
  · obtain ⟨m, rfl⟩ : ∃ m, n = m + 22 := ⟨n - 22, by omega⟩
    simp [actRun]

/-- **refusal iff**: named keywords are refused by `__init__` itself (`TypeError`) exactly when their number is none
    of 0, 2, 3, 5, 6, 7, 8, 9, 13, 21. -/
theorem init_type_error_iff (keys : List String) (hm : ∀ k ∈ matrixKeys, keys.contains k = false)
    (hmod : keys.contains "model" = false) :
    initRoute keys = .raise "TypeError" ↔ keys.length ∉ [0, 2, 3, 5, 6, 7, 8, 9, 13, 21] := by
  rw [init_named_route keys hm hmod]
  generalize keys.contains "C14" = c
  generalize keys.length = n
  rcases Nat.lt_or_ge n 22 with h | h
  · interval_cases n <;> cases c <;> decide
  · obtain ⟨m, rfl⟩ : ∃ m, n = m + 22 := ⟨n - 22, by omega⟩
    simp [namedRoute]

/-- non-vacuity: four named constants. -/
example : (∀ k ∈ matrixKeys, ["C11", "C12", "C44", "C66"].contains k = false) ∧
    initRoute ["C11", "C12", "C44", "C66"] = .raise "TypeError" := by decide

end Atomman.C11
