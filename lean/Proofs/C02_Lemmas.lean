/-
  C02 — helper lemmas: component simp lemmas for V3, membership in the loop's candidate list,
  invariants of the replacement fold, reciprocal-vector duality, Cauchy–Schwarz (via the
  Lagrange identity), integer casts.
-/
import Atomman.C02
import Mathlib.Tactic.Ring
import Mathlib.Tactic.Linarith
import Mathlib.Tactic.FieldSimp
import Mathlib.Algebra.Order.Field.Basic

namespace Atomman.C02
open Atomman
set_option linter.unusedSectionVars false
set_option linter.unusedSimpArgs false

section comps
variable {K : Type}
@[simp] theorem add_x [Add K] (a b : V3 K) : (a + b).x = a.x + b.x := rfl
@[simp] theorem add_y [Add K] (a b : V3 K) : (a + b).y = a.y + b.y := rfl
@[simp] theorem add_z [Add K] (a b : V3 K) : (a + b).z = a.z + b.z := rfl
@[simp] theorem sub_x [Sub K] (a b : V3 K) : (a - b).x = a.x - b.x := rfl
@[simp] theorem sub_y [Sub K] (a b : V3 K) : (a - b).y = a.y - b.y := rfl
@[simp] theorem sub_z [Sub K] (a b : V3 K) : (a - b).z = a.z - b.z := rfl
end comps

variable {K : Type} [Field K] [LinearOrder K] [IsStrictOrderedRing K]

theorem shiftBy_zero (V : M3 K) (d : V3 K) : shiftBy V d (0,0,0) = d := by
  ext <;> simp [shiftBy]

theorem shiftBy_eq (V : M3 K) (d : V3 K) (n : Shift) : shiftBy V d n = d + latticeVec V n := by
  ext <;> simp only [shiftBy, latticeVec, M3.vecMul, add_x, add_y, add_z] <;> ring

theorem mem_pbcRange (p : Bool) (x : Int) : x ∈ pbcRange p ↔ (x = -1 ∨ x = 0 ∨ x = 1) ∧ (p = false → x = 0) := by
  cases p <;> simp [pbcRange]
  omega

theorem mem_imageShifts (px py pz : Bool) (s : Shift) :
    s ∈ imageShifts px py pz ↔ s.admissible px py pz ∧ s ≠ (0,0,0) := by
  obtain ⟨a, b, c⟩ := s
  simp only [imageShifts, List.mem_filter, List.mem_flatMap, List.mem_map, mem_pbcRange, Shift.admissible, Shift.respects]
  constructor
  · rintro ⟨⟨x, hx, y, hy, z, hz, h⟩, hne⟩
    simp only [Prod.mk.injEq] at h
    obtain ⟨rfl, rfl, rfl⟩ := h
    refine ⟨⟨hx.1, hy.1, hz.1, hx.2, hy.2, hz.2⟩, ?_⟩
    intro h0
    simp only [Prod.mk.injEq] at h0
    obtain ⟨rfl, rfl, rfl⟩ := h0
    simp at hne
  · rintro ⟨⟨ha, hb, hc, hpa, hpb, hpc⟩, hne⟩
    refine ⟨⟨a, ⟨ha, hpa⟩, b, ⟨hb, hpb⟩, c, ⟨hc, hpc⟩, rfl⟩, ?_⟩
    by_contra h
    apply hne
    simp at h
    simp [h]

theorem dvectStep_eq (V : M3 K) (d0 d : V3 K) (s : Shift) :
    dvectStep V d0 d s = if V3.normSq (shiftBy V d0 s) < V3.normSq d then shiftBy V d0 s else d := rfl

/-- fold invariant: the result is the start value or one of the candidates -/
theorem fold_is_candidate (V : M3 K) (d0 : V3 K) (L : List Shift) (init : V3 K) :
    L.foldl (dvectStep V d0) init = init ∨ ∃ s ∈ L, L.foldl (dvectStep V d0) init = shiftBy V d0 s := by
  induction L generalizing init with
  | nil => left; rfl
  | cons s L ih =>
    simp only [List.foldl_cons]
    rcases ih (dvectStep V d0 init s) with h | ⟨t, ht, h⟩
    · rw [h]
      rw [dvectStep_eq]
      split
      · right; exact ⟨s, List.mem_cons_self, rfl⟩
      · left; rfl
    · right; exact ⟨t, List.mem_cons_of_mem _ ht, h⟩

theorem fold_le (V : M3 K) (d0 : V3 K) (L : List Shift) (init : V3 K) :
    V3.normSq (L.foldl (dvectStep V d0) init) ≤ V3.normSq init ∧
    ∀ s ∈ L, V3.normSq (L.foldl (dvectStep V d0) init) ≤ V3.normSq (shiftBy V d0 s) := by
  induction L generalizing init with
  | nil => exact ⟨le_refl _, by simp⟩
  | cons s L ih =>
    simp only [List.foldl_cons]
    obtain ⟨h1, h2⟩ := ih (dvectStep V d0 init s)
    have hs : V3.normSq (dvectStep V d0 init s) ≤ V3.normSq init ∧
        V3.normSq (dvectStep V d0 init s) ≤ V3.normSq (shiftBy V d0 s) := by
      rw [dvectStep_eq]
      split
      · rename_i h; exact ⟨le_of_lt h, le_refl _⟩
      · rename_i h; exact ⟨le_refl _, not_lt.mp h⟩
    refine ⟨le_trans h1 hs.1, ?_⟩
    intro t ht
    rcases List.mem_cons.mp ht with rfl | ht
    · exact le_trans h1 hs.2
    · exact h2 t ht

theorem fold_dmag2 (V : M3 K) (d0 : V3 K) (L : List Shift) (init : V3 K) :
    L.foldl (fun m s => let t := V3.normSq (shiftBy V d0 s); if t < m then t else m) (V3.normSq init)
      = V3.normSq (L.foldl (dvectStep V d0) init) := by
  induction L generalizing init with
  | nil => rfl
  | cons s L ih =>
    simp only [List.foldl_cons]
    rw [← ih]
    congr 1
    rw [dvectStep_eq]
    split <;> rfl

theorem normSq_nonneg (a : V3 K) : 0 ≤ V3.normSq a := by
  simp only [V3.normSq, V3.dot]; nlinarith [sq_nonneg a.x, sq_nonneg a.y, sq_nonneg a.z]

/-- Lagrange identity. -/
theorem lagrange (u v : V3 K) :
    V3.normSq u * V3.normSq v - (V3.dot u v)^2 = V3.normSq (V3.cross u v) := by
  simp only [V3.normSq, V3.dot, V3.cross]; ring

theorem cauchy_schwarz (u v : V3 K) : (V3.dot u v)^2 ≤ V3.normSq u * V3.normSq v := by
  have h := lagrange u v
  have h2 := normSq_nonneg (V3.cross u v)
  linarith

/-- duality of the rows of `recip` with the cell vectors. -/
theorem recip_dual (b : Box K) (hdet : M3.det b.vects ≠ 0) :
    (V3.dot b.vects.r0 b.recip.r0 = 1 ∧ V3.dot b.vects.r1 b.recip.r0 = 0 ∧ V3.dot b.vects.r2 b.recip.r0 = 0) ∧
    (V3.dot b.vects.r0 b.recip.r1 = 0 ∧ V3.dot b.vects.r1 b.recip.r1 = 1 ∧ V3.dot b.vects.r2 b.recip.r1 = 0) ∧
    (V3.dot b.vects.r0 b.recip.r2 = 0 ∧ V3.dot b.vects.r1 b.recip.r2 = 0 ∧ V3.dot b.vects.r2 b.recip.r2 = 1) := by
  have key : ∀ a b c x y z D : K, a * (x / D) + b * (y / D) + c * (z / D) = (a*x + b*y + c*z) / D := by
    intros; ring
  simp only [Box.recip, M3.inv, M3.transpose, V3.dot]
  refine ⟨⟨?_, ?_, ?_⟩, ⟨?_, ?_, ?_⟩, ⟨?_, ?_, ?_⟩⟩ <;>
    (rw [key, div_eq_iff hdet]; simp only [M3.det, V3.dot, V3.cross]; ring)


theorem dot_shiftBy (V : M3 K) (d ρ : V3 K) (n : Shift) :
    V3.dot (shiftBy V d n) ρ
      = V3.dot d ρ + (n.1 : K) * V3.dot V.r0 ρ + (n.2.1 : K) * V3.dot V.r1 ρ + (n.2.2 : K) * V3.dot V.r2 ρ := by
  simp only [shiftBy, V3.dot]; ring

/-- integers whose square (in `K`) is below one vanish. -/
theorem int_sq_lt_one {k : Int} (h : ((k : K))^2 < 1) : k = 0 := by
  have h' : ((k^2 : Int) : K) < ((1 : Int) : K) := by push_cast; exact h
  have h2 : k^2 < 1 := Int.cast_lt.mp h'
  rcases lt_trichotomy k 0 with hk | hk | hk
  · nlinarith
  · exact hk
  · nlinarith

/-- component bound behind `search_radius_sound`. -/
theorem comp_radius (e d ρ : V3 K) (k : K) (hk : V3.dot e ρ = V3.dot d ρ + k)
    (hle : V3.normSq e ≤ V3.normSq d) : k^2 ≤ 4 * V3.normSq d * V3.normSq ρ := by
  have c1 := cauchy_schwarz e ρ
  have c2 := cauchy_schwarz d ρ
  have hρ := normSq_nonneg ρ
  have hk' : k = V3.dot e ρ - V3.dot d ρ := by rw [hk]; ring
  have h3 : V3.normSq e * V3.normSq ρ ≤ V3.normSq d * V3.normSq ρ := mul_le_mul_of_nonneg_right hle hρ
  rw [hk']
  nlinarith [sq_nonneg (V3.dot e ρ + V3.dot d ρ)]

/-- two short vectors differ by less than one along a short-enough reciprocal direction. -/
theorem comp_unique (e f ρ : V3 K) (w2 : K) (k : Int) (hk : V3.dot e ρ - V3.dot f ρ = (k : K))
    (he : 4 * V3.normSq e < w2) (hf : 4 * V3.normSq f < w2) (hw : w2 * V3.normSq ρ ≤ 1) : k = 0 := by
  apply int_sq_lt_one (K := K)
  have c1 := cauchy_schwarz e ρ
  have c2 := cauchy_schwarz f ρ
  have hρ := normSq_nonneg ρ
  rw [← hk]
  rcases hρ.eq_or_lt with h0 | hpos
  · rw [← h0] at c1 c2
    nlinarith [sq_nonneg (V3.dot e ρ), sq_nonneg (V3.dot f ρ)]
  · have h4 : (2 * (V3.normSq e + V3.normSq f)) * V3.normSq ρ < w2 * V3.normSq ρ :=
      mul_lt_mul_of_pos_right (by linarith) hpos
    nlinarith [sq_nonneg (V3.dot e ρ + V3.dot f ρ)]

/-- a short image of a separation whose relative component lies in [-1,1] has shift -1, 0 or 1. -/
theorem comp_small (e ρ : V3 K) (w2 δ : K) (k : Int) (hk : V3.dot e ρ = δ + (k : K))
    (hδ : -1 ≤ δ ∧ δ ≤ 1) (he : 4 * V3.normSq e < w2) (hw : w2 * V3.normSq ρ ≤ 1) :
    k = -1 ∨ k = 0 ∨ k = 1 := by
  have c1 := cauchy_schwarz e ρ
  have hρ := normSq_nonneg ρ
  have hq : 4 * (δ + (k : K))^2 < 1 := by
    rw [← hk]
    rcases hρ.eq_or_lt with h0 | hpos
    · rw [← h0] at c1; nlinarith [sq_nonneg (V3.dot e ρ)]
    · have h4 : (4 * V3.normSq e) * V3.normSq ρ < w2 * V3.normSq ρ := mul_lt_mul_of_pos_right he hpos
      nlinarith
  have hlo : -2 < k := by
    by_contra h
    have h' : k ≤ -2 := by omega
    have : (k : K) ≤ -2 := by exact_mod_cast h'
    nlinarith
  have hhi : k < 2 := by
    by_contra h
    have h' : 2 ≤ k := by omega
    have : (2 : K) ≤ (k : K) := by exact_mod_cast h'
    nlinarith
  omega

/-- relative separation of two points in the cell lies in [-1, 1] (per axis). -/
theorem incell_delta (b : Box K) (p0 p1 : V3 K) (h0 : InCell b p0) (h1 : InCell b p1) :
    (-1 ≤ V3.dot (p1 - p0) b.recip.r0 ∧ V3.dot (p1 - p0) b.recip.r0 ≤ 1) ∧
    (-1 ≤ V3.dot (p1 - p0) b.recip.r1 ∧ V3.dot (p1 - p0) b.recip.r1 ≤ 1) ∧
    (-1 ≤ V3.dot (p1 - p0) b.recip.r2 ∧ V3.dot (p1 - p0) b.recip.r2 ≤ 1) := by
  have e : ∀ ρ : V3 K, V3.dot (p1 - p0) ρ = V3.dot ρ (p1 - b.origin) - V3.dot ρ (p0 - b.origin) := by
    intro ρ; simp only [V3.dot, sub_x, sub_y, sub_z]; ring
  simp only [InCell, Box.cartToRel, M3.mulVec] at h0 h1
  obtain ⟨⟨a1, a2⟩, ⟨a3, a4⟩, ⟨a5, a6⟩⟩ := h0
  obtain ⟨⟨b1, b2⟩, ⟨b3, b4⟩, ⟨b5, b6⟩⟩ := h1
  rw [e, e, e]
  refine ⟨⟨?_, ?_⟩, ⟨?_, ?_⟩, ⟨?_, ?_⟩⟩ <;> linarith

theorem fold_first_gen (V : M3 K) (d0 : V3 K) (L : List Shift) :
    ∀ (pre : List Shift) (cur : Shift) (mid : List Shift),
      (∀ t ∈ pre, V3.normSq (shiftBy V d0 cur) < V3.normSq (shiftBy V d0 t)) →
      (∀ t ∈ mid, V3.normSq (shiftBy V d0 cur) ≤ V3.normSq (shiftBy V d0 t)) →
      ∃ pre' s post, pre ++ cur :: (mid ++ L) = pre' ++ s :: post ∧
        L.foldl (dvectStep V d0) (shiftBy V d0 cur) = shiftBy V d0 s ∧
        ∀ t ∈ pre', V3.normSq (shiftBy V d0 s) < V3.normSq (shiftBy V d0 t) := by
  induction L with
  | nil =>
    intro pre cur mid hp _
    exact ⟨pre, cur, mid, by simp, rfl, hp⟩
  | cons x L ih =>
    intro pre cur mid hp hm
    simp only [List.foldl_cons]
    rw [dvectStep_eq]
    split
    · rename_i hlt
      obtain ⟨pre', s, post, h1, h2, h3⟩ := ih (pre ++ cur :: mid) x [] (by
        intro t ht
        rcases List.mem_append.mp ht with ht | ht
        · exact lt_trans hlt (hp t ht)
        · rcases List.mem_cons.mp ht with rfl | ht
          · exact hlt
          · exact lt_of_lt_of_le hlt (hm t ht)) (by simp)
      exact ⟨pre', s, post, by rw [← h1]; simp, h2, h3⟩
    · rename_i hnl
      obtain ⟨pre', s, post, h1, h2, h3⟩ := ih pre cur (mid ++ [x]) hp (by
        intro t ht
        rcases List.mem_append.mp ht with ht | ht
        · exact hm t ht
        · simp only [List.mem_singleton] at ht
          rw [ht]; exact not_lt.mp hnl)
      exact ⟨pre', s, post, by rw [← h1]; simp, h2, h3⟩

theorem fold_first (V : M3 K) (d0 : V3 K) (L : List Shift) (s0 : Shift) :
    ∃ pre s post, s0 :: L = pre ++ s :: post ∧
      L.foldl (dvectStep V d0) (shiftBy V d0 s0) = shiftBy V d0 s ∧
      ∀ t ∈ pre, V3.normSq (shiftBy V d0 s) < V3.normSq (shiftBy V d0 t) := by
  have h := fold_first_gen V d0 L [] s0 [] (by simp) (by simp)
  simpa using h

/-- the three reciprocal components of an image: `(d + n·vects)·recipᵢ = d·recipᵢ + nᵢ`. -/
theorem image_comp (b : Box K) (hdet : M3.det b.vects ≠ 0) (d : V3 K) (n : Shift) :
    V3.dot (shiftBy b.vects d n) b.recip.r0 = V3.dot d b.recip.r0 + (n.1 : K) ∧
    V3.dot (shiftBy b.vects d n) b.recip.r1 = V3.dot d b.recip.r1 + (n.2.1 : K) ∧
    V3.dot (shiftBy b.vects d n) b.recip.r2 = V3.dot d b.recip.r2 + (n.2.2 : K) := by
  obtain ⟨⟨a1, a2, a3⟩, ⟨b1, b2, b3⟩, ⟨c1, c2, c3⟩⟩ := recip_dual b hdet
  refine ⟨?_, ?_, ?_⟩ <;> rw [dot_shiftBy]
  · rw [a1, a2, a3]; ring
  · rw [b1, b2, b3]; ring
  · rw [c1, c2, c3]; ring

/-- images of an image: shifts add. -/
theorem shiftBy_shiftBy (V : M3 K) (d : V3 K) (m k : Shift) :
    shiftBy V (shiftBy V d m) k = shiftBy V d (m.1 + k.1, m.2.1 + k.2.1, m.2.2 + k.2.2) := by
  ext <;> simp only [shiftBy, Int.cast_add] <;> ring

/-- 1-D nearest image: `|t| ≤ a`; any integer shift is matched or beaten by one of -1, 0, 1. -/
theorem one_dim (a t : K) (ha : 0 < a) (hlo : -a ≤ t) (hhi : t ≤ a) (n : Int) :
    ∃ m : Int, (m = -1 ∨ m = 0 ∨ m = 1) ∧ (n = 0 → m = 0) ∧
      (t + (m : K) * a)^2 ≤ (t + (n : K) * a)^2 := by
  rcases lt_trichotomy n 0 with h | h | h
  · refine ⟨-1, Or.inl rfl, by omega, ?_⟩
    have h' : n ≤ -1 := by omega
    have hc : (n : K) ≤ -1 := by exact_mod_cast h'
    push_cast
    nlinarith [mul_nonneg (show (0:K) ≤ -1 - (n:K) by linarith) ha.le]
  · exact ⟨0, Or.inr (Or.inl rfl), fun _ => rfl, by rw [h]⟩
  · refine ⟨1, Or.inr (Or.inr rfl), by omega, ?_⟩
    have h' : 1 ≤ n := by omega
    have hc : (1 : K) ≤ (n : K) := by exact_mod_cast h'
    push_cast
    nlinarith [mul_nonneg (show (0:K) ≤ (n:K) - 1 by linarith) ha.le]

/-- reciprocal rows of a diagonal positive cell. -/
theorem recip_diag (b : Box K) (a bb c : K) (ha : 0 < a) (hb : 0 < bb) (hc : 0 < c)
    (hv : b.vects = ⟨⟨a, 0, 0⟩, ⟨0, bb, 0⟩, ⟨0, 0, c⟩⟩) :
    b.recip = ⟨⟨1 / a, 0, 0⟩, ⟨0, 1 / bb, 0⟩, ⟨0, 0, 1 / c⟩⟩ := by
  have ha' := ha.ne'; have hb' := hb.ne'; have hc' := hc.ne'
  simp only [Box.recip, M3.inv, M3.transpose, M3.det, V3.dot, V3.cross, hv]
  ext <;> simp <;> field_simp


/-- per-axis bound of the separation of two in-cell points of a diagonal cell. -/
theorem ortho_delta (b : Box K) (a bb c : K) (ha : 0 < a) (hb : 0 < bb) (hc : 0 < c)
    (hv : b.vects = ⟨⟨a, 0, 0⟩, ⟨0, bb, 0⟩, ⟨0, 0, c⟩⟩) (p0 p1 : V3 K)
    (h0 : InCell b p0) (h1 : InCell b p1) :
    (-a ≤ (p1 - p0).x ∧ (p1 - p0).x ≤ a) ∧ (-bb ≤ (p1 - p0).y ∧ (p1 - p0).y ≤ bb) ∧
    (-c ≤ (p1 - p0).z ∧ (p1 - p0).z ≤ c) := by
  obtain ⟨⟨x1, x2⟩, ⟨y1, y2⟩, ⟨z1, z2⟩⟩ := incell_delta b p0 p1 h0 h1
  rw [recip_diag b a bb c ha hb hc hv] at x1 x2 y1 y2 z1 z2
  simp only [V3.dot, mul_zero, add_zero, zero_add] at x1 x2 y1 y2 z1 z2
  have ex : (p1 - p0).x = ((p1 - p0).x * (1 / a)) * a := by field_simp
  have ey : (p1 - p0).y = ((p1 - p0).y * (1 / bb)) * bb := by field_simp
  have ez : (p1 - p0).z = ((p1 - p0).z * (1 / c)) * c := by field_simp
  refine ⟨⟨?_, ?_⟩, ⟨?_, ?_⟩, ⟨?_, ?_⟩⟩
  · rw [ex]; nlinarith
  · rw [ex]; nlinarith
  · rw [ey]; nlinarith
  · rw [ey]; nlinarith
  · rw [ez]; nlinarith
  · rw [ez]; nlinarith

/-- every vector is the combination of the cell vectors with its reciprocal components. -/
theorem decompose (b : Box K) (hdet : M3.det b.vects ≠ 0) (d : V3 K) :
    d = M3.vecMul ⟨V3.dot d b.recip.r0, V3.dot d b.recip.r1, V3.dot d b.recip.r2⟩ b.vects := by
  simp only [Box.recip, M3.inv, M3.transpose, V3.dot, M3.vecMul]
  ext
  · simp only
    rw [eq_comm]
    have : ∀ (p q r x y z u v w s t o a b c D : K),
        (p * (x / D) + q * (y / D) + r * (z / D)) * a + (p * (u / D) + q * (v / D) + r * (w / D)) * b
          + (p * (s / D) + q * (t / D) + r * (o / D)) * c
        = ((p * x + q * y + r * z) * a + (p * u + q * v + r * w) * b + (p * s + q * t + r * o) * c) / D := by
      intros; ring
    rw [this, div_eq_iff hdet]; simp only [M3.det, V3.dot, V3.cross]; ring
  · simp only
    rw [eq_comm]
    have : ∀ (p q r x y z u v w s t o a b c D : K),
        (p * (x / D) + q * (y / D) + r * (z / D)) * a + (p * (u / D) + q * (v / D) + r * (w / D)) * b
          + (p * (s / D) + q * (t / D) + r * (o / D)) * c
        = ((p * x + q * y + r * z) * a + (p * u + q * v + r * w) * b + (p * s + q * t + r * o) * c) / D := by
      intros; ring
    rw [this, div_eq_iff hdet]; simp only [M3.det, V3.dot, V3.cross]; ring
  · simp only
    rw [eq_comm]
    have : ∀ (p q r x y z u v w s t o a b c D : K),
        (p * (x / D) + q * (y / D) + r * (z / D)) * a + (p * (u / D) + q * (v / D) + r * (w / D)) * b
          + (p * (s / D) + q * (t / D) + r * (o / D)) * c
        = ((p * x + q * y + r * z) * a + (p * u + q * v + r * w) * b + (p * s + q * t + r * o) * c) / D := by
      intros; ring
    rw [this, div_eq_iff hdet]; simp only [M3.det, V3.dot, V3.cross]; ring

/-- squared length of a combination of mutually orthogonal cell vectors. -/
theorem normSq_ortho_comb (V : M3 K) (h01 : V3.dot V.r0 V.r1 = 0) (h02 : V3.dot V.r0 V.r2 = 0)
    (h12 : V3.dot V.r1 V.r2 = 0) (c : V3 K) :
    V3.normSq (M3.vecMul c V)
      = c.x^2 * V3.normSq V.r0 + c.y^2 * V3.normSq V.r1 + c.z^2 * V3.normSq V.r2 := by
  have e : V3.normSq (M3.vecMul c V)
      = c.x^2 * V3.normSq V.r0 + c.y^2 * V3.normSq V.r1 + c.z^2 * V3.normSq V.r2
        + 2 * c.x * c.y * V3.dot V.r0 V.r1 + 2 * c.x * c.z * V3.dot V.r0 V.r2
        + 2 * c.y * c.z * V3.dot V.r1 V.r2 := by
    simp only [V3.normSq, V3.dot, M3.vecMul]; ring
  rw [e, h01, h02, h12]; ring

/-- an image in reciprocal components. -/
theorem image_decompose (b : Box K) (hdet : M3.det b.vects ≠ 0) (d : V3 K) (n : Shift) :
    shiftBy b.vects d n = M3.vecMul ⟨V3.dot d b.recip.r0 + (n.1 : K), V3.dot d b.recip.r1 + (n.2.1 : K),
      V3.dot d b.recip.r2 + (n.2.2 : K)⟩ b.vects := by
  obtain ⟨h0, h1, h2⟩ := image_comp b hdet d n
  rw [← h0, ← h1, ← h2]
  exact decompose b hdet _

end Atomman.C02
