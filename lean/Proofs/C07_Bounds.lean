/-
  C07 — helper lemmas: the printed precision propagated through the bounding-box arithmetic of a dump file.
-/
import Proofs.C07_Files
import Mathlib.Algebra.Order.Group.MinMax

namespace Atomman.C07
open Atomman
set_option linter.unusedSimpArgs false
set_option linter.unusedVariables false

theorem min4_eq (a b c d : ℚ) : min4 a b c d = min (min (min a b) c) d := by
  have m : ∀ x y : ℚ, (if y < x then y else x) = min x y := by
    intro x y; rw [min_def]; split_ifs <;> first | rfl | linarith
  simp only [min4, m]

theorem max4_eq (a b c d : ℚ) : max4 a b c d = max (max (max a b) c) d := by
  have m : ∀ x y : ℚ, (if x < y then y else x) = max x y := by
    intro x y; rw [max_def]; split_ifs <;> first | rfl | linarith
  simp only [max4, m]

theorem min4_lip (a b a' b' ε : ℚ) (ha : |a' - a| ≤ ε) (hb : |b' - b| ≤ ε) :
    |min4 0 a' b' (a' + b') - min4 0 a b (a + b)| ≤ 2 * ε := by
  have hε : 0 ≤ ε := le_trans (abs_nonneg _) ha
  have hs : |a' + b' - (a + b)| ≤ 2 * ε := by
    have : a' + b' - (a + b) = (a' - a) + (b' - b) := by ring
    rw [this]; exact le_trans (abs_add_le _ _) (by linarith)
  rw [min4_eq, min4_eq]
  refine le_trans (abs_min_sub_min_le_max _ _ _ _) (max_le ?_ hs)
  refine le_trans (abs_min_sub_min_le_max _ _ _ _) (max_le ?_ (by linarith))
  refine le_trans (abs_min_sub_min_le_max _ _ _ _) (max_le (by simpa using (by linarith : (0:ℚ) ≤ 2 * ε)) (by linarith))

theorem max4_lip (a b a' b' ε : ℚ) (ha : |a' - a| ≤ ε) (hb : |b' - b| ≤ ε) :
    |max4 0 a' b' (a' + b') - max4 0 a b (a + b)| ≤ 2 * ε := by
  have hε : 0 ≤ ε := le_trans (abs_nonneg _) ha
  have hs : |a' + b' - (a + b)| ≤ 2 * ε := by
    have : a' + b' - (a + b) = (a' - a) + (b' - b) := by ring
    rw [this]; exact le_trans (abs_add_le _ _) (by linarith)
  rw [max4_eq, max4_eq]
  refine le_trans (abs_max_sub_max_le_max _ _ _ _) (max_le ?_ hs)
  refine le_trans (abs_max_sub_max_le_max _ _ _ _) (max_le ?_ (by linarith))
  refine le_trans (abs_max_sub_max_le_max _ _ _ _) (max_le (by simpa using (by linarith : (0:ℚ) ≤ 2 * ε)) (by linarith))

theorem min4_lip1 (a a' ε : ℚ) (ha : |a' - a| ≤ ε) : |min4 0 a' 0 0 - min4 0 a 0 0| ≤ ε := by
  have hε : 0 ≤ ε := le_trans (abs_nonneg _) ha
  rw [min4_eq, min4_eq]
  refine le_trans (abs_min_sub_min_le_max _ _ _ _) (max_le ?_ (by simpa using hε))
  refine le_trans (abs_min_sub_min_le_max _ _ _ _) (max_le ?_ (by simpa using hε))
  exact le_trans (abs_min_sub_min_le_max _ _ _ _) (max_le (by simpa using hε) ha)

theorem max4_lip1 (a a' ε : ℚ) (ha : |a' - a| ≤ ε) : |max4 0 a' 0 0 - max4 0 a 0 0| ≤ ε := by
  have hε : 0 ≤ ε := le_trans (abs_nonneg _) ha
  rw [max4_eq, max4_eq]
  refine le_trans (abs_max_sub_max_le_max _ _ _ _) (max_le ?_ (by simpa using hε))
  refine le_trans (abs_max_sub_max_le_max _ _ _ _) (max_le ?_ (by simpa using hε))
  exact le_trans (abs_max_sub_max_le_max _ _ _ _) (max_le (by simpa using hε) ha)

/-- **printed precision propagated through the bounding-box arithmetic**: if every printed number is within `ε` of the
    exact one, the `xlo … zhi` an independent reader rebuilds from a dump file's bounding box and tilts are within
    `3ε` (x), `2ε` (y), `ε` (z) of the cell's. -/
theorem dump_bounds_error (h : HiLo) (g : ℚ → ℚ) (ε : ℚ) (hg : ∀ q, |g q - q| ≤ ε) :
    let r := hiLoOfBBox ((bboxOf h).map g) (g h.xy) (g h.xz) (g h.yz)
    |r.xlo - h.xlo| ≤ 3 * ε ∧ |r.xhi - h.xhi| ≤ 3 * ε ∧ |r.ylo - h.ylo| ≤ 2 * ε ∧ |r.yhi - h.yhi| ≤ 2 * ε ∧
    |r.zlo - h.zlo| ≤ ε ∧ |r.zhi - h.zhi| ≤ ε ∧ |r.xy - h.xy| ≤ ε ∧ |r.xz - h.xz| ≤ ε ∧ |r.yz - h.yz| ≤ ε := by
  intro r
  have key : ∀ (lo m m' : ℚ) (k : ℚ), |m' - m| ≤ k * ε → |g (lo + m) - m' - lo| ≤ (k + 1) * ε := by
    intro lo m m' k hm
    have h1 := hg (lo + m)
    have : g (lo + m) - m' - lo = (g (lo + m) - (lo + m)) - (m' - m) := by ring
    rw [this]
    refine le_trans (abs_sub _ _) ?_
    linarith
  simp only [r, hiLoOfBBox, BBox.map, bboxOf]
  refine ⟨?_, ?_, ?_, ?_, hg _, hg _, hg _, hg _, hg _⟩
  · have := key h.xlo _ _ 2 (min4_lip _ _ _ _ ε (hg h.xy) (hg h.xz)); linarith
  · have := key h.xhi _ _ 2 (max4_lip _ _ _ _ ε (hg h.xy) (hg h.xz)); linarith
  · have := key h.ylo _ _ 1 (by simpa using min4_lip1 _ _ ε (hg h.yz)); linarith
  · have := key h.yhi _ _ 1 (by simpa using max4_lip1 _ _ ε (hg h.yz)); linarith

end Atomman.C07
