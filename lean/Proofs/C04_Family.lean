/-
  C04, round 4 — "every centering setting with a compatible cell": the entry tests of `conventional_to_primitive`
  as functions of the CALLER's tolerances.
  * `identifyFamily` (`Box.identifyfamily`): which comparisons it looks at (`identifyFamily_congr`: `b` against `c`,
    `beta` against `gamma` are not among them), and the families of the cells the library's own constructors build
    (`family_orthorhombic` … : nothing is asked of `b` vs `c`);
  * the family lists of the settings (`familyAllowed_*`) and what `check_family` changes (`checkSettingBasis_member`);
  * the lattice-site test with a tolerance (`onSiteTol`): an atom exactly on the site passes any tolerance, a looser
    tolerance accepts whatever a tighter one does, the test is periodic, with tolerance 0 it is the exact test;
  * the setting the conversion works with (`resolveSetting`): `'t'` resolves to `t2` for a cell that passes the `t2`
    test (and not the `t1` test) at the caller's tolerances, explicit settings are taken iff they pass.
-/
import Proofs.C04_Accept
import Mathlib.Tactic.Ring
import Mathlib.Tactic.Linarith
import Mathlib.Tactic.Positivity

namespace Atomman.C04
open Atomman
set_option linter.unusedSectionVars false

/-! ### the crystal family -/

section
variable {K : Type}

/-- `identifyFamily` consults the closeness test on these pairs ONLY: `(a,b)`, `(a,c)`, the three angles against 90,
    `gamma` against 120, `alpha` against `beta` and `gamma`.  Two closeness tests that agree there give the same family:
    whether `b` and `c` (or `beta` and `gamma`) coincide is never looked at. -/
theorem identifyFamily_congr (cl cl' : K → K → Bool) (n90 n120 : K) (p : Cell6 K)
    (hab : cl p.a p.b = cl' p.a p.b) (hac : cl p.a p.c = cl' p.a p.c)
    (h1 : cl p.al n90 = cl' p.al n90) (h2 : cl p.be n90 = cl' p.be n90) (h3 : cl p.ga n90 = cl' p.ga n90)
    (h4 : cl p.ga n120 = cl' p.ga n120) (h5 : cl p.al p.be = cl' p.al p.be) (h6 : cl p.al p.ga = cl' p.al p.ga) :
    identifyFamily cl n90 n120 p = identifyFamily cl' n90 n120 p := by
  unfold identifyFamily isCubic isHexagonal isTetragonal isRhombohedral isOrthorhombic isMonoclinic isTriclinic
  rw [hab, hac, h1, h2, h3, h4, h5, h6]

/-- the family does not depend on `b`, `c` beyond their comparison with `a`: replacing `c` by any `c'` that compares
    with `a` as `c` does (in particular `c' = b`) leaves the family unchanged. -/
theorem identifyFamily_c_irrelevant (cl : K → K → Bool) (n90 n120 : K) (p : Cell6 K) (c' : K)
    (h : cl p.a c' = cl p.a p.c) :
    identifyFamily cl n90 n120 { p with c := c' } = identifyFamily cl n90 n120 p := by
  unfold identifyFamily isCubic isHexagonal isTetragonal isRhombohedral isOrthorhombic isMonoclinic isTriclinic
  simp only [h]

/-- `a ≠ b`, `a ≠ c`, three right angles: orthorhombic - whatever `b` is against `c` (`Box.orthorhombic(3, 4, 4)`). -/
theorem family_orthorhombic (cl : K → K → Bool) (n90 n120 : K) (p : Cell6 K)
    (hab : cl p.a p.b = false) (hac : cl p.a p.c = false)
    (h1 : cl p.al n90 = true) (h2 : cl p.be n90 = true) (h3 : cl p.ga n90 = true) :
    identifyFamily cl n90 n120 p = some .orthorhombic := by
  simp [identifyFamily, isCubic, isHexagonal, isTetragonal, isRhombohedral, isOrthorhombic, hab, hac, h1, h2, h3]

/-- `a ≠ b`, `a ≠ c`, `alpha = gamma = 90 ≠ beta`: monoclinic - whatever `b` is against `c`. -/
theorem family_monoclinic (cl : K → K → Bool) (n90 n120 : K) (p : Cell6 K)
    (hab : cl p.a p.b = false) (hac : cl p.a p.c = false)
    (h1 : cl p.al n90 = true) (h2 : cl p.be n90 = false) (h3 : cl p.ga n90 = true) :
    identifyFamily cl n90 n120 p = some .monoclinic := by
  simp [identifyFamily, isCubic, isHexagonal, isTetragonal, isRhombohedral, isOrthorhombic, isMonoclinic, hab, hac, h1,
    h2, h3]

/-- `a ≠ b`, `a ≠ c`, `alpha ≠ beta`, `alpha ≠ gamma`, and `alpha`, `gamma` not both right angles: triclinic - whatever
    `b` is against `c` and `beta` against `gamma`. -/
theorem family_triclinic (cl : K → K → Bool) (n90 n120 : K) (p : Cell6 K)
    (hab : cl p.a p.b = false) (hac : cl p.a p.c = false)
    (h5 : cl p.al p.be = false) (h6 : cl p.al p.ga = false) (h13 : cl p.al n90 = false ∨ cl p.ga n90 = false) :
    identifyFamily cl n90 n120 p = some .triclinic := by
  rcases h13 with h | h <;>
    simp [identifyFamily, isCubic, isHexagonal, isTetragonal, isRhombohedral, isOrthorhombic, isMonoclinic,
      isTriclinic, hab, hac, h5, h6, h]

/-- `a = b`, `alpha = beta = 90`, `gamma = 120` (and not 90): hexagonal - whatever `c` is against `a`. -/
theorem family_hexagonal (cl : K → K → Bool) (n90 n120 : K) (p : Cell6 K)
    (hab : cl p.a p.b = true) (h1 : cl p.al n90 = true) (h2 : cl p.be n90 = true) (h3 : cl p.ga n90 = false)
    (h4 : cl p.ga n120 = true) :
    identifyFamily cl n90 n120 p = some .hexagonal := by
  simp [identifyFamily, isCubic, isHexagonal, hab, h1, h2, h3, h4]

/-- with exact comparison the preconditions of `Box.triclinic` (`a ≠ b`, `a ≠ c`, `alpha ≠ beta`, `alpha ≠ gamma`) are
    enough. -/
theorem family_triclinic_exact [DecidableEq K] (n90 n120 : K) (p : Cell6 K)
    (hab : p.a ≠ p.b) (hac : p.a ≠ p.c) (h5 : p.al ≠ p.be) (h6 : p.al ≠ p.ga) :
    identifyFamily (fun x y => decide (x = y)) n90 n120 p = some .triclinic := by
  apply family_triclinic
  · simpa using hab
  · simpa using hac
  · simpa using h5
  · simpa using h6
  · by_cases h : p.al = n90
    · right
      simp only [decide_eq_false_iff_not]
      intro hg
      exact h6 (h.trans hg.symm)
    · left
      simpa using h

end

/-! ### the family lists of the settings -/

theorem familyAllowed_orthorhombic :
    ∀ s ∈ ["p", "i", "f", "a", "b", "c"], familyAllowed s (some .orthorhombic) = true := by decide

theorem familyAllowed_monoclinic :
    ∀ s ∈ ["p", "a", "b", "c"], familyAllowed s (some .monoclinic) = true := by decide

theorem familyAllowed_hexagonal :
    ∀ s ∈ ["p", "t1", "t2"], familyAllowed s (some .hexagonal) = true := by decide

/-- a cell whose family is not identified is refused under every setting (documented behaviour of `check_family`). -/
theorem familyAllowed_none (s : String) : familyAllowed s none = false := by
  unfold familyAllowed
  split <;> simp_all

/-! statement audit: the three lists above are the WHOLE rows of the table (converse directions, for every string) -/

/-- the settings that have a family list at all. -/
theorem settingFamilies_some_iff (s : String) :
    (settingFamilies s).isSome ↔ s ∈ ["p", "i", "f", "a", "b", "c", "t1", "t2"] := by
  unfold settingFamilies
  split <;> simp_all

private theorem familyAllowed_cases (s : String) (f : Family) (h : familyAllowed s (some f) = true) :
    (s = "p") ∨ (s = "i" ∧ [Family.orthorhombic, .tetragonal, .cubic].contains f = true) ∨
    (s = "f" ∧ [Family.orthorhombic, .cubic].contains f = true) ∨
    ((s = "a" ∨ s = "b" ∨ s = "c") ∧ [Family.monoclinic, .orthorhombic].contains f = true) ∨
    ((s = "t1" ∨ s = "t2") ∧ [Family.hexagonal].contains f = true) := by
  by_cases h1 : s = "p"; · exact Or.inl h1
  by_cases h2 : s = "i"; · subst h2; right; left; exact ⟨rfl, h⟩
  by_cases h3 : s = "f"; · subst h3; right; right; left; exact ⟨rfl, h⟩
  by_cases h4 : s = "a"; · subst h4; right; right; right; left; exact ⟨Or.inl rfl, h⟩
  by_cases h5 : s = "b"; · subst h5; right; right; right; left; exact ⟨Or.inr (Or.inl rfl), h⟩
  by_cases h6 : s = "c"; · subst h6; right; right; right; left; exact ⟨Or.inr (Or.inr rfl), h⟩
  by_cases h7 : s = "t1"; · subst h7; right; right; right; right; exact ⟨Or.inl rfl, h⟩
  by_cases h8 : s = "t2"; · subst h8; right; right; right; right; exact ⟨Or.inr rfl, h⟩
  exfalso
  have : settingFamilies s = none := by
    unfold settingFamilies
    split <;> simp_all
  simp [familyAllowed, this] at h

theorem familyAllowed_orthorhombic_iff (s : String) :
    familyAllowed s (some .orthorhombic) = true ↔ s ∈ ["p", "i", "f", "a", "b", "c"] := by
  constructor
  · intro h
    rcases familyAllowed_cases s _ h with h | ⟨h, _⟩ | ⟨h, _⟩ | ⟨h | h | h, _⟩ | ⟨_, hc⟩ <;> first | (subst h; decide) | (exact absurd hc (by decide))
  · exact familyAllowed_orthorhombic s

theorem familyAllowed_monoclinic_iff (s : String) :
    familyAllowed s (some .monoclinic) = true ↔ s ∈ ["p", "a", "b", "c"] := by
  constructor
  · intro h
    rcases familyAllowed_cases s _ h with h | ⟨_, hc⟩ | ⟨_, hc⟩ | ⟨h | h | h, _⟩ | ⟨_, hc⟩ <;> first | (subst h; decide) | (exact absurd hc (by decide))
  · exact familyAllowed_monoclinic s

theorem familyAllowed_hexagonal_iff (s : String) :
    familyAllowed s (some .hexagonal) = true ↔ s ∈ ["p", "t1", "t2"] := by
  constructor
  · intro h
    rcases familyAllowed_cases s _ h with h | ⟨_, hc⟩ | ⟨_, hc⟩ | ⟨_, hc⟩ | ⟨h | h, _⟩ <;> first | (subst h; decide) | (exact absurd hc (by decide))
  · exact familyAllowed_hexagonal s

section
variable {K : Type} [Field K] [LinearOrder K] [IsStrictOrderedRing K] [FloorRing K]

/-- `checkSites` is the site loop over the exact per-site test. -/
theorem checkSites_eq_by (fl : K → Int) (b : Box K) (atoms : List (Atom K)) :
    ∀ (sites : List (V3 K)) (ty : Option Int),
      checkSites fl b atoms sites ty = checkSitesBy (onSite fl b) atoms sites ty
  | [], _ => by simp [checkSites, checkSitesBy]
  | s :: rest, ty => by
    unfold checkSites checkSitesBy
    split
    · rfl
    · cases ty with
      | none => exact checkSites_eq_by fl b atoms rest _
      | some t0 =>
        simp only
        split
        · exact checkSites_eq_by fl b atoms rest _
        · rfl
    · rfl

/-- for a cell whose family is in the setting's list the family test changes nothing: `check_family=True` and
    `check_family=False` give the same verdict. -/
theorem checkSettingBasis_member (fl : K → Int) (fam : Option Family) (b : Box K) (atol2 : K) (setting : String)
    (atoms : List (Atom K)) (h : familyAllowed setting fam = true) :
    checkSettingBasis fl fam b atol2 true setting atoms = checkSettingBasis fl fam b atol2 false setting atoms := by
  unfold checkSettingBasis
  cases settingSites (K := K) setting with
  | none => rfl
  | some sites => simp [h]

/-- ... and a cell whose family is NOT in the list (or not identified) is refused with `check_family=True`, whatever
    its atoms. -/
theorem checkSettingBasis_refuses_family (fl : K → Int) (fam : Option Family) (b : Box K) (atol2 : K) (setting : String)
    (atoms : List (Atom K)) (sites : List (V3 K)) (hs : settingSites (K := K) setting = some sites)
    (h : familyAllowed setting fam = false) :
    checkSettingBasis fl fam b atol2 true setting atoms = some (some false) := by
  unfold checkSettingBasis
  simp [hs, h]

/-! ### the lattice-site test with the caller's tolerance -/

theorem nearK_int (fl : K → Int) (hfl : ∀ x, fl x = ⌊x⌋) (n : Int) : nearK fl (n : K) = n := by
  unfold nearK
  rw [hfl, Int.floor_eq_iff]
  constructor
  · have : (0 : K) ≤ 1 / ((2 : Int) : K) := by norm_num
    linarith
  · have : (1 : K) / ((2 : Int) : K) < 1 := by norm_num
    linarith

theorem nearK_add_int (fl : K → Int) (hfl : ∀ x, fl x = ⌊x⌋) (x : K) (n : Int) :
    nearK fl (x + (n : K)) = nearK fl x + n := by
  unfold nearK
  rw [hfl, hfl]
  have e : x + (n : K) + 1 / ((2 : Int) : K) = (x + 1 / ((2 : Int) : K)) + (n : K) := by ring
  rw [e, Int.floor_add_intCast]

/-- an atom exactly on (a periodic image of) the site passes the test at every tolerance `atol ≥ 0`. -/
theorem onSite_imp_onSiteTol (fl : K → Int) (hfl : ∀ x, fl x = ⌊x⌋) (b : Box K) (atol2 : K) (h0 : 0 ≤ atol2)
    (site : V3 K) (a : Atom K) (h : onSite fl b site a = true) : onSiteTol fl b atol2 site a = true := by
  unfold onSite at h
  simp only [Bool.and_eq_true] at h
  obtain ⟨⟨hx, hy⟩, hz⟩ := h
  obtain ⟨nx, hx⟩ := (isIntK_iff fl hfl _).mp hx
  obtain ⟨ny, hy⟩ := (isIntK_iff fl hfl _).mp hy
  obtain ⟨nz, hz⟩ := (isIntK_iff fl hfl _).mp hz
  unfold onSiteTol
  simp only [hx, hy, hz, nearK_int fl hfl, sub_self, decide_eq_true_eq]
  have : V3.normSq (M3.vecMul (⟨0, 0, 0⟩ : V3 K) b.vects) = 0 := by
    simp [V3.normSq, V3.dot, M3.vecMul]
  rw [this]; exact h0

theorem normSq_le_zero (v : V3 K) (h : V3.normSq v ≤ 0) : v = ⟨0, 0, 0⟩ := by
  obtain ⟨x, y, z⟩ := v
  simp only [V3.normSq, V3.dot] at h
  have hx : x = 0 := by nlinarith [mul_self_nonneg x, mul_self_nonneg y, mul_self_nonneg z]
  have hy : y = 0 := by nlinarith [mul_self_nonneg x, mul_self_nonneg y, mul_self_nonneg z]
  have hz : z = 0 := by nlinarith [mul_self_nonneg x, mul_self_nonneg y, mul_self_nonneg z]
  rw [hx, hy, hz]

/-- with tolerance 0 the test is the exact one: the atom is on a periodic image of the site. -/
theorem onSiteTol_zero (fl : K → Int) (hfl : ∀ x, fl x = ⌊x⌋) (b : Box K) (hV : M3.det b.vects ≠ 0) (site : V3 K)
    (a : Atom K) : onSiteTol fl b 0 site a = onSite fl b site a := by
  rw [Bool.eq_iff_iff]
  constructor
  · intro h
    unfold onSiteTol at h
    simp only [decide_eq_true_eq] at h
    have h0 := normSq_le_zero _ h
    have hd := vecMul_inv_cancel b.vects hV
      (⟨(b.cartToRel a.pos - site).x - ((nearK fl (b.cartToRel a.pos - site).x : Int) : K),
        (b.cartToRel a.pos - site).y - ((nearK fl (b.cartToRel a.pos - site).y : Int) : K),
        (b.cartToRel a.pos - site).z - ((nearK fl (b.cartToRel a.pos - site).z : Int) : K)⟩ : V3 K)
    rw [h0] at hd
    have z0 : M3.vecMul (⟨0, 0, 0⟩ : V3 K) (M3.inv b.vects) = ⟨0, 0, 0⟩ := by
      ext <;> simp [M3.vecMul]
    rw [z0] at hd
    have hx := congrArg V3.x hd
    have hy := congrArg V3.y hd
    have hz := congrArg V3.z hd
    simp only at hx hy hz
    unfold onSite
    simp only [Bool.and_eq_true]
    refine ⟨⟨(isIntK_iff fl hfl _).mpr ⟨nearK fl (b.cartToRel a.pos - site).x, by linarith⟩,
      (isIntK_iff fl hfl _).mpr ⟨nearK fl (b.cartToRel a.pos - site).y, by linarith⟩⟩,
      (isIntK_iff fl hfl _).mpr ⟨nearK fl (b.cartToRel a.pos - site).z, by linarith⟩⟩
  · exact onSite_imp_onSiteTol fl hfl b 0 le_rfl site a

/-- the test of round 2 (`checkBasis`: exact, periodic, no family test) is the instance `atol = 0`,
    `check_family=False` of the test with the caller's arguments: what was proved about it (`checkBasis_periodic`,
    `checkBasis_refuses_mixed`) is about this function. -/
theorem checkSettingBasis_zero (fl : K → Int) (hfl : ∀ x, fl x = ⌊x⌋) (fam : Option Family) (b : Box K)
    (hV : M3.det b.vects ≠ 0) (setting : String) (atoms : List (Atom K)) :
    checkSettingBasis fl fam b 0 false setting atoms = checkBasis fl b setting atoms := by
  have hf : onSiteTol fl b 0 = onSite fl b := by
    funext site a
    exact onSiteTol_zero fl hfl b hV site a
  unfold checkSettingBasis checkBasis
  cases settingSites (K := K) setting with
  | none => rfl
  | some sites => simp [hf, checkSites_eq_by]

/-- a looser tolerance accepts whatever a tighter one accepts. -/
theorem onSiteTol_mono (fl : K → Int) (b : Box K) (t t' : K) (htt : t ≤ t') (site : V3 K) (a : Atom K)
    (h : onSiteTol fl b t site a = true) : onSiteTol fl b t' site a = true := by
  unfold onSiteTol at h ⊢
  simp only [decide_eq_true_eq] at h ⊢
  exact le_trans h htt

/-- `atoms.filter (onSiteTol … t)` only grows with the tolerance: the atoms found with the tight tolerance are among
    those found with the loose one. -/
theorem filter_onSiteTol_mono (fl : K → Int) (b : Box K) (t t' : K) (htt : t ≤ t') (site : V3 K) (atoms : List (Atom K)) :
    ∀ a ∈ atoms.filter (onSiteTol fl b t site), a ∈ atoms.filter (onSiteTol fl b t' site) := by
  intro a ha
  rw [List.mem_filter] at ha ⊢
  exact ⟨ha.1, onSiteTol_mono fl b t t' htt site a ha.2⟩

/-- the test is periodic: an atom listed in another periodic image (moved by whole cell vectors: on the far face, in a
    neighbouring cell) gives the same verdict at every tolerance. -/
theorem onSiteTol_image (fl : K → Int) (hfl : ∀ x, fl x = ⌊x⌋) (b : Box K) (hV : M3.det b.vects ≠ 0) (atol2 : K)
    (site : V3 K) (a : Atom K) (n : V3 Int) :
    onSiteTol fl b atol2 site { a with pos := a.pos + M3.vecMul (castV n) b.vects } = onSiteTol fl b atol2 site a := by
  unfold onSiteTol
  simp only [cartToRel_add_lattice b hV]
  have ex : ((b.cartToRel a.pos + castV n) - site).x = (b.cartToRel a.pos - site).x + (n.x : K) := by
    simp only [V3.add_def, V3.sub_def, castV]; ring
  have ey : ((b.cartToRel a.pos + castV n) - site).y = (b.cartToRel a.pos - site).y + (n.y : K) := by
    simp only [V3.add_def, V3.sub_def, castV]; ring
  have ez : ((b.cartToRel a.pos + castV n) - site).z = (b.cartToRel a.pos - site).z + (n.z : K) := by
    simp only [V3.add_def, V3.sub_def, castV]; ring
  rw [ex, ey, ez, nearK_add_int fl hfl, nearK_add_int fl hfl, nearK_add_int fl hfl]
  have r : ∀ (u : K) (m k : Int), u + (k : K) - (((m + k : Int)) : K) = u - (m : K) := by
    intro u m k; push_cast; ring
  simp only [r]

end

/-! ### which setting the conversion works with -/

/-- `check_basis=False`: the caller's word is taken. -/
theorem resolveSetting_unchecked (chk : String → Option (Option Bool)) (s : String) :
    resolveSetting chk false s = some s := by simp [resolveSetting]

/-- an explicit setting is taken iff it passes the test (at the caller's tolerances: `chk`). -/
theorem resolveSetting_explicit (chk : String → Option (Option Bool)) (s : String) (hs : s ≠ "t") :
    resolveSetting chk true s = if chk s = some (some true) then some s else none := by
  unfold resolveSetting
  have : (s != "t") = true := by simpa using hs
  simp only [Bool.not_true, Bool.false_eq_true, if_false, this, if_true]
  split <;> simp_all

/-- `'t'` on a cell that passes the `t2` test and not the `t1` test - BOTH at the caller's tolerances - is `t2`. -/
theorem resolveSetting_t2 (chk : String → Option (Option Bool))
    (h1 : chk "t1" = some (some false)) (h2 : chk "t2" = some (some true)) :
    resolveSetting chk true "t" = some "t2" := by
  simp [resolveSetting, h1, h2]

/-- `'t'` on a cell that passes the `t1` test is `t1` (provided the `t2` test does not raise). -/
theorem resolveSetting_t1 (chk : String → Option (Option Bool)) (t2 : Bool)
    (h1 : chk "t1" = some (some true)) (h2 : chk "t2" = some (some t2)) :
    resolveSetting chk true "t" = some "t1" := by
  simp [resolveSetting, h1, h2]

/-- `'t'` is refused iff neither passes (or one of the tests raises). -/
theorem resolveSetting_t_refuses (chk : String → Option (Option Bool))
    (h1 : chk "t1" = some (some false)) (h2 : chk "t2" = some (some false)) :
    resolveSetting chk true "t" = none := by
  simp [resolveSetting, h1, h2]

/-! non-vacuity: `Box.orthorhombic(3, 4, 4)` and `Box.monoclinic(3, 4, 4, 100)` with the numpy default tolerances;
    an R-centred cell whose atoms sit 1/1000000 of a cell off the reverse-setting sites resolves `'t'` to `t2` with
    `atol = 1e-4` and is refused with `atol = 1e-8`. -/
example : identifyFamily (closeK (1 / 100000 : ℚ) (1 / 100000000)) 90 120 ⟨3, 4, 4, 90, 90, 90⟩ = some .orthorhombic := by
  decide +kernel
example : identifyFamily (closeK (1 / 100000 : ℚ) (1 / 100000000)) 90 120 ⟨3, 4, 4, 90, 100, 90⟩ = some .monoclinic := by
  decide +kernel
example : identifyFamily (closeK (1 / 100000 : ℚ) (1 / 100000000)) 90 120 ⟨4, 3, 4, 90, 90, 90⟩ = none := by
  decide +kernel

def exT2 : List (Atom ℚ) := [⟨1, ⟨0, 0, 0⟩, []⟩, ⟨1, ⟨333333 / 1000000, 666667 / 1000000, 333333 / 1000000⟩, []⟩,
  ⟨1, ⟨666667 / 1000000, 333333 / 1000000, 666667 / 1000000⟩, []⟩]

example : resolveSetting (fun s => checkSettingBasis Rat.floor (some .hexagonal) (⟨M3.one, ⟨0, 0, 0⟩⟩ : Box ℚ)
    ((1 / 10000) ^ 2) true s exT2) true "t" = some "t2" := by decide +kernel
example : resolveSetting (fun s => checkSettingBasis Rat.floor (some .hexagonal) (⟨M3.one, ⟨0, 0, 0⟩⟩ : Box ℚ)
    ((1 / 100000000) ^ 2) true s exT2) true "t" = none := by decide +kernel

end Atomman.C04
