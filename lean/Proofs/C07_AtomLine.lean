/-
  C07 — helper lemmas (line level): an independent reader that knows the LAMMPS layout of the atom_style reads one
  written `Atoms` line back: id, type, position, image flags, every field.
-/
import Proofs.C07_Layout

namespace Atomman.C07
open Atomman
set_option linter.unusedSimpArgs false
set_option linter.unusedVariables false

/-! ### one `Atoms` line -/

def getField (layout : Layout) (vals : List ℚ) (name : String) : Option ℚ := do
  let i ← fieldIdx layout name
  vals[i]?

/-- the cells of a row fit a layout: where LAMMPS expects an integer, an integer is written. -/
def Fits (layout : Layout) (cells : List Cell) : Prop :=
  List.Forall₂ (fun fl c => isIntField fl.1 = true → ∃ i, c = Cell.int i) layout cells

def flagToks (o : Option (V3 Int)) : List Cell :=
  match o with
  | some v => [.int v.x, .int v.y, .int v.z]
  | none => []

theorem zip_mapM_fits (f : Fmt) (layout : Layout) (cells : List Cell) (hfit : Fits layout cells)
    (g : (String × Option String) × Tok → Option ℚ)
    (hg : ∀ fl t, g (fl, t) = if isIntField fl.1 then (parseInt? t).map fun i => (i : ℚ) else parseNum? t) :
    (List.zip layout (cells.map (Cell.tok f))).mapM g = some (cells.map (Cell.val f)) := by
  induction hfit with
  | nil => rfl
  | @cons fl c _ _ h1 _ ih =>
    simp only [List.map_cons, List.zip_cons_cons, List.mapM_cons, ih, hg]
    by_cases hi : isIntField fl.1 = true
    · obtain ⟨i, rfl⟩ := h1 hi
      simp [hi, Cell.tok, Cell.val, parseInt_intTok]
    · simp [hi, parseNum_cellTok]

theorem readAtomLine_cells (f : Fmt) (layout : Layout) (cells : List Cell) (o : Option (V3 Int))
    (hfit : Fits layout cells) (idv tyv x y z : ℚ)
    (hid : getField layout (cells.map (Cell.val f)) "atom-ID" = some idv)
    (hty : getField layout (cells.map (Cell.val f)) "atom-type" = some tyv)
    (hx : getField layout (cells.map (Cell.val f)) "x" = some x)
    (hy : getField layout (cells.map (Cell.val f)) "y" = some y)
    (hz : getField layout (cells.map (Cell.val f)) "z" = some z) :
    readAtomLine layout ((cells ++ flagToks o).map (Cell.tok f)) =
      some { id := idv.floor, type := tyv.floor, pos := ⟨x, y, z⟩, image := o.getD ⟨0, 0, 0⟩,
             fields := cells.map (Cell.val f) } := by
  have hk : cells.length = layout.length := hfit.length_eq.symm
  have htake : ((cells ++ flagToks o).map (Cell.tok f)).take layout.length = cells.map (Cell.tok f) := by
    rw [List.map_append, List.take_append_of_le_length (by simp [hk])]
    apply List.take_of_length_le; simp [hk]
  have hdrop : ((cells ++ flagToks o).map (Cell.tok f)).drop layout.length = (flagToks o).map (Cell.tok f) := by
    rw [List.map_append, ← hk]
    have : cells.length = (cells.map (Cell.tok f)).length := by simp
    rw [this, List.drop_left]
  unfold getField at hid hty hx hy hz
  unfold readAtomLine
  simp only [htake, hdrop]
  rw [zip_mapM_fits f layout cells hfit _ (fun _ _ => rfl)]
  cases o with
  | none =>
    simp only [flagToks, List.append_nil, List.length_map, hk, ne_eq, not_true_eq_false, false_and, if_false,
      List.map_nil, List.mapM_nil]
    simp only [Option.bind_eq_bind, bind, pure, List.getElem?_map] at hid hty hx hy hz ⊢
    simp [hid, hty, hx, hy, hz]
  | some v =>
    simp only [flagToks, List.length_map, List.length_append, List.length_cons, List.length_nil, hk, ne_eq,
      List.map_cons, List.map_nil, Cell.tok]
    simp only [Option.bind_eq_bind, bind, pure, List.getElem?_map] at hid hty hx hy hz ⊢
    simp [hid, hty, hx, hy, hz, parseInt_intTok]

/-! ### looking a field up by name -/

theorem getField_cons_eq (a : String × Option String) (B : Layout) (v : ℚ) (VB : List ℚ) :
    getField (a :: B) (v :: VB) a.1 = some v := by
  simp [getField, fieldIdx, List.findIdx_cons]

theorem getField_cons_ne (a : String × Option String) (B : Layout) (v : ℚ) (VB : List ℚ) (name : String)
    (h : a.1 ≠ name) : getField (a :: B) (v :: VB) name = getField B VB name := by
  simp only [getField, fieldIdx, List.findIdx_cons, h, decide_false, cond_false, List.length_cons,
    Nat.add_lt_add_iff_right, Option.bind_eq_bind]
  split <;> simp

theorem getField_append_right (A B : Layout) (VA VB : List ℚ) (name : String) (hlen : VA.length = A.length)
    (h : name ∉ A.map (·.1)) : getField (A ++ B) (VA ++ VB) name = getField B VB name := by
  induction A generalizing VA with
  | nil =>
    have : VA = [] := by simpa using hlen
    subst this; rfl
  | cons a as ih =>
    cases VA with
    | nil => simp at hlen
    | cons v vs =>
      simp only [List.map_cons, List.mem_cons, not_or] at h
      rw [List.cons_append, List.cons_append, getField_cons_ne _ _ _ _ _ (fun e => h.1 e.symm)]
      exact ih vs (by simpa using hlen) h.2

/-! ### the columns every atom style has -/

theorem colLayout_a_id {c : ColSpec} (hp : c.prop = "a_id") {fs : Layout} (h : colLayout c = some fs) :
    fs = [("atom-ID", specKind c.unit)] ∧ c.names.length = 1 := by
  unfold colLayout at h
  rw [hp] at h
  have : propFields.find? (·.1 = "a_id") = some ("a_id", ["atom-ID"]) := by decide +kernel
  rw [this] at h
  simp only at h
  split at h
  · rename_i hl
    injection h with h
    exact ⟨h.symm, hl.symm⟩
  · cases h

theorem colLayout_atype {c : ColSpec} (hp : c.prop = "atype") {fs : Layout} (h : colLayout c = some fs) :
    fs = [("atom-type", specKind c.unit)] ∧ c.names.length = 1 := by
  unfold colLayout at h
  rw [hp] at h
  have : propFields.find? (·.1 = "atype") = some ("atype", ["atom-type"]) := by decide +kernel
  rw [this] at h
  simp only at h
  split at h
  · rename_i hl
    injection h with h
    exact ⟨h.symm, hl.symm⟩
  · cases h

theorem colLayout_pos {c : ColSpec} (hp : c.prop = "pos") {fs : Layout} (h : colLayout c = some fs) :
    fs = [("x", specKind c.unit), ("y", specKind c.unit), ("z", specKind c.unit)] := by
  unfold colLayout at h
  rw [hp] at h
  have : propFields.find? (·.1 = "pos") = some ("pos", ["x", "y", "z"]) := by decide +kernel
  rw [this] at h
  simp only at h
  split at h
  · injection h with h
    exact h.symm
  · cases h

/-- the first column with a given property. -/
def FirstCol (cols : List ColSpec) (c : ColSpec) : Prop :=
  ∃ pre post, cols = pre ++ c :: post ∧ ∀ d ∈ pre, d.prop ≠ c.prop

theorem firstCol_of_find? {cols : List ColSpec} {p : String} {c : ColSpec}
    (h : cols.find? (·.prop = p) = some c) : FirstCol cols c ∧ c.prop = p := by
  obtain ⟨hp, pre, post, hsplit, hpre⟩ := List.find?_eq_some_iff_append.mp h
  have hp : c.prop = p := by simpa using hp
  refine ⟨⟨pre, post, hsplit, ?_⟩, hp⟩
  intro d hd
  have := hpre d hd
  rw [hp]
  simpa using this

theorem firstCol_append {cols : List ColSpec} {c : ColSpec} (h : FirstCol cols c) (ext : List ColSpec) :
    FirstCol (cols ++ ext) c := by
  obtain ⟨pre, post, hsplit, hpre⟩ := h
  exact ⟨pre, post ++ ext, by rw [hsplit]; simp, hpre⟩

/-- the three columns every style carries: `a_id`, `atype`, and `pos` in length units. -/
def CoreCols (cols : List ColSpec) : Prop :=
  (∃ c, FirstCol cols c ∧ c.prop = "a_id") ∧ (∃ c, FirstCol cols c ∧ c.prop = "atype") ∧
  (∃ c, FirstCol cols c ∧ c.prop = "pos" ∧ c.unit = .kind "length")

theorem coreCols_append {cols : List ColSpec} (h : CoreCols cols) (ext : List ColSpec) : CoreCols (cols ++ ext) := by
  obtain ⟨⟨a, ha, ha'⟩, ⟨b, hb, hb'⟩, ⟨c, hc, hc'⟩⟩ := h
  exact ⟨⟨a, firstCol_append ha ext, ha'⟩, ⟨b, firstCol_append hb ext, hb'⟩, ⟨c, firstCol_append hc ext, hc'⟩⟩

theorem base_coreCols : ∀ e ∈ Gen.AtomStyles.atomStyles, e.2 ≠ [] → CoreCols (e.2.map ofGenCol) := by
  have h : ∀ e ∈ Gen.AtomStyles.atomStyles, e.2 ≠ [] →
      (((e.2.map ofGenCol).find? (·.prop = "a_id")).isSome = true ∧
       ((e.2.map ofGenCol).find? (·.prop = "atype")).isSome = true ∧
       ((e.2.map ofGenCol).find? (·.prop = "pos")).map (·.unit) = some (.kind "length")) := by decide +kernel
  intro e he hne
  obtain ⟨h1, h2, h3⟩ := h e he hne
  obtain ⟨a, ha⟩ := Option.isSome_iff_exists.mp h1
  obtain ⟨b, hb⟩ := Option.isSome_iff_exists.mp h2
  cases hc : (e.2.map ofGenCol).find? (·.prop = "pos") with
  | none => rw [hc] at h3; cases h3
  | some c =>
    rw [hc] at h3
    simp only [Option.map_some, Option.some.injEq] at h3
    exact ⟨⟨a, firstCol_of_find? ha⟩, ⟨b, firstCol_of_find? hb⟩, ⟨c, (firstCol_of_find? hc).1, (firstCol_of_find? hc).2, h3⟩⟩

theorem styleCols_cases {tblC : List (String × List Gen.AtomStyles.Col)} (style : String) (cols : List ColSpec)
    (h : styleCols tblC style = some cols) :
    (∃ w, lookupStyle tblC w = some cols) ∨
    (∃ (subs : List String) (base : List ColSpec), lookupStyle tblC "atomic" = some base ∧
      subs.foldlM (fun acc sub => do
          let sc ← lookupStyle tblC sub
          pure (acc ++ sc.filter fun c => !(acc.any (·.prop = c.prop)))) base = some cols) := by
  unfold styleCols at h
  generalize styleWords style = ws at h
  match ws with
  | [] => simp at h
  | w :: rest =>
    by_cases hw : w = "hybrid"
    · subst hw
      simp only [hybridCols] at h
      cases hb : lookupStyle tblC "atomic" with
      | none => rw [hb] at h; simp at h
      | some base =>
        rw [hb] at h
        simp only [Option.bind_eq_bind, Option.bind_some] at h
        exact Or.inr ⟨rest, base, rfl, h⟩
    · cases rest with
      | nil =>
        left
        refine ⟨w, ?_⟩
        split at h
        · rename_i heq; injection heq with h1 _; exact absurd h1 hw
        · rename_i heq; injection heq with h1 _; rw [h1]; exact h
        · rename_i h1 h2; exact absurd rfl (h2 w)
      | cons w2 r2 =>
        exfalso
        split at h
        · rename_i heq; injection heq with h1 _; exact hw h1
        · rename_i heq; injection heq with _ h2; cases h2
        · cases h

theorem coreCols_of_atomCols (style : String) (cols : List ColSpec) (h : atomCols style = some cols) :
    CoreCols cols := by
  rcases styleCols_cases style cols h with ⟨w, hw⟩ | ⟨subs, base, hb, hf⟩
  · obtain ⟨e, he, _, hne, rfl⟩ := lookupStyle_some hw
    exact base_coreCols e he hne
  · obtain ⟨e, he, _, hne, rfl⟩ := lookupStyle_some hb
    obtain ⟨L0, _, hL0⟩ := atom_tables_agree e he hne
    obtain ⟨_, _, _, ext, hext⟩ := hybrid_fold_agree atom_tables_agree subs _ L0 hL0 cols hf
    rw [hext]
    exact coreCols_append (base_coreCols e he hne) ext

/-! ### the value of a field of the first column with a given property -/

theorem colsLayout_cons_some {c : ColSpec} {cs : List ColSpec} {L : Layout} (h : colsLayout (c :: cs) = some L) :
    ∃ fs L', colLayout c = some fs ∧ colsLayout cs = some L' ∧ L = fs ++ L' := by
  rw [colsLayout_cons] at h
  cases hc : colLayout c with
  | none => rw [hc] at h; cases h
  | some a =>
    cases hcs : colsLayout cs with
    | none => rw [hc, hcs] at h; cases h
    | some b =>
      rw [hc, hcs] at h
      simp only [Option.bind_some, Option.map_some, Option.some.injEq] at h
      exact ⟨a, b, rfl, rfl, h.symm⟩

/-- cells of each column are as many as its fields. -/
def LenOk (cols : List ColSpec) (cellss : List (List Cell)) : Prop :=
  List.Forall₂ (fun c cs => ∀ fs, colLayout c = some fs → cs.length = fs.length) cols cellss

theorem getField_firstCol (f : Fmt) (pre : List ColSpec) (c : ColSpec) (post : List ColSpec)
    (cellss : List (List Cell)) (L : Layout) (hL : colsLayout (pre ++ c :: post) = some L)
    (hlen : LenOk (pre ++ c :: post) cellss) (hpre : ∀ d ∈ pre, d.prop ≠ c.prop) :
    ∃ fs cc Lpost Vpost, colLayout c = some fs ∧ cellss[pre.length]? = some cc ∧ cc.length = fs.length ∧
      ∀ name ∈ fs.map (·.1), getField L (cellss.flatten.map (Cell.val f)) name
        = getField (fs ++ Lpost) (cc.map (Cell.val f) ++ Vpost) name := by
  induction pre generalizing cellss L with
  | nil =>
    simp only [List.nil_append] at hL hlen
    obtain ⟨fs, L', hfs, hL', rfl⟩ := colsLayout_cons_some hL
    cases hlen with
    | @cons _ cc _ cpost h1 h2 =>
      refine ⟨fs, cc, L', cpost.flatten.map (Cell.val f), hfs, by simp, h1 fs hfs, ?_⟩
      intro name _
      simp
  | cons d pre' ih =>
    simp only [List.cons_append] at hL hlen
    obtain ⟨fd, L', hfd, hL', rfl⟩ := colsLayout_cons_some hL
    cases hlen with
    | @cons _ cd _ crest h1 h2 =>
      obtain ⟨fs, cc, Lpost, Vpost, hfs, hcc, hcl, hget⟩ :=
        ih crest L' hL' h2 (fun x hx => hpre x (List.mem_cons_of_mem _ hx))
      refine ⟨fs, cc, Lpost, Vpost, hfs, by simpa using hcc, hcl, ?_⟩
      intro name hname
      rw [List.flatten_cons, List.map_append,
        getField_append_right _ _ _ _ _ (by simp [h1 fd hfd])
          (fun hmem => colLayout_disjoint hfs hfd (hpre d (by simp)).symm name hname hmem)]
      exact hget name hname

/-! ### integer fields -/

/-- atomman properties that fill an integer LAMMPS field (besides `a_id`, `atype`). -/
def intProps : List String := ["m_id", "bflag", "eflag", "lflag", "tflag", "m_template", "a_template", "espin", "e_id"]

/-- the integer-valued per-atom properties of the system are stored as integers. -/
def IntTyped (s : Sys) : Prop := ∀ col ∈ s.props, col.name ∈ intProps → col.isInt = true

theorem nonint_fields :
    ∀ e ∈ propFields, e.1 ∉ ("a_id" :: "atype" :: intProps) → ∀ n ∈ e.2, isIntField n = false := by
  decide +kernel

theorem intProps_not_special : ∀ p ∈ intProps, p ≠ "a_id" ∧ p ≠ "atom_id" ∧ p ≠ "atype" ∧ isPosLike p = false ∧
    p ≠ "spos" ∧ p ≠ "supos" := by decide +kernel

theorem fits_of_all_int (fs : Layout) (cs : List Cell) (hl : cs.length = fs.length) (h : ∀ c ∈ cs, ∃ i, c = Cell.int i) :
    Fits fs cs := by
  induction fs generalizing cs with
  | nil => have : cs = [] := by simpa using hl
           subst this; exact List.Forall₂.nil
  | cons a as ih =>
    cases cs with
    | nil => simp at hl
    | cons c cs' =>
      exact List.Forall₂.cons (fun _ => h c (by simp)) (ih cs' (by simpa using hl) (fun x hx => h x (List.mem_cons_of_mem _ hx)))

theorem fits_of_no_int (fs : Layout) (cs : List Cell) (hl : cs.length = fs.length)
    (h : ∀ n ∈ fs.map (·.1), isIntField n = false) : Fits fs cs := by
  induction fs generalizing cs with
  | nil => have : cs = [] := by simpa using hl
           subst this; exact List.Forall₂.nil
  | cons a as ih =>
    cases cs with
    | nil => simp at hl
    | cons c cs' =>
      refine List.Forall₂.cons (fun hi => ?_) (ih cs' (by simpa using hl) (fun x hx => h x (by simp at hx ⊢; tauto)))
      rw [h a.1 (by simp)] at hi; cases hi

theorem fits_append {A B : Layout} {ca cb : List Cell} (ha : Fits A ca) (hb : Fits B cb) : Fits (A ++ B) (ca ++ cb) := by
  induction ha with
  | nil => exact hb
  | cons h1 _ ih => exact List.Forall₂.cons h1 ih

theorem prop?_mem {s : Sys} {name : String} {col : Column} (h : s.prop? name = some col) :
    col ∈ s.props ∧ col.name = name := by
  unfold Sys.prop? at h
  exact ⟨List.mem_of_find?_eq_some h, by simpa using List.find?_some h⟩

/-- the cells of one column fit the fields it fills. -/
theorem fits_col (s : Sys) (u : Units) (ids : List Int) (pos : List (V3 ℚ)) (c : ColSpec) (k : Nat) (fs : Layout)
    (hfs : colLayout c = some fs) (hunit : c.prop ∈ intProps → c.unit = .none) (hs : IntTyped s)
    (cs : List Cell) (h : propCells s u ids pos c k = .ok cs) : Fits fs cs ∧ cs.length = fs.length := by
  obtain ⟨e, he, hnames, hfl⟩ := colLayout_names hfs
  obtain ⟨hem, he1⟩ := find?_propFields he
  have h1 : (c.prop = "a_id" ∨ c.prop = "atom_id" ∨ c.prop = "atype") → c.names.length = 1 := by
    rintro (hp | hp | hp)
    · exact (colLayout_a_id hp hfs).2
    · exfalso
      have : propFields.find? (·.1 = "atom_id") = none := by decide +kernel
      rw [hp, this] at he; cases he
    · exact (colLayout_atype hp hfs).2
  have hlen : cs.length = fs.length := by rw [hfl]; exact propCells_length s u ids pos c k h1 cs h
  refine ⟨?_, hlen⟩
  by_cases hid : c.prop = "a_id" ∨ c.prop = "atom_id"
  · obtain ⟨i, _, rfl⟩ := propCells_id s u ids pos c k hid cs h
    exact fits_of_all_int fs _ hlen (by simp)
  · by_cases hat : c.prop = "atype"
    · obtain ⟨i, _, rfl⟩ := propCells_atype s u ids pos c k hat cs h
      exact fits_of_all_int fs _ hlen (by simp)
    · by_cases hip : c.prop ∈ intProps
      · -- an integer property: unit none, stored as integers
        obtain ⟨_, _, _, hpl, hsp, hsup⟩ := intProps_not_special c.prop hip
        unfold propCells at h
        rw [if_neg hid, if_neg hat] at h
        simp only [hpl, Bool.false_eq_true, if_false, hunit hip] at h
        cases hp : s.prop? c.prop with
        | none => rw [hp] at h; cases h
        | some col =>
          rw [hp] at h
          simp only at h
          cases hv : col.vals[k]? with
          | none => rw [hv] at h; cases h
          | some v =>
            rw [hv] at h
            simp only [Option.map_some] at h
            split at h
            · cases h
            · rw [if_neg (by tauto)] at h
              obtain ⟨hmem, hname⟩ := prop?_mem hp
              have hint : col.isInt = true := hs col hmem (by rw [hname]; exact hip)
              simp only [hint, if_true, pure, Except.pure, Except.ok.injEq] at h
              subst h
              exact fits_of_all_int fs _ hlen (by simp)
      · apply fits_of_no_int fs cs hlen
        rw [hnames]
        apply nonint_fields e hem
        rw [he1]
        simp only [List.mem_cons, not_or]
        exact ⟨fun x => hid (Or.inl x), hat, by simpa [intProps] using hip⟩

theorem fold_from_table {tblC : List (String × List Gen.AtomStyles.Col)} (subs : List String)
    (accC cols : List ColSpec) (P : ColSpec → Prop)
    (htbl : ∀ e ∈ tblC, ∀ g ∈ e.2, P (ofGenCol g)) (hacc : ∀ c ∈ accC, P c)
    (h : subs.foldlM (fun acc sub => do
          let sc ← lookupStyle tblC sub
          pure (acc ++ sc.filter fun c => !(acc.any (·.prop = c.prop)))) accC = some cols) :
    ∀ c ∈ cols, P c := by
  induction subs generalizing accC with
  | nil =>
    simp only [List.foldlM_nil, pure, Option.some.injEq] at h
    subst h; exact hacc
  | cons sub rest ih =>
    rw [List.foldlM_cons] at h
    cases hl : lookupStyle tblC sub with
    | none => rw [hl] at h; simp at h
    | some sc =>
      rw [hl] at h
      simp only [Option.bind_eq_bind, Option.bind_some, pure] at h
      obtain ⟨e, he, _, _, rfl⟩ := lookupStyle_some hl
      apply ih _ _ h
      intro c hc
      rcases List.mem_append.mp hc with hc | hc
      · exact hacc c hc
      · obtain ⟨g, hg, rfl⟩ := List.mem_map.mp (List.mem_filter.mp hc).1
        exact htbl e he g hg

theorem styleCols_from_table {tblC : List (String × List Gen.AtomStyles.Col)} (P : ColSpec → Prop)
    (htbl : ∀ e ∈ tblC, ∀ g ∈ e.2, P (ofGenCol g)) (style : String) (cols : List ColSpec)
    (h : styleCols tblC style = some cols) : ∀ c ∈ cols, P c := by
  rcases styleCols_cases style cols h with ⟨w, hw⟩ | ⟨subs, base, hb, hf⟩
  · obtain ⟨e, he, _, _, rfl⟩ := lookupStyle_some hw
    intro c hc
    obtain ⟨g, hg, rfl⟩ := List.mem_map.mp hc
    exact htbl e he g hg
  · obtain ⟨e, he, _, _, rfl⟩ := lookupStyle_some hb
    apply fold_from_table subs _ cols P htbl _ hf
    intro c hc
    obtain ⟨g, hg, rfl⟩ := List.mem_map.mp hc
    exact htbl e he g hg

theorem atom_int_units : ∀ e ∈ Gen.AtomStyles.atomStyles, ∀ g ∈ e.2,
    ((ofGenCol g).prop ∈ intProps → (ofGenCol g).unit = .none) := by decide +kernel

theorem fits_cols (s : Sys) (u : Units) (ids : List Int) (pos : List (V3 ℚ)) (k : Nat) (hs : IntTyped s)
    (cols : List ColSpec) (L : Layout) (hL : colsLayout cols = some L)
    (hunit : ∀ c ∈ cols, c.prop ∈ intProps → c.unit = .none) (cellss : List (List Cell))
    (h : List.Forall₂ (fun c cs => propCells s u ids pos c k = .ok cs) cols cellss) :
    Fits L cellss.flatten ∧ LenOk cols cellss := by
  induction h generalizing L with
  | nil =>
    rw [colsLayout_nil] at hL; injection hL with hL; subst hL
    exact ⟨List.Forall₂.nil, List.Forall₂.nil⟩
  | @cons c cs cols' cellss' h1 _ ih =>
    obtain ⟨fs, L', hfs, hL', rfl⟩ := colsLayout_cons_some hL
    obtain ⟨hf, hl⟩ := fits_col s u ids pos c k fs hfs (hunit c (by simp)) hs cs h1
    obtain ⟨hf', hl'⟩ := ih L' hL' (fun x hx => hunit x (List.mem_cons_of_mem _ hx))
    refine ⟨fits_append hf hf', List.Forall₂.cons ?_ hl'⟩
    intro fs' hfs'
    rw [hfs] at hfs'; injection hfs' with hfs'; subst hfs'
    exact hl

theorem forall₂_at {α β : Type} {R : α → β → Prop} {l1 : List α} {l2 : List β} (h : List.Forall₂ R l1 l2)
    (pre : List α) (c : α) (post : List α) (hl1 : l1 = pre ++ c :: post) (cc : β)
    (h2 : l2[pre.length]? = some cc) : R c cc := by
  subst hl1
  induction pre generalizing l2 with
  | nil =>
    cases h with
    | cons h1 _ => simp at h2; subst h2; exact h1
  | cons d pre' ih =>
    cases h with
    | cons _ ht => exact ih (by simpa using h2) ht

theorem floor_intCast_rat (i : Int) : ((i : ℚ)).floor = i := Rat.floor_intCast i

/-- **one `Atoms` line**: an independent reader that knows the LAMMPS layout of the style gets the id, the type,
    the (unit-converted, rounded) position, the image flags and every other field of the row. -/
theorem atom_row (s : Sys) (u : Units) (ids : List Int) (pos : List (V3 ℚ)) (k : Nat) (f : Fmt) (hs : IntTyped s)
    (cols : List ColSpec) (L : Layout) (hL : colsLayout cols = some L)
    (hunit : ∀ c ∈ cols, c.prop ∈ intProps → c.unit = .none) (hcore : CoreCols cols)
    (cellss : List (List Cell))
    (h : List.Forall₂ (fun c cs => propCells s u ids pos c k = .ok cs) cols cellss) (o : Option (V3 Int)) :
    ∃ i t p lf, ids[k]? = some i ∧ s.atype[k]? = some t ∧ pos[k]? = some p ∧ u.factor? "length" = some lf ∧
      readAtomLine L ((cellss.flatten ++ flagToks o).map (Cell.tok f)) =
        some { id := i, type := t, pos := v3map (fmtVal f) (v3map (divBy lf) p), image := o.getD ⟨0, 0, 0⟩,
               fields := cellss.flatten.map (Cell.val f) } := by
  obtain ⟨hfit, hlen⟩ := fits_cols s u ids pos k hs cols L hL hunit cellss h
  obtain ⟨⟨ca, ⟨prea, posta, hsa, hprea⟩, hpa⟩, ⟨ct, ⟨pret, postt, hst, hpret⟩, hpt⟩,
    ⟨cp, ⟨prep, postp, hsp, hprep⟩, hpp, hup⟩⟩ := hcore
  -- id
  obtain ⟨fsa, cca, La, Va, hfsa, hcca, _, hga⟩ := getField_firstCol f prea ca posta cellss L (hsa ▸ hL) (hsa ▸ hlen) hprea
  obtain ⟨i, hi, rfl⟩ := propCells_id s u ids pos ca k (Or.inl hpa) cca (forall₂_at h prea ca posta hsa cca hcca)
  obtain ⟨rfl, _⟩ := colLayout_a_id hpa hfsa
  have hid := hga "atom-ID" (by simp)
  rw [show (([("atom-ID", specKind ca.unit)] : Layout) ++ La) = ("atom-ID", specKind ca.unit) :: La from rfl,
    show ([Cell.int i].map (Cell.val f) ++ Va) = (i : ℚ) :: Va from rfl,
    getField_cons_eq ("atom-ID", specKind ca.unit)] at hid
  -- type
  obtain ⟨fst, cct, Lt, Vt, hfst, hcct, _, hgt⟩ := getField_firstCol f pret ct postt cellss L (hst ▸ hL) (hst ▸ hlen) hpret
  obtain ⟨t, ht, rfl⟩ := propCells_atype s u ids pos ct k hpt cct (forall₂_at h pret ct postt hst cct hcct)
  obtain ⟨rfl, _⟩ := colLayout_atype hpt hfst
  have hty := hgt "atom-type" (by simp)
  rw [show (([("atom-type", specKind ct.unit)] : Layout) ++ Lt) = ("atom-type", specKind ct.unit) :: Lt from rfl,
    show ([Cell.int t].map (Cell.val f) ++ Vt) = (t : ℚ) :: Vt from rfl,
    getField_cons_eq ("atom-type", specKind ct.unit)] at hty
  -- position
  obtain ⟨fsp, ccp, Lp, Vp, hfsp, hccp, _, hgp⟩ := getField_firstCol f prep cp postp cellss L (hsp ▸ hL) (hsp ▸ hlen) hprep
  obtain ⟨p, lf, hp, hlf, rfl⟩ := propCells_pos s u ids pos cp k hpp hup ccp (forall₂_at h prep cp postp hsp ccp hccp)
  have hfp := colLayout_pos hpp hfsp
  subst hfp
  have hx := hgp "x" (by simp)
  have hy := hgp "y" (by simp)
  have hz := hgp "z" (by simp)
  simp only [List.cons_append, List.nil_append, List.map_cons, List.map_nil, Cell.val] at hx hy hz
  rw [getField_cons_eq ("x", specKind cp.unit)] at hx
  have nxy : ("x", specKind cp.unit).1 ≠ "y" := by simp
  have nxz : ("x", specKind cp.unit).1 ≠ "z" := by simp
  have nyz : ("y", specKind cp.unit).1 ≠ "z" := by simp
  rw [getField_cons_ne _ _ _ _ _ nxy, getField_cons_eq ("y", specKind cp.unit)] at hy
  rw [getField_cons_ne _ _ _ _ _ nxz, getField_cons_ne _ _ _ _ _ nyz,
    getField_cons_eq ("z", specKind cp.unit)] at hz
  refine ⟨i, t, p, lf, hi, ht, hp, hlf, ?_⟩
  rw [readAtomLine_cells f L cellss.flatten o hfit _ _ _ _ _ hid hty hx hy hz]
  simp [floor_intCast_rat, v3map]

end Atomman.C07
