/-
  C18 — helper lemmas: component simp lemmas, finite sums `sumTo` / `lsum`, min/max of lists, the
  selection window of `GammaSurface.fit`, wrap ranges, linear-solve identities.
-/
import Atomman.C18
import Mathlib.Tactic.Ring
import Mathlib.Tactic.Linarith
import Mathlib.Tactic.FieldSimp
import Mathlib.Tactic.Positivity
import Mathlib.Tactic.NormNum
import Mathlib.Algebra.Order.Field.Basic
import Mathlib.Algebra.Order.Floor.Ring
import Mathlib.Tactic.LinearCombination

namespace Atomman.C18
open Atomman
set_option linter.unusedSectionVars false
set_option linter.unusedSimpArgs false
set_option linter.unusedVariables false

section comps
variable {K : Type}
@[simp] theorem add_x [Add K] (a b : V3 K) : (a + b).x = a.x + b.x := rfl
@[simp] theorem add_y [Add K] (a b : V3 K) : (a + b).y = a.y + b.y := rfl
@[simp] theorem add_z [Add K] (a b : V3 K) : (a + b).z = a.z + b.z := rfl
@[simp] theorem sub_x [Sub K] (a b : V3 K) : (a - b).x = a.x - b.x := rfl
@[simp] theorem sub_y [Sub K] (a b : V3 K) : (a - b).y = a.y - b.y := rfl
@[simp] theorem sub_z [Sub K] (a b : V3 K) : (a - b).z = a.z - b.z := rfl
@[simp] theorem neg_x [Neg K] (a : V3 K) : (-a).x = -a.x := rfl
@[simp] theorem neg_y [Neg K] (a : V3 K) : (-a).y = -a.y := rfl
@[simp] theorem neg_z [Neg K] (a : V3 K) : (-a).z = -a.z := rfl
end comps

variable {K : Type} [Field K] [LinearOrder K] [IsStrictOrderedRing K]

/-! ### constants -/

theorem two_eq : (two : K) = 2 := by simp [two]
theorem tolA_pos : (0 : K) < tolA := by unfold tolA; positivity
theorem tolR_pos : (0 : K) < tolR := by unfold tolR; positivity
theorem tolA_eq : (tolA : K) = 1 / 100000000 := by simp [tolA]
theorem tolR_eq : (tolR : K) = 1 / 100000 := by simp [tolR]

theorem absK_eq (a : K) : absK a = |a| := by
  unfold absK
  split_ifs with h
  · exact (abs_of_neg h).symm
  · exact (abs_of_nonneg (not_lt.mp h)).symm

theorem isclose_iff (a b : K) : isclose a b = true ↔ |a - b| ≤ tolA + tolR * |b| := by
  simp [isclose, absK_eq]

/-! ### finite sums -/

theorem sumTo_congr (n : Nat) (f g : Nat → K) (h : ∀ i, i < n → f i = g i) : sumTo n f = sumTo n g := by
  induction n with
  | zero => rfl
  | succ n ih =>
    simp only [sumTo]
    rw [ih (fun i hi => h i (Nat.lt_succ_of_lt hi)), h n (Nat.lt_succ_self n)]

theorem sumTo_add (n : Nat) (f g : Nat → K) : sumTo n (fun i => f i + g i) = sumTo n f + sumTo n g := by
  induction n with
  | zero => simp [sumTo]
  | succ n ih => simp only [sumTo, ih]; ring

theorem sumTo_mul_left (n : Nat) (c : K) (f : Nat → K) : sumTo n (fun i => c * f i) = c * sumTo n f := by
  induction n with
  | zero => simp [sumTo]
  | succ n ih => simp only [sumTo, ih]; ring

theorem sumTo_div (n : Nat) (c : K) (f : Nat → K) : sumTo n (fun i => f i / c) = sumTo n f / c := by
  induction n with
  | zero => simp [sumTo]
  | succ n ih => simp only [sumTo, ih]; ring

theorem sumTo_zero (n : Nat) : sumTo n (fun _ => (0 : K)) = 0 := by
  induction n with
  | zero => rfl
  | succ n ih => simp [sumTo, ih]

theorem sumTo_comm (n m : Nat) (f : Nat → Nat → K) :
    sumTo n (fun i => sumTo m (fun j => f i j)) = sumTo m (fun j => sumTo n (fun i => f i j)) := by
  induction n with
  | zero => simp [sumTo, sumTo_zero]
  | succ n ih => simp only [sumTo, ih, ← sumTo_add]

/-! ### min / max of a list -/

theorem minOf_spec : ∀ (l : List K) (m : K), minOf l = some m → m ∈ l ∧ ∀ v ∈ l, m ≤ v
  | [], m, h => by simp [minOf] at h
  | a :: l, m, h => by
    unfold minOf at h
    cases hm : minOf l with
    | none =>
      rw [hm] at h
      have hl : l = [] := by
        cases l with
        | nil => rfl
        | cons b t =>
          unfold minOf at hm
          cases h2 : minOf t <;> simp [h2] at hm
      simp only [Option.some.injEq] at h
      subst h; subst hl
      simp
    | some m' =>
      rw [hm] at h
      simp only [Option.some.injEq] at h
      obtain ⟨hmem, hle⟩ := minOf_spec l m' hm
      by_cases hlt : a < m'
      · rw [if_pos hlt] at h; subst h
        refine ⟨List.mem_cons_self, ?_⟩
        intro v hv
        rcases List.mem_cons.mp hv with rfl | hv
        · exact le_refl _
        · exact le_trans (le_of_lt hlt) (hle v hv)
      · rw [if_neg hlt] at h; subst h
        refine ⟨List.mem_cons_of_mem _ hmem, ?_⟩
        intro v hv
        rcases List.mem_cons.mp hv with rfl | hv
        · exact not_lt.mp hlt
        · exact hle v hv

theorem maxOf_spec : ∀ (l : List K) (m : K), maxOf l = some m → m ∈ l ∧ ∀ v ∈ l, v ≤ m
  | [], m, h => by simp [maxOf] at h
  | a :: l, m, h => by
    unfold maxOf at h
    cases hm : maxOf l with
    | none =>
      rw [hm] at h
      have hl : l = [] := by
        cases l with
        | nil => rfl
        | cons b t =>
          unfold maxOf at hm
          cases h2 : maxOf t <;> simp [h2] at hm
      simp only [Option.some.injEq] at h
      subst h; subst hl
      simp
    | some m' =>
      rw [hm] at h
      simp only [Option.some.injEq] at h
      obtain ⟨hmem, hle⟩ := maxOf_spec l m' hm
      by_cases hlt : m' < a
      · rw [if_pos hlt] at h; subst h
        refine ⟨List.mem_cons_self, ?_⟩
        intro v hv
        rcases List.mem_cons.mp hv with rfl | hv
        · exact le_refl _
        · exact le_trans (hle v hv) (le_of_lt hlt)
      · rw [if_neg hlt] at h; subst h
        refine ⟨List.mem_cons_of_mem _ hmem, ?_⟩
        intro v hv
        rcases List.mem_cons.mp hv with rfl | hv
        · exact not_lt.mp hlt
        · exact hle v hv

theorem maxOf_isSome_of_mem : ∀ (l : List K) (v : K), v ∈ l → ∃ m, maxOf l = some m
  | a :: l, v, _ => by
    unfold maxOf
    cases maxOf l <;> simp

/-! ### the selection window -/

/-- every value of the list that is below the first value close to 0 … the lower bound is negative. -/
theorem lowBound_neg (vals : List K) (lo : K) (h : lowBound vals = some lo) : lo < 0 := by
  unfold lowBound at h
  cases hz : minOf (vals.filter (fun v => isclose v 0)) with
  | none => simp [hz] at h
  | some z0 =>
    simp only [hz] at h
    cases hp : maxOf (vals.filter (fun v => decide (v < z0))) with
    | none => simp [hp] at h
    | some p =>
      simp only [hp, Option.some.injEq] at h
      obtain ⟨hz0, _⟩ := minOf_spec _ _ hz
      obtain ⟨hpm, _⟩ := maxOf_spec _ _ hp
      have hz1 := (List.mem_filter.mp hz0).2
      rw [isclose_iff] at hz1
      have hp1 : p < z0 := by simpa using (List.mem_filter.mp hpm).2
      simp only [sub_zero, abs_zero, mul_zero, add_zero] at hz1
      have := (abs_le.mp hz1).2
      subst h
      linarith

/-- every listed value `≤ 1` is below the upper bound. -/
theorem highBound_ge (vals : List K) (hi : K) (h : highBound vals = some hi) (v : K) (hv : v ∈ vals)
    (hv1 : v ≤ 1) : v ≤ hi := by
  unfold highBound at h
  cases ho : maxOf (vals.filter (fun v => isclose v 1)) with
  | none => simp [ho] at h
  | some o1 =>
    simp only [ho] at h
    cases hs : minOf (vals.filter (fun v => decide (o1 < v))) with
    | none => simp [hs] at h
    | some s =>
      simp only [hs, Option.some.injEq] at h
      obtain ⟨ho1, homax⟩ := maxOf_spec _ _ ho
      obtain ⟨hsm, _⟩ := minOf_spec _ _ hs
      have hs1 : o1 < s := by simpa using (List.mem_filter.mp hsm).2
      have hoc := (List.mem_filter.mp ho1).2
      rw [isclose_iff] at hoc
      have hta := tolA_pos (K := K)
      subst h
      by_cases hc : isclose v 1 = true
      · have := homax v (List.mem_filter.mpr ⟨hv, hc⟩)
        linarith
      · rw [isclose_iff] at hc
        simp only [abs_one, mul_one] at hc hoc
        have h1 : tolA + tolR < |v - 1| := not_le.mp hc
        have h2 : |v - 1| = 1 - v := by rw [abs_sub_comm]; exact abs_of_nonneg (by linarith)
        have h3 := (abs_le.mp hoc).1
        linarith

/-! ### wrap -/

section floor
variable [FloorRing K]

theorem wrap_add_int (c a : K) (n : Int) : wrap Int.floor c (a + n) = wrap Int.floor c a := by
  unfold wrap
  have : a + n + c = a + c + n := by ring
  rw [this, Int.floor_add_intCast]; push_cast; ring

theorem wrap_range (c a : K) : -c ≤ wrap Int.floor c a ∧ wrap Int.floor c a < 1 - c := by
  unfold wrap
  have h1 := Int.floor_le (a + c)
  have h2 := Int.lt_floor_add_one (a + c)
  constructor <;> linarith

theorem wrap_unique (c a r : K) (n : Int) (h : r = a - n) (h1 : -c ≤ r) (h2 : r < 1 - c) :
    r = wrap Int.floor c a := by
  unfold wrap
  have : Int.floor (a + c) = n := by
    rw [Int.floor_eq_iff]; constructor <;> linarith
  rw [this, h]

theorem wrap_of_mem (c a : K) (h1 : -c ≤ a) (h2 : a < 1 - c) : wrap Int.floor c a = a := by
  unfold wrap
  have : Int.floor (a + c) = 0 := by
    rw [Int.floor_eq_iff]; constructor <;> simp <;> linarith
  rw [this]; simp

end floor

/-! ### nodes of the fit that the blend needs -/

theorem mem_tile (S : List (Node K)) (s : Node K) (hs : s ∈ S) (o : Int × Int) (ho : o ∈ tileOffsets) :
    shiftNode o s ∈ tile S := by
  unfold tile
  exact List.mem_flatMap.mpr ⟨o, ho, List.mem_map.mpr ⟨s, hs, rfl⟩⟩

theorem node_mem (D N : List (Node K)) (hN : fitNodes? D = some N) (s : Node K) (hs : s ∈ shortData D)
    (o : Int × Int) (ho : o ∈ tileOffsets)
    (h1 : 0 ≤ s.a1 + (o.1 : K)) (h1' : s.a1 + (o.1 : K) ≤ 1)
    (h2 : 0 ≤ s.a2 + (o.2 : K)) (h2' : s.a2 + (o.2 : K) ≤ 1) : shiftNode o s ∈ N := by
  unfold fitNodes? at hN
  simp only at hN
  cases hw : window? (tile (shortData D)) with
  | none => simp [hw] at hN
  | some w =>
    simp only [hw, Option.some.injEq] at hN
    subst hN
    have hT := mem_tile (shortData D) s hs o ho
    refine List.mem_filter.mpr ⟨hT, ?_⟩
    unfold window? at hw
    simp only at hw
    cases hl1 : lowBound ((tile (shortData D)).map (·.a1)) with
    | none => simp [hl1] at hw
    | some l1 =>
    cases hh1 : highBound ((tile (shortData D)).map (·.a1)) with
    | none => simp [hl1, hh1] at hw
    | some u1 =>
    cases hl2 : lowBound ((tile (shortData D)).map (·.a2)) with
    | none => simp [hl1, hh1, hl2] at hw
    | some l2 =>
    cases hh2 : highBound ((tile (shortData D)).map (·.a2)) with
    | none => simp [hl1, hh1, hl2, hh2] at hw
    | some u2 =>
      simp only [hl1, hh1, hl2, hh2, Option.some.injEq] at hw
      subst hw
      have a := lowBound_neg _ _ hl1
      have b := lowBound_neg _ _ hl2
      have c := highBound_ge _ _ hh1 (shiftNode o s).a1 (List.mem_map.mpr ⟨_, hT, rfl⟩) h1'
      have d := highBound_ge _ _ hh2 (shiftNode o s).a2 (List.mem_map.mpr ⟨_, hT, rfl⟩) h2'
      simp only [Window.mem, Bool.and_eq_true, decide_eq_true_eq]
      simp only [shiftNode] at c d ⊢
      refine ⟨⟨⟨?_, c⟩, ?_⟩, d⟩ <;> linarith

/-- weight of a sampled coordinate: 1 unless the coordinate is 0 (then ½). -/
theorem wgt_sample (c a : K) (hc : 0 ≤ c) (h : a = 0 ∨ c ≤ a) : wgt c a = 1 ∨ (a = 0 ∧ 0 < c) := by
  unfold wgt
  by_cases hlt : a < c
  · right
    rcases h with h | h
    · exact ⟨h, by linarith⟩
    · exact absurd hlt (not_lt.mpr h)
  · left; rw [if_neg hlt]

theorem tileOffsets_mem (i j : Int) (hi : i = 0 ∨ i = 1) (hj : j = 0 ∨ j = 1) : (i, j) ∈ tileOffsets := by
  rcases hi with rfl | rfl <;> rcases hj with rfl | rfl <;> simp [tileOffsets]

/-! ### linear solves -/

theorem det_basis (A1 A2 : V3 K) :
    M3.det ⟨A1, A2, V3.cross A1 A2⟩ = V3.normSq (V3.cross A1 A2) := by
  simp only [M3.det, V3.dot, V3.cross, V3.normSq]; ring

theorem normSq_pos (v : V3 K) (h : v ≠ v3zero) : 0 < V3.normSq v := by
  obtain ⟨x, y, z⟩ := v
  simp only [V3.normSq, V3.dot]
  have : x ≠ 0 ∨ y ≠ 0 ∨ z ≠ 0 := by
    by_contra hc
    simp only [not_or, not_not] at hc
    apply h
    simp [v3zero, hc.1, hc.2.1, hc.2.2]
  rcases this with h | h | h
  · have := mul_self_pos.mpr h; nlinarith [mul_self_nonneg y, mul_self_nonneg z]
  · have := mul_self_pos.mpr h; nlinarith [mul_self_nonneg x, mul_self_nonneg z]
  · have := mul_self_pos.mpr h; nlinarith [mul_self_nonneg x, mul_self_nonneg y]

theorem det_basis_ne (A1 A2 : V3 K) (h : V3.cross A1 A2 ≠ v3zero) : M3.det ⟨A1, A2, V3.cross A1 A2⟩ ≠ 0 := by
  rw [det_basis]; exact ne_of_gt (normSq_pos _ h)

theorem vecMul_inv_cancel (s : V3 K) (m : M3 K) (h : M3.det m ≠ 0) :
    M3.vecMul (M3.vecMul s m) (M3.inv m) = s := by
  obtain ⟨⟨a, b, c⟩, ⟨d, e, f⟩, ⟨g, i, j⟩⟩ := m
  obtain ⟨x, y, z⟩ := s
  simp only [M3.inv, M3.vecMul, V3.cross]
  generalize hD : M3.det (⟨⟨a, b, c⟩, ⟨d, e, f⟩, ⟨g, i, j⟩⟩ : M3 K) = D at h ⊢
  simp only [M3.det, V3.dot, V3.cross] at hD
  ext <;> simp only <;> field_simp <;> rw [← hD] <;> ring

theorem vecMul_inv_cancel' (p : V3 K) (m : M3 K) (h : M3.det m ≠ 0) :
    M3.vecMul (M3.vecMul p (M3.inv m)) m = p := by
  obtain ⟨⟨a, b, c⟩, ⟨d, e, f⟩, ⟨g, i, j⟩⟩ := m
  obtain ⟨x, y, z⟩ := p
  simp only [M3.inv, M3.vecMul, V3.cross]
  generalize hD : M3.det (⟨⟨a, b, c⟩, ⟨d, e, f⟩, ⟨g, i, j⟩⟩ : M3 K) = D at h ⊢
  simp only [M3.det, V3.dot, V3.cross] at hD
  ext <;> simp only <;> field_simp <;> rw [← hD] <;> ring

theorem mulVec_inv_cancel (v : V3 K) (m : M3 K) (h : M3.det m ≠ 0) :
    M3.mulVec (M3.inv m) (M3.mulVec m v) = v := by
  obtain ⟨⟨a, b, c⟩, ⟨d, e, f⟩, ⟨g, i, j⟩⟩ := m
  obtain ⟨x, y, z⟩ := v
  simp only [M3.inv, M3.mulVec, V3.cross, V3.dot]
  generalize hD : M3.det (⟨⟨a, b, c⟩, ⟨d, e, f⟩, ⟨g, i, j⟩⟩ : M3 K) = D at h ⊢
  simp only [M3.det, V3.dot, V3.cross] at hD
  ext <;> simp only <;> field_simp <;> rw [← hD] <;> ring

theorem mulVec_inv_cancel' (v : V3 K) (m : M3 K) (h : M3.det m ≠ 0) :
    M3.mulVec m (M3.mulVec (M3.inv m) v) = v := by
  obtain ⟨⟨a, b, c⟩, ⟨d, e, f⟩, ⟨g, i, j⟩⟩ := m
  obtain ⟨x, y, z⟩ := v
  simp only [M3.inv, M3.mulVec, V3.cross, V3.dot]
  generalize hD : M3.det (⟨⟨a, b, c⟩, ⟨d, e, f⟩, ⟨g, i, j⟩⟩ : M3 K) = D at h ⊢
  simp only [M3.det, V3.dot, V3.cross] at hD
  ext <;> simp only <;> field_simp <;> rw [← hD] <;> ring

theorem a12ToPos_eq (A1 A2 : V3 K) (a : K × K) :
    a12ToPos A1 A2 a = M3.vecMul ⟨a.1, a.2, 0⟩ ⟨A1, A2, V3.cross A1 A2⟩ := by
  simp only [a12ToPos, M3.vecMul, V3.smul]
  ext <;> simp only [add_x, add_y, add_z] <;> ring

theorem posToA123_a12ToPos (A1 A2 : V3 K) (h : V3.cross A1 A2 ≠ v3zero) (a : K × K) :
    posToA123 A1 A2 (a12ToPos A1 A2 a) = ⟨a.1, a.2, 0⟩ := by
  rw [a12ToPos_eq, posToA123, vecMul_inv_cancel _ _ (det_basis_ne A1 A2 h)]

/-- a position with no component along `A1 × A2` passes the out-of-plane test, at every scale. -/
theorem inPlaneOk_of_z_zero (A1 A2 a : V3 K) (hz : a.z = 0) : inPlaneOk A1 A2 a = true := by
  simp only [inPlaneOk, hz, mul_zero, zero_mul, decide_eq_true_eq]
  exact mul_nonneg (mul_nonneg (mul_self_nonneg _) (mul_self_nonneg _)) (mul_nonneg (mul_self_nonneg _) (mul_self_nonneg _))

/-- an in-plane, non-zero x axis passes the guard, at every scale. -/
theorem xvectOk_of_perp (X Nh : V3 K) (h0 : V3.dot X Nh = 0) (hX : X ≠ v3zero) : xvectOk X Nh = true := by
  have hp : 0 < V3.dot X X := normSq_pos X hX
  simp only [xvectOk, h0, mul_zero, Bool.and_eq_true, decide_eq_true_eq]
  exact ⟨mul_nonneg (mul_self_nonneg _) hp.le, hp⟩

theorem posToA123_z (A1 A2 pos : V3 K) :
    (posToA123 A1 A2 pos).z = V3.dot pos (V3.cross A1 A2) / M3.det ⟨A1, A2, V3.cross A1 A2⟩ := by
  simp only [posToA123, M3.vecMul, M3.inv, V3.dot]
  ring

theorem a12ToPos_posToA12 (A1 A2 : V3 K) (h : V3.cross A1 A2 ≠ v3zero) (pos : V3 K)
    (hp : V3.dot pos (V3.cross A1 A2) = 0) :
    a12ToPos A1 A2 (posToA12 A1 A2 pos) = pos := by
  have hz : (posToA123 A1 A2 pos).z = 0 := by rw [posToA123_z, hp, zero_div]
  rw [a12ToPos_eq]
  have : (⟨(posToA12 A1 A2 pos).1, (posToA12 A1 A2 pos).2, 0⟩ : V3 K) = posToA123 A1 A2 pos := by
    ext <;> simp [posToA12, hz]
  rw [this, posToA123, vecMul_inv_cancel' _ _ (det_basis_ne A1 A2 h)]

theorem det_xyTransform (X Nh : V3 K) (nx ny nz : K) (hx : nx ≠ 0) (hy : ny ≠ 0) (hz : nz ≠ 0)
    (hperp : V3.dot X Nh = 0) :
    M3.det (xyTransform X Nh nx ny nz) = V3.normSq Nh * V3.normSq X / (nx * ny * nz) := by
  obtain ⟨a, b, c⟩ := X
  obtain ⟨p, q, r⟩ := Nh
  simp only [V3.dot] at hperp
  simp only [xyTransform, M3.det, V3.dot, V3.cross, V3.map, V3.normSq]
  field_simp
  linear_combination (-(a * p) - b * q - c * r) * hperp

theorem det_xyTransform_ne (X Nh : V3 K) (nx ny nz : K) (hx : nx ≠ 0) (hy : ny ≠ 0) (hz : nz ≠ 0)
    (hperp : V3.dot X Nh = 0) (hX : X ≠ v3zero) (hN : Nh ≠ v3zero) :
    M3.det (xyTransform X Nh nx ny nz) ≠ 0 := by
  rw [det_xyTransform X Nh nx ny nz hx hy hz hperp]
  have h1 := normSq_pos X hX
  have h2 := normSq_pos Nh hN
  have : nx * ny * nz ≠ 0 := mul_ne_zero (mul_ne_zero hx hy) hz
  exact div_ne_zero (ne_of_gt (mul_pos h2 h1)) this

theorem posToXY_xyToPos (T : M3 K) (h : M3.det T ≠ 0) (q : K × K) : posToXY T (xyToPos T q) = q := by
  have := mulVec_inv_cancel' ⟨q.1, q.2, 0⟩ T h
  unfold posToXY xyToPos
  have hx := congrArg V3.x this
  have hy := congrArg V3.y this
  ext
  · exact hx
  · exact hy

theorem xyToPos_posToXY (T : M3 K) (h : M3.det T ≠ 0) (pos : V3 K) (hp : V3.dot T.r2 pos = 0) :
    xyToPos T (posToXY T pos) = pos := by
  unfold posToXY xyToPos
  have : (⟨V3.dot T.r0 pos, V3.dot T.r1 pos, 0⟩ : V3 K) = M3.mulVec T pos := by
    simp only [M3.mulVec, hp]
  simp only [this]
  exact mulVec_inv_cancel pos T h

/-! ### elastic kernel -/

theorem psi_neg (lg : K → K) (dx : K) (d : Int) : psi lg dx (-d) = psi lg dx d := by
  unfold psi
  by_cases h : d = 0
  · simp [h]
  · simp only [neg_eq_zero, h, if_false, Int.natAbs_neg, Int.cast_neg]; ring

theorem chi_symm (lg : K → K) (dx : K) (i j : Int) : chi lg dx i j = chi lg dx j i := by
  unfold chi
  have e1 : (i - 1) - (j - 1) = -((j - 1) - (i - 1)) := by ring
  have e2 : i - j = -(j - i) := by ring
  rw [e1, e2, psi_neg, psi_neg]; ring

theorem kform_symm (Kt : M3 K) (hK : Kt.transpose = Kt) (a b : V3 K) : kform Kt a b = kform Kt b a := by
  obtain ⟨⟨k00, k01, k02⟩, ⟨k10, k11, k12⟩, ⟨k20, k21, k22⟩⟩ := Kt
  simp only [M3.transpose, M3.mk.injEq, V3.mk.injEq] at hK
  obtain ⟨⟨-, h10, h20⟩, ⟨h01, -, h21⟩, ⟨h02, h12, -⟩⟩ := hK
  subst h10 h20 h21
  simp only [kform, M3.vecMul, V3.dot]; ring

theorem kform_add_left (Kt : M3 K) (a a' b : V3 K) : kform Kt (a + a') b = kform Kt a b + kform Kt a' b := by
  simp only [kform, M3.vecMul, V3.dot, add_x, add_y, add_z]; ring

theorem kform_smul_left (Kt : M3 K) (c : K) (a b : V3 K) : kform Kt (V3.smul c a) b = c * kform Kt a b := by
  simp only [kform, M3.vecMul, V3.dot, V3.smul]; ring

theorem elasticB_eq (lg : K → K) (pi dx : K) (Kt : M3 K) (n : Nat) (ρ σ : Nat → V3 K) :
    elasticB lg pi dx Kt n ρ σ =
      sumTo n (fun i => sumTo n (fun j => chi lg dx (i : Int) (j : Int) * kform Kt (ρ i) (σ j))) / (4 * pi) := by
  unfold elasticB
  rw [← sumTo_div]
  simp

theorem elasticB_symm (lg : K → K) (pi dx : K) (Kt : M3 K) (hK : Kt.transpose = Kt) (n : Nat) (ρ σ : Nat → V3 K) :
    elasticB lg pi dx Kt n ρ σ = elasticB lg pi dx Kt n σ ρ := by
  rw [elasticB_eq, elasticB_eq, sumTo_comm]
  congr 1
  apply sumTo_congr; intro i _
  apply sumTo_congr; intro j _
  rw [chi_symm, kform_symm Kt hK]

theorem elasticB_add_left (lg : K → K) (pi dx : K) (Kt : M3 K) (n : Nat) (ρ ρ' σ : Nat → V3 K) :
    elasticB lg pi dx Kt n (fun i => ρ i + ρ' i) σ = elasticB lg pi dx Kt n ρ σ + elasticB lg pi dx Kt n ρ' σ := by
  rw [elasticB_eq, elasticB_eq, elasticB_eq, ← add_div, ← sumTo_add]
  congr 1
  apply sumTo_congr; intro i _
  rw [← sumTo_add]
  apply sumTo_congr; intro j _
  rw [kform_add_left]; ring

theorem elasticB_smul_left (lg : K → K) (pi dx : K) (Kt : M3 K) (n : Nat) (c : K) (ρ σ : Nat → V3 K) :
    elasticB lg pi dx Kt n (fun i => V3.smul c (ρ i)) σ = c * elasticB lg pi dx Kt n ρ σ := by
  rw [elasticB_eq, elasticB_eq, ← mul_div_assoc, ← sumTo_mul_left]
  congr 1
  apply sumTo_congr; intro i _
  rw [← sumTo_mul_left]
  apply sumTo_congr; intro j _
  rw [kform_smul_left]; ring

/-! ### recompose -/

theorem recompose_head (res : List K) (first last : V3 K) : (recompose res first last).head? = some first := by
  simp [recompose]

theorem recompose_last (res : List K) (first last : V3 K) : (recompose res first last).getLast? = some last := by
  unfold recompose
  simp only
  exact List.getLast?_concat

theorem recompose_length (res : List K) (first last : V3 K) :
    (recompose res first last).length = res.length / 2 + 2 := by
  have h1 : (res.take (res.length / 2)).length = res.length / 2 := by
    rw [List.length_take]; omega
  have h2 : (res.drop (res.length / 2)).length = res.length - res.length / 2 := List.length_drop
  simp only [recompose, List.length_cons, List.length_append, List.length_zipWith, h1, h2, List.length_nil]
  omega

theorem recompose_interior_y (res : List K) (first last : V3 K) :
    ∀ v ∈ ((recompose res first last).drop 1).dropLast, v.y = 0 := by
  intro v hv
  simp only [recompose, List.drop_succ_cons, List.drop_zero, List.dropLast_concat] at hv
  obtain ⟨i, hi, rfl⟩ := List.mem_iff_getElem.mp hv
  simp

end Atomman.C18
