/-
  C19 — property theorems: a LAMMPS log is read back run by run, column by column, value by value.
  Model: Atomman/C19.lean (`Scan.step`, `readThermo`, `readLog`, `flatten*`, `renderLog`); trigger strings,
  line-number offsets, version slice and month table: Atomman/Generated/LogTriggers.lean (regenerated from
  atomman/lammps/Log.py on every run).
-/
import Proofs.C19_Lemmas
import Proofs.C19_Perf
import Proofs.C19_PerfOld
import Proofs.C19_Flatten
import Proofs.C19_Stream
import Proofs.C19_Lines
import Proofs.C19_Objects
import Proofs.C19_Source
namespace Atomman.C19
open Atomman List
set_option linter.unusedSimpArgs false
set_option linter.unusedVariables false

/-! ## read: one record per run, header tokens and printed rows -/

/-- **read_tables**: the single pass and the table reads of a well-formed log give one thermo table per run, in order of
    appearance, with the header line's tokens as column names and the printed (non-blank) thermo lines split on
    whitespace as rows — whatever was read before, with or without timing breakdowns between the runs, and also when
    the last run is cut short (no `Loop time of` line: the block then extends to the end of the log). -/
theorem read_tables (L : Layout) (h : L.WF) (st : LogState) (app : Bool) :
    thermoTables (passOf st app L.lines) L.lines = .ok (L.runs.map Run.table) :=
  thermoTables_layout L h _ rfl

/-- **read_layout**: whenever `Log.read` of a well-formed log returns, the simulation records are the old ones
    (`append=True`) or none (`append=False`) followed by one record per run, row for row. -/
theorem read_layout (L : Layout) (h : L.WF) (st st' : LogState) (app : Bool)
    (hr : readLog st app L.lines = .ok st') :
    st'.sims.map Sim.thermo = (if app then st.sims.map Sim.thermo else []) ++ L.runs.map Run.table := by
  obtain ⟨tables, ht, ha, _⟩ := readLog_ok st st' app L.lines hr
  rw [read_tables L h] at ht
  simp only [Except.ok.injEq] at ht
  subst ht
  rw [assignPerf_thermo _ _ _ _ _ _ _ _ ha, map_append, map_map]
  cases app <;> simp [startState, reset_eq, LogState.empty, Function.comp_def]

/-- the tables found in a log are the same whatever was read before. -/
def tablesOf (lines : List Str) : Except Err (List Table) := thermoTables (scan {} lines) lines

/-- **read_append**: for any log (well-formed or not), `read(log, append=True)` that returns has appended the log's
    own tables after the existing records, which keep their thermo data. -/
theorem read_append (st st' : LogState) (lines : List Str) (hr : readLog st true lines = .ok st') :
    ∃ ts, tablesOf lines = .ok ts ∧ st'.sims.map Sim.thermo = st.sims.map Sim.thermo ++ ts := by
  obtain ⟨tables, ht, ha, _⟩ := readLog_ok st st' true lines hr
  rw [thermoTables_passOf] at ht
  refine ⟨tables, ht, ?_⟩
  rw [assignPerf_thermo _ _ _ _ _ _ _ _ ha, map_append, map_map]
  simp [startState, Function.comp_def]

/-- **read_reset**: `append=False` forgets records, version and date: it is a read into a fresh `Log`. -/
theorem read_reset (st : LogState) (lines : List Str) :
    readLog st false lines = readLog LogState.empty true lines := rfl

/-- **append_concat**: reading `a` then `b` gives the records of `a` followed by the records of `b` read alone. -/
theorem append_concat (b : List Str) (sa sab sb : LogState)
    (h2 : readLog sa true b = .ok sab) (h3 : readLog LogState.empty true b = .ok sb) :
    sab.sims.map Sim.thermo = sa.sims.map Sim.thermo ++ sb.sims.map Sim.thermo := by
  obtain ⟨t2, ht2, e2⟩ := read_append sa sab b h2
  obtain ⟨t3, ht3, e3⟩ := read_append LogState.empty sb b h3
  rw [ht2] at ht3
  simp only [Except.ok.injEq] at ht3
  subst ht3
  rw [e2, e3]
  simp [LogState.empty]

/-! ## read: the log handed over as an open stream (an object that outlives the call) -/

/-- **seeks_sound**: the `log_info.seek(0)` statements found in the source (`Log.read`, `__read_thermo`,
    `__read_performance`; regenerated on every run) make the single pass and every pandas read start at the
    beginning of the stream. -/
theorem seeks_sound : seekFlags.sound = true := rfl

/-- **read_stream**: a log given as an open binary stream is read exactly like its content given as text — wherever
    the stream stands when it is handed over (start, mid-line, end; fresh, or as an earlier read left it) — and the
    stream keeps its content. -/
theorem read_stream (st : LogState) (app : Bool) (s : Stream) :
    ∃ s', s'.lines = s.lines ∧ readLogS st app s = (readLog st app s.lines).map (fun st' => (st', s')) :=
  readLogSW_eq seekFlags seeks_sound st app s

/-- **read_stream_again**: handing the same stream object to a second `read(…, append=True)` (the caller did not touch
    it in between) appends its runs a second time. -/
theorem read_stream_again (st st1 st2 : LogState) (s s1 s2 : Stream)
    (h1 : readLogS st true s = .ok (st1, s1)) (h2 : readLogS st1 true s1 = .ok (st2, s2)) :
    ∃ ts, tablesOf s.lines = .ok ts ∧ st2.sims.map Sim.thermo = st.sims.map Sim.thermo ++ ts ++ ts := by
  obtain ⟨s1', hl1, e1⟩ := read_stream st true s
  rw [e1] at h1
  cases hr1 : readLog st true s.lines with
  | error e => rw [hr1] at h1; simp [Except.map] at h1
  | ok st1' =>
    rw [hr1] at h1
    simp only [Except.map, Except.ok.injEq, Prod.mk.injEq] at h1
    obtain ⟨rfl, rfl⟩ := h1
    obtain ⟨s2', hl2, e2⟩ := read_stream st1' true s1'
    rw [e2, hl1] at h2
    cases hr2 : readLog st1' true s.lines with
    | error e => rw [hr2] at h2; simp [Except.map] at h2
    | ok st2' =>
      rw [hr2] at h2
      simp only [Except.map, Except.ok.injEq, Prod.mk.injEq] at h2
      obtain ⟨rfl, rfl⟩ := h2
      obtain ⟨ts, hts, e1⟩ := read_append st st1' s.lines hr1
      obtain ⟨ts', hts', e2⟩ := read_append st1' st2' s.lines hr2
      rw [hts] at hts'
      simp only [Except.ok.injEq] at hts'
      subst hts'
      exact ⟨ts, hts, by rw [e2, e1]⟩

/-- **read_version_kept**: a version already known (`append=True` onto a log that had a banner) is kept with its date. -/
theorem read_version_kept (st st' : LogState) (app : Bool) (lines : List Str)
    (hr : readLog st app lines = .ok st') (hv : (startState st app).version.isSome = true) :
    st'.version = (startState st app).version ∧ st'.date = (startState st app).date := by
  obtain ⟨_, _, _, hcase⟩ := readLog_ok st st' app lines hr
  rw [passOf_version, if_pos hv] at hcase
  rcases hcase with ⟨_, h1, h2⟩ | ⟨l, d, hl, _⟩
  · exact ⟨h1, h2⟩
  · simp at hl

/-- **read_version_new**: otherwise the version is `line.strip()[8:-1]` of the first non-blank line starting with
    `LAMMPS (`, and the date is the date parsed from it; a log without such a line leaves the date as it was (statement
    audit: third conjunct added — before, nothing was said about the date of a log without banner). -/
theorem read_version_new (st st' : LogState) (app : Bool) (lines : List Str)
    (hr : readLog st app lines = .ok st') (hv : (startState st app).version = none) :
    st'.version = (firstVersionLine lines).map extractVersion ∧
      (∀ l, firstVersionLine lines = some l → ∃ d, dateOf (extractVersion l) = .ok d ∧ st'.date = some d) ∧
      (firstVersionLine lines = none → st'.date = (startState st app).date) := by
  obtain ⟨_, _, _, hcase⟩ := readLog_ok st st' app lines hr
  rw [passOf_version, hv] at hcase
  simp only [Option.isSome_none, Bool.false_eq_true, if_false] at hcase
  rcases hcase with ⟨h0, h1, h2⟩ | ⟨l, d, hl, hd, h1, h2⟩
  · rw [h0, h1]
    exact ⟨rfl, fun l hl => by simp at hl, fun _ => h2⟩
  · rw [hl, h1]
    refine ⟨rfl, fun l' hl' => ?_, fun hn => by simp at hn⟩
    simp only [Option.some.injEq] at hl'
    subst hl'
    exact ⟨d, hd, h2⟩

/-- **version_date**: the date of a version string `<day> <Mon> <year>` optionally followed by `-…` or ` …`. -/
theorem version_date (dd mm yy suffix : Str) (d m y : Nat)
    (hd : parseNat? dd = some d) (hm : monthLookup mm = some m) (hy : parseNat? yy = some y)
    (hs : suffix = [] ∨ ∃ c rest, suffix = c :: rest ∧ (isWs c = true ∨ c = '-'))
    (hvalid : 1 ≤ y ∧ y ≤ 9999 ∧ 1 ≤ d ∧ d ≤ daysInMonth y m) :
    dateOf (dd ++ ' ' :: (mm ++ ' ' :: (yy ++ suffix))) = .ok ⟨y, m, d⟩ :=
  dateOf_text dd mm yy suffix d m y hd hm hy hs hvalid

example : dateOf "29 Feb 2024 - Update 1".toList = .ok ⟨2024, 2, 29⟩ := by decide
example : parseNat? (Nat.toDigits 10 2024) = some 2024 := parseNat?_toDigits 2024

/-- **month_table_calendar**: the month table of `__read_lammps_version` is the calendar. -/
theorem month_table_calendar : Gen.Log.monthTable =
    [("Jan", 1), ("Feb", 2), ("Mar", 3), ("Apr", 4), ("May", 5), ("Jun", 6),
     ("Jul", 7), ("Aug", 8), ("Sep", 9), ("Oct", 10), ("Nov", 11), ("Dec", 12)] := by decide

/-- **read_render**: a log printed from a specification (version banner, preamble, runs of padded cells, completed
    or — for the last one — cut short), without timing breakdown, is read back exactly: the token tables of the
    runs appended to the existing records, the version string and its date. -/
theorem read_render (S : LogSpec) (h : S.WF) (hperf : ∀ l ∈ renderLog S, PerfQuiet l)
    (d : Date) (hd : dateOf S.version = .ok d) (st : LogState) (app : Bool) :
    readLog st app (renderLog S) = .ok
      { sims := (startState st app).sims ++ S.runs.map (fun r => ({ thermo := r.table } : Sim)),
        version := if (startState st app).version.isSome then (startState st app).version else some S.version,
        date := if (startState st app).version.isSome then (startState st app).date else some d } := by
  have hlines : renderLog S = versionLineOf S.version :: (S.head ++ (S.runs.map RunSpec.toRun).flatMap Run.lines) := by
    simp [renderLog, Layout.lines, LogSpec.toLayout]
  have ht := read_tables S.toLayout (toLayout_WF S h) st app
  have ht' : thermoTables (passOf st app (renderLog S)) (renderLog S) = .ok (S.runs.map RunSpec.table) := by
    rw [← toRuns_table _ h.runs_ok]; exact ht
  have hp := scan_perf_quiet { haveVersion := (startState st app).version.isSome } (renderLog S) hperf
    ⟨rfl, rfl, rfl⟩
  have := readLog_of st app (renderLog S) (S.runs.map RunSpec.table)
    ((startState st app).sims ++ S.runs.map (fun r => ({ thermo := r.table } : Sim)))
    (if (startState st app).version.isSome then (startState st app).version else some S.version)
    (if (startState st app).version.isSome then (startState st app).date else some d) ?_ ht' ?_
  · exact this
  · rw [passOf_version]
    by_cases hv : (startState st app).version.isSome = true
    · left; simp [hv]
    · right
      refine ⟨versionLineOf S.version, d, ?_, ?_, ?_, ?_⟩
      · rw [if_neg hv, hlines, firstVersionLine_cons]
      · rw [extractVersion_versionLineOf]; exact hd
      · rw [if_neg hv, extractVersion_versionLineOf]
      · rw [if_neg hv]
  · unfold passOf
    rw [hp.1, hp.2.1, hp.2.2, map_map]
    rfl

/-- a two-run log: a completed run and a run cut short after two thermo lines. -/
def demoSpec : LogSpec where
  version := "29 Feb 2024 - Update 1".toList
  head := ["units metal".toList, [], "thermo 10".toList]
  runs := [
    { banner := .new "3.7".toList "3.7".toList "3.7".toList, gap := 1,
      header := [⟨"   ".toList, "Step".toList⟩, ⟨" ".toList, "Temp".toList⟩, ⟨"  ".toList, "PotEng".toList⟩],
      headerTrail := " ".toList,
      rows := [([⟨[], "0".toList⟩, ⟨"\t".toList, "300.5".toList⟩, ⟨" ".toList, "-13.44".toList⟩], []),
               ([⟨[], "10".toList⟩, ⟨" ".toList, "290".toList⟩], " ".toList)],
      tail := some (("0.01".toList, "1".toList, "10".toList, "4".toList), ["".toList, "Total # of neighbors = 312".toList]) },
    { banner := .old "2.5".toList,
      header := [⟨[], "Step".toList⟩, ⟨" ".toList, "Press".toList⟩],
      rows := [([⟨[], "10".toList⟩, ⟨" ".toList, "1e-3".toList⟩], []), ([⟨[], "20".toList⟩, ⟨" ".toList, "nan".toList⟩], [])],
      tail := none }]

theorem demoSpec_WF : demoSpec.WF where
  version_quiet := by decide
  head_quiet := by decide
  runs_ok := by
    refine ⟨⟨by decide, by decide, by decide, ?_⟩, ⟨by decide, by decide, by decide, ?_⟩⟩
    · show _ ∧ _; decide
    · rfl

example : ∃ st', readLog LogState.empty true (renderLog demoSpec) = .ok st' ∧
    st'.sims.map Sim.thermo = demoSpec.runs.map RunSpec.table ∧ st'.version = some demoSpec.version ∧
    st'.date = some ⟨2024, 2, 29⟩ :=
  ⟨_, read_render demoSpec demoSpec_WF (by decide) ⟨2024, 2, 29⟩ (by decide) LogState.empty true,
    by simp [startState, LogState.empty, Function.comp_def], rfl, rfl⟩

/-- non-vacuity of `read_stream` / `read_stream_again`: the demo log in a stream the caller left in the middle of
    its third line is read (twice) and its runs are there (twice). -/
example : ∃ st1 st2 s1 s2, readLogS LogState.empty true ⟨renderLog demoSpec, 2, 3⟩ = .ok (st1, s1) ∧
    readLogS st1 true s1 = .ok (st2, s2) ∧
    st2.sims.map Sim.thermo = demoSpec.runs.map RunSpec.table ++ demoSpec.runs.map RunSpec.table := by
  obtain ⟨st1, h1⟩ : ∃ st1, readLog LogState.empty true (renderLog demoSpec) = .ok st1 :=
    ⟨_, read_render demoSpec demoSpec_WF (by decide) ⟨2024, 2, 29⟩ (by decide) LogState.empty true⟩
  obtain ⟨st2, h2⟩ : ∃ st2, readLog st1 true (renderLog demoSpec) = .ok st2 :=
    ⟨_, read_render demoSpec demoSpec_WF (by decide) ⟨2024, 2, 29⟩ (by decide) st1 true⟩
  obtain ⟨s1, hl1, e1⟩ := read_stream LogState.empty true ⟨renderLog demoSpec, 2, 3⟩
  obtain ⟨s2, hl2, e2⟩ := read_stream st1 true s1
  refine ⟨st1, st2, s1, s2, ?_, ?_, ?_⟩
  · rw [e1]; show (readLog _ true (renderLog demoSpec)).map _ = _; rw [h1]; rfl
  · rw [e2, hl1]; show (readLog st1 true (renderLog demoSpec)).map _ = _; rw [h2]; rfl
  · have hwf := toLayout_WF demoSpec demoSpec_WF
    have e1 := read_layout demoSpec.toLayout hwf _ _ true h1
    have e2 := read_layout demoSpec.toLayout hwf _ _ true h2
    have ht : demoSpec.toLayout.runs.map Run.table = demoSpec.runs.map RunSpec.table :=
      toRuns_table _ demoSpec_WF.runs_ok
    rw [e2, e1, ht]
    simp [LogState.empty]

/-- non-vacuity of `read_tables` / `read_layout`: the layout of the demo log is well-formed. -/
example : demoSpec.toLayout.WF := toLayout_WF demoSpec demoSpec_WF

/-! ## read with timing breakdowns -/

/-- **read_breakdown**: a well-formed log whose lines split into stretches that start no timing breakdown and
    well-formed `MPI task timing breakdown` blocks (each after at least one memory banner) is read without an
    exception (given a parsable version banner, none, or a version known already), and the records are the old ones
    followed by one table per run. -/
theorem read_breakdown (L : Layout) (h : L.WF) (segs : List Seg) (hsegs : L.lines = segs.flatMap Seg.lines)
    (hwf : segsWF 0 segs) (st : LogState) (app : Bool)
    (hver : (startState st app).version.isSome = true ∨ firstVersionLine L.lines = none ∨
      ∃ l d, firstVersionLine L.lines = some l ∧ dateOf (extractVersion l) = .ok d) :
    ∃ st', readLog st app L.lines = .ok st' ∧
      st'.sims.map Sim.thermo = (if app then st.sims.map Sim.thermo else []) ++ L.runs.map Run.table := by
  obtain ⟨sims, hs⟩ := perf_ok L h segs hsegs hwf st app (L.runs.map Run.table) (by simp)
  have ht := read_tables L h st app
  have hv : ∃ version date,
      ((passOf st app L.lines).versionLine = none ∧ version = (startState st app).version
          ∧ date = (startState st app).date) ∨
        ∃ l d, (passOf st app L.lines).versionLine = some l ∧ dateOf (extractVersion l) = .ok d ∧
          version = some (extractVersion l) ∧ date = some d := by
    rw [passOf_version]
    rcases hver with hv | hv | ⟨l, d, hl, hd⟩
    · exact ⟨_, _, Or.inl ⟨by simp [hv], rfl, rfl⟩⟩
    · exact ⟨_, _, Or.inl ⟨by simp [hv], rfl, rfl⟩⟩
    · by_cases hk : (startState st app).version.isSome = true
      · exact ⟨_, _, Or.inl ⟨by simp [hk], rfl, rfl⟩⟩
      · exact ⟨_, _, Or.inr ⟨l, d, by simp [hk, hl], hd, rfl, rfl⟩⟩
  obtain ⟨version, date, hv⟩ := hv
  have hr := readLog_of st app L.lines _ sims version date hv ht hs
  exact ⟨_, hr, read_layout L h st _ app hr⟩

def demoBreak : Breakdown where
  start := "MPI task timing breakdown:".toList
  hdr := "Section | avg time |%total".toList
  rows := ["--------".toList,
           "Pair    | 0.0003 | 71.35".toList,
           "Other   |        | 28.65".toList]
  stop := "Nlocal: 4 ave".toList

theorem demoBreak_WF : demoBreak.WF := by
  constructor <;> decide

/-- one completed run followed by its timing breakdown and histogram lines. -/
def demoLayout : Layout where
  head := ["LAMMPS (29 Aug 2024)".toList, [], "units metal".toList]
  runs := [{ banner := "Memory usage per processor = 3 Mbytes".toList,
             header := "   Step    Temp".toList,
             body := ["      0   300.5".toList, "     10   290".toList],
             tail := some ("Loop time of 0.01 on 1 procs".toList,
               [[], "Performance: 7 ns/day".toList] ++ demoBreak.lines ++
                 ["Histogram: 1 0".toList]) }]

theorem demoLayout_WF : demoLayout.WF where
  head_quiet := by decide
  runs_ok := by
    refine ⟨by decide, by decide, by decide, by decide, by decide, by decide, by decide, ?_⟩
    show _ ∧ _ ∧ _ ∧ _
    decide

def demoSegs : List Seg :=
  [.quiet (demoLayout.head ++ ["Memory usage per processor = 3 Mbytes".toList,
      "   Step    Temp".toList, "      0   300.5".toList, "     10   290".toList,
      "Loop time of 0.01 on 1 procs".toList, [], "Performance: 7 ns/day".toList]),
   .block demoBreak, .quiet ["Histogram: 1 0".toList]]

example : ∃ st', readLog LogState.empty true demoLayout.lines = .ok st' ∧
    st'.sims.map Sim.thermo = [⟨["Step".toList, "Temp".toList],
      [["0".toList, "300.5".toList], ["10".toList, "290".toList]]⟩] := by
  have := read_breakdown demoLayout demoLayout_WF demoSegs (by decide)
    ⟨by decide, demoBreak_WF, by decide, by decide, trivial⟩ LogState.empty true
    (Or.inr (Or.inr ⟨"LAMMPS (29 Aug 2024)".toList, ⟨2024, 8, 29⟩, by decide, by decide⟩))
  obtain ⟨st', h1, h2⟩ := this
  refine ⟨st', h1, ?_⟩
  rw [h2]
  decide

/-! ## read with timing lines of the old layout -/

/-- **read_breakdown_old**: the same for the OLD timing layout (`Pair  time (%) = 0.0003 (71.35)` …, LAMMPS before the
    `MPI task timing breakdown` table): a well-formed log whose lines split into stretches that start no timing block
    and well-formed old blocks (the `Pair  time (%)` line, further lines with exactly one `=`, the `Nlocal:` line; each
    after at least one memory banner) is read without an exception, and the records are the old ones followed by one
    table per run. -/
theorem read_breakdown_old (L : Layout) (h : L.WF) (segs : List OSeg) (hsegs : L.lines = segs.flatMap OSeg.lines)
    (hwf : osegsWF 0 segs) (st : LogState) (app : Bool)
    (hver : (startState st app).version.isSome = true ∨ firstVersionLine L.lines = none ∨
      ∃ l d, firstVersionLine L.lines = some l ∧ dateOf (extractVersion l) = .ok d) :
    ∃ st', readLog st app L.lines = .ok st' ∧
      st'.sims.map Sim.thermo = (if app then st.sims.map Sim.thermo else []) ++ L.runs.map Run.table := by
  obtain ⟨sims, hs⟩ := perf_ok_old L h segs hsegs hwf st app (L.runs.map Run.table) (by simp)
  have ht := read_tables L h st app
  have hv : ∃ version date,
      ((passOf st app L.lines).versionLine = none ∧ version = (startState st app).version
          ∧ date = (startState st app).date) ∨
        ∃ l d, (passOf st app L.lines).versionLine = some l ∧ dateOf (extractVersion l) = .ok d ∧
          version = some (extractVersion l) ∧ date = some d := by
    rw [passOf_version]
    rcases hver with hv | hv | ⟨l, d, hl, hd⟩
    · exact ⟨_, _, Or.inl ⟨by simp [hv], rfl, rfl⟩⟩
    · exact ⟨_, _, Or.inl ⟨by simp [hv], rfl, rfl⟩⟩
    · by_cases hk : (startState st app).version.isSome = true
      · exact ⟨_, _, Or.inl ⟨by simp [hk], rfl, rfl⟩⟩
      · exact ⟨_, _, Or.inr ⟨l, d, by simp [hk, hl], hd, rfl, rfl⟩⟩
  obtain ⟨version, date, hv⟩ := hv
  have hr := readLog_of st app L.lines _ sims version date hv ht hs
  exact ⟨_, hr, read_layout L h st _ app hr⟩

def demoOld : OldBreakdown where
  first := "Pair  time (%) = 0.0003 (71.35)".toList
  rows := ["Neigh time (%) = 0 (0)".toList, "Other time (%) = 0.0001 (28.65)".toList]
  stop := "Nlocal: 4 ave".toList

theorem demoOld_WF : demoOld.WF := by
  constructor <;> decide

def demoLayoutOld : Layout where
  head := ["LAMMPS (1 Feb 2014)".toList, [], "units metal".toList]
  runs := [{ banner := "Memory usage per processor = 3 Mbytes".toList,
             header := "Step Temp".toList,
             body := ["0 300.5".toList, "10 290".toList],
             tail := some ("Loop time of 0.01 on 1 procs".toList,
               [[]] ++ demoOld.lines ++ ["Histogram: 1 0".toList]) }]

theorem demoLayoutOld_WF : demoLayoutOld.WF where
  head_quiet := by decide
  runs_ok := by
    refine ⟨by decide, by decide, by decide, by decide, by decide, by decide, by decide, ?_⟩
    show _ ∧ _ ∧ _ ∧ _
    decide

def demoSegsOld : List OSeg :=
  [.quiet (demoLayoutOld.head ++ ["Memory usage per processor = 3 Mbytes".toList,
      "Step Temp".toList, "0 300.5".toList, "10 290".toList,
      "Loop time of 0.01 on 1 procs".toList, []]),
   .block demoOld, .quiet ["Histogram: 1 0".toList]]

example : ∃ st', readLog LogState.empty true demoLayoutOld.lines = .ok st' ∧
    st'.sims.map Sim.thermo = [⟨["Step".toList, "Temp".toList],
      [["0".toList, "300.5".toList], ["10".toList, "290".toList]]⟩] := by
  have := read_breakdown_old demoLayoutOld demoLayoutOld_WF demoSegsOld (by decide)
    ⟨by decide, demoOld_WF, by decide, by decide, trivial⟩ LogState.empty true
    (Or.inr (Or.inr ⟨"LAMMPS (1 Feb 2014)".toList, ⟨2014, 2, 1⟩, by decide, by decide⟩))
  obtain ⟨st', h1, h2⟩ := this
  refine ⟨st', h1, ?_⟩
  rw [h2]
  decide


/-! ## flatten -/

section Flatten
variable {α : Type} (step : α → Int)

/-- **flatten_all**: style `all` keeps every printed row of every run, in order. -/
theorem flatten_all (runs : List (List α)) (h : runs ≠ []) : flattenAll runs = some runs.flatten := by
  cases runs with
  | nil => exact absurd rfl h
  | cons t ts => simp [flattenAll, flattenWith, foldl_mergeAll]

/-- `flatten` of no simulations is Python's `IndexError` (`simulations[0]`), for every style. -/
theorem flatten_nil : flattenFirst step [] = none ∧ flattenLast step [] = none ∧ flattenAll ([] : List (List α)) = none :=
  ⟨rfl, rfl, rfl⟩

/-- **flatten_first**: style `first` keeps exactly the rows whose step exceeds every step printed by an earlier run
    (rows of the first run are all kept), in printed order. -/
theorem flatten_first (t : List α) (ts : List (List α)) (ht : t ≠ []) :
    ∃ res, flattenFirst step (t :: ts) = some res ∧ res.Sublist (t :: ts).flatten ∧
      ∀ r, r ∈ res ↔ ∃ i run, (t :: ts)[i]? = some run ∧ r ∈ run ∧
        ∀ (j : Nat) (run' : List α), j < i → (t :: ts)[j]? = some run' → ∀ x ∈ run', step x < step r := by
  refine ⟨_, flattenFirst_eq step t ts ht, specFirst_sublist step [] _, fun r => ?_⟩
  rw [mem_specFirst]
  simp

example : flattenFirst (fun r : Int × Nat => r.1) [[(0, 0), (10, 1), (20, 2)], [(20, 3), (30, 4)], [(10, 5), (40, 6)]]
    = some [(0, 0), (10, 1), (20, 2), (30, 4), (40, 6)] := by decide

/-- **flatten_last**: style `last` keeps exactly the rows whose step is below every step printed by a later run
    (rows of the last run are all kept), in printed order. -/
theorem flatten_last (t : List α) (ts : List (List α)) (hne : ∀ t' ∈ ts, t' ≠ []) :
    ∃ res, flattenLast step (t :: ts) = some res ∧ res.Sublist (t :: ts).flatten ∧
      ∀ r, r ∈ res ↔ ∃ i run, (t :: ts)[i]? = some run ∧ r ∈ run ∧
        ∀ (j : Nat) (run' : List α), i < j → (t :: ts)[j]? = some run' → ∀ x ∈ run', step r < step x :=
  ⟨_, flattenLast_eq step t ts hne, specLast_sublist step _, fun r => mem_specLast step _ r⟩

example : flattenLast (fun r : Int × Nat => r.1) [[(0, 0), (10, 1), (20, 2)], [(20, 3), (30, 4)], [(25, 5), (40, 6)]]
    = some [(0, 0), (10, 1), (20, 3), (25, 5), (40, 6)] := by decide

/-- the result of `first` is always made of rows of the runs in printed order (no hypothesis). -/
theorem flatten_first_sublist (runs : List (List α)) (res : List α) (h : flattenFirst step runs = some res) :
    res.Sublist runs.flatten := by
  cases runs with
  | nil => simp [flattenFirst, flattenWith] at h
  | cons t ts =>
    simp only [flattenFirst, flattenWith, Option.some.injEq] at h
    subst h
    simpa using foldl_mergeFirst_sublist step t ts

theorem flatten_last_sublist (runs : List (List α)) (res : List α) (h : flattenLast step runs = some res) :
    res.Sublist runs.flatten := by
  cases runs with
  | nil => simp [flattenLast, flattenWith] at h
  | cons t ts =>
    simp only [flattenLast, flattenWith, Option.some.injEq] at h
    subst h
    simpa using foldl_mergeLast_sublist step t ts

/-- **flatten_first_once**: when no run prints a step twice, every timestep appears once in the `first` table. -/
theorem flatten_first_once (runs : List (List α)) (res : List α) (h : flattenFirst step runs = some res)
    (hnd : ∀ run ∈ runs, (run.map step).Nodup) : (res.map step).Nodup := by
  cases runs with
  | nil => simp [flattenFirst, flattenWith] at h
  | cons t ts =>
    simp only [flattenFirst, flattenWith, Option.some.injEq] at h
    subst h
    exact foldl_mergeFirst_pairwise step (· ≠ ·) (fun a b hab => by omega) t ts (hnd t mem_cons_self)
      (fun run hr => hnd run (mem_cons_of_mem _ hr))

/-- **flatten_last_once**: when no run prints a step twice, every timestep appears once in the `last` table. -/
theorem flatten_last_once (runs : List (List α)) (res : List α) (h : flattenLast step runs = some res)
    (hnd : ∀ run ∈ runs, (run.map step).Nodup) : (res.map step).Nodup := by
  cases runs with
  | nil => simp [flattenLast, flattenWith] at h
  | cons t ts =>
    simp only [flattenLast, flattenWith, Option.some.injEq] at h
    subst h
    exact foldl_mergeLast_pairwise step (· ≠ ·) (fun a b hab => by omega) t ts (hnd t mem_cons_self)
      (fun run hr => hnd run (mem_cons_of_mem _ hr))

/-- when steps increase within each run, the `first` table has strictly increasing steps. -/
theorem flatten_first_sorted (runs : List (List α)) (res : List α) (h : flattenFirst step runs = some res)
    (hs : ∀ run ∈ runs, (run.map step).Pairwise (· < ·)) : (res.map step).Pairwise (· < ·) := by
  cases runs with
  | nil => simp [flattenFirst, flattenWith] at h
  | cons t ts =>
    simp only [flattenFirst, flattenWith, Option.some.injEq] at h
    subst h
    exact foldl_mergeFirst_pairwise step (· < ·) (fun a b hab => hab) t ts (hs t mem_cons_self)
      (fun run hr => hs run (mem_cons_of_mem _ hr))

/-- when steps increase within each run, the `last` table has strictly increasing steps. -/
theorem flatten_last_sorted (runs : List (List α)) (res : List α) (h : flattenLast step runs = some res)
    (hs : ∀ run ∈ runs, (run.map step).Pairwise (· < ·)) : (res.map step).Pairwise (· < ·) := by
  cases runs with
  | nil => simp [flattenLast, flattenWith] at h
  | cons t ts =>
    simp only [flattenLast, flattenWith, Option.some.injEq] at h
    subst h
    exact foldl_mergeLast_pairwise step (· < ·) (fun a b hab => hab) t ts (hs t mem_cons_self)
      (fun run hr => hs run (mem_cons_of_mem _ hr))

/-- **flatten_first_earliest**: a row of the `first` table is a row of the earliest run that prints its step. -/
theorem flatten_first_earliest (runs : List (List α)) (res : List α) (h : flattenFirst step runs = some res)
    (r : α) (hr : r ∈ res) (i : Nat) (run : List α) (hi : runs[i]? = some run)
    (hhas : ∃ x ∈ run, step x = step r)
    (hearliest : ∀ (j : Nat) (run' : List α), j < i → runs[j]? = some run' → ∀ x ∈ run', step x ≠ step r) :
    r ∈ run := by
  cases runs with
  | nil => simp [flattenFirst, flattenWith] at h
  | cons t ts =>
    by_cases ht : t = []
    · subst ht
      rw [flattenFirst_nil] at h
      simp only [Option.some.injEq] at h
      subst h; simp at hr
    · rw [flattenFirst_eq step t ts ht, Option.some.injEq] at h
      subst h
      obtain ⟨i', run', hi', hr', _, hlt⟩ := (mem_specFirst step [] _ r).1 hr
      rcases Nat.lt_trichotomy i i' with hlt' | heq | hgt
      · obtain ⟨x, hx, hxe⟩ := hhas
        have := hlt i run hlt' hi x hx
        omega
      · subst heq; rw [hi] at hi'; simp only [Option.some.injEq] at hi'; subst hi'; exact hr'
      · exact absurd rfl (hearliest i' run' hgt hi' r hr')

/-- **flatten_last_latest**: a row of the `last` table is a row of the latest run that prints its step. -/
theorem flatten_last_latest (t : List α) (ts : List (List α)) (hne : ∀ t' ∈ ts, t' ≠ []) (res : List α)
    (h : flattenLast step (t :: ts) = some res)
    (r : α) (hr : r ∈ res) (i : Nat) (run : List α) (hi : (t :: ts)[i]? = some run)
    (hhas : ∃ x ∈ run, step x = step r)
    (hlatest : ∀ (j : Nat) (run' : List α), i < j → (t :: ts)[j]? = some run' → ∀ x ∈ run', step x ≠ step r) :
    r ∈ run := by
  rw [flattenLast_eq step t ts hne, Option.some.injEq] at h
  subst h
  obtain ⟨i', run', hi', hr', hlt⟩ := (mem_specLast step _ r).1 hr
  rcases Nat.lt_trichotomy i i' with hlt' | heq | hgt
  · exact absurd rfl (hlatest i' run' hlt' hi' r hr')
  · subst heq; rw [hi] at hi'; simp only [Option.some.injEq] at hi'; subst hi'; exact hr'
  · obtain ⟨x, hx, hxe⟩ := hhas
    have := hlt i run hgt hi x hx
    omega

/-- **flatten_first_complete**: if every step of a run that does not exceed the steps printed before it was itself
    printed by an earlier run (restarts continue on the same thermo grid), every timestep of every run appears. -/
theorem flatten_first_complete (t : List α) (ts : List (List α)) (ht : t ≠ []) (res : List α)
    (h : flattenFirst step (t :: ts) = some res)
    (haligned : ∀ (i : Nat) (run : List α), (t :: ts)[i]? = some run → ∀ r ∈ run,
      (∃ (j : Nat) (run' : List α), j < i ∧ (t :: ts)[j]? = some run' ∧ ∃ x ∈ run', step r ≤ step x) →
      ∃ (j : Nat) (run' : List α), j < i ∧ (t :: ts)[j]? = some run' ∧ ∃ x ∈ run', step x = step r) :
    ∀ (i : Nat) (run : List α), (t :: ts)[i]? = some run → ∀ r ∈ run, ∃ r' ∈ res, step r' = step r := by
  rw [flattenFirst_eq step t ts ht, Option.some.injEq] at h
  subst h
  intro i
  induction i using Nat.strong_induction_on with
  | _ i ih =>
    intro run hi r hr
    by_cases hall : ∀ (j : Nat) (run' : List α), j < i → (t :: ts)[j]? = some run' → ∀ x ∈ run', step x < step r
    · exact ⟨r, (mem_specFirst step [] _ r).2 ⟨i, run, hi, hr, by simp, hall⟩, rfl⟩
    · simp only [not_forall, not_lt] at hall
      obtain ⟨j, run', hj, hjrun, x, hx, hle⟩ := hall
      obtain ⟨j', run'', hj', hjrun', y, hy, hye⟩ := haligned i run hi r hr ⟨j, run', hj, hjrun, x, hx, hle⟩
      obtain ⟨r', hr', he⟩ := ih j' hj' run'' hjrun' y hy
      exact ⟨r', hr', by omega⟩

/-- **flatten_last_complete**: mirror image for `last`. -/
theorem flatten_last_complete (t : List α) (ts : List (List α)) (hne : ∀ t' ∈ ts, t' ≠ []) (res : List α)
    (h : flattenLast step (t :: ts) = some res)
    (haligned : ∀ (i : Nat) (run : List α), (t :: ts)[i]? = some run → ∀ r ∈ run,
      (∃ (j : Nat) (run' : List α), i < j ∧ (t :: ts)[j]? = some run' ∧ ∃ x ∈ run', step x ≤ step r) →
      ∃ (j : Nat) (run' : List α), i < j ∧ (t :: ts)[j]? = some run' ∧ ∃ x ∈ run', step x = step r) :
    ∀ (i : Nat) (run : List α), (t :: ts)[i]? = some run → ∀ r ∈ run, ∃ r' ∈ res, step r' = step r := by
  rw [flattenLast_eq step t ts hne, Option.some.injEq] at h
  subst h
  -- induction on the distance to the end of the list
  have key : ∀ (d i : Nat), (t :: ts).length - i = d → ∀ (run : List α), (t :: ts)[i]? = some run → ∀ r ∈ run,
      ∃ r' ∈ specLast step (t :: ts), step r' = step r := by
    intro d
    induction d using Nat.strong_induction_on with
    | _ d ih =>
      intro i hd run hi r hr
      have hilt : i < (t :: ts).length := (List.getElem?_eq_some_iff.1 hi).1
      by_cases hall : ∀ (j : Nat) (run' : List α), i < j → (t :: ts)[j]? = some run' → ∀ x ∈ run', step r < step x
      · exact ⟨r, (mem_specLast step _ r).2 ⟨i, run, hi, hr, hall⟩, rfl⟩
      · simp only [not_forall, not_lt] at hall
        obtain ⟨j, run', hj, hjrun, x, hx, hle⟩ := hall
        obtain ⟨j', run'', hj', hjrun', y, hy, hye⟩ := haligned i run hi r hr ⟨j, run', hj, hjrun, x, hx, hle⟩
        have hj'lt : j' < (t :: ts).length := (List.getElem?_eq_some_iff.1 hjrun').1
        obtain ⟨r', hr', he⟩ := ih ((t :: ts).length - j') (by omega) j' rfl run'' hjrun' y hy
        exact ⟨r', hr', by omega⟩
  intro i run hi r hr
  exact key _ i rfl run hi r hr

/-! #### runs without rows (a header and nothing else): the NaN maximum / minimum of pandas -/

theorem mergeLast_nil_right (m : List α) : mergeLast step m [] = [] := by
  simp [mergeLast, minStep?]

theorem mergeLast_nil_left (t : List α) : mergeLast step [] t = t := by
  simp [mergeLast]

theorem mergeFirst_nil_right (m : List α) : mergeFirst step m [] = m := by
  simp [mergeFirst]

/-- **flatten_first_empty_first**: an empty first run (a header without rows) makes style `first` keep nothing
    (every comparison with the NaN maximum of an empty table is false).  With `flatten_first` (first run non-empty,
    later runs arbitrary) style `first` is characterised for every input. -/
theorem flatten_first_empty_first (ts : List (List α)) : flattenFirst step ([] :: ts) = some [] :=
  flattenFirst_nil step ts

/-- an empty run other than the first changes nothing for style `first`. -/
theorem flatten_first_empty_later (t : List α) (pre post : List (List α)) :
    flattenFirst step (t :: (pre ++ [] :: post)) = flattenFirst step (t :: (pre ++ post)) := by
  simp only [flattenFirst, flattenWith, foldl_append, foldl_cons, mergeFirst_nil_right]

/-- **flatten_last_empty_run**: style `last` forgets everything printed before an empty run (every comparison with
    the NaN minimum of an empty table is false): the result is that of the runs from the empty one on … -/
theorem flatten_last_empty_run (pre post : List (List α)) :
    flattenLast step (pre ++ [] :: post) = flattenLast step ([] :: post) := by
  cases pre with
  | nil => rfl
  | cons p ps =>
    simp only [flattenLast, flattenWith, cons_append, foldl_append, foldl_cons, mergeLast_nil_right]

/-- … and an empty run that comes first is skipped.  With `flatten_last` (later runs non-empty) the three together
    characterise style `last` for every input: cut at the last empty run, drop it, apply `flatten_last`. -/
theorem flatten_last_empty_first (t : List α) (ts : List (List α)) :
    flattenLast step ([] :: t :: ts) = flattenLast step (t :: ts) := by
  simp only [flattenLast, flattenWith, foldl_cons, mergeLast_nil_left]

example : flattenLast (fun r : Int × Nat => r.1) [[(0, 0), (10, 1)], [], [(5, 2)], [(20, 3)]] = some [(5, 2), (20, 3)] := by
  decide

example : flattenFirst (fun r : Int × Nat => r.1) [[(0, 0), (10, 1)], [], [(5, 2), (20, 3)]] = some [(0, 0), (10, 1), (20, 3)] := by
  decide

end Flatten

/-! ## the refusals of `flatten` (table level: `Log.flatten(style, firstindex, lastindex)` on the selected records) -/

/-- **flatten_refuses_missing_step**: a selected table that has rows but no `Step` column: `AssertionError`, whatever
    the style and whatever else is selected. -/
theorem flatten_refuses_missing_step (style : Str) (tabs : List Table)
    (h : ∃ t ∈ tabs, t.rows ≠ [] ∧ stepName ∉ t.cols) : flattenTables style tabs = .error .assert := by
  obtain ⟨t, ht, hr, hc⟩ := h
  have : tabs.any (fun t => !t.rows.isEmpty && !t.cols.contains stepName) = true := by
    rw [any_eq_true]
    refine ⟨t, ht, ?_⟩
    cases hrows : t.rows with
    | nil => exact absurd hrows hr
    | cons a b => simp [hc]
  unfold flattenTables
  rw [this]
  rfl

/-- **flatten_refuses_empty**: an empty selection: `IndexError`. -/
theorem flatten_refuses_empty (style : Str) : flattenTables style [] = .error .index := by
  simp [flattenTables]

/-- **flatten_refuses_style**: two or more selected tables and a style other than `first` / `last` / `all`:
    `ValueError`. -/
theorem flatten_refuses_style (style : Str) (t t' : Table) (ts : List Table)
    (hstep : ∀ x ∈ t :: t' :: ts, x.rows = [] ∨ stepName ∈ x.cols)
    (hs : style ≠ "first".toList ∧ style ≠ "last".toList ∧ style ≠ "all".toList) :
    flattenTables style (t :: t' :: ts) = .error .value := by
  have h0 : (t :: t' :: ts).any (fun t => !t.rows.isEmpty && !t.cols.contains stepName) = false := by
    rw [any_eq_false]
    intro x hx
    rcases hstep x hx with h | h
    · simp [h]
    · simp [h]
  obtain ⟨h1, h2, h3⟩ := hs
  unfold flattenTables
  rw [h0]
  simp only [Bool.false_eq_true, if_false]
  have e1 : (style == "first".toList) = false := by simpa using h1
  have e2 : (style == "last".toList) = false := by simpa using h2
  have e3 : (style == "all".toList) = false := by simpa using h3
  simp only [e1, e2, e3]
  rfl

/-- **flatten_single**: a single selected table is returned as it is (its columns, its rows in order), for every
    style — also an unsupported one: the style is only looked at when there is something to merge. -/
theorem flatten_single (style : Str) (t : Table) (h : t.rows = [] ∨ stepName ∈ t.cols) :
    flattenTables style [t] = .ok t := by
  have h0 : [t].any (fun t => !t.rows.isEmpty && !t.cols.contains stepName) = false := by
    rcases h with h | h <;> simp [h]
  unfold flattenTables
  rw [h0]
  rfl

example : flattenTables "latest".toList
    [⟨["Step".toList], [["0".toList]]⟩, ⟨["Step".toList], [["10".toList]]⟩] = .error .value := by decide

example : flattenTables "all".toList
    [⟨["Step".toList], [["0".toList]]⟩, ⟨["Time".toList], [["0.5".toList]]⟩] = .error .assert := by decide

/-! ## the columns of a merged table (runs with different thermo keywords) -/

theorem mem_unionCols_aux (acc : List Str) (tabs : List Table) (c : Str) :
    c ∈ tabs.foldl (fun acc t => acc ++ t.cols.filter (fun c => !acc.contains c)) acc ↔
      c ∈ acc ∨ ∃ t ∈ tabs, c ∈ t.cols := by
  induction tabs generalizing acc with
  | nil => simp
  | cons t ts ih =>
    rw [foldl_cons, ih]
    simp only [mem_append, mem_filter, mem_cons, exists_eq_or_imp]
    constructor
    · rintro ((h | ⟨h, _⟩) | h)
      · exact Or.inl h
      · exact Or.inr (Or.inl h)
      · exact Or.inr (Or.inr h)
    · rintro (h | h | h)
      · exact Or.inl (Or.inl h)
      · by_cases hc : c ∈ acc
        · exact Or.inl (Or.inl hc)
        · exact Or.inl (Or.inr ⟨h, by simpa using hc⟩)
      · exact Or.inr h

/-- the columns of a merged table are the keywords of the merged runs (each once when no run prints one twice). -/
theorem mem_unionCols (tabs : List Table) (c : Str) : c ∈ unionCols tabs ↔ ∃ t ∈ tabs, c ∈ t.cols := by
  unfold unionCols
  rw [mem_unionCols_aux]
  simp

theorem nodup_unionCols_aux (acc : List Str) (tabs : List Table) (hacc : acc.Nodup)
    (h : ∀ t ∈ tabs, t.cols.Nodup) :
    (tabs.foldl (fun acc t => acc ++ t.cols.filter (fun c => !acc.contains c)) acc).Nodup := by
  induction tabs generalizing acc with
  | nil => simpa using hacc
  | cons t ts ih =>
    rw [foldl_cons]
    apply ih
    · rw [nodup_append]
      refine ⟨hacc, (h t mem_cons_self).filter _, ?_⟩
      intro a ha b hb hab
      subst hab
      simp only [mem_filter] at hb
      simp [ha] at hb
    · intro t' ht'; exact h t' (mem_cons_of_mem _ ht')

theorem nodup_unionCols (tabs : List Table) (h : ∀ t ∈ tabs, t.cols.Nodup) : (unionCols tabs).Nodup :=
  nodup_unionCols_aux [] tabs nodup_nil h

/-- **flatten_columns**: whenever `flatten` merges two or more records, the columns of the result are the union of their
    keyword lists in order of first appearance, whatever the style. -/
theorem flatten_columns (style : Str) (t t' : Table) (ts : List Table) (res : Table)
    (h : flattenTables style (t :: t' :: ts) = .ok res) : res.cols = unionCols (t :: t' :: ts) := by
  unfold flattenTables at h
  simp only at h
  repeat' split at h
  all_goals first | (cases h; rfl) | cases h

/-- every row of a merged table has one cell per column (a keyword a run did not print is filled in, with `nan`). -/
theorem flatten_rows_width (style : Str) (t t' : Table) (ts : List Table) (res : Table)
    (h : flattenTables style (t :: t' :: ts) = .ok res) : ∀ r ∈ res.rows, r.length = res.cols.length := by
  unfold flattenTables at h
  simp only at h
  repeat' split at h
  all_goals first | (cases h; intro r hr; simp only [mem_map] at hr; obtain ⟨_, _, rfl⟩ := hr; simp) | cases h

example : flattenTables "last".toList
    [⟨["Step".toList, "Temp".toList], [["0".toList, "1.5".toList], ["10".toList, "2.5".toList]]⟩,
     ⟨["Step".toList, "Press".toList], [["10".toList, "7".toList]]⟩]
    = .ok ⟨["Step".toList, "Temp".toList, "Press".toList],
        [["0".toList, "1.5".toList, "nan".toList], ["10".toList, "nan".toList, "7".toList]]⟩ := by decide

/-! ## round 6: the `Simulation` records as objects -/

/-- **record_keys**: the keys of a record of the log are `thermo`, followed by `performance` exactly when a timing
    table was assigned to it; no key twice. -/
theorem record_keys (s : Sim) :
    s.keys = "thermo" :: (if s.perf.isSome then ["performance"] else []) ∧ s.keys.Nodup := by
  refine ⟨Sim.keys_eq s, ?_⟩
  rw [Sim.keys_eq]
  cases s.perf.isSome <;> decide

/-- **record_getitem_iff**: `sim[key]` refuses (KeyError) exactly for keys other than `thermo` and — when a timing table
    was assigned — `performance`; the tables behind the keys are the ones that were assigned. -/
theorem record_getitem_iff (s : Sim) (key : String) :
    (s.obj.getItemRefuses key = true ↔ key ≠ "thermo" ∧ (key ≠ "performance" ∨ s.perf = none)) ∧
      s.obj.thermo = some s.thermo ∧ s.obj.perf = s.perf := by
  refine ⟨?_, Sim.obj_thermo s⟩
  have hk : s.obj.keys = s.keys := rfl
  unfold SimObj.getItemRefuses
  rw [hk, Sim.keys_eq]
  cases hp : s.perf with
  | none => simp
  | some p => simp

/-- **setter_again**: assigning a table a second time replaces the value and does not list the key twice. -/
theorem setter_again (o : SimObj) (a b : Table) (p q : Perf) :
    ((o.setThermo a).setThermo b).keys = (o.setThermo a).keys ∧ ((o.setThermo a).setThermo b).thermo = some b ∧
    ((o.setPerf p).setPerf q).keys = (o.setPerf p).keys ∧ ((o.setPerf p).setPerf q).perf = some q :=
  ⟨(setThermo_again o a b).1, (setThermo_again o a b).2, (setPerf_again o p q).1, (setPerf_again o p q).2⟩

/-- **setter_keys_nodup**: whatever sequence of assignments, no key is listed twice. -/
theorem setter_keys_nodup (o : SimObj) (h : o.keys.Nodup) (t : Table) (p : Perf) :
    (o.setThermo t).keys.Nodup ∧ (o.setPerf p).keys.Nodup := ⟨setThermo_nodup o t h, setPerf_nodup o p h⟩

/-- **flatten_result_object**: the object `flatten` returns has the merged table, no timing table and the one key
    `thermo`. -/
theorem flatten_result_object (t : Table) :
    (flattenObj t).keys = ["thermo"] ∧ (flattenObj t).thermo = some t ∧ (flattenObj t).perf = none := ⟨rfl, rfl, rfl⟩

example : (Sim.obj ⟨⟨["Step".toList], []⟩, some ⟨[], []⟩⟩).getItemRefuses "performance" = false := by decide
example : (Sim.obj ⟨⟨["Step".toList], []⟩, none⟩).getItemRefuses "performance" = true := by decide

/-! ## round 6: the merge loop of `flatten` as coded (style looked at once per merged run) -/

section FlattenStyle
variable {α : Type} (step : α → Int)

/-- **flattenStyle_first / _last / _all**: with a supported style the loop of the source (`Gen.LogSrc.merge`, proved equal
    to `mergeStyle`) computes the folds the `flatten_first…` / `flatten_last…` / `flatten_all` theorems are about. -/
theorem flattenStyle_first (runs : List (List α)) : flattenStyle step "first".toList runs =
    match flattenFirst step runs with | none => .error .index | some r => .ok r := by
  cases runs with
  | nil => rfl
  | cons t ts => exact mergeLoop_of step _ _ (mergeStyle_first step) t ts

theorem flattenStyle_last (runs : List (List α)) : flattenStyle step "last".toList runs =
    match flattenLast step runs with | none => .error .index | some r => .ok r := by
  cases runs with
  | nil => rfl
  | cons t ts => exact mergeLoop_of step _ _ (mergeStyle_last step) t ts

theorem flattenStyle_all (runs : List (List α)) : flattenStyle step "all".toList runs =
    match flattenAll runs with | none => .error .index | some r => .ok r := by
  cases runs with
  | nil => rfl
  | cons t ts => exact mergeLoop_of step _ _ (mergeStyle_all step) t ts

/-- **flattenStyle_refuses_iff**: the loop raises `ValueError` exactly when the style is unsupported AND there is a second
    record to merge; `IndexError` exactly on an empty selection; nothing else is raised by the loop. -/
theorem flattenStyle_refuses_iff (style : Str) (runs : List (List α)) :
    (flattenStyle step style runs = .error .value ↔ ¬ IsStyle style ∧ 2 ≤ runs.length) ∧
    (flattenStyle step style runs = .error .index ↔ runs = []) ∧
    (∀ e, flattenStyle step style runs = .error e → e = .value ∨ e = .index) := by
  cases runs with
  | nil => simp [flattenStyle]
  | cons t ts =>
    cases ts with
    | nil => simp [flattenStyle, mergeLoop]
    | cons t' ts =>
      by_cases hs : IsStyle style
      · obtain ⟨f, hf⟩ : ∃ f : List α → List α → List α, ∀ m t, mergeStyle step style m t = .ok (f m t) := by
          rcases hs with rfl | rfl | rfl
          · exact ⟨_, mergeStyle_first step⟩
          · exact ⟨_, mergeStyle_last step⟩
          · exact ⟨_, mergeStyle_all step⟩
        simp [flattenStyle, mergeLoop_of step style f hf, hs]
      · simp [flattenStyle, mergeLoop_bad step style hs, hs]

/-- **flattenStyle_single**: one selected record is returned as it is, whatever the style string. -/
theorem flattenStyle_single (style : Str) (t : List α) : flattenStyle step style [t] = .ok t := rfl

example : flattenStyle (fun r : Int × Nat => r.1) "latest".toList [[(0, 0)], [(1, 1)]] = .error .value := by decide
example : flattenStyle (fun r : Int × Nat => r.1) "latest".toList [[(0, 0)]] = .ok [(0, 0)] := by decide
end FlattenStyle

/-! ## round 6: call forms (arguments left out) and the end-to-end statements -/

/-- **call_defaults**: `read(x)` appends, `Log(x)` is a read into a new object, `flatten()` is `flatten('last')` over all
    records — with the defaults regenerated from the signatures of the source. -/
theorem call_defaults (st : LogState) (lines : List Str) (a b : Option Int) :
    readCall st none lines = readLog st true lines ∧
    ctorCall (some lines) = readLog LogState.empty true lines ∧ ctorCall none = .ok LogState.empty ∧
    flattenCall st none a b = flattenCall st (some "last".toList) a b := ⟨rfl, rfl, rfl, rfl⟩

/-- **ctor_render**: `Log(text)` of a log printed from a specification: exactly the printed runs (token tables, one
    record per run in order, each with the single key `thermo`), the version string and its date. -/
theorem ctor_render (S : LogSpec) (h : S.WF) (hperf : ∀ l ∈ renderLog S, PerfQuiet l)
    (d : Date) (hd : dateOf S.version = .ok d) :
    ∃ st, ctorCall (some (renderLog S)) = .ok st ∧
      st.sims.map Sim.thermo = S.runs.map RunSpec.table ∧ (∀ s ∈ st.sims, s.keys = ["thermo"]) ∧
      st.version = some S.version ∧ st.date = some d := by
  refine ⟨_, read_render S h hperf d hd LogState.empty true, ?_, ?_, rfl, rfl⟩
  · simp [startState, LogState.empty, Function.comp_def]
  · intro s hs
    simp only [startState, LogState.empty, if_true, nil_append, mem_map] at hs
    obtain ⟨r, _, rfl⟩ := hs
    rfl

/-- **ctor_render_text**: the same from the TEXT of the log (lines joined by `\n`, the model splitting it itself). -/
theorem ctor_render_text (S : LogSpec) (h : S.WF) (hperf : ∀ l ∈ renderLog S, PerfQuiet l)
    (hnl : ∀ l ∈ renderLog S, '\n' ∉ l) (d : Date) (hd : dateOf S.version = .ok d) :
    ∃ st, readText LogState.empty true (joinLines (renderLog S)) = .ok st ∧
      st.sims.map Sim.thermo = S.runs.map RunSpec.table ∧ st.version = some S.version ∧ st.date = some d := by
  have hne : renderLog S ≠ [] := by simp [renderLog, Layout.lines, LogSpec.toLayout]
  rw [readText_joinLines _ _ _ hne hnl]
  obtain ⟨st, h1, h2, _, h3, h4⟩ := ctor_render S h hperf d hd
  exact ⟨st, h1, h2, h3, h4⟩

/-- **read_then_flatten_all**: reading a well-formed layout into a new log and flattening it with style `all` over the
    model's rows keeps every printed row of every run in printed order (composition of `read_layout` and
    `flatten_all` through the loop of the source). -/
theorem read_then_flatten_all (L : Layout) (h : L.WF) (st : LogState) (hne : L.runs ≠ [])
    (hr : readLog LogState.empty true L.lines = .ok st) :
    flattenStyle (fun r : List Str => (0 : Int)) "all".toList (st.sims.map (fun s => s.thermo.rows)) =
      .ok (L.runs.flatMap (fun r => (nonBlank r.body).map splitWs)) := by
  have e := read_layout L h LogState.empty st true hr
  simp only [if_true, LogState.empty, map_nil, nil_append] at e
  have e2 : st.sims.map (fun s => s.thermo.rows) = L.runs.map (fun r => (nonBlank r.body).map splitWs) := by
    have := congrArg (map Table.rows) e
    simpa [map_map, Function.comp_def, Run.table] using this
  rw [e2, flattenStyle_all, flatten_all _ (by simpa using hne)]
  simp [flatMap_def]


/-! ## round 6: `flattenTables` runs the merge loop of the source -/

/-- the cells of a merged row laid out under the union of the columns (`nan` where the run did not print the keyword) -/
def projectRow (cols : List Str) (r : Row) : List Str :=
  cols.map (fun c => match r.cells.find? (fun x => x.1 == c) with | some x => x.2 | none => "nan".toList)

theorem flatten_uses_merge_loop (style : Str) (t t' : Table) (ts : List Table) (rows : List (List Row))
    (hassert : (t :: t' :: ts).any (fun t => !t.rows.isEmpty && !t.cols.contains stepName) = false)
    (hstyle : IsStyle style)
    (hstep : style = "all".toList ∨ ∀ x ∈ t :: t' :: ts, stepName ∈ x.cols)
    (hrows : (t :: t' :: ts).mapM (tableRows (!(style == "all".toList))) = .ok rows) :
    flattenTables style (t :: t' :: ts) =
      (flattenStyle Row.step style rows).map
        (fun rs => ⟨unionCols (t :: t' :: ts), rs.map (projectRow (unionCols (t :: t' :: ts)))⟩) := by
  have hattr : (!(style == "all".toList) && (t :: t' :: ts).any (fun t => !t.cols.contains stepName)) = false := by
    rcases hstep with h | h
    · simp [h]
    · have : (t :: t' :: ts).any (fun t => !t.cols.contains stepName) = false := by
        rw [any_eq_false]; intro x hx; simpa using h x hx
      rw [this]; simp
  unfold flattenTables
  rw [hassert]
  simp only [Bool.false_eq_true, if_false]
  rcases hstyle with rfl | rfl | rfl
  · have e1 : ("first".toList == "last".toList) = false := by decide
    have e2 : ("first".toList == "all".toList) = false := by decide
    simp only [e2, Bool.not_false, Bool.true_and] at hattr hrows
    simp only [beq_self_eq_true, e1, e2, Bool.true_or, Bool.not_true, if_false, Bool.false_eq_true,
      Bool.not_false, Bool.true_and, hattr, hrows, if_true, flattenStyle_first]
    cases flattenFirst Row.step rows <;> rfl
  · have e1 : ("last".toList == "first".toList) = false := by decide
    have e2 : ("last".toList == "all".toList) = false := by decide
    simp only [e2, Bool.not_false, Bool.true_and] at hattr hrows
    simp only [beq_self_eq_true, e1, e2, Bool.true_or, Bool.or_true, Bool.not_true, if_false,
      Bool.false_eq_true, Bool.not_false, Bool.true_and, hattr, hrows, if_true, flattenStyle_last, Bool.false_or]
    cases flattenLast Row.step rows <;> rfl
  · have e1 : ("all".toList == "first".toList) = false := by decide
    have e2 : ("all".toList == "last".toList) = false := by decide
    simp only [beq_self_eq_true, Bool.not_true] at hrows
    simp only [beq_self_eq_true, e1, e2, Bool.true_or, Bool.or_true, Bool.not_true, if_false,
      Bool.false_eq_true, Bool.not_false, hrows, if_true, flattenStyle_all, Bool.false_or, Bool.false_and]
    cases flattenAll rows <;> rfl

example : flattenTables "first".toList
    [⟨["Step".toList, "Temp".toList], [["0".toList, "1.5".toList], ["10".toList, "2.5".toList]]⟩,
     ⟨["Step".toList, "Press".toList], [["10".toList, "7".toList], ["20".toList, "8".toList]]⟩] =
    (flattenStyle Row.step "first".toList
      [[⟨0, [("Step".toList, "0".toList), ("Temp".toList, "1.5".toList)]⟩,
        ⟨10, [("Step".toList, "10".toList), ("Temp".toList, "2.5".toList)]⟩],
       [⟨10, [("Step".toList, "10".toList), ("Press".toList, "7".toList)]⟩,
        ⟨20, [("Step".toList, "20".toList), ("Press".toList, "8".toList)]⟩]]).map
      (fun rs => ⟨["Step".toList, "Temp".toList, "Press".toList],
        rs.map (projectRow ["Step".toList, "Temp".toList, "Press".toList])⟩) := by decide

/-! ## round 6: numeric tables need no quietness hypothesis -/

theorem mem_of_containsStr (t l : Str) (h : containsStr t l = true) : ∀ c ∈ t, c ∈ l := by
  induction l with
  | nil =>
    simp only [containsStr, List.isEmpty_iff] at h
    subst h; intro c hc; simp at hc
  | cons a as ih =>
    simp only [containsStr, Bool.or_eq_true] at h
    rcases h with h | h
    · intro c hc
      exact (List.isPrefixOf_iff_prefix.mp h).subset hc
    · intro c hc; exact mem_cons_of_mem _ (ih h c hc)

/-- a line without the capitals `M`, `P`, `L` holds no trigger string of `Log.read` (every one of the five kinds
    contains one of them). -/
theorem quiet_of_no_capital (l : Str) (hM : 'M' ∉ l) (hP : 'P' ∉ l) (hL : 'L' ∉ l) :
    NoTrigger l ∧ PerfQuiet l := by
  have key : ∀ (ts : List Str), (∀ t ∈ ts, 'M' ∈ t ∨ 'P' ∈ t ∨ 'L' ∈ t) → hasAny ts l = false := by
    intro ts hts
    rw [hasAny, any_eq_false]
    intro t ht hc
    have := mem_of_containsStr t l hc
    rcases hts t ht with h | h | h
    · exact hM (this _ h)
    · exact hP (this _ h)
    · exact hL (this _ h)
  refine ⟨⟨key _ (by decide), key _ (by decide)⟩, Or.inr ⟨key _ (by decide), key _ (by decide)⟩⟩

/-- the characters of a printed number (`-13.44`, `1e-3`, `2.5E+05`, `nan`, `inf`, `-inf`). -/
def isNumChar (c : Char) : Bool := c.isDigit || "+-.eEnaif".toList.contains c

theorem renderCells_chars (cells : List Cell) (trail : Str) (p : Char → Prop)
    (hpad : ∀ c ∈ cells, ∀ x ∈ c.pad, p x) (htok : ∀ c ∈ cells, ∀ x ∈ c.tok, p x) (htr : ∀ x ∈ trail, p x) :
    ∀ x ∈ renderCells cells trail, p x := by
  intro x hx
  simp only [renderCells, mem_append, mem_flatMap] at hx
  rcases hx with ⟨c, hc, h | h⟩ | h
  · exact hpad c hc x h
  · exact htok c hc x h
  · exact htr x h

theorem cellsOk_pad (b : Bool) (cells : List Cell) (h : cellsOk b cells = true) :
    ∀ c ∈ cells, c.pad.all isWs = true := by
  induction cells generalizing b with
  | nil => intro c hc; simp at hc
  | cons a as ih =>
    simp only [cellsOk, Bool.and_eq_true] at h
    intro c hc
    rcases mem_cons.mp hc with rfl | hc
    · exact h.1.1.1.1
    · exact ih false h.2 c hc

/-- **numeric_row_quiet**: a printed thermo line whose tokens are numbers (padding = whitespace) contains no trigger
    string: the quietness hypotheses of `read_render` / `ctor_render` about the data rows hold for every numeric table. -/
theorem numeric_row_quiet (cells : List Cell) (trail : Str) (h : lineOk cells trail)
    (hnum : ∀ c ∈ cells, c.tok.all isNumChar = true) :
    NoTrigger (renderCells cells trail) ∧ PerfQuiet (renderCells cells trail) := by
  have hall : ∀ x ∈ renderCells cells trail, isWs x = true ∨ isNumChar x = true := by
    apply renderCells_chars
    · intro c hc x hx
      left
      exact (List.all_eq_true.mp (cellsOk_pad true cells h.2.1 c hc)) x hx
    · intro c hc x hx
      right
      exact (List.all_eq_true.mp (hnum c hc)) x hx
    · intro x hx
      left
      exact (List.all_eq_true.mp h.2.2) x hx
  have no : ∀ ch : Char, isWs ch = false → isNumChar ch = false → ch ∉ renderCells cells trail := by
    intro ch h1 h2 hm
    rcases hall ch hm with h | h
    · rw [h1] at h; cases h
    · rw [h2] at h; cases h
  exact quiet_of_no_capital _ (no 'M' (by decide) (by decide)) (no 'P' (by decide) (by decide))
    (no 'L' (by decide) (by decide))

example : NoTrigger (renderCells [⟨[], "0".toList⟩, ⟨"\t".toList, "300.5".toList⟩, ⟨" ".toList, "-1.3e-4".toList⟩] []) :=
  (numeric_row_quiet _ _ (by decide) (by decide)).1


/-! ## round 6: the refusals of `flatten`, exactly -/

theorem tableRows_error (b : Bool) (t : Table) (e : Err) (h : tableRows b t = .error e) : e = .type := by
  unfold tableRows at h
  generalize t.rows = rows at h
  induction rows with
  | nil => simp [List.mapM_nil, pure, Except.pure] at h
  | cons r rs ih =>
    rw [List.mapM_cons] at h
    simp only [bind, Except.bind, pure, Except.pure] at h
    split at h
    · rename_i e' he
      cases h
      repeat' split at he
      all_goals first | (cases he; rfl) | cases he
    · rename_i v hv
      split at h
      · rename_i e' he; cases h; exact ih he
      · cases h

theorem mapM_tableRows_error (b : Bool) (tabs : List Table) (e : Err) (h : tabs.mapM (tableRows b) = .error e) :
    e = .type := by
  induction tabs with
  | nil => simp [List.mapM_nil, pure, Except.pure] at h
  | cons t ts ih =>
    rw [List.mapM_cons] at h
    simp only [bind, Except.bind, pure, Except.pure] at h
    split at h
    · rename_i e' he; cases h; exact tableRows_error b t _ he
    · split at h
      · rename_i e' he; cases h; exact ih he
      · cases h

theorem mapM_tableRows_length (b : Bool) (tabs : List Table) (rows : List (List Row))
    (h : tabs.mapM (tableRows b) = .ok rows) : rows.length = tabs.length := by
  induction tabs generalizing rows with
  | nil => simp [List.mapM_nil, pure, Except.pure] at h; subst h; rfl
  | cons t ts ih =>
    rw [List.mapM_cons] at h
    simp only [bind, Except.bind, pure, Except.pure] at h
    split at h
    · cases h
    · split at h
      · cases h
      · rename_i v hv vs hvs
        cases h
        simp [ih _ hvs]

/-- the Step assertion of `flattenTables` -/
def AssertFails (tabs : List Table) : Prop := ∃ t ∈ tabs, t.rows ≠ [] ∧ stepName ∉ t.cols

theorem assertFails_iff (tabs : List Table) :
    tabs.any (fun t => !t.rows.isEmpty && !t.cols.contains stepName) = true ↔ AssertFails tabs := by
  rw [any_eq_true]
  constructor
  · rintro ⟨x, hx, hc⟩
    refine ⟨x, hx, ?_, ?_⟩
    · intro e; simp [e] at hc
    · intro e; simp [e] at hc
  · rintro ⟨x, hx, h1, h2⟩
    refine ⟨x, hx, ?_⟩
    cases hr : x.rows with
    | nil => exact absurd hr h1
    | cons a b => simp [h2]

/-- **flatten_refusals_iff**: which exception `flatten` raises, exactly: AssertionError iff a selected record has rows
    and no `Step` column; otherwise IndexError iff the selection is empty; otherwise ValueError iff two or more records
    are selected and the style is none of `first` / `last` / `all`. -/
theorem flatten_refusals_iff (style : Str) (tabs : List Table) :
    (flattenTables style tabs = .error .assert ↔ AssertFails tabs) ∧
    (flattenTables style tabs = .error .index ↔ ¬ AssertFails tabs ∧ tabs = []) ∧
    (flattenTables style tabs = .error .value ↔ ¬ AssertFails tabs ∧ 2 ≤ tabs.length ∧ ¬ IsStyle style) := by
  by_cases ha : AssertFails tabs
  · have h := flatten_refuses_missing_step style tabs ha
    simp [h, ha]
  · have h0 : tabs.any (fun t => !t.rows.isEmpty && !t.cols.contains stepName) = false := by
      rw [← Bool.not_eq_true, assertFails_iff]; exact ha
    simp only [ha, not_false_eq_true, true_and, iff_false]
    match tabs, h0 with
    | [], _ => simp [flattenTables]
    | [t], h0 =>
      have : flattenTables style [t] = .ok t := by unfold flattenTables; rw [h0]; rfl
      simp [this]
    | t :: t' :: ts, h0 =>
      by_cases hs : IsStyle style
      · have hns : (!(style == "first".toList || style == "last".toList || style == "all".toList)) = false := by
          rcases hs with rfl | rfl | rfl <;> decide
        simp only [hs, not_true_eq_false, and_false, iff_false, length_cons, reduceCtorEq]
        unfold flattenTables
        rw [h0]
        simp only [Bool.false_eq_true, if_false, hns]
        refine ⟨?_, ?_, ?_⟩
        all_goals intro h
        all_goals repeat' split at h
        all_goals try cases h
        all_goals first
          | (rename_i e he; have := mapM_tableRows_error _ _ _ he; cases this)
          | (rename_i rows hrows _ hm
             have hl := mapM_tableRows_length _ _ _ hrows
             cases rows with
             | nil => simp at hl
             | cons r rs =>
               simp only [flattenFirst, flattenLast, flattenAll, flattenWith] at hm
               repeat' split at hm
               all_goals cases hm)
      · have h := flatten_refuses_style style t t' ts (by
            intro x hx
            by_contra hc
            push Not at hc
            exact ha ⟨x, hx, hc.1, hc.2⟩)
          ⟨fun e => hs (Or.inl e), fun e => hs (Or.inr (Or.inl e)), fun e => hs (Or.inr (Or.inr e))⟩
        simp [h, hs]

example : AssertFails [⟨["Step".toList], [["0".toList]]⟩, ⟨["Time".toList], [["0.5".toList]]⟩] :=
  ⟨⟨["Time".toList], [["0.5".toList]]⟩, by simp, by decide, by decide⟩

/-! ## round 6: statements about the regenerated functions, call sequences, input forms -/

/-- **gen_read_tables**: `read_tables` stated directly about the functions regenerated from the source: the pass of
    `Gen.LogSrc.step` from `Gen.LogSrc.init`, closed by `Gen.LogSrc.finish`, followed by the table loop gives one table
    per run of any well-formed layout, in order, with the header tokens as columns and the printed lines as rows — also
    when the last run is cut short. -/
theorem gen_read_tables (L : Layout) (h : L.WF) (hv : Bool) :
    let sc := Gen.LogSrc.finish (L.lines.foldl Gen.LogSrc.step (Gen.LogSrc.init hv))
    readBlocks (nonBlank L.lines) sc.thermoHeaders sc.thermoFooters = .ok (L.runs.map Run.table) := by
  intro sc
  have := gen_tables_eq_model hv L.lines
  simp only at this
  show readBlocks _ (Gen.LogSrc.finish _).thermoHeaders (Gen.LogSrc.finish _).thermoFooters = _
  rw [this]
  exact thermoTables_layout L h _ rfl

/-- **read_sequence_default**: `log = Log(a); log.read(b)` with the flags left out: the records are the tables of `a`
    followed by the tables of `b`, each set as it is read alone. -/
theorem read_sequence_default (a b : List Str) (st1 st2 : LogState)
    (h1 : ctorCall (some a) = .ok st1) (h2 : readCall st1 none b = .ok st2) :
    ∃ ta tb, tablesOf a = .ok ta ∧ tablesOf b = .ok tb ∧ st2.sims.map Sim.thermo = ta ++ tb := by
  obtain ⟨ta, hta, e1⟩ := read_append LogState.empty st1 a h1
  obtain ⟨tb, htb, e2⟩ := read_append st1 st2 b h2
  refine ⟨ta, tb, hta, htb, ?_⟩
  rw [e2, e1]
  simp [LogState.empty]

/-- **read_input_forms**: the same log given as text (or bytes), as the name of a file holding it, or as an open binary
    stream over it — wherever that stream stands — is read to the same records, version and date (or refused with the
    same exception); a stream opened in text mode is refused with ValueError and the log is left as it was. -/
theorem read_input_forms (st : LogState) (append : Option Bool) (t : Str) (s : Stream) (hs : s.lines = splitLines t) :
    (readInput st append (.text t)).map Prod.fst = (readInput st append (.file t)).map Prod.fst ∧
    (readInput st append (.stream s)).map Prod.fst = (readInput st append (.text t)).map Prod.fst ∧
    readInput st append .textStream = .error .value := by
  refine ⟨rfl, ?_, rfl⟩
  obtain ⟨s', _, e⟩ := read_stream st (append.getD Gen.Log.readAppendDefault) s
  simp only [readInput, e, hs, readCall]
  cases readLog st (append.getD Gen.Log.readAppendDefault) (splitLines t) <;> rfl

/-! ## round 6: printer ∘ reader = identity on the simple log grammar -/

/-- a run of the simple grammar: a header line of keyword cells that holds no trigger, data rows of NUMBERS (nothing
    asked of them beyond being numbers, properly padded and no wider than the header), and — unless the run is cut
    short — a loop line and trigger-free lines after it. -/
structure RunSpec.Simple (r : RunSpec) (last : Bool) : Prop where
  banner_perf : PerfQuiet r.banner.line
  header_ok : lineOk r.header r.headerTrail
  header_quiet : NoTrigger (renderCells r.header r.headerTrail) ∧ PerfQuiet (renderCells r.header r.headerTrail)
  rows_ok : ∀ x ∈ r.rows, lineOk x.1 x.2 ∧ x.1.length ≤ r.header.length ∧ ∀ c ∈ x.1, c.tok.all isNumChar = true
  tail_ok : match r.tail with
    | none => last = true
    | some (x, post) =>
      hasAny thermoStart (loopLine x.1 x.2.1 x.2.2.1 x.2.2.2) = false ∧
        PerfQuiet (loopLine x.1 x.2.1 x.2.2.1 x.2.2.2) ∧ ∀ l ∈ post, Quiet l ∧ PerfQuiet l

def specRunsSimple : List RunSpec → Prop
  | [] => True
  | [r] => r.Simple true
  | r :: r' :: rs => r.Simple false ∧ specRunsSimple (r' :: rs)

structure LogSpec.Simple (S : LogSpec) : Prop where
  version_quiet : NoTrigger (versionLineOf S.version) ∧ PerfQuiet (versionLineOf S.version)
  head_quiet : ∀ l ∈ S.head, Quiet l ∧ PerfQuiet l
  runs_ok : specRunsSimple S.runs

theorem RunSpec.Simple.wf {r : RunSpec} {last : Bool} (h : r.Simple last) : r.WF last where
  header_ok := h.header_ok
  header_quiet := h.header_quiet.1
  rows_ok := fun x hx => ⟨(h.rows_ok x hx).1, (h.rows_ok x hx).2.1,
    (numeric_row_quiet _ _ (h.rows_ok x hx).1 (h.rows_ok x hx).2.2).1⟩
  tail_ok := by
    have := h.tail_ok
    cases ht : r.tail with
    | none => rw [ht] at this; simpa using this
    | some xp =>
      obtain ⟨x, post⟩ := xp
      rw [ht] at this
      exact ⟨this.1, fun l hl => (this.2.2 l hl).1⟩

theorem specRunsSimple_wf : ∀ rs : List RunSpec, specRunsSimple rs → specRunsWF rs
  | [], _ => trivial
  | [r], h => RunSpec.Simple.wf h
  | r :: r' :: rs, h => ⟨RunSpec.Simple.wf h.1, specRunsSimple_wf (r' :: rs) h.2⟩

theorem RunSpec.Simple.perf {r : RunSpec} {last : Bool} (h : r.Simple last) : ∀ l ∈ r.toRun.lines, PerfQuiet l := by
  intro l hl
  simp only [Run.lines, RunSpec.toRun, mem_append, mem_singleton, mem_replicate, mem_map] at hl
  rcases hl with (((rfl | ⟨_, rfl⟩) | rfl) | ⟨x, hx, rfl⟩) | hl
  · exact h.banner_perf
  · exact Or.inl rfl
  · exact h.header_quiet.2
  · exact (numeric_row_quiet _ _ (h.rows_ok x hx).1 (h.rows_ok x hx).2.2).2
  · have := h.tail_ok
    cases ht : r.tail with
    | none => rw [ht] at hl; simp at hl
    | some xp =>
      obtain ⟨x, post⟩ := xp
      rw [ht] at hl this
      simp only [Option.map_some, mem_cons] at hl
      rcases hl with rfl | hl
      · exact this.2.1
      · exact (this.2.2 l hl).2

theorem specRunsSimple_perf : ∀ rs : List RunSpec, specRunsSimple rs → ∀ r ∈ rs, ∀ l ∈ r.toRun.lines, PerfQuiet l
  | [], _ => by intro _ hr; simp at hr
  | [r], h => by intro r' hr'; simp only [mem_singleton] at hr'; subst hr'; exact RunSpec.Simple.perf h
  | r :: r' :: rs, h => by
    intro x hx
    rcases mem_cons.mp hx with rfl | hx
    · exact RunSpec.Simple.perf h.1
    · exact specRunsSimple_perf (r' :: rs) h.2 x hx

/-- **ctor_grammar**: printer ∘ reader = identity on the simple LAMMPS-log grammar — `LAMMPS (<version>)`, trigger-free
    preamble, any number of runs (either memory banner, blank gap, a header of keyword cells, ANY rows of numbers,
    loop line and trigger-free text after it; the last run possibly cut short): `Log(renderLog S)` has exactly one
    record per run, in order, whose table has the printed keywords as columns and the printed numbers row for row, the
    version string and its date.  No hypothesis is left on the data rows. -/
theorem ctor_grammar (S : LogSpec) (h : S.Simple) (d : Date) (hd : dateOf S.version = .ok d) :
    ∃ st, ctorCall (some (renderLog S)) = .ok st ∧
      st.sims.map Sim.thermo = S.runs.map RunSpec.table ∧ (∀ s ∈ st.sims, s.keys = ["thermo"]) ∧
      st.version = some S.version ∧ st.date = some d := by
  have hwf : S.WF := ⟨h.version_quiet.1, fun l hl => (h.head_quiet l hl).1, specRunsSimple_wf _ h.runs_ok⟩
  refine ctor_render S hwf ?_ d hd
  intro l hl
  simp only [renderLog, Layout.lines, LogSpec.toLayout, mem_cons, mem_append, mem_flatMap, mem_map] at hl
  rcases hl with (rfl | hl) | ⟨_, ⟨r, hr, rfl⟩, hl⟩
  · exact h.version_quiet.2
  · exact (h.head_quiet l hl).2
  · exact specRunsSimple_perf _ h.runs_ok r hr l hl

theorem demoSpec_Simple : demoSpec.Simple where
  version_quiet := by decide
  head_quiet := by decide
  runs_ok := by
    refine ⟨⟨by decide, by decide, by decide, by decide, ?_⟩, ⟨by decide, by decide, by decide, by decide, ?_⟩⟩
    · show _ ∧ _ ∧ _; decide
    · rfl

example : ∃ st, ctorCall (some (renderLog demoSpec)) = .ok st ∧
    st.sims.map Sim.thermo = demoSpec.runs.map RunSpec.table ∧ (∀ s ∈ st.sims, s.keys = ["thermo"]) ∧
    st.version = some demoSpec.version ∧ st.date = some ⟨2024, 2, 29⟩ :=
  ctor_grammar demoSpec demoSpec_Simple ⟨2024, 2, 29⟩ (by decide)

/-! ## statement audit: non-vacuity — every theorem with hypotheses applied to a concrete, non-trivial value with ALL its
    hypotheses discharged (the `decide` examples above show conclusions; these show that the hypotheses can be met) -/

section AuditExamples

/-- the demo log (two runs, one cut short) read into a new object. -/
theorem demo_read : ∃ st1, readLog LogState.empty true (renderLog demoSpec) = .ok st1 :=
  ⟨_, read_render demoSpec demoSpec_WF (by decide) ⟨2024, 2, 29⟩ (by decide) LogState.empty true⟩

-- `read_append`, `append_concat`, `read_sequence_default`, `read_version_kept`, `read_version_new`: the demo log read
-- twice (the second read finds the version known, the first finds none).
example : ∃ (st1 st2 : LogState) (ts : List Table), tablesOf (renderLog demoSpec) = .ok ts ∧
    st2.sims.map Sim.thermo = st1.sims.map Sim.thermo ++ ts ∧ st1.sims.length = 2 ∧
    st2.version = st1.version ∧ st1.version = some demoSpec.version := by
  obtain ⟨st1, h1⟩ := demo_read
  obtain ⟨st2, h2⟩ : ∃ st2, readLog st1 true (renderLog demoSpec) = .ok st2 :=
    ⟨_, read_render demoSpec demoSpec_WF (by decide) ⟨2024, 2, 29⟩ (by decide) st1 true⟩
  obtain ⟨ts, hts, e⟩ := read_append st1 st2 (renderLog demoSpec) h2
  have hc := append_concat (renderLog demoSpec) st1 st2 st1 h2 h1
  have hv1 := read_version_new LogState.empty st1 true (renderLog demoSpec) h1 rfl
  have hlen : st1.sims.length = 2 := by
    have := read_layout demoSpec.toLayout (toLayout_WF demoSpec demoSpec_WF) _ _ true h1
    have := congrArg List.length this
    simp only [↓reduceIte, LogState.empty, length_map, map_nil, nil_append] at this
    rw [this]; rfl
  have hver : st1.version = some demoSpec.version := by
    rw [hv1.1]; decide
  have hk := read_version_kept st1 st2 true (renderLog demoSpec) h2 (by simp [startState, hver])
  obtain ⟨ta, tb, _, _, _⟩ := read_sequence_default (renderLog demoSpec) (renderLog demoSpec) st1 st2 h1 h2
  exact ⟨st1, st2, ts, hts, e, hlen, hk.1, hver⟩

-- `read_stream_again` itself, on a stream the caller left in the middle of the third line.
example : ∃ (st1 st2 : LogState) (s1 s2 : Stream) (ts : List Table), readLogS LogState.empty true ⟨renderLog demoSpec, 2, 3⟩ = .ok (st1, s1) ∧
    readLogS st1 true s1 = .ok (st2, s2) ∧ tablesOf (renderLog demoSpec) = .ok ts ∧
    st2.sims.map Sim.thermo = ts ++ ts := by
  obtain ⟨st1, h1⟩ := demo_read
  obtain ⟨st2, h2⟩ : ∃ st2, readLog st1 true (renderLog demoSpec) = .ok st2 :=
    ⟨_, read_render demoSpec demoSpec_WF (by decide) ⟨2024, 2, 29⟩ (by decide) st1 true⟩
  obtain ⟨s1, hl1, e1⟩ := read_stream LogState.empty true ⟨renderLog demoSpec, 2, 3⟩
  obtain ⟨s2, hl2, e2⟩ := read_stream st1 true s1
  have g1 : readLogS LogState.empty true ⟨renderLog demoSpec, 2, 3⟩ = .ok (st1, s1) := by
    rw [e1]; show (readLog _ true (renderLog demoSpec)).map _ = _; rw [h1]; rfl
  have g2 : readLogS st1 true s1 = .ok (st2, s2) := by
    rw [e2, hl1]; show (readLog st1 true (renderLog demoSpec)).map _ = _; rw [h2]; rfl
  obtain ⟨ts, hts, e⟩ := read_stream_again LogState.empty st1 st2 ⟨renderLog demoSpec, 2, 3⟩ s1 s2 g1 g2
  exact ⟨st1, st2, s1, s2, ts, g1, g2, hts, by simpa [LogState.empty] using e⟩

-- `read_input_forms`: the text of the demo log and an open stream over it standing in its third line.
example : (readInput LogState.empty none (.stream ⟨renderLog demoSpec, 2, 3⟩)).map Prod.fst =
    (readInput LogState.empty none (.text (joinLines (renderLog demoSpec)))).map Prod.fst :=
  (read_input_forms LogState.empty none (joinLines (renderLog demoSpec)) ⟨renderLog demoSpec, 2, 3⟩
    (splitLines_joinLines _ (by decide) (by decide)).symm).2.1

-- `ctor_render`, `ctor_render_text` (all hypotheses, incl. "no `\n` inside a line").
example : ∃ st, readText LogState.empty true (joinLines (renderLog demoSpec)) = .ok st ∧
    st.sims.map Sim.thermo = demoSpec.runs.map RunSpec.table ∧ st.version = some demoSpec.version ∧
    st.date = some ⟨2024, 2, 29⟩ :=
  ctor_render_text demoSpec demoSpec_WF (by decide) (by decide) ⟨2024, 2, 29⟩ (by decide)
example : ∃ st, ctorCall (some (renderLog demoSpec)) = .ok st ∧ st.sims.map Sim.thermo = demoSpec.runs.map RunSpec.table :=
  let ⟨st, h1, h2, _⟩ := ctor_render demoSpec demoSpec_WF (by decide) ⟨2024, 2, 29⟩ (by decide); ⟨st, h1, h2⟩

-- `read_then_flatten_all`, `gen_read_tables`, `read_tables` on the layout of the demo log.
example : ∃ st, readLog LogState.empty true demoSpec.toLayout.lines = .ok st ∧
    flattenStyle (fun _ : List Str => (0 : Int)) "all".toList (st.sims.map (fun s => s.thermo.rows)) =
      .ok [["0".toList, "300.5".toList, "-13.44".toList], ["10".toList, "290".toList],
           ["10".toList, "1e-3".toList], ["20".toList, "nan".toList]] := by
  obtain ⟨st, h⟩ := demo_read
  refine ⟨st, h, ?_⟩
  rw [read_then_flatten_all demoSpec.toLayout (toLayout_WF demoSpec demoSpec_WF) st (by decide) h]
  decide
example : readBlocks (nonBlank demoLayout.lines)
    (Gen.LogSrc.finish (demoLayout.lines.foldl Gen.LogSrc.step (Gen.LogSrc.init false))).thermoHeaders
    (Gen.LogSrc.finish (demoLayout.lines.foldl Gen.LogSrc.step (Gen.LogSrc.init false))).thermoFooters =
      .ok (demoLayout.runs.map Run.table) := gen_read_tables demoLayout demoLayout_WF false
example : thermoTables (passOf LogState.empty true demoLayout.lines) demoLayout.lines =
    .ok [⟨["Step".toList, "Temp".toList], [["0".toList, "300.5".toList], ["10".toList, "290".toList]]⟩] := by
  rw [read_tables demoLayout demoLayout_WF]; decide

-- `version_date` with a suffix, `splitWs_renderCells` with a non-empty terminated rest, the line theorems.
example : dateOf ("29".toList ++ ' ' :: ("Feb".toList ++ ' ' :: ("2024".toList ++ " - Update 1".toList))) = .ok ⟨2024, 2, 29⟩ :=
  version_date "29".toList "Feb".toList "2024".toList " - Update 1".toList 29 2 2024 (by decide) (by decide) (by decide)
    (Or.inr ⟨' ', "- Update 1".toList, rfl, Or.inl (by decide)⟩) (by decide)
example : splitWs (renderCells [⟨"  ".toList, "10".toList⟩, ⟨"\t".toList, "2.5".toList⟩] " # x".toList) =
    ["10".toList, "2.5".toList] ++ splitWs " # x".toList :=
  splitWs_renderCells _ _ (Or.inr ⟨' ', "# x".toList, rfl, by decide⟩) (by decide)
example : splitLines "Step Temp\r".toList = ["Step Temp\r".toList] := splitLines_one_line _ (by decide)
example : splitLines (joinLines ["Step Temp\r".toList, "0 1.5\x0c".toList, []]) = ["Step Temp\r".toList, "0 1.5\x0c".toList, []] :=
  splitLines_joinLines _ (by decide) (by decide)
example : readText LogState.empty true (joinLines demoLayout.lines) = readLog LogState.empty true demoLayout.lines :=
  readText_joinLines _ _ _ (by decide) (by decide)
example : NoTrigger "  10\t290.5 -1e-3".toList ∧ PerfQuiet "  10\t290.5 -1e-3".toList :=
  quiet_of_no_capital _ (by decide) (by decide) (by decide)

/-! three overlapping runs (restart on the grid) as the value the `flatten_*` theorems are instantiated on -/
def demoRuns : List (List (Int × Nat)) := [[(0, 0), (10, 1), (20, 2)], [(20, 3), (30, 4)], [(30, 5), (40, 6)]]
abbrev stepOf : Int × Nat → Int := fun r => r.1

example : ∃ res, flattenFirst stepOf demoRuns = some res ∧ (10, 1) ∈ res ∧ (20, 3) ∉ res := by
  obtain ⟨res, h, _, hm⟩ := flatten_first stepOf [(0, 0), (10, 1), (20, 2)] [[(20, 3), (30, 4)], [(30, 5), (40, 6)]] (by decide)
  have h' : some res = some [(0, 0), (10, 1), (20, 2), (30, 4), (40, 6)] := h.symm.trans (by decide)
  cases h'
  exact ⟨_, h, by decide, by decide⟩
example : ∃ res, flattenLast stepOf demoRuns = some res ∧ res.Sublist demoRuns.flatten :=
  let ⟨res, h, hs, _⟩ := flatten_last stepOf [(0, 0), (10, 1), (20, 2)] [[(20, 3), (30, 4)], [(30, 5), (40, 6)]] (by decide)
  ⟨res, h, hs⟩
example : flattenAll demoRuns = some demoRuns.flatten := flatten_all demoRuns (by decide)

theorem demoRuns_first : flattenFirst stepOf demoRuns = some [(0, 0), (10, 1), (20, 2), (30, 4), (40, 6)] := by decide
theorem demoRuns_last : flattenLast stepOf demoRuns = some [(0, 0), (10, 1), (20, 3), (30, 5), (40, 6)] := by decide

example : ([(0, 0), (10, 1), (20, 2), (30, 4), (40, 6)] : List (Int × Nat)).Sublist demoRuns.flatten :=
  flatten_first_sublist stepOf demoRuns _ demoRuns_first
example : ([(0, 0), (10, 1), (20, 3), (30, 5), (40, 6)] : List (Int × Nat)).Sublist demoRuns.flatten :=
  flatten_last_sublist stepOf demoRuns _ demoRuns_last
example : (([(0, 0), (10, 1), (20, 2), (30, 4), (40, 6)] : List (Int × Nat)).map stepOf).Nodup :=
  flatten_first_once stepOf demoRuns _ demoRuns_first (by decide)
example : (([(0, 0), (10, 1), (20, 3), (30, 5), (40, 6)] : List (Int × Nat)).map stepOf).Nodup :=
  flatten_last_once stepOf demoRuns _ demoRuns_last (by decide)
example : (([(0, 0), (10, 1), (20, 2), (30, 4), (40, 6)] : List (Int × Nat)).map stepOf).Pairwise (· < ·) :=
  flatten_first_sorted stepOf demoRuns _ demoRuns_first (by decide)
example : (([(0, 0), (10, 1), (20, 3), (30, 5), (40, 6)] : List (Int × Nat)).map stepOf).Pairwise (· < ·) :=
  flatten_last_sorted stepOf demoRuns _ demoRuns_last (by decide)

/-- quantifiers over run indices of `demoRuns` reduce to the three runs -/
theorem demoRuns_idx {P : Nat → List (Int × Nat) → Prop} (h0 : P 0 [(0, 0), (10, 1), (20, 2)])
    (h1 : P 1 [(20, 3), (30, 4)]) (h2 : P 2 [(30, 5), (40, 6)]) :
    ∀ (i : Nat) (run : List (Int × Nat)), demoRuns[i]? = some run → P i run := by
  intro i run hi
  match i, hi with
  | 0, hi => cases hi; exact h0
  | 1, hi => cases hi; exact h1
  | 2, hi => cases hi; exact h2
  | (n + 3), hi => simp [demoRuns] at hi

-- `flatten_first_earliest`: step 30 is printed by runs 1 and 2; the row kept is the one of run 1.
example : ((30, 4) : Int × Nat) ∈ [((20, 3) : Int × Nat), (30, 4)] :=
  flatten_first_earliest stepOf demoRuns _ demoRuns_first (30, 4) (by decide) 1 _ rfl ⟨(30, 4), by decide, rfl⟩
    (fun j run' hj hr => by
      have : j = 0 := by omega
      subst this; cases hr; decide)
-- `flatten_last_latest`: step 20 is printed by runs 0 and 1; the row kept is the one of run 1.
example : ((20, 3) : Int × Nat) ∈ [((20, 3) : Int × Nat), (30, 4)] :=
  flatten_last_latest stepOf [(0, 0), (10, 1), (20, 2)] [[(20, 3), (30, 4)], [(30, 5), (40, 6)]] (by decide) _ demoRuns_last
    (20, 3) (by decide) 1 _ rfl ⟨(20, 3), by decide, rfl⟩
    (fun j run' hj hr => by
      match j, hj, hr with
      | 2, _, hr => cases hr; decide
      | (n + 3), _, hr => simp at hr)

-- `flatten_first_complete` / `flatten_last_complete`: the runs overlap on the shared grid, so `haligned` holds and every
-- printed step is in the result.
example : ∀ (i : Nat) (run : List (Int × Nat)), demoRuns[i]? = some run → ∀ r ∈ run,
    ∃ r' ∈ ([(0, 0), (10, 1), (20, 2), (30, 4), (40, 6)] : List (Int × Nat)), stepOf r' = stepOf r :=
  flatten_first_complete stepOf [(0, 0), (10, 1), (20, 2)] [[(20, 3), (30, 4)], [(30, 5), (40, 6)]] (by decide) _ demoRuns_first
    (demoRuns_idx
      (fun r _ ⟨j, _, hj, _⟩ => absurd hj (by omega))
      (fun r hr _ => by
        simp only [mem_cons, not_mem_nil, or_false] at hr
        rcases hr with rfl | rfl
        · exact ⟨0, _, by omega, rfl, (20, 2), by decide, rfl⟩
        · rename_i h; obtain ⟨j, run', hj, hjr, x, hx, hle⟩ := h
          have : j = 0 := by omega
          subst this; cases hjr
          simp only [mem_cons, not_mem_nil, or_false] at hx
          rcases hx with rfl | rfl | rfl <;> simp [stepOf] at hle)
      (fun r hr _ => by
        simp only [mem_cons, not_mem_nil, or_false] at hr
        rcases hr with rfl | rfl
        · exact ⟨1, _, by omega, rfl, (30, 4), by decide, rfl⟩
        · rename_i h; obtain ⟨j, run', hj, hjr, x, hx, hle⟩ := h
          match j, hj, hjr with
          | 0, _, hjr =>
            cases hjr
            simp only [mem_cons, not_mem_nil, or_false] at hx
            rcases hx with rfl | rfl | rfl <;> simp [stepOf] at hle
          | 1, _, hjr =>
            cases hjr
            simp only [mem_cons, not_mem_nil, or_false] at hx
            rcases hx with rfl | rfl <;> simp [stepOf] at hle))

example : ∀ (i : Nat) (run : List (Int × Nat)), demoRuns[i]? = some run → ∀ r ∈ run,
    ∃ r' ∈ ([(0, 0), (10, 1), (20, 3), (30, 5), (40, 6)] : List (Int × Nat)), stepOf r' = stepOf r :=
  flatten_last_complete stepOf [(0, 0), (10, 1), (20, 2)] [[(20, 3), (30, 4)], [(30, 5), (40, 6)]] (by decide) _ demoRuns_last
    (demoRuns_idx
      (fun r hr h => by
        obtain ⟨j, run', hj, hjr, x, hx, hle⟩ := h
        simp only [mem_cons, not_mem_nil, or_false] at hr
        rcases hr with rfl | rfl | rfl
        · exact (demoRuns_idx (P := fun j run' => 0 < j → ∀ x ∈ run', ¬ stepOf x ≤ stepOf ((0, 0) : Int × Nat))
            (by decide) (by decide) (by decide) j run' hjr hj x hx hle).elim
        · exact (demoRuns_idx (P := fun j run' => 0 < j → ∀ x ∈ run', ¬ stepOf x ≤ stepOf ((10, 1) : Int × Nat))
            (by decide) (by decide) (by decide) j run' hjr hj x hx hle).elim
        · exact ⟨1, _, by omega, rfl, (20, 3), by decide, rfl⟩)
      (fun r hr h => by
        obtain ⟨j, run', hj, hjr, x, hx, hle⟩ := h
        simp only [mem_cons, not_mem_nil, or_false] at hr
        rcases hr with rfl | rfl
        · exact (demoRuns_idx (P := fun j run' => 1 < j → ∀ x ∈ run', ¬ stepOf x ≤ stepOf ((20, 3) : Int × Nat))
            (by decide) (by decide) (by decide) j run' hjr hj x hx hle).elim
        · exact ⟨2, _, by omega, rfl, (30, 5), by decide, rfl⟩)
      (fun r hr h => by
        obtain ⟨j, run', hj, hjr, x, hx, hle⟩ := h
        exact (demoRuns_idx (P := fun j _ => ¬ 2 < j) (by decide) (by decide) (by decide) j run' hjr hj).elim))

/-! the table-level theorems on two runs with different keyword sets -/
def demoTab0 : Table := ⟨["Step".toList, "Temp".toList], [["0".toList, "1.5".toList], ["10".toList, "2.5".toList]]⟩
def demoTabs : List Table :=
  [demoTab0,
   ⟨["Step".toList, "Press".toList], [["10".toList, "7".toList], ["20".toList, "8".toList]]⟩]

example : flattenTables "first".toList (demoTabs ++ [⟨["Time".toList], [["0.5".toList]]⟩]) = .error .assert :=
  flatten_refuses_missing_step _ _ ⟨⟨["Time".toList], [["0.5".toList]]⟩, by decide, by decide, by decide⟩
example : flattenTables "First".toList demoTabs = .error .value :=
  flatten_refuses_style _ _ _ [] (by decide) (by decide)
example : flattenTables "First".toList [demoTab0] = .ok demoTab0 :=
  flatten_single _ _ (Or.inr (by decide))
example : (unionCols demoTabs).Nodup ∧ unionCols demoTabs = ["Step".toList, "Temp".toList, "Press".toList] :=
  ⟨nodup_unionCols demoTabs (by decide), by decide⟩
theorem demoTabs_last : flattenTables "last".toList demoTabs = .ok ⟨["Step".toList, "Temp".toList, "Press".toList],
    [["0".toList, "1.5".toList, "nan".toList], ["10".toList, "nan".toList, "7".toList],
     ["20".toList, "nan".toList, "8".toList]]⟩ := by decide
example : (⟨["Step".toList, "Temp".toList, "Press".toList],
    [["0".toList, "1.5".toList, "nan".toList], ["10".toList, "nan".toList, "7".toList],
     ["20".toList, "nan".toList, "8".toList]]⟩ : Table).cols = unionCols demoTabs :=
  flatten_columns "last".toList _ _ [] _ demoTabs_last
example : ∀ r ∈ ([["0".toList, "1.5".toList, "nan".toList], ["10".toList, "nan".toList, "7".toList],
     ["20".toList, "nan".toList, "8".toList]] : List (List Str)), r.length = 3 :=
  flatten_rows_width "last".toList _ _ [] _ demoTabs_last
example : flattenTables "last".toList demoTabs =
    (flattenStyle Row.step "last".toList
      [[⟨0, [("Step".toList, "0".toList), ("Temp".toList, "1.5".toList)]⟩,
        ⟨10, [("Step".toList, "10".toList), ("Temp".toList, "2.5".toList)]⟩],
       [⟨10, [("Step".toList, "10".toList), ("Press".toList, "7".toList)]⟩,
        ⟨20, [("Step".toList, "20".toList), ("Press".toList, "8".toList)]⟩]]).map
      (fun rs => ⟨unionCols demoTabs, rs.map (projectRow (unionCols demoTabs))⟩) :=
  flatten_uses_merge_loop "last".toList _ _ [] _ (by decide) (Or.inr (Or.inl rfl)) (Or.inr (by decide)) rfl
example : ((SimObj.init (some demoTab0) none).setPerf ⟨[], []⟩).keys.Nodup :=
  (setter_keys_nodup (SimObj.init (some demoTab0) none) (by decide) demoTab0 ⟨[], []⟩).2

end AuditExamples
end Atomman.C19
