/-
  C06 — invariant preservation, part 3: `Atoms.__init__` (`mkAtoms`), `__getitem__`, `__setitem__`,
  `__deepcopy__`, `prop`, `prop_atype`, `extend`.
-/
import Proofs.C06_View

namespace Atomman.C06
set_option linter.unusedSimpArgs false
set_option linter.unusedVariables false

/-! ### `pushObj` -/

theorem pushObj_eq (ob : AtomsObj) (s : State) :
    pushObj ob s = (.ok s.objs.length, { s with objs := s.objs ++ [ob] }) := rfl

theorem obj_push_lt (s : State) (ob : AtomsObj) (o : Nat) (h : o < s.objs.length) :
    ({ s with objs := s.objs ++ [ob] } : State).obj o = s.obj o := by
  simp [State.obj, List.getElem?_append_left h]

theorem obj_push_eq (s : State) (ob : AtomsObj) :
    ({ s with objs := s.objs ++ [ob] } : State).obj s.objs.length = ob := by
  simp [State.obj]

theorem inv_pushObj {κ : Nat → String} {s : State} (h : InvK κ s) (n : Nat) :
    InvK κ { s with objs := s.objs ++ [⟨n, []⟩] } ∧ Ext κ s κ { s with objs := s.objs ++ [⟨n, []⟩] } := by
  have hle : Le s { s with objs := s.objs ++ [⟨n, []⟩] } := by
    refine ⟨Nat.le_refl _, fun _ _ => ⟨rfl, rfl, rfl⟩, by simp, ?_, Nat.le_refl _, fun _ _ => ⟨rfl, rfl⟩⟩
    intro o ho
    rw [obj_push_lt s _ o ho]
    exact ⟨rfl, fun _ _ h => h⟩
  refine ⟨⟨h.heap, ?_, ?_, ?_⟩, hle, fun _ _ => rfl⟩
  · intro ob hob p hp
    simp only [List.mem_append, List.mem_singleton] at hob
    rcases hob with hob | rfl
    · exact (h.props ob hob p hp).of_heap_eq rfl
    · simp at hp
  · intro ob hob
    simp only [List.mem_append, List.mem_singleton] at hob
    rcases hob with hob | rfl
    · exact h.nodup ob hob
    · simp
  · intro y hy
    have := h.syss y hy
    exact ⟨by simp; omega, this.2⟩

/-! ### `Atoms.__init__` -/

/-- what a constructor call leaves behind: nothing when it raised; one more object, with an `atype`
    property, when it returned. -/
def Made (κ : Nat → String) (s : State) (r : Except Err Nat) (s' : State) : Prop :=
  ∃ κ', InvK κ' s' ∧ Ext κ s κ' s' ∧ s'.syss = s.syss ∧
    (∀ e, r = .error e → s' = s) ∧
    (∀ o, r = .ok o → o = s.objs.length ∧ s'.objs.length = s.objs.length + 1 ∧
      ((s'.obj o).find "atype").isSome)

theorem Made.error {κ : Nat → String} {s : State} (h : InvK κ s) (e : Err) : Made κ s (.error e) s :=
  ⟨κ, h, Ext.refl κ s, rfl, fun _ _ => rfl, fun o ho => by cases ho⟩

theorem valOK_default_atype : ValOK ⟨.int, [1], [.int 1]⟩ := by
  constructor
  · rfl
  · intro c hc; simp at hc; subst hc; rfl

theorem valOK_default_pos : ValOK ⟨.flt, [1, 3], [.flt 0, .flt 0, .flt 0]⟩ := by
  constructor
  · rfl
  · intro c hc; simp at hc; subst hc; rfl

theorem inv_mkAtoms {κ : Nat → String} {s : State} (h : InvK κ s) (natoms : Option Int) (atype pos : Option Src)
    (extra : List (String × Src)) (hat : ∀ a, atype = some a → SrcOK κ s "atype" a)
    (hpos : ∀ a, pos = some a → SrcOK κ s "pos" a) (hex : ∀ kv ∈ extra, SrcOK κ s kv.1 kv.2) :
    Post (mkAtoms natoms atype pos extra) s (Made κ s) := by
  unfold mkAtoms
  rw [post_atomic, post_bind_getS]
  simp only []
  have hatS : SrcOK κ s "atype" (atype.getD (.lit ⟨.int, [1], [.int 1]⟩)) := by
    cases atype with
    | none => exact valOK_default_atype
    | some a => exact hat a rfl
  have hposS : SrcOK κ s "pos" (pos.getD (.lit ⟨.flt, [1, 3], [.flt 0, .flt 0, .flt 0]⟩)) := by
    cases pos with
    | none => exact valOK_default_pos
    | some a => exact hpos a rfl
  generalize atype.getD (.lit ⟨.int, [1], [.int 1]⟩) = atypeS at hatS ⊢
  generalize pos.getD (.lit ⟨.flt, [1, 3], [.flt 0, .flt 0, .flt 0]⟩) = posS at hposS ⊢
  -- the three pure size computations
  have key : ∀ n : Nat, Post (mkAtomsWith n atypeS posS extra) s
      (fun r s' => match r with | .ok a => Made κ s (.ok a) s' | .error e => Made κ s (.error e) s) := by
    intro n
    unfold mkAtomsWith
    rw [post_bind]
    apply Post.of_eq _ _ (pushObj_eq _ s)
    simp only []
    obtain ⟨hinv1, hext1⟩ := inv_pushObj h n
    generalize hs1 : ({ s with objs := s.objs ++ [⟨n, []⟩] } : State) = s1 at hinv1 hext1 ⊢
    have hlen1 : s1.objs.length = s.objs.length + 1 := by rw [← hs1]; simp
    have hsys1 : s1.syss = s.syss := by rw [← hs1]
    have ho1 : s.objs.length < s1.objs.length := by omega
    rw [post_bind]
    apply Post.mono (inv_viewSet hinv1 s.objs.length "atype" atypeS (hatS.mono hext1))
    intro r s2 ⟨⟨κ2, hinv2, hext2, hlen2, hsys2⟩, hfind2⟩
    cases r with
    | error e => exact Made.error h e
    | ok u =>
      simp only []
      have hfa := hfind2 rfl ho1
      rw [post_bind]
      apply Post.mono (inv_viewSet hinv2 s.objs.length "pos" posS (hposS.mono (hext1.trans hext2)))
      intro r s3 ⟨⟨κ3, hinv3, hext3, hlen3, hsys3⟩, _⟩
      cases r with
      | error e => exact Made.error h e
      | ok u =>
        simp only []
        rw [post_bind]
        have hloop := post_forEach_ghost extra (fun kv => viewSet s.objs.length kv.1 kv.2)
          (fun g st => InvK g st ∧ Ext κ s g st ∧ st.objs.length = s1.objs.length ∧ st.syss = s.syss)
          Ext (fun g st => Ext.refl g st) (fun _ _ _ _ _ _ h1 h2 => h1.trans h2)
          (by
            intro kv hkv g st ⟨hg, hge, hgl, hgs⟩
            apply Post.mono (inv_viewSet hg s.objs.length kv.1 kv.2 ((hex kv hkv).mono hge))
            intro r st' ⟨⟨g', hg', hge', hgl', hgs'⟩, _⟩
            exact ⟨g', ⟨hg', hge.trans hge', by rw [hgl', hgl], by rw [hgs', hgs]⟩, hge'⟩)
          κ3 s3 ⟨hinv3, (hext1.trans hext2).trans hext3, by rw [hlen3, hlen2], by rw [hsys3, hsys2, hsys1]⟩
        apply Post.mono hloop
        intro r s4 ⟨κ4, ⟨hinv4, hext4, hlen4, hsys4⟩, hext34⟩
        cases r with
        | error e => exact Made.error h e
        | ok u =>
          show Made κ s (.ok s.objs.length) s4
          refine ⟨κ4, hinv4, hext4, hsys4, ?_, ?_⟩
          · intro e he; cases he
          intro o ho
          have : o = s.objs.length := by
            have : (Except.ok s.objs.length : Except Err Nat) = .ok o := ho
            injection this with this; exact this.symm
          subst this
          refine ⟨rfl, by rw [hlen4, hlen1], ?_⟩
          -- the `atype` binding made by the first `viewSet` is still there
          have hle24 : Le s2 s4 := hext3.le.trans hext34.le
          have ho2 : s.objs.length < s2.objs.length := by rw [hlen2]; exact ho1
          cases hf : (s2.obj s.objs.length).find "atype" with
          | none => simp [hf] at hfa
          | some a => rw [(hle24.obj _ ho2).2 "atype" a hf]; rfl
  repeat' (first
    | (rw [post_bind_fail]; exact Made.error h _)
    | (exact Post.mono (key _) (fun r s' hq => by cases r <;> exact hq))
    | rw [post_bind_pure]
    | split)

end Atomman.C06
