/-
  C06 — invariant preservation, part 3: `Atoms.__init__` (`mkAtoms`), `__getitem__`, `__setitem__`,
  `__deepcopy__`, `prop`, `prop_atype`, `extend`.
-/
import Proofs.C06_View

namespace Atomman.C06
set_option linter.unusedSimpArgs false
set_option linter.unusedVariables false

/-! ### `pushObj` -/

theorem pushObj_eq (ob : AtomsObj) (s : State) :
    pushObj ob s = (.ok s.objs.length, { s with objs := s.objs ++ [ob] }) := rfl

theorem obj_push_lt (s : State) (ob : AtomsObj) (o : Nat) (h : o < s.objs.length) :
    ({ s with objs := s.objs ++ [ob] } : State).obj o = s.obj o := by
  simp [State.obj, List.getElem?_append_left h]

theorem obj_push_eq (s : State) (ob : AtomsObj) :
    ({ s with objs := s.objs ++ [ob] } : State).obj s.objs.length = ob := by
  simp [State.obj]

theorem inv_pushObj {κ : Nat → String} {s : State} (h : InvK κ s) (n : Nat) :
    InvK κ { s with objs := s.objs ++ [⟨n, []⟩] } ∧ Ext κ s κ { s with objs := s.objs ++ [⟨n, []⟩] } := by
  have hle : Le s { s with objs := s.objs ++ [⟨n, []⟩] } := by
    refine ⟨Nat.le_refl _, fun _ _ => ⟨rfl, rfl, rfl⟩, by simp, ?_, Nat.le_refl _, fun _ _ => ⟨rfl, rfl⟩⟩
    intro o ho
    rw [obj_push_lt s _ o ho]
    exact ⟨rfl, fun _ _ h => h⟩
  refine ⟨⟨h.heap, ?_, ?_, ?_⟩, hle, fun _ _ => rfl⟩
  · intro ob hob p hp
    simp only [List.mem_append, List.mem_singleton] at hob
    rcases hob with hob | rfl
    · exact (h.props ob hob p hp).of_heap_eq rfl
    · simp at hp
  · intro ob hob
    simp only [List.mem_append, List.mem_singleton] at hob
    rcases hob with hob | rfl
    · exact h.nodup ob hob
    · simp
  · intro y hy
    have := h.syss y hy
    exact ⟨by simp; omega, this.2⟩

/-! ### `Atoms.__init__` -/

/-- the object has the two properties every `Atoms` is constructed with. -/
def HasAP (ob : AtomsObj) : Prop := (ob.find "atype").isSome ∧ (ob.find "pos").isSome

theorem find_persists {s s' : State} (hle : Le s s') (o : Nat) (key : String)
    (h : ((s.obj o).find key).isSome) : ((s'.obj o).find key).isSome := by
  by_cases ho : o < s.objs.length
  · cases hf : (s.obj o).find key with
    | none => simp [hf] at h
    | some a => rw [(hle.obj o ho).2 key a hf]; rfl
  · rw [obj_ge s o (Nat.le_of_not_lt ho)] at h
    simp [AtomsObj.find, emptyObj] at h

theorem HasAP.persists {s s' : State} (hle : Le s s') (o : Nat) (h : HasAP (s.obj o)) : HasAP (s'.obj o) :=
  ⟨find_persists hle o _ h.1, find_persists hle o _ h.2⟩

/-- what a constructor call leaves behind: nothing when it raised; one more object, with an `atype`
    property, when it returned. -/
def Made (κ : Nat → String) (s : State) (r : Except Err Nat) (s' : State) : Prop :=
  ∃ κ', InvK κ' s' ∧ Ext κ s κ' s' ∧ s'.syss = s.syss ∧
    (∀ e, r = .error e → s' = s) ∧
    (∀ o, r = .ok o → o = s.objs.length ∧ s'.objs.length = s.objs.length + 1 ∧
      HasAP (s'.obj o))

theorem Made.error {κ : Nat → String} {s : State} (h : InvK κ s) (e : Err) : Made κ s (.error e) s :=
  ⟨κ, h, Ext.refl κ s, rfl, fun _ _ => rfl, fun o ho => by cases ho⟩

theorem valOK_default_atype : ValOK ⟨.int, [1], [.int 1]⟩ := by
  constructor
  · rfl
  · intro c hc; simp at hc; subst hc; rfl

theorem valOK_default_pos : ValOK ⟨.flt, [1, 3], [.flt 0, .flt 0, .flt 0]⟩ := by
  constructor
  · rfl
  · intro c hc; simp at hc; subst hc; rfl

theorem inv_mkAtoms {κ : Nat → String} {s : State} (h : InvK κ s) (natoms : Option Int) (atype pos : Option Src)
    (extra : List (String × Src)) (hat : ∀ a, atype = some a → SrcOK κ s "atype" a)
    (hpos : ∀ a, pos = some a → SrcOK κ s "pos" a) (hex : ∀ kv ∈ extra, SrcOK κ s kv.1 kv.2) :
    Post (mkAtoms natoms atype pos extra) s (Made κ s) := by
  unfold mkAtoms
  rw [post_atomic, post_bind_getS]
  simp only []
  have hatS : SrcOK κ s "atype" (atype.getD (.lit ⟨.int, [1], [.int 1]⟩)) := by
    cases atype with
    | none => exact valOK_default_atype
    | some a => exact hat a rfl
  have hposS : SrcOK κ s "pos" (pos.getD (.lit ⟨.flt, [1, 3], [.flt 0, .flt 0, .flt 0]⟩)) := by
    cases pos with
    | none => exact valOK_default_pos
    | some a => exact hpos a rfl
  generalize atype.getD (.lit ⟨.int, [1], [.int 1]⟩) = atypeS at hatS ⊢
  generalize pos.getD (.lit ⟨.flt, [1, 3], [.flt 0, .flt 0, .flt 0]⟩) = posS at hposS ⊢
  -- the three pure size computations
  have key : ∀ n : Nat, Post (mkAtomsWith n atypeS posS extra) s
      (fun r s' => match r with | .ok a => Made κ s (.ok a) s' | .error e => Made κ s (.error e) s) := by
    intro n
    unfold mkAtomsWith
    rw [post_bind]
    apply Post.of_eq _ _ (pushObj_eq _ s)
    simp only []
    obtain ⟨hinv1, hext1⟩ := inv_pushObj h n
    generalize hs1 : ({ s with objs := s.objs ++ [⟨n, []⟩] } : State) = s1 at hinv1 hext1 ⊢
    have hlen1 : s1.objs.length = s.objs.length + 1 := by rw [← hs1]; simp
    have hsys1 : s1.syss = s.syss := by rw [← hs1]
    have ho1 : s.objs.length < s1.objs.length := by omega
    rw [post_bind]
    apply Post.mono (inv_viewSet hinv1 s.objs.length "atype" atypeS (hatS.mono hext1))
    intro r s2 ⟨⟨κ2, hinv2, hext2, hlen2, hsys2⟩, hfind2⟩
    cases r with
    | error e => exact Made.error h e
    | ok u =>
      simp only []
      have hfa := hfind2 rfl ho1
      rw [post_bind]
      apply Post.mono (inv_viewSet hinv2 s.objs.length "pos" posS (hposS.mono (hext1.trans hext2)))
      intro r s3 ⟨⟨κ3, hinv3, hext3, hlen3, hsys3⟩, hfind3⟩
      cases r with
      | error e => exact Made.error h e
      | ok u =>
        simp only []
        have hfp := hfind3 rfl (by rw [hlen2]; exact ho1)
        rw [post_bind]
        have hloop := post_forEach_ghost extra (fun kv => viewSet s.objs.length kv.1 kv.2)
          (fun g st => InvK g st ∧ Ext κ s g st ∧ st.objs.length = s1.objs.length ∧ st.syss = s.syss)
          Ext (fun g st => Ext.refl g st) (fun _ _ _ _ _ _ h1 h2 => h1.trans h2)
          (by
            intro kv hkv g st ⟨hg, hge, hgl, hgs⟩
            apply Post.mono (inv_viewSet hg s.objs.length kv.1 kv.2 ((hex kv hkv).mono hge))
            intro r st' ⟨⟨g', hg', hge', hgl', hgs'⟩, _⟩
            exact ⟨g', ⟨hg', hge.trans hge', by rw [hgl', hgl], by rw [hgs', hgs]⟩, hge'⟩)
          κ3 s3 ⟨hinv3, (hext1.trans hext2).trans hext3, by rw [hlen3, hlen2], by rw [hsys3, hsys2, hsys1]⟩
        apply Post.mono hloop
        intro r s4 ⟨κ4, ⟨hinv4, hext4, hlen4, hsys4⟩, hext34⟩
        cases r with
        | error e => exact Made.error h e
        | ok u =>
          show Made κ s (.ok s.objs.length) s4
          refine ⟨κ4, hinv4, hext4, hsys4, ?_, ?_⟩
          · intro e he; cases he
          intro o ho
          have : o = s.objs.length := by
            have : (Except.ok s.objs.length : Except Err Nat) = .ok o := ho
            injection this with this; exact this.symm
          subst this
          refine ⟨rfl, by rw [hlen4, hlen1], ?_⟩
          -- the bindings made by the first two `viewSet`s are still there
          have hle24 : Le s2 s4 := hext3.le.trans hext34.le
          exact ⟨find_persists hle24 _ _ hfa, find_persists hext34.le _ _ hfp⟩
  rw [post_bind_liftE]
  split
  · exact Post.mono (key _) (fun r s' hq => by cases r <;> exact hq)
  · exact Made.error h _

/-! ### indices -/

theorem normInt_lt (n : Nat) (i : Int) (p : Nat) (h : normInt n i = some p) : p < n := by
  unfold normInt at h
  split at h
  · injection h with h; omega
  · split at h
    · injection h with h; omega
    · cases h

theorem sliceSel_lt (n : Nat) (st sp : Option Int) (k : Int) : ∀ p ∈ sliceSel n st sp k, p < n := by
  intro p hp
  unfold sliceSel at hp
  simp only [] at hp
  split at hp
  · exact List.mem_range.mp (List.mem_filter.mp hp).1
  · exact List.mem_range.mp (List.mem_filter.mp (List.mem_reverse.mp hp)).1

theorem maskSel_lt (n : Nat) (m : List Bool) : ∀ p ∈ maskSel n m, p < n := by
  intro p hp
  exact List.mem_range.mp (List.mem_filter.mp hp).1

theorem sliceSel_nodup (n : Nat) (st sp : Option Int) (k : Int) : (sliceSel n st sp k).Nodup := by
  unfold sliceSel
  simp only []
  split
  · exact List.Nodup.sublist List.filter_sublist List.nodup_range
  · exact nodup_reverse' (List.Nodup.sublist List.filter_sublist List.nodup_range)

/-- a selection that numpy answers with a view (a basic slice) names pairwise different positions. -/
theorem resolve_view_nodup (n : Nat) (ix : Index) (sel : Sel) (h : resolve n ix = .ok sel) (hv : sel.view = true) :
    sel.pos.Nodup := by
  cases ix with
  | int i =>
    simp only [resolve] at h
    split at h
    · injection h with h; subst h; simp at hv
    · cases h
  | slice st sp step =>
    simp only [resolve] at h
    split at h
    · cases h
    · injection h with h; subst h; exact sliceSel_nodup _ _ _ _
  | list l =>
    simp only [resolve] at h
    injection h with h; subst h; simp at hv
  | mask m =>
    simp only [resolve] at h
    split at h
    · injection h with h; subst h; simp at hv
    · split at h
      · injection h with h; subst h; simp at hv
      · cases h

/-- every position selected by an index is a position of the axis; integer indices select one row. -/
theorem resolve_ok (n : Nat) (ix : Index) (sel : Sel) (h : resolve n ix = .ok sel) :
    (∀ p ∈ sel.pos, p < n) ∧ SelOK sel := by
  cases ix with
  | int i =>
    simp only [resolve] at h
    split at h
    · rename_i p hp
      injection h with h; subst h
      refine ⟨?_, fun _ => rfl⟩
      intro q hq; simp at hq; subst hq; exact normInt_lt n i _ hp
    · cases h
  | slice st sp step =>
    simp only [resolve] at h
    split at h
    · cases h
    · injection h with h; subst h
      exact ⟨sliceSel_lt n st sp _, fun hc => by simp at hc⟩
  | list l =>
    simp only [resolve] at h
    injection h with h; subst h
    refine ⟨?_, fun hc => by simp at hc⟩
    intro p hp
    simp only [List.mem_filterMap] at hp
    obtain ⟨i, _, hi⟩ := hp
    exact normInt_lt n i p hi
  | mask m =>
    simp only [resolve] at h
    split at h
    · injection h with h; subst h
      exact ⟨maskSel_lt n m, fun hc => by simp at hc⟩
    · split at h
      · injection h with h; subst h
        exact ⟨by intro p hp; simp at hp, fun hc => by simp at hc⟩
      · cases h

/-! ### `indexGet` -/

/-- the sub-array `a[sel]` seen as a view. -/
def subArr (a : Arr) (sel : Sel) : Arr := ⟨a.buf, sel.pos.map (fun p => a.idx[p]?.getD 0)⟩

theorem subArr_valid {s : State} {a : Arr} (hv : ArrValid s a) (sel : Sel) (hpos : ∀ p ∈ sel.pos, p < a.idx.length) :
    ArrValid s (subArr a sel) := by
  refine ⟨hv.1, ?_⟩
  intro i hi
  simp only [subArr, List.mem_map] at hi
  obtain ⟨p, hp, rfl⟩ := hi
  have hlt := hpos p hp
  simp only [List.getElem?_eq_getElem hlt, Option.getD_some]
  exact hv.2 _ (List.getElem_mem hlt)

theorem subArr_mem (a : Arr) (sel : Sel) (hpos : ∀ p ∈ sel.pos, p < a.idx.length) :
    ∀ i ∈ (subArr a sel).idx, i ∈ a.idx := by
  intro i hi
  simp only [subArr, List.mem_map] at hi
  obtain ⟨p, hp, rfl⟩ := hi
  have hlt := hpos p hp
  simp only [List.getElem?_eq_getElem hlt, Option.getD_some]
  exact List.getElem_mem hlt

theorem subArr_nodup (a : Arr) (sel : Sel) (hnd : a.idx.Nodup) (hpos : ∀ p ∈ sel.pos, p < a.idx.length)
    (hsel : sel.pos.Nodup) : (subArr a sel).idx.Nodup := by
  simp only [subArr]
  apply nodup_map_on _ hsel
  intro x hx y hy hxy
  have hx' := hpos x hx
  have hy' := hpos y hy
  simp only [List.getElem?_eq_getElem hx', List.getElem?_eq_getElem hy', Option.getD_some] at hxy
  exact nodup_getElem_inj hnd x y hx' hy' hxy

theorem arrRows_bufOK {κ : Nat → String} {s : State} (h : InvK κ s) {a : Arr} (hv : ArrValid s a) :
    BufOK ⟨arrDt s a, arrTrail s a, arrRows s a⟩ := by
  have hb := h.buf_ok a.buf
  constructor
  · intro r hr
    obtain ⟨i, _, _, hmem⟩ := arrRows_mem hv r hr
    exact hb.width r hmem
  · intro r hr c hc
    obtain ⟨i, _, _, hmem⟩ := arrRows_mem hv r hr
    exact hb.typed r hmem c hc

theorem indexGet_cases (a : Arr) (sel : Sel) (s : State) :
    (∃ e, indexGet a sel s = (.error e, s)) ∨
    (sel.view = true ∧ sel.oob = false ∧ indexGet a sel s = (.ok (subArr a sel), s)) ∨
    (sel.view = false ∧ sel.oob = false ∧ indexGet a sel s = (.ok ⟨s.heap.length, List.range sel.pos.length⟩,
      { s with heap := s.heap ++ [⟨arrDt s a, arrTrail s a, arrRows s (subArr a sel)⟩] })) := by
  unfold indexGet
  split
  · left; exact ⟨_, rfl⟩
  · rename_i hoob
    have hoob : sel.oob = false := by simpa using hoob
    simp only []
    split
    · rename_i hview
      right; left; exact ⟨hview, hoob, rfl⟩
    · rename_i hview
      right; right
      refine ⟨by simpa using hview, hoob, ?_⟩
      rw [alloc_eq]
      simp [arrRows, subArr]

/-- `arr[sel]`: a view of the same buffer or a fresh copy filed under the same key. -/
theorem inv_indexGet {κ : Nat → String} {s : State} (h : InvK κ s) (a : Arr) (sel : Sel) (key : String)
    (hv : ArrValid s a) (hk : κ a.buf = key) (hpos : ∀ p ∈ sel.pos, p < a.idx.length) (hnd : a.idx.Nodup)
    (hsel : sel.view = true → sel.pos.Nodup) :
    Post (indexGet a sel) s (fun r s' => ∃ κ', InvK κ' s' ∧ Ext κ s κ' s' ∧ s'.objs = s.objs ∧ s'.syss = s.syss ∧
      ∀ q, r = .ok q → ArrValid s' q ∧ κ' q.buf = key ∧ q.idx.length = sel.pos.length ∧ q.idx.Nodup) := by
  rcases indexGet_cases a sel s with ⟨e, he⟩ | ⟨hview, _, he⟩ | ⟨_, _, he⟩
  · exact Post.of_eq _ _ he ⟨κ, h, Ext.refl κ s, rfl, rfl, fun q hq => by cases hq⟩
  · apply Post.of_eq _ _ he
    refine ⟨κ, h, Ext.refl κ s, rfl, rfl, ?_⟩
    intro q hq
    injection hq with hq; subst hq
    exact ⟨subArr_valid hv sel hpos, hk, by simp [subArr], subArr_nodup a sel hnd hpos (hsel hview)⟩
  · apply Post.of_eq _ _ he
    have hsub := subArr_valid hv sel hpos
    have hbuf : BufOK ⟨arrDt s a, arrTrail s a, arrRows s (subArr a sel)⟩ := arrRows_bufOK h hsub
    obtain ⟨hinv1, hext1⟩ := inv_alloc h _ hbuf key
    refine ⟨_, hinv1, hext1, rfl, rfl, ?_⟩
    intro q hq
    injection hq with hq; subst hq
    refine ⟨⟨by simp, ?_⟩, by simp [upd], by simp, List.nodup_range⟩
    intro i hi
    rw [buf_append_eq]
    simpa [arrRows, subArr] using hi

/-! ### `__getitem__` -/

/-- a constructor call made after steps that created no object. -/
theorem Made.after {κ κ1 : Nat → String} {s s1 s2 : State} {o : Nat} (hext : Ext κ s κ1 s1)
    (hobjs : s1.objs.length = s.objs.length) (hsys : s1.syss = s.syss) (hm : Made κ1 s1 (.ok o) s2) :
    Made κ s (.ok o) s2 := by
  obtain ⟨κ2, hinv2, hext2, hsys2, _, hok⟩ := hm
  refine ⟨κ2, hinv2, hext.trans hext2, by rw [hsys2, hsys], ?_, ?_⟩
  · intro e he; cases he
  intro o' ho'
  obtain ⟨h1, h2, h3⟩ := hok o' ho'
  exact ⟨by rw [h1, hobjs], by rw [h2, hobjs], h3⟩

/-- the sources handed to `Atoms(**view)`: every array is valid and filed under its own key. -/
def ViewsOK (κ : Nat → String) (s : State) (views : List PropRef) : Prop :=
  ∀ q ∈ views, SrcOK κ s q.key (.arr q.arr)

theorem inv_mkAtoms_views {κ : Nat → String} {s : State} (h : InvK κ s) (views : List PropRef)
    (hviews : ViewsOK κ s views) :
    Post (mkAtoms none ((views.find? (fun p => p.key == "atype")).map (fun p => Src.arr p.arr))
      ((views.find? (fun p => p.key == "pos")).map (fun p => Src.arr p.arr))
      ((views.filter (fun p => p.key != "atype" && p.key != "pos")).map (fun p => (p.key, Src.arr p.arr)))) s
      (Made κ s) := by
  apply inv_mkAtoms h
  · intro a ha
    cases hf : views.find? (fun p => p.key == "atype") with
    | none => simp [hf] at ha
    | some q =>
      simp [hf] at ha; subst ha
      have hk : q.key = "atype" := by simpa using List.find?_some hf
      have := hviews q (List.mem_of_find?_eq_some hf)
      rw [hk] at this; exact this
  · intro a ha
    cases hf : views.find? (fun p => p.key == "pos") with
    | none => simp [hf] at ha
    | some q =>
      simp [hf] at ha; subst ha
      have hk : q.key = "pos" := by simpa using List.find?_some hf
      have := hviews q (List.mem_of_find?_eq_some hf)
      rw [hk] at this; exact this
  · intro kv hkv
    simp only [List.mem_map, List.mem_filter] at hkv
    obtain ⟨q, ⟨hq, _⟩, rfl⟩ := hkv
    exact hviews q hq

theorem inv_getItem {κ : Nat → String} {s : State} (h : InvK κ s) (o : Nat) (ix : Index) :
    Post (getItem o ix) s (Made κ s) := by
  unfold getItem
  rw [post_atomic, post_bind_getS]
  simp only []
  rw [post_bind_liftE]
  cases hres : resolve (s.obj o).natoms (atomsIndex ix) with
  | error e => exact Made.error h e
  | ok sel =>
    simp only []
    obtain ⟨hpos, _⟩ := resolve_ok _ _ _ hres
    have hselnd := resolve_view_nodup _ _ _ hres
    rw [post_bind]
    have hloop := post_mapEach_ghost (s.obj o).props
      (fun p => do
        let a ← indexGet p.arr sel
        pure (⟨p.key, a⟩ : PropRef))
      (fun g st => InvK g st ∧ Ext κ s g st ∧ st.objs = s.objs ∧ st.syss = s.syss)
      (fun p q g st => SrcOK g st q.key (.arr q.arr))
      Ext (fun g st => Ext.refl g st) (fun _ _ _ _ _ _ h1 h2 => h1.trans h2)
      (fun _ _ _ _ _ _ hr he => hr.mono he)
      (by
        intro p hp g st ⟨hg, hge, hgo, hgs⟩
        have hp0 := h.obj_props o p hp
        rw [post_bind]
        apply Post.mono (inv_indexGet hg p.arr sel p.key (hp0.valid.mono hge.le)
          ((hge.agree _ hp0.valid.1).trans hp0.key) (by rw [hp0.len]; exact hpos) hp0.nodup hselnd)
        intro r st' ⟨g', hg', hge', hgo', hgs', hq⟩
        cases r with
        | error e => exact ⟨g', ⟨hg', hge.trans hge', by rw [hgo', hgo], by rw [hgs', hgs]⟩, hge', fun c hc => by cases hc⟩
        | ok a =>
          simp only []
          rw [post_pure]
          refine ⟨g', ⟨hg', hge.trans hge', by rw [hgo', hgo], by rw [hgs', hgs]⟩, hge', ?_⟩
          intro c hc
          have : c = ⟨p.key, a⟩ := by
            have : (Except.ok ⟨p.key, a⟩ : Except Err PropRef) = .ok c := hc
            injection this with this; exact this.symm
          subst this
          obtain ⟨h1, h2, _, h4⟩ := hq a rfl
          exact ⟨h1, h2, h4⟩)
      κ s ⟨h, Ext.refl κ s, rfl, rfl⟩
    apply Post.mono hloop
    intro r s1 ⟨κ1, ⟨hinv1, hext1, hobjs1, hsys1⟩, _, hall⟩
    cases r with
    | error e => exact Made.error h e
    | ok views =>
      simp only []
      have hviews : ViewsOK κ1 s1 views := by
        intro q hq
        obtain ⟨p, _, hr⟩ := (hall views rfl).mem_right q hq
        exact hr
      apply Post.mono (inv_mkAtoms_views hinv1 views hviews)
      intro r s2 hm
      cases r with
      | error e => exact Made.error h e
      | ok o' => exact Made.after hext1 (by rw [hobjs1]) hsys1 hm

/-! ### `__deepcopy__` -/

theorem inv_deepcopy {κ : Nat → String} {s : State} (h : InvK κ s) (o : Nat) :
    Post (deepcopy o) s (Made κ s) := by
  unfold deepcopy
  rw [post_atomic, post_bind_getS]
  simp only []
  rw [post_bind]
  have hloop := post_mapEach_ghost (s.obj o).props
    (fun p => do
      let a ← alloc (arrDt s p.arr) (arrTrail s p.arr) (arrRows s p.arr)
      pure (⟨p.key, a⟩ : PropRef))
    (fun g st => InvK g st ∧ Ext κ s g st ∧ st.objs = s.objs ∧ st.syss = s.syss)
    (fun p q g st => SrcOK g st q.key (.arr q.arr))
    Ext (fun g st => Ext.refl g st) (fun _ _ _ _ _ _ h1 h2 => h1.trans h2)
    (fun _ _ _ _ _ _ hr he => hr.mono he)
    (by
      intro p hp g st ⟨hg, hge, hgo, hgs⟩
      have hp0 := h.obj_props o p hp
      rw [post_bind]
      apply Post.of_eq _ _ (alloc_eq _ _ _ st)
      simp only []
      rw [post_pure]
      have hbuf : BufOK ⟨arrDt s p.arr, arrTrail s p.arr, arrRows s p.arr⟩ := arrRows_bufOK h hp0.valid
      obtain ⟨hinv1, hext1⟩ := inv_alloc hg _ hbuf p.key
      refine ⟨_, ⟨hinv1, hge.trans hext1, hgo, hgs⟩, hext1, ?_⟩
      intro c hc
      have : c = ⟨p.key, ⟨st.heap.length, List.range (arrRows s p.arr).length⟩⟩ := by
        have : (Except.ok ⟨p.key, ⟨st.heap.length, List.range (arrRows s p.arr).length⟩⟩ : Except Err PropRef) = .ok c := hc
        injection this with this; exact this.symm
      subst this
      refine ⟨⟨by simp, ?_⟩, by simp [upd], List.nodup_range⟩
      intro i hi
      rw [buf_append_eq]
      simpa using hi)
    κ s ⟨h, Ext.refl κ s, rfl, rfl⟩
  apply Post.mono hloop
  intro r s1 ⟨κ1, ⟨hinv1, hext1, hobjs1, hsys1⟩, _, hall⟩
  cases r with
  | error e => exact Made.error h e
  | ok views =>
    simp only []
    have hviews : ViewsOK κ1 s1 views := by
      intro q hq
      obtain ⟨p, _, hr⟩ := (hall views rfl).mem_right q hq
      exact hr
    apply Post.mono (inv_mkAtoms_views hinv1 views hviews)
    intro r s2 hm
    cases r with
    | error e => exact Made.error h e
    | ok o' => exact Made.after hext1 (by rw [hobjs1]) hsys1 hm

/-! ### `__setitem__` -/

/-- invariant of the loops that only write into existing buffers. -/
def Writes (κ : Nat → String) (s st : State) : Prop :=
  InvK κ st ∧ Ext κ s κ st ∧ st.objs = s.objs ∧ st.syss = s.syss

theorem Writes.kept {κ : Nat → String} {s st : State} (h : Writes κ s st) : Kept κ s st :=
  ⟨κ, h.1, h.2.1, by rw [h.2.2.1], h.2.2.2⟩

theorem Writes.step {κ : Nat → String} {s st st' : State} (h : Writes κ s st)
    (h' : InvK κ st' ∧ Ext κ st κ st' ∧ st'.objs = st.objs ∧ st'.syss = st.syss) : Writes κ s st' :=
  ⟨h'.1, h.2.1.trans h'.2.1, by rw [h'.2.2.1, h.2.2.1], by rw [h'.2.2.2, h.2.2.2]⟩

theorem inv_setItem_loop {κ : Nat → String} {s : State} (h : InvK κ s) (o src : Nat) (sel : Sel) (hsel : SelOK sel) :
    ∀ st, Writes κ s st → Post (forEach (s.obj o).props (fun p => do
      let s' ← getS
      let a ← keyErr ((s'.obj src).find p.key)
      assign p.arr sel (arrVal s' a))) st (fun _ st' => Writes κ s st') := by
  apply post_forEach
  intro p hp st hw
  have hp0 := h.obj_props o p hp
  rw [post_bind_getS, post_bind_keyErr]
  split
  · rename_i a hfind
    have hd := hw.1.find_ok src p.key a hfind
    apply Post.mono (inv_assign hw.1 p.arr sel (arrVal st a) hsel ?_)
    · intro r st' h'
      exact hw.step h'
    · intro hκ
      right
      have hka : p.key = "atype" := hp0.key.symm.trans hκ
      exact arrVal_ge1 (hd.atype hka)
  · exact hw

theorem inv_setItem {κ : Nat → String} {s : State} (h : InvK κ s) (o : Nat) (ix : Index) (src : Nat) :
    Post (setItem o ix src) s (fun _ s' => Kept κ s s') := by
  unfold setItem
  rw [post_bind_getS]
  simp only []
  split
  · exact Kept.refl h
  · rw [post_bind_liftE]
    cases hres : resolve (s.obj o).natoms (atomsIndex ix) with
    | error e => exact Kept.refl h
    | ok sel =>
      simp only []
      obtain ⟨_, hsel⟩ := resolve_ok _ _ _ hres
      apply Post.mono (inv_setItem_loop h o src sel hsel s ⟨h, Ext.refl κ s, rfl, rfl⟩)
      intro r s' hw
      exact hw.kept

/-! ### reads: `natypes`, `prop(key…)` -/

theorem foldl_max_ge (xs : List Rat) (x : Rat) :
    (∀ y ∈ x :: xs, y ≤ xs.foldl (fun m y => if m < y then y else m) x) := by
  induction xs generalizing x with
  | nil => intro y hy; simp at hy; subst hy; simp [Rat.le_refl]
  | cons z t ih =>
    intro y hy
    simp only [List.foldl_cons]
    by_cases hz : x < z
    · simp only [hz, if_true]
      have := ih z
      simp only [List.mem_cons] at hy
      rcases hy with rfl | rfl | hy
      · exact Rat.le_trans (Rat.le_of_lt hz) (this z (by simp))
      · exact this y (by simp)
      · exact this y (by simp [hy])
    · simp only [hz, if_false]
      have := ih x
      simp only [List.mem_cons] at hy
      rcases hy with rfl | rfl | hy
      · exact this y (by simp)
      · exact Rat.le_trans (Rat.not_lt.mp hz) (this x (by simp))
      · exact this y (by simp [hy])

theorem listMax_ge (l : List Rat) (m : Rat) (h : listMax l = some m) : ∀ y ∈ l, y ≤ m := by
  cases l with
  | nil => simp [listMax] at h
  | cons x xs =>
    simp only [listMax, Option.some.injEq] at h
    subst h
    exact foldl_max_ge xs x

/-- what a normal return of `natypes` tells. -/
def NatypesRes (s : State) (o : Nat) (nt : Nat) : Prop :=
  ∃ a nums mn mx, (s.obj o).find "atype" = some a ∧ (arrVal s a).data.mapM Cell.num? = some nums ∧
    listMin nums = some mn ∧ listMax nums = some mx ∧ ¬ mn < 1 ∧ nt = (truncRat mx).toNat

theorem natypes_post (o : Nat) (s : State) :
    Post (natypes o) s (fun r s' => s' = s ∧ ∀ nt, r = .ok nt → NatypesRes s o nt) := by
  unfold natypes
  rw [post_bind_getS, post_bind_keyErr]
  split
  · rename_i a hfind
    split
    · exact ⟨rfl, fun nt h => by cases h⟩
    · rename_i nums hnums
      split
      · rename_i mn mx hmn hmx
        split
        · exact ⟨rfl, fun nt h => by cases h⟩
        · rename_i hlt
          refine ⟨rfl, ?_⟩
          intro nt hnt
          have : (truncRat mx).toNat = nt := by
            have : (Except.ok (truncRat mx).toNat : Except Err Nat) = .ok nt := hnt
            injection this
          exact ⟨a, nums, mn, mx, hfind, hnums, hmn, hmx, hlt, this.symm⟩
      · exact ⟨rfl, fun nt h => by cases h⟩
  · exact ⟨rfl, fun nt h => by cases h⟩

theorem propGet_post (o : Nat) (key : String) (ix : Option Index) (s : State) :
    Post (propGet o key ix) s (fun _ s' => s' = s) := by
  unfold propGet
  rw [post_bind_getS, post_bind_keyErr]
  split
  · split
    · rfl
    · rw [post_bind_liftE]
      split
      · simp only []
        split <;> rfl
      · rfl
  · rfl

/-! ### `prop(key, value=…)`, `prop(key, index, value)` -/

theorem atypeGuard_cases (key : String) (v : Val) :
    (∃ e, atypeGuard key v = fail e) ∨
    (atypeGuard key v = pure () ∧ (key = "atype" → ∀ c ∈ v.data, CellGE1 c)) := by
  unfold atypeGuard
  split
  · rename_i hc
    split
    · left; exact ⟨_, rfl⟩
    · rename_i nums hnums
      split
      · rename_i m hm
        split
        · left; exact ⟨_, rfl⟩
        · rename_i hlt
          right
          exact ⟨rfl, fun _ => cells_ge1_of_min _ _ _ hnums hm hlt⟩
      · rename_i hm
        -- listMin of a non-empty list is defined
        right
        refine ⟨rfl, fun _ c _ => ?_⟩
        exfalso
        have hlen := (mapM_option _ _ _ hnums).1
        cases nums with
        | nil =>
          have : v.data = [] := List.eq_nil_of_length_eq_zero (by simpa using hlen.symm)
          exact hc.2 this
        | cons x xs => simp [listMin] at hm
  · rename_i hc
    right
    refine ⟨rfl, ?_⟩
    intro hk c hcm
    by_cases hne : v.data = []
    · rw [hne] at hcm; simp at hcm
    · exact absurd ⟨hk, hne⟩ hc

theorem inv_propSet {κ : Nat → String} {s : State} (h : InvK κ s) (o : Nat) (key : String) (ix : Option Index) (v : Val)
    (hv : ValOK v) : Post (propSet o key ix v) s (fun _ s' => Kept κ s s') := by
  unfold propSet
  cases ix with
  | none =>
    simp only []
    exact Post.mono (inv_viewSet h o key (.lit v) hv) (fun _ _ hq => hq.1)
  | some ix =>
    simp only []
    rcases atypeGuard_cases key v with ⟨e, hg⟩ | ⟨hg, hguard⟩
    · rw [hg, post_bind_fail]; exact Kept.refl h
    rw [hg, post_bind_pure, post_bind_getS, post_bind_keyErr]
    split
    · rename_i a hfind
      have hp := h.find_ok o key a hfind
      rw [post_bind_liftE]
      split
      · rename_i sel hres
        obtain ⟨_, hsel⟩ := resolve_ok _ _ _ hres
        apply Post.mono (inv_assign h a sel v hsel ?_)
        · intro r s' ⟨hinv, hext, hobjs, hsys⟩
          exact ⟨κ, hinv, hext, by rw [hobjs], hsys⟩
        · intro hκ
          right
          exact hguard (hp.key.symm.trans hκ)
      · exact Kept.refl h
    · exact Kept.refl h

/-! ### `prop_atype` -/

theorem truncRat_of_nonneg (r : Rat) (h : 0 ≤ r) : truncRat r = r.floor := by
  unfold truncRat; simp [h]

/-- the per-type table of `prop_atype(key, value)` looked up by every atom's type is a well-formed
    per-atom literal. -/
theorem picked_ok {κ : Nat → String} {s : State} (h : InvK κ s) (o : Nat) (ta : Arr)
    (hfind : (s.obj o).find "atype" = some ta) (v : Val) (hv : ValOK v) (nv : Nat) (trail : List Nat)
    (hs : v.shape = nv :: trail) (nt : Nat) (hnt : NatypesRes s o nt) (hnv : ¬ nv < nt)
    (hdt : arrDt s ta = .int) (htr : arrTrail s ta = []) :
    ValOK ⟨v.dt, ta.idx.length :: trail, ((arrVal s ta).data.map (fun c => match c with
        | .int i => (rowsOf nv (prod trail) v.data)[(i - 1).toNat]?.getD []
        | _ => [])).flatten⟩ := by
  have hp := h.find_ok o "atype" ta hfind
  have hvalid := hp.valid
  have hb := h.buf_ok ta.buf
  obtain ⟨a, nums, mn, mx, hfa, hnums, hmn, hmx, hlt, hnteq⟩ := hnt
  have hata : a = ta := by rw [hfind] at hfa; injection hfa with hfa; exact hfa.symm
  subst hata
  have hvlen : v.data.length = nv * prod trail := by rw [hv.1, hs]; rfl
  -- every exposed row of atype is a single int cell
  have hrow1 : ∀ r ∈ arrRows s a, r.length = 1 := by
    intro r hr
    obtain ⟨i, _, _, hmem⟩ := arrRows_mem hvalid r hr
    have := hb.width r hmem
    simp only [arrTrail] at htr
    rw [htr] at this; simpa [prod] using this
  have hdlen : (arrVal s a).data.length = a.idx.length := by
    simp only [arrVal]
    rw [flatten_length_const _ 1 hrow1]
    simp [arrRows]
  -- every cell: an int `i` with `1 ≤ i ≤ nt`
  have hcell : ∀ c ∈ (arrVal s a).data, ∃ i : Int, c = .int i ∧ (i - 1).toNat < nv := by
    intro c hc
    have htyped : c.hasType .int = true := by
      have := (arrVal_ok h hvalid).2 c hc
      simpa [arrVal, hdt] using this
    cases c with
    | int i =>
      refine ⟨i, rfl, ?_⟩
      obtain ⟨q, hq, hcq⟩ := mapM_option_fwd _ _ _ hnums _ hc
      simp only [Cell.num?, Option.some.injEq] at hcq
      subst hcq
      have h1 : (1 : Rat) ≤ (i : Rat) := Rat.le_trans (Rat.not_lt.mp hlt) (listMin_le _ _ hmn _ hq)
      have h2 : (i : Rat) ≤ mx := listMax_ge _ _ hmx _ hq
      have hmx0 : (0 : Rat) ≤ mx := Rat.le_trans (Rat.le_trans (by decide) h1) h2
      have hfl : i ≤ mx.floor := Rat.le_floor_iff.mpr h2
      have hi1 : (1 : Int) ≤ i := by exact_mod_cast h1
      rw [truncRat_of_nonneg mx hmx0] at hnteq
      omega
    | flt r => simp [Cell.hasType] at htyped
    | bool b => simp [Cell.hasType] at htyped
    | str s => simp [Cell.hasType] at htyped
  have hpick : ∀ r ∈ (arrVal s a).data.map (fun c => match c with
        | .int i => (rowsOf nv (prod trail) v.data)[(i - 1).toNat]?.getD []
        | _ => []), r ∈ rowsOf nv (prod trail) v.data := by
    intro r hr
    simp only [List.mem_map] at hr
    obtain ⟨c, hc, rfl⟩ := hr
    obtain ⟨i, rfl, hi⟩ := hcell c hc
    simp only []
    have : (i - 1).toNat < (rowsOf nv (prod trail) v.data).length := by rw [rowsOf_length]; exact hi
    rw [List.getElem?_eq_getElem this, Option.getD_some]
    exact List.getElem_mem this
  constructor
  · simp only [prod]
    rw [flatten_length_const _ (prod trail) (fun r hr => rowsOf_width _ _ _ r (hpick r hr))]
    simp [hdlen]
  · intro c hc
    simp only [List.mem_flatten] at hc
    obtain ⟨r, hr, hcr⟩ := hc
    exact hv.2 c (rowsOf_mem _ _ _ hvlen r (hpick r hr) c hcr)

theorem zeroCell_typed (dt : DType) : (zeroCell dt).hasType dt = true := by
  cases dt <;> simp [zeroCell, Cell.hasType]

theorem zerosLike_ok (v : Val) : ValOK (zerosLike v) := by
  constructor
  · simp [zerosLike]
  · intro c hc
    simp only [zerosLike, List.mem_replicate] at hc
    rw [hc.2]
    exact zeroCell_typed v.dt

theorem zerosRows_ok (n : Nat) (v : Val) : ValOK (zerosRows n v) := by
  constructor
  · simp [zerosRows, prod]
  · intro c hc
    simp only [zerosRows, List.mem_replicate] at hc
    rw [hc.2]
    exact zeroCell_typed v.dt

theorem Kept.trans {κ κ1 : Nat → String} {s s1 s2 : State} (hext : Ext κ s κ1 s1)
    (hobjs : s1.objs.length = s.objs.length) (hsys : s1.syss = s.syss) (h2 : Kept κ1 s1 s2) : Kept κ s s2 := by
  obtain ⟨κ2, hinv2, hext2, hobjs2, hsys2⟩ := h2
  exact ⟨κ2, hinv2, hext.trans hext2, by rw [hobjs2, hobjs], by rw [hsys2, hsys]⟩

theorem inv_propAtype {κ : Nat → String} {s : State} (h : InvK κ s) (o : Nat) (key : String) (v : Val)
    (t : Option Int) (hv : ValOK v) : Post (propAtype o key v t) s (fun _ s' => Kept κ s s') := by
  unfold propAtype
  rw [post_bind_getS, post_bind_keyErr]
  split
  · rename_i ta hfind
    cases t with
    | none =>
      simp only []
      split
      · exact Kept.refl h
      · rename_i nv trail hshape
        rw [post_bind]
        apply Post.mono (natypes_post o s)
        intro r s1 ⟨hs1, hres⟩
        subst hs1
        cases r with
        | error e => exact Kept.refl h
        | ok nt =>
          simp only []
          split
          · exact Kept.refl h
          · rename_i hnv
            split
            · exact Kept.refl h
            · rename_i hcond
              have hdt : arrDt s1 ta = .int := by
                by_cases hd : arrDt s1 ta = .int
                · exact hd
                · exact absurd (Or.inl hd) hcond
              have htr : arrTrail s1 ta = [] := by
                by_cases hd : arrTrail s1 ta = []
                · exact hd
                · exact absurd (Or.inr hd) hcond
              have hlit := picked_ok h o ta hfind v hv nv trail hshape nt (hres nt rfl) hnv hdt htr
              exact Post.mono (inv_viewSet h o key _ hlit) (fun _ _ hq => hq.1)
    | some t =>
      simp only []
      rw [post_bind]
      apply Post.mono (natypes_post o s)
      intro r s1 ⟨hs1, hres⟩
      subst hs1
      cases r with
      | error e => exact Kept.refl h
      | ok nt =>
        simp only []
        split
        · exact Kept.refl h
        · split
          · exact Kept.refl h
          · rw [post_bind]
            -- the optional creation of the column
            have hstep : Post (match (s1.obj o).find key with
                | some _ => pure ()
                | none => viewSet o key (.lit (zerosRows (s1.obj o).natoms v)) : M Unit) s1 (fun _ s2 => Kept κ s1 s2) := by
              split
              · exact Kept.refl h
              · exact Post.mono (inv_viewSet h o key _ (zerosRows_ok _ v)) (fun _ _ hq => hq.1)
            apply Post.mono hstep
            intro r s2 hk2
            cases r with
            | error e => exact hk2
            | ok u =>
              simp only []
              obtain ⟨κ2, hinv2, hext2, hobjs2, hsys2⟩ := hk2
              rcases atypeGuard_cases key v with ⟨e, hg⟩ | ⟨hg, hguard⟩
              · rw [hg, post_bind_fail]; exact ⟨κ2, hinv2, hext2, hobjs2, hsys2⟩
              rw [hg, post_bind_pure, post_bind_getS, post_bind_keyErr]
              split
              · rename_i a hfa
                have hp := hinv2.find_ok o key a hfa
                rw [post_bind_keyErr]
                split
                · apply Post.mono (inv_assign hinv2 a _ v (fun hc => by simp at hc) ?_)
                  · intro r s3 ⟨hinv3, hext3, hobjs3, hsys3⟩
                    exact Kept.trans hext2 hobjs2 hsys2 ⟨κ2, hinv3, hext3, by rw [hobjs3], hsys3⟩
                  · intro hκ
                    right
                    exact hguard (hp.key.symm.trans hκ)
                · exact ⟨κ2, hinv2, hext2, hobjs2, hsys2⟩
              · exact ⟨κ2, hinv2, hext2, hobjs2, hsys2⟩
  · exact Kept.refl h

/-! ### `extend` -/

theorem zeros_ok (dt : DType) (n : Nat) (tr : List Nat) :
    ValOK ⟨dt, n :: tr, List.replicate (n * prod tr) (zeroCell dt)⟩ := by
  constructor
  · simp [prod]
  · intro c hc
    simp only [List.mem_replicate] at hc
    rw [hc.2]; exact zeroCell_typed dt

/-- a constructor call followed by steps that create no object. -/
theorem Made.extend {κ κ1 κ2 : Nat → String} {s s1 s2 : State} {o : Nat} (hext1 : Ext κ s κ1 s1)
    (hsys1 : s1.syss = s.syss) (ho : o = s.objs.length) (hlen1 : s1.objs.length = s.objs.length + 1)
    (hat1 : HasAP (s1.obj o)) (hinv2 : InvK κ2 s2) (hext2 : Ext κ1 s1 κ2 s2)
    (hlen2 : s2.objs.length = s1.objs.length) (hsys2 : s2.syss = s1.syss) : Made κ s (.ok o) s2 := by
  refine ⟨κ2, hinv2, hext1.trans hext2, by rw [hsys2, hsys1], ?_, ?_⟩
  · intro e he; cases he
  · intro o' ho'
    have : o' = o := by
      have : (Except.ok o : Except Err Nat) = .ok o' := ho'
      injection this with this; exact this.symm
    subst this
    exact ⟨ho, by rw [hlen2, hlen1], hat1.persists hext2.le o'⟩

theorem inv_extendWith {κ : Nat → String} {s : State} (h : InvK κ s) (o donor : Nat)
    (hdon : ((s.obj donor).find "atype").isSome) : Post (extendWith o donor) s (Made κ s) := by
  unfold extendWith
  rw [post_atomic, post_bind_getS]
  simp only []
  rw [post_bind]
  apply Post.mono (inv_getItem h o _)
  intro r s1 hm1
  cases r with
  | error e => exact Made.error h e
  | ok nw =>
    simp only []
    obtain ⟨κ1, hinv1, hext1, hsys1, _, hok1⟩ := hm1
    obtain ⟨hnw, hlen1, hat1⟩ := hok1 nw rfl
    rw [post_bind]
    -- "Create empty values for atoms.props not in newatoms"
    have hloop1 := post_forEach_ghost (s.obj donor).props
      (fun p => do
        let s1 ← getS
        if ((s1.obj nw).find p.key).isSome then pure () else
        if p.arr.idx = [] then fail .index else
        let tr := arrTrail s1 p.arr
        let dt := arrDt s1 p.arr
        viewSet nw p.key (.lit ⟨dt, ((s.obj o).natoms + (s.obj donor).natoms) :: tr,
          List.replicate (((s.obj o).natoms + (s.obj donor).natoms) * prod tr) (zeroCell dt)⟩))
      (fun g st => InvK g st ∧ Ext κ1 s1 g st ∧ st.objs.length = s1.objs.length ∧ st.syss = s1.syss)
      Ext (fun g st => Ext.refl g st) (fun _ _ _ _ _ _ h1 h2 => h1.trans h2)
      (by
        intro p hp g st ⟨hg, hge, hgl, hgs⟩
        rw [post_bind_getS]
        split
        · exact ⟨g, ⟨hg, hge, hgl, hgs⟩, Ext.refl g st⟩
        · split
          · exact ⟨g, ⟨hg, hge, hgl, hgs⟩, Ext.refl g st⟩
          · simp only []
            apply Post.mono (inv_viewSet hg nw p.key (.lit _) (zeros_ok _ _ _))
            intro r st' ⟨⟨g', hg', hge', hgl', hgs'⟩, _⟩
            exact ⟨g', ⟨hg', hge.trans hge', by rw [hgl', hgl], by rw [hgs', hgs]⟩, hge'⟩)
      κ1 s1 ⟨hinv1, Ext.refl κ1 s1, rfl, rfl⟩
    apply Post.mono hloop1
    intro r s2 ⟨κ2, ⟨hinv2, hext2, hlen2, hsys2⟩, _⟩
    cases r with
    | error e => exact Made.error h e
    | ok u =>
      simp only []
      rw [post_bind_getS, post_bind]
      -- "Copy values to the extra atoms in newatoms"
      have hdon2 : ((s2.obj donor).find "atype").isSome := find_persists (hext1.le.trans hext2.le) donor _ hdon
      have hloop2 : Post (forEach (s2.obj nw).props (fun p => do
          let s3 ← getS
          let sel : Sel := { pos := sliceSel ((s.obj o).natoms + (s.obj donor).natoms) (some ((s.obj o).natoms : Int)) none 1,
                             view := true, scalar := false }
          match (s3.obj donor).find p.key with
          | some da => assign p.arr sel (arrVal s3 da)
          | none =>
            match (s3.obj o).find p.key with
            | none => fail .key
            | some sa =>
              if sa.idx = [] then fail .index else
              let tr := arrTrail s3 sa
              let dt := arrDt s3 sa
              assign p.arr sel ⟨dt, (s.obj donor).natoms :: tr, List.replicate ((s.obj donor).natoms * prod tr) (zeroCell dt)⟩))
          s2 (fun _ st => Writes κ2 s2 st) := by
        apply post_forEach _ _ (fun st => Writes κ2 s2 st) _ s2 ⟨hinv2, Ext.refl κ2 s2, rfl, rfl⟩
        intro p hp st hw
        have hp0 := hinv2.obj_props nw p hp
        rw [post_bind_getS]
        simp only []
        split
        · rename_i da hfd
          have hd := hw.1.find_ok donor p.key da hfd
          apply Post.mono (inv_assign hw.1 p.arr _ (arrVal st da) (fun hc => by simp at hc) ?_)
          · intro r st' h'
            exact hw.step h'
          · intro hκ
            right
            exact arrVal_ge1 (hd.atype (hp0.key.symm.trans hκ))
        · rename_i hfd
          split
          · exact hw
          · split
            · exact hw
            · apply Post.mono (inv_assign hw.1 p.arr _ _ (fun hc => by simp at hc) ?_)
              · intro r st' h'
                exact hw.step h'
              · intro hκ
                -- the donor has an `atype` column, so this branch is not taken for `atype`
                exfalso
                have hka : p.key = "atype" := hp0.key.symm.trans hκ
                have := find_persists hw.2.1.le donor "atype" hdon2
                rw [← hka, hfd] at this
                simp at this
      apply Post.mono hloop2
      intro r s3 hw
      cases r with
      | error e => exact Made.error h e
      | ok u =>
        simp only []
        rw [post_pure]
        exact Made.extend hext1 hsys1 hnw hlen1 hat1 hw.1 (hext2.trans hw.2.1)
          (by rw [hw.2.2.1, hlen2]) (by rw [hw.2.2.2, hsys2])

/-! ### composition: `Good` -/

/-- between operations every object has an `atype` property (`Atoms.__init__` always sets it). -/
def Boundary (s : State) : Prop := ∀ o, o < s.objs.length → HasAP (s.obj o)

/-- the invariant is re-established (for an extension of the ghost) and the boundary condition kept. -/
def Good (κ : Nat → String) (s s' : State) : Prop :=
  ∃ κ', InvK κ' s' ∧ Ext κ s κ' s' ∧ (Boundary s → Boundary s')

theorem Good.refl {κ : Nat → String} {s : State} (h : InvK κ s) : Good κ s s := ⟨κ, h, Ext.refl κ s, id⟩

theorem Boundary.of_le {s s' : State} (hb : Boundary s) (hle : Le s s') (hlen : s'.objs.length = s.objs.length) :
    Boundary s' := by
  intro o ho
  exact (hb o (by omega)).persists hle o

theorem Good.of_kept {κ : Nat → String} {s s' : State} (h : Kept κ s s') : Good κ s s' := by
  obtain ⟨κ', hinv, hext, hlen, _⟩ := h
  exact ⟨κ', hinv, hext, fun hb => hb.of_le hext.le hlen⟩

theorem Made.boundary {κ : Nat → String} {s s' : State} {r : Except Err Nat} (h : Made κ s r s') :
    Boundary s → Boundary s' := by
  obtain ⟨κ', hinv, hext, _, herr, hok⟩ := h
  intro hb
  cases r with
  | error e => rw [herr e rfl]; exact hb
  | ok o =>
    obtain ⟨ho, hlen, hat⟩ := hok o rfl
    intro o' ho'
    by_cases hlt : o' < s.objs.length
    · exact (hb o' hlt).persists hext.le o'
    · have : o' = o := by omega
      rw [this]; exact hat

theorem Kept.boundary {κ : Nat → String} {s s' : State} (h : Kept κ s s') : Boundary s → Boundary s' := by
  obtain ⟨κ', hinv, hext, hlen, _⟩ := h
  exact fun hb => hb.of_le hext.le hlen

theorem Good.of_made {κ : Nat → String} {s s' : State} {r : Except Err Nat} (h : Made κ s r s') : Good κ s s' := by
  have hbd := h.boundary
  obtain ⟨κ', hinv, hext, _, herr, hok⟩ := h
  exact ⟨κ', hinv, hext, hbd⟩

theorem Good.trans {κ κ1 : Nat → String} {s s1 s2 : State} (hext : Ext κ s κ1 s1) (hb : Boundary s → Boundary s1)
    (h2 : Good κ1 s1 s2) : Good κ s s2 := by
  obtain ⟨κ2, hinv2, hext2, hb2⟩ := h2
  exact ⟨κ2, hinv2, hext.trans hext2, fun h => hb2 (hb h)⟩

theorem Made.lt {κ : Nat → String} {s s' : State} {o : Nat} (h : Made κ s (.ok o) s') : o < s'.objs.length := by
  obtain ⟨_, _, _, _, _, hok⟩ := h
  obtain ⟨h1, h2, _⟩ := hok o rfl
  omega

/-- post-condition of the operations that return a new `Atoms`. -/
def GoodObj (κ : Nat → String) (s : State) (r : Except Err Nat) (s' : State) : Prop :=
  Good κ s s' ∧ ∀ o, r = .ok o → o < s'.objs.length ∧ HasAP (s'.obj o)

theorem GoodObj.of_made {κ : Nat → String} {s s' : State} {r : Except Err Nat} (h : Made κ s r s') :
    GoodObj κ s r s' := by
  refine ⟨Good.of_made h, ?_⟩
  intro o ho
  subst ho
  refine ⟨h.lt, ?_⟩
  obtain ⟨_, _, _, _, _, hok⟩ := h
  exact (hok o rfl).2.2

theorem GoodObj.error {κ : Nat → String} {s : State} (h : InvK κ s) (e : Err) : GoodObj κ s (.error e) s :=
  ⟨Good.refl h, fun o ho => by cases ho⟩

theorem inv_extendInt {κ : Nat → String} {s : State} (h : InvK κ s) (o : Nat) (n : Int) :
    Post (extendInt o n) s (GoodObj κ s) := by
  unfold extendInt
  rw [post_atomic, post_bind]
  apply Post.mono (inv_mkAtoms h (some n) none none [] (fun a ha => by cases ha) (fun a ha => by cases ha)
    (fun kv hkv => by simp at hkv))
  intro r s1 hm1
  cases r with
  | error e => exact GoodObj.error h e
  | ok d =>
    simp only []
    have hb1 := hm1.boundary
    obtain ⟨κ1, hinv1, hext1, _, _, hok1⟩ := hm1
    obtain ⟨_, _, hat1⟩ := hok1 d rfl
    apply Post.mono (inv_extendWith hinv1 o d hat1.1)
    intro r s2 hm2
    cases r with
    | error e => exact GoodObj.error h e
    | ok o' =>
      have := GoodObj.of_made hm2
      exact ⟨Good.trans hext1 hb1 this.1, this.2⟩

theorem inv_propGetAtoms {κ : Nat → String} {s : State} (h : InvK κ s) (o : Nat) (ix : Index) :
    Post (propGetAtoms o ix) s (GoodObj κ s) := by
  unfold propGetAtoms
  rw [post_atomic, post_bind]
  apply Post.mono (inv_getItem h o ix)
  intro r s1 hm1
  cases r with
  | error e => exact GoodObj.error h e
  | ok d =>
    simp only []
    have hb1 := hm1.boundary
    obtain ⟨κ1, hinv1, hext1, _, _, _⟩ := hm1
    apply Post.mono (inv_deepcopy hinv1 d)
    intro r s2 hm2
    cases r with
    | error e => exact GoodObj.error h e
    | ok o' =>
      have := GoodObj.of_made hm2
      exact ⟨Good.trans hext1 hb1 this.1, this.2⟩

theorem inv_propSetAtoms {κ : Nat → String} {s : State} (h : InvK κ s) (o : Nat) (ix : Option Index) (src : Nat) :
    Post (propSetAtoms o ix src) s (fun _ s' => Kept κ s s') := inv_setItem h o _ src

end Atomman.C06
