/-
  C08 — load ∘ dump for LAMMPS data files: the significant lines of what the C07 writer lays out, run through the
  first pass of the loader.
-/
import Proofs.C08_Poscar
namespace Atomman.C08
open Atomman Atomman.C07
set_option linter.unusedSimpArgs false


/-! ### data files: the significant lines of what the writer lays out -/

def NoHash (t : Tok) : Prop := ∀ c ∈ t, c ≠ '#'

theorem joinSp_no_hash (toks : Line) (h : ∀ t ∈ toks, NoHash t) : ∀ c ∈ joinSp toks, c ≠ '#' := by
  induction toks with
  | nil => intro c hc; cases hc
  | cons t ts ih =>
    cases ts with
    | nil => simpa [joinSp, NoHash] using h t List.mem_cons_self
    | cons t2 ts2 =>
      intro c hc
      simp only [joinSp, List.mem_append, List.mem_cons] at hc
      rcases hc with hc | hc | hc
      · exact h t List.mem_cons_self c hc
      · subst hc; decide
      · exact ih (fun x hx => h x (List.mem_cons_of_mem _ hx)) c hc

theorem stripComment_no_hash (l : List Char) (h : ∀ c ∈ l, c ≠ '#') : stripComment l = l := by
  unfold stripComment
  have := List.takeWhile_append_of_pos (p := fun x => decide (x ≠ '#')) (l₁ := l) (l₂ := [])
    (by intro x hx; simpa using h x hx)
  simpa using this

theorem hasHash_no_hash (l : List Char) (h : ∀ c ∈ l, c ≠ '#') : hasHash l = false := by
  unfold hasHash
  cases hh : l.any (· = '#') with
  | false => rfl
  | true =>
    obtain ⟨c, hc, hc2⟩ := List.any_eq_true.mp hh
    exact absurd (by simpa using hc2) (h c hc)

/-- a rendered line of clean tokens without `#`: its terms are its tokens and it carries no comment. -/
theorem sigOf_clean (toks : Line) (hc : ∀ t ∈ toks, CleanTok t) (hh : ∀ t ∈ toks, NoHash t) :
    sigOf (joinSp toks) = ⟨toks, none⟩ := by
  unfold sigOf termsC hintOf
  rw [stripComment_no_hash _ (joinSp_no_hash toks hh), lexLine_joinSp toks hc, hasHash_no_hash _ (joinSp_no_hash toks hh)]
  simp

theorem sigOf_blank : sigOf (joinSp []) = ⟨[], none⟩ := by decide +kernel

/-- the `Atoms # style words` line: terms `[Atoms]`, comment = the words joined by single blanks. -/
theorem sigOf_atoms_line (ws : Line) (hc : ∀ t ∈ ws, CleanTok t) (hne : ws ≠ []) :
    sigOf (joinSp ([cs!"Atoms", cs!"#"] ++ ws)) = ⟨[cs!"Atoms"], some (joinSp ws)⟩ := by
  obtain ⟨w, ws', rfl⟩ := List.exists_cons_of_ne_nil hne
  have hj : joinSp ([cs!"Atoms", cs!"#"] ++ w :: ws') = cs!"Atoms # " ++ joinSp (w :: ws') := by
    simp [joinSp]
  have hstrip : stripComment (cs!"Atoms # " ++ joinSp (w :: ws')) = cs!"Atoms " := by
    unfold stripComment; simp [List.takeWhile]
  have hcomm : commentOf (cs!"Atoms # " ++ joinSp (w :: ws')) = ' ' :: joinSp (w :: ws') := by
    unfold commentOf; simp [List.dropWhile]
  have hhash : hasHash (cs!"Atoms # " ++ joinSp (w :: ws')) = true := by
    unfold hasHash; simp
  unfold sigOf termsC hintOf
  rw [hj, hstrip, hhash, hcomm]
  have hlex : lexLine (cs!"Atoms ") = [cs!"Atoms"] := by decide +kernel
  rw [hlex]
  have hcl : classify [cs!"Atoms"] = .atoms := by decide +kernel
  simp only [hcl, if_true]
  -- strip: leading blank removed; the joined words neither start nor end with white space
  congr 2
  unfold pyStrip
  have hw := hc w List.mem_cons_self
  obtain ⟨c0, cs0, hw0⟩ := List.exists_cons_of_ne_nil hw.1
  have hstart : (' ' :: joinSp (w :: ws')).dropWhile isSpace = joinSp (w :: ws') := by
    rw [List.dropWhile_cons_of_pos (by decide)]
    have : joinSp (w :: ws') = c0 :: (cs0 ++ (match ws' with | [] => [] | _ => ' ' :: joinSp ws')) := by
      cases ws' <;> simp [joinSp, hw0]
    rw [this, List.dropWhile_cons_of_neg]
    have := (hw.2 c0 (by rw [hw0]; exact List.mem_cons_self)).1
    simp [this]
  rw [hstart]
  -- the last character is the last character of the last word
  have hlast : ∀ (l : Line), l ≠ [] → (∀ t ∈ l, CleanTok t) →
      ∃ pre c, joinSp l = pre ++ [c] ∧ isSpace c = false := by
    intro l
    induction l with
    | nil => intro h; exact absurd rfl h
    | cons t ts ih =>
      intro _ hcl
      cases ts with
      | nil =>
        have ht := hcl t List.mem_cons_self
        have hpc : t = t.dropLast ++ [t.getLast ht.1] := (List.dropLast_append_getLast ht.1).symm
        refine ⟨t.dropLast, t.getLast ht.1, by simpa [joinSp] using hpc, ?_⟩
        exact (ht.2 _ (List.getLast_mem ht.1)).1
      | cons t2 ts2 =>
        obtain ⟨pre, c, hpc, hcs⟩ := ih (by simp) (fun x hx => hcl x (List.mem_cons_of_mem _ hx))
        refine ⟨t ++ ' ' :: pre, c, ?_, hcs⟩
        simp only [joinSp] at hpc ⊢
        rw [hpc]; simp
  obtain ⟨pre, c, hpc, hcs⟩ := hlast (w :: ws') (by simp) hc
  rw [hpc, List.reverse_append, List.reverse_cons, List.reverse_nil, List.nil_append, List.singleton_append,
    List.dropWhile_cons_of_neg (by simp [hcs])]
  simp


def plainSig (t : Line) : SigLine := ⟨t, none⟩

theorem noHash_of_numChars (t : Tok) (h : ∀ c ∈ t, NumChar c) : NoHash t :=
  fun c hc => (numChar_clean c (h c hc)).2.2

theorem noHash_lit (t : Tok) (h : t.all (fun c => decide (c ≠ '#')) = true) : NoHash t := by
  intro c hc
  simpa using List.all_eq_true.mp h c hc

/-- the first pass on a line of the header that sets nothing but a number. -/
theorem fpStepA_natoms (lf : Option ℚ) (n : Nat) (a : FPA) :
    fpStepA lf (plainSig [natTok n, cs!"atoms"]) a =
      .ok ⟨{ a.st with natoms := some (n : Int) }, a.rowsA.map (· ++ [[natTok n, cs!"atoms"]]),
           a.rowsV.map (· ++ [[natTok n, cs!"atoms"]])⟩ := by
  unfold fpStepA fpStepT plainSig
  have hc : classify [natTok n, cs!"atoms"] = .natoms (natTok n) := by simp [classify]
  simp [hc, pyInt_natTok, bind, Except.bind, pure, Except.pure, setsVel]

theorem fpStepA_natypes (lf : Option ℚ) (n : Nat) (a : FPA) :
    fpStepA lf (plainSig [natTok n, cs!"atom", cs!"types"]) a =
      .ok ⟨{ a.st with natypes := some (n : Int) }, a.rowsA.map (· ++ [[natTok n, cs!"atom", cs!"types"]]),
           a.rowsV.map (· ++ [[natTok n, cs!"atom", cs!"types"]])⟩ := by
  unfold fpStepA fpStepT plainSig
  have hc : classify [natTok n, cs!"atom", cs!"types"] = .natypes (natTok n) := by simp [classify]
  simp [hc, pyInt_natTok, bind, Except.bind, pure, Except.pure, setsVel]

theorem fpStepA_x {f : Fmt} (hf : Readable f) (lf : Option ℚ) (lo hi : ℚ) (a : FPA) :
    fpStepA lf (plainSig [fmtNum f lo, fmtNum f hi, cs!"xlo", cs!"xhi"]) a =
      .ok ⟨{ a.st with x := some (mulBy lf (fmtVal f lo), mulBy lf (fmtVal f hi)) },
           a.rowsA.map (· ++ [[fmtNum f lo, fmtNum f hi, cs!"xlo", cs!"xhi"]]),
           a.rowsV.map (· ++ [[fmtNum f lo, fmtNum f hi, cs!"xlo", cs!"xhi"]])⟩ := by
  unfold fpStepA fpStepT plainSig
  have hc : classify [fmtNum f lo, fmtNum f hi, cs!"xlo", cs!"xhi"] = .xb (fmtNum f lo) (fmtNum f hi) := by
    simp [classify]
  simp [hc, pyFloat_fmt hf, bind, Except.bind, pure, Except.pure, setsVel]

theorem fpStepA_y {f : Fmt} (hf : Readable f) (lf : Option ℚ) (lo hi : ℚ) (a : FPA) :
    fpStepA lf (plainSig [fmtNum f lo, fmtNum f hi, cs!"ylo", cs!"yhi"]) a =
      .ok ⟨{ a.st with y := some (mulBy lf (fmtVal f lo), mulBy lf (fmtVal f hi)) },
           a.rowsA.map (· ++ [[fmtNum f lo, fmtNum f hi, cs!"ylo", cs!"yhi"]]),
           a.rowsV.map (· ++ [[fmtNum f lo, fmtNum f hi, cs!"ylo", cs!"yhi"]])⟩ := by
  unfold fpStepA fpStepT plainSig
  have hc : classify [fmtNum f lo, fmtNum f hi, cs!"ylo", cs!"yhi"] = .yb (fmtNum f lo) (fmtNum f hi) := by
    simp [classify]
  simp [hc, pyFloat_fmt hf, bind, Except.bind, pure, Except.pure, setsVel]

theorem fpStepA_z {f : Fmt} (hf : Readable f) (lf : Option ℚ) (lo hi : ℚ) (a : FPA) :
    fpStepA lf (plainSig [fmtNum f lo, fmtNum f hi, cs!"zlo", cs!"zhi"]) a =
      .ok ⟨{ a.st with z := some (mulBy lf (fmtVal f lo), mulBy lf (fmtVal f hi)) },
           a.rowsA.map (· ++ [[fmtNum f lo, fmtNum f hi, cs!"zlo", cs!"zhi"]]),
           a.rowsV.map (· ++ [[fmtNum f lo, fmtNum f hi, cs!"zlo", cs!"zhi"]])⟩ := by
  unfold fpStepA fpStepT plainSig
  have hc : classify [fmtNum f lo, fmtNum f hi, cs!"zlo", cs!"zhi"] = .zb (fmtNum f lo) (fmtNum f hi) := by
    simp [classify]
  simp [hc, pyFloat_fmt hf, bind, Except.bind, pure, Except.pure, setsVel]

theorem fpStepA_tilt {f : Fmt} (hf : Readable f) (lf : Option ℚ) (xy xz yz : ℚ) (a : FPA) :
    fpStepA lf (plainSig [fmtNum f xy, fmtNum f xz, fmtNum f yz, cs!"xy", cs!"xz", cs!"yz"]) a =
      .ok ⟨{ a.st with xy := mulBy lf (fmtVal f xy), xz := mulBy lf (fmtVal f xz), yz := mulBy lf (fmtVal f yz) },
           a.rowsA.map (· ++ [[fmtNum f xy, fmtNum f xz, fmtNum f yz, cs!"xy", cs!"xz", cs!"yz"]]),
           a.rowsV.map (· ++ [[fmtNum f xy, fmtNum f xz, fmtNum f yz, cs!"xy", cs!"xz", cs!"yz"]])⟩ := by
  unfold fpStepA fpStepT plainSig
  have hc : classify [fmtNum f xy, fmtNum f xz, fmtNum f yz, cs!"xy", cs!"xz", cs!"yz"] =
      .tilt (fmtNum f xy) (fmtNum f xz) (fmtNum f yz) := by simp [classify]
  simp [hc, pyFloat_fmt hf, bind, Except.bind, pure, Except.pure, setsVel]

theorem fpStepA_atoms (lf : Option ℚ) (hint : Option (List Char)) (a : FPA) :
    fpStepA lf ⟨[cs!"Atoms"], hint⟩ a =
      .ok ⟨{ a.st with atomsStart := some 1, firstAtoms := true, hint := hint }, some [],
           a.rowsV.map (· ++ [[cs!"Atoms"]])⟩ := by
  unfold fpStepA fpStepT
  have hc : classify [cs!"Atoms"] = .atoms := by decide +kernel
  simp [hc, pure, Except.pure, bind, Except.bind, setsVel]


/-- a row of a numeric table: at least one token, every token a number. -/
def NumericRow (t : Line) : Prop := t ≠ [] ∧ ∀ x ∈ t, ∃ v, parseVal x = .ok v

theorem numeric_ne_keyword (x k : Tok) (hx : ∃ v, parseVal x = .ok v) (hk : parseVal k = .error "value") : x ≠ k := by
  intro h; subst h; obtain ⟨v, hv⟩ := hx; rw [hk] at hv; cases hv

/-- a numeric row matches none of the term patterns of the first pass. -/
theorem classify_numeric (t : Line) (h : NumericRow t) : classify t = .other := by
  obtain ⟨hne, hn⟩ := h
  match t, hne, hn with
  | [a], _, hn =>
    have ha := hn a (by simp)
    have h1 := numeric_ne_keyword a (cs!"Atoms") ha (by decide +kernel)
    have h2 := numeric_ne_keyword a (cs!"Masses") ha (by decide +kernel)
    have h3 := numeric_ne_keyword a (cs!"Velocities") ha (by decide +kernel)
    simp [classify, h1, h2, h3]
  | [a, b], _, hn =>
    have hb := numeric_ne_keyword b (cs!"atoms") (hn b (by simp)) (by decide +kernel)
    simp [classify, hb]
  | [a, b, c], _, hn =>
    have hb := numeric_ne_keyword b (cs!"atom") (hn b (by simp)) (by decide +kernel)
    simp [classify, hb]
  | [a, b, c, d], _, hn =>
    have h1 := numeric_ne_keyword c (cs!"xlo") (hn c (by simp)) (by decide +kernel)
    have h2 := numeric_ne_keyword c (cs!"ylo") (hn c (by simp)) (by decide +kernel)
    have h3 := numeric_ne_keyword c (cs!"zlo") (hn c (by simp)) (by decide +kernel)
    simp [classify, h1, h2, h3]
  | [a, b, c, d, e], _, _ => rfl
  | [a, b, c, d, e, g], _, hn =>
    have h1 := numeric_ne_keyword d (cs!"xy") (hn d (by simp)) (by decide +kernel)
    simp [classify, h1]
  | _ :: _ :: _ :: _ :: _ :: _ :: _ :: _, _, _ => rfl

theorem numericRow_cells {f : Fmt} (hf : Readable f) (r : List Cell) (hr : r ≠ []) : NumericRow (r.map (Cell.tok f)) := by
  refine ⟨by simpa using hr, ?_⟩
  intro x hx
  simp only [List.mem_map] at hx
  obtain ⟨c, _, rfl⟩ := hx
  obtain ⟨v, hv, _⟩ := parseVal_cellTok hf c
  exact ⟨v, hv⟩

/-- the first pass on a numeric row outside a Masses section: the first row after `Atoms` fixes the column count,
    every other one changes nothing. -/
theorem fpStepA_numeric (lf : Option ℚ) (t : Line) (ht : NumericRow t) (a : FPA) (hm : a.st.massesToRead = 0) :
    fpStepA lf (plainSig t) a =
      .ok ⟨if a.st.firstAtoms then { a.st with atomsColumns := t.length, firstAtoms := false } else a.st,
           a.rowsA.map (· ++ [t]), a.rowsV.map (· ++ [t])⟩ := by
  unfold fpStepA fpStepT plainSig
  have hc := classify_numeric t ht
  have hne : t.isEmpty = false := by
    cases t with
    | nil => exact absurd rfl ht.1
    | cons _ _ => rfl
  by_cases h1 : a.st.firstAtoms = true
  · simp [hc, hne, h1, hm, pure, Except.pure, bind, Except.bind, setsVel]
  · simp [hc, hne, h1, hm, pure, Except.pure, bind, Except.bind, setsVel]

theorem fpLoopA_append (lf : Option ℚ) (x y : List SigLine) (a : FPA) :
    fpLoopA lf (x ++ y) a = (fpLoopA lf x a).bind (fpLoopA lf y) := by
  induction x generalizing a with
  | nil => rfl
  | cons e es ih =>
    simp only [List.cons_append, fpLoopA]
    cases h : fpStepA lf e a with
    | error err => rfl
    | ok a' => simp only [bind, Except.bind]; exact ih a'

/-- a block of numeric rows (no Masses section open), after the first row of the `Atoms` table was seen. -/
theorem fpLoopA_numeric_rows (lf : Option ℚ) (rows : List Line) (hr : ∀ t ∈ rows, NumericRow t) (a : FPA)
    (hm : a.st.massesToRead = 0) (hf : a.st.firstAtoms = false) :
    fpLoopA lf (rows.map plainSig) a = .ok ⟨a.st, a.rowsA.map (· ++ rows), a.rowsV.map (· ++ rows)⟩ := by
  induction rows generalizing a with
  | nil => cases a with | mk st ra rv => cases ra <;> cases rv <;> simp [fpLoopA, pure, Except.pure]
  | cons t ts ih =>
    simp only [List.map_cons, fpLoopA]
    rw [fpStepA_numeric lf t (hr t List.mem_cons_self) a hm]
    simp only [hf, Bool.false_eq_true, if_false, bind, Except.bind]
    rw [ih (fun x hx => hr x (List.mem_cons_of_mem _ hx))
      ⟨a.st, a.rowsA.map (· ++ [t]), a.rowsV.map (· ++ [t])⟩ hm hf]
    cases a with | mk st ra rv => cases ra <;> cases rv <;> simp

/-- the rows of the `Atoms` table right after its header line. -/
theorem fpLoopA_atom_rows (lf : Option ℚ) (t : Line) (ts : List Line) (hr : ∀ x ∈ t :: ts, NumericRow x) (a : FPA)
    (hm : a.st.massesToRead = 0) (hf : a.st.firstAtoms = true) :
    fpLoopA lf ((t :: ts).map plainSig) a =
      .ok ⟨{ a.st with atomsColumns := t.length, firstAtoms := false }, a.rowsA.map (· ++ t :: ts),
           a.rowsV.map (· ++ t :: ts)⟩ := by
  simp only [List.map_cons, fpLoopA]
  rw [fpStepA_numeric lf t (hr t List.mem_cons_self) a hm]
  simp only [hf, if_true, bind, Except.bind]
  rw [fpLoopA_numeric_rows lf ts (fun x hx => hr x (List.mem_cons_of_mem _ hx))
    ⟨{ a.st with atomsColumns := t.length, firstAtoms := false }, a.rowsA.map (· ++ [t]), a.rowsV.map (· ++ [t])⟩ hm rfl]
  cases a with | mk st ra rv => cases ra <;> cases rv <;> simp

theorem fpStepA_velocities (lf : Option ℚ) (a : FPA) (hm : a.st.massesToRead = 0) (hf : a.st.firstAtoms = false) :
    fpStepA lf (plainSig [cs!"Velocities"]) a =
      .ok ⟨{ a.st with velStart := some 1 }, a.rowsA.map (· ++ [[cs!"Velocities"]]), some []⟩ := by
  unfold fpStepA fpStepT plainSig
  have hc : classify [cs!"Velocities"] = .velocities := by decide +kernel
  simp [hc, hm, hf, pure, Except.pure, bind, Except.bind, setsVel]


theorem sig_append (a b : List RawLine) : sig (a ++ b) = sig a ++ sig b := by
  simp [sig, List.map_append, List.filter_append]

theorem sig_single (l : RawLine) : sig [l] = if (sigOf l).terms.isEmpty then [] else [sigOf l] := by
  unfold sig
  simp only [List.map_cons, List.map_nil, List.filter_cons, List.filter_nil]
  cases (sigOf l).terms.isEmpty <;> simp

theorem sig_cons' (l : RawLine) (ls : List RawLine) : sig (l :: ls) = sig [l] ++ sig ls := by
  have := sig_append [l] ls
  simpa using this

theorem cellTok_noHash {f : Fmt} (hf : Readable f) (c : Cell) : NoHash (c.tok f) := by
  cases c with
  | int i => exact noHash_of_numChars _ (numChars_intTok i)
  | num q => exact hf.nohash q

/-- the significant lines of a written table are its rows. -/
theorem sig_rowsDoc {f : Fmt} (hf : Readable f) (rows : List (List Cell)) (hr : ∀ r ∈ rows, r ≠ []) :
    sig ((rowsDoc f rows).map joinSp) = (rowsDoc f rows).map plainSig := by
  induction rows with
  | nil => rfl
  | cons r rs ih =>
    simp only [rowsDoc, List.map_cons] at ih ⊢
    rw [sig_cons', ih (fun x hx => hr x (List.mem_cons_of_mem _ hx)), sig_single]
    have hs : sigOf (joinSp (r.map (Cell.tok f))) = ⟨r.map (Cell.tok f), none⟩ :=
      sigOf_clean _ (by intro t ht; simp only [List.mem_map] at ht; obtain ⟨c, _, rfl⟩ := ht; exact cellTok_clean hf c)
        (by intro t ht; simp only [List.mem_map] at ht; obtain ⟨c, _, rfl⟩ := ht; exact cellTok_noHash hf c)
    rw [hs]
    have : (r.map (Cell.tok f)).isEmpty = false := by
      cases r with
      | nil => exact absurd rfl (hr [] List.mem_cons_self)
      | cons _ _ => rfl
    simp [this, plainSig]

def boxSigs (f : Fmt) (h : HiLo) : List SigLine := (boxLines f h).map plainSig

theorem sig_boxLines {f : Fmt} (hf : Readable f) (h : HiLo) : sig ((boxLines f h).map joinSp) = boxSigs f h := by
  have hnum : ∀ q, CleanTok (fmtNum f q) ∧ NoHash (fmtNum f q) := fun q => ⟨hf.clean q, hf.nohash q⟩
  have hlit : ∀ t : Tok, (t ≠ [] ∧ t.all (fun c => !isSpace c && decide (c ≠ '\n')) = true) →
      t.all (fun c => decide (c ≠ '#')) = true → CleanTok t ∧ NoHash t :=
    fun t h1 h2 => ⟨cleanTok_lit t h1, noHash_lit t h2⟩
  have h4 : ∀ (a b : ℚ) (k1 k2 : Tok), (CleanTok k1 ∧ NoHash k1) → (CleanTok k2 ∧ NoHash k2) →
      sig [joinSp [fmtNum f a, fmtNum f b, k1, k2]] = [plainSig [fmtNum f a, fmtNum f b, k1, k2]] := by
    intro a b k1 k2 hk1 hk2
    rw [sig_single, sigOf_clean]
    · simp [plainSig]
    · intro t ht; simp only [List.mem_cons, List.not_mem_nil, or_false] at ht
      rcases ht with rfl | rfl | rfl | rfl
      · exact (hnum a).1
      · exact (hnum b).1
      · exact hk1.1
      · exact hk2.1
    · intro t ht; simp only [List.mem_cons, List.not_mem_nil, or_false] at ht
      rcases ht with rfl | rfl | rfl | rfl
      · exact (hnum a).2
      · exact (hnum b).2
      · exact hk1.2
      · exact hk2.2
  unfold boxSigs boxLines
  simp only [List.map_append, List.map_cons, List.map_nil]
  rw [sig_append, sig_cons', sig_cons' (joinSp [fmtNum f h.ylo, _, _, _]), h4, h4, h4]
  · by_cases ht : h.xy ≠ 0 ∨ h.xz ≠ 0 ∨ h.yz ≠ 0
    · simp only [ht, if_true, List.map_cons, List.map_nil]
      rw [sig_single, sigOf_clean]
      · simp [plainSig, ht]
      · intro t hmem; simp only [List.mem_cons, List.not_mem_nil, or_false] at hmem
        rcases hmem with rfl | rfl | rfl | rfl | rfl | rfl
        · exact (hnum _).1
        · exact (hnum _).1
        · exact (hnum _).1
        · exact cleanTok_lit _ (by decide)
        · exact cleanTok_lit _ (by decide)
        · exact cleanTok_lit _ (by decide)
      · intro t hmem; simp only [List.mem_cons, List.not_mem_nil, or_false] at hmem
        rcases hmem with rfl | rfl | rfl | rfl | rfl | rfl
        · exact (hnum _).2
        · exact (hnum _).2
        · exact (hnum _).2
        · exact noHash_lit _ (by decide)
        · exact noHash_lit _ (by decide)
        · exact noHash_lit _ (by decide)
    · simp [ht, sig, plainSig]
  all_goals first
    | exact hlit _ (by decide) (by decide)


/-- the significant lines of a written data file. -/
def dataSigs (f : Fmt) (words : Line) (p : DataParts) : List SigLine :=
  [plainSig [natTok p.natoms, cs!"atoms"], plainSig [natTok p.natypes, cs!"atom", cs!"types"]] ++ boxSigs f p.hilo ++
  [⟨[cs!"Atoms"], some (joinSp words)⟩] ++ (rowsDoc f p.rows).map plainSig ++
  (match p.vel with
   | some vr => plainSig [cs!"Velocities"] :: (rowsDoc f vr).map plainSig
   | none => [])

theorem sig_dataDoc {f : Fmt} (hf : Readable f) (style : String) (p : DataParts)
    (hw : (styleWords style).map strTok ≠ [] ∧ ∀ t ∈ (styleWords style).map strTok, CleanTok t)
    (hr : ∀ r ∈ p.rows, r ≠ []) (hv : ∀ vr, p.vel = some vr → ∀ r ∈ vr, r ≠ []) :
    sig ((dataDocOf f style p).map joinSp) = dataSigs f ((styleWords style).map strTok) p := by
  unfold dataDocOf dataSigs
  simp only [List.map_append, List.map_cons, List.map_nil]
  have hblank : sig [joinSp []] = [] := by decide +kernel
  have h1 : sig [joinSp [natTok p.natoms, cs!"atoms"]] = [plainSig [natTok p.natoms, cs!"atoms"]] := by
    rw [sig_single, sigOf_clean]
    · simp [plainSig]
    · intro t ht; simp only [List.mem_cons, List.not_mem_nil, or_false] at ht
      rcases ht with rfl | rfl
      · exact cleanTok_natTok _
      · exact cleanTok_lit _ (by decide)
    · intro t ht; simp only [List.mem_cons, List.not_mem_nil, or_false] at ht
      rcases ht with rfl | rfl
      · exact noHash_of_numChars _ (numChars_natTok _)
      · exact noHash_lit _ (by decide)
  have h2 : sig [joinSp [natTok p.natypes, cs!"atom", cs!"types"]] = [plainSig [natTok p.natypes, cs!"atom", cs!"types"]] := by
    rw [sig_single, sigOf_clean]
    · simp [plainSig]
    · intro t ht; simp only [List.mem_cons, List.not_mem_nil, or_false] at ht
      rcases ht with rfl | rfl | rfl
      · exact cleanTok_natTok _
      · exact cleanTok_lit _ (by decide)
      · exact cleanTok_lit _ (by decide)
    · intro t ht; simp only [List.mem_cons, List.not_mem_nil, or_false] at ht
      rcases ht with rfl | rfl | rfl
      · exact noHash_of_numChars _ (numChars_natTok _)
      · exact noHash_lit _ (by decide)
      · exact noHash_lit _ (by decide)
  have h3 : sig [joinSp ([cs!"Atoms", cs!"#"] ++ (styleWords style).map strTok)] =
      [⟨[cs!"Atoms"], some (joinSp ((styleWords style).map strTok))⟩] := by
    rw [sig_single, sigOf_atoms_line _ hw.2 hw.1]
    simp
  have hvel : sig [joinSp [cs!"Velocities"]] = [plainSig [cs!"Velocities"]] := by decide +kernel
  rw [sig_append, sig_append, sig_append, sig_append, sig_cons', hblank, sig_cons', h1, h2, sig_boxLines hf,
    sig_cons', hblank, sig_cons', h3, hblank, sig_rowsDoc hf p.rows hr]
  cases hvl : p.vel with
  | none => simp [sig]
  | some vr =>
    simp only [List.map_append, List.map_cons, List.map_nil, List.cons_append, List.nil_append]
    rw [sig_cons', hblank, sig_cons', hvel, sig_cons', hblank, sig_rowsDoc hf vr (hv vr hvl)]
    simp


def hasTilt (h : HiLo) : Prop := h.xy ≠ 0 ∨ h.xz ≠ 0 ∨ h.yz ≠ 0
instance (h : HiLo) : Decidable (hasTilt h) := by unfold hasTilt; infer_instance

/-- the variables of the first pass after a written data file (offsets as in `FP.erase`). -/
def dataFP (f : Fmt) (lf : Option ℚ) (words : Line) (p : DataParts) : FP :=
  { natoms := some (p.natoms : Int), natypes := some (p.natypes : Int),
    x := some (mulBy lf (fmtVal f p.hilo.xlo), mulBy lf (fmtVal f p.hilo.xhi)),
    y := some (mulBy lf (fmtVal f p.hilo.ylo), mulBy lf (fmtVal f p.hilo.yhi)),
    z := some (mulBy lf (fmtVal f p.hilo.zlo), mulBy lf (fmtVal f p.hilo.zhi)),
    xy := if hasTilt p.hilo then mulBy lf (fmtVal f p.hilo.xy) else 0,
    xz := if hasTilt p.hilo then mulBy lf (fmtVal f p.hilo.xz) else 0,
    yz := if hasTilt p.hilo then mulBy lf (fmtVal f p.hilo.yz) else 0,
    atomsStart := some 1, hint := some (joinSp words), firstAtoms := false,
    atomsColumns := ((rowsDoc f p.rows).headD []).length,
    velStart := p.vel.map fun _ => 1 }

/-- all the rows pandas can see after the `Atoms` line of a written data file. -/
def dataRowsA (f : Fmt) (p : DataParts) : List Line :=
  rowsDoc f p.rows ++ (match p.vel with | some vr => [cs!"Velocities"] :: rowsDoc f vr | none => [])

theorem fpLoopA_dataSigs {f : Fmt} (hf : Readable f) (lf : Option ℚ) (words : Line) (p : DataParts)
    (hne : p.rows ≠ []) (hr : ∀ r ∈ p.rows, r ≠ []) (hv : ∀ vr, p.vel = some vr → ∀ r ∈ vr, r ≠ []) :
    fpLoopA lf (dataSigs f words p) FPA.init =
      .ok ⟨dataFP f lf words p, some (dataRowsA f p), p.vel.map (rowsDoc f)⟩ := by
  have hnum : ∀ rows : List (List Cell), (∀ r ∈ rows, r ≠ []) → ∀ t ∈ rowsDoc f rows, NumericRow t := by
    intro rows hrows t ht
    simp only [rowsDoc, List.mem_map] at ht
    obtain ⟨r, hr', rfl⟩ := ht
    exact numericRow_cells hf r (hrows r hr')
  obtain ⟨r0, rs, hrows⟩ := List.exists_cons_of_ne_nil hne
  have hdoc : rowsDoc f p.rows = r0.map (Cell.tok f) :: rowsDoc f rs := by rw [hrows]; rfl
  unfold dataSigs boxSigs boxLines
  rw [fpLoopA_append, fpLoopA_append, fpLoopA_append]
  -- header
  have hhead : fpLoopA lf ([plainSig [natTok p.natoms, cs!"atoms"], plainSig [natTok p.natypes, cs!"atom", cs!"types"]] ++
      List.map plainSig ([[fmtNum f p.hilo.xlo, fmtNum f p.hilo.xhi, cs!"xlo", cs!"xhi"],
        [fmtNum f p.hilo.ylo, fmtNum f p.hilo.yhi, cs!"ylo", cs!"yhi"],
        [fmtNum f p.hilo.zlo, fmtNum f p.hilo.zhi, cs!"zlo", cs!"zhi"]] ++
        if p.hilo.xy ≠ 0 ∨ p.hilo.xz ≠ 0 ∨ p.hilo.yz ≠ 0 then
          [[fmtNum f p.hilo.xy, fmtNum f p.hilo.xz, fmtNum f p.hilo.yz, cs!"xy", cs!"xz", cs!"yz"]] else [])) FPA.init =
      .ok ⟨{ natoms := some (p.natoms : Int), natypes := some (p.natypes : Int),
             x := some (mulBy lf (fmtVal f p.hilo.xlo), mulBy lf (fmtVal f p.hilo.xhi)),
             y := some (mulBy lf (fmtVal f p.hilo.ylo), mulBy lf (fmtVal f p.hilo.yhi)),
             z := some (mulBy lf (fmtVal f p.hilo.zlo), mulBy lf (fmtVal f p.hilo.zhi)),
             xy := if hasTilt p.hilo then mulBy lf (fmtVal f p.hilo.xy) else 0,
             xz := if hasTilt p.hilo then mulBy lf (fmtVal f p.hilo.xz) else 0,
             yz := if hasTilt p.hilo then mulBy lf (fmtVal f p.hilo.yz) else 0 }, none, none⟩ := by
    by_cases ht : p.hilo.xy ≠ 0 ∨ p.hilo.xz ≠ 0 ∨ p.hilo.yz ≠ 0
    · have ht' : hasTilt p.hilo := ht
      simp only [ht, ht', if_true, List.map_append, List.map_cons, List.map_nil, List.cons_append, List.nil_append, fpLoopA,
        fpStepA_natoms, fpStepA_natypes, fpStepA_x hf, fpStepA_y hf, fpStepA_z hf, fpStepA_tilt hf, bind, Except.bind,
        pure, Except.pure, FPA.init, Option.map_none]
    · have ht' : ¬ hasTilt p.hilo := ht
      simp only [ht, ht', if_false, List.map_append, List.map_cons, List.map_nil, List.cons_append, List.nil_append,
        List.append_nil, fpLoopA, fpStepA_natoms, fpStepA_natypes, fpStepA_x hf, fpStepA_y hf, fpStepA_z hf, bind,
        Except.bind, pure, Except.pure, FPA.init, Option.map_none]
  rw [hhead]
  simp only [Except.bind, fpLoopA, fpStepA_atoms, bind, pure, Except.pure, Option.map_none]
  rw [hdoc, fpLoopA_atom_rows lf _ _ (by rw [← hdoc]; exact hnum p.rows hr) _ rfl rfl]
  simp only [Option.map_some, Option.map_none, List.nil_append]
  cases hvl : p.vel with
  | none =>
    simp only [fpLoopA, pure, Except.pure, dataFP, dataRowsA, hvl, hdoc, List.headD_cons, List.append_nil, Option.map_none]
  | some vr =>
    simp only [fpLoopA]
    rw [fpStepA_velocities lf _ rfl rfl]
    simp only [bind, Except.bind, Option.map_some, Option.map_none]
    rw [fpLoopA_numeric_rows lf _ (hnum vr (hv vr hvl)) _ rfl rfl]
    simp only [dataFP, dataRowsA, hvl, hdoc, List.headD_cons, Option.map_some, List.nil_append, List.append_assoc,
      List.cons_append]


theorem dataDoc_no_newline {f : Fmt} (hf : Readable f) (style : String) (p : DataParts)
    (hw : ∀ t ∈ (styleWords style).map strTok, CleanTok t) :
    ∀ l ∈ dataDocOf f style p, ∀ t ∈ l, ∀ c ∈ t, c ≠ '\n' := by
  have hnum : ∀ q, ∀ c ∈ fmtNum f q, c ≠ '\n' := fun q c hc => ((hf.clean q).2 c hc).2
  have hnat : ∀ m, ∀ c ∈ natTok m, c ≠ '\n' := fun m c hc => ((cleanTok_natTok m).2 c hc).2
  have hlit : ∀ t : Tok, t.all (fun c => decide (c ≠ '\n')) = true → ∀ c ∈ t, c ≠ '\n' := by
    intro t h c hc; simpa using List.all_eq_true.mp h c hc
  have hrows : ∀ rows : List (List Cell), ∀ l ∈ rowsDoc f rows, ∀ t ∈ l, ∀ c ∈ t, c ≠ '\n' := by
    intro rows l hl t ht c hc
    exact ((cleanDoc_rowsDoc hf rows l hl t ht).2 c hc).2
  intro l hl t ht
  unfold dataDocOf at hl
  simp only [List.mem_append, List.mem_cons, List.not_mem_nil, or_false] at hl
  rcases hl with ((((rfl | rfl | rfl) | hl) | (rfl | rfl | rfl)) | hl) | hl
  · cases ht
  · simp only [List.mem_cons, List.not_mem_nil, or_false] at ht
    rcases ht with rfl | rfl
    · exact hnat _
    · exact hlit _ (by decide)
  · simp only [List.mem_cons, List.not_mem_nil, or_false] at ht
    rcases ht with rfl | rfl | rfl
    · exact hnat _
    · exact hlit _ (by decide)
    · exact hlit _ (by decide)
  · unfold boxLines at hl
    simp only [List.mem_append, List.mem_cons, List.not_mem_nil, or_false] at hl
    rcases hl with (rfl | rfl | rfl) | hl
    · simp only [List.mem_cons, List.not_mem_nil, or_false] at ht
      rcases ht with rfl | rfl | rfl | rfl <;> first | exact hnum _ | exact hlit _ (by decide)
    · simp only [List.mem_cons, List.not_mem_nil, or_false] at ht
      rcases ht with rfl | rfl | rfl | rfl <;> first | exact hnum _ | exact hlit _ (by decide)
    · simp only [List.mem_cons, List.not_mem_nil, or_false] at ht
      rcases ht with rfl | rfl | rfl | rfl <;> first | exact hnum _ | exact hlit _ (by decide)
    · split at hl
      · simp only [List.mem_cons, List.not_mem_nil, or_false] at hl
        subst hl
        simp only [List.mem_cons, List.not_mem_nil, or_false] at ht
        rcases ht with rfl | rfl | rfl | rfl | rfl | rfl <;> first | exact hnum _ | exact hlit _ (by decide)
      · cases hl
  · cases ht
  · simp only [List.cons_append, List.nil_append, List.mem_cons] at ht
    rcases ht with rfl | rfl | ht
    · exact hlit _ (by decide)
    · exact hlit _ (by decide)
    · exact fun c hc => ((hw t ht).2 c hc).2
  · cases ht
  · exact hrows _ l hl t ht
  · cases hv : p.vel with
    | none => rw [hv] at hl; cases hl
    | some vr =>
      rw [hv] at hl
      simp only [List.mem_append, List.mem_cons, List.not_mem_nil, or_false] at hl
      rcases hl with (rfl | rfl | rfl) | hl
      · cases ht
      · simp only [List.mem_cons, List.not_mem_nil, or_false] at ht
        subst ht; exact hlit _ (by decide)
      · cases ht
      · exact hrows _ l hl t ht

/-- **load ∘ dump for data files, through the first pass**: for every data file the C07 writer emits, the first
    pass ends in `dataFP` — atom count, bounds and tilts from the printed numbers converted with the length unit,
    the atom_style comment, the width of the first atom line — and `loadDataCore` receives the written `Atoms` rows
    (followed by the `Velocities` part) and the written `Velocities` rows. -/
theorem loadData_writeData {f : Fmt} (hf : Readable f) (s : Sys) (style : String) (u : Units) (text : List Char)
    (hw : writeData s style u f = .ok text)
    (hwords : (styleWords style).map strTok ≠ [] ∧ ∀ t ∈ (styleWords style).map strTok, CleanTok t) :
    ∃ lf p w, lengthFactor u = .ok lf ∧ dataParts s style u = .ok (p, w) ∧
      (p.rows ≠ [] → (∀ r ∈ p.rows, r ≠ []) → (∀ vr, p.vel = some vr → ∀ r ∈ vr, r ≠ []) →
        ∀ pbc symbols styleArg, loadData text pbc symbols styleArg u =
          (fpFinish (dataFP f lf ((styleWords style).map strTok) p) false).bind fun fp =>
            loadDataCore fp (dataRowsA f p) (p.vel.map (rowsDoc f)) pbc symbols styleArg u) := by
  unfold writeData writeDataDoc at hw
  cases hp : dataParts s style u with
  | error e => simp [hp, Except.map] at hw
  | ok pw =>
    obtain ⟨p, w⟩ := pw
    simp only [hp, Except.map, Except.ok.injEq] at hw
    have hlf : ∃ lf, lengthFactor u = .ok lf := by
      cases h : lengthFactor u with
      | ok lf => exact ⟨lf, rfl⟩
      | error e =>
        exfalso
        unfold dataParts at hp
        by_cases hn : (wrap s.box s.pbc s.pos).box.isLammpsNorm = true
        · simp [hn, h, bind, Except.bind] at hp
        · simp [hn, bind, Except.bind, throw, throwThe, MonadExceptOf.throw] at hp
    obtain ⟨lf, hlf⟩ := hlf
    refine ⟨lf, p, w, hlf, rfl, ?_⟩
    intro hne hr hv pbc symbols styleArg
    subst hw
    unfold loadData
    rw [loadDataLines_eq_sig, splitLines_renderLines _ (dataDoc_no_newline hf style p hwords.2),
      sig_dataDoc hf style p hwords hr hv]
    have hshort : decide (((dataDocOf f style p).map joinSp).length ≤ 1) = false := by
      unfold dataDocOf; simp
    rw [hshort]
    unfold loadDataSig
    simp only [hlf, bind, Except.bind]
    rw [fpLoopA_dataSigs hf lf _ p hne hr hv]
    simp only [Option.getD_some]


/-! ### generic tables -/

/-- **load ∘ dump for tables**: the text `table.dump` writes (with or without the header line of column names) is
    read back as exactly the written rows; the new system has one atom per row. -/
theorem loadTable_writeTable {f : Fmt} (hf : Readable f) (s : Sys) (cols : List ColSpec) (u : Units) (header : Bool)
    (text : List Char) (hw : writeTable s cols u f header = .ok text)
    (hnames : ∀ t ∈ (cols.map fun c => c.names.map strTok).flatten, CleanTok t)
    (hn0 : (cols.map fun c => c.names.map strTok).flatten ≠ []) :
    ∃ rows, tableRows s u (seqIds s.natoms) s.pos cols [] = .ok rows ∧
      ((∀ r ∈ rows, r ≠ []) → ∀ box pcols,
        loadTable text box pcols header =
          tableLoad (Loaded.init box ⟨true, true, true⟩ rows.length [] []) (rowsDoc f rows) pcols false) := by
  unfold writeTable writeTableDoc at hw
  cases hr : tableRows s u (seqIds s.natoms) s.pos cols [] with
  | error e => simp [hr, bind, Except.bind, Except.map] at hw
  | ok rows =>
    simp only [hr, bind, Except.bind, pure, Except.pure, Except.map, Except.ok.injEq] at hw
    refine ⟨rows, rfl, ?_⟩
    intro hrows box pcols
    subst hw
    unfold loadTable selectRows
    simp only [List.drop_zero]
    have hclean : CleanDoc ((if header = true then [(cols.map fun c => c.names.map strTok).flatten] else []) ++ rowsDoc f rows) := by
      apply cleanDoc_append _ _ _ (cleanDoc_rowsDoc hf rows)
      intro l hl
      split at hl
      · simp only [List.mem_cons, List.not_mem_nil, or_false] at hl; subst hl; exact hnames
      · cases hl
    rw [rowsOfN_render _ hclean]
    have hne : ∀ l ∈ rowsDoc f rows, l ≠ [] := by
      intro l hl
      simp only [rowsDoc, List.mem_map] at hl
      obtain ⟨r, hr', rfl⟩ := hl
      simpa using hrows r hr'
    have hfilt : ((if header = true then [(cols.map fun c => c.names.map strTok).flatten] else []) ++ rowsDoc f rows).filter
        (fun l => !l.isEmpty) = (if header = true then [(cols.map fun c => c.names.map strTok).flatten] else []) ++ rowsDoc f rows := by
      apply List.filter_eq_self.mpr
      intro l hl
      rcases List.mem_append.mp hl with h | h
      · split at h
        · simp only [List.mem_cons, List.not_mem_nil, or_false] at h; subst h
          cases hx : (cols.map fun c => c.names.map strTok).flatten with
          | nil => exact absurd hx hn0
          | cons _ _ => rfl
        · cases h
      · cases l with
        | nil => exact absurd rfl (hne [] h)
        | cons _ _ => rfl
    rw [hfilt]
    cases header with
    | true => simp [rowsDoc]
    | false => simp [rowsDoc]


/-! ### the bounding-box inversion of the loader is the one of the LAMMPS manual (C07's independent parser) -/

theorem tiltLo_eq_min4 (xy xz : ℚ) : tiltLo xy xz = min4 0 xy xz (xy + xz) := rfl
theorem tiltHi_eq_max4 (xy xz : ℚ) : tiltHi xy xz = max4 0 xy xz (xy + xz) := rfl

theorem minR0_eq_min4 (yz : ℚ) : minR 0 yz = min4 0 yz 0 0 := by
  unfold minR min4
  simp only []
  split_ifs <;> first | rfl | linarith

theorem maxR0_eq_max4 (yz : ℚ) : maxR 0 yz = max4 0 yz 0 0 := by
  unfold maxR max4
  simp only []
  split_ifs <;> first | rfl | linarith

/-- **load_eq_independent_parse (dump-file bounds)**: in file units the lo/hi values the loader derives from the
    printed bounding box and tilts are those of `C07.hiLoOfBBox`, the inverse map of the LAMMPS manual used by the
    independent parser. -/
theorem dump_bounds_eq_independent (f : Fmt) (n : Nat) (pbc : V3 Bool) (bb : BBox) (xy xz yz : ℚ) (names : Line) :
    let st := triState f none n pbc bb xy xz yz names
    let h := hiLoOfBBox ⟨fmtVal f bb.xlo, fmtVal f bb.xhi, fmtVal f bb.ylo, fmtVal f bb.yhi, fmtVal f bb.zlo,
      fmtVal f bb.zhi⟩ (fmtVal f xy) (fmtVal f xz) (fmtVal f yz)
    st.xlo = some h.xlo ∧ st.xhi = some h.xhi ∧ st.ylo = some h.ylo ∧ st.yhi = some h.yhi ∧
    st.zlo = some h.zlo ∧ st.zhi = some h.zhi ∧ st.xy = h.xy ∧ st.xz = h.xz ∧ st.yz = h.yz := by
  simp [triState, hiLoOfBBox, mulBy, tiltLo_eq_min4, tiltHi_eq_max4, minR0_eq_min4, maxR0_eq_max4]

/-- undoing the unit conversion: a value written in file units (`q / L`), printed with `n` decimals and multiplied
    back by the unit factor differs from the original by at most half a unit of the last place times the factor. -/
theorem unit_roundtrip_error (q L : ℚ) (n : Nat) (hL : L ≠ 0) :
    |fixedVal (q / L) n * L - q| ≤ |L| / (2 * 10 ^ n) := by
  have h := fixedVal_error (q / L) n
  have e : fixedVal (q / L) n * L - q = (fixedVal (q / L) n - q / L) * L := by field_simp
  rw [e, abs_mul]
  have hp : (0 : ℚ) ≤ |L| := abs_nonneg L
  calc |fixedVal (q / L) n - q / L| * |L| ≤ 1 / (2 * 10 ^ n) * |L| := mul_le_mul_of_nonneg_right h hp
    _ = |L| / (2 * 10 ^ n) := by ring


/-! ### the `Atoms` table with image flags under a permutation of its rows -/

theorem readFlagRow_error (ncols : Nat) (r : Line) (e : String) (h : readFlagRow ncols r = .error e) : e = "value" := by
  unfold readFlagRow at h
  split at h
  · rename_i idt a b c _ _
    unfold pyInt at h
    cases h1 : parseInt? idt <;> cases h2 : parseInt? a <;> cases h3 : parseInt? b <;> cases h4 : parseInt? c <;>
      simp [h1, h2, h3, h4, bind, Except.bind, pure, Except.pure, throw, throwThe, MonadExceptOf.throw] at h <;>
      exact h.symm
  · simp [throw, throwThe, MonadExceptOf.throw] at h; exact h.symm

theorem uniform_perm {rows₁ rows₂ : List Line} (hp : rows₁.Perm rows₂) :
    (rows₁.all fun r => r.length = (rows₁.headD []).length) = (rows₂.all fun r => r.length = (rows₂.headD []).length) := by
  have key : ∀ {a b : List Line}, a.Perm b → (a.all fun r => r.length = (a.headD []).length) = true →
      (b.all fun r => r.length = (b.headD []).length) = true := by
    intro a b hab ha
    cases b with
    | nil => rfl
    | cons b0 bs =>
      apply List.all_eq_true.mpr
      intro r hr
      have hall := List.all_eq_true.mp ha
      have h1 := hall r (hab.symm.subset hr)
      have h2 := hall b0 (hab.symm.subset List.mem_cons_self)
      simp only [decide_eq_true_eq] at h1 h2 ⊢
      simp only [List.headD_cons]
      omega
  cases h1 : (rows₁.all fun r => r.length = (rows₁.headD []).length) with
  | true => exact (key hp h1).symm
  | false =>
    cases h2 : (rows₂.all fun r => r.length = (rows₂.headD []).length) with
    | false => rfl
    | true => rw [key hp.symm h2] at h1; cases h1

/-- the image-flag shifts do not depend on the order of the atom lines (they are ordered by atom id, like the table). -/
theorem applyFlags_perm (s : Loaded) {rows₁ rows₂ : List Line} (ncols : Nat) (hp : rows₁.Perm rows₂)
    (hd : ∀ fl, rows₁.mapM (readFlagRow ncols) = .ok fl → (fl.map (·.1)).Nodup) :
    applyFlags s rows₁ ncols = applyFlags s rows₂ ncols := by
  unfold applyFlags
  have he : rows₁.isEmpty = rows₂.isEmpty := by
    cases rows₁ with
    | nil => rw [hp.symm.eq_nil]
    | cons a as =>
      cases rows₂ with
      | nil => exact absurd hp.eq_nil (by simp)
      | cons _ _ => rfl
  rw [he, uniform_perm hp]
  obtain ⟨hok, herr⟩ := mapM_perm (readFlagRow ncols) "value" (readFlagRow_error ncols) hp
  cases h1 : rows₁.mapM (readFlagRow ncols) with
  | error e => rw [herr e h1]
  | ok fl₁ =>
    obtain ⟨fl₂, h2, hperm⟩ := hok fl₁ h1
    rw [h2]
    simp only [bind, Except.bind]
    rw [sortBy_eq_of_perm (·.1) hperm (hd fl₁ h1)]

/-- **load_perm_invariant (Atoms section)**: `read_atoms` — the table and the image-flag shifts — gives the same system
    for every order of the atom lines, when the ids are distinct. -/
theorem readAtoms_perm {rows₁ rows₂ : List Line} (atomsColumns : Nat) (s : Loaded) (style : String) (u : Units)
    (hp : rows₁.Perm rows₂)
    (hid : ∀ cols, lookupCols Gen.LoadStyles.atomStyles style u = .ok cols → idIndex cols = some 0)
    (hd : ∀ cols t, lookupCols Gen.LoadStyles.atomStyles style u = .ok cols →
      readTable rows₁ (colsWidth cols) true = .ok t → (t.map (rowKey 0)).Nodup)
    (hdf : ∀ cols fl, lookupCols Gen.LoadStyles.atomStyles style u = .ok cols →
      rows₁.mapM (readFlagRow (colsWidth cols)) = .ok fl → (fl.map (·.1)).Nodup) :
    readAtoms rows₁ atomsColumns s style u = readAtoms rows₂ atomsColumns s style u := by
  unfold readAtoms
  cases hc : lookupCols Gen.LoadStyles.atomStyles style u with
  | error e => rfl
  | ok cols =>
    simp only [bind, Except.bind]
    rw [tableLoad_perm s cols true 0 hp (hid cols hc) (hd cols · hc)]
    cases ht : tableLoad s rows₂ cols true with
    | error e => rfl
    | ok s1 =>
      simp only []
      split
      · exact applyFlags_perm s1 _ hp (hdf cols · hc)
      · rfl


/-- the loader on the text of any data document laid out like the writer's (not only those of a system). -/
theorem loadData_dataDoc {f : Fmt} (hf : Readable f) (style : String) (p : DataParts) (u : Units) (lf : Option ℚ)
    (hlf : lengthFactor u = .ok lf)
    (hwords : (styleWords style).map strTok ≠ [] ∧ ∀ t ∈ (styleWords style).map strTok, CleanTok t)
    (hne : p.rows ≠ []) (hr : ∀ r ∈ p.rows, r ≠ []) (hv : ∀ vr, p.vel = some vr → ∀ r ∈ vr, r ≠ [])
    (pbc : V3 Bool) (symbols : Option (List (Option String))) (styleArg : Option String) :
    loadData (renderLines (dataDocOf f style p)) pbc symbols styleArg u =
      (fpFinish (dataFP f lf ((styleWords style).map strTok) p) false).bind fun fp =>
        loadDataCore fp (dataRowsA f p) (p.vel.map (rowsDoc f)) pbc symbols styleArg u := by
  unfold loadData
  rw [loadDataLines_eq_sig, splitLines_renderLines _ (dataDoc_no_newline hf style p hwords.2),
    sig_dataDoc hf style p hwords hr hv]
  have hshort : decide (((dataDocOf f style p).map joinSp).length ≤ 1) = false := by
    unfold dataDocOf; simp
  rw [hshort]
  unfold loadDataSig
  simp only [hlf, bind, Except.bind]
  rw [fpLoopA_dataSigs hf lf _ p hne hr hv]
  simp only [Option.getD_some]

theorem fpFinish_natoms (s : FP) (fp : FirstPass) (h : fpFinish s false = .ok fp) :
    ∃ n : Int, s.natoms = some n ∧ fp.natoms = n.toNat := by
  unfold fpFinish at h
  cases hn : s.natoms with
  | none => simp [hn, bind, Except.bind, throw, throwThe, MonadExceptOf.throw] at h
  | some n =>
    refine ⟨n, rfl, ?_⟩
    cases hx : s.x <;> cases hy : s.y <;> cases hz : s.z <;> cases ha : s.atomsStart <;>
      simp [hn, hx, hy, hz, ha, bind, Except.bind, pure, Except.pure, throw, throwThe, MonadExceptOf.throw] at h
    rename_i x y z k
    cases hb : Box.ofHiLos? x.1 x.2 y.1 y.2 z.1 z.2 s.xy s.xz s.yz with
    | none => simp [hb] at h
    | some b =>
      simp only [hb] at h
      by_cases hneg : n < 0
      · simp [hneg] at h
      · simp only [hneg, if_false] at h
        injection h with h
        rw [← h]

theorem take_rows_append (rows rest : List Line) : (rows ++ rest).take rows.length = rows := by
  simp

/-- **load_perm_invariant, file level**: two data files laid out like the writer's that differ only in the order of
    their atom lines (all of the same width, as many as the header says, distinct ids) load identically. -/
theorem data_file_rows_perm {f : Fmt} (hf : Readable f) (style : String) (p p' : DataParts) (u : Units)
    (hwords : (styleWords style).map strTok ≠ [] ∧ ∀ t ∈ (styleWords style).map strTok, CleanTok t)
    (hsame : p'.natoms = p.natoms ∧ p'.natypes = p.natypes ∧ p'.hilo = p.hilo ∧ p'.vel = p.vel)
    (hperm : p'.rows.Perm p.rows) (hn : p.natoms = p.rows.length) (m : Nat) (hm : ∀ r ∈ p.rows, r.length = m)
    (hne : p.rows ≠ []) (hm0 : m ≠ 0) (hv : ∀ vr, p.vel = some vr → ∀ r ∈ vr, r ≠ [])
    (pbc : V3 Bool) (symbols : Option (List (Option String))) (styleArg : Option String)
    (hid : ∀ st cols, lookupCols Gen.LoadStyles.atomStyles st u = .ok cols → idIndex cols = some 0)
    (hd : ∀ st cols t, lookupCols Gen.LoadStyles.atomStyles st u = .ok cols →
      readTable (rowsDoc f p.rows) (colsWidth cols) true = .ok t → (t.map (rowKey 0)).Nodup)
    (hdf : ∀ st cols fl, lookupCols Gen.LoadStyles.atomStyles st u = .ok cols →
      (rowsDoc f p.rows).mapM (readFlagRow (colsWidth cols)) = .ok fl → (fl.map (·.1)).Nodup) :
    loadData (renderLines (dataDocOf f style p)) pbc symbols styleArg u =
      loadData (renderLines (dataDocOf f style p')) pbc symbols styleArg u := by
  cases hlf : lengthFactor u with
  | error e => unfold loadData loadDataLines; simp [hlf, bind, Except.bind]
  | ok lf =>
    obtain ⟨h1, h2, h3, h4⟩ := hsame
    have hr : ∀ r ∈ p.rows, r ≠ [] := fun r hr h => hm0 (by rw [← hm r hr, h]; rfl)
    have hr' : ∀ r ∈ p'.rows, r ≠ [] := fun r hr0 => hr r (hperm.subset hr0)
    have hne' : p'.rows ≠ [] := fun h => hne (by have := hperm.length_eq; rw [h] at this; exact List.length_eq_zero_iff.mp this.symm)
    have hv' : ∀ vr, p'.vel = some vr → ∀ r ∈ vr, r ≠ [] := by rw [h4]; exact hv
    rw [loadData_dataDoc hf style p u lf hlf hwords hne hr hv, loadData_dataDoc hf style p' u lf hlf hwords hne' hr' hv']
    -- the first-pass results agree: only the width of the first atom line could differ, and all widths are `m`
    have hcol : ((rowsDoc f p'.rows).headD []).length = ((rowsDoc f p.rows).headD []).length := by
      obtain ⟨a, as, ha⟩ := List.exists_cons_of_ne_nil hne
      obtain ⟨b, bs, hb⟩ := List.exists_cons_of_ne_nil hne'
      rw [ha, hb]
      simp only [rowsDoc, List.map_cons, List.headD_cons, List.length_map]
      rw [hm a (by rw [ha]; exact List.mem_cons_self), hm b (hperm.subset (by rw [hb]; exact List.mem_cons_self))]
    have hfp : dataFP f lf ((styleWords style).map strTok) p' = dataFP f lf ((styleWords style).map strTok) p := by
      unfold dataFP
      rw [h1, h2, h3, h4, hcol]
    rw [hfp]
    cases hfin : fpFinish (dataFP f lf ((styleWords style).map strTok) p) false with
    | error e => rfl
    | ok fp =>
      simp only [Except.bind]
      have hnat : fp.natoms = p.rows.length := by
        obtain ⟨n, hn1, hn2⟩ := fpFinish_natoms _ fp hfin
        simp only [dataFP, Option.some.injEq] at hn1
        rw [hn2, ← hn1, ← hn]
        simp
      unfold loadDataCore
      have hlen' : p'.rows.length = p.rows.length := hperm.length_eq
      have t1 : (dataRowsA f p).take fp.natoms = rowsDoc f p.rows := by
        unfold dataRowsA
        rw [hnat]
        have : p.rows.length = (rowsDoc f p.rows).length := by simp [rowsDoc]
        rw [this]; exact take_rows_append _ _
      have t2 : (dataRowsA f p').take fp.natoms = rowsDoc f p'.rows := by
        unfold dataRowsA
        rw [hnat, ← hlen']
        have : p'.rows.length = (rowsDoc f p'.rows).length := by simp [rowsDoc]
        rw [this]; exact take_rows_append _ _
      rw [t1, t2, h4]
      have hp2 : (rowsDoc f p.rows).Perm (rowsDoc f p'.rows) := by unfold rowsDoc; exact (hperm.symm).map _
      simp only [bind, Except.bind]
      split
      · rfl
      · cases hst : chooseStyle styleArg fp.hint with
        | error e => rfl
        | ok st =>
          simp only []
          rw [readAtoms_perm fp.atomsColumns _ st u hp2 (hid st) (hd st) (hdf st)]

end Atomman.C08
