/-
  C19 — helper lemmas for `Log.flatten`: the fold over the runs written out as an explicit selection of rows.
-/
import Atomman.C19
import Mathlib.Data.List.Basic
import Mathlib.Tactic.Linarith

set_option linter.unusedSimpArgs false
set_option linter.unusedVariables false

namespace Atomman.C19
open List

section Flatten
variable {α : Type} (step : α → Int)

/-- the row filter of style `first` as the source has it now (`Generated/LogTriggers.lean`). -/
theorem firstKeep_iff (a m : Int) : Gen.Log.firstKeep a m = true ↔ m < a := by
  simp [Gen.Log.firstKeep]

/-- the row filter of style `last` as the source has it now. -/
theorem lastKeep_iff (a m : Int) : Gen.Log.lastKeep a m = true ↔ a < m := by
  simp [Gen.Log.lastKeep]

theorem maxStep?_nil_iff (l : List α) : maxStep? step l = none ↔ l = [] := by
  cases l <;> simp [maxStep?]

theorem minStep?_nil_iff (l : List α) : minStep? step l = none ↔ l = [] := by
  cases l <;> simp [minStep?]

/-- `df.Step.max() < s` iff every row's step is below `s`. -/
theorem maxStep?_lt (l : List α) (m s : Int) (h : maxStep? step l = some m) :
    m < s ↔ ∀ x ∈ l, step x < s := by
  induction l generalizing m with
  | nil => simp [maxStep?] at h
  | cons r rs ih =>
    simp only [maxStep?, Option.some.injEq] at h
    cases hrs : maxStep? step rs with
    | none =>
      rw [hrs] at h
      have : rs = [] := (maxStep?_nil_iff step rs).1 hrs
      subst this; subst h; simp
    | some m' =>
      rw [hrs] at h
      have := ih m' hrs
      subst h
      simp only [mem_cons, forall_eq_or_imp, max_lt_iff, this]

/-- `s < df.Step.min()` iff `s` is below every row's step. -/
theorem lt_minStep? (l : List α) (m s : Int) (h : minStep? step l = some m) :
    s < m ↔ ∀ x ∈ l, s < step x := by
  induction l generalizing m with
  | nil => simp [minStep?] at h
  | cons r rs ih =>
    simp only [minStep?, Option.some.injEq] at h
    cases hrs : minStep? step rs with
    | none =>
      rw [hrs] at h
      have : rs = [] := (minStep?_nil_iff step rs).1 hrs
      subst this; subst h; simp
    | some m' =>
      rw [hrs] at h
      have := ih m' hrs
      subst h
      simp only [mem_cons, forall_eq_or_imp, lt_min_iff, this]

/-! #### reference semantics -/

/-- style `first`: a row of a later run is kept iff its step exceeds every step printed by the runs before it. -/
def specFirst (seen : List α) : List (List α) → List α
  | [] => []
  | run :: rest =>
    run.filter (fun r => seen.all (fun x => decide (step x < step r))) ++ specFirst (seen ++ run) rest

/-- style `last`: a row is kept iff its step is below every step printed by the runs after it. -/
def specLast : List (List α) → List α
  | [] => []
  | run :: rest =>
    run.filter (fun r => rest.all (fun run' => run'.all (fun x => decide (step r < step x)))) ++ specLast rest

theorem foldl_mergeAll (acc : List α) (ts : List (List α)) :
    ts.foldl mergeAll acc = acc ++ ts.flatten := by
  induction ts generalizing acc with
  | nil => simp
  | cons t ts ih => simp [ih, mergeAll]

theorem foldl_mergeFirst (acc seen : List α) (ts : List (List α)) (hne : acc ≠ [])
    (hdom : ∀ s : Int, (∀ x ∈ acc, step x < s) ↔ (∀ x ∈ seen, step x < s)) :
    ts.foldl (mergeFirst step) acc = acc ++ specFirst step seen ts := by
  induction ts generalizing acc seen with
  | nil => simp [specFirst]
  | cons t ts ih =>
    obtain ⟨m, hm⟩ : ∃ m, maxStep? step acc = some m := by
      cases h : maxStep? step acc with
      | none => exact absurd ((maxStep?_nil_iff step acc).1 h) hne
      | some m => exact ⟨m, rfl⟩
    have hacc' : mergeFirst step acc t = acc ++ t.filter (fun r => seen.all (fun x => decide (step x < step r))) := by
      unfold mergeFirst
      congr 1
      apply filter_congr
      intro r _
      rw [hm, Bool.eq_iff_iff]
      simp only [decide_eq_true_eq, all_eq_true]
      rw [firstKeep_iff, maxStep?_lt step acc m (step r) hm, hdom]
    simp only [foldl_cons, specFirst]
    rw [hacc', ih _ (seen ++ t) (by simp [hne]), append_assoc]
    intro s
    constructor
    · intro h x hx
      rcases mem_append.1 hx with hx | hx
      · exact (hdom s).1 (fun y hy => h y (mem_append_left _ hy)) x hx
      · by_cases hk : seen.all (fun y => decide (step y < step x)) = true
        · exact h x (mem_append_right _ (mem_filter.2 ⟨hx, hk⟩))
        · simp only [all_eq_true, decide_eq_true_eq, not_forall] at hk
          obtain ⟨y, hy, hlt⟩ := hk
          have := (hdom s).1 (fun y hy => h y (mem_append_left _ hy)) y hy
          omega
    · intro h x hx
      rcases mem_append.1 hx with hx | hx
      · exact (hdom s).2 (fun y hy => h y (mem_append_left _ hy)) x hx
      · exact h x (mem_append_right _ (mem_filter.1 hx).1)

theorem foldl_mergeLast (acc : List α) (ts : List (List α)) (hne : ∀ t ∈ ts, t ≠ []) :
    ts.foldl (mergeLast step) acc
      = acc.filter (fun r => ts.all (fun run' => run'.all (fun x => decide (step r < step x))))
        ++ specLast step ts := by
  induction ts generalizing acc with
  | nil => simp [specLast]
  | cons t ts ih =>
    obtain ⟨m, hm⟩ : ∃ m, minStep? step t = some m := by
      cases h : minStep? step t with
      | none => exact absurd ((minStep?_nil_iff step t).1 h) (hne t mem_cons_self)
      | some m => exact ⟨m, rfl⟩
    have hacc' : mergeLast step acc t
        = acc.filter (fun r => t.all (fun x => decide (step r < step x))) ++ t := by
      unfold mergeLast
      congr 1
      apply filter_congr
      intro r _
      rw [hm, Bool.eq_iff_iff]
      simp only [decide_eq_true_eq, all_eq_true]
      rw [lastKeep_iff]
      exact lt_minStep? step t m (step r) hm
    simp only [foldl_cons, specLast]
    rw [hacc', ih _ (fun t' ht' => hne t' (mem_cons_of_mem _ ht')), filter_append, filter_filter,
      append_assoc]
    congr 1
    apply filter_congr
    intro r _
    simp only [all_cons, Bool.and_comm]

/-! #### properties of the reference semantics -/

theorem specFirst_gt (seen : List α) (ts : List (List α)) :
    ∀ r ∈ specFirst step seen ts, ∀ x ∈ seen, step x < step r := by
  induction ts generalizing seen with
  | nil => simp [specFirst]
  | cons t ts ih =>
    intro r hr x hx
    simp only [specFirst, mem_append, mem_filter, all_eq_true, decide_eq_true_eq] at hr
    rcases hr with ⟨_, h⟩ | h
    · exact h x hx
    · exact ih (seen ++ t) r h x (mem_append_left _ hx)

theorem specFirst_sublist (seen : List α) (ts : List (List α)) :
    (specFirst step seen ts).Sublist ts.flatten := by
  induction ts generalizing seen with
  | nil => simp [specFirst]
  | cons t ts ih =>
    simp only [specFirst, flatten_cons]
    exact Sublist.append filter_sublist (ih _)

theorem specLast_sublist (ts : List (List α)) : (specLast step ts).Sublist ts.flatten := by
  induction ts with
  | nil => simp [specLast]
  | cons t ts ih =>
    simp only [specLast, flatten_cons]
    exact Sublist.append filter_sublist ih

theorem specFirst_pairwise (R : Int → Int → Prop) (hR : ∀ a b, a < b → R a b) (seen : List α)
    (ts : List (List α)) (h : ∀ run ∈ ts, (run.map step).Pairwise R) :
    ((specFirst step seen ts).map step).Pairwise R := by
  induction ts generalizing seen with
  | nil => simp [specFirst]
  | cons t ts ih =>
    simp only [specFirst, map_append]
    rw [pairwise_append]
    refine ⟨?_, ih _ (fun run hr => h run (mem_cons_of_mem _ hr)), ?_⟩
    · exact (h t mem_cons_self).sublist (filter_sublist.map step)
    · intro a ha b hb
      obtain ⟨x, hx, rfl⟩ := mem_map.1 ha
      obtain ⟨y, hy, rfl⟩ := mem_map.1 hb
      exact hR _ _ (specFirst_gt step _ _ y hy x (mem_append_right _ (mem_filter.1 hx).1))

theorem specLast_pairwise (R : Int → Int → Prop) (hR : ∀ a b, a < b → R a b)
    (ts : List (List α)) (h : ∀ run ∈ ts, (run.map step).Pairwise R) :
    ((specLast step ts).map step).Pairwise R := by
  induction ts with
  | nil => simp [specLast]
  | cons t ts ih =>
    simp only [specLast, map_append]
    rw [pairwise_append]
    refine ⟨?_, ih (fun run hr => h run (mem_cons_of_mem _ hr)), ?_⟩
    · exact (h t mem_cons_self).sublist (filter_sublist.map step)
    · intro a ha b hb
      obtain ⟨x, hx, rfl⟩ := mem_map.1 ha
      obtain ⟨y, hy, rfl⟩ := mem_map.1 hb
      have hx2 := (mem_filter.1 hx).2
      simp only [all_eq_true, decide_eq_true_eq] at hx2
      obtain ⟨run, hrun, hyrun⟩ := mem_flatten.1 ((specLast_sublist step ts).subset hy)
      exact hR _ _ (hx2 run hrun y hyrun)

/-- which rows `first` keeps, by run index. -/
theorem mem_specFirst (seen : List α) (ts : List (List α)) (r : α) :
    r ∈ specFirst step seen ts ↔
      ∃ i run, ts[i]? = some run ∧ r ∈ run ∧ (∀ x ∈ seen, step x < step r) ∧
        ∀ (j : Nat) (run' : List α), j < i → ts[j]? = some run' → ∀ x ∈ run', step x < step r := by
  induction ts generalizing seen with
  | nil => simp [specFirst]
  | cons t ts ih =>
    simp only [specFirst, mem_append, mem_filter, all_eq_true, decide_eq_true_eq]
    constructor
    · rintro (⟨hr, hs⟩ | h)
      · exact ⟨0, t, by simp, hr, hs, by intro j run' hj; omega⟩
      · obtain ⟨i, run, hi, hr, hs, hj⟩ := (ih _ ).1 h
        refine ⟨i + 1, run, by simpa using hi, hr, fun x hx => hs x (mem_append_left _ hx), ?_⟩
        intro j run' hjlt hjrun x hx
        cases j with
        | zero =>
          simp only [getElem?_cons_zero, Option.some.injEq] at hjrun
          subst hjrun
          exact hs x (mem_append_right _ hx)
        | succ j =>
          simp only [getElem?_cons_succ] at hjrun
          exact hj j run' (by omega) hjrun x hx
    · rintro ⟨i, run, hi, hr, hs, hj⟩
      cases i with
      | zero =>
        simp only [getElem?_cons_zero, Option.some.injEq] at hi
        subst hi
        exact Or.inl ⟨hr, hs⟩
      | succ i =>
        simp only [getElem?_cons_succ] at hi
        refine Or.inr ((ih _).2 ⟨i, run, hi, hr, ?_, ?_⟩)
        · intro x hx
          rcases mem_append.1 hx with hx | hx
          · exact hs x hx
          · exact hj 0 t (by omega) (by simp) x hx
        · intro j run' hjlt hjrun x hx
          exact hj (j + 1) run' (by omega) (by simpa using hjrun) x hx

/-- which rows `last` keeps, by run index. -/
theorem mem_specLast (ts : List (List α)) (r : α) :
    r ∈ specLast step ts ↔
      ∃ i run, ts[i]? = some run ∧ r ∈ run ∧
        ∀ (j : Nat) (run' : List α), i < j → ts[j]? = some run' → ∀ x ∈ run', step r < step x := by
  induction ts with
  | nil => simp [specLast]
  | cons t ts ih =>
    simp only [specLast, mem_append, mem_filter, all_eq_true, decide_eq_true_eq]
    constructor
    · rintro (⟨hr, hs⟩ | h)
      · refine ⟨0, t, by simp, hr, ?_⟩
        intro j run' hj hjrun x hx
        cases j with
        | zero => omega
        | succ j =>
          simp only [getElem?_cons_succ] at hjrun
          exact hs run' (mem_of_getElem? hjrun) x hx
      · obtain ⟨i, run, hi, hr, hj⟩ := ih.1 h
        refine ⟨i + 1, run, by simpa using hi, hr, ?_⟩
        intro j run' hjlt hjrun x hx
        cases j with
        | zero => omega
        | succ j =>
          simp only [getElem?_cons_succ] at hjrun
          exact hj j run' (by omega) hjrun x hx
    · rintro ⟨i, run, hi, hr, hj⟩
      cases i with
      | zero =>
        simp only [getElem?_cons_zero, Option.some.injEq] at hi
        subst hi
        refine Or.inl ⟨hr, ?_⟩
        intro run' hrun' x hx
        obtain ⟨j, hjlt, hjeq⟩ := getElem_of_mem hrun'
        exact hj (j + 1) run' (by omega) (by simp [getElem?_eq_getElem hjlt, hjeq]) x hx
      | succ i =>
        simp only [getElem?_cons_succ] at hi
        refine Or.inr (ih.2 ⟨i, run, hi, hr, ?_⟩)
        intro j run' hjlt hjrun x hx
        exact hj (j + 1) run' (by omega) (by simpa using hjrun) x hx

/-! #### the folds in closed form -/

theorem specFirst_nil_cons (t : List α) (ts : List (List α)) :
    specFirst step [] (t :: ts) = t ++ specFirst step t ts := by
  simp [specFirst]

theorem flattenFirst_eq (t : List α) (ts : List (List α)) (ht : t ≠ []) :
    flattenFirst step (t :: ts) = some (specFirst step [] (t :: ts)) := by
  simp only [flattenFirst, flattenWith]
  rw [foldl_mergeFirst step t t ts ht (fun _ => Iff.rfl), specFirst_nil_cons]

/-- pandas: every comparison with the NaN maximum of an empty table is False, nothing is ever added. -/
theorem foldl_mergeFirst_nil (ts : List (List α)) : ts.foldl (mergeFirst step) [] = [] := by
  induction ts with
  | nil => rfl
  | cons t ts ih => simpa [mergeFirst, maxStep?] using ih

theorem flattenFirst_nil (ts : List (List α)) : flattenFirst step ([] :: ts) = some [] := by
  simp only [flattenFirst, flattenWith]
  rw [foldl_mergeFirst_nil]

theorem flattenLast_eq (t : List α) (ts : List (List α)) (hne : ∀ t' ∈ ts, t' ≠ []) :
    flattenLast step (t :: ts) = some (specLast step (t :: ts)) := by
  simp only [flattenLast, flattenWith]
  rw [foldl_mergeLast step t ts hne]
  simp [specLast]

theorem foldl_mergeFirst_pairwise (R : Int → Int → Prop) (hR : ∀ a b, a < b → R a b) (acc : List α)
    (ts : List (List α)) (hacc : (acc.map step).Pairwise R) (h : ∀ run ∈ ts, (run.map step).Pairwise R) :
    ((ts.foldl (mergeFirst step) acc).map step).Pairwise R := by
  induction ts generalizing acc with
  | nil => simpa using hacc
  | cons t ts ih =>
    rw [foldl_cons]
    apply ih _ _ (fun run hr => h run (mem_cons_of_mem _ hr))
    unfold mergeFirst
    rw [map_append, pairwise_append]
    refine ⟨hacc, (h t mem_cons_self).sublist (filter_sublist.map step), ?_⟩
    intro a ha b hb
    obtain ⟨x, hx, rfl⟩ := mem_map.1 ha
    obtain ⟨y, hy, rfl⟩ := mem_map.1 hb
    have hy2 := (mem_filter.1 hy).2
    cases hm : maxStep? step acc with
    | none => rw [hm] at hy2; simp at hy2
    | some m =>
      rw [hm] at hy2
      rw [firstKeep_iff] at hy2
      exact hR _ _ ((maxStep?_lt step acc m (step y) hm).1 hy2 x hx)

theorem foldl_mergeLast_pairwise (R : Int → Int → Prop) (hR : ∀ a b, a < b → R a b) (acc : List α)
    (ts : List (List α)) (hacc : (acc.map step).Pairwise R) (h : ∀ run ∈ ts, (run.map step).Pairwise R) :
    ((ts.foldl (mergeLast step) acc).map step).Pairwise R := by
  induction ts generalizing acc with
  | nil => simpa using hacc
  | cons t ts ih =>
    rw [foldl_cons]
    apply ih _ _ (fun run hr => h run (mem_cons_of_mem _ hr))
    unfold mergeLast
    rw [map_append, pairwise_append]
    refine ⟨hacc.sublist (filter_sublist.map step), h t mem_cons_self, ?_⟩
    intro a ha b hb
    obtain ⟨x, hx, rfl⟩ := mem_map.1 ha
    obtain ⟨y, hy, rfl⟩ := mem_map.1 hb
    have hx2 := (mem_filter.1 hx).2
    cases hm : minStep? step t with
    | none => rw [hm] at hx2; simp at hx2
    | some m =>
      rw [hm] at hx2
      rw [lastKeep_iff] at hx2
      exact hR _ _ ((lt_minStep? step t m (step x) hm).1 hx2 y hy)

/-- the rows of any `first`/`last`/`all` result are rows of the runs, in their printed order. -/
theorem foldl_mergeFirst_sublist (acc : List α) (ts : List (List α)) :
    (ts.foldl (mergeFirst step) acc).Sublist (acc ++ ts.flatten) := by
  induction ts generalizing acc with
  | nil => simp
  | cons t ts ih =>
    rw [foldl_cons, flatten_cons, ← append_assoc]
    exact (ih _).trans (Sublist.append (Sublist.append (Sublist.refl _) filter_sublist) (Sublist.refl _))

theorem foldl_mergeLast_sublist (acc : List α) (ts : List (List α)) :
    (ts.foldl (mergeLast step) acc).Sublist (acc ++ ts.flatten) := by
  induction ts generalizing acc with
  | nil => simp
  | cons t ts ih =>
    rw [foldl_cons, flatten_cons, ← append_assoc]
    exact (ih _).trans (Sublist.append (Sublist.append filter_sublist (Sublist.refl _)) (Sublist.refl _))

end Flatten
end Atomman.C19
