/-
  C15 — the checked source tie.  `Atomman/Generated/PointSource.lean` is regenerated on every check from the
  current `atomman/defect/point.py` (statement by statement, with `ast`); here every regenerated function is
  proved equal to the hand model of `Atomman/C15.lean`, about which the property theorems of `Proofs/C15.lean`
  speak.  A source edit that changes behaviour breaks one of the `gen_…_eq_model` obligations.
-/
import Proofs.C15_Lemmas
import Atomman.Generated.PointSource

namespace Atomman.C15
open Atomman.Generated
set_option linter.unusedSimpArgs false
set_option linter.unusedSectionVars false
set_option linter.unusedVariables false

/-- signatures and defaults of the five functions are the ones the model's entry points assume. -/
theorem gen_signatures_eq_model : PointSource.signatures = signatures := by decide
/-- the default tolerance is `0.01 angstrom` in all four generators. -/
theorem gen_dflt_eq_model : PointSource.dfltLiterals = dfltLiterals := by decide
/-- the exception classes, in source order. -/
theorem gen_raises_eq_model : PointSource.raiseClasses = raiseClasses := by decide

section any
variable {K : Type} [Add K] [Sub K] [Mul K] [Zero K] [IntCast K] [LT K] [DecidableLT K] [DecidableEq K]

theorem sliced_ok (s : Sys K) (idx : List Nat) (h : ∀ x ∈ idx, x < s.atoms.length) (hne : idx ≠ []) :
    sliced s idx = .ok { s with atoms := gather s.atoms idx, old := s.old.map (gather · idx) } := by
  unfold sliced
  have h1 : idx.any (fun i => decide (s.atoms.length ≤ i)) = false := by
    rw [List.any_eq_false]
    intro x hx
    have := h x hx
    simp; omega
  have h2 : idx.isEmpty = false := by cases idx <;> simp_all
  simp [h1, h2]

theorem sliced_index (s : Sys K) (idx : List Nat) (x : Nat) (hx : x ∈ idx) (h : s.atoms.length ≤ x) :
    sliced s idx = .error .index := by
  unfold sliced
  have h1 : idx.any (fun i => decide (s.atoms.length ≤ i)) = true := by
    rw [List.any_eq_true]
    exact ⟨x, hx, by simpa using h⟩
  simp [h1]

theorem sliced_empty (s : Sys K) : sliced s [] = .error .value := by
  simp [sliced]

theorem ensureOld_eq (s : Sys K) (idx : List Nat) (A : List (Atom K)) :
    (if hasOldId ({ s with atoms := A, old := s.old.map (gather · idx) } : Sys K) = false
      then setOldColumn ({ s with atoms := A, old := s.old.map (gather · idx) } : Sys K) idx
      else ({ s with atoms := A, old := s.old.map (gather · idx) } : Sys K))
    = { s with atoms := A, old := some (oldColumn s idx) } := by
  cases ho : s.old <;> simp [hasOldId, setOldColumn, oldColumn, ho]

theorem lastAtype_append (d : Sys K) (l : List (Atom K)) (a : Atom K) (h : d.atoms = l ++ [a]) :
    lastAtype d = .ok a.atype := by
  simp [lastAtype, h]

theorem hits_one (h : List Nat) :
    (((1 : Int) = (1 : Int)) ∧ (((h.length : Nat) : Int) = (1 : Int))) ↔ ∃ i, h = [i] := by
  rcases h with _ | ⟨i, _ | ⟨j, t⟩⟩
  · simp
  · simp
  · simp; omega

theorem count_zero_iff (kw : Kw K) : (((kw.count : Nat) : Int) = (0 : Int)) ↔ kw.isEmpty = true := by
  cases kw with
  | mk a o e =>
    cases a <;> cases o <;> cases e <;> simp [Kw.count, Kw.isEmpty] <;> omega

/-- the `pos` / `ptd_id` block as compiled from the source is `resolveSite`. -/
theorem siteBlock_eq (s : Sys K) (pos : Option (V3 K)) (ptd : Option Int) (scale : Bool) (atol : K) :
    ((match pos with
      | some pos =>
        (match ptd with
        | some ptd_id => .error .value
        | none =>
          let pos := pos
          let pos := (if scale = true then (s.box.relToCart pos) else pos)
          let ptd_id := (siteMatches s pos atol)
          (if ((1 : Int) = (1 : Int)) ∧ ((((ptd_id).length : Nat) : Int) = (1 : Int)) then
            let ptd_id := (ptd_id.headD 0)
            .ok ptd_id
          else .error .value))
      | none =>
        (match ptd with
        | some ptd_id =>
          let ptd_id := (if ptd_id < (0 : Int) then (ptd_id + ((s.atoms.length : Nat) : Int)) else ptd_id)
          (if (ptd_id < (0 : Int)) ∨ (ptd_id ≥ ((s.atoms.length : Nat) : Int)) then .error .value
           else .ok (Int.toNat ptd_id))
        | none => .error .value)) : Except Err Nat) = resolveSite s pos ptd scale atol := by
  cases pos with
  | some p =>
    cases ptd with
    | some k => simp [resolveSite]
    | none =>
      simp only [resolveSite, toCart]
      generalize siteMatches s (if scale = true then s.box.relToCart p else p) atol = hits
      rcases hits with _ | ⟨i, _ | ⟨j, t⟩⟩
      · simp
      · simp
      · simp; omega
  | none =>
    cases ptd with
    | none => simp [resolveSite]
    | some k =>
      simp only [resolveSite, normIdx]
      split <;> (split <;> simp_all)

theorem gen_vacancy_site_eq_model (s : Sys K) (pos : Option (V3 K)) (ptd : Option Int) (scale : Bool) (atol : K) :
    PointSource.vacancy_ptd_id s pos ptd scale atol = resolveSite s pos ptd scale atol := by
  unfold PointSource.vacancy_ptd_id; exact siteBlock_eq s pos ptd scale atol

theorem gen_substitutional_site_eq_model (s : Sys K) (pos : Option (V3 K)) (ptd : Option Int) (t : Int) (scale : Bool)
    (atol : K) (kw : Kw K) :
    PointSource.substitutional_ptd_id s pos ptd t scale atol kw = resolveSite s pos ptd scale atol := by
  unfold PointSource.substitutional_ptd_id; exact siteBlock_eq s pos ptd scale atol

theorem gen_dumbbell_site_eq_model (s : Sys K) (pos : Option (V3 K)) (ptd : Option Int) (db : V3 K) (scale : Bool)
    (atol : K) (kw : Kw K) :
    PointSource.dumbbell_ptd_id s pos ptd db scale atol kw = resolveSite s pos ptd scale atol := by
  unfold PointSource.dumbbell_ptd_id; exact siteBlock_eq s pos ptd scale atol

/-- **`vacancy` as written in point.py is the model's `vacancyC`**, for every input. -/
theorem gen_vacancy_eq_model (dflt : K) (s : Sys K) (pos : Option (V3 K)) (ptd : Option Int) (scale : Bool)
    (atol : Option K) :
    PointSource.vacancy dflt s pos ptd scale atol = vacancyC dflt s pos ptd scale atol := by
  cases atol <;>
  · unfold PointSource.vacancy vacancyC vacancy
    dsimp only [effAtol]
    rw [gen_vacancy_site_eq_model]
    cases resolveSite s pos ptd scale _ with
    | error e => rfl
    | ok i =>
      dsimp only []
      unfold vacancyAt
      by_cases he : ((List.range s.atoms.length).eraseIdx i).isEmpty = true
      · have : (List.range s.atoms.length).eraseIdx i = [] := by simpa using he
        simp [this, sliced_empty]
      · have hne : (List.range s.atoms.length).eraseIdx i ≠ [] := by simpa using he
        rw [sliced_ok s _ (fun x hx => mem_front_lt _ _ x hx) hne]
        simp only [he]
        rw [ensureOld_eq]
        simp

theorem atypeOk_getD (kw : Kw K) : (kw.atype.getD 1 < 1) ↔ kw.atypeOk = false := by
  cases h : kw.atype with
  | none => simp [Kw.atypeOk, h]
  | some t => simp [Kw.atypeOk, h]

theorem setLast_append_pair {α : Type} (l : List α) (x y : α) (f : α → α) :
    setLast (l ++ [x, y]) f = l ++ [x, f y] := by
  have : l ++ [x, y] = (l ++ [x]) ++ [y] := by simp
  rw [this, setLast_append_single]; simp

theorem guard_getD (kw : Kw K) (X : Sys K) :
    (if kw.atype.getD 1 < 1 then (Except.error Err.value : Except Err (Sys K)) else .ok X) = guardAtype kw (.ok X) := by
  simp only [guardAtype]
  by_cases h : kw.atype.getD 1 < 1
  · simp [h, (atypeOk_getD kw).mp h]
  · have : kw.atypeOk = true := by
      cases hk : kw.atypeOk with
      | true => rfl
      | false => exact absurd ((atypeOk_getD kw).mpr hk) h
    simp [h, this]

theorem gen_interstitial_eq_model (dflt : K) (s : Sys K) (pos : V3 K) (scale : Bool) (atol : Option K) (kw : Kw K) :
    PointSource.interstitial dflt s pos scale atol kw = interstitialC dflt s pos scale atol kw := by
  cases atol <;>
  · unfold PointSource.interstitial interstitialC interstitial
    dsimp only [effAtol, toCart]
    generalize siteMatches s (if scale = true then s.box.relToCart pos else pos) _ = hits
    generalize (if scale = true then s.box.relToCart pos else pos) = p
    rcases hits with _ | ⟨i, t⟩
    · simp only [List.length_nil]
      unfold interstitialAt
      rcases hs : s.atoms with _ | ⟨a0, rest⟩
      · have : sliced s [0] = .error .index := sliced_index s _ 0 (by simp) (by simp [hs])
        simp [this, guardAtype]
      · have ha0 : s.atoms[0]? = some a0 := by simp [hs]
        have hpos : 0 < s.atoms.length := by simp [hs]
        rw [← hs]
        have hidx : ∀ x ∈ List.range s.atoms.length ++ [0], x < s.atoms.length := by
          intro x hx; simp at hx; omega
        have hso := sliced_ok s (List.range s.atoms.length ++ [0]) hidx (by simp)
        have hG : gather s.atoms (List.range s.atoms.length ++ [0]) = s.atoms ++ [a0] := by
          rw [gather_append, gather_range, gather_single s.atoms 0 a0 ha0]
        rw [hG] at hso
        have hne : s.atoms.isEmpty = false := by simp [hs]
        simp only [hso, ensureOld_eq, hG, hne]
        simp [setLastAtype, setLastPos, setLastOld, setLastExtras, setLast_append_single, lastAtype, guard_getD]
    · simp [guardAtype]; intro h; omega

theorem gen_substitutional_eq_model (dflt : K) (s : Sys K) (pos : Option (V3 K)) (ptd : Option Int) (scale : Bool)
    (atol : Option K) (kw : Kw K) :
    PointSource.substitutional dflt s pos ptd (kw.atype.getD 1) scale atol { kw with atype := none }
      = substitutionalC dflt s pos ptd scale atol kw := by
  cases atol <;>
  · unfold PointSource.substitutional substitutionalC substitutional
    dsimp only [effAtol]
    rw [gen_substitutional_site_eq_model]
    cases resolveSite s pos ptd scale _ with
    | error e => simp [guardAtype]
    | ok i =>
      dsimp only []
      unfold substitutionalAt atypeAt
      cases ha : s.atoms[i]? with
      | none => simp [guardAtype]
      | some a =>
        dsimp only []
        by_cases ht : a.atype = kw.atype.getD 1
        · simp [ht, guardAtype]
        · have hi : i < s.atoms.length := (List.getElem?_eq_some_iff.mp ha).1
          have hidx : ∀ x ∈ (List.range s.atoms.length).eraseIdx i ++ [i], x < s.atoms.length := by
            intro x hx
            rcases List.mem_append.mp hx with h | h
            · exact mem_front_lt _ _ x h
            · simp at h; omega
          have hso := sliced_ok s _ hidx (by simp)
          have hG : gather s.atoms ((List.range s.atoms.length).eraseIdx i ++ [i]) = s.atoms.eraseIdx i ++ [a] := by
            rw [gather_append, gather_eraseIdx_range, gather_single s.atoms i a ha]
          rw [hG] at hso
          simp only [ht, if_false, hso, ensureOld_eq]
          simp [setLastAtype, setLastPos, setLastOld, setLastExtras, setLast_append_single, lastAtype, guard_getD, hG]

/-- every atom of the system has a type `≥ 1` (what `Atoms` enforces: 'atype values < 1 not allowed'). -/
def ValidTypes (s : Sys K) : Prop := ∀ a ∈ s.atoms, 1 ≤ a.atype

theorem guard_getD' (kw : Kw K) (t : Int) (ht : 1 ≤ t) (X : Sys K) :
    (if kw.atype.getD t < 1 then (Except.error Err.value : Except Err (Sys K)) else .ok X) = guardAtype kw (.ok X) := by
  cases h : kw.atype with
  | none =>
    have : ¬ (t < 1) := by omega
    simp [guardAtype, Kw.atypeOk, h, this]
  | some u =>
    by_cases hu : u < 1
    · have : ¬ (1 ≤ u) := by omega
      simp [guardAtype, Kw.atypeOk, h, hu, this]
    · have : 1 ≤ u := by omega
      simp [guardAtype, Kw.atypeOk, h, hu, this]

theorem gen_dumbbell_eq_model (dflt : K) (s : Sys K) (hv : ValidTypes s) (pos : Option (V3 K)) (ptd : Option Int)
    (db : V3 K) (scale : Bool) (atol : Option K) (kw : Kw K) :
    PointSource.dumbbell dflt s pos ptd db scale atol kw = dumbbellC dflt s pos ptd db scale atol kw := by
  cases atol <;>
  · unfold PointSource.dumbbell dumbbellC dumbbell
    dsimp only [effAtol]
    rw [gen_dumbbell_site_eq_model]
    cases resolveSite s pos ptd scale _ with
    | error e => simp [guardAtype]
    | ok i =>
      dsimp only [dbCart]
      generalize (if scale = true then M3.vecMul db s.box.vects else db) = d
      unfold dumbbellAt
      cases ha : s.atoms[i]? with
      | none =>
        have hi : s.atoms.length ≤ i := by
          by_contra hc
          have := List.getElem?_eq_getElem (l := s.atoms) (i := i) (by omega)
          rw [ha] at this; cases this
        have : sliced s ((List.range s.atoms.length).eraseIdx i ++ [i] ++ [i]) = .error .index :=
          sliced_index s _ i (by simp) hi
        simp only [List.append_assoc, List.cons_append, List.nil_append] at this
        simp [this, guardAtype]
      | some a =>
        dsimp only []
        have hi : i < s.atoms.length := (List.getElem?_eq_some_iff.mp ha).1
        have hat : 1 ≤ a.atype := hv a (List.mem_of_getElem? ha)
        have hidx : ∀ x ∈ (List.range s.atoms.length).eraseIdx i ++ [i] ++ [i], x < s.atoms.length := by
          intro x hx
          simp only [List.append_assoc, List.mem_append, List.mem_singleton] at hx
          rcases hx with h | h | h
          · exact mem_front_lt _ _ x h
          · omega
          · omega
        have hso := sliced_ok s _ hidx (by simp)
        have hii : (List.range s.atoms.length).eraseIdx i ++ [i] ++ [i] = (List.range s.atoms.length).eraseIdx i ++ [i, i] := by
          simp
        have hG : gather s.atoms ((List.range s.atoms.length).eraseIdx i ++ [i, i]) = s.atoms.eraseIdx i ++ [a, a] := by
          rw [gather_append, gather_eraseIdx_range]
          simp [gather, ha]
        rw [hii] at hso
        rw [hG] at hso
        simp only [hii, hso, ensureOld_eq, hG]
        simp [setLastAtype, setLastPos, setLast2Pos, setLastOld, setLastExtras, setLast_append_pair,
          setLast2_append_pair, lastAtype, guard_getD' kw a.atype hat]

/-- **the dispatcher as written is the model's `pointC`**: same routing, same assertions in the same order, every
    keyword handed on (`atol` included), `atype` bound to `substitutional`'s named parameter. -/
theorem gen_point_eq_model (dflt : K) (s : Sys K) (hv : ValidTypes s) (t : String) (pos : Option (V3 K))
    (ptd : Option Int) (db : Option (V3 K)) (scale : Bool) (atol : Option K) (kw : Kw K) :
    PointSource.point dflt s t pos ptd db scale atol kw = pointC dflt s t pos ptd db scale atol kw := by
  unfold PointSource.point pointC
  simp only [gen_vacancy_eq_model, gen_interstitial_eq_model, gen_substitutional_eq_model,
    gen_dumbbell_eq_model dflt s hv]
  by_cases h1 : t = "v"
  · subst h1
    have hc : kw.count = 0 ↔ kw.isEmpty = true := by
      have := count_zero_iff kw
      constructor
      · intro h; exact this.mp (by simp [h])
      · intro h; have := this.mpr h; omega
    cases db <;> simp
    cases hk : kw.isEmpty
    · have : ¬ kw.count = 0 := fun h => by simp [hc.mp h] at hk
      simp [this]
    · simp [hc.mpr hk]
  · by_cases h2 : t = "i"
    · subst h2
      cases ptd <;> cases db <;> cases pos <;> simp
    · by_cases h3 : t = "s"
      · subst h3
        cases db <;> simp
      · by_cases h4 : t = "db"
        · subst h4
          cases db <;> simp
        · simp [h1, h2, h3, h4]


end any
end Atomman.C15
