/-
  C16 — the `Box` OBJECT and rigidly moved cells.
  * object level: queries are functions of the current cell (no hidden state), the `reciprocal_vects`
    cache is valid after every history of setters and reads, crystal VECTORS and plane normals do not
    see the box origin (a vector is the difference of two positions);
  * rotated / reflected cells: `V ↦ V·R` with `R` orthogonal rotates vectors and plane normals along
    (`det R = 1`), so the normal of a rotated cubic cell is `(h,k,l)·R`, not `(h,k,l)`.
-/
import Atomman.C16
import Mathlib.Tactic.Ring
import Mathlib.Tactic.Linarith
import Mathlib.Tactic.LinearCombination
import Mathlib.Tactic.FieldSimp
import Mathlib.Tactic.Positivity
import Mathlib.Algebra.Order.Field.Basic

namespace Atomman.C16
set_option linter.unusedSectionVars false
set_option linter.unusedSimpArgs false
set_option linter.unusedVariables false

/-! ## object level -/
namespace BoxObj
section field
variable {K : Type} [Field K]

theorem cacheValid_new (V : M3 K) (org : V3 K) (p : CellParams K) : (new V org p).CacheValid := Or.inl rfl

theorem cacheValid_step (o : BoxObj K) (h : o.CacheValid) (op : Op K) : (o.step op).CacheValid := by
  cases op with
  | setVects V p => exact Or.inl rfl
  | setOrigin org =>
    rcases h with h | h
    · exact Or.inl h
    · exact Or.inr h
  | set V org p => exact Or.inl rfl
  | readRecip =>
    simp only [step, reciprocalVects]
    rcases hc : o.recipCache with _ | r
    · exact Or.inr rfl
    · rcases h with h | h
      · rw [hc] at h; cases h
      · exact Or.inr (by simpa [hc] using h)

/-- after ANY history of setters and `reciprocal_vects` reads on one object the cache is empty or holds the
    reciprocal vectors of the cell the object has NOW. -/
theorem cacheValid_run (ops : List (Op K)) : ∀ o : BoxObj K, o.CacheValid → (o.run ops).CacheValid := by
  induction ops with
  | nil => intro o h; exact h
  | cons op ops ih => intro o h; exact ih _ (cacheValid_step o h op)

/-- `Box.reciprocal_vects` read after any history is `inv(vects).T` of the current `vects`. -/
theorem reciprocalVects_run (V : M3 K) (org : V3 K) (p : CellParams K) (ops : List (Op K)) :
    ((new V org p).run ops).reciprocalVects.2 = ((new V org p).run ops).box.recip := by
  have h := cacheValid_run ops _ (cacheValid_new V org p)
  generalize (new V org p).run ops = o at h
  simp only [reciprocalVects]
  rcases hc : o.recipCache with _ | r
  · rfl
  · rcases h with h | h
    · rw [hc] at h; cases h
    · rw [hc] at h; cases h; rfl

end field

section ordered
variable {K : Type} [Field K] [LinearOrder K] [IsStrictOrderedRing K]

/-- whatever was asked of the object before and however it got its present cell, `identifyfamily`, the
    vector conversion and the plane normal after a setter are those of the NEW cell. -/
theorem queries_after_set (o : BoxObj K) (ops : List (Op K)) (V : M3 K) (org : V3 K) (p : CellParams K)
    (rtol atol : K) :
    ((o.run ops).set V org p).identifyFamily rtol atol = C16.identifyFamily rtol atol p
    ∧ ((o.run ops).setVects V p).identifyFamily rtol atol = C16.identifyFamily rtol atol p
    ∧ (∀ idx, ((o.run ops).set V org p).vectorCrystalToCartesian atol idx
        = C16.vectorCrystalToCartesian atol (isHexagonal defaultRtol defaultAtol p) V idx)
    ∧ (∀ idx, ((o.run ops).set V org p).planeCrystalToCartesianUnnorm atol idx
        = C16.planeCrystalToCartesianUnnorm atol (isHexagonal defaultRtol defaultAtol p) V idx) :=
  ⟨rfl, rfl, fun _ => rfl, fun _ => rfl⟩

/-- reading `reciprocal_vects` or moving the origin changes no answer about the cell. -/
theorem queries_origin_independent (o : BoxObj K) (org : V3 K) (rtol atol : K) :
    (o.setOrigin org).identifyFamily rtol atol = o.identifyFamily rtol atol
    ∧ (∀ idx, (o.setOrigin org).vectorCrystalToCartesian atol idx = o.vectorCrystalToCartesian atol idx)
    ∧ (∀ idx, (o.setOrigin org).planeCrystalToCartesianUnnorm atol idx = o.planeCrystalToCartesianUnnorm atol idx)
    ∧ (∀ idx, o.reciprocalVects.1.vectorCrystalToCartesian atol idx = o.vectorCrystalToCartesian atol idx)
    ∧ o.reciprocalVects.1.identifyFamily rtol atol = o.identifyFamily rtol atol := by
  refine ⟨rfl, fun _ => rfl, fun _ => rfl, ?_, ?_⟩
  · intro idx; simp only [reciprocalVects]; cases o.recipCache <;> rfl
  · simp only [reciprocalVects]; cases o.recipCache <;> rfl

/-- a crystal VECTOR `[uvw]` is the difference of the Cartesian positions of two points that differ by
    `(u,v,w)` in box coordinates — for every origin; and it is the position of `(u,v,w)` itself only up to the
    origin (`position_relative_to_cartesian` must not be used for vectors). -/
theorem vector_is_position_difference (atol : K) (o : BoxObj K) (s d : V3 K) :
    o.vectorCrystalToCartesian atol [d.x, d.y, d.z] = .ok (o.relToCart (s + d) - o.relToCart s)
    ∧ o.relToCart d = M3.vecMul d o.box.vects + o.box.origin := by
  constructor
  · simp only [vectorCrystalToCartesian, C16.vectorCrystalToCartesian, relToCart, Box.relToCart]
    congr 1
    show M3.vecMul ⟨d.x, d.y, d.z⟩ o.box.vects
      = V3.sub (V3.add (M3.vecMul (V3.add s d) o.box.vects) o.box.origin) (V3.add (M3.vecMul s o.box.vects) o.box.origin)
    simp only [M3.vecMul, V3.add, V3.sub, V3.mk.injEq]
    refine ⟨?_, ?_, ?_⟩ <;> ring
  · rfl

end ordered
end BoxObj

/-! ## rigidly moved cells: `vects ↦ vects·R` -/
section rot
variable {K : Type} [Field K] [LinearOrder K] [IsStrictOrderedRing K]

/-- rows of `R` orthonormal. -/
def RowsOrthonormal (R : M3 K) : Prop :=
  V3.dot R.r0 R.r0 = 1 ∧ V3.dot R.r1 R.r1 = 1 ∧ V3.dot R.r2 R.r2 = 1 ∧
  V3.dot R.r0 R.r1 = 0 ∧ V3.dot R.r0 R.r2 = 0 ∧ V3.dot R.r1 R.r2 = 0

theorem vecMul_mul (p : V3 K) (V R : M3 K) : M3.vecMul p (M3.mul V R) = M3.vecMul (M3.vecMul p V) R := by
  simp only [M3.vecMul, M3.mul, V3.mk.injEq]
  refine ⟨?_, ?_, ?_⟩ <;> ring

/-- a vector whose squared length is zero is zero (ordered field). -/
theorem v3_zero_of_normSq {a b c : K} (h : a * a + b * b + c * c = 0) : a = 0 ∧ b = 0 ∧ c = 0 := by
  have ha := mul_self_nonneg a
  have hb := mul_self_nonneg b
  have hc := mul_self_nonneg c
  refine ⟨?_, ?_, ?_⟩ <;> apply mul_self_eq_zero.mp <;> linarith

/-- unit vectors `u ⟂ v` and a unit vector `w` with `w·(u×v) = 1`: then `u×v = w`. -/
theorem cross_eq_of_orthonormal (u v w : V3 K) (huu : V3.dot u u = 1) (hvv : V3.dot v v = 1) (huv : V3.dot u v = 0)
    (hww : V3.dot w w = 1) (hd : V3.dot w (V3.cross u v) = 1) : V3.cross u v = w := by
  obtain ⟨d, e, f⟩ := u
  obtain ⟨g, h, i⟩ := v
  obtain ⟨a, b, c⟩ := w
  simp only [V3.dot, V3.cross] at *
  have := v3_zero_of_normSq (a := e * i - f * h - a) (b := f * g - d * i - b) (c := d * h - e * g - c)
    (by linear_combination (g * g + h * h + i * i) * huu + hvv - (d * g + e * h + f * i) * huv - 2 * hd + hww)
  simp only [V3.mk.injEq]
  exact ⟨by linarith [this.1], by linarith [this.2.1], by linarith [this.2.2]⟩

/-- for a proper rotation (rows orthonormal, `det = 1`) each row is the cross product of the other two. -/
theorem rot_rows_cross (R : M3 K) (ho : RowsOrthonormal R) (hd : M3.det R = 1) :
    V3.cross R.r1 R.r2 = R.r0 ∧ V3.cross R.r2 R.r0 = R.r1 ∧ V3.cross R.r0 R.r1 = R.r2 := by
  obtain ⟨h00, h11, h22, h01, h02, h12⟩ := ho
  refine ⟨cross_eq_of_orthonormal _ _ _ h11 h22 h12 h00 hd,
    cross_eq_of_orthonormal _ _ _ h22 h00 ?_ h11 ?_, cross_eq_of_orthonormal _ _ _ h00 h11 h01 h22 ?_⟩
  · simp only [V3.dot] at h02 ⊢; linear_combination h02
  · simp only [M3.det, V3.dot, V3.cross] at hd ⊢; linear_combination hd
  · simp only [M3.det, V3.dot, V3.cross] at hd ⊢; linear_combination hd

/-- an improper orthogonal map (`det = -1`, a reflection or roto-reflection): the opposite sign. -/
theorem refl_rows_cross (R : M3 K) (ho : RowsOrthonormal R) (hd : M3.det R = -1) :
    V3.cross R.r1 R.r2 = -R.r0 ∧ V3.cross R.r2 R.r0 = -R.r1 ∧ V3.cross R.r0 R.r1 = -R.r2 := by
  obtain ⟨h00, h11, h22, h01, h02, h12⟩ := ho
  have neg_dot : ∀ a : V3 K, V3.dot (-a) (-a) = V3.dot a a := by
    intro a; show V3.dot (V3.neg a) (V3.neg a) = _; simp only [V3.dot, V3.neg]; ring
  refine ⟨cross_eq_of_orthonormal _ _ _ h11 h22 h12 (by rw [neg_dot]; exact h00) ?_,
    cross_eq_of_orthonormal _ _ _ h22 h00 ?_ (by rw [neg_dot]; exact h11) ?_,
    cross_eq_of_orthonormal _ _ _ h00 h11 h01 (by rw [neg_dot]; exact h22) ?_⟩
  · show V3.dot (V3.neg R.r0) _ = 1
    simp only [M3.det, V3.dot, V3.cross, V3.neg] at hd ⊢; linear_combination -hd
  · simp only [V3.dot] at h02 ⊢; linear_combination h02
  · show V3.dot (V3.neg R.r1) _ = 1
    simp only [M3.det, V3.dot, V3.cross, V3.neg] at hd ⊢; linear_combination -hd
  · show V3.dot (V3.neg R.r2) _ = 1
    simp only [M3.det, V3.dot, V3.cross, V3.neg] at hd ⊢; linear_combination -hd

/-- cross products of rotated vectors: `(pR)×(qR) = (p×q)R` for a proper rotation. -/
theorem cross_vecMul_rot (R : M3 K) (ho : RowsOrthonormal R) (hd : M3.det R = 1) (p q : V3 K) :
    V3.cross (M3.vecMul p R) (M3.vecMul q R) = M3.vecMul (V3.cross p q) R := by
  obtain ⟨c0, c1, c2⟩ := rot_rows_cross R ho hd
  have key : V3.cross (M3.vecMul p R) (M3.vecMul q R)
      = M3.vecMul (V3.cross p q) ⟨V3.cross R.r1 R.r2, V3.cross R.r2 R.r0, V3.cross R.r0 R.r1⟩ := by
    simp only [V3.cross, M3.vecMul, V3.mk.injEq]
    refine ⟨by ring, by ring, by ring⟩
  rw [key, c0, c1, c2]

theorem cross_vecMul_refl (R : M3 K) (ho : RowsOrthonormal R) (hd : M3.det R = -1) (p q : V3 K) :
    V3.cross (M3.vecMul p R) (M3.vecMul q R) = -M3.vecMul (V3.cross p q) R := by
  obtain ⟨c0, c1, c2⟩ := refl_rows_cross R ho hd
  have key : V3.cross (M3.vecMul p R) (M3.vecMul q R)
      = M3.vecMul (V3.cross p q) ⟨V3.cross R.r1 R.r2, V3.cross R.r2 R.r0, V3.cross R.r0 R.r1⟩ := by
    simp only [V3.cross, M3.vecMul, V3.mk.injEq]
    refine ⟨by ring, by ring, by ring⟩
  rw [key, c0, c1, c2]
  show _ = V3.neg _
  simp only [M3.vecMul, V3.neg, V3.cross, V3.mk.injEq]
  show _ ∧ _ ∧ _
  refine ⟨?_, ?_, ?_⟩ <;> (simp only [Neg.neg, V3.neg]; ring)

/-- **rotated cells**: the cell `V·R` (every cell vector rotated by the proper rotation `R`) has, for every
    plane `(hkl)`, the rotated normal — the unnormalised normal the code computes is `n·R` where `n` is the one
    of the unrotated cell.  In particular the normal of a rotated CUBIC cell is not `(h,k,l)/|hkl|`. -/
theorem normal_rotation_covariant (V R : M3 K) (ho : RowsOrthonormal R) (hd : M3.det R = 1) (h k l : ℤ) :
    planeNormalUnnorm (M3.mul V R) h k l = (planeNormalUnnorm V h k l).map (fun n => M3.vecMul n R) := by
  simp only [planeNormalUnnorm]
  rcases planeInPlane h k l with e | ⟨a, b, s⟩
  · rfl
  · simp only [Except.map, normalOf, vecMul_mul, cross_vecMul_rot R ho hd]
    congr 1
    simp only [V3.smul, M3.vecMul, V3.mk.injEq]
    refine ⟨?_, ?_, ?_⟩ <;> ring

/-- reflected (left-handed) copies of a cell: the code's normal is the NEGATIVE of the reflected normal
    (the in-plane pair keeps its index orientation while the cell changes hand). -/
theorem normal_reflection_flips (V R : M3 K) (ho : RowsOrthonormal R) (hd : M3.det R = -1) (h k l : ℤ) :
    planeNormalUnnorm (M3.mul V R) h k l = (planeNormalUnnorm V h k l).map (fun n => -M3.vecMul n R) := by
  simp only [planeNormalUnnorm]
  rcases planeInPlane h k l with e | ⟨a, b, s⟩
  · rfl
  · simp only [Except.map, normalOf, vecMul_mul, cross_vecMul_refl R ho hd]
    congr 1
    show _ = V3.neg _
    simp only [V3.smul, M3.vecMul, V3.neg, V3.mk.injEq]
    show _ ∧ _ ∧ _
    refine ⟨?_, ?_, ?_⟩ <;> (simp only [Neg.neg, V3.neg]; ring)

/-- crystal vectors of a rigidly moved cell are the moved vectors (any matrix `R`), three- and four-index. -/
theorem vector_rotation_covariant (atol : K) (isHex : Bool) (V R : M3 K) (idx : List K) :
    vectorCrystalToCartesian atol isHex (M3.mul V R) idx
      = (vectorCrystalToCartesian atol isHex V idx).map (fun v => M3.vecMul v R) := by
  unfold vectorCrystalToCartesian
  split
  · split
    · split <;> simp_all [Except.map, vecMul_mul]
    · rfl
  · simp [Except.map, vecMul_mul]
  · rfl

end rot
end Atomman.C16
