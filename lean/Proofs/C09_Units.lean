/-
  C09 — helper lemmas about numbers: integer powers, the scaling factor `m^a kg^b s^c C^d K^e`,
  the facts `tableOK` states about a unit table, and the base-unit scale `reset_units` computes.
-/
import Atomman.C09
import Mathlib.Tactic.Ring
import Mathlib.Tactic.FieldSimp
import Mathlib.Tactic.Linarith
import Mathlib.Algebra.Order.Field.Basic
import Mathlib.Algebra.Field.Rat

namespace Atomman.C09
set_option linter.unusedSimpArgs false
set_option linter.unusedSectionVars false
set_option linter.unusedVariables false

variable {K : Type} [Field K] [DecidableEq K]

theorem powNat_eq (a : K) (n : Nat) : powNat a n = a ^ n := by
  induction n with
  | zero => simp [powNat]
  | succ n ih => simp [powNat, ih, pow_succ]

theorem powInt_eq (a : K) (n : Int) : powInt a n = a ^ n := by
  unfold powInt
  split
  · rename_i h
    rw [powNat_eq]
    conv_rhs => rw [← Int.toNat_of_nonneg h]
    rw [zpow_natCast]
  · rename_i h
    rw [powNat_eq]
    have h' : 0 ≤ -n := by omega
    conv_rhs => rw [← neg_neg n, zpow_neg, ← Int.toNat_of_nonneg h', zpow_natCast]
    simp

def Scales.Nonzero (sc : Scales K) : Prop := sc.m ≠ 0 ∧ sc.kg ≠ 0 ∧ sc.s ≠ 0 ∧ sc.c ≠ 0 ∧ sc.k ≠ 0

theorem factor_eq (sc : Scales K) (d : D5) :
    factor sc d = sc.m ^ d.m * sc.kg ^ d.kg * sc.s ^ d.s * sc.c ^ d.c * sc.k ^ d.k := by
  simp [factor, powInt_eq]

theorem factor_zero (sc : Scales K) : factor sc D5.zero = 1 := by
  simp [factor_eq, D5.zero]

theorem factor_ne_zero {sc : Scales K} (h : sc.Nonzero) (d : D5) : factor sc d ≠ 0 := by
  obtain ⟨h1, h2, h3, h4, h5⟩ := h
  rw [factor_eq]
  have := zpow_ne_zero d.m h1; have := zpow_ne_zero d.kg h2; have := zpow_ne_zero d.s h3
  have := zpow_ne_zero d.c h4; have := zpow_ne_zero d.k h5
  simp_all

theorem factor_add {sc : Scales K} (h : sc.Nonzero) (a b : D5) :
    factor sc (D5.add a b) = factor sc a * factor sc b := by
  obtain ⟨h1, h2, h3, h4, h5⟩ := h
  simp only [factor_eq, D5.add, zpow_add₀ h1, zpow_add₀ h2, zpow_add₀ h3, zpow_add₀ h4, zpow_add₀ h5]
  ring

theorem factor_sub {sc : Scales K} (h : sc.Nonzero) (a b : D5) :
    factor sc (D5.sub a b) = factor sc a / factor sc b := by
  obtain ⟨h1, h2, h3, h4, h5⟩ := h
  simp only [factor_eq, D5.sub, zpow_sub₀ h1, zpow_sub₀ h2, zpow_sub₀ h3, zpow_sub₀ h4, zpow_sub₀ h5]
  ring

theorem factor_smul (sc : Scales K) (n : Int) (a : D5) :
    factor sc (D5.smul n a) = factor sc a ^ n := by
  simp only [factor_eq, D5.smul, zpow_mul', mul_zpow]

/-! ### the unit table and `reset_units` -/

section table
variable [CharZero K]

theorem lookup_mem {tab : List UnitEntry} {n : List Char} {e : UnitEntry} (h : lookup tab n = some e) : e ∈ tab :=
  List.mem_of_find?_eq_some h

/-- what `tableOK` says, as propositions. -/
structure TableFacts (tab : List UnitEntry) : Prop where
  pos : ∀ e ∈ tab, 0 < e.num ∧ 0 < e.den
  m : ∃ e, lookup tab ['m'] = some e ∧ e.num = 1 ∧ e.den = 1 ∧ e.dim = ⟨1, 0, 0, 0, 0⟩
  kg : ∃ e, lookup tab ['k', 'g'] = some e ∧ e.num = 1 ∧ e.den = 1 ∧ e.dim = ⟨0, 1, 0, 0, 0⟩
  s : ∃ e, lookup tab ['s'] = some e ∧ e.num = 1 ∧ e.den = 1 ∧ e.dim = ⟨0, 0, 1, 0, 0⟩
  c : ∃ e, lookup tab ['C'] = some e ∧ e.num = 1 ∧ e.den = 1 ∧ e.dim = ⟨0, 0, 0, 1, 0⟩
  j : ∃ e, lookup tab ['J'] = some e ∧ e.num = 1 ∧ e.den = 1 ∧ e.dim = ⟨2, 1, -2, 0, 0⟩

theorem isOne_facts {tab : List UnitEntry} {n : List Char} {d : D5}
    (h : (match lookup tab n with
      | some e => e.num == 1 && e.den == 1 && e.dim == d
      | none => false) = true) :
    ∃ e, lookup tab n = some e ∧ e.num = 1 ∧ e.den = 1 ∧ e.dim = d := by
  cases hl : lookup tab n with
  | none => simp [hl] at h
  | some e =>
    simp only [hl, Bool.and_eq_true, beq_iff_eq] at h
    exact ⟨e, rfl, h.1.1, h.1.2, h.2⟩

theorem tableFacts {tab : List UnitEntry} (h : tableOK tab = true) : TableFacts tab := by
  simp only [tableOK, Bool.and_eq_true, List.all_eq_true, decide_eq_true_eq] at h
  obtain ⟨⟨⟨⟨⟨h1, h2⟩, h3⟩, h4⟩, h5⟩, h6⟩ := h
  exact ⟨h6, isOne_facts h1, isOne_facts h2, isOne_facts h3, isOne_facts h4, isOne_facts h5⟩

theorem si_ne_zero {tab : List UnitEntry} (hf : TableFacts tab) {e : UnitEntry} (he : e ∈ tab) : (e.si : K) ≠ 0 := by
  obtain ⟨h1, h2⟩ := hf.pos e he
  have a : ((e.num : Int) : K) ≠ 0 := Int.cast_ne_zero.mpr (by omega)
  have b : ((e.den : Nat) : K) ≠ 0 := Nat.cast_ne_zero.mpr (by omega)
  simp only [UnitEntry.si]
  exact div_ne_zero a b

theorem si_one {e : UnitEntry} (h1 : e.num = 1) (h2 : e.den = 1) : (e.si : K) = 1 := by
  simp [UnitEntry.si, h1, h2]

/-- the scale `reset_units` gives a base unit: 1 when the keyword is absent, `1 / (SI value of the named unit)`
    when it is present. -/
theorem baseScale_spec {tab : List UnitEntry} (hf : TableFacts tab) {base : List Char} {b : UnitEntry}
    (hb : lookup tab base = some b) (hb1 : b.num = 1) (hb2 : b.den = 1) (o : Option (List Char))
    (ho : ∀ n, o = some n → ∃ e, lookup tab n = some e) :
    ∃ x : K, baseScale (envSI tab) base o = some x ∧ x ≠ 0 ∧ (o = none → x = 1)
      ∧ ∀ n e, o = some n → lookup tab n = some e → (e.si : K) * x = 1 := by
  cases o with
  | none => exact ⟨1, rfl, one_ne_zero, fun _ => rfl, by intro n e h; cases h⟩
  | some n =>
    obtain ⟨e, he⟩ := ho n rfl
    have hne : (e.si : K) ≠ 0 := si_ne_zero hf (lookup_mem he)
    refine ⟨1 / e.si, ?_, (by simpa using hne), (by intro h; cases h), ?_⟩
    · simp [baseScale, envSI, hb, he, hne, si_one (K := K) hb1 hb2]
    · intro n' e' h1 h2
      cases h1
      rw [he] at h2; cases h2
      field_simp

theorem envOf_lookup {tab : List UnitEntry} {n : List Char} {e : UnitEntry} (h : lookup tab n = some e) (sc : Scales K) :
    envOf tab sc n = some (e.si * factor sc e.dim) := by
  simp [envOf, h]

theorem factor_length (sc : Scales K) : factor sc ⟨1, 0, 0, 0, 0⟩ = sc.m := by simp [factor_eq]
theorem factor_mass (sc : Scales K) : factor sc ⟨0, 1, 0, 0, 0⟩ = sc.kg := by simp [factor_eq]
theorem factor_time (sc : Scales K) : factor sc ⟨0, 0, 1, 0, 0⟩ = sc.s := by simp [factor_eq]
theorem factor_charge (sc : Scales K) : factor sc ⟨0, 0, 0, 1, 0⟩ = sc.c := by simp [factor_eq]
theorem factor_energy (sc : Scales K) : factor sc ⟨2, 1, -2, 0, 0⟩ = sc.m ^ 2 * sc.kg / sc.s ^ 2 := by
  simp [factor_eq, zpow_neg, div_eq_mul_inv]

end table

end Atomman.C09
