/-
  C07 — helper lemmas: for EVERY atom_style the writer accepts (hybrids included) the LAMMPS line layout an
  independent reader uses (`layoutOf lammpsAtomLayout style`) is, field for field and unit kind for unit kind, what
  the written column list fills.
-/
import Proofs.C07_Data

namespace Atomman.C07
open Atomman
set_option linter.unusedSimpArgs false
set_option linter.unusedVariables false

/-! ### the LAMMPS line layout that corresponds to a list of written columns -/

abbrev Layout := List (String × Option String)

def specKind : UnitSpec → Option String
  | .none => none
  | .scaled => some "scaled"
  | .kind k => some k

/-- LAMMPS fields filled by one written column. -/
def colLayout (c : ColSpec) : Option Layout :=
  match propFields.find? (·.1 = c.prop) with
  | some e => if e.2.length = c.names.length then some (e.2.map fun n => (n, specKind c.unit)) else none
  | none => none

def colsLayout (cols : List ColSpec) : Option Layout := (cols.mapM colLayout).map List.flatten

theorem specKind_ofGenCol (g : Gen.AtomStyles.Col) : specKind (ofGenCol g).unit = g.2.2 := by
  obtain ⟨a, b, c⟩ := g
  cases c with
  | none => rfl
  | some k =>
    simp only [ofGenCol]
    split <;> simp_all [specKind]

/-- base styles: the hand-encoded LAMMPS layout is field for field (name and unit kind) what the generated column
    list writes. -/
theorem base_atom_layouts :
    ∀ e ∈ Gen.AtomStyles.atomStyles, e.2 ≠ [] →
      (lammpsAtomLayout.find? (·.1 = e.1)).map (·.2) = colsLayout (e.2.map ofGenCol) := by
  decide +kernel

theorem base_vel_layouts :
    ∀ e ∈ Gen.AtomStyles.velStyles, e.2 ≠ [] →
      (lammpsVelLayout.find? (·.1 = e.1)).map (·.2) = colsLayout (e.2.map ofGenCol) := by
  decide +kernel

/-! ### hybrid styles -/

theorem propFields_disjoint :
    ∀ e1 ∈ propFields, ∀ e2 ∈ propFields, e1.1 ≠ e2.1 → ∀ n ∈ e1.2, n ∉ e2.2 := by
  decide +kernel

theorem find?_propFields {p : String} {e : String × List String} (h : propFields.find? (·.1 = p) = some e) :
    e ∈ propFields ∧ e.1 = p := by
  refine ⟨List.mem_of_find?_eq_some h, ?_⟩
  have := List.find?_some h
  simpa using this

/-- names of the fields of one column. -/
theorem colLayout_names {c : ColSpec} {fs : Layout} (h : colLayout c = some fs) :
    ∃ e, propFields.find? (·.1 = c.prop) = some e ∧ fs.map (·.1) = e.2 ∧ fs.length = c.names.length := by
  unfold colLayout at h
  split at h
  · rename_i e he
    split at h
    · rename_i hl
      injection h with h
      subst h
      exact ⟨e, he, by rw [List.map_map]; exact List.map_id' _, by simp [hl]⟩
    · cases h
  · cases h

/-- two columns of the same property fill the same fields; of different properties, disjoint fields. -/
theorem colLayout_same {c c' : ColSpec} {fs fs' : Layout} (h : colLayout c = some fs) (h' : colLayout c' = some fs')
    (hp : c.prop = c'.prop) : fs.map (·.1) = fs'.map (·.1) := by
  obtain ⟨e, he, hn, _⟩ := colLayout_names h
  obtain ⟨e', he', hn', _⟩ := colLayout_names h'
  rw [hp, he'] at he
  injection he with he
  rw [hn, hn', he]

theorem colLayout_disjoint {c c' : ColSpec} {fs fs' : Layout} (h : colLayout c = some fs) (h' : colLayout c' = some fs')
    (hp : c.prop ≠ c'.prop) : ∀ n ∈ fs.map (·.1), n ∉ fs'.map (·.1) := by
  obtain ⟨e, he, hn, _⟩ := colLayout_names h
  obtain ⟨e', he', hn', _⟩ := colLayout_names h'
  obtain ⟨hm, h1⟩ := find?_propFields he
  obtain ⟨hm', h1'⟩ := find?_propFields he'
  rw [hn, hn']
  exact propFields_disjoint e hm e' hm' (by rw [h1, h1']; exact hp)

theorem colsLayout_nil : colsLayout [] = some [] := rfl

theorem colsLayout_cons (c : ColSpec) (cs : List ColSpec) :
    colsLayout (c :: cs) = (colLayout c).bind fun a => (colsLayout cs).map fun b => a ++ b := by
  unfold colsLayout
  rw [List.mapM_cons]
  cases colLayout c with
  | none => rfl
  | some a =>
    cases cs.mapM colLayout with
    | none => rfl
    | some b => rfl

theorem colsLayout_append (a b : List ColSpec) :
    colsLayout (a ++ b) = (colsLayout a).bind fun x => (colsLayout b).map fun y => x ++ y := by
  induction a with
  | nil => simp [colsLayout_nil]
  | cons c cs ih =>
    rw [List.cons_append, colsLayout_cons, colsLayout_cons, ih]
    cases colLayout c with
    | none => rfl
    | some x =>
      cases colsLayout cs with
      | none => rfl
      | some y =>
        cases colsLayout b with
        | none => rfl
        | some z => simp

/-- names of the fields of a column list: every name belongs to some column. -/
theorem mem_colsLayout {cols : List ColSpec} {L : Layout} (h : colsLayout cols = some L) {n : String}
    (hn : n ∈ L.map (·.1)) : ∃ c ∈ cols, ∃ fs, colLayout c = some fs ∧ n ∈ fs.map (·.1) := by
  induction cols generalizing L with
  | nil => rw [colsLayout_nil] at h; injection h with h; subst h; simp at hn
  | cons c cs ih =>
    rw [colsLayout_cons] at h
    cases hc : colLayout c with
    | none => rw [hc] at h; cases h
    | some a =>
      cases hcs : colsLayout cs with
      | none => rw [hc, hcs] at h; cases h
      | some b =>
        rw [hc, hcs] at h
        simp only [Option.bind_some, Option.map_some, Option.some.injEq] at h
        subst h
        rw [List.map_append, List.mem_append] at hn
        rcases hn with hn | hn
        · exact ⟨c, by simp, a, hc, hn⟩
        · obtain ⟨c', hc', fs, hfs, hn'⟩ := ih hcs hn
          exact ⟨c', List.mem_cons_of_mem _ hc', fs, hfs, hn'⟩

theorem colLayout_of_mem {cols : List ColSpec} {L : Layout} (h : colsLayout cols = some L) {c : ColSpec}
    (hc : c ∈ cols) : ∃ fs, colLayout c = some fs ∧ ∀ n ∈ fs.map (·.1), n ∈ L.map (·.1) := by
  induction cols generalizing L with
  | nil => simp at hc
  | cons d ds ih =>
    rw [colsLayout_cons] at h
    cases hd : colLayout d with
    | none => rw [hd] at h; cases h
    | some a =>
      cases hds : colsLayout ds with
      | none => rw [hd, hds] at h; cases h
      | some b =>
        rw [hd, hds] at h
        simp only [Option.bind_some, Option.map_some, Option.some.injEq] at h
        subst h
        rcases List.mem_cons.mp hc with rfl | hc
        · exact ⟨a, hd, fun n hn => by rw [List.map_append]; exact List.mem_append_left _ hn⟩
        · obtain ⟨fs, hfs, hsub⟩ := ih hds hc
          exact ⟨fs, hfs, fun n hn => by rw [List.map_append]; exact List.mem_append_right _ (hsub n hn)⟩

/-- filtering the columns by "property not yet present" is filtering the fields by "name not yet present". -/
theorem colsLayout_filter (accC sc : List ColSpec) (accL scL : Layout) (hacc : colsLayout accC = some accL)
    (hsc : colsLayout sc = some scL) :
    colsLayout (sc.filter fun c => !(accC.any (·.prop = c.prop)))
      = some (scL.filter fun c => !(accL.any (·.1 = c.1))) := by
  induction sc generalizing scL with
  | nil => rw [colsLayout_nil] at hsc; injection hsc with hsc; subst hsc; rfl
  | cons c cs ih =>
    rw [colsLayout_cons] at hsc
    cases hc : colLayout c with
    | none => rw [hc] at hsc; cases hsc
    | some a =>
      cases hcs : colsLayout cs with
      | none => rw [hc, hcs] at hsc; cases hsc
      | some b =>
        rw [hc, hcs] at hsc
        simp only [Option.bind_some, Option.map_some, Option.some.injEq] at hsc
        subst hsc
        rw [List.filter_append, List.filter_cons]
        by_cases hin : accC.any (·.prop = c.prop) = true
        · -- all fields of `c` are already present
          simp only [hin, Bool.not_true, Bool.false_eq_true, if_false]
          rw [ih b hcs]
          have : a.filter (fun x => !(accL.any (·.1 = x.1))) = [] := by
            rw [List.filter_eq_nil_iff]
            intro x hx
            obtain ⟨c', hc', hp⟩ := List.any_eq_true.mp hin
            have hp : c'.prop = c.prop := by simpa using hp
            obtain ⟨fs', hfs', hsub⟩ := colLayout_of_mem hacc hc'
            have h1 := colLayout_same hfs' hc hp
            have hx1 : x.1 ∈ a.map (·.1) := List.mem_map.mpr ⟨x, hx, rfl⟩
            rw [← h1] at hx1
            have := hsub _ hx1
            obtain ⟨y, hy, hyx⟩ := List.mem_map.mp this
            simp only [Bool.not_eq_true, Bool.not_eq_false']
            exact List.any_eq_true.mpr ⟨y, hy, by simpa using hyx⟩
          rw [this, List.nil_append]
        · simp only [hin, Bool.not_false, if_true]
          rw [colsLayout_cons, hc, ih b hcs]
          have : a.filter (fun x => !(accL.any (·.1 = x.1))) = a := by
            rw [List.filter_eq_self]
            intro x hx
            simp only [Bool.not_eq_true', List.any_eq_false]
            intro y hy hyx
            have hyx : y.1 = x.1 := by simpa using hyx
            obtain ⟨c', hc', fs', hfs', hn⟩ := mem_colsLayout hacc (List.mem_map.mpr ⟨y, hy, rfl⟩)
            have hne : c.prop ≠ c'.prop := by
              intro e
              apply hin
              exact List.any_eq_true.mpr ⟨c', hc', by simpa using e.symm⟩
            have hx1 : x.1 ∈ a.map (·.1) := List.mem_map.mpr ⟨x, hx, rfl⟩
            exact colLayout_disjoint hc hfs' hne _ hx1 (hyx ▸ hn)
          rw [this]
          rfl

theorem lookupStyle_some {tbl : List (String × List Gen.AtomStyles.Col)} {w : String} {cols : List ColSpec}
    (h : lookupStyle tbl w = some cols) : ∃ e ∈ tbl, e.1 = w ∧ e.2 ≠ [] ∧ cols = e.2.map ofGenCol := by
  unfold lookupStyle at h
  split at h
  · rename_i e he
    split at h
    · cases h
    · rename_i hne
      injection h with h
      exact ⟨e, List.mem_of_find?_eq_some he, by simpa using List.find?_some he, hne, h.symm⟩
  · cases h

/-- what a layout table must satisfy relative to a generated column table. -/
def TablesAgree (tblC : List (String × List Gen.AtomStyles.Col)) (tblL : List (String × Layout)) : Prop :=
  ∀ e ∈ tblC, e.2 ≠ [] → ∃ L, (tblL.find? (·.1 = e.1)).map (·.2) = some L ∧ colsLayout (e.2.map ofGenCol) = some L

theorem lookup_agree {tblC : List (String × List Gen.AtomStyles.Col)} {tblL : List (String × Layout)}
    (hag : TablesAgree tblC tblL) {w : String} {cols : List ColSpec} (h : lookupStyle tblC w = some cols) :
    ∃ L, (tblL.find? (·.1 = w)).map (·.2) = some L ∧ colsLayout cols = some L := by
  obtain ⟨e, he, rfl, hne, rfl⟩ := lookupStyle_some h
  exact hag e he hne

theorem hybrid_fold_agree {tblC : List (String × List Gen.AtomStyles.Col)} {tblL : List (String × Layout)}
    (hag : TablesAgree tblC tblL) (subs : List String) (accC : List ColSpec) (accL : Layout)
    (hacc : colsLayout accC = some accL) (cols : List ColSpec)
    (h : subs.foldlM (fun acc sub => do
          let sc ← lookupStyle tblC sub
          pure (acc ++ sc.filter fun c => !(acc.any (·.prop = c.prop)))) accC = some cols) :
    ∃ L, subs.foldlM (fun acc sub => do
          let sc ← (tblL.find? (·.1 = sub)).map (·.2)
          pure (acc ++ sc.filter fun c => !(acc.any (·.1 = c.1)))) accL = some L ∧ colsLayout cols = some L ∧
        ∃ ext, cols = accC ++ ext := by
  induction subs generalizing accC accL with
  | nil =>
    simp only [List.foldlM_nil, pure, Option.some.injEq] at h ⊢
    subst h
    exact ⟨accL, rfl, hacc, [], by simp⟩
  | cons sub rest ih =>
    rw [List.foldlM_cons] at h ⊢
    cases hl : lookupStyle tblC sub with
    | none => rw [hl] at h; simp at h
    | some sc =>
      rw [hl] at h
      obtain ⟨scL, hfind, hscL⟩ := lookup_agree hag hl
      simp only [Option.bind_eq_bind, Option.bind_some, pure] at h
      rw [hfind]
      simp only [Option.bind_eq_bind, Option.bind_some, pure]
      have hnew : colsLayout (accC ++ sc.filter fun c => !(accC.any (·.prop = c.prop)))
          = some (accL ++ scL.filter fun c => !(accL.any (·.1 = c.1))) := by
        rw [colsLayout_append, hacc, colsLayout_filter accC sc accL scL hacc hscL]
        rfl
      obtain ⟨L, h1, h2, ext, h3⟩ := ih _ _ hnew h
      exact ⟨L, h1, h2, _, by rw [h3, List.append_assoc]⟩

/-- **every style, hybrids included**: the LAMMPS line layout of the style is, field for field, what the written
    column list fills. -/
theorem layoutOf_styleCols {tblC : List (String × List Gen.AtomStyles.Col)} {tblL : List (String × Layout)}
    (hag : TablesAgree tblC tblL) (style : String) (cols : List ColSpec) (h : styleCols tblC style = some cols) :
    ∃ L, layoutOf tblL style = some L ∧ colsLayout cols = some L := by
  unfold styleCols at h
  unfold layoutOf
  generalize styleWords style = ws at h ⊢
  match ws with
  | [] => simp at h
  | w :: rest =>
    by_cases hw : w = "hybrid"
    · subst hw
      simp only [hybridCols] at h ⊢
      cases hb : lookupStyle tblC "atomic" with
      | none => rw [hb] at h; simp at h
      | some base =>
        rw [hb] at h
        obtain ⟨baseL, hfind, hbaseL⟩ := lookup_agree hag hb
        simp only [Option.bind_eq_bind, Option.bind_some] at h
        rw [hfind]
        simp only [Option.bind_eq_bind, Option.bind_some]
        obtain ⟨L, h1, h2, _⟩ := hybrid_fold_agree hag rest base baseL hbaseL cols h
        exact ⟨L, h1, h2⟩
    · cases rest with
      | nil =>
        have h : lookupStyle tblC w = some cols := by
          split at h
          · rename_i heq; injection heq with h1 _; exact absurd h1 hw
          · rename_i heq; injection heq with h1 _; rw [h1]; exact h
          · rename_i h1 h2; exact absurd rfl (h2 w)
        obtain ⟨L, hfind, hL⟩ := lookup_agree hag h
        refine ⟨L, ?_, hL⟩
        rw [← hfind]
        split
        · rename_i heq; injection heq with h1 _; exact absurd h1 hw
        · rename_i heq; injection heq with h1 _; rw [h1]
        · rename_i h1 h2; exact absurd rfl (h2 w)
      | cons w2 r2 =>
        exfalso
        split at h
        · rename_i heq; injection heq with h1 _; exact hw h1
        · rename_i heq; injection heq with _ h2; cases h2
        · cases h

theorem atom_tables_agree : TablesAgree Gen.AtomStyles.atomStyles lammpsAtomLayout := by
  have h : ∀ e ∈ Gen.AtomStyles.atomStyles, e.2 ≠ [] →
      ((lammpsAtomLayout.find? (·.1 = e.1)).map (·.2) = colsLayout (e.2.map ofGenCol) ∧
        (colsLayout (e.2.map ofGenCol)).isSome = true) := by decide +kernel
  intro e he hne
  obtain ⟨h1, h2⟩ := h e he hne
  obtain ⟨L, hL⟩ := Option.isSome_iff_exists.mp h2
  exact ⟨L, by rw [h1, hL], hL⟩

theorem vel_tables_agree : TablesAgree Gen.AtomStyles.velStyles lammpsVelLayout := by
  have h : ∀ e ∈ Gen.AtomStyles.velStyles, e.2 ≠ [] →
      ((lammpsVelLayout.find? (·.1 = e.1)).map (·.2) = colsLayout (e.2.map ofGenCol) ∧
        (colsLayout (e.2.map ofGenCol)).isSome = true) := by decide +kernel
  intro e he hne
  obtain ⟨h1, h2⟩ := h e he hne
  obtain ⟨L, hL⟩ := Option.isSome_iff_exists.mp h2
  exact ⟨L, by rw [h1, hL], hL⟩

/-! ### the words of an accepted style are plain tokens -/

theorem fold_subs_known {tblC : List (String × List Gen.AtomStyles.Col)} (subs : List String) (accC cols : List ColSpec)
    (h : subs.foldlM (fun acc sub => do
          let sc ← lookupStyle tblC sub
          pure (acc ++ sc.filter fun c => !(acc.any (·.prop = c.prop)))) accC = some cols) :
    ∀ w ∈ subs, ∃ e ∈ tblC, e.1 = w := by
  induction subs generalizing accC with
  | nil => intro w hw; simp at hw
  | cons sub rest ih =>
    rw [List.foldlM_cons] at h
    cases hl : lookupStyle tblC sub with
    | none => rw [hl] at h; simp at h
    | some sc =>
      rw [hl] at h
      simp only [Option.bind_eq_bind, Option.bind_some, pure] at h
      obtain ⟨e, he, h1, _, _⟩ := lookupStyle_some hl
      intro w hw
      rcases List.mem_cons.mp hw with rfl | hw
      · exact ⟨e, he, h1⟩
      · exact ih _ h w hw

theorem styleOk_of_styleCols {tblC : List (String × List Gen.AtomStyles.Col)}
    (hkeys : ∀ e ∈ tblC, okTok (strTok e.1)) (style : String) (cols : List ColSpec)
    (h : styleCols tblC style = some cols) : StyleOk style := by
  unfold styleCols at h
  unfold StyleOk
  generalize styleWords style = ws at h ⊢
  match ws with
  | [] => simp at h
  | w :: rest =>
    by_cases hw : w = "hybrid"
    · subst hw
      simp only [hybridCols] at h
      cases hb : lookupStyle tblC "atomic" with
      | none => rw [hb] at h; simp at h
      | some base =>
        rw [hb] at h
        simp only [Option.bind_eq_bind, Option.bind_some] at h
        have := fold_subs_known rest base cols h
        intro x hx
        rcases List.mem_cons.mp hx with rfl | hx
        · decide
        · obtain ⟨e, he, rfl⟩ := this x hx
          exact hkeys e he
    · cases rest with
      | nil =>
        have h : lookupStyle tblC w = some cols := by
          split at h
          · rename_i heq; injection heq with h1 _; exact absurd h1 hw
          · rename_i heq; injection heq with h1 _; rw [h1]; exact h
          · rename_i h1 h2; exact absurd rfl (h2 w)
        obtain ⟨e, he, rfl, _, _⟩ := lookupStyle_some h
        intro x hx
        simp at hx; subst hx
        exact hkeys e he
      | cons w2 r2 =>
        exfalso
        split at h
        · rename_i heq; injection heq with h1 _; exact hw h1
        · rename_i heq; injection heq with _ h2; cases h2
        · cases h

theorem atom_style_keys_ok : ∀ e ∈ Gen.AtomStyles.atomStyles, okTok (strTok e.1) := by decide +kernel

theorem styleOk_of_atomCols (style : String) (cols : List ColSpec) (h : atomCols style = some cols) : StyleOk style :=
  styleOk_of_styleCols atom_style_keys_ok style cols h

end Atomman.C07
