/-
  C14, counts and smallest sizes.
    * the `(a1, a2)` mesh of `iterfaultmap(num_a1, num_a2)`: exactly `num_a1 * num_a2` points, the points
      `(i / num_a1, j / num_a2)`, all inside `[0, 1) x [0, 1)` (a full lattice vector `a = 1` is never among them),
      pairwise distinct (every fault configuration is generated once), for EVERY count (`faultMesh_length`,
      `mem_faultMesh`, `faultMesh_unit`, `faultMesh_nodup`); a successful `iterfaultmap` returns one configuration
      per mesh point, in mesh order (`iterFaultMap_mesh`, `iterFaultMap_length`);
    * a rotated cell whose atoms all lie in ONE layer (the one-atom primitive cell) at ANY height `x`: exactly one
      shift is offered, and it puts the layer half a cell width from the cut (`shifts_single_layer`,
      `single_layer_centered`) - not `W / 2`, which is right only for `x = 0`;
    * the number of cells along the cut is exactly `max(|m|, ceil(minwidth / W))`, plus one when `even` asks for it
      and that number is odd (`cutMult_exact`); the slab is at least `minwidth` thick and one cell fewer would be too
      thin, in particular `minwidth = k W` gives `k` cells, not `k + 1` (`cutMult_minwidth`).
-/
import Atomman.C14
import Mathlib.Algebra.Order.Field.Basic
import Mathlib.Data.List.Nodup
import Mathlib.Data.List.Range
import Mathlib.Algebra.Order.Floor.Ring
import Mathlib.Data.Rat.Floor
import Mathlib.Tactic.Ring
import Mathlib.Tactic.Linarith
import Mathlib.Tactic.FieldSimp

namespace Atomman.C14
open Atomman
set_option linter.unusedSectionVars false
set_option linter.unusedSimpArgs false
set_option linter.unusedVariables false

section mesh
variable {K : Type} [Field K] [LinearOrder K] [IsStrictOrderedRing K]

/-- the mesh has `num_a1 * num_a2` points, for every pair of counts. -/
theorem faultMesh_length (n1 n2 : Nat) : (faultMesh (K := K) n1 n2).length = n1 * n2 := by
  simp [faultMesh, List.length_flatMap, Nat.mul_comm]

/-- the points of the mesh are exactly `(i / num_a1, j / num_a2)`, `i < num_a1`, `j < num_a2`. -/
theorem mem_faultMesh (n1 n2 : Nat) (p : K × K) :
    p ∈ faultMesh n1 n2 ↔ ∃ i < n1, ∃ j < n2, p = ((i : K) / (n1 : K), (j : K) / (n2 : K)) := by
  unfold faultMesh
  simp only [List.mem_flatMap, List.mem_range, List.mem_map, Int.ofNat_eq_natCast, Int.cast_natCast]
  constructor
  · rintro ⟨j, hj, i, hi, rfl⟩
    exact ⟨i, hi, j, hj, rfl⟩
  · rintro ⟨i, hi, j, hj, rfl⟩
    exact ⟨j, hj, i, hi, rfl⟩

private theorem frac_unit (i n : Nat) (h : i < n) : (0 : K) ≤ (i : K) / (n : K) ∧ (i : K) / (n : K) < 1 := by
  have hn : (0 : K) < (n : K) := by exact_mod_cast (by omega : 0 < n)
  refine ⟨div_nonneg (by exact_mod_cast Nat.zero_le i) hn.le, ?_⟩
  rw [div_lt_one hn]
  exact_mod_cast h

/-- every mesh point lies in `[0, 1) x [0, 1)`: the shift by a full lattice vector (`a = 1`, the perfect crystal
    again) is never generated. -/
theorem faultMesh_unit (n1 n2 : Nat) (p : K × K) (h : p ∈ faultMesh n1 n2) :
    0 ≤ p.1 ∧ p.1 < 1 ∧ 0 ≤ p.2 ∧ p.2 < 1 := by
  obtain ⟨i, hi, j, hj, rfl⟩ := (mem_faultMesh n1 n2 p).1 h
  exact ⟨(frac_unit i n1 hi).1, (frac_unit i n1 hi).2, (frac_unit j n2 hj).1, (frac_unit j n2 hj).2⟩

private theorem frac_inj (i i' n : Nat) (h : i < n) (e : (i : K) / (n : K) = (i' : K) / (n : K)) : i = i' := by
  have hn : (n : K) ≠ 0 := by exact_mod_cast (by omega : n ≠ 0)
  have := (div_left_inj' hn).1 e
  exact_mod_cast this

/-- every fault configuration of the map is generated once: the mesh points are pairwise distinct. -/
theorem faultMesh_nodup (n1 n2 : Nat) : (faultMesh (K := K) n1 n2).Nodup := by
  unfold faultMesh
  rw [List.nodup_flatMap]
  refine ⟨?_, ?_⟩
  · intro j hj
    refine List.Nodup.map_on ?_ (List.nodup_range)
    intro i hi i' hi' e
    simp only [Int.ofNat_eq_natCast, Int.cast_natCast, Prod.mk.injEq] at e
    exact frac_inj i i' n1 (List.mem_range.1 hi) e.1
  · refine List.Pairwise.imp_of_mem ?_ (List.nodup_range (n := n2))
    intro j j' hj hj' hne
    simp only [Function.onFun]
    rw [List.disjoint_iff_ne]
    intro p hp q hq e
    simp only [List.mem_map, List.mem_range, Int.ofNat_eq_natCast, Int.cast_natCast] at hp hq
    obtain ⟨i, hi, rfl⟩ := hp
    obtain ⟨i', hi', rfl⟩ := hq
    simp only [Prod.mk.injEq] at e
    exact hne (frac_inj j j' n2 (List.mem_range.1 hj) e.2)

private theorem mapM_ok_map {α β γ : Type} (f : α → Except String β) (g : α → γ) (h : β → γ)
    (hfg : ∀ a b, f a = .ok b → h b = g a) :
    ∀ (l : List α) (r : List β), l.mapM f = .ok r → r.map h = l.map g := by
  intro l
  induction l with
  | nil =>
    intro r hr
    simp only [List.mapM_nil, pure, Except.pure, Except.ok.injEq] at hr
    subst hr; rfl
  | cons a t ih =>
    intro r hr
    rw [List.mapM_cons] at hr
    cases hfa : f a with
    | error e => rw [hfa] at hr; simp [bind, Except.bind] at hr
    | ok b =>
      rw [hfa] at hr
      cases ht : t.mapM f with
      | error e => rw [ht] at hr; simp [bind, Except.bind] at hr
      | ok r' =>
        rw [ht] at hr
        simp only [bind, Except.bind, pure, Except.pure, Except.ok.injEq] at hr
        subst hr
        simp only [List.map_cons, hfg a b hfa, ih r' ht]

/-- a successful `iterfaultmap(num_a1, num_a2)` yields one configuration per mesh point, labelled with that
    point, in mesh order (`a2` outer, `a1` inner). -/
theorem iterFaultMap_mesh (st : SFStatic K) (o : SFState K) (a1v a2v : Option (V3 K)) (fpos : FaultPosArg K)
    (n1 n2 : Nat) (oop : Option K) (l : List (K × K × List (V3 K)))
    (h : (iterFaultMap st o a1v a2v fpos n1 n2 oop).2 = .ok l) :
    l.map (fun x => (x.1, x.2.1)) = faultMesh n1 n2 := by
  unfold iterFaultMap andThen at h
  split at h
  · simp at h
  · simp only at h
    have := mapM_ok_map
      (fun ab : K × K => (faultCore st _ (.coeffs (some ab.1) (some ab.2) oop)).map fun ps => (ab.1, ab.2, ps))
      (fun ab => ab) (fun x : K × K × List (V3 K) => (x.1, x.2.1)) ?_ (faultMesh n1 n2) l h
    · rw [this, List.map_id']
    · intro a b hab
      cases hc : faultCore st _ (FShiftArg.coeffs (some a.1) (some a.2) oop) with
      | error e => rw [hc] at hab; simp [Except.map] at hab
      | ok ps =>
        rw [hc] at hab
        simp only [Except.map, Except.ok.injEq] at hab
        subst hab; rfl

/-- ... hence exactly `num_a1 * num_a2` configurations. -/
theorem iterFaultMap_length (st : SFStatic K) (o : SFState K) (a1v a2v : Option (V3 K)) (fpos : FaultPosArg K)
    (n1 n2 : Nat) (oop : Option K) (l : List (K × K × List (V3 K)))
    (h : (iterFaultMap st o a1v a2v fpos n1 n2 oop).2 = .ok l) : l.length = n1 * n2 := by
  have := congrArg List.length (iterFaultMap_mesh st o a1v a2v fpos n1 n2 oop l h)
  rwa [List.length_map, faultMesh_length] at this

end mesh

section onelayer
variable {K : Type} [Field K] [LinearOrder K] [IsStrictOrderedRing K]

/-- a rotated cell whose atoms all share one layer, at any height `x`: exactly one shift is offered, the one
    computed from `x` and its periodic replica `x + W`. -/
theorem shifts_single_layer (x W tol : K) (htol : 0 ≤ tol) (hW : tol < W) :
    shifts [x] W tol = [relShift W (x + W / 2)] := by
  have hrep : withReplica [x] W tol = [x, x + W] := by
    unfold withReplica absLe
    simp only [List.head?_cons, List.getLast?_singleton]
    have h2 : x - x - W < -tol := by
      have : x - x - W = -W := by ring
      rw [this]; linarith
    simp [h2]
    exact fun _ => hW
  unfold shifts rawShifts
  rw [hrep]
  have hmid : mid (x, x + W) = x + W / 2 := by
    simp only [mid]; push_cast; ring
  simp [consec, sortAsc, insertAsc, hmid]

/-- that shift puts the lone layer exactly half a cell width from the cut (modulo the cell width): the cut is
    strictly between the layer and its periodic image, midway, wherever the atom sits in the cell. -/
theorem single_layer_centered (x W : K) :
    ∃ m : ℤ, x + relShift W (x + W / 2) = W / 2 + (m : K) * W := by
  unfold relShift
  simp only
  split_ifs
  · exact ⟨-1, by push_cast; ring⟩
  · exact ⟨1, by push_cast; ring⟩
  · exact ⟨0, by push_cast; ring⟩

example : shifts [(3 : ℚ) / 4] 3 (1 / 100000000) = [3 / 4] := by
  rw [shifts_single_layer _ _ _ (by norm_num) (by norm_num)]
  simp [relShift]; norm_num

end onelayer

/-! ## the multiplier along the cut: exactly as many cells as asked for -/

/-- the number of cells along the cut is EXACTLY the larger of the given multiplier and `q = ceil(minwidth / W)`,
    made even by adding one when `even` is asked for: never fewer, never more. -/
theorem cutMult_exact (m : ℤ) (hm : m ≠ 0) (q : ℤ) (even : Bool) :
    ((cutMult m (some q) even).natAbs : ℤ) =
      (if even = true ∧ (max (m.natAbs : ℤ) q) % 2 = 1 then max (m.natAbs : ℤ) q + 1 else max (m.natAbs : ℤ) q) := by
  rcases lt_or_gt_of_ne hm with hneg | hpos
  · have hs : Int.sign m = -1 := Int.sign_eq_neg_one_of_neg hneg
    cases even <;>
      simp only [cutMult, hs, Bool.false_eq_true, Bool.true_and, Bool.false_and, if_false, decide_eq_true_eq,
        false_and, true_and, if_false] <;>
      split_ifs <;> omega
  · have hs : Int.sign m = 1 := Int.sign_eq_one_of_pos hpos
    cases even <;>
      simp only [cutMult, hs, Bool.false_eq_true, Bool.true_and, Bool.false_and, if_false, decide_eq_true_eq,
        false_and, true_and, if_false] <;>
      split_ifs <;> omega

section width
variable {K : Type} [Field K] [LinearOrder K] [IsStrictOrderedRing K] [FloorRing K]

/-- with `q = ceil(minwidth / W)`: the slab is at least `minwidth` thick, and when `minwidth` (not the given
    multiplier, not `even`) decides, one cell fewer would be too thin - also when `minwidth` is an exact multiple of
    the cell width (`q` cells then, not `q + 1`). -/
theorem cutMult_minwidth (m : ℤ) (hm : m ≠ 0) (W mw : K) (hW : 0 < W) (even : Bool) :
    mw ≤ ((cutMult m (some ⌈mw / W⌉) even).natAbs : K) * W ∧
    (even = false → (m.natAbs : ℤ) < ⌈mw / W⌉ →
      (((cutMult m (some ⌈mw / W⌉) even).natAbs : K) - 1) * W < mw) := by
  have hx := cutMult_exact m hm ⌈mw / W⌉ even
  have hq : ⌈mw / W⌉ ≤ ((cutMult m (some ⌈mw / W⌉) even).natAbs : ℤ) := by
    rw [hx]
    split_ifs <;> have := le_max_right (m.natAbs : ℤ) ⌈mw / W⌉ <;> omega
  constructor
  · have h1 : mw / W ≤ (⌈mw / W⌉ : K) := Int.le_ceil _
    have h2 : ((⌈mw / W⌉ : ℤ) : K) ≤ (((cutMult m (some ⌈mw / W⌉) even).natAbs : ℤ) : K) := by exact_mod_cast hq
    have h3 : mw / W ≤ (((cutMult m (some ⌈mw / W⌉) even).natAbs : ℤ) : K) := le_trans h1 h2
    rw [div_le_iff₀ hW, Int.cast_natCast] at h3
    exact h3
  · intro he hlt
    subst he
    simp only [Bool.false_eq_true, false_and, if_false] at hx
    have hmax : max (m.natAbs : ℤ) ⌈mw / W⌉ = ⌈mw / W⌉ := max_eq_right hlt.le
    rw [hmax] at hx
    have h1 : ((⌈mw / W⌉ : ℤ) : K) - 1 < mw / W := by
      have := Int.ceil_lt_add_one (mw / W)
      linarith
    have h2 : (((cutMult m (some ⌈mw / W⌉) false).natAbs : ℤ) : K) = ((⌈mw / W⌉ : ℤ) : K) := by rw [hx]
    have h3 : (((cutMult m (some ⌈mw / W⌉) false).natAbs : K)) = ((⌈mw / W⌉ : ℤ) : K) := by
      rw [← Int.cast_natCast]; exact h2
    rw [h3]
    rw [lt_div_iff₀ hW] at h1
    exact h1

end width

example : cutMult 1 (some ⌈((6 : ℚ)) / 3⌉) false = 2 := by
  have : ⌈((6 : ℚ)) / 3⌉ = 2 := by norm_num [Int.ceil_eq_iff]
  rw [this]; decide

end Atomman.C14
