/-
  C11 — the setters and `transform` of the class in terms of the pure pieces: for an exactly symmetric input the
  assertions of the setters pass, so that `ElasticConstants(Cijkl=ec.Cijkl)` and `ElasticConstants(Cij9=ec.Cij9)`
  store what `ElasticConstants(Cij=ec.Cij)` stores, and `transform` is `rot` followed by the clean-up and the setter.
-/
import Proofs.C11_Lemmas
import Proofs.C11_Source

namespace Atomman.C11
open Atomman.Gen
set_option linter.unusedSectionVars false
set_option linter.unusedSimpArgs false
set_option linter.unusedVariables false
set_option linter.unnecessarySeqFocus false
set_option linter.unusedTactic false
set_option linter.unreachableTactic false

variable {K : Type} [Field K] [LinearOrder K] [IsStrictOrderedRing K]

theorem absK_nonneg (x : K) : 0 ≤ absK x := by
  unfold absK; split
  · rename_i h; simp only [Nat.cast_zero] at h; linarith
  · rename_i h; simp only [Nat.cast_zero, not_lt] at h; exact h

/-- `np.isclose(x, x)` holds for non-negative tolerances. -/
theorem isclose_self (rt at' x : K) (h1 : 0 ≤ rt) (h2 : 0 ≤ at') : isclose rt at' x x = true := by
  simp only [isclose, sub_self, decide_eq_true_eq]
  have h0 : absK (0 : K) = 0 := by simp [absK]
  have hx := absK_nonneg x
  rw [h0]; positivity

theorem npRtol_nonneg : (0 : K) ≤ npRtol := by unfold npRtol; positivity
theorem npAtol_nonneg : (0 : K) ≤ npAtol := by unfold npAtol; positivity
theorem cijSetSymAtol_nonneg : (0 : K) ≤ cijSetSymAtol := by unfold cijSetSymAtol; positivity
theorem cijklSetAtol_nonneg : (0 : K) ≤ cijklSetAtol := by unfold cijklSetAtol; positivity
theorem sijklSetAtol_nonneg : (0 : K) ≤ sijklSetAtol := by unfold sijklSetAtol; positivity

theorem one_le_maxK_one (x : K) : (1 : K) ≤ maxK ((1 : ℕ) : K) x := by
  unfold maxK; split
  · rename_i h; simp only [Nat.cast_one] at h; exact le_of_lt h
  · simp

/-- the (possibly magnitude-scaled) tolerance of the 4-index symmetry assertions is non-negative. -/
theorem checkAtol_nonneg (rel : Bool) (a : K) (ha : 0 ≤ a) (C : T4 K) : 0 ≤ checkAtol rel a C := by
  unfold checkAtol; split
  · exact mul_nonneg ha (le_trans zero_le_one (one_le_maxK_one _))
  · exact ha

/-! ### `value.max()` -/

theorem foldl_maxK_pos (xs : List K) (x : K) : 0 < xs.foldl maxK x ↔ 0 < x ∨ ∃ y ∈ xs, 0 < y := by
  induction xs generalizing x with
  | nil => simp
  | cons y ys ih =>
    simp only [List.foldl_cons, ih, List.mem_cons, exists_eq_or_imp]
    have : 0 < maxK x y ↔ 0 < x ∨ 0 < y := by
      unfold maxK; split
      · rename_i h; constructor
        · intro hy; exact Or.inr hy
        · rintro (hx | hy); exact lt_trans hx h; exact hy
      · rename_i h; rw [not_lt] at h; constructor
        · intro hx; exact Or.inl hx
        · rintro (hx | hy); exact hx; exact lt_of_lt_of_le hy h
    rw [this]; tauto

theorem maxList_pos (l : List K) : 0 < maxList l ↔ ∃ y ∈ l, 0 < y := by
  cases l with
  | nil => simp [maxList]
  | cons x xs => simp only [maxList, foldl_maxK_pos, List.mem_cons, exists_eq_or_imp]

theorem idx6_complete : ∀ p : Fin 6 × Fin 6, p ∈ idx6 := by decide
theorem idx4_complete : ∀ p : Fin 3 × Fin 3 × Fin 3 × Fin 3, p ∈ idx4 := by decide +kernel

theorem max6_pos (v : M6 K) : 0 < max6 v ↔ ∃ a b, 0 < v a b := by
  simp only [max6, maxList_pos, M6.toList, List.mem_map]
  constructor
  · rintro ⟨y, ⟨p, _, rfl⟩, hy⟩; exact ⟨p.1, p.2, hy⟩
  · rintro ⟨a, b, h⟩; exact ⟨v a b, ⟨(a, b), idx6_complete _, rfl⟩, h⟩

theorem max4_pos (C : T4 K) : 0 < max4 C ↔ ∃ i j k l, 0 < C i j k l := by
  simp only [max4, maxList_pos, T4.toList, List.mem_map]
  constructor
  · rintro ⟨y, ⟨p, _, rfl⟩, hy⟩; exact ⟨p.1, p.2.1, p.2.2.1, p.2.2.2, hy⟩
  · rintro ⟨i, j, k, l, h⟩; exact ⟨C i j k l, ⟨(i, j, k, l), idx4_complete _, rfl⟩, h⟩

theorem max4_cijklGet_pos (c : M6 K) : 0 < max4 (cijklGet c) ↔ 0 < max6 c := by
  rw [max4_pos, max6_pos]
  constructor
  · rintro ⟨i, j, k, l, h⟩; rw [cijklGet_eq] at h; exact ⟨_, _, h⟩
  · rintro ⟨a, b, h⟩
    refine ⟨(pairOf a).1, (pairOf a).2, (pairOf b).1, (pairOf b).2, ?_⟩
    rw [cijklGet_eq, voigt_pairOf, voigt_pairOf]; exact h

/-! ### the `Cij` setter on an exactly symmetric matrix -/

theorem zeroSmall_symm (mx : K) (v : M6 K) (h : Symm6 v) : Symm6 (zeroSmall mx v) := by
  intro a b; simp only [zeroSmall, h a b]

/-- symmetric input with a positive maximum: the assertions pass and the stored matrix is the input with
    the relatively tiny entries zeroed. -/
theorem setCij_of_symm (v : M6 K) (h : Symm6 v) (hpos : 0 < max6 v) :
    setCij v = .ok (zeroSmall (max6 v) v) := by
  have hz := zeroSmall_symm (max6 v) v h
  simp only [setCij, tab6_eq, Nat.cast_zero, hpos, not_true_eq_false, if_false]
  rw [if_pos]
  rw [List.all_eq_true]
  intro pq hpq
  have e := cij_set_checks_sound pq hpq
  rw [e]
  simp only
  rw [hz (fin6 pq.1.1) (fin6 pq.1.2)]
  exact isclose_self _ _ _ npRtol_nonneg cijSetSymAtol_nonneg

/-- whatever the `Cij` setter stores for a symmetric input is symmetric. -/
theorem setCij_symm (v z : M6 K) (h : Symm6 v) (hz : setCij v = .ok z) : Symm6 z := by
  by_cases hpos : 0 < max6 v
  · rw [setCij_of_symm v h hpos] at hz
    cases hz; exact zeroSmall_symm _ _ h
  · simp only [setCij, tab6_eq, Nat.cast_zero, hpos, not_false_eq_true, if_true] at hz
    cases hz

/-! ### round trips through the full setters -/

/-- `ElasticConstants(Cijkl=ec.Cijkl)` stores what `ElasticConstants(Cij=ec.Cij)` stores. -/
theorem setCijkl_cijklGet (c : M6 K) (h : Symm6 c) (hpos : 0 < max6 c) : setCijkl (cijklGet c) = setCij c := by
  have hm : 0 < max4 (cijklGet c) := (max4_cijklGet_pos c).mpr hpos
  have hraw : cijklSetRaw (cijklGet c) = c := by
    funext a b; rw [cijklSetRaw_eq, cijklGet_eq, voigt_pairOf, voigt_pairOf]
  have hchk : checks4 (checkAtol cijklSetAtolRel cijklSetAtol (cijklGet c)) (cijklGet c) cijklSetChecks = true := by
    rw [checks4, List.all_eq_true]
    intro pq hpq
    have e : at4 (cijklGet c) pq.1 = at4 (cijklGet c) pq.2 := by
      simp only [at4, cijklGet_eq]
      rcases cijkl_set_checks_sound pq hpq with ⟨e1, e2⟩ | ⟨e1, e2⟩
      · rw [e1, e2]
      · rw [e1, e2]; exact h _ _
    rw [e]; exact isclose_self _ _ _ npRtol_nonneg (checkAtol_nonneg _ _ cijklSetAtol_nonneg _)
  simp only [setCijkl, Nat.cast_zero, hm, decide_true, Bool.not_true, Bool.and_false, hchk, Bool.false_eq_true,
    if_false, hraw]

/-- `ElasticConstants(Sijkl=ec.Sijkl)` does what `ElasticConstants(Sij=ec.Sij)` does, for every symmetric
    compliance matrix of any magnitude: all 147 symmetry assertions hold for the getter's output and the weighted
    6x6 literal gives `Sij` back. -/
theorem setSijkl_sijklGet (inv : M6 K → Option (M6 K)) (s : M6 K) (h : Symm6 s) :
    setSijkl inv (sijklGet s) = setSij inv s := by
  have hraw : sijklSetRaw (sijklGet s) = s := by
    funext a b
    rw [sijklSetRaw_eq, sijklGet_eq, voigt_pairOf, voigt_pairOf]
    have := mult_ne_zero (K := K) a
    have := mult_ne_zero (K := K) b
    push_cast; field_simp
  have hchk : checks4 (checkAtol sijklSetAtolRel sijklSetAtol (sijklGet s)) (sijklGet s) sijklSetChecks = true := by
    rw [checks4, List.all_eq_true]
    intro pq hpq
    have e : at4 (sijklGet s) pq.1 = at4 (sijklGet s) pq.2 := by
      simp only [at4, sijklGet_eq]
      rcases sijkl_set_checks_sound pq hpq with ⟨e1, e2⟩ | ⟨e1, e2⟩
      · rw [e1, e2]
      · rw [e1, e2, h _ _, Nat.mul_comm]
    rw [e]; exact isclose_self _ _ _ npRtol_nonneg (checkAtol_nonneg _ _ sijklSetAtol_nonneg _)
  have hmax : sijklSetMaxAssert = false := rfl
  simp only [setSijkl, hmax, Bool.false_and, Bool.false_eq_true, if_false, hchk, Bool.not_true, hraw]

/-- `ElasticConstants(Cij9=ec.Cij9)` stores what `ElasticConstants(Cij=ec.Cij)` stores. -/
theorem setCij9_cij9Get (c : M6 K) (h : Symm6 c) : setCij9 (cij9Get c) = setCij c := by
  have hchk : cij9SetChecks.all (fun pq =>
      decide (cij9Get c (fin9 pq.1.1) (fin9 pq.1.2) = cij9Get c (fin9 pq.2.1) (fin9 pq.2.2))) = true := by
    rw [List.all_eq_true]
    intro pq hpq
    simp only [decide_eq_true_eq, cij9Get_eq, cijklGet_eq]
    rcases cij9_set_checks_sound pq hpq with ⟨e1, e2⟩ | ⟨e1, e2⟩
    · rw [e1, e2]; simp only; rw [voigt_symm]
    · rw [e1, e2]; simp only; rw [voigt_symm (pair9 (fin9 pq.2.2)).2]
  have hraw : (fun a b : Fin 6 => cij9Get c ⟨a.val, by omega⟩ ⟨b.val, by omega⟩) = c := by
    funext a b
    rw [cij9Get_eq, cijklGet_eq]
    have hp : ∀ a : Fin 6, pair9 ⟨a.val, by omega⟩ = pairOf a := by decide
    rw [hp a, hp b, voigt_pairOf, voigt_pairOf]
  simp only [setCij9, hchk, not_true_eq_false, if_false, cij9_set_slice, ne_eq, not_true_eq_false, hraw]

/-! ### `axes_check` and `transform` -/

/-- exactly orthonormal right-handed axes (row norms 1) pass `axes_check` unchanged. -/
theorem axesCheck_of_orthonormal (axes : M33 K) (norms : Fin 3 → K) (hn : ∀ i, norms i = 1)
    (ho : Orthogonal axes)
    (hr : axes 0 1 * axes 1 2 - axes 0 2 * axes 1 1 = axes 2 0 ∧ axes 0 2 * axes 1 0 - axes 0 0 * axes 1 2 = axes 2 1 ∧
      axes 0 0 * axes 1 1 - axes 0 1 * axes 1 0 = axes 2 2) :
    axesCheck axes norms = .ok axes := by
  have hu : (fun i j => axes i j / norms i) = axes := by funext i j; rw [hn i, div_one]
  have horth : ∀ i j, (sum3 fun k => axes i k * axes j k) = if i = j then 1 else 0 := by
    intro i j
    have := congrFun (congrFun ho i) j
    simpa [mmul, mtr, mone] using this
  have tol0 : (0 : K) ≤ axesCheckTol := by unfold axesCheckTol; positivity
  rw [axesCheck, gen_axesCheck_eq_model]
  simp only [axesCheckRef, hn, div_one]
  rw [if_neg, if_neg]
  · rw [not_not, List.all_eq_true]
    intro j _
    have : (if j.val = 0 then axes 0 1 * axes 1 2 - axes 0 2 * axes 1 1
        else if j.val = 1 then axes 0 2 * axes 1 0 - axes 0 0 * axes 1 2
        else axes 0 0 * axes 1 1 - axes 0 1 * axes 1 0) = axes 2 j := by
      fin_cases j <;> simp [hr.1, hr.2.1, hr.2.2]
    rw [this]; exact isclose_self _ _ _ npRtol_nonneg tol0
  · rw [not_not, List.all_eq_true]
    intro p _
    rw [horth p.1 p.2]
    simp only [Nat.cast_one, Nat.cast_zero]
    exact isclose_self _ _ _ npRtol_nonneg tol0

/-- `transform` is the tensor rotation `rot`, the relative clean-up and the `Cijkl` setter. -/
theorem transform_spec (tol : K) (axes : M33 K) (norms : Fin 3 → K) (c : M6 K) (T : M33 K)
    (hT : axesCheck axes norms = .ok T) :
    transform tol axes norms c
      = setCijkl (cleanT4 tol (max4 (rot T (cijklGet c))) (rot T (cijklGet c))) := by
  simp only [transform, hT, tab4_eq]

/-! ### completeness of the `Cijkl` setter's assertions -/

/-- canonical representative of an index quadruple: Voigt pairs ordered `ab` with `a ≤ b`, each pair `i ≤ j`. -/
def canon (t : Fin 3 × Fin 3 × Fin 3 × Fin 3) : Fin 3 × Fin 3 × Fin 3 × Fin 3 :=
  let a := voigt t.1 t.2.1
  let b := voigt t.2.2.1 t.2.2.2
  if a ≤ b then ((pairOf a).1, (pairOf a).2, (pairOf b).1, (pairOf b).2)
  else ((pairOf b).1, (pairOf b).2, (pairOf a).1, (pairOf a).2)

def toIdx (t : Fin 3 × Fin 3 × Fin 3 × Fin 3) : Idx4 := (t.1.val, t.2.1.val, t.2.2.1.val, t.2.2.2.val)

/-- every index quadruple is compared with its canonical representative by one of the unrolled assertions. -/
theorem cijkl_set_checks_cover : ∀ t : Fin 3 × Fin 3 × Fin 3 × Fin 3,
    canon t = t ∨ (toIdx (canon t), toIdx t) ∈ cijklSetChecks := by decide +kernel

theorem canon_symm : ∀ t : Fin 3 × Fin 3 × Fin 3 × Fin 3,
    canon (t.2.1, t.1, t.2.2.1, t.2.2.2) = canon t ∧ canon (t.1, t.2.1, t.2.2.2, t.2.2.1) = canon t ∧
    canon (t.2.2.1, t.2.2.2, t.1, t.2.1) = canon t := by decide +kernel

theorem at4_toIdx (C : T4 K) (t : Fin 3 × Fin 3 × Fin 3 × Fin 3) : at4 C (toIdx t) = C t.1 t.2.1 t.2.2.1 t.2.2.2 := by
  simp only [at4, toIdx, fin3_val]

/-- the assertions of the `Cijkl` setter are complete: a tensor that satisfies all of them exactly has the minor
    and the major symmetries. -/
theorem cijkl_setter_checks_complete (C : T4 K) (h : ∀ pq ∈ cijklSetChecks, at4 C pq.1 = at4 C pq.2) :
    MinorSymm C ∧ MajorSymm C := by
  have hc : ∀ t : Fin 3 × Fin 3 × Fin 3 × Fin 3,
      C t.1 t.2.1 t.2.2.1 t.2.2.2 = C (canon t).1 (canon t).2.1 (canon t).2.2.1 (canon t).2.2.2 := by
    intro t
    rcases cijkl_set_checks_cover t with e | e
    · rw [e]
    · have := h _ e
      simp only [at4_toIdx] at this
      exact this.symm
  refine ⟨fun i j k l => ⟨?_, ?_⟩, fun i j k l => ?_⟩
  · have h1 := hc (i, j, k, l); have h2 := hc (j, i, k, l)
    rw [(canon_symm (i, j, k, l)).1] at h2
    simp only at h1 h2; rw [h1, h2]
  · have h1 := hc (i, j, k, l); have h2 := hc (i, j, l, k)
    rw [(canon_symm (i, j, k, l)).2.1] at h2
    simp only at h1 h2; rw [h1, h2]
  · have h1 := hc (i, j, k, l); have h2 := hc (k, l, i, j)
    rw [(canon_symm (i, j, k, l)).2.2] at h2
    simp only at h1 h2; rw [h1, h2]

/-! ### the class invariant (stored 6x6 symmetric) is preserved by `transform` -/

theorem cleanT4_major (tol mx : K) (C : T4 K) (h : MajorSymm C) : MajorSymm (cleanT4 tol mx C) := by
  intro i j k l; simp only [cleanT4, h i j k l]

theorem cijklSetRaw_symm (C : T4 K) (h : MajorSymm C) : Symm6 (cijklSetRaw C) := by
  intro a b; rw [cijklSetRaw_eq, cijklSetRaw_eq]; exact h _ _ _ _

theorem setCijkl_symm (C : T4 K) (h : MajorSymm C) (z : M6 K) (hz : setCijkl C = .ok z) : Symm6 z := by
  unfold setCijkl at hz
  split at hz
  · cases hz
  · split at hz
    · cases hz
    · exact setCij_symm _ z (cijklSetRaw_symm C h) hz

theorem transform_symm6 (tol : K) (axes : M33 K) (norms : Fin 3 → K) (c z : M6 K) (hc : Symm6 c)
    (hz : transform tol axes norms c = .ok z) : Symm6 z := by
  unfold transform at hz
  split at hz
  · cases hz
  · rename_i T hT
    simp only [tab4_eq] at hz
    refine setCijkl_symm _ (cleanT4_major _ _ _ (rot_major T ?_)) z hz
    intro i j k l; simp only [cijklGet_eq]; exact hc _ _

/-! ### unit systems: the clean-up of `transform` is relative -/

theorem maxK_mul_left (a x y : K) (ha : 0 < a) : maxK (a * x) (a * y) = a * maxK x y := by
  unfold maxK
  by_cases h : x < y
  · have : a * x < a * y := mul_lt_mul_of_pos_left h ha
    simp [h, this]
  · have : ¬ a * x < a * y := fun h' => h (lt_of_mul_lt_mul_left h' (le_of_lt ha))
    simp [h, this]

theorem foldl_maxK_mul (a : K) (ha : 0 < a) (xs : List K) (x : K) :
    (xs.map (a * ·)).foldl maxK (a * x) = a * xs.foldl maxK x := by
  induction xs generalizing x with
  | nil => rfl
  | cons y ys ih => simp only [List.map_cons, List.foldl_cons, maxK_mul_left _ _ _ ha, ih]

theorem max4_smul (a : K) (ha : 0 < a) (C : T4 K) : max4 (fun i j k l => a * C i j k l) = a * max4 C := by
  have h : T4.toList (fun i j k l => a * C i j k l) = (T4.toList C).map (a * ·) := by
    simp only [T4.toList, List.map_map, Function.comp_def]
  rw [max4, h, max4]
  cases hC : T4.toList C with
  | nil => simp [T4.toList, idx4, idx3] at hC
  | cons x xs => simp only [List.map_cons, maxList, foldl_maxK_mul a ha]

theorem cleanT4_smul (tol a : K) (ha : 0 < a) (C : T4 K) (i j k l : Fin 3) :
    cleanT4 tol (max4 (fun i j k l => a * C i j k l)) (fun i j k l => a * C i j k l) i j k l
      = a * cleanT4 tol (max4 C) C i j k l := by
  simp only [cleanT4, max4_smul a ha, mul_div_mul_left _ _ (ne_of_gt ha)]
  split <;> simp

end Atomman.C11
