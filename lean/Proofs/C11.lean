/-
  C11 — property theorems about the elastic-constant model.  All tables, templates, formulas and the two
  `einsum`s are the *generated* ones (`Atomman/Generated/{VoigtTables,CrystalCij,IsoPairs}.lean`, rewritten from
  `atomman/core/ElasticConstants.py` on every run), so every theorem below is re-checked against the current source.
-/
import Proofs.C11_Lemmas

namespace Atomman.C11
open Atomman.Gen
set_option linter.unusedSectionVars false
set_option linter.unusedSimpArgs false
set_option linter.unusedVariables false

variable {K : Type} [Field K] [LinearOrder K] [IsStrictOrderedRing K]

/-! ## one tensor behind the 6x6, 9x9 and 3x3x3x3 stiffness representations -/

/-- the literal table of the `Cijkl` getter is the Voigt table. -/
theorem cijkl_table_is_voigt (c : M6 K) (i j k l : Fin 3) :
    cijklGet c i j k l = c (voigt i j) (voigt k l) := cijklGet_eq c i j k l

/-- the literal table of the `Cij9` getter: entry `(p, q)` is the tensor component of the index pairs
    `11 22 33 23 13 12 32 31 21`. -/
theorem cij9_table_is_voigt (c : M6 K) (p q : Fin 9) :
    cij9Get c p q = cijklGet c (pair9 p).1 (pair9 p).2 (pair9 q).1 (pair9 q).2 := cij9Get_eq c p q

/-- minor symmetries of `Cijkl` (for every stored 6x6). -/
theorem minor_symm (c : M6 K) : MinorSymm (cijklGet c) := by
  intro i j k l
  simp only [cijklGet_eq]
  exact ⟨by rw [voigt_symm i j], by rw [voigt_symm k l]⟩

/-- major symmetry of `Cijkl` for a symmetric stored 6x6 (the `Cij` setter asserts it). -/
theorem major_symm (c : M6 K) (h : Symm6 c) : MajorSymm (cijklGet c) := by
  intro i j k l
  simp only [cijklGet_eq]; exact h _ _

example : Symm6 (m6 (ctor_C11_C12_C44 (3 : ℚ) 1 2)) := by unfold Symm6; decide

/-- `Cij -> Cijkl -> Cij` (index part of the setter) is the identity. -/
theorem cijkl_roundtrip (c : M6 K) : cijklSetRaw (cijklGet c) = c := by
  funext a b
  rw [cijklSetRaw_eq, cijklGet_eq, voigt_pairOf, voigt_pairOf]

/-- `Cijkl -> Cij -> Cijkl` is the identity on tensors with the minor symmetries. -/
theorem cijkl_roundtrip' (C : T4 K) (h : MinorSymm C) : cijklGet (cijklSetRaw C) = C := by
  funext i j k l
  rw [cijklGet_eq, cijklSetRaw_eq]; exact minor_of_voigt C h i j k l

example : MinorSymm (cijklGet (m6 (ctor_C11_C12_C44 (3 : ℚ) 1 2))) := minor_symm _

/-! ## rotation is a group action -/

/-- `transform` with the identity axes. -/
theorem transform_id (C : T4 K) : rot mone C = C := rot_one C

/-- `T₂` after `T₁` is `T₂T₁`. -/
theorem transform_comp (T₂ T₁ : M33 K) (C : T4 K) : rot T₂ (rot T₁ C) = rot (mmul T₂ T₁) C := rot_comp T₂ T₁ C

/-- rotating back with the transposed (= inverse) axes. -/
theorem transform_inv (T : M33 K) (h : Orthogonal T) (C : T4 K) : rot (mtr T) (rot T C) = C := rot_inv h C

end Atomman.C11
