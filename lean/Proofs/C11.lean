/-
  C11 — property theorems about the elastic-constant model.  All tables, templates, formulas and the two
  `einsum`s are the *generated* ones (`Atomman/Generated/{VoigtTables,CrystalCij,IsoPairs}.lean`, rewritten from
  `atomman/core/ElasticConstants.py` on every run), so every theorem below is re-checked against the current source.

  `K` is any linearly ordered field.  The 6x6 inverse and the square roots are parameters with hypotheses.
-/
import Proofs.C11_Lemmas
import Proofs.C11_Crystal
import Proofs.C11_Iso
import Proofs.C11_Norm
import Proofs.C11_Reuss
import Proofs.C11_Setters
import Proofs.C11_Fixpoint
import Proofs.C11_Axes
import Proofs.C11_Init
import Proofs.C11_Cubic
import Proofs.C11_Hex

namespace Atomman.C11
open Atomman.Gen
set_option linter.unusedSectionVars false
set_option linter.unusedSimpArgs false
set_option linter.unusedVariables false
set_option linter.unnecessarySeqFocus false
set_option linter.unusedTactic false
set_option linter.unreachableTactic false

variable {K : Type} [Field K] [LinearOrder K] [IsStrictOrderedRing K]

/-! ## one tensor behind the 6x6, 9x9 and 3x3x3x3 representations -/

/-- the literal table of the `Cijkl` getter is the Voigt table. -/
theorem cijkl_table_is_voigt (c : M6 K) (i j k l : Fin 3) :
    cijklGet c i j k l = c (voigt i j) (voigt k l) := cijklGet_eq c i j k l

/-- the literal table of the `Cij9` getter: entry `(p, q)` is the tensor component of the index pairs
    `11 22 33 23 13 12 32 31 21`. -/
theorem cij9_table_is_voigt (c : M6 K) (p q : Fin 9) :
    cij9Get c p q = cijklGet c (pair9 p).1 (pair9 p).2 (pair9 q).1 (pair9 q).2 := cij9Get_eq c p q

/-- minor symmetries of `Cijkl` (for every stored 6x6). -/
theorem minor_symm (c : M6 K) : MinorSymm (cijklGet c) := cijklGet_minor c

/-- major symmetry of `Cijkl` for a symmetric stored 6x6 (the `Cij` setter asserts it). -/
theorem major_symm (c : M6 K) (h : Symm6 c) : MajorSymm (cijklGet c) := by
  intro i j k l
  simp only [cijklGet_eq]; exact h _ _

example : Symm6 (m6 (ctor_C11_C12_C44 (3 : ℚ) 1 2)) := by unfold Symm6; decide

/-- `Cij -> Cijkl -> Cij` (index part of the setter) is the identity. -/
theorem cijkl_roundtrip (c : M6 K) : cijklSetRaw (cijklGet c) = c := by
  funext a b
  rw [cijklSetRaw_eq, cijklGet_eq, voigt_pairOf, voigt_pairOf]

/-- `Cijkl -> Cij -> Cijkl` is the identity on tensors with the minor symmetries. -/
theorem cijkl_roundtrip' (C : T4 K) (h : MinorSymm C) : cijklGet (cijklSetRaw C) = C := by
  funext i j k l
  rw [cijklGet_eq, cijklSetRaw_eq]; exact minor_of_voigt C h i j k l

example : MinorSymm (cijklGet (m6 (ctor_C11_C12_C44 (3 : ℚ) 1 2))) := minor_symm _

/-- `Cij -> Cij9 -> Cij`: the upper-left 6x6 block of the 9x9 form is the stored matrix. -/
theorem cij9_roundtrip (c : M6 K) (a b : Fin 6) :
    cij9Get c ⟨a.val, by omega⟩ ⟨b.val, by omega⟩ = c a b := by
  rw [cij9Get_eq, cijklGet_eq]
  have h : ∀ a : Fin 6, pair9 ⟨a.val, by omega⟩ = pairOf a := by decide
  rw [h a, h b, voigt_pairOf, voigt_pairOf]

/-- the generated compliance weights: the getter divides by 1, 2, 4 and the setter multiplies by 1, 2, 4
    according to the number of shear indices. -/
theorem sijkl_weights (s : M6 K) (S : T4 K) :
    (∀ i j k l, sijklGet s i j k l = s (voigt i j) (voigt k l) / ((mult (voigt i j) * mult (voigt k l) : ℕ) : K)) ∧
    (∀ a b, sijklSetRaw S a b = ((mult a * mult b : ℕ) : K) * S (pairOf a).1 (pairOf a).2 (pairOf b).1 (pairOf b).2) :=
  ⟨sijklGet_eq s, sijklSetRaw_eq S⟩

/-- `Sij -> Sijkl -> Sij` is the identity. -/
theorem sijkl_roundtrip (s : M6 K) : sijklSetRaw (sijklGet s) = s := by
  funext a b
  rw [sijklSetRaw_eq, sijklGet_eq, voigt_pairOf, voigt_pairOf]
  have := mult_ne_zero (K := K) a
  have := mult_ne_zero (K := K) b
  push_cast; field_simp

/-- `Sijkl -> Sij -> Sijkl` is the identity on tensors with the minor symmetries. -/
theorem sijkl_roundtrip' (S : T4 K) (h : MinorSymm S) : sijklGet (sijklSetRaw S) = S := by
  funext i j k l
  rw [sijklGet_eq, sijklSetRaw_eq, minor_of_voigt S h i j k l]
  have := mult_ne_zero (K := K) (voigt i j)
  have := mult_ne_zero (K := K) (voigt k l)
  push_cast; field_simp

/-- the same linear stress-strain law in both pictures: `σ_ij = Σ_kl C_ijkl ε_kl` is `σ_a = Σ_b c_ab ε̂_b` with the
    engineering strains `ε̂_b = mult(b)·ε_b` (symmetric `ε`). -/
theorem hooke_voigt (c : M6 K) (e : M33 K) (he : ∀ i j, e i j = e j i) (i j : Fin 3) :
    (sum3 fun k => sum3 fun l => cijklGet c i j k l * e k l)
      = ∑ b : Fin 6, c (voigt i j) b * ((mult b : K) * e (pairOf b).1 (pairOf b).2) := hooke_voigt_aux c e he i j

/-- the inverse law `ε_ij = Σ_kl S_ijkl σ_kl` is `ε̂_a = mult(a)·ε_a = Σ_b s_ab σ_b` (symmetric `σ`):
    this is what the `/2`, `/4` and `2.`, `4.` weights are for. -/
theorem hooke_inverse_voigt (s : M6 K) (σ : M33 K) (hσ : ∀ i j, σ i j = σ j i) (i j : Fin 3) :
    (mult (voigt i j) : K) * (sum3 fun k => sum3 fun l => sijklGet s i j k l * σ k l) =
      ∑ b : Fin 6, s (voigt i j) b * σ (pairOf b).1 (pairOf b).2 := hooke_inverse_voigt_aux s σ hσ i j

/-- stiffness contracted with compliance is the symmetric identity: from `C·S = 1` (6x6),
    `Σ_kl C_ijkl S_klmn = ½(δ_im δ_jn + δ_in δ_jm)`. -/
theorem stiffness_compliance_identity (c s : M6 K)
    (hcs : ∀ a d : Fin 6, ∑ b, c a b * s b d = if a = d then 1 else 0) (i j m n : Fin 3) :
    (sum3 fun k => sum3 fun l => cijklGet c i j k l * sijklGet s k l m n)
      = ((if i = m ∧ j = n then 1 else 0) + (if i = n ∧ j = m then 1 else 0)) / 2 :=
  contraction_of_inverse c s hcs i j m n

example : ∀ a d : Fin 6, ∑ b, m6 (ctor_mu_K (2 : ℚ) 3) a b * isoS (2 : ℚ) 3 b d = if a = d then 1 else 0 :=
  iso_mul_isoS 2 3 (by norm_num) (by norm_num)

/-! ## rotation is a group action on the tensor -/

/-- what the generated `einsum`s compute: `C'_ijkl = Σ T_ig T_jh T_km T_ln C_ghmn`. -/
theorem transform_is_tensor_rotation (T : M33 K) (C : T4 K) (i j k l : Fin 3) :
    rot T C i j k l = ∑ g, ∑ h, ∑ m, ∑ n, T i g * T j h * C g h m n * (T k m * T l n) := rot_apply T C i j k l

/-- `transform` with the identity axes. -/
theorem transform_id (C : T4 K) : rot mone C = C := rot_one C

/-- `T₂` after `T₁` is `T₂T₁`. -/
theorem transform_comp (T₂ T₁ : M33 K) (C : T4 K) : rot T₂ (rot T₁ C) = rot (mmul T₂ T₁) C := rot_comp T₂ T₁ C

/-- rotating back with the transposed (= inverse) axes. -/
theorem transform_inv (T : M33 K) (h : Orthogonal T) (C : T4 K) : rot (mtr T) (rot T C) = C := rot_inv h C

example : Orthogonal (rotZ (3 / 5 : ℚ) (4 / 5)) := (rotZ_proper _ _ (by norm_num)).1

/-- the rotated tensor keeps the minor and major symmetries. -/
theorem transform_symm (T : M33 K) (C : T4 K) (hm : MinorSymm C) (hM : MajorSymm C) :
    MinorSymm (rot T C) ∧ MajorSymm (rot T C) := ⟨rot_minor T hm, rot_major T hM⟩

/-- the rotation is linear in the tensor (so a weak anisotropy `C₀ + ε·D` rotates to `rot C₀ + ε·rot D`: an
    isotropic part stays, the anisotropic part is rotated however small it is). -/
theorem transform_linear (T : M33 K) (a b : K) (C D : T4 K) (i j k l : Fin 3) :
    rot T (fun i j k l => a * C i j k l + b * D i j k l) i j k l = a * rot T C i j k l + b * rot T D i j k l := by
  simp only [rot, transC, transQ, sum3]
  ring

/-- unit systems: the same material expressed in other units (`a·C`, `a > 0`) is rotated and cleaned to `a` times
    the result — the rotation is homogeneous and the clean-up `|C/Cmax| < tol` is relative, so no entry is kept or
    dropped because of the size of the numbers.  (What `transform` hands to the `Cijkl` setter.) -/
theorem transform_unit_independent (tol a : K) (ha : 0 < a) (T : M33 K) (C : T4 K) (i j k l : Fin 3) :
    cleanT4 tol (max4 (rot T (fun i j k l => a * C i j k l))) (rot T (fun i j k l => a * C i j k l)) i j k l
      = a * cleanT4 tol (max4 (rot T C)) (rot T C) i j k l := by
  have h : rot T (fun i j k l => a * C i j k l) = fun i j k l => a * rot T C i j k l := by
    funext i j k l
    have := transform_linear T a 0 C C i j k l
    simpa using this
  rw [h]; exact cleanT4_smul tol a ha (rot T C) i j k l

/-- strain-energy density of a co-rotated strain: `ε' = T ε Tᵀ ⇒ ε' : C' : ε' = ε : C : ε`. -/
theorem energy_invariant (T : M33 K) (h : Orthogonal T) (C : T4 K) (e : M33 K) :
    energy (rot T C) (conj T e) = energy C e := energy_rot T h C e

/-- Voigt bulk and shear moduli of the rotated 6x6 equal those of the original (symmetric `c`, orthogonal `T`). -/
theorem voigt_moduli_invariant (c : M6 K) (hc : Symm6 c) (T : M33 K) (h : Orthogonal T) :
    bulkVoigt (cijklSetRaw (rot T (cijklGet c))) = bulkVoigt c ∧
    shearVoigt (cijklSetRaw (rot T (cijklGet c))) = shearVoigt c := by
  have hm := cijklGet_minor c
  have hM := major_symm c hc
  constructor
  · rw [bulkVoigt_eq_tr _ (rot_major T hM), tr1_rot T h, ← bulkVoigt_eq_tr _ hM, cijkl_roundtrip]
  · rw [shearVoigt_eq_tr _ (rot_minor T hm) (rot_major T hM), tr1_rot T h, tr2_rot T h,
      ← shearVoigt_eq_tr _ hm hM, cijkl_roundtrip]

/-- Reuss bulk and shear moduli: `s` a two-sided inverse of the symmetric `c`, `s'` any left inverse of the
    rotated 6x6 (what `np.linalg.inv` returns for it). -/
theorem reuss_moduli_invariant (c s s' : M6 K) (hc : Symm6 c)
    (hcs : ∀ a d : Fin 6, ∑ b, c a b * s b d = if a = d then 1 else 0)
    (hsc : ∀ a d : Fin 6, ∑ b, s a b * c b d = if a = d then 1 else 0)
    (T : M33 K) (h : Orthogonal T)
    (hs' : ∀ a d : Fin 6, ∑ b, s' a b * cijklSetRaw (rot T (cijklGet c)) b d = if a = d then 1 else 0) :
    bulkReuss s' = bulkReuss s ∧ shearReuss s' = shearReuss s := reuss_rot c s s' hc hcs hsc T h hs'

/-- ... hence the Hill averages. -/
theorem hill_moduli_invariant (c s s' : M6 K) (hc : Symm6 c)
    (hcs : ∀ a d : Fin 6, ∑ b, c a b * s b d = if a = d then 1 else 0)
    (hsc : ∀ a d : Fin 6, ∑ b, s a b * c b d = if a = d then 1 else 0)
    (T : M33 K) (h : Orthogonal T)
    (hs' : ∀ a d : Fin 6, ∑ b, s' a b * cijklSetRaw (rot T (cijklGet c)) b d = if a = d then 1 else 0) :
    bulkHill (cijklSetRaw (rot T (cijklGet c))) s' = bulkHill c s ∧
    shearHill (cijklSetRaw (rot T (cijklGet c))) s' = shearHill c s := by
  obtain ⟨v1, v2⟩ := voigt_moduli_invariant c hc T h
  obtain ⟨r1, r2⟩ := reuss_rot c s s' hc hcs hsc T h hs'
  simp only [bulkHill, shearHill, v1, v2, r1, r2, and_self]

/-- the compliance of the rotated stiffness is the rotated compliance tensor (in 6x6 form). -/
theorem compliance_transforms_as_tensor (c s : M6 K)
    (hcs : ∀ a d : Fin 6, ∑ b, c a b * s b d = if a = d then 1 else 0) (T : M33 K) (h : Orthogonal T) (a d : Fin 6) :
    ∑ b, cijklSetRaw (rot T (cijklGet c)) a b * sijklSetRaw (rot T (sijklGet s)) b d = if a = d then 1 else 0 :=
  rotated_inverse c s hcs T h a d

/-! ## the setters and `transform` of the class in terms of the pure pieces -/

/-- what the `Cij` setter stores for an exactly symmetric input is symmetric (so `major_symm` applies to every
    object built from symmetric data), and it is the input with the relatively tiny entries zeroed. -/
theorem cij_setter_symm (v : M6 K) (h : Symm6 v) :
    (0 < max6 v → setCij v = .ok (zeroSmall (max6 v) v)) ∧ (∀ z, setCij v = .ok z → Symm6 z) :=
  ⟨setCij_of_symm v h, fun z hz => setCij_symm v z h hz⟩

/-- `ElasticConstants(Sijkl=ec.Sijkl)` = `ElasticConstants(Sij=ec.Sij)` through the full `Sijkl` setter (all of its
    symmetry assertions, with their magnitude-scaled tolerance, pass for a symmetric compliance of any size). -/
theorem sijkl_setter_roundtrip (inv : M6 K → Option (M6 K)) (s : M6 K) (h : Symm6 s) :
    setSijkl inv (sijklGet s) = setSij inv s := setSijkl_sijklGet inv s h

/-- `ElasticConstants(Cijkl=ec.Cijkl)` and `ElasticConstants(Cij9=ec.Cij9)` pass all assertions and store what
    `ElasticConstants(Cij=ec.Cij)` stores. -/
theorem setter_roundtrips (c : M6 K) (h : Symm6 c) (hpos : 0 < max6 c) :
    setCijkl (cijklGet c) = setCij c ∧ setCij9 (cij9Get c) = setCij c :=
  ⟨setCijkl_cijklGet c h hpos, setCij9_cij9Get c h⟩

example : Symm6 (m6 (ctor_C11_C12_C44 (3 : ℚ) 1 2)) ∧ 0 < max6 (m6 (ctor_C11_C12_C44 (3 : ℚ) 1 2)) := by
  constructor
  · unfold Symm6; decide
  · rw [max6_pos]; exact ⟨0, 0, by decide⟩

/-- the assertions of the `Cijkl` setter are complete: a tensor satisfying all of them exactly has the minor and
    major symmetries (so every tensor the setter accepts is symmetric up to the `isclose` tolerance). -/
theorem cijkl_setter_complete (C : T4 K) (h : ∀ pq ∈ cijklSetChecks, at4 C pq.1 = at4 C pq.2) :
    MinorSymm C ∧ MajorSymm C := cijkl_setter_checks_complete C h

/-- the class invariant is preserved: whatever `transform` returns for a symmetric stored 6x6 is symmetric. -/
theorem transform_preserves_symmetry (tol : K) (axes : M33 K) (norms : Fin 3 → K) (c z : M6 K) (hc : Symm6 c)
    (hz : transform tol axes norms c = .ok z) : Symm6 z := transform_symm6 tol axes norms c z hc hz

/-- exactly orthonormal right-handed axes pass `axes_check` unchanged, and `transform` is then the tensor rotation
    `rot`, the relative clean-up and the `Cijkl` setter. -/
theorem transform_is_rot (tol : K) (axes : M33 K) (norms : Fin 3 → K) (c : M6 K) (hn : ∀ i, norms i = 1)
    (ho : Orthogonal axes)
    (hr : axes 0 1 * axes 1 2 - axes 0 2 * axes 1 1 = axes 2 0 ∧ axes 0 2 * axes 1 0 - axes 0 0 * axes 1 2 = axes 2 1 ∧
      axes 0 0 * axes 1 1 - axes 0 1 * axes 1 0 = axes 2 2) :
    transform tol axes norms c
      = setCijkl (cleanT4 tol (max4 (rot axes (cijklGet c))) (rot axes (cijklGet c))) :=
  transform_spec tol axes norms c axes (axesCheck_of_orthonormal axes norms hn ho hr)

/-! ## crystal systems: the generated template is fixed by the generating symmetry rotations -/

/-- isotropic: every orthogonal map. -/
theorem system_invariant_isotropic (lam mu : K) (T : M33 K) (h : Orthogonal T) :
    rot T (cijklGet (m6 (ctor_C12_C44 lam mu))) = cijklGet (m6 (ctor_C12_C44 lam mu)) := iso_invariant T h lam mu

/-- cubic: the four-fold axes `x`, `y`, `z` and the three-fold axis `[111]` (they generate the group `432`). -/
theorem system_invariant_cubic (C11 C12 C44 : K) :
    let C := cijklGet (m6 (ctor_C11_C12_C44 C11 C12 C44))
    rot R4z C = C ∧ rot R4x C = C ∧ rot R4y C = C ∧ rot R3d C = C :=
  ⟨cubic_R4z C11 C12 C44, cubic_R4x C11 C12 C44, cubic_R4y C11 C12 C44, cubic_R3d C11 C12 C44⟩

/-- hexagonal: *every* rotation about `z` (indeed every orthogonal map with third column `e_z`), and the
    two-fold axis `x`. -/
theorem system_invariant_hexagonal (C11 C12 C13 C33 C44 : K) :
    let C := cijklGet (m6 (ctor_C11_C12_C13_C33_C44 C11 C12 C13 C33 C44))
    (∀ c s : K, c * c + s * s = 1 → rot (rotZ c s) C = C) ∧ rot R2x C = C :=
  ⟨fun c s h => hex_invariant _ (rotZ_proper c s h).1 (rotZ_col c s) C11 C12 C13 C33 C44,
   hex_R2x C11 C12 C13 C33 C44⟩

/-- tetragonal (seven constants, classes 4, -4, 4/m): the four-fold axis `z`; with `C16` absent also the
    two-fold axis `x`. -/
theorem system_invariant_tetragonal (C11 C12 C13 C16 C33 C44 C66 : K) :
    rot R4z (cijklGet (m6 (ctor_C11_C12_C13_C16_C33_C44_C66 C11 C12 C13 C16 C33 C44 C66)))
      = cijklGet (m6 (ctor_C11_C12_C13_C16_C33_C44_C66 C11 C12 C13 C16 C33 C44 C66)) ∧
    (let C := cijklGet (m6 (ctor_C11_C12_C13_C33_C44_C66 C11 C12 C13 C33 C44 C66))
     rot R4z C = C ∧ rot R2x C = C) :=
  ⟨tetragonal7_R4z C11 C12 C13 C16 C33 C44 C66, tetragonal6_R4z C11 C12 C13 C33 C44 C66,
   tetragonal6_R2x C11 C12 C13 C33 C44 C66⟩

/-- rhombohedral (seven constants): the three-fold axis `z` (`cos = -1/2`, `sin = r/2`, `r² = 3`); with `C15`
    absent also the two-fold axis `x`. -/
theorem system_invariant_rhombohedral (C11 C12 C13 C14 C15 C33 C44 r : K) (hr : r * r = 3) :
    rot (rotZ (-1/2) (r/2)) (cijklGet (m6 (ctor_C11_C12_C13_C14_C15_C33_C44 C11 C12 C13 C14 C15 C33 C44)))
      = cijklGet (m6 (ctor_C11_C12_C13_C14_C15_C33_C44 C11 C12 C13 C14 C15 C33 C44)) ∧
    rot R2x (cijklGet (m6 (ctor_C11_C12_C13_C14_C33_C44 C11 C12 C13 C14 C33 C44)))
      = cijklGet (m6 (ctor_C11_C12_C13_C14_C33_C44 C11 C12 C13 C14 C33 C44)) :=
  ⟨rhombohedral_R3z C11 C12 C13 C14 C15 C33 C44 r hr, rhombohedral6_R2x C11 C12 C13 C14 C33 C44⟩

/-- the three-fold rotation used above is a proper rotation. -/
theorem three_fold_proper (r : K) (hr : r * r = 3) : ProperRot (rotZ (-1/2 : K) (r/2)) :=
  rotZ_proper _ _ (by linear_combination (1/4 : K) * hr)

/-- orthorhombic: the three two-fold axes. -/
theorem system_invariant_orthorhombic (C11 C12 C13 C22 C23 C33 C44 C55 C66 : K) :
    let C := cijklGet (m6 (ctor_C11_C12_C13_C22_C23_C33_C44_C55_C66 C11 C12 C13 C22 C23 C33 C44 C55 C66))
    rot R2x C = C ∧ rot R2y C = C ∧ rot R2z C = C :=
  ⟨orthorhombic_R2x C11 C12 C13 C22 C23 C33 C44 C55 C66, orthorhombic_R2y C11 C12 C13 C22 C23 C33 C44 C55 C66,
   orthorhombic_R2z C11 C12 C13 C22 C23 C33 C44 C55 C66⟩

/-- monoclinic (unique axis `y`): the two-fold axis `y`. -/
theorem system_invariant_monoclinic (C11 C12 C13 C15 C22 C23 C25 C33 C35 C44 C46 C55 C66 : K) :
    rot R2y (cijklGet (m6 (ctor_C11_C12_C13_C15_C22_C23_C25_C33_C35_C44_C46_C55_C66
        C11 C12 C13 C15 C22 C23 C25 C33 C35 C44 C46 C55 C66)))
      = cijklGet (m6 (ctor_C11_C12_C13_C15_C22_C23_C25_C33_C35_C44_C46_C55_C66
        C11 C12 C13 C15 C22 C23 C25 C33 C35 C44 C46 C55 C66)) :=
  monoclinic_R2y C11 C12 C13 C22 C23 C33 C44 C55 C66 C15 C25 C35 C46

/-- every crystal-system template is a symmetric 6x6 (so `major_symm`, `voigt_moduli_invariant`, … apply to it). -/
theorem templates_symmetric
    (C11 C12 C13 C14 C15 C16 C22 C23 C24 C25 C26 C33 C34 C35 C36 C44 C45 C46 C55 C56 C66 : K) :
    Symm6 (m6 (ctor_C11_C12_C44 C11 C12 C44)) ∧
    Symm6 (m6 (ctor_C11_C12_C13_C33_C44 C11 C12 C13 C33 C44)) ∧
    Symm6 (m6 (ctor_C11_C12_C13_C14_C15_C33_C44 C11 C12 C13 C14 C15 C33 C44)) ∧
    Symm6 (m6 (ctor_C11_C12_C13_C16_C33_C44_C66 C11 C12 C13 C16 C33 C44 C66)) ∧
    Symm6 (m6 (ctor_C11_C12_C13_C22_C23_C33_C44_C55_C66 C11 C12 C13 C22 C23 C33 C44 C55 C66)) ∧
    Symm6 (m6 (ctor_C11_C12_C13_C15_C22_C23_C25_C33_C35_C44_C46_C55_C66
      C11 C12 C13 C15 C22 C23 C25 C33 C35 C44 C46 C55 C66)) ∧
    Symm6 (m6 (ctor_C11_C12_C13_C14_C15_C16_C22_C23_C24_C25_C26_C33_C34_C35_C36_C44_C45_C46_C55_C56_C66
      C11 C12 C13 C14 C15 C16 C22 C23 C24 C25 C26 C33 C34 C35 C36 C44 C45 C46 C55 C56 C66)) :=
  ⟨cubic_symm C11 C12 C44, hexagonal_symm C11 C12 C13 C33 C44, rhombohedral_symm C11 C12 C13 C14 C15 C33 C44,
   tetragonal_symm C11 C12 C13 C16 C33 C44 C66, orthorhombic_symm C11 C12 C13 C22 C23 C33 C44 C55 C66,
   monoclinic_symm C11 C12 C13 C15 C22 C23 C25 C33 C35 C44 C46 C55 C66,
   triclinic_symm C11 C12 C13 C14 C15 C16 C22 C23 C24 C25 C26 C33 C34 C35 C36 C44 C45 C46 C55 C56 C66⟩

/-- the named constants are the Voigt components they are named after: `Cab` sits at `[a-1, b-1]` of the template
    (and `2 C66 = C11 - C12` where `C66` is dependent). -/
theorem named_constants_placed
    (C11 C12 C13 C14 C15 C16 C22 C23 C24 C25 C26 C33 C34 C35 C36 C44 C45 C46 C55 C56 C66 : K) :
    (let c := m6 (ctor_C11_C12_C44 C11 C12 C44); c 0 0 = C11 ∧ c 0 1 = C12 ∧ c 3 3 = C44) ∧
    (let c := m6 (ctor_C11_C12_C13_C33_C44 C11 C12 C13 C33 C44)
     c 0 0 = C11 ∧ c 0 1 = C12 ∧ c 0 2 = C13 ∧ c 2 2 = C33 ∧ c 3 3 = C44 ∧ 2 * c 5 5 = C11 - C12) ∧
    (let c := m6 (ctor_C11_C12_C13_C14_C15_C33_C44 C11 C12 C13 C14 C15 C33 C44)
     c 0 0 = C11 ∧ c 0 1 = C12 ∧ c 0 2 = C13 ∧ c 0 3 = C14 ∧ c 0 4 = C15 ∧ c 2 2 = C33 ∧ c 3 3 = C44 ∧
       2 * c 5 5 = C11 - C12) ∧
    (let c := m6 (ctor_C11_C12_C13_C16_C33_C44_C66 C11 C12 C13 C16 C33 C44 C66)
     c 0 0 = C11 ∧ c 0 1 = C12 ∧ c 0 2 = C13 ∧ c 0 5 = C16 ∧ c 2 2 = C33 ∧ c 3 3 = C44 ∧ c 5 5 = C66) ∧
    (let c := m6 (ctor_C11_C12_C13_C22_C23_C33_C44_C55_C66 C11 C12 C13 C22 C23 C33 C44 C55 C66)
     c 0 0 = C11 ∧ c 0 1 = C12 ∧ c 0 2 = C13 ∧ c 1 1 = C22 ∧ c 1 2 = C23 ∧ c 2 2 = C33 ∧ c 3 3 = C44 ∧ c 4 4 = C55 ∧
       c 5 5 = C66) ∧
    (let c := m6 (ctor_C11_C12_C13_C15_C22_C23_C25_C33_C35_C44_C46_C55_C66
       C11 C12 C13 C15 C22 C23 C25 C33 C35 C44 C46 C55 C66)
     c 0 0 = C11 ∧ c 0 1 = C12 ∧ c 0 2 = C13 ∧ c 0 4 = C15 ∧ c 1 1 = C22 ∧ c 1 2 = C23 ∧ c 1 4 = C25 ∧ c 2 2 = C33 ∧
       c 2 4 = C35 ∧ c 3 3 = C44 ∧ c 3 5 = C46 ∧ c 4 4 = C55 ∧ c 5 5 = C66) ∧
    (let c := m6 (ctor_C11_C12_C13_C14_C15_C16_C22_C23_C24_C25_C26_C33_C34_C35_C36_C44_C45_C46_C55_C56_C66
       C11 C12 C13 C14 C15 C16 C22 C23 C24 C25 C26 C33 C34 C35 C36 C44 C45 C46 C55 C56 C66)
     c 0 0 = C11 ∧ c 0 1 = C12 ∧ c 0 2 = C13 ∧ c 0 3 = C14 ∧ c 0 4 = C15 ∧ c 0 5 = C16 ∧ c 1 1 = C22 ∧ c 1 2 = C23 ∧
     c 1 3 = C24 ∧ c 1 4 = C25 ∧ c 1 5 = C26 ∧ c 2 2 = C33 ∧ c 2 3 = C34 ∧ c 2 4 = C35 ∧ c 2 5 = C36 ∧ c 3 3 = C44 ∧
     c 3 4 = C45 ∧ c 3 5 = C46 ∧ c 4 4 = C55 ∧ c 4 5 = C56 ∧ c 5 5 = C66) :=
  ⟨cubic_named C11 C12 C44, hexagonal_named C11 C12 C13 C33 C44, rhombohedral_named C11 C12 C13 C14 C15 C33 C44,
   tetragonal_named C11 C12 C13 C16 C33 C44 C66, orthorhombic_named C11 C12 C13 C22 C23 C33 C44 C55 C66,
   monoclinic_named C11 C12 C13 C15 C22 C23 C25 C33 C35 C44 C46 C55 C66,
   triclinic_named C11 C12 C13 C14 C15 C16 C22 C23 C24 C25 C26 C33 C34 C35 C36 C44 C45 C46 C55 C56 C66⟩

/-- all the rotations named above are proper rotations. -/
theorem generators_proper :
    ProperRot (R4z : M33 K) ∧ ProperRot (R4x : M33 K) ∧ ProperRot (R4y : M33 K) ∧ ProperRot (R3d : M33 K) ∧
    ProperRot (R2x : M33 K) ∧ ProperRot (R2y : M33 K) ∧ ProperRot (R2z : M33 K) ∧
    (∀ c s : K, c * c + s * s = 1 → ProperRot (rotZ c s)) :=
  ⟨R4z_proper, R4x_proper, R4y_proper, R3d_proper, R2x_proper, R2y_proper, R2z_proper, rotZ_proper⟩

/-- the rotations fixing a tensor form a group: closed under products and (for orthogonal maps) inverses, so the
    `system_invariant_*` theorems extend from the generators to the whole point group. -/
theorem invariance_group (C : T4 K) (A B : M33 K) (hA : rot A C = C) (hB : rot B C = C) :
    rot (mmul A B) C = C ∧ (Orthogonal A → rot (mtr A) C = C) := by
  constructor
  · rw [← rot_comp, hB, hA]
  · intro h
    have := rot_inv h C
    rwa [hA] at this

/-- the alternative input combinations of `hexagonal` describe the same tensor (`2 C66 = C11 - C12`). -/
theorem hexagonal_inputs_agree (C11 C12 C13 C33 C44 : K) :
    ctor_C11_C13_C33_C44_C66 C11 C13 C33 C44 ((C11 - C12) / 2) = ctor_C11_C12_C13_C33_C44 C11 C12 C13 C33 C44 ∧
    ctor_C12_C13_C33_C44_C66 C12 C13 C33 C44 ((C11 - C12) / 2) = ctor_C11_C12_C13_C33_C44 C11 C12 C13 C33 C44 := by
  constructor <;>
    (simp only [ctor_C11_C13_C33_C44_C66, ctor_C12_C13_C33_C44_C66, ctor_C11_C12_C13_C33_C44, Nat.cast_ofNat]
     congr 1 <;> (try ring_nf) <;> (congr 1 <;> ring))

/-- the alternative input combinations of `rhombohedral` (and an absent `C15`) describe the same tensor. -/
theorem rhombohedral_inputs_agree (C11 C12 C13 C14 C15 C33 C44 : K) :
    ctor_C11_C13_C14_C15_C33_C44_C66 C11 C13 C14 C15 C33 C44 ((C11 - C12) / 2)
      = ctor_C11_C12_C13_C14_C15_C33_C44 C11 C12 C13 C14 C15 C33 C44 ∧
    ctor_C12_C13_C14_C15_C33_C44_C66 C12 C13 C14 C15 C33 C44 ((C11 - C12) / 2)
      = ctor_C11_C12_C13_C14_C15_C33_C44 C11 C12 C13 C14 C15 C33 C44 ∧
    ctor_C11_C12_C13_C14_C15_C33_C44_C66 C11 C12 C13 C14 C15 C33 C44 ((C11 - C12) / 2)
      = ctor_C11_C12_C13_C14_C15_C33_C44 C11 C12 C13 C14 C15 C33 C44 ∧
    ctor_C11_C12_C13_C14_C33_C44 C11 C12 C13 C14 C33 C44
      = ctor_C11_C12_C13_C14_C15_C33_C44 C11 C12 C13 C14 0 C33 C44 := by
  refine ⟨?_, ?_, ?_, ?_⟩ <;>
    (simp only [ctor_C11_C13_C14_C15_C33_C44_C66, ctor_C12_C13_C14_C15_C33_C44_C66,
       ctor_C11_C12_C13_C14_C15_C33_C44_C66, ctor_C11_C12_C13_C14_C33_C44, ctor_C11_C12_C13_C14_C15_C33_C44,
       Nat.cast_ofNat, Nat.cast_zero, neg_zero]
     try (have e1 : C11 - 2 * ((C11 - C12) / 2) = C12 := by ring
          have e2 : 2 * ((C11 - C12) / 2) + C12 = C11 := by ring
          simp only [e1, e2]))

/-! ## the fifteen isotropic modulus pairs return `(λ+2μ, λ, μ)` for `0 ≤ ν < ½`, `μ > 0`
    (`0 ≤ λ`, `0 < μ`: see `iso_nu_range`); `E, ν, K, M` are the textbook moduli `isoE … isoM` -/

section iso
variable (lam mu : K) (hl : 0 ≤ lam) (hm : 0 < mu)
include hl hm

/-- `0 ≤ ν < ½` says exactly `0 ≤ λ` (given `μ > 0`). -/
theorem iso_range : (0 ≤ isoNu lam mu ∧ isoNu lam mu < 1 / 2) ∧ 0 < isoE lam mu ∧ 0 < isoK lam mu ∧ 0 < isoM lam mu :=
  ⟨(iso_nu_range lam mu hm (by positivity)).mpr hl, by unfold isoE; positivity, by unfold isoK; positivity,
   by unfold isoM; positivity⟩

theorem iso_pair_C11_C12 : ctor_C11_C12 (isoM lam mu) lam = isoC lam mu := by iso_close
theorem iso_pair_C11_C44 : ctor_C11_C44 (isoM lam mu) mu = isoC lam mu := by iso_close
theorem iso_pair_C11_K : ctor_C11_K (isoM lam mu) (isoK lam mu) = isoC lam mu := by iso_close
theorem iso_pair_C12_C44 : ctor_C12_C44 lam mu = isoC lam mu := by iso_close
theorem iso_pair_C12_K : ctor_C12_K lam (isoK lam mu) = isoC lam mu := by iso_close
theorem iso_pair_C44_K : ctor_C44_K mu (isoK lam mu) = isoC lam mu := by iso_close

theorem iso_pair_C11_nu : ctor_C11_nu (isoM lam mu) (isoNu lam mu) = isoC lam mu := by
  obtain ⟨hs, hm', h3, h4, e1, e2, e3⟩ := iso_aux lam mu hl hm
  show isoList _ _ _ = isoList _ _ _
  simp only [Nat.cast_ofNat, Nat.cast_one, e1, e3, isoM]
  congr 1 <;> (field_simp <;> ring)

theorem iso_pair_C44_nu : ctor_C44_nu mu (isoNu lam mu) = isoC lam mu := by
  obtain ⟨hs, hm', h3, h4, e1, e2, e3⟩ := iso_aux lam mu hl hm
  show isoList _ _ _ = isoList _ _ _
  simp only [Nat.cast_ofNat, Nat.cast_one, e1, e3, isoM]
  unfold isoNu
  congr 1 <;> (field_simp <;> ring)

theorem iso_pair_E_nu : ctor_E_nu (isoE lam mu) (isoNu lam mu) = isoC lam mu := by
  obtain ⟨hs, hm', h3, h4, e1, e2, e3⟩ := iso_aux lam mu hl hm
  show isoList _ _ _ = isoList _ _ _
  simp only [Nat.cast_ofNat, Nat.cast_one, e1, e2, e3, isoE]
  unfold isoNu
  congr 1 <;> (field_simp <;> ring)

theorem iso_pair_nu_K : ctor_nu_K (isoNu lam mu) (isoK lam mu) = isoC lam mu := by
  obtain ⟨hs, hm', h3, h4, e1, e2, e3⟩ := iso_aux lam mu hl hm
  show isoList _ _ _ = isoList _ _ _
  simp only [Nat.cast_ofNat, Nat.cast_one, e1, e2, e3, isoK]
  unfold isoNu
  congr 1 <;> (field_simp <;> ring)

theorem iso_pair_C44_E : ctor_C44_E mu (isoE lam mu) = isoC lam mu := by
  obtain ⟨hs, hm', h3, h4, e1, e2, e3⟩ := iso_aux lam mu hl hm
  have e : 3 * mu - isoE lam mu = mu * mu / (lam + mu) := by unfold isoE; field_simp; ring
  show isoList _ _ _ = isoList _ _ _
  simp only [Nat.cast_ofNat, Nat.cast_one, e]
  unfold isoE
  congr 1 <;> (field_simp <;> ring)

theorem iso_pair_E_K : ctor_E_K (isoE lam mu) (isoK lam mu) = isoC lam mu := by
  obtain ⟨hs, hm', h3, h4, e1, e2, e3⟩ := iso_aux lam mu hl hm
  have e : 9 * isoK lam mu - isoE lam mu = (3 * lam + 2 * mu) * (3 * lam + 2 * mu) / (lam + mu) := by
    unfold isoE isoK; field_simp; ring
  show isoList _ _ _ = isoList _ _ _
  simp only [Nat.cast_ofNat, Nat.cast_one, e]
  unfold isoE isoK
  congr 1 <;> (field_simp <;> ring)

/-- `(λ, ν)`: needs `ν ≠ 0`, i.e. `λ > 0` (at `ν = 0` the pair `(0, 0)` does not determine `μ`). -/
theorem iso_pair_C12_nu (hl' : 0 < lam) : ctor_C12_nu lam (isoNu lam mu) = isoC lam mu := by
  obtain ⟨hs, hm', h3, h4, e1, e2, e3⟩ := iso_aux lam mu hl hm
  have hl0 : lam ≠ 0 := hl'.ne'
  show isoList _ _ _ = isoList _ _ _
  simp only [Nat.cast_ofNat, Nat.cast_one, e3]
  unfold isoNu
  congr 1 <;> (field_simp <;> ring)

/-- `(M, E)`: `S` is the square root taken by the code (`S*S = radicand`, `S ≥ 0`). -/
theorem iso_pair_C11_E (S : K) (hS : S * S = ctor_C11_E_radicand0 (isoM lam mu) (isoE lam mu)) (hS0 : 0 ≤ S) :
    ctor_C11_E (isoM lam mu) (isoE lam mu) S = isoC lam mu := by
  obtain ⟨hs, hm', h3, h4, e1, e2, e3⟩ := iso_aux lam mu hl hm
  have hS' : S = lam * (3 * lam + 4 * mu) / (lam + mu) := by
    have h0 : 0 ≤ lam * (3 * lam + 4 * mu) / (lam + mu) := by positivity
    apply (mul_self_inj hS0 h0).mp
    rw [hS]; simp only [ctor_C11_E_radicand0, isoM, isoE, Nat.cast_ofNat]
    field_simp; ring
  subst hS'
  show isoList _ _ _ = isoList _ _ _
  simp only [isoE, isoM, Nat.cast_ofNat, Nat.cast_one]
  congr 1 <;> (field_simp <;> ring)

/-- `(λ, E)`: `R` is the square root taken by the code. -/
theorem iso_pair_C12_E (R : K) (hR : R * R = ctor_C12_E_radicand0 lam (isoE lam mu)) (hR0 : 0 ≤ R) :
    ctor_C12_E lam (isoE lam mu) R = isoC lam mu := by
  obtain ⟨hs, hm', h3, h4, e1, e2, e3⟩ := iso_aux lam mu hl hm
  have hR' : R = (3 * lam * lam + 4 * lam * mu + 2 * mu * mu) / (lam + mu) := by
    have h0 : 0 ≤ (3 * lam * lam + 4 * lam * mu + 2 * mu * mu) / (lam + mu) := by positivity
    apply (mul_self_inj hR0 h0).mp
    rw [hR]; simp only [ctor_C12_E_radicand0, isoE, Nat.cast_ofNat]
    field_simp; ring
  subst hR'
  show isoList _ _ _ = isoList _ _ _
  simp only [isoE, Nat.cast_ofNat, Nat.cast_one]
  congr 1 <;> (field_simp <;> ring)

end iso

/-- non-vacuity of the root hypotheses: `λ = 1`, `μ = 1` gives `M = 3`, `E = 5/2`, radicand `49/4`, `S = 7/2`. -/
example : (7 / 2 : ℚ) * (7 / 2) = ctor_C11_E_radicand0 (isoM (1 : ℚ) 1) (isoE 1 1) ∧ (0 : ℚ) ≤ 7 / 2 := by
  constructor
  · simp [ctor_C11_E_radicand0, isoM, isoE]; norm_num
  · norm_num

/-- the aliases `M`, `lambda`, `mu` run the same branches. -/
theorem iso_alias (a b r : K) :
    ctor_M_E a b r = ctor_C11_E a b r ∧ ctor_lambda_E a b r = ctor_C12_E a b r ∧ ctor_mu_E a b = ctor_C44_E a b ∧
    ctor_M_lambda a b = ctor_C11_C12 a b ∧ ctor_lambda_mu a b = ctor_C12_C44 a b ∧ ctor_mu_K a b = ctor_C44_K a b ∧
    ctor_M_nu a b = ctor_C11_nu a b ∧ ctor_lambda_nu a b = ctor_C12_nu a b ∧ ctor_mu_nu a b = ctor_C44_nu a b :=
  ⟨rfl, rfl, rfl, rfl, rfl, rfl, rfl, rfl, rfl⟩

/-! ## normalising to a crystal system is idempotent (the generated formulas; `s`, `s'` = 6x6 inverses) -/

theorem normalized_idem_triclinic (c : M6 K) :
    normalized_triclinic (m6 (normalized_triclinic c)) = normalized_triclinic c := by
  rw [m6_normalized_triclinic]

theorem normalized_idem_cubic (c : M6 K) : normalized_cubic (m6 (normalized_cubic c)) = normalized_cubic c :=
  norm_fix_cubic _ _ _

theorem normalized_idem_hexagonal (c : M6 K) :
    normalized_hexagonal (m6 (normalized_hexagonal c)) = normalized_hexagonal c := norm_fix_hexagonal _ _ _ _ _

theorem normalized_idem_tetragonal (c : M6 K) :
    normalized_tetragonal (m6 (normalized_tetragonal c)) = normalized_tetragonal c :=
  norm_fix_tetragonal _ _ _ _ _ _ _

theorem normalized_idem_rhombohedral (c : M6 K) :
    normalized_rhombohedral (m6 (normalized_rhombohedral c)) = normalized_rhombohedral c :=
  norm_fix_rhombohedral _ _ _ _ _ _ _

theorem normalized_idem_orthorhombic (c : M6 K) :
    normalized_orthorhombic (m6 (normalized_orthorhombic c)) = normalized_orthorhombic c :=
  norm_fix_orthorhombic _ _ _ _ _ _ _ _ _

theorem normalized_idem_monoclinic (c : M6 K) :
    normalized_monoclinic (m6 (normalized_monoclinic c)) = normalized_monoclinic c :=
  norm_fix_monoclinic _ _ _ _ _ _ _ _ _ _ _ _ _

/-- isotropic: `s` is whatever inverse was used the first time, `s'` a (left) inverse of the normalised 6x6;
    the Hill averages of the first pass must be non-zero (otherwise the normalised matrix has no inverse). -/
theorem normalized_idem_isotropic (c s s' : M6 K) (hmu : shearHill c s ≠ 0) (hK : bulkHill c s ≠ 0)
    (hinv : ∀ a d, ∑ b, s' a b * m6 (normalized_isotropic c s) b d = if a = d then 1 else 0) :
    normalized_isotropic (m6 (normalized_isotropic c s)) s' = normalized_isotropic c s :=
  norm_fix_isotropic _ _ hmu hK s' hinv

example : shearHill (m6 (ctor_mu_K (2 : ℚ) 3)) (isoS 2 3) ≠ 0 ∧ bulkHill (m6 (ctor_mu_K (2 : ℚ) 3)) (isoS 2 3) ≠ 0 := by
  obtain ⟨h1, h2⟩ := hill_of_iso (2 : ℚ) 3 (by norm_num) (by norm_num)
  rw [h1, h2]; constructor <;> norm_num

/-- a normalised tensor passes `is_normal` for its system (formula level: the comparison of
    `n = normalized(c)` with `normalized(n)` entry by entry). -/
theorem is_normal_of_normalized (rt at' : K) (h1 : 0 ≤ rt) (h2 : 0 ≤ at') (c : M6 K) (a b : Fin 6) :
    isclose rt at' (m6 (normalized_cubic c) a b) (m6 (normalized_cubic (m6 (normalized_cubic c))) a b) = true ∧
    isclose rt at' (m6 (normalized_hexagonal c) a b)
      (m6 (normalized_hexagonal (m6 (normalized_hexagonal c))) a b) = true ∧
    isclose rt at' (m6 (normalized_tetragonal c) a b)
      (m6 (normalized_tetragonal (m6 (normalized_tetragonal c))) a b) = true ∧
    isclose rt at' (m6 (normalized_rhombohedral c) a b)
      (m6 (normalized_rhombohedral (m6 (normalized_rhombohedral c))) a b) = true ∧
    isclose rt at' (m6 (normalized_orthorhombic c) a b)
      (m6 (normalized_orthorhombic (m6 (normalized_orthorhombic c))) a b) = true ∧
    isclose rt at' (m6 (normalized_triclinic c) a b)
      (m6 (normalized_triclinic (m6 (normalized_triclinic c))) a b) = true ∧
    isclose rt at' (m6 (normalized_monoclinic c) a b)
      (m6 (normalized_monoclinic (m6 (normalized_monoclinic c))) a b) = true := by
  rw [normalized_idem_cubic, normalized_idem_hexagonal, normalized_idem_tetragonal, normalized_idem_rhombohedral,
    normalized_idem_orthorhombic, normalized_idem_triclinic, normalized_idem_monoclinic]
  exact ⟨isclose_self _ _ _ h1 h2, isclose_self _ _ _ h1 h2, isclose_self _ _ _ h1 h2, isclose_self _ _ _ h1 h2,
    isclose_self _ _ _ h1 h2, isclose_self _ _ _ h1 h2, isclose_self _ _ _ h1 h2⟩

/-! ## the object: reads are pure and order-independent, setters overwrite -/

/-- a read leaves the stored matrix alone; a setter's effect does not depend on what was stored before. -/
theorem object_step (inv : M6 K → Option (M6 K)) (st st' : M6 K) (op : Op K) :
    (op.store? inv = none → (step inv st op).1 = st ∧ (step inv st op).2 = op.read inv st) ∧
    (∀ z, op.store? inv = some (.ok z) → (step inv st op).1 = z ∧ (step inv st' op).1 = z) ∧
    (∀ e, op.store? inv = some (.error e) → (step inv st op).1 = st ∧ (step inv st op).2 = .error e) := by
  refine ⟨fun h => ?_, fun z h => ?_, fun e h => ?_⟩ <;> simp [step, h]

/-- reads are pure: a sequence of reads leaves the stored matrix unchanged … -/
theorem object_reads_pure (inv : M6 K → Option (M6 K)) (st : M6 K) (ops : List (Op K))
    (h : ∀ o ∈ ops, o.store? inv = none) : finalState inv st ops = st := by
  induction ops generalizing st with
  | nil => rfl
  | cons o os ih =>
    have ho := h o (List.mem_cons_self ..)
    simp only [finalState, step, ho]
    exact ih st (fun o' ho' => h o' (List.mem_cons_of_mem _ ho'))

/-- … and each of them returns what it returns on a fresh object holding the same matrix, whatever was read
    before it and in whatever order: the observations are the pointwise reads of `st`. -/
theorem object_read_order (inv : M6 K → Option (M6 K)) (st : M6 K) (ops : List (Op K))
    (h : ∀ o ∈ ops, o.store? inv = none) : run inv st ops = ops.map (fun o => o.read inv st) := by
  induction ops generalizing st with
  | nil => rfl
  | cons o os ih =>
    have ho := h o (List.mem_cons_self ..)
    simp only [run, step, ho, List.map_cons]
    rw [ih st (fun o' ho' => h o' (List.mem_cons_of_mem _ ho'))]

/-- after a successful set, everything observed later is what a fresh object given the same value shows: the
    history before the set is forgotten. -/
theorem object_set_overwrites (inv : M6 K → Option (M6 K)) (st st' : M6 K) (op : Op K) (z : M6 K)
    (hz : op.store? inv = some (.ok z)) (ops : List (Op K)) :
    run inv st (op :: ops) = run inv st' (op :: ops) ∧ finalState inv st (op :: ops) = finalState inv st' (op :: ops) := by
  simp only [run, finalState, step, hz, and_self]

/-- a refused set changes nothing. -/
theorem object_refused_set (inv : M6 K → Option (M6 K)) (st : M6 K) (op : Op K) (e : String)
    (he : op.store? inv = some (.error e)) (ops : List (Op K)) :
    run inv st (op :: ops) = .error e :: run inv st ops ∧ finalState inv st (op :: ops) = finalState inv st ops := by
  simp only [run, finalState, step, he, and_self]

/-- **end to end**: `ElasticConstants(C11=, C12=, C44=).bulk(style)` is `(C11 + 2 C12)/3` for all three styles,
    whatever routine computes the compliance, as long as it returns a right inverse of the stored matrix. -/
theorem cubic_bulk_every_style (c11 c12 c44 : K) (h1 : c11 - c12 ≠ 0) (h2 : c11 + 2 * c12 ≠ 0) (h4 : c44 ≠ 0)
    (h3 : 4 * c44 + 3 * (c11 - c12) ≠ 0)
    (inv : M6 K → Option (M6 K)) (s : M6 K) (hinv : inv (m6 (ctor_C11_C12_C44 c11 c12 c44)) = some s)
    (hs : ∀ a d, ∑ b, m6 (ctor_C11_C12_C44 c11 c12 c44) a b * s b d = if a = d then 1 else 0) :
    ∀ style ∈ ["Voigt", "Reuss", "Hill"],
      estimate inv "bulk" style (m6 (ctor_C11_C12_C44 c11 c12 c44)) = .ok ((c11 + 2 * c12) / 3) := by
  have e := cubic_compliance_unique c11 c12 c44 h1 h2 h4 s hs
  subst e
  obtain ⟨hV, hR, hH, _, _⟩ := cubic_moduli c11 c12 c44 h1 h2 h4 h3
  intro style hst
  simp only [List.mem_cons, List.not_mem_nil, or_false] at hst
  rcases hst with rfl | rfl | rfl
  · simp [estimate, hV]
  · simp [estimate, hinv, tab6_eq, hR]
  · simp [estimate, hinv, tab6_eq, hH]

/-- the same for the shear estimates: Voigt `(C11 - C12 + 3 C44)/5`, Reuss `5 C44 (C11 - C12)/(4 C44 + 3 (C11 - C12))`,
    Hill their mean. -/
theorem cubic_shear_every_style (c11 c12 c44 : K) (h1 : c11 - c12 ≠ 0) (h2 : c11 + 2 * c12 ≠ 0) (h4 : c44 ≠ 0)
    (h3 : 4 * c44 + 3 * (c11 - c12) ≠ 0)
    (inv : M6 K → Option (M6 K)) (s : M6 K) (hinv : inv (m6 (ctor_C11_C12_C44 c11 c12 c44)) = some s)
    (hs : ∀ a d, ∑ b, m6 (ctor_C11_C12_C44 c11 c12 c44) a b * s b d = if a = d then 1 else 0) :
    let c := m6 (ctor_C11_C12_C44 c11 c12 c44)
    let gV := (c11 - c12 + 3 * c44) / 5
    let gR := 5 * c44 * (c11 - c12) / (4 * c44 + 3 * (c11 - c12))
    estimate inv "shear" "Voigt" c = .ok gV ∧ estimate inv "shear" "Reuss" c = .ok gR ∧
    estimate inv "shear" "Hill" c = .ok ((gV + gR) / 2) := by
  have e := cubic_compliance_unique c11 c12 c44 h1 h2 h4 s hs
  subst e
  obtain ⟨_, _, _, hV, hR⟩ := cubic_moduli c11 c12 c44 h1 h2 h4 h3
  refine ⟨?_, ?_, ?_⟩
  · simp [estimate, hV]
  · simp [estimate, hinv, tab6_eq, hR]
  · simp [estimate, hinv, tab6_eq, shearHill, hV, hR]

/-- non-vacuity: `C11 = 3, C12 = 1, C44 = 2` with the closed-form compliance as `inv`. -/
example : ∃ s : M6 ℚ, ∀ a d, ∑ b, m6 (ctor_C11_C12_C44 (3 : ℚ) 1 2) a b * s b d = if a = d then 1 else 0 :=
  ⟨cubicS 3 1 2, cubic_mul_cubicS 3 1 2 (by norm_num) (by norm_num) (by norm_num)⟩

/-! ## statement audit: non-vacuity of the rotation-invariance theorems on a NON-isotropic tensor and a NON-trivial rotation -/
section audit
open Matrix

/-- cubic `C11 = 3, C12 = 1, C44 = 2` (anisotropic: `2 C44 ≠ C11 - C12`), rotated by the 3-4-5 angle about z: the hypotheses
    of `reuss_moduli_invariant` / `hill_moduli_invariant` (two-sided inverse of `c`, a left inverse `s'` of the ROTATED
    stiffness) hold with `s' :=` the rotated closed-form compliance. -/
example : bulkReuss (sijklSetRaw (rot (rotZ (3 / 5 : ℚ) (4 / 5)) (sijklGet (cubicS 3 1 2)))) = bulkReuss (cubicS (3 : ℚ) 1 2) ∧
    shearReuss (sijklSetRaw (rot (rotZ (3 / 5 : ℚ) (4 / 5)) (sijklGet (cubicS 3 1 2)))) = shearReuss (cubicS (3 : ℚ) 1 2) := by
  have hcs := cubic_mul_cubicS (3 : ℚ) 1 2 (by norm_num) (by norm_num) (by norm_num)
  have hsc := cubicS_mul_cubic (3 : ℚ) 1 2 (by norm_num) (by norm_num) (by norm_num)
  have hO : Orthogonal (rotZ (3 / 5 : ℚ) (4 / 5)) := (rotZ_proper _ _ (by norm_num)).1
  have hr := compliance_transforms_as_tensor _ _ hcs _ hO
  have h1 : Matrix.of (cijklSetRaw (rot (rotZ (3 / 5 : ℚ) (4 / 5)) (cijklGet (m6 (ctor_C11_C12_C44 (3 : ℚ) 1 2)))))
      * Matrix.of (sijklSetRaw (rot (rotZ (3 / 5 : ℚ) (4 / 5)) (sijklGet (cubicS 3 1 2)))) = 1 := by
    ext a d; simp [Matrix.mul_apply, hr a d, Matrix.one_apply]
  have h2 := _root_.mul_eq_one_comm.mp h1
  refine reuss_moduli_invariant _ _ _ (by unfold Symm6; decide) hcs hsc _ hO ?_
  intro a d
  have := congrFun (congrFun h2 a) d
  simpa [Matrix.mul_apply, Matrix.one_apply] using this
-- the rotation really changes the 6x6 matrix (the instance is not the identity case): C16' ≠ 0 = C16
example : cijklSetRaw (rot (rotZ (3 / 5 : ℚ) (4 / 5)) (cijklGet (m6 (ctor_C11_C12_C44 (3 : ℚ) 1 2)))) 0 5 ≠ 0 := by
  decide +kernel

end audit

section audit2
-- `invariance_group`: the cubic tensor under the product of two of its four-fold rotations, and under an inverse
example : rot (mmul (R4z : M33 ℚ) R4x) (cijklGet (m6 (ctor_C11_C12_C44 (3 : ℚ) 1 2))) = cijklGet (m6 (ctor_C11_C12_C44 (3 : ℚ) 1 2)) :=
  (invariance_group _ R4z R4x (system_invariant_cubic (3 : ℚ) 1 2).1 (system_invariant_cubic (3 : ℚ) 1 2).2.1).1
-- `cijkl_setter_complete`: the checks of the setter hold on the tensor of a symmetric matrix
example : MinorSymm (cijklGet (m6 (ctor_C11_C12_C44 (3 : ℚ) 1 2))) ∧ MajorSymm (cijklGet (m6 (ctor_C11_C12_C44 (3 : ℚ) 1 2))) :=
  cijkl_setter_complete _ (by decide +kernel)
-- `setCij_idem`: what the setter stores for the cubic matrix is stored unchanged a second time
example : ∃ n, setCij (m6 (ctor_C11_C12_C44 (3 : ℚ) 1 2)) = .ok n ∧ setCij n = .ok n := by
  have hs : Symm6 (m6 (ctor_C11_C12_C44 (3 : ℚ) 1 2)) := by unfold Symm6; decide
  have h := (cij_setter_symm _ hs).1 (by decide +kernel)
  exact ⟨_, h, setCij_idem _ _ hs h⟩
-- `init_matrix_mixed_refused`: a matrix keyword together with a named constant
example : initRoute ["Cij", "C11"] = .assertFail :=
  init_matrix_mixed_refused _ (by decide) (by decide)
-- `object_set_overwrites` / `object_refused_set` / `object_reads_pure`: their hypotheses on concrete operations
example : (Op.putCij (m6 (ctor_C11_C12_C44 (3 : ℚ) 1 2))).store? (fun _ => none) = some (setCij (m6 (ctor_C11_C12_C44 (3 : ℚ) 1 2))) ∧
    (∀ o ∈ ([.getCij, .getCijkl, .est "bulk" "Voigt"] : List (Op ℚ)), o.store? (fun _ => none) = none) := by
  refine ⟨rfl, ?_⟩
  intro o ho
  simp at ho
  rcases ho with rfl | rfl | rfl <;> rfl
end audit2

end Atomman.C11
