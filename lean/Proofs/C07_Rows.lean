/-
  C07 — helper lemmas (row level): reading back the cells of a written table row, and what `tableRows` /
  `propCells` put into a row (ids, types, positions, converted properties).
-/
import Proofs.C07_Exp

namespace Atomman.C07
open Atomman
set_option linter.unusedSimpArgs false
set_option linter.unusedVariables false

/-! ### numbers and cells -/

theorem parseNum_fmtNum (f : Fmt) (q : ℚ) : parseNum? (fmtNum f q) = some (fmtVal f q) := by
  cases f with
  | fixed n => exact parseNum_fmtFixed q n
  | exp n => exact parseNum_fmtExp q n

theorem fixedVal_zero (n : Nat) : fixedVal 0 n = 0 := by
  have : roundDiv 0 1 = 0 := by decide
  simp [fixedVal, fixedScaled, this]

theorem fmtVal_zero (f : Fmt) : fmtVal f 0 = 0 := by
  cases f with
  | fixed n => exact fixedVal_zero n
  | exp n => simp [fmtVal, expVal]

theorem parseUnsigned_natTok (m : Nat) : parseUnsigned? (natTok m) = some ((m : Nat) : ℚ) := by
  have h := parseUnsigned_fixed m 0 0 (by norm_num)
  simpa using h

theorem parseNum_intTok (i : Int) : parseNum? (intTok i) = some (i : ℚ) := by
  unfold parseNum? intTok
  by_cases h : i < 0
  · rw [if_pos h, splitSign_minus]
    simp only [parseUnsigned_natTok, if_true, Option.some.injEq]
    exact (cast_of_nonpos i h.le).symm
  · rw [if_neg h, splitSign_of_digits _ (all_isDigit_natTok _)]
    simp only [parseUnsigned_natTok, Bool.false_eq_true, if_false, Option.some.injEq]
    exact (cast_of_nonneg i (not_lt.mp h)).symm

theorem parseNum_cellTok (f : Fmt) (c : Cell) : parseNum? (c.tok f) = some (c.val f) := by
  cases c with
  | int i => exact parseNum_intTok i
  | num q => exact parseNum_fmtNum f q

/-! ### `mapM` in `Option` and `Except` -/

theorem mapM_option_of_forall {α β : Type} (g : α → Option β) (v : α → β) (l : List α)
    (h : ∀ a ∈ l, g a = some (v a)) : l.mapM g = some (l.map v) := by
  induction l with
  | nil => rfl
  | cons a as ih =>
    rw [List.mapM_cons, h a (by simp), ih (fun b hb => h b (List.mem_cons_of_mem _ hb))]
    rfl

theorem mapM_parseNum_row (f : Fmt) (row : List Cell) :
    (row.map (Cell.tok f)).mapM parseNum? = some (row.map (Cell.val f)) := by
  induction row with
  | nil => rfl
  | cons c cs ih =>
    rw [List.map_cons, List.mapM_cons, parseNum_cellTok, ih]
    rfl

theorem mapM_except_ok {ε α β : Type} (g : α → Except ε β) (l : List α) (r : List β) :
    l.mapM g = .ok r ↔ List.Forall₂ (fun a b => g a = .ok b) l r := by
  induction l generalizing r with
  | nil =>
    simp only [List.mapM_nil, pure, Except.pure, Except.ok.injEq]
    constructor
    · intro h; subst h; exact List.Forall₂.nil
    · intro h; cases h; rfl
  | cons a as ih =>
    rw [List.mapM_cons]
    cases hg : g a with
    | error e =>
      simp only [bind, Except.bind]
      constructor
      · intro h; cases h
      · intro h; cases h with | cons h1 _ => rw [hg] at h1; cases h1
    | ok b =>
      simp only [bind, Except.bind]
      cases hm : as.mapM g with
      | error e =>
        simp only []
        constructor
        · intro h; cases h
        · intro h
          cases h with
          | cons h1 h2 =>
            have := (ih _).mpr h2
            rw [hm] at this; cases this
      | ok r' =>
        simp only [pure, Except.pure, Except.ok.injEq]
        constructor
        · intro h; subst h
          exact List.Forall₂.cons hg ((ih r').mp hm)
        · intro h
          cases h with
          | cons h1 h2 =>
            rw [hg] at h1
            injection h1 with h1
            have := (ih _).mpr h2
            rw [hm] at this
            injection this with this
            rw [h1, this]

theorem forall₂_range {β : Type} (P : Nat → β → Prop) (n : Nat) (r : List β)
    (h : List.Forall₂ P (List.range n) r) : r.length = n ∧ ∀ k (hk : k < r.length), P k r[k] := by
  have hl := h.length_eq
  simp only [List.length_range] at hl
  refine ⟨hl.symm, ?_⟩
  intro k hk
  have := List.forall₂_iff_get.mp h
  have h2 := this.2 k (by simp; omega) hk
  simpa using h2

/-! ### what a table row contains -/

/-- the rows of a successfully written table: one per atom; row `k` is the concatenation of the cells of every
    column for atom `k` followed by the extra cells. -/
theorem tableRows_spec (s : Sys) (u : Units) (ids : List Int) (pos : List (V3 ℚ)) (cols : List ColSpec)
    (extra : List (List Cell)) (rows : List (List Cell)) (h : tableRows s u ids pos cols extra = .ok rows) :
    rows.length = s.natoms ∧
    ∀ k (hk : k < rows.length), ∃ cells, List.Forall₂ (fun c cs => propCells s u ids pos c k = .ok cs) cols cells ∧
      rows[k] = cells.flatten ++ (extra[k]?).getD [] := by
  unfold tableRows at h
  have h2 := forall₂_range _ _ _ ((mapM_except_ok _ _ _).mp h)
  refine ⟨h2.1, ?_⟩
  intro k hk
  have h3 := h2.2 k hk
  cases hc : cols.mapM (propCells s u ids pos · k) with
  | error e => rw [hc] at h3; simp [bind, Except.bind] at h3
  | ok cells =>
    rw [hc] at h3
    simp only [bind, Except.bind, pure, Except.pure, Except.ok.injEq] at h3
    exact ⟨cells, (mapM_except_ok _ _ _).mp hc, h3.symm⟩

theorem propCells_id (s : Sys) (u : Units) (ids : List Int) (pos : List (V3 ℚ)) (c : ColSpec) (k : Nat)
    (hc : c.prop = "a_id" ∨ c.prop = "atom_id") (cs : List Cell) (h : propCells s u ids pos c k = .ok cs) :
    ∃ i, ids[k]? = some i ∧ cs = [.int i] := by
  unfold propCells at h
  rw [if_pos hc] at h
  cases hi : ids[k]? with
  | none => rw [hi] at h; cases h
  | some i =>
    rw [hi] at h
    simp only [pure, Except.pure, Except.ok.injEq] at h
    exact ⟨i, rfl, h.symm⟩

theorem propCells_atype (s : Sys) (u : Units) (ids : List Int) (pos : List (V3 ℚ)) (c : ColSpec) (k : Nat)
    (hc : c.prop = "atype") (cs : List Cell) (h : propCells s u ids pos c k = .ok cs) :
    ∃ t, s.atype[k]? = some t ∧ cs = [.int t] := by
  unfold propCells at h
  rw [if_neg (by rw [hc]; decide), if_pos hc] at h
  cases hi : s.atype[k]? with
  | none => rw [hi] at h; cases h
  | some i =>
    rw [hi] at h
    simp only [pure, Except.pure, Except.ok.injEq] at h
    exact ⟨i, rfl, h.symm⟩

theorem convert_kind_ok (u : Units) (kd : String) (q r : ℚ) (h : convert u (.kind kd) q = .ok r) :
    ∃ fo, u.factor? kd = some fo ∧ r = divBy fo q := by
  unfold convert at h
  simp only at h
  cases hf : u.factor? kd with
  | none => rw [hf] at h; cases h
  | some fo =>
    rw [hf] at h
    cases fo with
    | none => simp only [pure, Except.pure, Except.ok.injEq] at h; exact ⟨none, rfl, h.symm⟩
    | some x => simp only [pure, Except.pure, Except.ok.injEq] at h; exact ⟨some x, rfl, h.symm⟩

theorem isPosLike_pos : isPosLike "pos" = true := by decide

/-- the `pos` column (unit = a length): the three coordinates divided by the length unit. -/
theorem propCells_pos (s : Sys) (u : Units) (ids : List Int) (pos : List (V3 ℚ)) (c : ColSpec) (k : Nat)
    (hc : c.prop = "pos") (hu : c.unit = .kind "length") (cs : List Cell)
    (h : propCells s u ids pos c k = .ok cs) :
    ∃ p fo, pos[k]? = some p ∧ u.factor? "length" = some fo ∧
      cs = [.num (divBy fo p.x), .num (divBy fo p.y), .num (divBy fo p.z)] := by
  unfold propCells at h
  rw [if_neg (by rw [hc]; decide), if_neg (by rw [hc]; decide)] at h
  simp only [hc, isPosLike_pos, if_true] at h
  cases hp : pos[k]? with
  | none => rw [hp] at h; cases h
  | some p =>
    rw [hp] at h
    simp only [Option.map_some] at h
    split at h
    · cases h
    · rw [if_neg (by decide), hu] at h
      simp only [List.mapM_cons, List.mapM_nil, bind, Except.bind] at h
      cases hx : convert u (.kind "length") p.x with
      | error e => rw [hx] at h; cases h
      | ok x =>
        cases hy : convert u (.kind "length") p.y with
        | error e => rw [hx, hy] at h; cases h
        | ok y =>
          cases hz : convert u (.kind "length") p.z with
          | error e => rw [hx, hy, hz] at h; cases h
          | ok z =>
            rw [hx, hy, hz] at h
            simp only [pure, Except.pure, Except.ok.injEq, List.map_cons, List.map_nil] at h
            obtain ⟨fo, hfo, rfl⟩ := convert_kind_ok u _ _ _ hx
            obtain ⟨fo2, hfo2, rfl⟩ := convert_kind_ok u _ _ _ hy
            obtain ⟨fo3, hfo3, rfl⟩ := convert_kind_ok u _ _ _ hz
            rw [hfo] at hfo2 hfo3
            injection hfo2 with e2; injection hfo3 with e3
            subst e2; subst e3
            exact ⟨p, fo, rfl, hfo, h.symm⟩

/-- number of cells of one column = number of its names (for the one-cell id / type columns: when it has one name). -/
theorem propCells_length (s : Sys) (u : Units) (ids : List Int) (pos : List (V3 ℚ)) (c : ColSpec) (k : Nat)
    (h1 : (c.prop = "a_id" ∨ c.prop = "atom_id" ∨ c.prop = "atype") → c.names.length = 1)
    (cs : List Cell) (h : propCells s u ids pos c k = .ok cs) : cs.length = c.names.length := by
  by_cases hid : c.prop = "a_id" ∨ c.prop = "atom_id"
  · obtain ⟨i, _, rfl⟩ := propCells_id s u ids pos c k hid cs h
    rw [h1 (by tauto)]; rfl
  · by_cases hat : c.prop = "atype"
    · obtain ⟨i, _, rfl⟩ := propCells_atype s u ids pos c k hat cs h
      rw [h1 (by tauto)]; rfl
    · unfold propCells at h
      rw [if_neg hid, if_neg hat] at h
      simp only at h
      split at h
      · cases h
      · rename_i isInt v _
        split at h
        · cases h
        · rename_i hlen
          push Not at hlen
          split at h
          · simp only [pure, Except.pure, Except.ok.injEq] at h
            rw [← h, List.length_map, hlen]
          · split at h
            · simp only [pure, Except.pure, Except.ok.injEq] at h
              rw [← h, ← hlen]; rfl
            · cases h
          · simp only [bind, Except.bind] at h
            split at h
            · cases h
            · rename_i w hw
              simp only [pure, Except.pure, Except.ok.injEq] at h
              have := ((mapM_except_ok _ _ _).mp hw).length_eq
              rw [← h, List.length_map, ← this, hlen]

end Atomman.C07
