/-
  C01 — the float library routines (`(x)**0.5` / `np.linalg.norm`, `np.cos`, `np.arccos`, `np.pi`) as the parameter record
  `Trig K` of the model, what the theorems assume of them (`Trig.Spec`, satisfied by the real functions: `realTrig_spec` in
  Proofs/C01.lean), and the angle getter in degrees (`angleDeg_spec`).
-/
import Proofs.C01_Scale
import Mathlib.Tactic.Positivity
namespace Atomman.C01
open Atomman
set_option linter.unusedSimpArgs false
set_option linter.unusedSectionVars false
set_option linter.unusedVariables false
variable {K : Type} [Field K] [LinearOrder K] [IsStrictOrderedRing K]

/-- what the theorems assume of the float library routines (satisfied by the real functions: `realTrig_spec`). -/
structure Trig.Spec (T : Trig K) : Prop where
  sqrt_nonneg : ∀ x, 0 ≤ T.sqrt x
  sqrt_sq : ∀ x, 0 ≤ x → T.sqrt x * T.sqrt x = x
  sqrt_nonpos : ∀ x, x ≤ 0 → T.sqrt x = 0
  pi_pos : 0 < T.pi
  cos_range : ∀ x, -1 ≤ T.cos x ∧ T.cos x ≤ 1
  cos_right : T.cos (90 * T.pi / 180) = 0
  cos_acos : ∀ x, -1 ≤ x → x ≤ 1 → T.cos (T.acos x) = x
  acos_cos : ∀ x, 0 ≤ x → x ≤ T.pi → T.acos (T.cos x) = x
  acos_range : ∀ x, -1 < x → x < 1 → 0 < T.acos x ∧ T.acos x < T.pi

variable {T : Trig K}

theorem Trig.Spec.sqrt_mul_self (hT : T.Spec) (y : K) (hy : 0 ≤ y) : T.sqrt (y * y) = y := by
  have h1 := hT.sqrt_sq (y * y) (mul_self_nonneg y)
  have h2 := hT.sqrt_nonneg (y * y)
  have : (T.sqrt (y * y) - y) * (T.sqrt (y * y) + y) = 0 := by linear_combination h1
  rcases mul_eq_zero.mp this with h | h
  · linarith
  · have h3 : T.sqrt (y * y) = 0 := by linarith
    have h4 : y = 0 := by linarith
    rw [h3, h4]

theorem Trig.Spec.sqrt_pos (hT : T.Spec) (x : K) (hx : 0 < x) : 0 < T.sqrt x := by
  rcases (hT.sqrt_nonneg x).lt_or_eq with h | h
  · exact h
  · have := hT.sqrt_sq x hx.le
    rw [← h] at this; linarith

theorem Trig.Spec.pos_of_sqrt_pos (hT : T.Spec) (x : K) (h : 0 < T.sqrt x) : 0 < x := by
  by_contra hx
  rw [hT.sqrt_nonpos x (not_lt.mp hx)] at h
  exact lt_irrefl _ h

theorem normSq_nonneg (v : V3 K) : 0 ≤ V3.normSq v := by
  simp only [V3.normSq, V3.dot]
  exact add_nonneg (add_nonneg (mul_self_nonneg _) (mul_self_nonneg _)) (mul_self_nonneg _)

theorem lenOf_sq (hT : T.Spec) (v : V3 K) : lenOf T v * lenOf T v = V3.normSq v :=
  hT.sqrt_sq _ (normSq_nonneg v)

theorem lenOf_pos (hT : T.Spec) (v : V3 K) (h : 0 < V3.normSq v) : 0 < lenOf T v := hT.sqrt_pos _ h

theorem clampCos_id (c : K) (h1 : -1 ≤ c) (h2 : c ≤ 1) : clampCos c = c := by
  simp only [clampCos, not_lt.mpr h1, not_lt.mpr h2, if_false]

theorem clampCos_range (c : K) : -1 ≤ clampCos c ∧ clampCos c ≤ 1 := by
  simp only [clampCos]
  split
  · constructor <;> linarith
  · split
    · constructor <;> linarith
    · constructor <;> linarith

theorem lagrange (u v : V3 K) :
    V3.normSq u * V3.normSq v - V3.dot u v * V3.dot u v = V3.normSq (V3.cross u v) := by
  simp only [V3.normSq, V3.dot, V3.cross]; ring

/-- strict Cauchy–Schwarz: two non-parallel vectors make an angle strictly between 0 and 180 degrees. -/
theorem angleCos_strict (u v : V3 K) (n1 n2 : K) (h1 : 0 < n1) (h2 : 0 < n2)
    (hn1 : n1 * n1 = V3.normSq u) (hn2 : n2 * n2 = V3.normSq v) (hx : 0 < V3.normSq (V3.cross u v)) :
    -1 < angleCos u v n1 n2 ∧ angleCos u v n1 n2 < 1 := by
  have hs := angleCos_spec u v n1 n2 h1 h2
  have hp : 0 < n1 * n2 := mul_pos h1 h2
  have lag := lagrange u v
  have key : (angleCos u v n1 n2 * angleCos u v n1 n2) * ((n1 * n2) * (n1 * n2)) < 1 * ((n1 * n2) * (n1 * n2)) := by
    have e1 : (angleCos u v n1 n2 * angleCos u v n1 n2) * ((n1 * n2) * (n1 * n2)) = V3.dot u v * V3.dot u v := by
      rw [← hs]; ring
    have e2 : (n1 * n2) * (n1 * n2) = V3.normSq u * V3.normSq v := by rw [← hn1, ← hn2]; ring
    rw [e1, one_mul, e2]; linarith
  have hlt : angleCos u v n1 n2 * angleCos u v n1 n2 < 1 := lt_of_mul_lt_mul_right key (mul_pos hp hp).le
  constructor <;> nlinarith

theorem cross_pos_parts (u v : V3 K) (hx : 0 < V3.normSq (V3.cross u v)) : 0 < V3.normSq u ∧ 0 < V3.normSq v := by
  have lag := lagrange u v
  have hu := normSq_nonneg u
  have hv := normSq_nonneg v
  have hd : 0 ≤ V3.dot u v * V3.dot u v := mul_self_nonneg _
  have hp : 0 < V3.normSq u * V3.normSq v := by linarith
  constructor
  · rcases hu.lt_or_eq with h | h
    · exact h
    · rw [← h] at hp; simp at hp
  · rcases hv.lt_or_eq with h | h
    · exact h
    · rw [← h] at hp; simp at hp

/-- **angles in degrees**: for two non-parallel vectors the angle getter (`vect_angle`: norms, cosine, clamp, `arccos`, degrees)
    returns a number strictly between 0 and 180 whose `np.cos(· * np.pi / 180)` — what `set_abc` computes from it — is the cosine
    of the angle between the vectors. -/
theorem angleDeg_spec (hT : T.Spec) (u v : V3 K) (hx : 0 < V3.normSq (V3.cross u v)) :
    0 < angleDeg T u v ∧ angleDeg T u v < 180 ∧
    cosDeg T (angleDeg T u v) = angleCos u v (lenOf T u) (lenOf T v) ∧
    cosDeg T (angleDeg T u v) * (lenOf T u * lenOf T v) = V3.dot u v := by
  obtain ⟨hu, hv⟩ := cross_pos_parts u v hx
  have p1 := lenOf_pos hT u hu
  have p2 := lenOf_pos hT v hv
  obtain ⟨c1, c2⟩ := angleCos_strict u v _ _ p1 p2 (lenOf_sq hT u) (lenOf_sq hT v) hx
  have hcl := clampCos_id _ c1.le c2.le
  obtain ⟨a1, a2⟩ := hT.acos_range _ c1 c2
  have hpi := hT.pi_pos
  have hpine : T.pi ≠ 0 := ne_of_gt hpi
  have e : cosDeg T (angleDeg T u v) = angleCos u v (lenOf T u) (lenOf T v) := by
    simp only [cosDeg, angleDeg, hcl]
    have : 180 * T.acos (angleCos u v (lenOf T u) (lenOf T v)) / T.pi * T.pi / 180
        = T.acos (angleCos u v (lenOf T u) (lenOf T v)) := by field_simp
    rw [this, hT.cos_acos _ c1.le c2.le]
  refine ⟨?_, ?_, e, ?_⟩
  · simp only [angleDeg, hcl]; positivity
  · simp only [angleDeg, hcl]
    rw [div_lt_iff₀ hpi]; nlinarith
  · rw [e]; exact angleCos_spec u v _ _ p1 p2

end Atomman.C01
