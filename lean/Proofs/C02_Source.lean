/-
  C02 — the source tie: every definition of `Atomman/Generated/DvectSource.lean` (regenerated on each check from the
  current text of atomman/core/dvect.pyx, dmag.pyx, displacement.py, System.py) equals the hand-written model of
  `Atomman/Dvect.lean` / `Atomman/C02.lean`, for every scalar field.  A source edit that changes a loop bound, the nesting
  order, the skipped triple, the candidate formula, a squared length, the comparison, the broadcasting chain, an argument of
  a call, a refusal or the default breaks the named obligation here.
-/
import Atomman.C02
import Atomman.Generated.DvectSource
import Mathlib.Tactic.Ring
import Mathlib.Algebra.Order.Field.Basic
import Mathlib.Tactic.SplitIfs

set_option linter.unusedSectionVars false
set_option linter.unusedTactic false
set_option linter.unnecessarySeqFocus false

namespace Atomman.C02
open Atomman
namespace Source
open Atomman.Generated

variable {K : Type} [Field K] [LinearOrder K] [IsStrictOrderedRing K]

/-- a loop body that skips the triples satisfying `p` is the fold over the others. -/
theorem foldl_skip {α β : Type} (p : β → Prop) [DecidablePred p] (f : α → β → α) (L : List β) (init : α) :
    L.foldl (fun a s => if p s then a else f a s) init = (L.filter fun s => !decide (p s)).foldl f init := by
  induction L generalizing init with
  | nil => rfl
  | cons s L ih =>
    by_cases h : p s <;> simp [List.filter, h, ih]

/-- `dvect_c`: loop bounds, nesting order and the skipped triple give exactly `imageShifts`. -/
theorem gen_dvect_loop_eq_model (px py pz : Bool) :
    (DvectSource.dvectCLoop px py pz).filter (fun s => !decide (s.1 = 0 ∧ s.2.1 = 0 ∧ s.2.2 = 0)) = imageShifts px py pz := by
  cases px <;> cases py <;> cases pz <;> decide

theorem gen_dmag2_loop_eq_model (px py pz : Bool) :
    (DvectSource.dmag2CLoop px py pz).filter (fun s => !decide (s.1 = 0 ∧ s.2.1 = 0 ∧ s.2.2 = 0)) = imageShifts px py pz := by
  cases px <;> cases py <;> cases pz <;> decide

/-- `dvect_c`: the row before the loops is `pos_1 - pos_0`. -/
theorem gen_dvect_init_eq_model (p0 p1 : V3 K) (v : M3 K) (px py pz : Bool) :
    DvectSource.dvectCInit p0 p1 v px py pz = p1 - p0 := rfl

/-- `dvect_c`: candidate formula, both squared lengths, strict `<`, replacement of the whole row = `dvectStep`. -/
theorem gen_dvect_body_eq_model (p0 p1 : V3 K) (v : M3 K) (px py pz : Bool) (acc : V3 K) (s : Shift) :
    DvectSource.dvectCBody p0 p1 v px py pz acc s.1 s.2.1 s.2.2 =
      if s.1 = 0 ∧ s.2.1 = 0 ∧ s.2.2 = 0 then acc else dvectStep v (p1 - p0) acc s := rfl

/-- the compiled kernel `dvect_c`, as it stands in the source now, is the model `Atomman.dvect`. -/
theorem gen_dvectC_eq_model (p0 p1 : V3 K) (v : M3 K) (px py pz : Bool) :
    DvectSource.dvectC p0 p1 v px py pz = dvect v px py pz p0 p1 := by
  unfold DvectSource.dvectC dvect
  rw [← gen_dvect_loop_eq_model, gen_dvect_init_eq_model]
  rw [← foldl_skip (fun s : Shift => s.1 = 0 ∧ s.2.1 = 0 ∧ s.2.2 = 0) (dvectStep v (p1 - p0))]
  rfl

theorem gen_dmag2_init_eq_model (p0 p1 : V3 K) (v : M3 K) (px py pz : Bool) :
    DvectSource.dmag2CInit p0 p1 v px py pz = V3.normSq (p1 - p0) := rfl

theorem gen_dmag2_body_eq_model (p0 p1 : V3 K) (v : M3 K) (px py pz : Bool) (acc : K) (s : Shift) :
    DvectSource.dmag2CBody p0 p1 v px py pz acc s.1 s.2.1 s.2.2 =
      if s.1 = 0 ∧ s.2.1 = 0 ∧ s.2.2 = 0 then acc else
        (let t := V3.normSq (shiftBy v (p1 - p0) s); if t < acc then t else acc) := rfl

/-- the compiled kernel `dmag2_c` is the model `Atomman.dmag2`. -/
theorem gen_dmag2C_eq_model (p0 p1 : V3 K) (v : M3 K) (px py pz : Bool) :
    DvectSource.dmag2C p0 p1 v px py pz = dmag2 v px py pz p0 p1 := by
  unfold DvectSource.dmag2C dmag2
  rw [← gen_dmag2_loop_eq_model, gen_dmag2_init_eq_model]
  rw [← foldl_skip (fun s : Shift => s.1 = 0 ∧ s.2.1 = 0 ∧ s.2.2 = 0)
    (fun m s => let t := V3.normSq (shiftBy v (p1 - p0) s); if t < m then t else m)]
  rfl

/-- every real-valued variable of the two kernels is declared `double` (nothing is accumulated in single precision). -/
theorem gen_real_types_double :
    (DvectSource.realTypes_dvect_c ++ DvectSource.realTypes_dmag2_c).all
      (fun nt => nt.2 ∈ ["double", "double[:]", "double [:]", "double[:,:]", "const double[:,:]"]) = true := by decide

theorem flagAt_cons3 (a b c : Int) (rest : List Int) :
    flagAt (a :: b :: c :: rest) 0 = some (a != 0) ∧ flagAt (a :: b :: c :: rest) 1 = some (b != 0) ∧
    flagAt (a :: b :: c :: rest) 2 = some (c != 0) := by
  simp [flagAt]

theorem zipWith_const_left {α β γ : Type} (f : α → β → γ) (x : α) (l : List β) :
    List.zipWith f (l.map fun _ => x) l = l.map fun y => f x y := by
  induction l with
  | nil => rfl
  | cons y l ih => simp [ih]

theorem zipWith_const_right {α β γ : Type} (f : α → β → γ) (y : β) (l : List α) :
    List.zipWith f l (l.map fun _ => y) = l.map fun x => f x y := by
  induction l with
  | nil => rfl
  | cons x l ih => simp [ih]

theorem zipWith_eq_map_zip' {α β γ : Type} (f : α → β → γ) (l0 : List α) (l1 : List β) :
    List.zipWith f l0 l1 = (l0.zip l1).map fun pq => f pq.1 pq.2 := by
  induction l0 generalizing l1 with
  | nil => simp
  | cons x l0 ih => cases l1 <;> simp [ih]

/-- the argument handling of the wrappers, for any row kernel `f`, in the hand model's terms. -/
theorem wrap_rows {α : Type} (f : V3 K → V3 K → α) (l0 l1 : List (V3 K)) :
    ((if l0.length = 1 then ((PosArg.rows l0).bcast (.rows l1)).map fun t => (t, PosArg.rows l1)
      else if l1.length = 1 then ((PosArg.rows l1).bcast (.rows l0)).map fun t => (PosArg.rows l0, t)
      else if l0.length ≠ l1.length then Except.error "value"
      else Except.ok (PosArg.rows l0, PosArg.rows l1)) >>= fun pp => kernelCall f pp.1 pp.2) =
    match broadcast l0 l1 with
    | some r => Except.ok (r.map fun pq => f pq.1 pq.2)
    | none => Except.error "value" := by
  rcases l0 with _ | ⟨x, _ | ⟨x', t⟩⟩ <;> rcases l1 with _ | ⟨y, _ | ⟨y', t'⟩⟩ <;>
    simp [broadcast, PosArg.bcast, kernelCall, bind, Except.bind, Except.map, zipWith_eq_map_zip', Function.comp_def]
  · rw [← zipWith_eq_map_zip', zipWith_const_left]
  · rw [← zipWith_eq_map_zip', zipWith_const_right]
  · by_cases h : t.length = t'.length <;> simp [h]

/-- the broadcasting chain followed by the kernel call, for any row kernel. -/
def chain {α : Type} (f : V3 K → V3 K → α) (A B : PosArg K) : Except String (List α) :=
  (if A.len = 1 then (A.bcast B).map fun t => (t, B)
   else if B.len = 1 then (B.bcast A).map fun t => (A, t)
   else if A.len ≠ B.len then Except.error "value"
   else Except.ok (A, B)) >>= fun pp => kernelCall f pp.1 pp.2

theorem chain_rank3_left {α : Type} (f : V3 K → V3 K → α) (n : Nat) (B : PosArg K) (hB : 2 ≤ B.ndim) :
    chain f (.rank3 n) B = .error "value" := by
  cases B with
  | scalar => simp [PosArg.ndim] at hB
  | flat q => simp [PosArg.ndim] at hB
  | rows l =>
    rcases n with _ | _ | n <;> rcases l with _ | ⟨y, _ | ⟨y', t'⟩⟩ <;>
      simp [chain, PosArg.len, PosArg.bcast, kernelCall, bind, Except.bind, Except.map] <;> (first | rfl | (split_ifs <;> rfl))
  | rank3 m =>
    rcases n with _ | _ | n <;> rcases m with _ | _ | m <;>
      simp [chain, PosArg.len, PosArg.bcast, kernelCall, bind, Except.bind, Except.map] <;> (first | rfl | (split_ifs <;> rfl))

theorem chain_rank3_right {α : Type} (f : V3 K → V3 K → α) (n : Nat) (A : PosArg K) (hA : 2 ≤ A.ndim) :
    chain f A (.rank3 n) = .error "value" := by
  cases A with
  | scalar => simp [PosArg.ndim] at hA
  | flat q => simp [PosArg.ndim] at hA
  | rows l =>
    rcases n with _ | _ | n <;> rcases l with _ | ⟨y, _ | ⟨y', t'⟩⟩ <;>
      simp [chain, PosArg.len, PosArg.bcast, kernelCall, bind, Except.bind, Except.map] <;> (first | rfl | (split_ifs <;> rfl))
  | rank3 m => exact chain_rank3_left f m (.rank3 n) (by simp [PosArg.ndim])

theorem gen_dvectWrap_eq_model (v : M3 K) (a b c : Int) (rest : List Int) (a0 a1 : PosArg K) :
    DvectSource.dvectWrap v (a :: b :: c :: rest) a0 a1 = dvectApi v (a :: b :: c :: rest) a0 a1 := by
  obtain ⟨h0, h1, h2⟩ := flagAt_cons3 a b c rest
  unfold DvectSource.dvectWrap dvectApi
  simp only [h0, h1, h2, apiFlags, gen_dvectC_eq_model]
  cases a0 with
  | scalar => cases a1 <;> rfl
  | rank3 n =>
    cases a1 with
    | scalar => rfl
    | flat q => exact (chain_rank3_left _ n (.rows [q]) (by simp [PosArg.ndim])).trans rfl
    | rows l => exact (chain_rank3_left _ n (.rows l) (by simp [PosArg.ndim])).trans rfl
    | rank3 m => exact (chain_rank3_left _ n (.rank3 m) (by simp [PosArg.ndim])).trans rfl
  | flat p =>
    cases a1 with
    | scalar => rfl
    | rank3 n => exact (chain_rank3_right _ n (.rows [p]) (by simp [PosArg.ndim])).trans rfl
    | flat q => exact (wrap_rows _ [p] [q]).trans rfl
    | rows l => exact (wrap_rows _ [p] l).trans rfl
  | rows l0 =>
    cases a1 with
    | scalar => rfl
    | rank3 n => exact (chain_rank3_right _ n (.rows l0) (by simp [PosArg.ndim])).trans rfl
    | flat q => exact (wrap_rows _ l0 [q]).trans (by cases h : broadcast l0 [q] <;> simp [apiPairs, h])
    | rows l1 => exact (wrap_rows _ l0 l1).trans (by cases h : broadcast l0 l1 <;> simp [apiPairs, h])


/-- the wrapper `dmag` (before its `** 0.5`), as it stands in the source now, is the hand model `dmag2Api`. -/
theorem gen_dmagWrap_eq_model (v : M3 K) (a b c : Int) (rest : List Int) (a0 a1 : PosArg K) :
    DvectSource.dmagWrap v (a :: b :: c :: rest) a0 a1 = dmag2Api v (a :: b :: c :: rest) a0 a1 := by
  obtain ⟨h0, h1, h2⟩ := flagAt_cons3 a b c rest
  unfold DvectSource.dmagWrap dmag2Api
  simp only [h0, h1, h2, apiFlags, gen_dmag2C_eq_model]
  cases a0 with
  | scalar => cases a1 <;> rfl
  | rank3 n =>
    cases a1 with
    | scalar => rfl
    | flat q => exact (chain_rank3_left _ n (.rows [q]) (by simp [PosArg.ndim])).trans rfl
    | rows l => exact (chain_rank3_left _ n (.rows l) (by simp [PosArg.ndim])).trans rfl
    | rank3 m => exact (chain_rank3_left _ n (.rank3 m) (by simp [PosArg.ndim])).trans rfl
  | flat p =>
    cases a1 with
    | scalar => rfl
    | rank3 n => exact (chain_rank3_right _ n (.rows [p]) (by simp [PosArg.ndim])).trans rfl
    | flat q => exact (wrap_rows _ [p] [q]).trans rfl
    | rows l => exact (wrap_rows _ [p] l).trans rfl
  | rows l0 =>
    cases a1 with
    | scalar => rfl
    | rank3 n => exact (chain_rank3_right _ n (.rows l0) (by simp [PosArg.ndim])).trans rfl
    | flat q => exact (wrap_rows _ l0 [q]).trans (by cases h : broadcast l0 [q] <;> simp [apiPairs, h])
    | rows l1 => exact (wrap_rows _ l0 l1).trans (by cases h : broadcast l0 l1 <;> simp [apiPairs, h])

/-- the API model on two `(n,3)` arrays and a three-flag array is the older array-level model. -/
theorem dvectApi_rows (v : M3 K) (px py pz : Bool) (atoms : List (V3 K)) (l0 l1 : List (V3 K)) :
    dvectApi v (Sys.flags ⟨v, px, py, pz, atoms⟩) (.rows l0) (.rows l1) =
      match dvectArr v px py pz l0 l1 with
      | some r => .ok r
      | none => .error "value" := by
  cases px <;> cases py <;> cases pz <;>
    (cases h : broadcast l0 l1 <;> simp [dvectApi, apiPairs, apiFlags, Sys.flags, dvectArr, h])

theorem dmag2Api_rows (v : M3 K) (px py pz : Bool) (atoms : List (V3 K)) (l0 l1 : List (V3 K)) :
    dmag2Api v (Sys.flags ⟨v, px, py, pz, atoms⟩) (.rows l0) (.rows l1) =
      match dmag2Arr v px py pz l0 l1 with
      | some r => .ok r
      | none => .error "value" := by
  cases px <;> cases py <;> cases pz <;>
    (cases h : broadcast l0 l1 <;> simp [dmag2Api, apiPairs, apiFlags, Sys.flags, dmag2Arr, h])

theorem decide_len_eq_beq (n : Nat) : decide (n = 1) = (n == 1) := by
  by_cases h : n = 1 <;> simp [h]

/-- `System.dvect` as it stands in the source now (dispatch of both arguments, the wrapper with `self.box`, `self.pbc`,
    the `len == 1` squeeze) is the hand model `sysDvect`. -/
theorem gen_sysDvect_eq_model (atoms : List (V3 K)) (v : M3 K) (px py pz : Bool) (s0 s1 : Sel K) :
    DvectSource.sysDvect atoms v px py pz s0 s1 = sysDvect atoms v px py pz s0 s1 := by
  unfold DvectSource.sysDvect sysDvect
  cases hs : selectBoth atoms s0 s1 with
  | error e => rfl
  | ok ab =>
    obtain ⟨l0, l1⟩ := ab
    have hw := gen_dvectWrap_eq_model v (if px then 1 else 0) (if py then 1 else 0) (if pz then 1 else 0) []
      (.rows l0) (.rows l1)
    have hf : Sys.flags (⟨v, px, py, pz, atoms⟩ : Sys K) = [if px then 1 else 0, if py then 1 else 0, if pz then 1 else 0] := rfl
    simp only [bind, Except.bind, hf, hw]
    rw [← hf, dvectApi_rows]
    cases dvectArr v px py pz l0 l1 <;> simp [Except.map, squeeze, pure, Except.pure, throw, throwThe, MonadExceptOf.throw, decide_len_eq_beq]

theorem gen_sysDmag_eq_model (atoms : List (V3 K)) (v : M3 K) (px py pz : Bool) (s0 s1 : Sel K) :
    DvectSource.sysDmag atoms v px py pz s0 s1 = sysDmag2 atoms v px py pz s0 s1 := by
  unfold DvectSource.sysDmag sysDmag2
  cases hs : selectBoth atoms s0 s1 with
  | error e => rfl
  | ok ab =>
    obtain ⟨l0, l1⟩ := ab
    have hw := gen_dmagWrap_eq_model v (if px then 1 else 0) (if py then 1 else 0) (if pz then 1 else 0) []
      (.rows l0) (.rows l1)
    have hf : Sys.flags (⟨v, px, py, pz, atoms⟩ : Sys K) = [if px then 1 else 0, if py then 1 else 0, if pz then 1 else 0] := rfl
    simp only [bind, Except.bind, hf, hw]
    rw [← hf, dmag2Api_rows]
    cases dmag2Arr v px py pz l0 l1 <;> simp [Except.map, squeeze, pure, Except.pure, throw, throwThe, MonadExceptOf.throw, decide_len_eq_beq]

/-- the `System.pbc` setter (truth values, exactly three entries) is the hand model. -/
theorem gen_pbcSetter_eq_model (value : List Int) : DvectSource.pbcSetter value = pbcSetterArg value := by
  rcases value with _ | ⟨a, _ | ⟨b, _ | ⟨c, _ | ⟨d, t⟩⟩⟩⟩ <;> simp [DvectSource.pbcSetter, pbcSetterArg]

/-- `System.box_set` as it stands in the source — `scale` popped, then in the `scale is True` branch: relative positions
    read under the OLD cell, `self.box.set(...)` on the Box object the System holds, positions written back under the NEW
    cell; otherwise only `self.box.set(...)` — is the `sysBoxSet` step of the `World` model (refusals for a missing System
    / Box included).  Swapping two of the three statements, dropping one, or setting the box in only one branch breaks
    this obligation. -/
theorem gen_sysBoxSet_eq_model (w : World K) (s : Nat) (v : M3 K) (o : V3 K) (scale : Bool) :
    DvectSource.sysBoxSet w s v o scale = w.step (.sysBoxSet s v o scale) := by
  unfold DvectSource.sysBoxSet World.step World.sposOf World.boxSetOf World.setSpos
  cases hs : w.systems[s]? with
  | none => cases scale <;> simp [hs]
  | some st =>
    cases hb : w.boxes[st.box]? with
    | none =>
      have hlt : ¬ st.box < w.boxes.length := by
        intro h; rw [List.getElem?_eq_getElem h] at hb; cases hb
      cases scale <;> simp [hs, setAt, hlt]
    | some old =>
      have hlt : st.box < w.boxes.length := by
        by_contra h; rw [List.getElem?_eq_none (by omega)] at hb; cases hb
      cases scale <;> simp [hs, setAt, hlt, List.map_map, Function.comp_def]

/-- `scale` defaults to `False` (absolute positions unchanged). -/
theorem gen_box_set_scale_default : DvectSource.boxSetScaleDefault = false := rfl

/-- the part of the argument space the model leaves UNDEFINED (`pbc` with fewer than three entries, arrays whose rows are
    not three long) is exactly where the source reads without a bounds check: both wrappers carry
    `@cython.boundscheck(False)` / `@cython.wraparound(False)` and nothing else.  If a check is switched on (those inputs
    would then raise IndexError instead of reading past the end) this obligation breaks and the refusal has to be modelled. -/
theorem gen_unchecked_reads :
    DvectSource.dvectDecorators = ["cython.boundscheck(False)", "cython.wraparound(False)"] ∧
    DvectSource.dmagDecorators = ["cython.boundscheck(False)", "cython.wraparound(False)"] := ⟨rfl, rfl⟩

theorem gen_getters_live : DvectSource.systemGettersLive = true := rfl

/-- the three modules consist of imports and exactly the translated functions, and `atomman/core/__init__.py` exports these
    very functions (no wrapper, no rebinding). -/
theorem gen_exports_direct : DvectSource.exportsDirect = true := rfl

theorem gen_box_reference_default : DvectSource.boxReferenceDefault = "final" := rfl

theorem zipWith_swap {α β γ : Type} (f : α → β → γ) (l0 : List α) (l1 : List β) :
    List.zipWith (fun q p => f p q) l1 l0 = List.zipWith f l0 l1 := by
  induction l0 generalizing l1 with
  | nil => cases l1 <;> rfl
  | cons x l0 ih => cases l1 <;> simp [ih]

/-- `displacement` as it stands in the source now — the atom-count check first, the chain over `box_reference`, each branch
    calling the WRAPPER `dvect` (broadcasting rule included) with the named system's box and flags, the plain difference
    for `None`, ValueError otherwise — is the hand model (atom-by-atom `zipWith`). -/
theorem gen_displacement_eq_model (s0 s1 : Sys K) (ref : String) :
    DvectSource.displacement s0 s1 ref = displacement s0 s1 ref := by
  unfold DvectSource.displacement displacement
  by_cases hn : s0.pos.length = s1.pos.length
  · have key : ∀ (s : Sys K), DvectSource.dvectWrap s.vects s.flags (.rows s0.pos) (.rows s1.pos) =
        .ok (List.zipWith (dispWith (some (s.vects, s.px, s.py, s.pz))) s0.pos s1.pos) := by
      intro s
      have hw := gen_dvectWrap_eq_model s.vects (if s.px then 1 else 0) (if s.py then 1 else 0) (if s.pz then 1 else 0) []
        (.rows s0.pos) (.rows s1.pos)
      have hf : s.flags = [if s.px then 1 else 0, if s.py then 1 else 0, if s.pz then 1 else 0] := rfl
      rw [hf, hw, ← hf]
      have := dvectApi_rows s.vects s.px s.py s.pz s.pos s0.pos s1.pos
      rw [show (⟨s.vects, s.px, s.py, s.pz, s.pos⟩ : Sys K) = s from rfl] at this
      rw [this]
      have hb : broadcast s0.pos s1.pos = some (s0.pos.zip s1.pos) := by
        rcases h0 : s0.pos with _ | ⟨x, _ | ⟨x', t⟩⟩ <;> rcases h1 : s1.pos with _ | ⟨y, _ | ⟨y', t'⟩⟩ <;>
          simp_all [broadcast]
      simp [dvectArr, hb, zipWith_eq_map_zip', dispWith]
    simp only [Sys.natoms, hn, ne_eq, not_true_eq_false, if_false, refBox]
    by_cases h1 : ref = "final"
    · simp [h1, key]
    · by_cases h2 : ref = "initial"
      · simp [h2, key]
      · by_cases h3 : ref = "None"
        · subst h3
          simp only [show ¬ ("None" = "final") by decide, show ¬ ("None" = "initial") by decide, if_false, if_true]
          rw [zipWith_swap (fun a b => b - a)]
          rfl
        · simp [h1, h2, h3]
  · simp [Sys.natoms, hn]

end Source
end Atomman.C02
