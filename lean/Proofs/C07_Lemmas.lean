/-
  C07 — helper lemmas: rounding (`roundDiv`), decimal digits (`padDigits`, `width`, `digitsVal`),
  reading back what `fmtFixed` / `intTok` print.
-/
import Atomman.C07
import Mathlib.Tactic.Ring
import Mathlib.Tactic.Linarith
import Mathlib.Tactic.FieldSimp
import Mathlib.Tactic.NormNum
import Mathlib.Tactic.Positivity
import Mathlib.Tactic.IntervalCases
import Mathlib.Data.Rat.Defs
import Mathlib.Algebra.Order.Field.Rat
import Mathlib.Algebra.Order.AbsoluteValue.Basic

namespace Atomman.C07
open Atomman
set_option linter.unusedSimpArgs false

/-! ### roundDiv -/

theorem roundDiv_cases (N : Int) (D : Nat) (hD : 0 < D) :
    2 * (roundDiv N D * (D : Int) - N) ≤ D ∧ -(D : Int) ≤ 2 * (roundDiv N D * (D : Int) - N) := by
  have hD' : (0 : Int) < D := by exact_mod_cast hD
  have h1 := Int.emod_add_mul_ediv N (D : Int)
  have h2 := Int.emod_nonneg N (ne_of_gt hD')
  have h3 := Int.emod_lt_of_pos N hD'
  unfold roundDiv
  simp only []
  split_ifs <;> constructor <;> nlinarith

theorem roundDiv_error (N : Int) (D : Nat) (hD : 0 < D) :
    |((roundDiv N D : Int) : ℚ) - (N : ℚ) / (D : ℚ)| ≤ 1 / 2 := by
  obtain ⟨h1, h2⟩ := roundDiv_cases N D hD
  have hD' : (0 : ℚ) < D := by exact_mod_cast hD
  have e : ((roundDiv N D : Int) : ℚ) - (N : ℚ) / (D : ℚ) = ((roundDiv N D * (D : Int) - N : Int) : ℚ) / D := by
    push_cast; field_simp
  rw [e, abs_le]
  have a1 : ((2 * (roundDiv N D * (D : Int) - N) : Int) : ℚ) ≤ ((D : Int) : ℚ) := by exact_mod_cast h1
  have a2 : ((-(D : Int) : Int) : ℚ) ≤ ((2 * (roundDiv N D * (D : Int) - N) : Int) : ℚ) := by exact_mod_cast h2
  push_cast at a1 a2
  constructor
  · rw [le_div_iff₀ hD']; push_cast; linarith
  · rw [div_le_iff₀ hD']; push_cast; linarith

theorem roundDiv_nonneg (N : Int) (D : Nat) (hD : 0 < D) (hN : 0 ≤ N) : 0 ≤ roundDiv N D := by
  obtain ⟨_, h2⟩ := roundDiv_cases N D hD
  have hD' : (0 : Int) < D := by exact_mod_cast hD
  by_contra hc
  push_neg at hc
  have : roundDiv N D ≤ -1 := by omega
  nlinarith

theorem roundDiv_nonpos (N : Int) (D : Nat) (hD : 0 < D) (hN : N ≤ 0) : roundDiv N D ≤ 0 := by
  obtain ⟨h1, _⟩ := roundDiv_cases N D hD
  have hD' : (0 : Int) < D := by exact_mod_cast hD
  by_contra hc
  push_neg at hc
  have : 1 ≤ roundDiv N D := by omega
  nlinarith

/-- rounding to `n` decimals is within half a unit of the last place. -/
theorem fixedVal_error (q : ℚ) (n : Nat) : |fixedVal q n - q| ≤ 1 / (2 * 10 ^ n) := by
  have hden : 0 < q.den := q.den_pos
  have h := roundDiv_error (q.num * ((10 ^ n : Nat) : Int)) q.den hden
  have hp : (0 : ℚ) < 10 ^ n := by positivity
  have hq : (q.num : ℚ) / (q.den : ℚ) = q := Rat.num_div_den q
  have hd : (0 : ℚ) < q.den := by exact_mod_cast hden
  unfold fixedVal fixedScaled
  have key : ∀ (r a d P x : ℚ), 0 < d → 0 < P → a / d = x → r / P - x = (r - a * P / d) / P := by
    intro r a d P x hd hP hx
    subst hx
    field_simp
  have e := key ((roundDiv (q.num * ((10 ^ n : Nat) : Int)) q.den : Int) : ℚ) q.num q.den (10 ^ n) q hd hp hq
  push_cast at h e ⊢
  rw [e, abs_div, abs_of_pos hp, div_le_iff₀ hp]
  calc _ ≤ 1 / 2 := h
    _ = 1 / (2 * 10 ^ n) * 10 ^ n := by field_simp

/-! ### digits -/

theorem digitChar_toNat (d : Nat) (h : d < 10) : (digitChar d).toNat = 48 + d := by
  interval_cases d <;> rfl

theorem isDigit_digitChar (d : Nat) (h : d < 10) : isDigit (digitChar d) = true := by
  interval_cases d <;> rfl

theorem digitsVal_append (a b : List Char) (acc : Nat) :
    digitsVal (a ++ b) acc = digitsVal b (digitsVal a acc) := by
  induction a generalizing acc with
  | nil => rfl
  | cons c cs ih => simp only [List.cons_append, digitsVal, ih]

theorem digitsVal_padDigits (w m acc : Nat) :
    digitsVal (padDigits w m) acc = acc * 10 ^ w + m % 10 ^ w := by
  induction w generalizing m acc with
  | zero => simp [padDigits, digitsVal, Nat.mod_one]
  | succ w ih =>
    have hm : m % 10 < 10 := Nat.mod_lt _ (by norm_num)
    simp only [padDigits, digitsVal_append, ih, digitsVal, digitChar_toNat _ hm]
    have e : m % 10 ^ (w + 1) = m % 10 + 10 * (m / 10 % 10 ^ w) := by
      rw [pow_succ, mul_comm, Nat.mod_mul]
    rw [e]
    have : 48 + m % 10 - 48 = m % 10 := by omega
    rw [this]
    ring

theorem length_padDigits (w m : Nat) : (padDigits w m).length = w := by
  induction w generalizing m with
  | zero => rfl
  | succ w ih => simp [padDigits, ih]

theorem all_isDigit_padDigits (w m : Nat) : (padDigits w m).all isDigit = true := by
  induction w generalizing m with
  | zero => rfl
  | succ w ih =>
    have hm : m % 10 < 10 := Nat.mod_lt _ (by norm_num)
    simp [padDigits, List.all_append, ih, isDigit_digitChar _ hm]

theorem width_pos (m : Nat) : 0 < width m := by
  unfold width; split <;> omega

theorem lt_pow_width (m : Nat) : m < 10 ^ width m := by
  induction m using Nat.strong_induction_on with
  | _ m ih =>
    unfold width
    split
    · omega
    · have h := ih (m / 10) (by omega)
      rw [pow_succ]
      omega

theorem natTok_ne_nil (m : Nat) : natTok m ≠ [] := by
  intro h
  have := congrArg List.length h
  rw [natTok, length_padDigits] at this
  have := width_pos m
  simp at *
  omega

theorem all_isDigit_natTok (m : Nat) : (natTok m).all isDigit = true := all_isDigit_padDigits _ _

theorem digitsVal_natTok (m : Nat) : digitsVal (natTok m) 0 = m := by
  rw [natTok, digitsVal_padDigits, Nat.mod_eq_of_lt (lt_pow_width m)]; simp

theorem parseNat_natTok (m : Nat) : parseNat? (natTok m) = some m := by
  unfold parseNat?
  rw [if_pos ⟨natTok_ne_nil m, all_isDigit_natTok m⟩, digitsVal_natTok]

/-- a token starting with a digit carries no sign. -/
theorem splitSign_of_digits (l : List Char) (h : l.all isDigit = true) : splitSign l = (false, l) := by
  cases l with
  | nil => rfl
  | cons c r =>
    have hc : isDigit c = true := by simp [List.all_cons] at h; exact h.1
    unfold splitSign
    split
    · rename_i heq; injection heq with h1 _; subst h1; exact absurd hc (by decide)
    · rename_i heq; injection heq with h1 _; subst h1; exact absurd hc (by decide)
    · rfl

theorem splitSign_minus (r : List Char) : splitSign ('-' :: r) = (true, r) := rfl

/-- reading back a written integer. -/
theorem parseInt_intTok (i : Int) : parseInt? (intTok i) = some i := by
  unfold parseInt? intTok
  by_cases h : i < 0
  · rw [if_pos h, splitSign_minus]
    simp only [parseNat_natTok, if_true]
    congr 1; omega
  · rw [if_neg h, splitSign_of_digits _ (all_isDigit_natTok _)]
    simp only [parseNat_natTok]
    congr 1
    simp; omega

theorem span_isDigit_append (a : List Char) (c : Char) (r : List Char) (ha : a.all isDigit = true)
    (hc : isDigit c = false) : (a ++ c :: r).span isDigit = (a, c :: r) := by
  rw [List.span_eq_takeWhile_dropWhile]
  induction a with
  | nil => simp [List.takeWhile_cons, List.dropWhile_cons, hc]
  | cons x xs ih =>
    simp only [List.all_cons, Bool.and_eq_true] at ha
    have := ih ha.2
    simp only [Prod.mk.injEq] at this
    simp [List.takeWhile_cons, List.dropWhile_cons, ha.1, this.1, this.2]

theorem span_isDigit_all (a : List Char) (ha : a.all isDigit = true) : a.span isDigit = (a, []) := by
  rw [List.span_eq_takeWhile_dropWhile]
  induction a with
  | nil => rfl
  | cons x xs ih =>
    simp only [List.all_cons, Bool.and_eq_true] at ha
    have := ih ha.2
    simp only [Prod.mk.injEq] at this
    simp [List.takeWhile_cons, List.dropWhile_cons, ha.1, this.1, this.2]

theorem splitSign_cons_digit (c : Char) (r : List Char) (hc : isDigit c = true) :
    splitSign (c :: r) = (false, c :: r) := by
  unfold splitSign
  split
  · rename_i heq; injection heq with h1 _; subst h1; exact absurd hc (by decide)
  · rename_i heq; injection heq with h1 _; subst h1; exact absurd hc (by decide)
  · rfl

theorem splitSign_natTok_append (m : Nat) (b : List Char) :
    splitSign (natTok m ++ b) = (false, natTok m ++ b) := by
  have hne := natTok_ne_nil m
  have hall := all_isDigit_natTok m
  cases h : natTok m with
  | nil => exact absurd h hne
  | cons c r =>
    rw [h] at hall
    simp only [List.all_cons, Bool.and_eq_true] at hall
    exact splitSign_cons_digit c _ hall.1

theorem pow10_zero : pow10 0 = 1 := by simp [pow10]

theorem parseUnsigned_fixed (ip fr n : Nat) (hfr : fr < 10 ^ n) :
    parseUnsigned? (natTok ip ++ (if n = 0 then [] else '.' :: padDigits n fr))
      = some (((ip * 10 ^ n + fr : Nat) : ℚ) / ((10 ^ n : Nat) : ℚ)) := by
  have hne := natTok_ne_nil ip
  by_cases hn : n = 0
  · subst hn
    have hfr0 : fr = 0 := by simpa using hfr
    subst hfr0
    simp only [if_true, List.append_nil]
    unfold parseUnsigned?
    simp only [span_isDigit_all _ (all_isDigit_natTok ip), fracPart, parseExp?, List.length_nil, List.append_nil,
      digitsVal_natTok, pow10_zero]
    rw [if_neg (by simp [hne])]
    simp
  · rw [if_neg hn]
    unfold parseUnsigned?
    have hdot : isDigit '.' = false := by decide
    simp only [span_isDigit_append _ '.' _ (all_isDigit_natTok ip) hdot, fracPart,
      span_isDigit_all _ (all_isDigit_padDigits n fr), parseExp?, length_padDigits, pow10_zero]
    rw [if_neg (by simp [hne])]
    simp only [digitsVal_append, digitsVal_natTok, digitsVal_padDigits, Nat.mod_eq_of_lt hfr]
    simp

/-! ### reading `fmtFixed` back -/

theorem cast_of_nonpos (z : Int) (h : z ≤ 0) : (z : ℚ) = -((z.natAbs : Nat) : ℚ) := by
  have hz : (z : ℚ) ≤ 0 := by exact_mod_cast h
  rw [Nat.cast_natAbs, Int.cast_abs, abs_of_nonpos hz]; ring

theorem cast_of_nonneg (z : Int) (h : 0 ≤ z) : (z : ℚ) = ((z.natAbs : Nat) : ℚ) := by
  have hz : (0 : ℚ) ≤ z := by exact_mod_cast h
  rw [Nat.cast_natAbs, Int.cast_abs, abs_of_nonneg hz]

/-- the independent number parser reads the text of `'%.nf' % q` as exactly `q` rounded to `n` decimals. -/
theorem parseNum_fmtFixed (q : ℚ) (n : Nat) : parseNum? (fmtFixed q n) = some (fixedVal q n) := by
  have hden : 0 < q.den := q.den_pos
  have hP : (0 : ℚ) < ((10 ^ n : Nat) : ℚ) := by positivity
  set M := (fixedScaled q n).natAbs with hM
  have hfr : M % 10 ^ n < 10 ^ n := Nat.mod_lt _ (by positivity)
  have hsplit : M / 10 ^ n * 10 ^ n + M % 10 ^ n = M := Nat.div_add_mod' M (10 ^ n)
  have hun := parseUnsigned_fixed (M / 10 ^ n) (M % 10 ^ n) n hfr
  rw [hsplit] at hun
  unfold parseNum? fmtFixed
  simp only [← hM]
  by_cases hq : q < 0
  · have hnum : q.num * ((10 ^ n : Nat) : Int) ≤ 0 := by
      have : q.num < 0 := Rat.num_neg.mpr hq
      have h10 : (0 : Int) ≤ ((10 ^ n : Nat) : Int) := by positivity
      nlinarith
    have hs : fixedScaled q n ≤ 0 := roundDiv_nonpos _ _ hden hnum
    rw [if_pos hq]
    simp only [List.cons_append, List.nil_append, List.append_assoc, splitSign_minus, hun, if_true]
    congr 1
    unfold fixedVal
    have : ((fixedScaled q n : Int) : ℚ) = -((M : Nat) : ℚ) := cast_of_nonpos _ hs
    rw [this]; ring
  · have hnum : 0 ≤ q.num * ((10 ^ n : Nat) : Int) := by
      have : 0 ≤ q.num := Rat.num_nonneg.mpr (not_lt.mp hq)
      positivity
    have hs : 0 ≤ fixedScaled q n := roundDiv_nonneg _ _ hden hnum
    rw [if_neg hq]
    simp only [List.nil_append, List.append_assoc, splitSign_natTok_append, hun]
    congr 1
    unfold fixedVal
    have : ((fixedScaled q n : Int) : ℚ) = ((M : Nat) : ℚ) := cast_of_nonneg _ hs
    rw [this]; simp

end Atomman.C07
